import Driver.OpsEffects
import Driver.Loop
def main : IO Unit := Driver.runLoop Driver.opsEffects

import Driver.OpsDist
import Driver.Loop
def main : IO Unit := Driver.runLoop Driver.opsDist

import PbBss.Model.Em
import PbBss.Model.Num
import Driver.Util
/-! line-protocol operations of the `Em` models (one EM iteration from a given model, step-wise).

common header (tokens 1..):  F K N D rule uniform G  grp[N] slice[N] s[N]
  N = number of observations (all leading indices together), `slice n < F` its leading index,
  `grp n < G` its weight-tying group, rule 0 = mean / 1 = unitNorm, uniform 1 = weights fixed to 1/K.
then per operation:
  gmm-sph / gmm-diag / gmm-full : y[N*D] weight[K*N] mean[F*K*D] var[F*K] | var[F*K*D] | cov[F*K*D*D]
  watson             : y[N*D cx] weight[K*N] mode[K*D cx] kappa[K] lognorm[K]                 (F = 1)
  cacg               : nrm floor  z[N*D cx] weight[K*N] vecs[K*D*D cx] vals[K*D]               (F = 1)
output: groups separated by " | " :
  L  Lmethod | posterior[K*N] | new weight[K*N] | new component parameters … -/
open PbBss PbBss.Em
namespace Driver

def tinyE : Float := 2.2250738585072014e-308
def epsE : Float := 1e-10
def log2piE : Float := Float.log (2 * 3.141592653589793)

def cx (a : Array String) (off i : Nat) : CF := ⟨fl a off (2*i), fl a off (2*i+1)⟩

def fin2 {n m : Nat} (f : Fin n → Fin m → Float) : List Float :=
  (List.finRange n).flatMap fun i => (List.finRange m).map fun j => f i j

def cxs (z : CF) : List Float := [z.re, z.im]

structure Hdr where
  F : Nat
  K : Nat
  N : Nat
  D : Nat
  rule : WeightRule
  uniform : Bool
  G : Nat
  off : Nat      -- first token after grp/slice/s

def hdr (a : Array String) : Hdr :=
  let N := tokNat a 3
  ⟨tokNat a 1, tokNat a 2, N, tokNat a 4,
   (match tokNat a 5 with | 0 => .mean | 1 => .unitNorm | _ => .tinyFloor), tokNat a 6 == 1,
   tokNat a 7, 8 + 3 * N⟩

/-- everything an op prints that does not depend on the family's parameter type -/
def stepCommon {Θ Y : Type} {K N : Nat} (fam : Family Θ Y Float) (h : Hdr) (tie : Tying N)
    (s : Fin N → Float) (y : Fin N → Y) (θ : Mixture Θ Float (K+1) N) :
    String × Mixture Θ Float (K+1) N :=
  let L := logLik fam s θ y
  let Lm := logLikMethod fam θ y
  let γ := tab2 (eStep tinyE fam θ y)
  -- the floor of the weight update: 1e-10 (`estimate_mixture_weight`) resp. `tiny` (inline update of the integration models)
  let eps := match h.rule with | .tinyFloor => tinyE | _ => epsE
  let θ' := emStep tinyE fam h.rule tie eps s y θ
  (fmtFloats [L, Lm] ++ " | " ++ fmtFloats (fin2 (rd2 γ)) ++ " | " ++ fmtFloats (fin2 θ'.w), θ')

def toMat {D : Nat} (m : Tab D (Tab D CF)) : Num.Mat :=
  Array.ofFn (n := D) fun i => Array.ofFn (n := D) fun j => ⟨(rd2 m i j).re, (rd2 m i j).im⟩

/-- `np.linalg.eigh` replaced by the Jacobi routine of `Model/Num.lean` (ascending eigenvalues) -/
def eighJacobi {D : Nat} (m : Tab D (Tab D CF)) : Tab D (Tab D CF) × Tab D Float :=
  let r := Num.eigh D (toMat m)
  (tab2 fun i j => let c := r.2.get i.val j.val; (⟨c.re, c.im⟩ : CF), tab fun e => r.1[e.val]!)

/-- sklearn's `_compute_precision_cholesky(cov, 'full')` and `_compute_log_det_cholesky` on `Float`: Cholesky
`Σ = L Lᵀ`, `P = L⁻ᵀ` (upper triangular, `P Pᵀ = Σ⁻¹`), `ℓ = Σ_d log P_dd` (driver-side numerics, external of the model) -/
def pcholFloat {D : Nat} (cov : Tab D (Tab D Float)) : Tab D (Tab D Float) × Float := Id.run do
  let c : Array (Array Float) := Array.ofFn (n := D) fun i => Array.ofFn (n := D) fun j => rd2 cov i j
  let mut L : Array (Array Float) := Array.replicate D (Array.replicate D 0.0)
  for i in [0:D] do
    for j in [0:i+1] do
      let mut sum := (c[i]!)[j]!
      for k in [0:j] do
        sum := sum - (L[i]!)[k]! * (L[j]!)[k]!
      if i == j then
        L := L.set! i ((L[i]!).set! j (Float.sqrt sum))
      else
        L := L.set! i ((L[i]!).set! j (sum / (L[j]!)[j]!))
  let mut M : Array (Array Float) := Array.replicate D (Array.replicate D 0.0)
  for col in [0:D] do
    for i in [col:D] do
      let mut sum := if i == col then 1.0 else 0.0
      for k in [col:i] do
        sum := sum - (L[i]!)[k]! * (M[k]!)[col]!
      M := M.set! i ((M[i]!).set! col (sum / (L[i]!)[i]!))
  let mut ell := 0.0
  for d in [0:D] do
    ell := ell + Float.log ((M[d]!)[d]!)
  return (tab2 fun e d => (M[d.val]!)[e.val]!, ell)

def opsEm (a : Array String) : Option String :=
  let h := hdr a
  match h.K, h.F with
  | 0, _ => none
  | _, 0 => none
  | K' + 1, F' + 1 =>
    let N := h.N; let D := h.D
    let tie : Tying N := ⟨h.uniform, h.G + 1, tab fun n => Fin.ofNat (h.G + 1) (tokNat a (8 + n.val))⟩
    let sT : Tab N Float := tab fun n => fl a (8 + 2 * N) n.val
    let s : Fin N → Float := rd sT
    let sl : Tab N (Fin (F' + 1)) := tab fun n => Fin.ofNat (F' + 1) (tokNat a (8 + N + n.val))
    let o := h.off
    match a[0]! with
    | "gmm-sph" =>
      let yv : Tab N (Tab D Float) := tab2 fun n d => fl a o (n.val * D + d.val)
      let yT : Tab N (Fin (F' + 1) × (Fin D → Float)) := tab fun n => (rd sl n, rd (rd yv n))
      let ow := o + N * D
      let om := ow + (K' + 1) * N
      let ov := om + (F' + 1) * (K' + 1) * D
      let fam := sliced (F := F' + 1) (sphFamily D tinyE log2piE)
      let θ : Mixture (Tab (F' + 1) (SphG Float D)) Float (K' + 1) N :=
        ⟨tab2 fun k n => fl a ow (k.val * N + n.val),
         tab fun k => tab fun f => ⟨tab fun d => fl a om ((f.val * (K' + 1) + k.val) * D + d.val),
                                    fl a ov (f.val * (K' + 1) + k.val)⟩⟩
      let (out, θ') := stepCommon fam h tie s (rd yT) θ
      let means := (List.finRange (F' + 1)).flatMap fun f => (List.finRange (K' + 1)).flatMap fun k =>
        (List.finRange D).map fun d => rd (rd (θ'.c k) f).mean d
      let vars := (List.finRange (F' + 1)).flatMap fun f => (List.finRange (K' + 1)).map fun k => (rd (θ'.c k) f).var
      some (out ++ " | " ++ fmtFloats means ++ " | " ++ fmtFloats vars)
    | "gmm-diag" =>
      let yv : Tab N (Tab D Float) := tab2 fun n d => fl a o (n.val * D + d.val)
      let yT : Tab N (Fin (F' + 1) × (Fin D → Float)) := tab fun n => (rd sl n, rd (rd yv n))
      let ow := o + N * D
      let om := ow + (K' + 1) * N
      let ov := om + (F' + 1) * (K' + 1) * D
      let fam := sliced (F := F' + 1) (diagFamily D tinyE log2piE)
      let θ : Mixture (Tab (F' + 1) (DiagG Float D)) Float (K' + 1) N :=
        ⟨tab2 fun k n => fl a ow (k.val * N + n.val),
         tab fun k => tab fun f => ⟨tab fun d => fl a om ((f.val * (K' + 1) + k.val) * D + d.val),
                                    tab fun d => fl a ov ((f.val * (K' + 1) + k.val) * D + d.val)⟩⟩
      let (out, θ') := stepCommon fam h tie s (rd yT) θ
      let means := (List.finRange (F' + 1)).flatMap fun f => (List.finRange (K' + 1)).flatMap fun k =>
        (List.finRange D).map fun d => rd (rd (θ'.c k) f).mean d
      let vars := (List.finRange (F' + 1)).flatMap fun f => (List.finRange (K' + 1)).flatMap fun k =>
        (List.finRange D).map fun d => rd (rd (θ'.c k) f).var d
      some (out ++ " | " ++ fmtFloats means ++ " | " ++ fmtFloats vars)
    | "gmm-full" =>
      let yv : Tab N (Tab D Float) := tab2 fun n d => fl a o (n.val * D + d.val)
      let yT : Tab N (Fin (F' + 1) × (Fin D → Float)) := tab fun n => (rd sl n, rd (rd yv n))
      let ow := o + N * D
      let om := ow + (K' + 1) * N
      let ov := om + (F' + 1) * (K' + 1) * D
      let fam := sliced (F := F' + 1) (fullFamily D (pcholFloat (D := D)) tinyE log2piE)
      let θ : Mixture (Tab (F' + 1) (FullG Float D)) Float (K' + 1) N :=
        ⟨tab2 fun k n => fl a ow (k.val * N + n.val),
         tab fun k => tab fun f => ⟨tab fun d => fl a om ((f.val * (K' + 1) + k.val) * D + d.val),
                                    tab2 fun d e => fl a ov (((f.val * (K' + 1) + k.val) * D + d.val) * D + e.val)⟩⟩
      let (out, θ') := stepCommon fam h tie s (rd yT) θ
      let means := (List.finRange (F' + 1)).flatMap fun f => (List.finRange (K' + 1)).flatMap fun k =>
        (List.finRange D).map fun d => rd (rd (θ'.c k) f).mean d
      let covs := (List.finRange (F' + 1)).flatMap fun f => (List.finRange (K' + 1)).flatMap fun k =>
        (List.finRange D).flatMap fun d => (List.finRange D).map fun e => rd2 (rd (θ'.c k) f).cov d e
      some (out ++ " | " ++ fmtFloats means ++ " | " ++ fmtFloats covs)
    | "vmf" =>
      -- after the header:  lo hi  y[N*D] (unit norm)  weight[K*N]  mean[F*K*D]  kappa[F*K]  lognorm[F*K]
      let lo := tokFloat a o
      let hi := tokFloat a (o + 1)
      let oy := o + 2
      let yv : Tab N (Tab D Float) := tab2 fun n d => fl a oy (n.val * D + d.val)
      let yT : Tab N (Fin (F' + 1) × (Fin D → Float)) := tab fun n => (rd sl n, rd (rd yv n))
      let ow := oy + N * D
      let om := ow + (K' + 1) * N
      let ok := om + (F' + 1) * (K' + 1) * D
      let ol := ok + (F' + 1) * (K' + 1)
      -- the log-normaliser of the NEW concentration is not printed, so the external is not evaluated here
      let fam := sliced (F := F' + 1) (vmfFamily D (fun x => x) lo hi tinyE)
      let θ : Mixture (Tab (F' + 1) (Vmf Float D)) Float (K' + 1) N :=
        ⟨tab2 fun k n => fl a ow (k.val * N + n.val),
         tab fun k => tab fun f => ⟨tab fun d => fl a om ((f.val * (K' + 1) + k.val) * D + d.val),
                                    fl a ok (f.val * (K' + 1) + k.val), fl a ol (f.val * (K' + 1) + k.val)⟩⟩
      let (out, θ') := stepCommon fam h tie s (rd yT) θ
      let means := (List.finRange (F' + 1)).flatMap fun f => (List.finRange (K' + 1)).flatMap fun k =>
        (List.finRange D).map fun d => rd (rd (θ'.c k) f).mean d
      let kap := (List.finRange (F' + 1)).flatMap fun f => (List.finRange (K' + 1)).map fun k => (rd (θ'.c k) f).kappa
      some (out ++ " | " ++ fmtFloats means ++ " | " ++ fmtFloats kap)
    | "watson" =>
      let yT : Tab N (Tab D CF) := tab2 fun n d => cx a o (n.val * D + d.val)
      let y : Fin N → Fin D → CF := fun n => rd (rd yT n)
      let ow := o + 2 * N * D
      let om := ow + (K' + 1) * N
      let ok := om + 2 * (K' + 1) * D
      let ol := ok + (K' + 1)
      -- the externals of the M-step are not evaluated here: the scatter matrices are printed instead and the
      -- harness checks the PCA / spline contract of the code's next iterate against them
      let fam : Family (Watson Float CF D) (Fin D → CF) Float :=
        watsonFamily D (fun _ => (tab fun _ => 0, 0)) (fun x => x) (fun x => x)
      let θ : Mixture (Watson Float CF D) Float (K' + 1) N :=
        ⟨tab2 fun k n => fl a ow (k.val * N + n.val),
         tab fun k => ⟨tab fun d => cx a om (k.val * D + d.val), fl a ok k.val, fl a ol k.val⟩⟩
      let (out, _) := stepCommon fam h tie s y θ
      let γ := tab2 (eStep tinyE fam θ y)
      let covs := (List.finRange (K' + 1)).flatMap fun k =>
        let sc := watsonScatter (α := Float) (fun n => rd2 γ k n * s n) y
        (List.finRange D).flatMap fun d => (List.finRange D).flatMap fun e => cxs (rd2 sc d e)
      some (out ++ " | " ++ fmtFloats covs)
    | "cacg" =>
      match D with
      | 0 => none
      | D' + 1 =>
        let nrm : CovNorm := match tokNat a o with | 0 => .eigenvalue | 1 => .trace | _ => .none
        let floor := tokFloat a (o + 1)
        let oz := o + 2
        let zT : Tab N (Tab (D' + 1) CF) := tab2 fun n d => cx a oz (n.val * (D' + 1) + d.val)
        let z : Fin N → Fin (D' + 1) → CF := fun n => rd (rd zT n)
        let ow := oz + 2 * N * (D' + 1)
        let ou := ow + (K' + 1) * N
        let ol := ou + 2 * (K' + 1) * (D' + 1) * (D' + 1)
        let fam := cacgFamily D' (eighJacobi (D := D' + 1)) nrm floor tinyE
        let θ : Mixture (Cacg Float CF (D' + 1)) Float (K' + 1) N :=
          ⟨tab2 fun k n => fl a ow (k.val * N + n.val),
           tab fun k => ⟨tab2 fun d e => cx a ou ((k.val * (D' + 1) + d.val) * (D' + 1) + e.val),
                         tab fun e => fl a ol (k.val * (D' + 1) + e.val)⟩⟩
        let (out, θ') := stepCommon fam h tie s z θ
        let q := fin2 (eAux fam θ z)
        let vals := (List.finRange (K' + 1)).flatMap fun k => (List.finRange (D' + 1)).map fun e => rd (θ'.c k).vals e
        -- gauge-free: the covariance `U diag(λ) Uᴴ`
        let cov := (List.finRange (K' + 1)).flatMap fun k =>
          let c := θ'.c k
          (List.finRange (D' + 1)).flatMap fun d => (List.finRange (D' + 1)).flatMap fun g =>
            cxs (vsum fun e => rd2 c.vecs d e * (⟨rd c.vals e, 0⟩ : CF)
                  * (⟨(rd2 c.vecs g e).re, -(rd2 c.vecs g e).im⟩ : CF))
        some (out ++ " | " ++ fmtFloats q ++ " | " ++ fmtFloats vals ++ " | " ++ fmtFloats cov)
    | "gcacgmm-sph" | "gcacgmm-diag" | "gcacgmm-full" =>
      match D with
      | 0 => none
      | D' + 1 =>
        -- tokens after the header:  E nrm floor  z[N*D cx]  e[N*E]  weight[K*N]  vecs[F*K*D*D cx]  vals[F*K*D]  mean[K*E]  cov
        let E := tokNat a o
        let nrm : CovNorm := match tokNat a (o + 1) with | 0 => .eigenvalue | 1 => .trace | _ => .none
        let floor := tokFloat a (o + 2)
        let oz := o + 3
        let zT : Tab N (Tab (D' + 1) CF) := tab2 fun n d => cx a oz (n.val * (D' + 1) + d.val)
        let oe := oz + 2 * N * (D' + 1)
        let eT : Tab N (Tab E Float) := tab2 fun n d => fl a oe (n.val * E + d.val)
        let yT : Tab N ((Fin (F' + 1) × (Fin (D' + 1) → CF)) × (Fin E → Float)) :=
          tab fun n => ((rd sl n, rd (rd zT n)), rd (rd eT n))
        let ow := oe + N * E
        let ou := ow + (K' + 1) * N
        let ol := ou + 2 * (F' + 1) * (K' + 1) * (D' + 1) * (D' + 1)
        let om := ol + (F' + 1) * (K' + 1) * (D' + 1)
        let ov := om + (K' + 1) * E
        let cfam := sliced (F := F' + 1) (cacgFamily D' (eighJacobi (D := D' + 1)) nrm floor tinyE)
        let cacgOf : Fin (K' + 1) → Tab (F' + 1) (Cacg Float CF (D' + 1)) := fun k => tab fun f =>
          ⟨tab2 fun d e => cx a ou (((f.val * (K' + 1) + k.val) * (D' + 1) + d.val) * (D' + 1) + e.val),
           tab fun e => fl a ol ((f.val * (K' + 1) + k.val) * (D' + 1) + e.val)⟩
        let wT : Tab (K' + 1) (Tab N Float) := tab2 fun k n => fl a ow (k.val * N + n.val)
        let cacgOut := fun (c : Fin (K' + 1) → Tab (F' + 1) (Cacg Float CF (D' + 1))) =>
          let vals := (List.finRange (F' + 1)).flatMap fun f => (List.finRange (K' + 1)).flatMap fun k =>
            (List.finRange (D' + 1)).map fun e => rd (rd (c k) f).vals e
          let cov := (List.finRange (F' + 1)).flatMap fun f => (List.finRange (K' + 1)).flatMap fun k =>
            let m := rd (c k) f
            (List.finRange (D' + 1)).flatMap fun d => (List.finRange (D' + 1)).flatMap fun g =>
              cxs (vsum fun e => rd2 m.vecs d e * (⟨rd m.vals e, 0⟩ : CF)
                    * (⟨(rd2 m.vecs g e).re, -(rd2 m.vecs g e).im⟩ : CF))
          fmtFloats vals ++ " | " ++ fmtFloats cov
        match a[0]! with
        | "gcacgmm-sph" =>
          let fam := prodFamily cfam (sphFamily E tinyE log2piE)
          let θ : Mixture _ Float (K' + 1) N :=
            ⟨wT, tab fun k => (cacgOf k, ⟨tab fun d => fl a om (k.val * E + d.val), fl a ov k.val⟩)⟩
          let (out, θ') := stepCommon fam h tie s (rd yT) θ
          let q := fin2 (eAux fam θ (rd yT))
          let means := (List.finRange (K' + 1)).flatMap fun k => (List.finRange E).map fun d => rd (θ'.c k).2.mean d
          let covs := (List.finRange (K' + 1)).map fun k => (θ'.c k).2.var
          some (out ++ " | " ++ fmtFloats q ++ " | " ++ cacgOut (fun k => (θ'.c k).1) ++ " | " ++ fmtFloats means
                ++ " | " ++ fmtFloats covs)
        | "gcacgmm-diag" =>
          let fam := prodFamily cfam (diagFamily E tinyE log2piE)
          let θ : Mixture _ Float (K' + 1) N :=
            ⟨wT, tab fun k => (cacgOf k, ⟨tab fun d => fl a om (k.val * E + d.val),
                                         tab fun d => fl a ov (k.val * E + d.val)⟩)⟩
          let (out, θ') := stepCommon fam h tie s (rd yT) θ
          let q := fin2 (eAux fam θ (rd yT))
          let means := (List.finRange (K' + 1)).flatMap fun k => (List.finRange E).map fun d => rd (θ'.c k).2.mean d
          let covs := (List.finRange (K' + 1)).flatMap fun k => (List.finRange E).map fun d => rd (θ'.c k).2.var d
          some (out ++ " | " ++ fmtFloats q ++ " | " ++ cacgOut (fun k => (θ'.c k).1) ++ " | " ++ fmtFloats means
                ++ " | " ++ fmtFloats covs)
        | _ =>
          let fam := prodFamily cfam (fullFamily E (pcholFloat (D := E)) tinyE log2piE)
          let θ : Mixture _ Float (K' + 1) N :=
            ⟨wT, tab fun k => (cacgOf k, ⟨tab fun d => fl a om (k.val * E + d.val),
                                         tab2 fun d e => fl a ov ((k.val * E + d.val) * E + e.val)⟩)⟩
          let (out, θ') := stepCommon fam h tie s (rd yT) θ
          let q := fin2 (eAux fam θ (rd yT))
          let means := (List.finRange (K' + 1)).flatMap fun k => (List.finRange E).map fun d => rd (θ'.c k).2.mean d
          let covs := (List.finRange (K' + 1)).flatMap fun k => (List.finRange E).flatMap fun d =>
            (List.finRange E).map fun e => rd2 (θ'.c k).2.cov d e
          some (out ++ " | " ++ fmtFloats q ++ " | " ++ cacgOut (fun k => (θ'.c k).1) ++ " | " ++ fmtFloats means
                ++ " | " ++ fmtFloats covs)
    | _ => none

end Driver

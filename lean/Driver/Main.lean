import Driver.OpsAlign
open Driver

def handle (a : Array String) : String :=
  if a.size == 0 then "bad-op" else
  match opsAlign a with
  | some r => r
  | none => "bad-op"

partial def loop (h : IO.FS.Stream) : IO Unit := do
  let line ← h.getLine
  if line.isEmpty then return ()
  let toks := ((line.trimAscii.toString.splitOn " ").filter (· ≠ "")).toArray
  IO.println (handle toks)
  loop h

def main : IO Unit := do loop (← IO.getStdin)

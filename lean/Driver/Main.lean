import Driver.OpsAlign
import Driver.Loop
def main : IO Unit := Driver.runLoop Driver.opsAlign

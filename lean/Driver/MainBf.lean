import Driver.OpsBf
import Driver.Loop
def main : IO Unit := Driver.runLoop Driver.opsBf

import PbBss.Model.Metrics
import Driver.Util
/-! line-protocol operations of the `Metrics` models (`si_sdr`, `get_snr`, `set_snr`, `input_sxr`, `output_sxr`,
`return_dict` logic).  Groups of the reply are separated by `|`. -/
open PbBss PbBss.Metrics
namespace Driver

/-! Compiled Lean eta-expands a definition that returns a function, so data is always held in `Vector`s that
are bound by `let` in the operation body and only then wrapped into the `Fin n → Float` the models expect. -/
def vf {T : Nat} (v : Vector Float T) : Fin T → Float := fun t => v[t]

def vecD (a : Array String) (off T : Nat) : Vector Float T := Vector.ofFn fun t => fl a off t.val

def meanPowerAt (a : Array String) (off T : Nat) : Float :=
  let v := vecD a off T
  meanPower (vf v)

/-- powers `S[i, j] = mean(x[i, j, :] ** 2)` as a table -/
def powerTabD (a : Array String) (off n m T : Nat) : Vector (Vector Float m) n :=
  Vector.ofFn fun i => Vector.ofFn fun j => meanPowerAt a (off + (i.val * m + j.val) * T) T

def powerVecD (a : Array String) (off n T : Nat) : Vector Float n :=
  Vector.ofFn fun i => meanPowerAt a (off + i.val * T) T

def fmtTriples (xs : List (Float × Float × Float)) : String :=
  fmtFloats (xs.map (·.1)) ++ " | " ++ fmtFloats (xs.map (·.2.1)) ++ " | " ++ fmtFloats (xs.map (·.2.2))

def fmtKey (s : String) : String := ",".intercalate (s.toList.map fun c => toString c.toNat)

def retArgOf (a : Array String) : RetArg :=
  -- retdict <fn> <kind> <flag> n <char codes>
  match a[2]! with
  | "bool" => .bool (tokNat a 3 != 0)
  | "str" => .str (String.ofList ((List.range (tokNat a 4)).map fun i => Char.ofNat (tokNat a (5 + i))))
  | _ => .other (tokNat a 3 != 0)

def fmtRet : RetShape → String
  | .tuple => "tuple"
  | .typeError => "typeerror"
  | .dict keys => "dict " ++ " ".intercalate (keys.map fmtKey)

def opsMetrics (a : Array String) : Option String :=
  match a[0]! with
  | "sisdr" =>
    -- sisdr B T <reference B*T> <estimation B*T>
    let B := tokNat a 1; let T := tokNat a 2
    some (fmtFloats ((List.range B).map fun b =>
      let s := vecD a (3 + b*T) T; let e := vecD a (3 + B*T + b*T) T
      siSdr (vf s) (vf e)))
  | "getsnr" =>
    -- getsnr T <X> <N>
    let T := tokNat a 1
    let X := vecD a 2 T; let N := vecD a (2 + T) T
    some (fmtFloats [getSnr (vf X) (vf N)])
  | "getsnrc" =>
    -- getsnrc T <X re> <X im> <N re> <N im>
    let T := tokNat a 1
    let xr := vecD a 2 T; let xi := vecD a (2 + T) T; let nr := vecD a (2 + 2*T) T; let ni := vecD a (2 + 3*T) T
    some (fmtFloats [snrOfPowers (meanPowerC (vf xr) (vf xi))
      (meanPowerC (vf nr) (vf ni))])
  | "setsnr" =>
    -- setsnr T <snr> <X> <N>
    let T := tokNat a 1
    let X := vecD a 3 T; let N := vecD a (3 + T) T
    -- `setSnr X N snr = scaleNoise (snrFactor snr (getSnr X N)) N`, with the factor evaluated once
    let f := snrFactor (tokFloat a 2) (getSnr (vf X) (vf N))
    some (fmtFloats ((List.finRange T).map (scaleNoise f (vf N))))
  | "factor" =>
    -- factor <snr> <current>
    some (fmtFloats [snrFactor (tokFloat a 1) (tokFloat a 2)])
  | "insxr" =>
    -- insxr K D T avs avc <images K*D*T> <noise D*T>
    let K := tokNat a 1; let D := tokNat a 2; let T := tokNat a 3
    let avs := tokNat a 4 != 0; let avc := tokNat a 5 != 0
    let Sd := powerTabD a 6 K D T
    let Nd := powerVecD a (6 + K*D*T) D T
    let S : Fin K → Fin D → Float := fun k d => (Sd[k])[d]
    let N : Fin D → Float := vf Nd
    some (match avs, avc with
      | false, false => fmtTriples ((List.finRange K).flatMap fun k => (List.finRange D).map fun d => inputSxrFF S N k d)
      | false, true => fmtTriples ((List.finRange K).map fun k => inputSxrFT S N k)
      | true, false => fmtTriples ((List.finRange D).map fun d => inputSxrTF S N d)
      | true, true => fmtTriples [inputSxrTT S N])
  | "outsxr" =>
    -- outsxr Ks Kt T avs <image_contribution Ks*Kt*T> <noise_contribution Kt*T>
    let Ks := tokNat a 1; let Kt := tokNat a 2; let T := tokNat a 3
    let avs := tokNat a 4 != 0
    if hKt : 0 < Kt then
      let Sd := powerTabD a 5 Ks Kt T
      let Nd := powerVecD a (5 + Ks*Kt*T) Kt T
      let S : Fin Ks → Fin Kt → Float := fun k j => (Sd[k])[j]
      let N : Fin Kt → Float := vf Nd
      match selectOutputs Ks Kt (extend S) with
      | none => some "raise"
      | some p =>
        let per := outputSxrPer S N (selFn hKt p)
        some (fmtNats p ++ " | " ++ (if avs then fmtTriples [meanTriple per] else fmtTriples ((List.finRange Ks).map per)))
    else some "raise"
  | "retdict" =>
    some (fmtRet (if a[1]! == "input_sxr" then inputRet (retArgOf a) else outputRet (retArgOf a)))
  | _ => none

end Driver

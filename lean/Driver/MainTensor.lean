import Driver.OpsTensor
import Driver.Loop
def main : IO Unit := Driver.runLoop Driver.opsTensor

import Driver.OpsPsd
import Driver.Loop
def main : IO Unit := Driver.runLoop Driver.opsPsd

import Driver.Util
/-! line-protocol operations of the `Psd` models (stub: filled in by the owner of these models) -/
namespace Driver

def opsPsd (a : Array String) : Option String :=
  match a[0]! with
  | _ => none

end Driver

import PbBss.Model.Psd
import PbBss.Model.BfWrapper
import Driver.Util
/-! line-protocol operations of the `Psd` and `BfWrapper` models (executable `driver_psd`) -/
open PbBss PbBss.Psd PbBss.BfWrapper
namespace Driver

/-- `len` doubles starting at token `off` -/
def floatsFrom (a : Array String) (off len : Nat) : Array Float :=
  (Array.range len).map fun i => tokFloat a (off + i)

def cxAt (xs : Array Float) (i : Nat) : CF := ⟨xs[2*i]!, xs[2*i+1]!⟩

def fmtCx (xs : List CF) : String := fmtFloats (xs.flatMap fun z => [z.re, z.im])

/-- row-major flat index -/
def flatIdx (shape idx : List Nat) : Nat :=
  (shape.zip idx).foldl (fun acc p => acc * p.1 + p.2) 0

/-- all multi-indices of a shape in row-major order -/
def allIdx : List Nat → List (List Nat)
  | [] => [[]]
  | s :: rest => (List.range s).flatMap fun i => (allIdx rest).map fun r => i :: r

def natsFrom (a : Array String) (off len : Nat) : List Nat := (List.range len).map fun i => tokNat a (off + i)

def prod (l : List Nat) : Nat := l.foldl (· * ·) 1

def opsPsd (a : Array String) : Option String :=
  match a[0]! with
  | "psd" | "psdbool" =>
    -- psd <normalize> L K D T <floor> <obs L*D*T complex> <mask L*K*T doubles | 0/1>
    let isBool := a[0]! == "psdbool"
    let normalize := tokNat a 1 == 1
    let L := tokNat a 2; let K := tokNat a 3; let D := tokNat a 4; let T := tokNat a 5
    let floor := tokFloat a 6
    let xs := floatsFrom a 7 (2 * L * D * T)
    let moff := 7 + 2 * L * D * T
    let ms : Array Float := if isBool then #[] else floatsFrom a moff (L * K * T)
    some (fmtCx ((List.range L).flatMap fun l => (List.range K).flatMap fun k =>
      let x : Fin D → Fin T → CF := fun d t => cxAt xs ((l * D + d.val) * T + t.val)
      let p : Fin D → Fin D → CF :=
        if isBool then
          psdBool floor normalize x (fun t : Fin T => tokNat a (moff + (l * K + k) * T + t.val) == 1)
        else
          psd floor normalize x (fun t : Fin T => ms[(l * K + k) * T + t.val]!)
      (List.finRange D).flatMap fun d => (List.finRange D).map fun e => p d e))
  | "psdnomask" =>
    -- psdnomask L D T <obs>
    let L := tokNat a 1; let D := tokNat a 2; let T := tokNat a 3
    let xs := floatsFrom a 4 (2 * L * D * T)
    some (fmtCx ((List.range L).flatMap fun l =>
      let x : Fin D → Fin T → CF := fun d t => cxAt xs ((l * D + d.val) * T + t.val)
      let p := psdNoMask (α := Float) x
      (List.finRange D).flatMap fun d => (List.finRange D).map fun e => p d e))
  | "psdfull" =>
    -- psdfull n <shape n> sd+64 so+64 td+64 kind mndim <mshape mndim> normalize <floor> <obs> <mask>
    let n := tokNat a 1
    let shape := natsFrom a 2 n
    let dim (i : Nat) : Int := (tokNat a (2 + n + i) : Int) - 64
    let kind := tokNat a (5 + n)
    let mndim := tokNat a (6 + n)
    let mshape := natsFrom a (7 + n) mndim
    let o := 7 + n + mndim
    let cfg : Cfg := ⟨n, dim 0, dim 1, dim 2, tokNat a o == 1⟩
    let floor := tokFloat a (o + 1)
    let nx := prod shape
    let xs := floatsFrom a (o + 2) (2 * nx)
    let ms := floatsFrom a (o + 2 + 2 * nx) (if kind == 0 then 0 else prod mshape)
    let x : List Nat → CF := fun idx => cxAt xs (flatIdx shape idx)
    let mask : MaskArg Float :=
      if kind == 0 then .absent
      else if kind == 1 then .float mndim (fun idx => ms[flatIdx mshape idx]!)
      else .bool mndim (fun idx => ms[flatIdx mshape idx]! == 1.0)
    let oshape := outShape cfg shape (if kind == 0 then none else some mshape)
    some (fmtCx ((allIdx oshape).map fun out => psdFull cfg floor shape x mask out))
  | "condcov" =>
    -- condcov L D <gamma> <phi L*D*D complex>
    let L := tokNat a 1; let D := tokNat a 2
    let gamma := tokFloat a 3
    let xs := floatsFrom a 4 (2 * L * D * D)
    some (fmtCx ((List.range L).flatMap fun l =>
      let phi : Fin D → Fin D → CF := fun d e => cxAt xs ((l * D + d.val) * D + e.val)
      let p := condCov gamma phi
      (List.finRange D).flatMap fun d => (List.finRange D).map fun e => p d e))
  | "dispatch" =>
    -- dispatch len <char codes>   ->   accepted hasch ch ntrace <prim codes>
    let len := tokNat a 1
    let name := (natsFrom a 2 len).map Char.ofNat
    match dispatch name with
    | none => some "0 0 0 0"
    | some p =>
      let (hasch, ch) := match p.core with | .ch k => (1, k) | _ => (0, 0)
      let tr := (trace p).map Prim.code
      some (fmtNats ([1, hasch, ch, tr.length] ++ tr))
  | "applybf" =>
    -- applybf N D T <w N*D complex> <x N*D*T complex>
    let N := tokNat a 1; let D := tokNat a 2; let T := tokNat a 3
    let ws := floatsFrom a 4 (2 * N * D)
    let xs := floatsFrom a (4 + 2 * N * D) (2 * N * D * T)
    some (fmtCx ((List.range N).flatMap fun l =>
      let y := applyBf Float (fun d : Fin D => cxAt ws (l * D + d.val))
        (fun (d : Fin D) (t : Fin T) => cxAt xs ((l * D + d.val) * T + t.val))
      (List.finRange T).map y))
  | "phase" =>
    -- phase L F D <v L*F*D complex>       (F >= 1)
    let L := tokNat a 1; let F := tokNat a 2; let D := tokNat a 3
    let vs := floatsFrom a 4 (2 * L * F * D)
    match F with
    | 0 => some ""
    | F' + 1 =>
      some (fmtCx ((List.range L).flatMap fun l =>
        let v : Fin (F'+1) → Fin D → CF := fun f d => cxAt vs ((l * (F'+1) + f.val) * D + d.val)
        let r := phaseCorrection Float v
        (List.finRange (F'+1)).flatMap fun f => (List.finRange D).map fun d => r f d))
  | "phasefull" =>
    -- phasefull n <shape> <v>
    let n := tokNat a 1
    let shape := natsFrom a 2 n
    let vs := floatsFrom a (2 + n) (2 * prod shape)
    let x : List Nat → CF := fun idx => cxAt vs (flatIdx shape idx)
    some (fmtCx ((allIdx shape).map fun idx => phaseFull Float shape x idx))
  | "phaseaxis0" =>
    let n := tokNat a 1
    let shape := natsFrom a 2 n
    let vs := floatsFrom a (2 + n) (2 * prod shape)
    let x : List Nat → CF := fun idx => cxAt vs (flatIdx shape idx)
    some (fmtCx ((allIdx shape).map fun idx => phaseFullAxis0 Float shape x idx))
  | "stablesolve" =>
    -- stablesolve n m <flags n> <solve n*m complex> <lstsq n*m complex>
    let n := tokNat a 1; let m := tokNat a 2
    let flags := natsFrom a 3 n
    let sol := floatsFrom a (3 + n) (2 * n * m)
    let lsq := floatsFrom a (3 + n + 2 * n * m) (2 * n * m)
    let row (xs : Array Float) (i : Nat) : List CF := (List.range m).map fun j => cxAt xs (i * m + j)
    let single : Fin n → Option (List CF) := fun i => if flags.getD i.val 0 == 1 then none else some (row sol i.val)
    let batched : Option (Fin n → List CF) :=
      if flags.all (· == 0) then some (fun i => row sol i.val) else none
    let r := stableSolve batched single (fun i => row lsq i.val)
    some (fmtCx ((List.finRange n).flatMap r))
  | _ => none

end Driver

import PbBss.Model.Pipeline
import Driver.Util
/-! line-protocol operations of the `Pipeline` models (C17), run at `α := Float`, `β := CF`.

Every token after the op name is a decimal integer; floats are IEEE-754 bit patterns, complex numbers are
`re im` pairs, arrays are row-major (NumPy C order). -/
open PbBss PbBss.Pipeline
namespace Driver

/-- `np.finfo(np.float64).tiny` -/
def tinyP : Float := 2.2250738585072014e-308

/-- all tokens after the op name, parsed once -/
def natToks (a : Array String) : Array Nat := (a.extract 1 a.size).map fun s => s.toNat!

def fAt (n : Array Nat) (i : Nat) : Float := Float.ofBits (n[i]!).toUInt64
def cAt (n : Array Nat) (off i : Nat) : CF := ⟨fAt n (off + 2*i), fAt n (off + 2*i + 1)⟩

def fmtCF (xs : List CF) : String := fmtFloats (xs.flatMap fun z => [z.re, z.im])

def finOr {n : Nat} (h : 0 < n) (i : Nat) : Fin n := if hi : i < n then ⟨i, hi⟩ else ⟨0, h⟩

def opsPipeline (a : Array String) : Option String :=
  let n := natToks a
  match a[0]! with
  | "scene" =>
    -- scene K D k sigma[K] eps[K] a[K*D complex]  ->  noisePsd (D*D complex) ++ classPsd_k (D*D complex)
    let K := n[0]!; let D := n[1]!
    if hK : 0 < K then
      let k : Fin K := finOr hK n[2]!
      let sigma : Fin K → Float := fun j => fAt n (3 + j.val)
      let eps : Fin K → Float := fun j => fAt n (3 + K + j.val)
      let st : Fin K → Fin D → CF := fun j d => cAt n (3 + 2*K) (j.val * D + d.val)
      let nn := noisePsd sigma eps st k
      let xx := classPsd (sigma k) (eps k) (st k)
      some (fmtCF (((List.finRange D).flatMap fun d => (List.finRange D).map fun e => nn d e) ++
                   ((List.finRange D).flatMap fun d => (List.finRange D).map fun e => xx d e)))
    else none
  | "souden" =>
    -- souden D ref sigma a[D] u[D]   ->  souden(tiny, sigma u aᴴ, ref)   (D complex)
    let D := n[0]!
    if hD : 0 < D then
      let ref : Fin D := finOr hD n[1]!
      let sigma := fAt n 2
      let av : Fin D → CF := fun d => cAt n 3 d.val
      let u : Fin D → CF := fun d => cAt n (3 + 2*D) d.val
      some (fmtCF ((List.finRange D).map (souden tinyP (rankOnePhi sigma av u) ref)))
    else none
  | "wmwf" =>
    -- wmwf D ref mu sigma a[D] u[D]   ->  wmwf(mu, sigma u aᴴ, ref)
    let D := n[0]!
    if hD : 0 < D then
      let ref : Fin D := finOr hD n[1]!
      let mu := fAt n 2
      let sigma := fAt n 3
      let av : Fin D → CF := fun d => cAt n 4 d.val
      let u : Fin D → CF := fun d => cAt n (4 + 2*D) d.val
      some (fmtCF ((List.finRange D).map (wmwf mu (rankOnePhi sigma av u) ref)))
    else none
  | "mvdr" =>
    -- mvdr D a[D] u[D]  ->  u / (aᴴ u)
    let D := n[0]!
    let av : Fin D → CF := fun d => cAt n 1 d.val
    let u : Fin D → CF := fun d => cAt n (1 + 2*D) d.val
    some (fmtCF ((List.finRange D).map (mvdrFromSolve (α := Float) av u)))
  | "sir" =>
    -- sir K D k sigma[K] eps[K] p[K] a[K*D] w[D] v[D]
    --   -> signal interference eps‖w‖² quadForm(noisePsd,w) zfBound sirOut sirLower p-signal p-interference |wᴴa_k|²
    let K := n[0]!; let D := n[1]!
    if hK : 0 < K then
      let k : Fin K := finOr hK n[2]!
      let sigma : Fin K → Float := fun j => fAt n (3 + j.val)
      let epsv : Fin K → Float := fun j => fAt n (3 + K + j.val)
      let p : Fin K → Float := fun j => fAt n (3 + 2*K + j.val)
      let o := 3 + 3*K
      let st : Fin K → Fin D → CF := fun j d => cAt n o (j.val * D + d.val)
      let w : Fin D → CF := fun d => cAt n (o + 2*K*D) d.val
      let v : Fin D → CF := fun d => cAt n (o + 2*K*D + 2*D) d.val
      let eps := noiseEps epsv k
      let psig : Fin K → Float := fun j => p j * sigma j
      some (fmtFloats [
        outPower sigma st w k,
        interference sigma st w k,
        eps * normSq (α := Float) w,
        quadForm (α := Float) (noisePsd sigma epsv st k) w,
        zfBound eps v,
        sirOut sigma st w k,
        sirLower (sigma k) eps v,
        outPower psig st w k,
        interference psig st w k,
        absSq (α := Float) (cdot Float w (st k))])
    else none
  | "axes" =>
    -- axes F K T D post[F*K*T] Y[F*D*T complex] mapping[K*F] g[K] W[K*F*D complex]
    --   -> pipelinePsd (F,K,D,D) ++ noiseFromPsd (F,K,D,D) ++ applyBf(W[k], Y) (K,F,T)
    let F := n[0]!; let K := n[1]!; let T := n[2]!; let D := n[3]!
    if hK : 0 < K then
      let oP := 4
      let oY := oP + F*K*T
      let oM := oY + 2*F*D*T
      let oG := oM + K*F
      let oW := oG + K
      let post : Fin F → Fin K → Fin T → Float := fun f k t => fAt n (oP + (f.val * K + k.val) * T + t.val)
      let obs : Fin F → Fin D → Fin T → CF := fun f d t => cAt n oY ((f.val * D + d.val) * T + t.val)
      let m : Fin K → Fin F → Fin K := fun k f => finOr hK n[oM + k.val * F + f.val]!
      let g : Fin K → Fin K := fun k => finOr hK n[oG + k.val]!
      let W : Fin K → Fin F → Fin D → CF := fun k f d => cAt n oW ((k.val * F + f.val) * D + d.val)
      let P := pipelinePsd (1e-10 : Float) obs post m g
      -- tabulate the PSDs once (the noise PSD sums them)
      let tab : Array CF := ((List.finRange F).flatMap fun f => (List.finRange K).flatMap fun k =>
        (List.finRange D).flatMap fun d => (List.finRange D).map fun e => P f k d e).toArray
      let Pt : Fin F → Fin K → Fin D → Fin D → CF := fun f k d e => tab[((f.val * K + k.val) * D + d.val) * D + e.val]!
      let N := noiseFromPsd Pt
      let nn := (List.finRange F).flatMap fun f => (List.finRange K).flatMap fun k =>
        (List.finRange D).flatMap fun d => (List.finRange D).map fun e => N f k d e
      let bf := (List.finRange K).flatMap fun k =>
        let y := applyBf (α := Float) (W k) obs
        (List.finRange F).flatMap fun f => (List.finRange T).map fun t => y f t
      some (fmtCF (tab.toList ++ nn ++ bf))
    else none
  | _ => none

end Driver

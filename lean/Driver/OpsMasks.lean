import PbBss.Model.Masks
import Driver.Util
/-! line-protocol operations of the `Masks` models.

Tensor operations: `<op> r s₁ … s_r <params> <data>`; complex data as `re im` bit patterns in row-major order.
Axis parameters are (possibly negative) integers; an optional axis is the pair `flag axis`.
Reply: `r' s₁ … s_r' | <bit patterns of the result in row-major order>` or `raise`. -/
open PbBss PbBss.Masks
namespace Driver

def tokInt (a : Array String) (i : Nat) : Int := (a[i]!).toInt!

/-- all multi-indices of a shape in row-major order -/
def allIdx : List Nat → List (List Nat)
  | [] => [[]]
  | n :: rest => (List.range n).flatMap fun i => (allIdx rest).map (i :: ·)

def ravelIdx {r : Nat} (shape : Array Nat) (idx : Fin r → Nat) : Nat :=
  Fin.foldl r (fun acc i => acc * shape[i.val]! + idx i) 0

def shapeFn {r : Nat} (shape : Array Nat) : Fin r → Nat := fun i => shape[i.val]!

def tensC (r : Nat) (shape : Array Nat) (data : Array Float) : Tens r CF :=
  ⟨shapeFn shape, fun idx => let p := ravelIdx shape idx; ⟨data[2*p]!, data[2*p+1]!⟩⟩

def outShape {r : Nat} {γ} (t : Tens r γ) : List Nat := (List.finRange r).map t.shape

def readOut {r : Nat} {γ} (t : Tens r γ) : List γ :=
  (allIdx (outShape t)).map fun l => let arr := l.toArray; t.get fun i => arr[i.val]!

def fmtTens {r : Nat} (t : Tens r Float) : String :=
  fmtNats (r :: outShape t) ++ " | " ++ fmtFloats (readOut t)

def fmtTensC {r : Nat} (t : Tens r CF) : String :=
  fmtNats (r :: outShape t) ++ " | " ++ fmtFloats ((readOut t).flatMap fun z => [z.re, z.im])

def fmtTensOpt {r : Nat} (t : Tens r (Option Float)) : String :=
  let vals := readOut t
  if vals.any Option.isNone then "raise"
  else fmtNats (r :: outShape t) ++ " | " ++ fmtFloats (vals.map fun v => v.getD 0)

def axisFin (r : Nat) (a : Int) : Option (Fin r) :=
  let n := normAxis r a
  if h : n < r then some ⟨n, h⟩ else none

/-- optional axis encoded as `flag axis`; result: `none` = malformed, `some none` = Python `None` -/
def optAxis (r : Nat) (flag : Nat) (a : Int) : Option (Option (Fin r)) :=
  if flag == 0 then some none else (axisFin r a).map some

/-- apply `np.squeeze(·, se)` unless `keepdims` (or no sensor axis) -/
def finish {r : Nat} {γ} (fmt : {r : Nat} → Tens r γ → String) (t : Tens r γ) (se : Option (Fin r)) (keep : Bool) : String :=
  match r, t, se with
  | _+1, t, some a => if keep then fmt t else fmt (Tens.squeezeT a t)
  | _, t, _ => fmt t

def readData (a : Array String) (off n : Nat) : Array Float := (Array.range n).map fun i => fl a off i

def axesList (r : Nat) (a : Array String) (off n : Nat) : Option (List (Fin r)) :=
  (List.range n).mapM fun i => axisFin r (tokInt a (off + i))

def opsMasks (a : Array String) : Option String :=
  let op := a[0]!
  if op == "pct" then
    -- pct <frac> n <row>
    let n := tokNat a 2
    some (fmtFloats [percentileLinear (tokFloat a 1) ((List.range n).map fun i => fl a 3 i)])
  else if op == "lorthr" then
    -- lorthr <fraction> n <row>
    let n := tokNat a 2
    match lorenzThreshold (tokFloat a 1) ((List.range n).map fun i => fl a 3 i) with
    | some t => some (fmtFloats [t])
    | none => some "raise"
  else if op == "moveaxis" then
    -- moveaxis r m src… dst…
    let r := tokNat a 1; let m := tokNat a 2
    some (fmtNats (moveaxisOrder r ((List.range m).map fun i => normAxis r (tokInt a (3 + i)))
      ((List.range m).map fun i => normAxis r (tokInt a (3 + m + i)))))
  else
    let r := tokNat a 1
    let shape : Array Nat := (Array.range r).map fun i => tokNat a (2 + i)
    let size := shape.foldl (· * ·) 1
    let o := 2 + r
    match op with
    | "ibm" => do
      -- ibm r shape sa flag se keep <data>
      let sa ← axisFin r (tokInt a o); let se ← optAxis r (tokNat a (o+1)) (tokInt a (o+2))
      let t := tensC r shape (readData a (o+4) (2*size))
      pure (finish fmtTens (ibmT (α := Float) t sa se) se (tokNat a (o+3) != 0))
    | "wiener" => do
      -- wiener r shape sa flag se keep <eps> <data>
      let sa ← axisFin r (tokInt a o); let se ← optAxis r (tokNat a (o+1)) (tokInt a (o+2))
      let t := tensC r shape (readData a (o+5) (2*size))
      pure (finish fmtTens (wienerT (tokFloat a (o+4)) t sa se) se (tokNat a (o+3) != 0))
    | "irm" => do
      -- irm r shape sa <eps> <data>
      let sa ← axisFin r (tokInt a o)
      pure (fmtTens (irmT (tokFloat a (o+1)) (tensC r shape (readData a (o+2) (2*size))) sa))
    | "iam" => do
      let sa ← axisFin r (tokInt a o)
      pure (fmtTens (iamT (tokFloat a (o+1)) (tensC r shape (readData a (o+2) (2*size))) sa))
    | "psm" => do
      let sa ← axisFin r (tokInt a o)
      pure (fmtTens (psmT (tokFloat a (o+1)) (tensC r shape (readData a (o+2) (2*size))) sa))
    | "icm" => do
      -- icm r shape sa <data>
      let sa ← axisFin r (tokInt a o)
      pure (fmtTensC (icmT (tensC r shape (readData a (o+1) (2*size))) sa))
    | "quantile" => do
      -- quantile r shape <q> <w> m axes… <data>
      let m := tokNat a (o+2)
      let axes ← axesList r a (o+3) m
      pure (fmtTens (quantileT (tokFloat a o) (tokFloat a (o+1)) (tensC r shape (readData a (o+3+m) (2*size))) axes))
    | "lorenz" => do
      -- lorenz r shape <fraction> <w> flag se keep m axes… <data>
      let se ← optAxis r (tokNat a (o+2)) (tokInt a (o+3))
      let m := tokNat a (o+5)
      let axes ← axesList r a (o+6) m
      let t := tensC r shape (readData a (o+6+m) (2*size))
      pure (finish fmtTensOpt (lorenzT (tokFloat a o) (tokFloat a (o+1)) t se axes) se (tokNat a (o+4) != 0))
    | "transpose" => do
      -- transpose r shape order… <data>   (np.transpose / np.moveaxis on the data itself)
      let order : Array Nat := (Array.range r).map fun i => tokNat a (o + i)
      let inv : Array Nat := (Array.range r).map fun j => (order.toList.idxOf j)
      let t := tensC r shape (readData a (o+r) (2*size))
      if order.all (· < r) then
        pure (fmtTensC (Tens.transposeT (fun i => ⟨order[i.val]! % r, Nat.mod_lt _ (by have := i.isLt; omega)⟩)
          (fun i => ⟨inv[i.val]! % r, Nat.mod_lt _ (by have := i.isLt; omega)⟩) t))
      else none
    | _ => none

end Driver

import Driver.Util
/-! line-protocol operations of the `Masks` models (stub: filled in by the owner of these models) -/
namespace Driver

def opsMasks (a : Array String) : Option String :=
  match a[0]! with
  | _ => none

end Driver

import Driver.OpsPipeline
import Driver.Loop
def main : IO Unit := Driver.runLoop Driver.opsPipeline

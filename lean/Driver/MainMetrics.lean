import Driver.OpsMetrics
import Driver.Loop
def main : IO Unit := Driver.runLoop Driver.opsMetrics

import Driver.OpsEm
import Driver.Loop
def main : IO Unit := Driver.runLoop Driver.opsEm

/-! generic line-protocol loop: one operation per input line, one output line each -/
namespace Driver

partial def loop (handle : Array String → Option String) (h : IO.FS.Stream) : IO Unit := do
  let line ← h.getLine
  if line.isEmpty then return ()
  let toks := ((line.trimAscii.toString.splitOn " ").filter (· ≠ "")).toArray
  let out := if toks.size == 0 then "bad-op" else (handle toks).getD "bad-op"
  IO.println out
  loop handle h

def runLoop (handle : Array String → Option String) : IO Unit := do
  loop handle (← IO.getStdin)

end Driver

import Driver.OpsTrainers
import Driver.Loop
def main : IO Unit := Driver.runLoop Driver.opsTrainers

import Driver.Util
/-! line-protocol operations of the `Effects` models (stub: filled in by the owner of these models) -/
namespace Driver

def opsEffects (a : Array String) : Option String :=
  match a[0]! with
  | _ => none

end Driver

import PbBss.Model.Effects
import PbBss.Model.TrainerSM
import Driver.Util
/-! line-protocol operations of the C20 models (`driver_effects`); every token is a decimal integer.

* `sm c n d₁ u₁ … dₙ uₙ`      trainer state machine: constructor dimension `c` (0 = None, else dimension+1), `n` fits with
                             feature dimension `dᵢ` and `uᵢ` = 1 iff at least one M-step runs.
      → per fit `accepted table` (table: 0 = none, else dimension+1), then the final `dimension cachedFor` (same coding)
* `cert np p… ns stmt… nt entry…`   certificate check of one effect program
      stmt: `0 x` alloc | `1 x k y₁…y_k` alias | `2 x` write ;   entry: `x k q₁…q_k`
      → `checkCert checkAlias nW w₁…` (derived mutated parameters)
* `trace kind n`             E/M-step trace of the transcribed fit loop: kind 0 = started from affiliations, 1 = from a model
      → sequence of 0 (E-step) / 1 (M-step)
* `split n₁ k m₁…m_k`        trace of consecutive fits n₁, m₁, …, m_k (each continued from the previous model) -/
open PbBss.TrainerSM Eff
namespace Driver

def encOpt : Option Nat → Nat
  | none => 0
  | some d => d + 1

def decOpt (n : Nat) : Option Nat := if n = 0 then none else some (n - 1)

/-- parse `n` statements starting at token `i`; returns the statements and the next index -/
partial def parseStmts (a : Array String) : Nat → Nat → List Stmt → List Stmt × Nat
  | 0, i, acc => (acc.reverse, i)
  | n + 1, i, acc =>
    match tokNat a i with
    | 0 => parseStmts a n (i + 2) (.alloc (tokNat a (i + 1)) :: acc)
    | 1 =>
      let x := tokNat a (i + 1); let k := tokNat a (i + 2)
      let ys := (List.range k).map fun j => tokNat a (i + 3 + j)
      parseStmts a n (i + 3 + k) (.alias x ys :: acc)
    | _ => parseStmts a n (i + 2) (.write (tokNat a (i + 1)) :: acc)

partial def parseTab (a : Array String) : Nat → Nat → List (Var × List Var) → List (Var × List Var)
  | 0, _, acc => acc.reverse
  | n + 1, i, acc =>
    let x := tokNat a i; let k := tokNat a (i + 1)
    let qs := (List.range k).map fun j => tokNat a (i + 2 + j)
    parseTab a n (i + 2 + k) ((x, qs) :: acc)

/-- steps are recorded as data: E-step = 0, M-step = 1 -/
def trM (g : List Nat) : List Nat := g ++ [1]
def trE (t : List Nat) : List Nat := t ++ [0]

def opsEffects (a : Array String) : Option String :=
  match a[0]! with
  | "sm" =>
    let c := decOpt (tokNat a 1)
    let n := tokNat a 2
    let ops : List (Op Unit) := (List.range n).map fun i => ⟨tokNat a (3 + 2 * i), tokNat a (4 + 2 * i) != 0, ()⟩
    let run : Option Nat → Unit → Option Nat := fun t _ => t
    let os := outs run (init c) ops
    let s := runOps run (init c) ops
    let enc := os.flatMap fun o => match o with
      | .ok t _ => [1, encOpt t]
      | .reject => [0, 0]
    some (fmtNats (enc ++ [encOpt s.dimension, encOpt s.cachedFor]))
  | "cert" =>
    let np := tokNat a 1
    let params := (List.range np).map fun j => tokNat a (2 + j)
    let ns := tokNat a (2 + np)
    let (stmts, i) := parseStmts a ns (3 + np) []
    let nt := tokNat a i
    let tab := parseTab a nt (i + 1) []
    let p : Prog := ⟨params, stmts⟩
    let may := mayOf tab
    let w := (writesTo p may).eraseDups
    some (fmtNats ([if checkCert p may then 1 else 0, if checkAlias p may then 1 else 0, w.length] ++ w))
  | "trace" =>
    let n := tokNat a 2
    let r := if tokNat a 1 == 0 then fitAff trM trE n [] else fitModel trM trE n [] []
    some (fmtNats (r.getD []))
  | "split" =>
    let n1 := tokNat a 1
    let k := tokNat a 2
    let ms := (List.range k).map fun j => tokNat a (3 + j)
    let start := fitAff trM trE n1 []
    let r := ms.foldl (fun (m : Option (List Nat)) n => match m with
      | some θ => fitModel trM trE n θ []
      | none => none) start
    some (fmtNats (r.getD []))
  | _ => none

end Driver

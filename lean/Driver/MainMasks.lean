import Driver.OpsMasks
import Driver.Loop
def main : IO Unit := Driver.runLoop Driver.opsMasks

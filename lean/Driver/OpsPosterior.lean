import PbBss.Model.Posterior
import Driver.Util
/-! line-protocol operations of the `Posterior` models (properties C01, C04, C05).
Every op: `name <ints…> <float bit patterns…>`; complex numbers travel as `re im`. -/
open PbBss PbBss.Posterior
namespace Driver

def tokInt (a : Array String) (i : Nat) : Int := (a[i]!).toInt!

def natList (a : Array String) (off n : Nat) : List Nat := (List.range n).map fun i => tokNat a (off + i)
def intList (a : Array String) (off n : Nat) : List Int := (List.range n).map fun i => tokInt a (off + i)

def cx (a : Array String) (off i : Nat) : CF := ⟨fl a off (2*i), fl a off (2*i+1)⟩

def fmtCx (xs : List CF) : String := fmtFloats (xs.flatMap fun z => [z.re, z.im])

def epsOf (e : Float) : Option Float := epsOption e

def styleOf (s : String) : EpsStyle := if s == "plus" then .plus else if s == "max" then .max else .where_

/-- `np.linspace(0, K, N, dtype=int, endpoint=False)[n]`: NumPy computes `step = K / N` and `floor(n * step)` in
double precision — NOT `⌊n·K/N⌋` (e.g. `K = 2, N = 98, n = 49` gives `0`).  Driver-only (`Float`), compared exactly. -/
def flagLabelF (K N n : Nat) : Nat :=
  (Float.floor (Float.ofNat n * (Float.ofNat K / Float.ofNat N))).toUInt64.toNat

def tieOf (a : Array String) (off : Nat) : Tie := ⟨tokNat a off == 1, tokNat a (off+1) == 1, tokNat a (off+2) == 1⟩

/-- posterior over a whole `(F, K+1, T)` array: `wf f k t` = broadcast weight, `lpf` = log-pdf -/
def postAll (F K1 T : Nat) (tiny : Float) (eps : Option Float) (wf lpf : Nat → Nat → Nat → Float)
    (mask : Option (Nat → Nat → Nat → Bool)) : List Float :=
  match K1 with
  | 0 => []
  | K+1 =>
    (List.range F).flatMap fun f =>
      -- one table per (f, t) column, then transpose to (k, t) order
      let cols : Array (Array Float) := (Array.range T).map fun t =>
        let col := affiliation (K := K) tiny eps (fun k => wf f k.val t) (fun k => lpf f k.val t)
          (mask.map fun m k => m f k.val t)
        (Array.ofFn col)
      (List.range (K+1)).flatMap fun k => (List.range T).map fun t => (cols[t]!)[k]!

def opsPosterior (a : Array String) : Option String :=
  match a[0]! with
  | "aff" =>
    -- aff K1 hasMask <tiny> <eps> <w K1> <lp K1> [mask K1 ints]
    let K1 := tokNat a 1; let hasMask := tokNat a 2 == 1
    let tiny := tokFloat a 3; let eps := epsOf (tokFloat a 4)
    match K1 with
    | 0 => some ""
    | K+1 =>
      let w : Fin (K+1) → Float := fun k => fl a 5 k.val
      let lp : Fin (K+1) → Float := fun k => fl a (5 + (K+1)) k.val
      let mask : Option (Fin (K+1) → Bool) :=
        if hasMask then some fun k => tokNat a (5 + 2*(K+1) + k.val) == 1 else none
      some (fmtFloats ((List.finRange (K+1)).map (affiliation tiny eps w lp mask)))
  | "predict" =>
    -- predict F K1 T hasMask nshape <shape…> <tiny> <eps> <wdata prod(shape)> <lp F*K1*T> [mask F*K1*T ints]
    let F := tokNat a 1; let K1 := tokNat a 2; let T := tokNat a 3; let hasMask := tokNat a 4 == 1
    let ns := tokNat a 5
    let shape := natList a 6 ns
    let o := 6 + ns
    let tiny := tokFloat a o; let eps := epsOf (tokFloat a (o+1))
    let nw := shape.foldl (· * ·) 1
    let ow := o + 2; let ol := ow + nw; let om := ol + F*K1*T
    let wf := fun f k t => weightAt (fun i => fl a ow i) shape f k t
    let lpf := fun f k t => fl a ol ((f*K1 + k)*T + t)
    let mask : Option (Nat → Nat → Nat → Bool) :=
      if hasMask then some fun f k t => tokNat a (om + (f*K1 + k)*T + t) == 1 else none
    some (fmtFloats (postAll F K1 T tiny eps wf lpf mask))
  | "ipredict" =>
    -- ipredict F K1 T naxis <axis…> nshape <shape…> <tiny> <eps> <sw> <spw> <wdata> <lpA F*K1*T> <lpB F*K1*T>
    let F := tokNat a 1; let K1 := tokNat a 2; let T := tokNat a 3
    let na := tokNat a 4
    let axis := intList a 5 na
    let ns := tokNat a (5 + na)
    let shape := natList a (6 + na) ns
    let o := 6 + na + ns
    let tiny := tokFloat a o; let eps := epsOf (tokFloat a (o+1))
    let sw := tokFloat a (o+2); let spw := tokFloat a (o+3)
    let nw := shape.foldl (· * ·) 1
    let ow := o + 4; let oa := ow + nw; let ob := oa + F*K1*T
    match unsqueezeShape shape axis with
    | none => some "index-error"
    | some sh =>
      let wf := fun f k t => weightAt (fun i => fl a ow i) sh f k t
      let lpf := fun f k t => integrationLogPdf sw spw (fl a oa ((f*K1 + k)*T + t)) (fl a ob ((f*K1 + k)*T + t))
      some (fmtNats sh ++ " | " ++ fmtFloats (postAll F K1 T tiny eps wf lpf none))
  | "unsq" =>
    -- unsq nshape <shape…> naxis <axis…>
    let ns := tokNat a 1
    let shape := natList a 2 ns
    let na := tokNat a (2 + ns)
    let axis := intList a (3 + ns) na
    match unsqueezeShape shape axis with
    | none => some "index-error"
    | some sh => some ("ok " ++ fmtNats sh)
  | "bidx" =>
    -- bidx nshape <shape…> nidx <idx…>
    let ns := tokNat a 1
    let shape := natList a 2 ns
    let ni := tokNat a (2 + ns)
    some (toString (bcastOffset shape (natList a (3 + ns) ni)))
  | "estw" =>
    -- estw <mean|sal|integ> F K T tieF tieK tieT intMinus2 <eps (sal) / tiny (integ)> <γ F*K*T> <sal F*T>
    let F := tokNat a 2; let K := tokNat a 3; let T := tokNat a 4
    let tie := tieOf a 5
    let i2 := tokNat a 8 == 1
    let eps := tokFloat a 9
    let og := 10; let os := og + F*K*T
    let γ : Fin F → Fin K → Fin T → Float := fun f k t => fl a og ((f.val*K + k.val)*T + t.val)
    let sal : Fin F → Fin T → Float := fun f t => fl a os (f.val*T + t.val)
    let rule : WeightRule Float :=
      if a[1]! == "mean" then .mean i2 else if a[1]! == "sal" then .saliency i2 eps else .integration eps
    let w := mixWeight rule tie γ sal
    some (fmtFloats ((List.finRange F).flatMap fun f => (List.finRange K).flatMap fun k =>
      (List.finRange T).map fun t => w f k t))
  | "unifnorm" =>
    -- unifnorm K <u K>
    let K := tokNat a 1
    some (fmtFloats ((List.finRange K).map (uniformNormalized (fun k : Fin K => fl a 2 k.val))))
  | "flaglabels" =>
    -- flaglabels K N
    let K := tokNat a 1; let N := tokNat a 2
    some (fmtNats ((List.range N).map (flagLabelF K N)))
  | "flag" =>
    -- flag K N <minimum> <labels N ints>          (branch minimum != 0; minimum == 0 is `onehot`)
    let K := tokNat a 1; let N := tokNat a 2
    if h : 0 < K then
      let labels : Fin N → Fin K := fun n => ⟨tokNat a (4 + n.val) % K, Nat.mod_lt _ h⟩
      let r := flag (tokFloat a 3) labels
      some (fmtFloats ((List.finRange K).flatMap fun k => (List.finRange N).map fun n => r k n))
    else some ""
  | "onehot" =>
    let K := tokNat a 1; let N := tokNat a 2
    if h : 0 < K then
      let labels : Fin N → Fin K := fun n => ⟨tokNat a (3 + n.val) % K, Nat.mod_lt _ h⟩
      let r : Fin K → Fin N → Float := oneHot labels
      some (fmtFloats ((List.finRange K).flatMap fun k => (List.finRange N).map fun n => r k n))
    else some ""
  | "dirichlett" =>
    -- dirichlett K N <draws N*K>
    let K := tokNat a 1; let N := tokNat a 2
    let r : Fin K → Fin N → Float := dirichletT fun n k => fl a 3 (n.val*K + k.val)
    some (fmtFloats ((List.finRange K).flatMap fun k => (List.finRange N).map fun n => r k n))
  | "defltail" =>
    -- defltail K <eps> <sims K>
    let K := tokNat a 1
    some (fmtFloats ((List.finRange (K+1)).map (deflationTail (tokFloat a 2) (fun k : Fin K => fl a 3 k.val))))
  | "deflsim" =>
    -- deflsim D <z D complex> <m D complex>
    let D := tokNat a 1
    let r : Float := deflationSimilarity (fun d : Fin D => cx a 2 d.val) (fun d : Fin D => cx a (2 + 2*D) d.val)
    some (fmtFloats [r])
  | "unitnorm" =>
    -- unitnorm <plus|max|where> D <eps> <y D complex>
    let D := tokNat a 2
    let r := unitNorm (α := Float) (styleOf a[1]!) (tokFloat a 3) (fun d : Fin D => cx a 4 d.val)
    some (fmtCx ((List.finRange D).map r))
  | "normmaxr" =>
    -- normmaxr D <tiny> <y D>
    let D := tokNat a 1
    some (fmtFloats ((List.finRange D).map (normalizeMaxR (tokFloat a 2) (fun d : Fin D => fl a 3 d.val))))
  | "quadform" =>
    -- quadform D <B D*D complex> <z D complex>
    let D := tokNat a 1
    let r : CF := quadForm (α := Float) (fun d e : Fin D => cx a 2 (d.val*D + e.val)) (fun d : Fin D => cx a (2 + 2*D*D) d.val)
    some (fmtCx [r])
  | "innerabssq" =>
    -- innerabssq D <w D complex> <z D complex>
    let D := tokNat a 1
    let r : Float := innerAbsSq (fun d : Fin D => cx a 2 d.val) (fun d : Fin D => cx a (2 + 2*D) d.val)
    some (fmtFloats [r])
  | "scatter" =>
    -- scatter D N <s N> <z N*D complex>
    let D := tokNat a 1; let N := tokNat a 2
    let r := scatter (α := Float) (fun n : Fin N => fl a 3 n.val) (fun (n : Fin N) (d : Fin D) => cx a (3 + N) (n.val*D + d.val))
    some (fmtCx ((List.finRange D).flatMap fun d => (List.finRange D).map fun e => r d e))
  | "resultant" =>
    -- resultant D N <s N> <y N*D>
    let D := tokNat a 1; let N := tokNat a 2
    let r := resultant (fun n : Fin N => fl a 3 n.val) (fun (n : Fin N) (d : Fin D) => fl a (3 + N) (n.val*D + d.val))
    some (fmtFloats ((List.finRange D).map r))
  | "dotr" =>
    let D := tokNat a 1
    some (fmtFloats [dotR (fun d : Fin D => fl a 2 d.val) (fun d : Fin D => fl a (2 + D) d.val)])
  | _ => none

end Driver

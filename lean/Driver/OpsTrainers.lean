import Driver.Util
/-! line-protocol operations of the `Trainers` models (stub: filled in by the owner of these models) -/
namespace Driver

def opsTrainers (a : Array String) : Option String :=
  match a[0]! with
  | _ => none

end Driver

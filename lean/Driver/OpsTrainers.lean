import PbBss.Model.Trainers
import PbBss.Model.Num
import Driver.Util
/-! line-protocol operations of the `Trainers` models (C08 / C09 correspondence).
Floats travel as IEEE-754 bit patterns; complex numbers as (re, im) pairs. -/
open PbBss PbBss.Align PbBss.Trainers
namespace Driver

def tinyT : Float := 2.2250738585072014e-308

/-- complex division as NumPy performs it (Smith's algorithm: no overflow / underflow of `|b|²`); the textbook
formula of `PbBss.CF` turns `z / tiny` and `z / 1e307` into NaN, which the degenerate stream of C09 reaches -/
def smithDiv (a b : CF) : CF :=
  if b.re.abs ≥ b.im.abs then
    let r := b.im / b.re
    let den := b.re + b.im * r
    ⟨(a.re + a.im * r) / den, (a.im - a.re * r) / den⟩
  else
    let r := b.re / b.im
    let den := b.re * r + b.im
    ⟨(a.re * r + a.im) / den, (a.im * r - a.re) / den⟩

instance (priority := high) instDivCFSmith : Div CF := ⟨smithDiv⟩

def cfl (a : Array String) (off i : Nat) : CF := ⟨fl a off (2*i), fl a off (2*i + 1)⟩

def fmtCFs (xs : List CF) : String := fmtFloats (xs.flatMap fun z => [z.re, z.im])

/-- `np.linalg.eigh` of the driver: complex Jacobi iteration (`PbBss.Num.eigh`), ascending eigenvalues -/
def eighF {n : Nat} (c : Fin n → Fin n → CF) : Eig Float CF n :=
  let a0 : Num.Mat := Array.ofFn (n := n) fun i => Array.ofFn (n := n) fun j => (⟨(c i j).re, (c i j).im⟩ : Num.C)
  -- the Jacobi sweeps square the entries: scale by a power of two first (exact), scale the eigenvalues back
  let mx : Float := a0.foldl (fun m row => row.foldl (fun m z => max m (max z.re.abs z.im.abs)) m) 0
  let ex : Int := if mx > 0 && mx.isFinite then mx.frExp.2 else 0
  let a : Num.Mat := a0.map fun row => row.map fun z => (⟨z.re.scaleB (-ex), z.im.scaleB (-ex)⟩ : Num.C)
  let r := Num.eigh n a
  ⟨fun i => (r.1[i.val]!).scaleB ex, fun d i => let v := Num.Mat.get r.2 d.val i.val; ⟨v.re, v.im⟩⟩

def salOf (a : Array String) (has : Nat) (off N : Nat) : Option (Fin N → Float) :=
  if has == 1 then some (fun n => fl a off n.val) else none

def normOf (n : Nat) : CovNorm := if n == 0 then .eigenvalue else if n == 1 then .trace else .none

def fmtEig {D : Nat} (m : Eig Float CF D) : String :=
  let vals := tab1 m.vals
  let vecs := tab2 m.vecs
  let mt : Eig Float CF D := ⟨at1 vals, at2 vecs⟩
  fmtFloats ((List.finRange D).map (at1 vals)) ++ " " ++
    fmtCFs ((List.finRange D).flatMap fun d => (List.finRange D).map fun e => eigCovariance (α := Float) mt d e)

def opsTrainers (a : Array String) : Option String :=
  match a[0]! with
  | "gauss" =>
    -- gauss <type 0 full|1 diagonal|2 spherical> N D hasSal <sal N> <y N*D>     (sal block always present)
    let ty := tokNat a 1; let N := tokNat a 2; let D := tokNat a 3
    let sal := salOf a (tokNat a 4) 5 N
    let yt : Tab2 N D Float := tab2 fun n d => fl a (5 + N) (n.val * D + d.val)
    let y := at2 yt
    let mean := fmtFloats ((List.finRange D).map (gaussMean tinyT sal y))
    let cov :=
      if ty == 0 then fmtFloats ((List.finRange D).flatMap fun d => (List.finRange D).map fun e => gaussCovFull tinyT sal y d e)
      else if ty == 1 then fmtFloats ((List.finRange D).map (gaussCovDiag tinyT sal y))
      else fmtFloats [gaussCovSph tinyT sal y]
    some (mean ++ " " ++ cov)
  | "cgauss" =>
    -- cgauss N D hasSal <sal N> <y N*D complex>
    let N := tokNat a 1; let D := tokNat a 2
    let sal := salOf a (tokNat a 3) 4 N
    let yt : Tab2 N D CF := tab2 fun n d => cfl a (4 + N) (n.val * D + d.val)
    some (fmtCFs ((List.finRange D).flatMap fun d => (List.finRange D).map fun e => cgaussCov (α := Float) tinyT sal (at2 yt) d e))
  | "vmf" =>
    -- vmf N D hasSal lo hi <sal N> <y N*D>
    let N := tokNat a 1; let D := tokNat a 2
    let sal := salOf a (tokNat a 3) 6 N
    let yt : Tab2 N D Float := tab2 fun n d => fl a (6 + N) (n.val * D + d.val)
    let r := vmfFit tinyT (tokFloat a 4) (tokFloat a 5) sal (at2 yt)
    some (fmtFloats ((List.finRange D).map r.1 ++ [r.2]))
  | "watson" =>
    -- watson N D hasSal yLo yHi maxc splineValue <sal N> <y N*D complex>; D >= 1.  Output: mode (D complex), top
    -- eigenvalue, concentration
    let N := tokNat a 1; let D := tokNat a 2 - 1
    let sal := salOf a (tokNat a 3) 8 N
    let yt : Tab2 N (D+1) CF := tab2 fun n d => cfl a (8 + N) (n.val * (D+1) + d.val)
    let z : Tab2 N (D+1) CF := tab2 (unitRowsC (α := Float) tinyT (at2 yt))
    let sc : Tab2 (D+1) (D+1) CF := tab2 (scatterPlain (α := Float) sal (at2 z))
    let e := eighF (at2 sc)
    let lam := e.vals (Fin.last D)
    let r := watsonFit (tokFloat a 4) (tokFloat a 5) (tokFloat a 6) (fun _ => tokFloat a 7) eighF sal (at2 z)
    some (fmtCFs ((List.finRange (D+1)).map r.1) ++ " " ++ fmtFloats [lam, r.2])
  | "cacgstep" =>
    -- cacgstep herm norm N D hasSal floor <sal N> <q N> <z N*D complex>   (z: unit rows, as `_fit` receives them)
    let N := tokNat a 3; let D := tokNat a 4 - 1
    let sal := salOf a (tokNat a 5) 7 N
    let q : Fin N → Float := fun n => fl a (7 + N) n.val
    let zt : Tab2 N (D+1) CF := tab2 fun n d => cfl a (7 + 2*N) (n.val * (D+1) + d.val)
    let m := cacgStep (tokNat a 1 == 1) (normOf (tokNat a 2)) tinyT (10 * tinyT) (tokFloat a 6) eighF sal q (at2 zt)
    some (fmtEig m)
  | "cacgfit" =>
    -- cacgfit herm norm N D iterations floor <y N*D complex>
    let N := tokNat a 3; let D := tokNat a 4 - 1
    let yt : Tab2 N (D+1) CF := tab2 fun n d => cfl a 7 (n.val * (D+1) + d.val)
    let r := cacgFit (tokNat a 1 == 1) (normOf (tokNat a 2)) tinyT (10 * tinyT) (tokFloat a 6) eighF (at2 yt) (tokNat a 5)
    some (fmtEig (⟨at1 r.2.1, at2 r.2.2⟩ : Eig Float CF (D+1)))
  | "cacgeigs" =>
    -- cacgeigs norm D floor <lam D>: eigenvalue post-processing of from_covariance alone
    let D := tokNat a 2 - 1
    let lam : Fin (D+1) → Float := fun i => fl a 4 i.val
    let e := if tokNat a 1 == 0 then cacgEigsEigenvalue tinyT (tokFloat a 3) lam else cacgEigsRelative tinyT (tokFloat a 3) lam
    some (fmtFloats ((List.finRange (D+1)).map e))
  | "bingham" =>
    -- bingham D hasMax maxc eps <x D-1>: tail of find_eigenvalues_v3
    let D := tokNat a 1 - 1
    let maxc : Option Float := if tokNat a 2 == 1 then some (tokFloat a 3) else none
    let x : Fin D → Float := fun j => fl a 5 j.val
    some (fmtFloats ((List.finRange (D+1)).map (binghamPost (tokFloat a 4) maxc x)))
  | "removedup" =>
    -- removedup D eps <lam D ascending>
    let D := tokNat a 1 - 1
    let lam : Fin (D+1) → Float := fun i => fl a 3 i.val
    some (fmtFloats ((List.finRange (D+1)).map (removeDup (tokFloat a 2) lam)))
  | "weight" =>
    -- weight <variant> F K T <aff F*K*T> <sal F*T>
    --   variants: 0 mean(-1) 1 mean(-3) 2 mean(-3,-1) 3 uniform(-2) 4 sal(-1) 5 sal(-3) 6 sal(-3,-1) 7 int(-1) 8 int(-3) 9 int(-3,-1)
    --             10 sal (-2,) tuple form
    let v := tokNat a 1; let F := tokNat a 2; let K := tokNat a 3; let T := tokNat a 4
    let afft : Tab3 F K T Float := tab3 fun f k t => fl a 5 ((f.val * K + k.val) * T + t.val)
    let st : Tab2 F T Float := tab2 fun f t => fl a (5 + F*K*T) (f.val * T + t.val)
    let aff := at3 afft
    let s := at2 st
    let eps : Float := 1e-10
    let perF (w : Fin F → Fin K → Float) := fmtFloats ((List.finRange F).flatMap fun f => (List.finRange K).map (w f))
    let perKT (w : Fin K → Fin T → Float) := fmtFloats ((List.finRange K).flatMap fun k => (List.finRange T).map (w k))
    let perK (w : Fin K → Float) := fmtFloats ((List.finRange K).map w)
    match v with
    | 0 => some (perF fun f => weightMeanT (aff f))
    | 1 => some (perKT (weightMeanF aff))
    | 2 => some (perK (weightMeanFT aff))
    | 3 => some (perK (weightUniform K))
    | 4 => some (perF fun f => weightSalT eps (aff f) (s f))
    | 5 => some (perKT (weightSalF eps aff s))
    | 6 => some (perK (weightSalFT eps aff s))
    | 7 => some (perF fun f => weightIntT tinyT (aff f) (s f))
    | 8 => some (perKT (weightIntF tinyT aff s))
    | 9 => some (perK (weightIntFT tinyT aff s))
    | 10 => some (fmtFloats ((List.finRange F).flatMap fun f => (List.finRange T).map fun t =>
        weightSalK eps (fun k => aff f k t) (s f t)))
    | _ => none
  | "cacgmmestep" =>
    -- cacgmmestep K N D eps <w K*N> <e K*D> <U K*D*D complex> <z N*D complex>; K >= 1.  Output: gamma K*N, q K*N
    let K := tokNat a 1 - 1; let N := tokNat a 2; let D := tokNat a 3
    let o1 := 5; let o2 := o1 + (K+1)*N; let o3 := o2 + (K+1)*D; let o4 := o3 + 2*(K+1)*D*D
    let wt : Tab2 (K+1) N Float := tab2 fun k n => fl a o1 (k.val * N + n.val)
    let et : Tab2 (K+1) D Float := tab2 fun k i => fl a o2 (k.val * D + i.val)
    let ut : Tab3 (K+1) D D CF := tab3 fun k d i => cfl a o3 ((k.val * D + d.val) * D + i.val)
    let zt : Tab2 N D CF := tab2 fun n d => cfl a o4 (n.val * D + d.val)
    let m : Fin (K+1) → Eig Float CF D := fun k => ⟨at2 et k, at3 ut k⟩
    let r := cacgmmEStep tinyT (tokFloat a 4) (at2 wt) m (at2 zt)
    let g : Tab2 (K+1) N Float := tab2 r.1
    some (fmtFloats ((List.finRange (K+1)).flatMap fun k => (List.finRange N).map (at2 g k)) ++ " " ++
          fmtFloats ((List.finRange (K+1)).flatMap fun k => (List.finRange N).map (r.2 k)))
  | "emtrace" =>
    -- emtrace n: call trace of the iteration skeleton (1 = M-step, 2 = E-step)
    let r := emFit (Γ := List Nat) (Θ := List Nat) (fun g => g ++ [1]) (fun m => m ++ [2]) (tokNat a 1) []
    some (fmtNats (r.getD []))
  | _ => none

end Driver

import Driver.OpsPosterior
import Driver.Loop
def main : IO Unit := Driver.runLoop Driver.opsPosterior

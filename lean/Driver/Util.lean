/-! line-protocol helpers: every token is a decimal integer; floats travel as their IEEE-754 bit pattern -/
namespace Driver

def tokNat (a : Array String) (i : Nat) : Nat := (a[i]!).toNat!
def tokFloat (a : Array String) (i : Nat) : Float := Float.ofBits ((a[i]!).toNat!.toUInt64)

def fmtFloats (xs : List Float) : String := " ".intercalate (xs.map fun x => toString x.toBits)
def fmtNats (xs : List Nat) : String := " ".intercalate (xs.map toString)

/-- float table `off + i` -/
def fl (a : Array String) (off : Nat) (i : Nat) : Float := tokFloat a (off + i)

end Driver

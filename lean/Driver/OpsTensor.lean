import Driver.Util
import PbBss.Model.Tensor
/-! line-protocol operations of the reversed-index tensor layer (`driver_tensor`).

A tensor travels as `ndim d0 … d(ndim-1) x0 x1 …` (NumPy shape order, row-major data, floats as IEEE-754
bit patterns).  The driver stores the data in an array and reads it through the reversed multi-index;
every operation below runs the definitions of `PbBss/Model/Tensor.lean` on the FULL stacked arrays and
prints the full result — the harness does no slicing of its own. -/
open PbBss PbBss.Tensor
namespace Driver

instance : BEq Float := ⟨fun a b => a == b⟩

def tinyT : Float := 2.2250738585072014e-308

/-- parse a tensor starting at token `off`; returns the tensor and the offset after it -/
def parseT (a : Array String) (off : Nat) : T Float × Nat :=
  let nd := tokNat a off
  let shape := (List.range nd).map fun i => tokNat a (off + 1 + i)
  let size := prodList shape
  let base := off + 1 + nd
  let data : Array Float := Array.ofFn (n := size) fun i => tokFloat a (base + i.val)
  let rshape := shape.reverse
  (⟨rshape, fun idx => data.getD (ravel rshape idx) 0⟩, base + size)

/-- complex tensor: data tokens are `re im re im …` -/
def parseTC (a : Array String) (off : Nat) : T CF × Nat :=
  let nd := tokNat a off
  let shape := (List.range nd).map fun i => tokNat a (off + 1 + i)
  let size := prodList shape
  let base := off + 1 + nd
  let data : Array CF := Array.ofFn (n := size) fun i => ⟨tokFloat a (base + 2 * i.val), tokFloat a (base + 2 * i.val + 1)⟩
  let rshape := shape.reverse
  (⟨rshape, fun idx => data.getD (ravel rshape idx) ⟨0, 0⟩⟩, base + 2 * size)

def fmtTC (t : T CF) : String :=
  let size := prodList t.rshape
  let shape := t.rshape.reverse
  let head := fmtNats (shape.length :: shape)
  let body := fmtFloats ((List.range size).flatMap fun o => let z := t.get (unravel t.rshape o); [z.re, z.im])
  if size == 0 then head else head ++ " " ++ body

def parseNats (a : Array String) (off : Nat) : List Nat × Nat :=
  let n := tokNat a off
  ((List.range n).map fun i => tokNat a (off + 1 + i), off + 1 + n)

/-- print in NumPy order: `ndim shape… data…` -/
def fmtT (t : T Float) : String :=
  let size := prodList t.rshape
  let shape := t.rshape.reverse
  let head := fmtNats (shape.length :: shape)
  let body := fmtFloats ((List.range size).map fun o => t.get (unravel t.rshape o))
  if size == 0 then head else head ++ " " ++ body

/-- store the values of a tensor in an array (identity on valid indices; stops recomputation) -/
def materialize (t : T Float) : T Float :=
  let size := prodList t.rshape
  let data : Array Float := ((List.range size).map fun o => t.get (unravel t.rshape o)).toArray
  ⟨t.rshape, fun idx => data.getD (ravel t.rshape idx) 0⟩

def covTypeOf (s : String) : CovType :=
  if s == "full" then .full else if s == "diagonal" then .diagonal else .spherical

def binop (s : String) : Float → Float → Float :=
  if s == "add" then (· + ·) else if s == "sub" then (· - ·) else if s == "mul" then (· * ·) else (· / ·)

/-- per-matrix external of `Gaussian.__post_init__` on `Float`: the precision Cholesky factor
`P = (L⁻¹)ᵀ` of `Σ = L Lᵀ` (what sklearn's `_compute_precision_cholesky(·, 'full')` returns per matrix) -/
def cholPrec (m : T Float) : T Float := Id.run do
  let n := m.rshape.getD 0 0
  let elt (i j : Nat) : Float := m.get [j, i]
  -- Cholesky L (lower)
  let mut L : Array (Array Float) := Array.replicate n (Array.replicate n 0)
  for i in [0:n] do
    for j in [0:i+1] do
      let mut s := elt i j
      for k in [0:j] do
        s := s - (L[i]!)[k]! * (L[j]!)[k]!
      if i == j then
        L := L.set! i ((L[i]!).set! j (Float.sqrt s))
      else
        L := L.set! i ((L[i]!).set! j (s / (L[j]!)[j]!))
  -- X = L⁻¹ (lower) by forward substitution on the identity
  let mut X : Array (Array Float) := Array.replicate n (Array.replicate n 0)
  for c in [0:n] do
    for i in [0:n] do
      let mut s : Float := if i == c then 1 else 0
      for k in [0:i] do
        s := s - (L[i]!)[k]! * (X[k]!)[c]!
      X := X.set! i ((X[i]!).set! c (s / (L[i]!)[i]!))
  let Xf := X
  -- P = Xᵀ : P[i][j] = X[j][i]
  return ⟨[n, n], fun idx => ((Xf.getD (idx.getD 0 0) #[]).getD (idx.getD 1 0) 0)⟩

def matG (m : Gmm Float) : Gmm Float :=
  ⟨materialize m.weight, materialize m.mean, materialize m.cov, materialize m.pc, materialize m.logDet⟩

/-- `GoodLead` (hypothesis of `gmmFit_fixLead`) checked on the executed shapes for EVERY leading index -/
def allGood (ct : CovType) (cov : T Float) : Bool :=
  let r := covRank ct
  let dims := cov.rshape.drop (r + 1)
  (List.range (prodList dims)).all fun o => goodLeadB r cov (unravel dims o)

/-- the EM loop of `gmmFit` with the state stored as data after every step (`materialize` is the identity on
valid indices); returns the model after `n + 1` iterations, its posterior, and whether `GoodLead` held for
every iterate and every leading index -/
def gmmRun (ct : CovType) (eps l2p : Float) (y init sal : T Float) (n : Nat) : Gmm Float × T Float × Bool := Id.run do
  let mut m := matG (gmmMStep tinyT eps ct cholPrec y init sal)
  let mut good := allGood ct m.cov
  for _ in [0:n] do
    let aff := materialize (gmmPredict tinyT l2p ct m y)
    m := matG (gmmMStep tinyT eps ct cholPrec y aff sal)
    good := good && allGood ct m.cov
  return (m, materialize (gmmPredict tinyT l2p ct m y), good)

def fmtGmm (m : Gmm Float) : String :=
  fmtT m.weight ++ " | " ++ fmtT m.mean ++ " | " ++ fmtT m.cov ++ " | " ++ fmtT m.pc ++ " | " ++ fmtT m.logDet

def opsTensor (a : Array String) : Option String :=
  match a[0]! with
  | "id" =>
    let (t, _) := parseT a 1
    some (fmtT t)
  | "fixlead" =>
    -- fixlead c <nlead lead(reversed)…> T
    let c := tokNat a 1
    let (lead, o) := parseNats a 2
    let (t, _) := parseT a o
    some (fmtT (fixLead t c lead))
  | "reduce" =>
    -- reduce <sum|mean|amax> k keep T
    let k := tokNat a 2
    let keep := tokNat a 3 == 1
    let (t, _) := parseT a 4
    let r := match a[1]! with
      | "sum" => if keep then sumAxisKeep k t else sumAxis k t
      | "mean" => if keep then meanAxisKeep k t else meanAxis k t
      | _ => if keep then amaxAxisKeep k t else amaxAxis k t
    some (fmtT r)
  | "scan" =>
    -- scan <cumsum|cumprod|cumprod0> k T      (cumprod0: NON-negative axis k, from the start)
    let k := tokNat a 2
    let (t, _) := parseT a 3
    let r := match a[1]! with
      | "cumsum" => cumsumFromEnd k t
      | "cumprod" => cumprodFromEnd k t
      | _ => cumprodFromStart k t
    some (fmtT r)
  | "expand" =>
    let (t, _) := parseT a 2
    some (fmtT (expandDims (tokNat a 1) t))
  | "swap" =>
    let (t, _) := parseT a 3
    some (fmtT (swapaxes (tokNat a 1) (tokNat a 2) t))
  | "zip" =>
    -- zip <add|sub|mul|div> A B   (NumPy broadcasting)
    let (x, o) := parseT a 2
    let (y, _) := parseT a o
    some (fmtT (zipWith (binop a[1]!) x y))
  | "bcast" =>
    -- bcast c <nlead lead(reversed)…> T
    let c := tokNat a 1
    let (lead, o) := parseNats a 2
    let (t, _) := parseT a o
    some (fmtT (broadcastLead c lead t))
  | "flatten" =>
    let (t, _) := parseT a 2
    some (fmtT (flattenLead (tokNat a 1) t))
  | "unflatten" =>
    -- unflatten c <nlead lead(reversed)…> T
    let c := tokNat a 1
    let (lead, o) := parseNats a 2
    let (t, _) := parseT a o
    some (fmtT (unflattenLead c lead t))
  | "affil" =>
    -- affil hasMask hasClip eps W LP [M]
    let hasMask := tokNat a 1 == 1
    let hasClip := tokNat a 2 == 1
    let eps := tokFloat a 3
    let (w, o) := parseT a 4
    let (lp, o) := parseT a o
    let mask := if hasMask then some (parseT a o).1 else none
    some (fmtT (logPdfToAffiliation tinyT w lp mask (if hasClip then some eps else none)))
  | "emw" =>
    -- emw hasSal eps A [S]
    let hasSal := tokNat a 1 == 1
    let eps := tokFloat a 2
    let (aff, o) := parseT a 3
    let sal := if hasSal then some (parseT a o).1 else none
    some (fmtT (estimateMixtureWeight eps aff sal))
  | "gfit" =>
    -- gfit <full|diagonal|spherical> hasSal Y [S]  ->  mean | covariance
    let hasSal := tokNat a 2 == 1
    let (y, o) := parseT a 3
    let sal := if hasSal then some (parseT a o).1 else none
    let (m, c) := gaussianFit tinyT (covTypeOf a[1]!) y sal
    some (fmtT m ++ " | " ++ fmtT c)
  | "glogpdf" =>
    -- glogpdf <full|diagonal|spherical> log2pi MEAN PC LOGDET Y
    let l2p := tokFloat a 2
    let (mean, o) := parseT a 3
    let (pc, o) := parseT a o
    let (ld, o) := parseT a o
    let (y, _) := parseT a o
    let r := match covTypeOf a[1]! with
      | .full => gaussianLogPdf l2p mean pc ld y
      | .diagonal => diagonalGaussianLogPdf l2p mean pc ld y
      | .spherical => sphericalGaussianLogPdf l2p mean pc ld y
    some (fmtT r)
  | "postinit" =>
    -- postinit <full|diagonal|spherical|diagonal-noreshape> D COV  ->  precision_cholesky | log_det
    let d := tokNat a 2
    let (cov, _) := parseT a 3
    let (pc, ld) := match a[1]! with
      | "full" => fullPostInit cholPrec cov
      | "diagonal" => diagonalPostInit cov
      | "diagonal-noreshape" => diagonalPostInitNoReshape cov
      | _ => sphericalPostInit d cov
    some (fmtT pc ++ " | " ++ fmtT ld)
  | "gmmfit" =>
    -- gmmfit <full|diagonal|spherical> n eps log2pi Y INIT SAL  ->  weight | mean | cov | pc | logDet | posterior | good
    -- (n + 1 iterations of GMMTrainer._fit, state stored after every step)
    let ct := covTypeOf a[1]!
    let (y, o) := parseT a 5
    let (init, o) := parseT a o
    let (sal, _) := parseT a o
    let (m, post, good) := gmmRun ct (tokFloat a 3) (tokFloat a 4) y init sal (tokNat a 2)
    some (fmtGmm m ++ " | " ++ fmtT post ++ " | 0 " ++ fmtFloats [if good then 1.0 else 0.0])
  | "gmmfit-direct" =>
    -- the recursive definition `gmmFit` itself (function-valued state: small n only)
    let ct := covTypeOf a[1]!
    let (y, o) := parseT a 5
    let (init, o) := parseT a o
    let (sal, _) := parseT a o
    let m := gmmFit tinyT (tokFloat a 3) (tokFloat a 4) ct cholPrec y init sal (tokNat a 2)
    some (fmtGmm m)
  | "vmffit" =>
    -- vmffit hasSal tiny minC maxC Y [S]  ->  mean | concentration
    let hasSal := tokNat a 1 == 1
    let (y, o) := parseT a 5
    let sal := if hasSal then some (parseT a o).1 else none
    let (m, c) := vmfFit (tokFloat a 2) (tokFloat a 3) (tokFloat a 4) y sal
    some (fmtT m ++ " | " ++ fmtT c)
  | "vmflogpdf" =>
    -- vmflogpdf tiny MEAN CONC LOGNORM Y
    let (mean, o) := parseT a 2
    let (conc, o) := parseT a o
    let (ln, o) := parseT a o
    let (y, _) := parseT a o
    some (fmtT (vmfLogPdf (tokFloat a 1) mean conc ln y))
  | "scatter" =>
    -- scatter floorDen hasSal Y(complex) [S]
    let floorDen := if tokNat a 1 == 1 then some tinyT else none
    let hasSal := tokNat a 2 == 1
    let (y, o) := parseTC a 3
    let sal := if hasSal then some (parseT a o).1 else none
    some (fmtTC (scatter floorDen y sal))
  | "watsonlogpdf" =>
    -- watsonlogpdf MODE(complex) CONC LOGNORM Y(complex)
    let (mode, o) := parseTC a 1
    let (conc, o) := parseT a o
    let (ln, o) := parseT a o
    let (y, _) := parseTC a o
    some (fmtT (watsonLogPdf mode conc ln y))
  | "binghamlogpdf" =>
    -- binghamlogpdf VECS(complex) VALS LOGNORM Y(complex)
    let (vecs, o) := parseTC a 1
    let (vals, o) := parseT a o
    let (ln, o) := parseT a o
    let (y, _) := parseTC a o
    some (fmtT (binghamLogPdf vecs vals ln y))
  | "cacgnorm" =>
    let (y, _) := parseTC a 1
    some (fmtTC (cacgNormalize tinyT y))
  | "cacgstart" =>
    let (y, _) := parseTC a 1
    some (fmtT (cacgStartQuadraticForm (α := Float) y))
  | "cacgcov" =>
    -- cacgcov hermitize hasSal Y(complex, (..., D, N)) [S] Q
    let herm := tokNat a 1 == 1
    let hasSal := tokNat a 2 == 1
    let (y, o) := parseTC a 3
    let (sal, o) := if hasSal then let r := parseT a o; (some r.1, r.2) else (none, o)
    let (q, _) := parseT a o
    some (fmtTC (cacgFitCovariance tinyT herm y sal q))
  | "cacgeig" =>
    -- cacgeig floor VALS
    let (vals, _) := parseT a 2
    some (fmtT (cacgEigenvalueNorm tinyT (tokFloat a 1) vals))
  | "cacglogpdf" =>
    -- cacglogpdf VECS(complex) VALS Y(complex, (..., D, T))  ->  log_pdf | quadratic_form
    let (vecs, o) := parseTC a 1
    let (vals, o) := parseT a o
    let (y, _) := parseTC a o
    let (lp, q) := cacgLogPdf tinyT vecs vals y
    some (fmtT lp ++ " | " ++ fmtT q)
  | _ => none

end Driver

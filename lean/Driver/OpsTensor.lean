import Driver.Util
import PbBss.Model.Tensor
import PbBss.Model.TensorEm
import PbBss.Model.Num
/-! line-protocol operations of the reversed-index tensor layer (`driver_tensor`).

A tensor travels as `ndim d0 … d(ndim-1) x0 x1 …` (NumPy shape order, row-major data, floats as IEEE-754
bit patterns).  The driver stores the data in an array and reads it through the reversed multi-index;
every operation below runs the definitions of `PbBss/Model/Tensor.lean` on the FULL stacked arrays and
prints the full result — the harness does no slicing of its own. -/
open PbBss PbBss.Tensor
namespace Driver

instance : BEq Float := ⟨fun a b => a == b⟩

def tinyT : Float := 2.2250738585072014e-308

/-- parse a tensor starting at token `off`; returns the tensor and the offset after it -/
def parseT (a : Array String) (off : Nat) : T Float × Nat :=
  let nd := tokNat a off
  let shape := (List.range nd).map fun i => tokNat a (off + 1 + i)
  let size := prodList shape
  let base := off + 1 + nd
  let data : Array Float := Array.ofFn (n := size) fun i => tokFloat a (base + i.val)
  let rshape := shape.reverse
  (⟨rshape, fun idx => data.getD (ravel rshape idx) 0⟩, base + size)

/-- complex tensor: data tokens are `re im re im …` -/
def parseTC (a : Array String) (off : Nat) : T CF × Nat :=
  let nd := tokNat a off
  let shape := (List.range nd).map fun i => tokNat a (off + 1 + i)
  let size := prodList shape
  let base := off + 1 + nd
  let data : Array CF := Array.ofFn (n := size) fun i => ⟨tokFloat a (base + 2 * i.val), tokFloat a (base + 2 * i.val + 1)⟩
  let rshape := shape.reverse
  (⟨rshape, fun idx => data.getD (ravel rshape idx) ⟨0, 0⟩⟩, base + 2 * size)

def fmtTC (t : T CF) : String :=
  let size := prodList t.rshape
  let shape := t.rshape.reverse
  let head := fmtNats (shape.length :: shape)
  let body := fmtFloats ((List.range size).flatMap fun o => let z := t.get (unravel t.rshape o); [z.re, z.im])
  if size == 0 then head else head ++ " " ++ body

def parseNats (a : Array String) (off : Nat) : List Nat × Nat :=
  let n := tokNat a off
  ((List.range n).map fun i => tokNat a (off + 1 + i), off + 1 + n)

/-- print in NumPy order: `ndim shape… data…` -/
def fmtT (t : T Float) : String :=
  let size := prodList t.rshape
  let shape := t.rshape.reverse
  let head := fmtNats (shape.length :: shape)
  let body := fmtFloats ((List.range size).map fun o => t.get (unravel t.rshape o))
  if size == 0 then head else head ++ " " ++ body

/-- store the values of a tensor in an array (identity on valid indices; stops recomputation) -/
def materialize (t : T Float) : T Float :=
  let size := prodList t.rshape
  let data : Array Float := ((List.range size).map fun o => t.get (unravel t.rshape o)).toArray
  ⟨t.rshape, fun idx => data.getD (ravel t.rshape idx) 0⟩

def covTypeOf (s : String) : CovType :=
  if s == "full" then .full else if s == "diagonal" then .diagonal else .spherical

def binop (s : String) : Float → Float → Float :=
  if s == "add" then (· + ·) else if s == "sub" then (· - ·) else if s == "mul" then (· * ·) else (· / ·)

/-- per-matrix external of `Gaussian.__post_init__` on `Float`: the precision Cholesky factor
`P = (L⁻¹)ᵀ` of `Σ = L Lᵀ` (what sklearn's `_compute_precision_cholesky(·, 'full')` returns per matrix) -/
def cholPrec (m : T Float) : T Float := Id.run do
  let n := m.rshape.getD 0 0
  let elt (i j : Nat) : Float := m.get [j, i]
  -- Cholesky L (lower)
  let mut L : Array (Array Float) := Array.replicate n (Array.replicate n 0)
  for i in [0:n] do
    for j in [0:i+1] do
      let mut s := elt i j
      for k in [0:j] do
        s := s - (L[i]!)[k]! * (L[j]!)[k]!
      if i == j then
        L := L.set! i ((L[i]!).set! j (Float.sqrt s))
      else
        L := L.set! i ((L[i]!).set! j (s / (L[j]!)[j]!))
  -- X = L⁻¹ (lower) by forward substitution on the identity
  let mut X : Array (Array Float) := Array.replicate n (Array.replicate n 0)
  for c in [0:n] do
    for i in [0:n] do
      let mut s : Float := if i == c then 1 else 0
      for k in [0:i] do
        s := s - (L[i]!)[k]! * (X[k]!)[c]!
      X := X.set! i ((X[i]!).set! c (s / (L[i]!)[i]!))
  let Xf := X
  -- P = Xᵀ : P[i][j] = X[j][i]
  return ⟨[n, n], fun idx => ((Xf.getD (idx.getD 0 0) #[]).getD (idx.getD 1 0) 0)⟩

def matG (m : Gmm Float) : Gmm Float :=
  ⟨materialize m.weight, materialize m.mean, materialize m.cov, materialize m.pc, materialize m.logDet⟩

/-- `GoodLead` (hypothesis of `gmmFit_fixLead`) checked on the executed shapes for EVERY leading index -/
def allGood (ct : CovType) (cov : T Float) : Bool :=
  let r := covRank ct
  let dims := cov.rshape.drop (r + 1)
  (List.range (prodList dims)).all fun o => goodLeadB r cov (unravel dims o)

/-- the EM loop of `gmmFit` with the state stored as data after every step (`materialize` is the identity on
valid indices); returns the model after `n + 1` iterations, its posterior, and whether `GoodLead` held for
every iterate and every leading index -/
def gmmRun (ct : CovType) (eps l2p : Float) (y init sal : T Float) (n : Nat) : Gmm Float × T Float × Bool := Id.run do
  let mut m := matG (gmmMStep tinyT eps ct cholPrec y init sal)
  let mut good := allGood ct m.cov
  for _ in [0:n] do
    let aff := materialize (gmmPredict tinyT l2p ct m y)
    m := matG (gmmMStep tinyT eps ct cholPrec y aff sal)
    good := good && allGood ct m.cov
  return (m, materialize (gmmPredict tinyT l2p ct m y), good)

def fmtGmm (m : Gmm Float) : String :=
  fmtT m.weight ++ " | " ++ fmtT m.mean ++ " | " ++ fmtT m.cov ++ " | " ++ fmtT m.pc ++ " | " ++ fmtT m.logDet

/-! ### EM loops of the directional mixture trainers (`PbBss/Model/TensorEm.lean`)

Externals: `np.linalg.eigh` of one matrix = the Jacobi routine of `Model/Num.lean` (`eighJ`; eigenvector phases differ
from LAPACK's, the harness compares gauge-free quantities); the elementwise externals (`log_norm`, the Watson
concentration spline) are tables of the values the REAL call produced: `tableFn keys vals x` returns the value whose
key is nearest to `x` (the model's arguments differ from the code's by rounding only). -/

def materializeC (t : T CF) : T CF :=
  let size := prodList t.rshape
  let data : Array CF := ((List.range size).map fun o => t.get (unravel t.rshape o)).toArray
  ⟨t.rshape, fun idx => data.getD (ravel t.rshape idx) ⟨0, 0⟩⟩

def toArr (t : T Float) : Array Float :=
  ((List.range (prodList t.rshape)).map fun o => t.get (unravel t.rshape o)).toArray

/-- the graph of an elementwise external on the points the real call evaluated, read at the nearest key -/
def tableFn (keys vals : Array Float) (x : Float) : Float := Id.run do
  let mut best := 0
  let mut bd : Float := 1.0 / 0.0
  for i in [0:keys.size] do
    let d := Float.abs (keys[i]! - x)
    if d < bd then
      bd := d
      best := i
  return vals.getD best 0

/-- `np.linalg.eigh` of ONE Hermitian matrix `(D, D)`: `(eigenvectors as columns, ascending eigenvalues)` -/
def eighJ (m : T CF) : T CF × T Float :=
  let n := m.rshape.getD 0 0
  let a : Num.Mat := Array.ofFn (n := n) fun i => Array.ofFn (n := n) fun j =>
    let z := m.get [j.val, i.val]; (⟨z.re, z.im⟩ : Num.C)
  let r := Num.eigh n a
  let vals := r.1
  let v := r.2
  (⟨[n, n], fun idx =>
      let c := ((v.getD (idx.getD 1 0) #[]).getD (idx.getD 0 0) ⟨0, 0⟩); (⟨c.re, c.im⟩ : CF)⟩,
   ⟨[n], fun idx => vals.getD (idx.getD 0 0) 0⟩)

def matV (m : Vmfmm Float) : Vmfmm Float := ⟨materialize m.weight, materialize m.mean, materialize m.conc⟩
def matW (m : Cwmm Float CF) : Cwmm Float CF := ⟨materialize m.weight, materializeC m.mode, materialize m.conc⟩
def matC (m : Cacgmm Float CF) : Cacgmm Float CF := ⟨materialize m.weight, materializeC m.vecs, materialize m.vals⟩

def fmtV (m : Vmfmm Float) : String := fmtT m.weight ++ " | " ++ fmtT m.mean ++ " | " ++ fmtT m.conc
def fmtW (m : Cwmm Float CF) : String := fmtT m.weight ++ " | " ++ fmtTC m.mode ++ " | " ++ fmtT m.conc
def fmtC (m : Cacgmm Float CF) : String := fmtT m.weight ++ " | " ++ fmtTC m.vecs ++ " | " ++ fmtT m.vals

/-- `VMFMMTrainer.fit` (`vmfmmTrainerFit`) with the state stored as data after every pass of the loop (`materialize` is
the identity on valid indices): the first M-step, then `n` times the loop body `vmfmmStep` of the model; returns the model
after `n + 1` iterations and its posterior `model.predict(y)` -/
def vmfmmRun (eps minC maxC : Float) (lnorm : Nat → Float → Float) (y init : T Float) (sal : Option (T Float)) (n : Nat) :
    Vmfmm Float × T Float := Id.run do
  let yn := materialize (unitNormReal tinyT y)
  let s := match sal with
    | none => const (eraseAt 1 init.rshape 1) 1
    | some s => s
  let mut m := matV (vmfmmMStep tinyT eps minC maxC yn init s)
  for _ in [0:n] do
    m := matV (vmfmmStep tinyT eps minC maxC lnorm yn s m)
  return (m, materialize (vmfmmPredict tinyT lnorm m y))

/-- `CWMMTrainer.fit` (`cwmmTrainerFit`) step by step; also reports whether the hypothesis `GoodLead` of `cwmmFit_slices`
held for the scatter stack of every iteration and every leading index -/
def cwmmRun (eps : Float) (kinv : Float → Float) (lnorm : Nat → Float → Float) (y : T CF) (init : T Float)
    (sal : Option (T Float)) (n : Nat) : Cwmm Float CF × T Float × Bool := Id.run do
  let yn := materializeC (unitNormCx tinyT y)
  let s : T Float := match sal with
    | none => const (eraseAt 1 init.rshape 1) 1
    | some s => s
  let goodOf (aff : T Float) : Bool :=
    let cov : T CF := cwmmScatter yn aff (some s)
    let dims := cov.rshape.drop 3
    (List.range (prodList dims)).all fun o => goodLeadB 2 cov (unravel dims o)
  let mut m := matW (cwmmMStep eps eighJ kinv yn init (some s))
  let mut good := goodOf init
  for _ in [0:n] do
    let aff := materialize (cwmmPredict tinyT lnorm m yn)
    good := good && goodOf aff
    m := matW (cwmmStep tinyT eps eighJ kinv lnorm yn (some s) m)
  return (m, materialize (cwmmPredict tinyT lnorm m y), good)

/-- `CACGMMTrainer.fit` (`cacgmmTrainerFit`) step by step; returns the model after `n + 1` iterations and
`model.predict(y, return_quadratic_form=True)` -/
def cacgmmRun (eps floor : Float) (herm : Bool) (clip : Option Float) (y : T CF) (init : T Float)
    (sal : Option (T Float)) (n : Nat) : Cacgmm Float CF × T Float × T Float := Id.run do
  let yn := materializeC (cacgNormalize tinyT y)
  let aff0 := materialize (broadcastLead 2 (yn.rshape.drop 2) init)
  let mut m := matC (cacgmmMStep tinyT eps floor herm eighJ yn (const aff0.rshape 1) aff0 sal)
  for _ in [0:n] do
    -- the body of `cacgmmStep` with its intermediate results stored (evaluating `cacgmmStep` as ONE functional tensor
    -- recomputes the posterior for every read of the M-step: ~100x slower; the op "cacgmm-step" runs it as defined)
    let p := cacgmmPredict tinyT clip m yn
    let aff := materialize p.1
    let q := materialize p.2
    m := matC (cacgmmMStep tinyT eps floor herm eighJ yn q aff sal)
  let p := cacgmmPredict tinyT none m yn
  return (m, materialize p.1, materialize p.2)

def opsTensorEm (a : Array String) : Option String :=
  match a[0]! with
  | "vmfmm-mstep" =>
    -- vmfmm-mstep eps minC maxC Y AFF SAL  ->  weight | mean | concentration
    let (y, o) := parseT a 4
    let (aff, o) := parseT a o
    let (sal, _) := parseT a o
    some (fmtV (vmfmmMStep tinyT (tokFloat a 1) (tokFloat a 2) (tokFloat a 3) y aff sal))
  | "vmfmm-predict" =>
    -- vmfmm-predict KEYS VALS W MEAN CONC Y  ->  affiliation      (KEYS/VALS: graph of log_norm)
    let (ks, o) := parseT a 1
    let (vs, o) := parseT a o
    let (w, o) := parseT a o
    let (mean, o) := parseT a o
    let (conc, o) := parseT a o
    let (y, _) := parseT a o
    let tab := tableFn (toArr ks) (toArr vs)
    some (fmtT (vmfmmPredict tinyT (fun _ => tab) ⟨w, mean, conc⟩ y))
  | "vmfmm-fit" | "vmfmm-fit-direct" =>
    -- vmfmm-fit n hasSal eps minC maxC KEYS VALS Y INIT [SAL]  ->  weight | mean | concentration | posterior
    -- (-direct: the recursive definition `vmfmmTrainerFit` itself, function-valued state: tiny cases only; no posterior)
    let n := tokNat a 1
    let hasSal := tokNat a 2 == 1
    let (ks, o) := parseT a 6
    let (vs, o) := parseT a o
    let (y, o) := parseT a o
    let (init, o) := parseT a o
    let sal := if hasSal then some (parseT a o).1 else none
    let tab := tableFn (toArr ks) (toArr vs)
    if a[0]! == "vmfmm-fit" then
      let (m, post) := vmfmmRun (tokFloat a 3) (tokFloat a 4) (tokFloat a 5) (fun _ => tab) y init sal n
      some (fmtV m ++ " | " ++ fmtT post)
    else
      some (fmtV (vmfmmTrainerFit tinyT (tokFloat a 3) (tokFloat a 4) (tokFloat a 5) (fun _ => tab) y init sal n))
  | "cwmm-mstep" =>
    -- cwmm-mstep hasSal eps KKEYS KVALS Y(complex) AFF [SAL]  ->  weight | mode | concentration   (KKEYS/KVALS: spline)
    let hasSal := tokNat a 1 == 1
    let (ks, o) := parseT a 3
    let (vs, o) := parseT a o
    let (y, o) := parseTC a o
    let (aff, o) := parseT a o
    let sal := if hasSal then some (parseT a o).1 else none
    some (fmtW (cwmmMStep (tokFloat a 2) eighJ (tableFn (toArr ks) (toArr vs)) y aff sal))
  | "cwmm-predict" =>
    -- cwmm-predict KEYS VALS W MODE(complex) CONC Y(complex)  ->  affiliation
    let (ks, o) := parseT a 1
    let (vs, o) := parseT a o
    let (w, o) := parseT a o
    let (mode, o) := parseTC a o
    let (conc, o) := parseT a o
    let (y, _) := parseTC a o
    let tab := tableFn (toArr ks) (toArr vs)
    some (fmtT (cwmmPredict tinyT (fun _ => tab) ⟨w, mode, conc⟩ y))
  | "cwmm-fit" | "cwmm-fit-direct" =>
    -- cwmm-fit n hasSal eps KKEYS KVALS LKEYS LVALS Y(complex) INIT [SAL]  ->  weight | mode | concentration | posterior | good
    let n := tokNat a 1
    let hasSal := tokNat a 2 == 1
    let (kk, o) := parseT a 4
    let (kv, o) := parseT a o
    let (lk, o) := parseT a o
    let (lv, o) := parseT a o
    let (y, o) := parseTC a o
    let (init, o) := parseT a o
    let sal := if hasSal then some (parseT a o).1 else none
    let kinv := tableFn (toArr kk) (toArr kv)
    let ltab := tableFn (toArr lk) (toArr lv)
    if a[0]! == "cwmm-fit" then
      let (m, post, good) := cwmmRun (tokFloat a 3) kinv (fun _ => ltab) y init sal n
      some (fmtW m ++ " | " ++ fmtT post ++ " | 0 " ++ fmtFloats [if good then 1.0 else 0.0])
    else
      some (fmtW (cwmmTrainerFit tinyT (tokFloat a 3) eighJ kinv (fun _ => ltab) y init sal n))
  | "cacgmm-mstep" =>
    -- cacgmm-mstep hermitize hasSal eps floor X(complex, (..., D, N)) Q AFF [SAL]  ->  weight | eigenvectors | eigenvalues
    let herm := tokNat a 1 == 1
    let hasSal := tokNat a 2 == 1
    let (x, o) := parseTC a 5
    let (q, o) := parseT a o
    let (aff, o) := parseT a o
    let sal := if hasSal then some (parseT a o).1 else none
    some (fmtC (cacgmmMStep tinyT (tokFloat a 3) (tokFloat a 4) herm eighJ x q aff sal))
  | "cacgmm-predict" =>
    -- cacgmm-predict hasClip eps W VECS(complex) VALS Y(complex, (..., D, N))  ->  affiliation | quadratic_form
    let clip := if tokNat a 1 == 1 then some (tokFloat a 2) else none
    let (w, o) := parseT a 3
    let (vecs, o) := parseTC a o
    let (vals, o) := parseT a o
    let (y, _) := parseTC a o
    let p := cacgmmPredict tinyT clip ⟨w, vecs, vals⟩ y
    some (fmtT p.1 ++ " | " ++ fmtT p.2)
  | "cacgmm-step" =>
    -- cacgmm-step hermitize hasSal hasClip clipEps eps floor W VECS(complex) VALS Y(complex, (..., D, N)) [SAL]
    --   ->  weight | eigenvectors | eigenvalues        (`cacgmmStep` as defined: E-step then M-step, nothing stored)
    let herm := tokNat a 1 == 1
    let hasSal := tokNat a 2 == 1
    let clip := if tokNat a 3 == 1 then some (tokFloat a 4) else none
    let (w, o) := parseT a 7
    let (vecs, o) := parseTC a o
    let (vals, o) := parseT a o
    let (y, o) := parseTC a o
    let sal := if hasSal then some (parseT a o).1 else none
    some (fmtC (cacgmmStep tinyT (tokFloat a 5) (tokFloat a 6) herm clip eighJ y sal ⟨w, vecs, vals⟩))
  | "cacgmm-fit" | "cacgmm-fit-direct" =>
    -- cacgmm-fit n hermitize hasSal hasClip clipEps eps floor Y(complex, (..., N, D)) INIT [SAL]
    --   ->  weight | eigenvectors | eigenvalues | posterior | quadratic_form     (posterior of `CACGMM.predict`)
    let n := tokNat a 1
    let herm := tokNat a 2 == 1
    let hasSal := tokNat a 3 == 1
    let clip := if tokNat a 4 == 1 then some (tokFloat a 5) else none
    let (y, o) := parseTC a 8
    let (init, o) := parseT a o
    let sal := if hasSal then some (parseT a o).1 else none
    if a[0]! == "cacgmm-fit" then
      let (m, post, q) := cacgmmRun (tokFloat a 6) (tokFloat a 7) herm clip y init sal n
      some (fmtC m ++ " | " ++ fmtT post ++ " | " ++ fmtT q)
    else
      some (fmtC (cacgmmTrainerFit tinyT (tokFloat a 6) (tokFloat a 7) herm clip eighJ y init sal n))
  | _ => none

def opsTensor (a : Array String) : Option String :=
  match a[0]! with
  | "id" =>
    let (t, _) := parseT a 1
    some (fmtT t)
  | "fixlead" =>
    -- fixlead c <nlead lead(reversed)…> T
    let c := tokNat a 1
    let (lead, o) := parseNats a 2
    let (t, _) := parseT a o
    some (fmtT (fixLead t c lead))
  | "reduce" =>
    -- reduce <sum|mean|amax> k keep T
    let k := tokNat a 2
    let keep := tokNat a 3 == 1
    let (t, _) := parseT a 4
    let r := match a[1]! with
      | "sum" => if keep then sumAxisKeep k t else sumAxis k t
      | "mean" => if keep then meanAxisKeep k t else meanAxis k t
      | _ => if keep then amaxAxisKeep k t else amaxAxis k t
    some (fmtT r)
  | "scan" =>
    -- scan <cumsum|cumprod|cumprod0> k T      (cumprod0: NON-negative axis k, from the start)
    let k := tokNat a 2
    let (t, _) := parseT a 3
    let r := match a[1]! with
      | "cumsum" => cumsumFromEnd k t
      | "cumprod" => cumprodFromEnd k t
      | _ => cumprodFromStart k t
    some (fmtT r)
  | "expand" =>
    let (t, _) := parseT a 2
    some (fmtT (expandDims (tokNat a 1) t))
  | "swap" =>
    let (t, _) := parseT a 3
    some (fmtT (swapaxes (tokNat a 1) (tokNat a 2) t))
  | "zip" =>
    -- zip <add|sub|mul|div> A B   (NumPy broadcasting)
    let (x, o) := parseT a 2
    let (y, _) := parseT a o
    some (fmtT (zipWith (binop a[1]!) x y))
  | "bcast" =>
    -- bcast c <nlead lead(reversed)…> T
    let c := tokNat a 1
    let (lead, o) := parseNats a 2
    let (t, _) := parseT a o
    some (fmtT (broadcastLead c lead t))
  | "flatten" =>
    let (t, _) := parseT a 2
    some (fmtT (flattenLead (tokNat a 1) t))
  | "unflatten" =>
    -- unflatten c <nlead lead(reversed)…> T
    let c := tokNat a 1
    let (lead, o) := parseNats a 2
    let (t, _) := parseT a o
    some (fmtT (unflattenLead c lead t))
  | "affil" =>
    -- affil hasMask hasClip eps W LP [M]
    let hasMask := tokNat a 1 == 1
    let hasClip := tokNat a 2 == 1
    let eps := tokFloat a 3
    let (w, o) := parseT a 4
    let (lp, o) := parseT a o
    let mask := if hasMask then some (parseT a o).1 else none
    some (fmtT (logPdfToAffiliation tinyT w lp mask (if hasClip then some eps else none)))
  | "emw" =>
    -- emw hasSal eps A [S]
    let hasSal := tokNat a 1 == 1
    let eps := tokFloat a 2
    let (aff, o) := parseT a 3
    let sal := if hasSal then some (parseT a o).1 else none
    some (fmtT (estimateMixtureWeight eps aff sal))
  | "gfit" =>
    -- gfit <full|diagonal|spherical> hasSal Y [S]  ->  mean | covariance
    let hasSal := tokNat a 2 == 1
    let (y, o) := parseT a 3
    let sal := if hasSal then some (parseT a o).1 else none
    let (m, c) := gaussianFit tinyT (covTypeOf a[1]!) y sal
    some (fmtT m ++ " | " ++ fmtT c)
  | "glogpdf" =>
    -- glogpdf <full|diagonal|spherical> log2pi MEAN PC LOGDET Y
    let l2p := tokFloat a 2
    let (mean, o) := parseT a 3
    let (pc, o) := parseT a o
    let (ld, o) := parseT a o
    let (y, _) := parseT a o
    let r := match covTypeOf a[1]! with
      | .full => gaussianLogPdf l2p mean pc ld y
      | .diagonal => diagonalGaussianLogPdf l2p mean pc ld y
      | .spherical => sphericalGaussianLogPdf l2p mean pc ld y
    some (fmtT r)
  | "postinit" =>
    -- postinit <full|diagonal|spherical|diagonal-noreshape> D COV  ->  precision_cholesky | log_det
    let d := tokNat a 2
    let (cov, _) := parseT a 3
    let (pc, ld) := match a[1]! with
      | "full" => fullPostInit cholPrec cov
      | "diagonal" => diagonalPostInit cov
      | "diagonal-noreshape" => diagonalPostInitNoReshape cov
      | _ => sphericalPostInit d cov
    some (fmtT pc ++ " | " ++ fmtT ld)
  | "gmmfit" =>
    -- gmmfit <full|diagonal|spherical> n eps log2pi Y INIT SAL  ->  weight | mean | cov | pc | logDet | posterior | good
    -- (n + 1 iterations of GMMTrainer._fit, state stored after every step)
    let ct := covTypeOf a[1]!
    let (y, o) := parseT a 5
    let (init, o) := parseT a o
    let (sal, _) := parseT a o
    let (m, post, good) := gmmRun ct (tokFloat a 3) (tokFloat a 4) y init sal (tokNat a 2)
    some (fmtGmm m ++ " | " ++ fmtT post ++ " | 0 " ++ fmtFloats [if good then 1.0 else 0.0])
  | "gmmfit-direct" =>
    -- the recursive definition `gmmFit` itself (function-valued state: small n only)
    let ct := covTypeOf a[1]!
    let (y, o) := parseT a 5
    let (init, o) := parseT a o
    let (sal, _) := parseT a o
    let m := gmmFit tinyT (tokFloat a 3) (tokFloat a 4) ct cholPrec y init sal (tokNat a 2)
    some (fmtGmm m)
  | "vmffit" =>
    -- vmffit hasSal tiny minC maxC Y [S]  ->  mean | concentration
    let hasSal := tokNat a 1 == 1
    let (y, o) := parseT a 5
    let sal := if hasSal then some (parseT a o).1 else none
    let (m, c) := vmfFit (tokFloat a 2) (tokFloat a 3) (tokFloat a 4) y sal
    some (fmtT m ++ " | " ++ fmtT c)
  | "vmflogpdf" =>
    -- vmflogpdf tiny MEAN CONC LOGNORM Y
    let (mean, o) := parseT a 2
    let (conc, o) := parseT a o
    let (ln, o) := parseT a o
    let (y, _) := parseT a o
    some (fmtT (vmfLogPdf (tokFloat a 1) mean conc ln y))
  | "scatter" =>
    -- scatter floorDen hasSal Y(complex) [S]
    let floorDen := if tokNat a 1 == 1 then some tinyT else none
    let hasSal := tokNat a 2 == 1
    let (y, o) := parseTC a 3
    let sal := if hasSal then some (parseT a o).1 else none
    some (fmtTC (scatter floorDen y sal))
  | "watsonlogpdf" =>
    -- watsonlogpdf MODE(complex) CONC LOGNORM Y(complex)
    let (mode, o) := parseTC a 1
    let (conc, o) := parseT a o
    let (ln, o) := parseT a o
    let (y, _) := parseTC a o
    some (fmtT (watsonLogPdf mode conc ln y))
  | "binghamlogpdf" =>
    -- binghamlogpdf VECS(complex) VALS LOGNORM Y(complex)
    let (vecs, o) := parseTC a 1
    let (vals, o) := parseT a o
    let (ln, o) := parseT a o
    let (y, _) := parseTC a o
    some (fmtT (binghamLogPdf vecs vals ln y))
  | "cacgnorm" =>
    let (y, _) := parseTC a 1
    some (fmtTC (cacgNormalize tinyT y))
  | "cacgstart" =>
    let (y, _) := parseTC a 1
    some (fmtT (cacgStartQuadraticForm (α := Float) y))
  | "cacgcov" =>
    -- cacgcov hermitize hasSal Y(complex, (..., D, N)) [S] Q
    let herm := tokNat a 1 == 1
    let hasSal := tokNat a 2 == 1
    let (y, o) := parseTC a 3
    let (sal, o) := if hasSal then let r := parseT a o; (some r.1, r.2) else (none, o)
    let (q, _) := parseT a o
    some (fmtTC (cacgFitCovariance tinyT herm y sal q))
  | "cacgeig" =>
    -- cacgeig floor VALS
    let (vals, _) := parseT a 2
    some (fmtT (cacgEigenvalueNorm tinyT (tokFloat a 1) vals))
  | "cacglogpdf" =>
    -- cacglogpdf VECS(complex) VALS Y(complex, (..., D, T))  ->  log_pdf | quadratic_form
    let (vecs, o) := parseTC a 1
    let (vals, o) := parseT a o
    let (y, _) := parseTC a o
    let (lp, q) := cacgLogPdf tinyT vecs vals y
    some (fmtT lp ++ " | " ++ fmtT q)
  | _ => opsTensorEm a

end Driver

import PbBss.Model.Align
import PbBss.Model.Plan
import Driver.Util
open PbBss PbBss.Align
namespace Driver

def tinyF : Float := 2.2250738585072014e-308

def metricOf (s : String) : Metric := if s == "cos" then .cos else if s == "multiply" then .multiply else .euclidean
def algoOf (s : String) : Algo := if s == "optimal" then .optimal else .greedy

def mask3 (a : Array String) (off K F T : Nat) : Tab3 K F T Float :=
  tab3 fun k f t => fl a off ((k.val * F + f.val) * T + t.val)

def fmtMapping {K F : Nat} (m : Fin K → Fin F → Fin K) : String :=
  fmtNats ((List.finRange K).flatMap fun k => (List.finRange F).map fun f => (m k f).val)

def opsAlign (a : Array String) : Option String :=
  match a[0]! with
  | "assign" =>
    -- assign <algo> K <K*K floats>
    let K := tokNat a 2
    let s : Fin K → Fin K → Float := fun i j => fl a 3 (i.val * K + j.val)
    some (fmtNats ((List.finRange K).map fun k => (assign (algoOf a[1]!) s k).val))
  | "plan" =>
    -- plan F start width shift
    let p := Plan.plan ⟨tokNat a 1, tokNat a 2, tokNat a 3, tokNat a 4⟩
    some (fmtNats (p.flatMap fun s => [s.1, s.2]))
  | "galign" =>
    -- galign <metric> K F T <mask>
    let K := tokNat a 2; let F := tokNat a 3; let T := tokNat a 4
    let cols := (greedyAlignerCols tinyF (metricOf a[1]!) (mask3 a 5 K F T)).toArray
    some (fmtNats ((List.finRange K).flatMap fun k => (List.range F).map fun f => match cols[f]? with | some c => (at1 c k).val | none => 0))
  | "oracle" =>
    -- oracle <metric> <algo> K F T <mask> <ref>
    let K := tokNat a 3; let F := tokNat a 4; let T := tokNat a 5
    some (fmtMapping (oracleAligner tinyF (metricOf a[1]!) (algoOf a[2]!) (mask3 a 6 K F T)
      (mask3 a (6 + K*F*T) K F T)))
  | "dhtv" =>
    -- dhtv <metric> <algo> K F T nseg (iters lo hi)*nseg <mask>
    let K := tokNat a 3; let F := tokNat a 4; let T := tokNat a 5; let ns := tokNat a 6
    let plan := (List.range ns).map fun i => (tokNat a (7 + 3*i), tokNat a (8 + 3*i), tokNat a (9 + 3*i))
    let st := dhtv tinyF (metricOf a[1]!) (algoOf a[2]!) plan (mask3 a (7 + 3*ns) K F T)
    some (fmtMapping (at2 st.mapping) ++ " | " ++ fmtFloats ((List.finRange K).flatMap fun k =>
      (List.finRange F).flatMap fun f => (List.finRange T).map fun t => at3 st.features k f t))
  | "inlinepa" =>
    -- inlinepa K T <w K*T> <spatial K*T> <spectral K*T>   (one frequency bin, K >= 1)
    let K := tokNat a 1; let T := tokNat a 2
    if hK : 0 < K then
      let tbl (off : Nat) : Tab2 ((K-1)+1) T Float := tab2 fun k t => fl a off (k.val * T + t.val)
      let w := tbl 3; let sp := tbl (3 + K*T); let sc := tbl (3 + 2*K*T)
      let r := tab2 (inlinePa (K := K-1) tinyF (at2 w) (at2 sp) (at2 sc))
      some (fmtFloats ((List.finRange ((K-1)+1)).flatMap fun k => (List.finRange T).map fun t => at2 r k t))
    else some ""
  | _ => none

end Driver

import PbBss.Model.Bf
import PbBss.Model.Num
import Driver.Util
/-! line-protocol operations of the `Bf` models (C11, C12).

Externals are supplied by small `Float` routines of the driver's own (DESIGN.md 2.1): Gaussian elimination with
partial pivoting (`np.linalg.solve`), Cholesky + complex Jacobi (`scipy.linalg.eigh(A, B)`), Jacobi
(`np.linalg.eigh`), principal complex square root (`np.sqrt`) — or are passed in from the real call
(ops ending in `u` / `v`). -/
open PbBss PbBss.Bf
namespace Driver

abbrev CMat := Array (Array CF)

def cfZero : CF := ⟨0, 0⟩
def cfAbs2 (z : CF) : Float := z.re * z.re + z.im * z.im
def cfConj (z : CF) : CF := ⟨z.re, -z.im⟩
def CMat.at (m : CMat) (i j : Nat) : CF := (m[i]!)[j]!
def CMat.put (m : CMat) (i j : Nat) (v : CF) : CMat := m.set! i ((m[i]!).set! j v)

/-- principal complex square root -/
def cfSqrt (z : CF) : CF :=
  let r := Float.sqrt (cfAbs2 z)
  let s := Float.sqrt ((r + z.re) / 2)
  let t := Float.sqrt ((r - z.re) / 2)
  ⟨s, if z.im < 0 then -t else t⟩

/-- complex token table: entry `i` is `re im` at `off + 2 i` -/
def cx (a : Array String) (off : Nat) (i : Nat) : CF := ⟨tokFloat a (off + 2 * i), tokFloat a (off + 2 * i + 1)⟩

def cvec (a : Array String) (off D : Nat) : Array CF := Array.ofFn (n := D) fun d => cx a off d.val
def cmat (a : Array String) (off D : Nat) : CMat :=
  Array.ofFn (n := D) fun i => Array.ofFn (n := D) fun j => cx a off (i.val * D + j.val)

def vecFn {D : Nat} (v : Array CF) : Fin D → CF := fun d => v[d.val]!
def matFn {D : Nat} (m : CMat) : Fin D → Fin D → CF := fun i j => m.at i.val j.val
def matOf {D : Nat} (f : Fin D → Fin D → CF) : CMat := Array.ofFn (n := D) fun i => Array.ofFn (n := D) fun j => f i j
def vecOf {D : Nat} (f : Fin D → CF) : Array CF := Array.ofFn (n := D) f

def fmtC (xs : List CF) : String := fmtFloats (xs.flatMap fun z => [z.re, z.im])
def fmtVec {D : Nat} (f : Fin D → CF) : String := fmtC ((List.finRange D).map f)
def fmtMat {D : Nat} (f : Fin D → Fin D → CF) : String :=
  fmtC ((List.finRange D).flatMap fun i => (List.finRange D).map fun j => f i j)

/-- `np.linalg.solve(A, B)`: Gaussian elimination with partial pivoting, `A` n×n, `B` n×m -/
def gaussSolve (n m : Nat) (A B : CMat) : CMat := Id.run do
  let mut a := A
  let mut b := B
  for k in [0:n] do
    let mut p := k
    let mut best := cfAbs2 (a.at k k)
    for i in [k+1:n] do
      let v := cfAbs2 (a.at i k)
      if v > best then
        p := i
        best := v
    if p != k then
      let rk := a[k]!
      let rp := a[p]!
      a := (a.set! k rp).set! p rk
      let bk := b[k]!
      let bp := b[p]!
      b := (b.set! k bp).set! p bk
    let akk := a.at k k
    for i in [k+1:n] do
      let f := a.at i k / akk
      for j in [k:n] do
        a := a.put i j (a.at i j - f * a.at k j)
      for j in [0:m] do
        b := b.put i j (b.at i j - f * b.at k j)
  let mut x : CMat := Array.replicate n (Array.replicate m cfZero)
  for kk in [0:n] do
    let k := n - 1 - kk
    for j in [0:m] do
      let mut s := b.at k j
      for l in [k+1:n] do
        s := s - a.at k l * x.at l j
      x := x.put k j (s / a.at k k)
  return x

def solveVec {D : Nat} (A : Fin D → Fin D → CF) (b : Fin D → CF) : Array CF :=
  let x := gaussSolve D 1 (matOf A) (Array.ofFn (n := D) fun i => #[b i])
  Array.ofFn (n := D) fun i => x.at i.val 0

/-- lower Cholesky factor `B = L Lᴴ` -/
def cholesky (n : Nat) (B : CMat) : CMat := Id.run do
  let mut l : CMat := Array.replicate n (Array.replicate n cfZero)
  for j in [0:n] do
    let mut s := (B.at j j).re
    for k in [0:j] do
      s := s - cfAbs2 (l.at j k)
    let d := Float.sqrt s
    l := l.put j j ⟨d, 0⟩
    for i in [j+1:n] do
      let mut t := B.at i j
      for k in [0:j] do
        t := t - l.at i k * cfConj (l.at j k)
      l := l.put i j ⟨t.re / d, t.im / d⟩
  return l

/-- `X = L⁻¹ M` (forward substitution, `L` lower triangular) -/
def lowerSolve (n : Nat) (L M : CMat) : CMat := Id.run do
  let mut x : CMat := Array.replicate n (Array.replicate n cfZero)
  for i in [0:n] do
    for j in [0:n] do
      let mut s := M.at i j
      for k in [0:i] do
        s := s - L.at i k * x.at k j
      x := x.put i j (s / L.at i i)
  return x

/-- `X = L⁻ᴴ M` (back substitution with the conjugate transpose of `L`) -/
def upperHSolve (n : Nat) (L M : CMat) : CMat := Id.run do
  let mut x : CMat := Array.replicate n (Array.replicate n cfZero)
  for ii in [0:n] do
    let i := n - 1 - ii
    for j in [0:n] do
      let mut s := M.at i j
      for k in [i+1:n] do
        s := s - cfConj (L.at k i) * x.at k j
      x := x.put i j (s / cfConj (L.at i i))
  return x

def ctrans (n : Nat) (M : CMat) : CMat :=
  Array.ofFn (n := n) fun i => Array.ofFn (n := n) fun j => cfConj (M.at j.val i.val)

def toNum (M : CMat) : Num.Mat := M.map fun r => r.map fun z => (⟨z.re, z.im⟩ : Num.C)
def ofNum (M : Num.Mat) : CMat := M.map fun r => r.map fun z => (⟨z.re, z.im⟩ : CF)

/-- `np.linalg.eigh`: eigenvalues ascending, eigenvectors as columns -/
def eighF (n : Nat) (A : CMat) : Array Float × CMat :=
  let (vals, vecs) := Num.eigh n (toNum A) 40
  (vals, ofNum vecs)

/-- `scipy.linalg.eigh(A, B)`: `B = L Lᴴ`, Jacobi on `L⁻¹ A L⁻ᴴ`, back-transform `V = L⁻ᴴ U` -/
def geighF (n : Nat) (A B : CMat) : Array Float × CMat :=
  let L := cholesky n B
  let c1 := lowerSolve n L A                        -- L⁻¹ A
  let c := lowerSolve n L (ctrans n c1)             -- L⁻¹ (L⁻¹ A)ᴴ = L⁻¹ A L⁻ᴴ (A Hermitian)
  let ch : CMat := Array.ofFn (n := n) fun i => Array.ofFn (n := n) fun j =>
    let x := c.at i.val j.val
    let y := cfConj (c.at j.val i.val)
    (⟨0.5 * (x.re + y.re), 0.5 * (x.im + y.im)⟩ : CF)
  let (vals, u) := eighF n ch
  (vals, upperHSolve n L u)

def scalingOf (k : Nat) : PcaScaling := if k == 1 then .trace else if k == 2 then .eigenvalue else .none

/-- per-bin `stable_solve(Φnn, Φxx)` tables for `(F, D, D)` inputs -/
def phiTabs (a : Array String) (offX offN F D : Nat) : Array CMat :=
  Array.ofFn (n := F) fun f => gaussSolve D D (cmat a (offN + 2 * D * D * f.val) D) (cmat a (offX + 2 * D * D * f.val) D)

def stackFn {F D : Nat} (t : Array CMat) : Fin F → Fin D → Fin D → CF := fun f i j => (t[f.val]!).at i.val j.val
def stackTok {F D : Nat} (a : Array String) (off : Nat) : Fin F → Fin D → Fin D → CF :=
  fun f i j => cx a off ((f.val * D + i.val) * D + j.val)

def opsBf (a : Array String) : Option String :=
  match a[0]! with
  | "mvdr" =>
    -- mvdr D <a> <Phi>        (own solver)
    let D := tokNat a 1
    let av := cvec a 2 D
    let Φ := cmat a (2 + 2 * D) D
    let w := getMvdrVector Float (fun A b => vecFn (D := D) (solveVec A b)) (vecFn (D := D) av) (matFn (D := D) Φ)
    some (fmtVec w)
  | "mvdrstack" =>
    -- mvdrstack K F D <atf: K·F·D> <noise: F·D·D>      (whole stack, indexing done by the model)
    let K := tokNat a 1
    let F := tokNat a 2
    let D := tokNat a 3
    let atf : Fin K → Fin F → Fin D → CF := fun k f d => cx a 4 ((k.val * F + f.val) * D + d.val)
    let noise : Fin F → Fin D → Fin D → CF := stackTok a (4 + 2 * K * F * D)
    let w := mvdrStack Float (fun A b => vecFn (D := D) (solveVec A b)) atf noise
    some (fmtC ((List.finRange K).flatMap fun k => (List.finRange F).flatMap fun f => (List.finRange D).map fun d => w k f d))
  | "mvdru" =>
    -- mvdru D <a> <u>         (u = the real solver's result)
    let D := tokNat a 1
    let av := cvec a 2 D
    let u := cvec a (2 + 2 * D) D
    some (fmtVec (mvdrFromSolve Float (vecFn (D := D) av) (vecFn (D := D) u)))
  | "hermsym" =>
    let D := tokNat a 1
    some (fmtMat (hermSym Float (matFn (D := D) (cmat a 2 D))))
  | "lcmv" =>
    -- lcmv K D <A: K·D> <r: K> <Phi>
    let K := tokNat a 1
    let D := tokNat a 2
    let A : Array (Array CF) := Array.ofFn (n := K) fun k => cvec a (3 + 2 * D * k.val) D
    let r := cvec a (3 + 2 * D * K) K
    let Φ := cmat a (3 + 2 * D * K + 2 * K) D
    let U : Array (Array CF) := A.map fun ak => solveVec (matFn (D := D) Φ) (vecFn (D := D) ak)
    let Af : Fin K → Fin D → CF := fun k d => (A[k.val]!)[d.val]!
    let Uf : Fin K → Fin D → CF := fun k d => (U[k.val]!)[d.val]!
    let G := matOf (lcmvGram Float Af Uf)
    let t := solveVec (matFn (D := K) G) (vecFn (D := K) r)
    some (fmtVec (lcmvCombine Uf (vecFn (D := K) t)))
  | "souden" =>
    -- souden D ref eps <Φxx> <Φnn>
    let D := tokNat a 1
    let ref := tokNat a 2
    let eps := tokFloat a 3
    if h : ref < D then
      let phi := gaussSolve D D (cmat a (4 + 2 * D * D) D) (cmat a 4 D)
      some (fmtVec (souden (matFn (D := D) phi) ⟨ref, h⟩ eps))
    else none
  | "wmwf" =>
    -- wmwf D ref mu <Φxx> <Φnn>
    let D := tokNat a 1
    let ref := tokNat a 2
    let mu := tokFloat a 3
    if h : ref < D then
      let phi := gaussSolve D D (cmat a (4 + 2 * D * D) D) (cmat a 4 D)
      some (fmtVec (wmwf mu (matFn (D := D) phi) ⟨ref, h⟩))
    else none
  | "refch" =>
    -- refch F D eps <wmat F·D·D> <Φxx> <Φnn>   → index | SNR values
    let F := tokNat a 1
    let D := tokNat a 2
    let eps := tokFloat a 3
    match D with
    | 0 => none
    | n+1 =>
      let sz := 2 * F * (n+1) * (n+1)
      let W : Fin F → Fin (n+1) → Fin (n+1) → CF := stackTok a 4
      let X : Fin F → Fin (n+1) → Fin (n+1) → CF := stackTok a (4 + sz)
      let N : Fin F → Fin (n+1) → Fin (n+1) → CF := stackTok a (4 + 2 * sz)
      let snr := Array.ofFn (n := n+1) (refSnr W X N eps)
      let snrF : Fin (n+1) → Float := fun r => snr[r.val]!
      some (toString (vargmax snrF).val ++ " " ++ fmtFloats snr.toList)
  | "soudenauto" =>
    -- soudenauto F D eps <Φxx> <Φnn>   → ref, then w (F·D)
    let F := tokNat a 1
    let D := tokNat a 2
    let eps := tokFloat a 3
    match D with
    | 0 => none
    | n+1 =>
      let sz := 2 * F * (n+1) * (n+1)
      let phi := phiTabs a 4 (4 + sz) F (n+1)
      let X : Fin F → Fin (n+1) → Fin (n+1) → CF := stackTok a 4
      let N : Fin F → Fin (n+1) → Fin (n+1) → CF := stackTok a (4 + sz)
      let ph : Fin F → Fin (n+1) → Fin (n+1) → CF := stackFn phi
      let (ref, w) := soudenAuto ph X N eps
      some (toString ref.val ++ " " ++ fmtC ((List.finRange F).flatMap fun f => (List.finRange (n+1)).map fun d => w f d))
  | "wmwfauto" =>
    -- wmwfauto F D mu tiny <Φxx> <Φnn>
    let F := tokNat a 1
    let D := tokNat a 2
    let mu := tokFloat a 3
    let tiny := tokFloat a 4
    match D with
    | 0 => none
    | n+1 =>
      let sz := 2 * F * (n+1) * (n+1)
      let phi := phiTabs a 5 (5 + sz) F (n+1)
      let X : Fin F → Fin (n+1) → Fin (n+1) → CF := stackTok a 5
      let N : Fin F → Fin (n+1) → Fin (n+1) → CF := stackTok a (5 + sz)
      let ph : Fin F → Fin (n+1) → Fin (n+1) → CF := stackFn phi
      let (ref, w) := wmwfAuto mu ph X N tiny
      some (toString ref.val ++ " " ++ fmtC ((List.finRange F).flatMap fun f => (List.finRange (n+1)).map fun d => w f d))
  | "gev" =>
    -- gev D <Φxx> <Φnn>   → top generalised eigenvalue (1 float) then the selected eigenvector
    let D := tokNat a 1
    match D with
    | 0 => none
    | n+1 =>
      let (vals, vecs) := geighF (n+1) (cmat a 2 (n+1)) (cmat a (2 + 2 * (n+1) * (n+1)) (n+1))
      let valsF : Fin (n+1) → Float := fun i => vals[i.val]!
      let w := gevSelect valsF (fun d i => vecs.at d.val i.val) (D := n+1)
      some (fmtFloats [valsF (vargmax valsF)] ++ " " ++ fmtVec w)
  | "pca" =>
    -- pca D scaling <Φ>   → top eigenvalue then the scaled vector (own eigen-solver)
    let D := tokNat a 1
    match D with
    | 0 => none
    | n+1 =>
      let Φ := cmat a 3 (n+1)
      let (vals, vecs) := eighF (n+1) Φ
      let (v, lam) := pcaSelect (fun i => vals[i.val]!) (fun d i => vecs.at d.val i.val) (n := n)
      let vt := vecOf v
      some (fmtFloats [lam] ++ " " ++
        fmtVec (pcaVector cfSqrt (scalingOf (tokNat a 2)) (matFn (D := n+1) Φ) (vecFn (D := n+1) vt) lam))
  | "pcav" =>
    -- pcav D scaling lam <Φ> <v>   (top eigenpair from the real eigh)
    let D := tokNat a 1
    let lam := tokFloat a 3
    let Φ := cmat a 4 D
    let v := cvec a (4 + 2 * D * D) D
    some (fmtVec (pcaVector cfSqrt (scalingOf (tokNat a 2)) (matFn (D := D) Φ) (vecFn (D := D) v) lam))
  | "rank1" =>
    -- rank1 D <Φ> <a>
    let D := tokNat a 1
    let Φ := cmat a 2 D
    let v := cvec a (2 + 2 * D * D) D
    some (fmtMat (rankOne Float (matFn (D := D) Φ) (vecFn (D := D) v)))
  | "gevsel" =>
    -- gevsel D <vals: D floats> <vecs: D·D complex>    selection step on the real solver's output
    let D := tokNat a 1
    match D with
    | 0 => none
    | n+1 =>
      let vals : Fin (n+1) → Float := fun i => tokFloat a (2 + i.val)
      let vecs := cmat a (2 + (n+1)) (n+1)
      some (fmtVec (gevSelect (n := n) (D := n+1) vals (fun d i => vecs.at d.val i.val)))
  | "pcasel" =>
    -- pcasel D <vals> <vecs>    → eigenvalue, eigenvector picked by get_pca
    let D := tokNat a 1
    match D with
    | 0 => none
    | n+1 =>
      let vals : Fin (n+1) → Float := fun i => tokFloat a (2 + i.val)
      let vecs := cmat a (2 + (n+1)) (n+1)
      let (v, lam) := pcaSelect (n := n) vals (fun d i => vecs.at d.val i.val)
      some (fmtFloats [lam] ++ " " ++ fmtVec v)
  | "rank1pca" =>
    -- rank1pca D <Φ>     get_pca_rank_one_estimate with the driver's own eigen-solver
    let D := tokNat a 1
    match D with
    | 0 => none
    | n+1 =>
      let Φ := cmat a 2 (n+1)
      let (vals, vecs) := eighF (n+1) Φ
      let (v, _) := pcaSelect (fun i => vals[i.val]!) (fun d i => vecs.at d.val i.val) (n := n)
      let vt := vecOf v
      some (fmtMat (rankOne Float (matFn (D := n+1) Φ) (vecFn (D := n+1) vt)))
  | "rank1gev" =>
    -- rank1gev D <Φxx> <Φnn>     get_gev_rank_one_estimate with the driver's own generalised eigen-solver
    let D := tokNat a 1
    match D with
    | 0 => none
    | n+1 =>
      let X := cmat a 2 (n+1)
      let N := cmat a (2 + 2 * (n+1) * (n+1)) (n+1)
      let (vals, vecs) := geighF (n+1) X N
      let w := vecOf (gevSelect (n := n) (D := n+1) (fun i => vals[i.val]!) (fun d i => vecs.at d.val i.val))
      let atf := vecOf (gevAtf (matFn (D := n+1) N) (vecFn (D := n+1) w))
      some (fmtMat (rankOne Float (matFn (D := n+1) X) (vecFn (D := n+1) atf)))
  | "gevatf" =>
    -- gevatf D <Φnn> <w>
    let D := tokNat a 1
    let Φ := cmat a 2 D
    let v := cvec a (2 + 2 * D * D) D
    some (fmtVec (gevAtf (matFn (D := D) Φ) (vecFn (D := D) v)))
  | "ban" =>
    -- ban D <w> <Φnn>   → gain (1 float) then the normalised vector
    let D := tokNat a 1
    let v := cvec a 2 D
    let Φ := cmat a (2 + 2 * D) D
    let g : Float := banFactor cfSqrt (vecFn (D := D) v) (matFn (D := D) Φ)
    some (fmtFloats [g] ++ " " ++ fmtVec (ban (α := Float) cfSqrt (vecFn (D := D) v) (matFn (D := D) Φ)))
  | _ => none

end Driver

import PbBss.Model.Dist
import Driver.Util
/-! line-protocol operations of the `Dist` models (property C07); every model runs at `α := Float`, `β := CF`.

```
gauss    D pi μ[D] P[D*D] ell y[D]          -> log_pdf  logDetFull(P)
gdiag    D pi μ[D] p[D] ell y[D]            -> log_pdf
gsph     D pi μ[D] p ell y[D]               -> log_pdf
gdiagcov D pi μ[D] c[D] y[D]                -> log_pdf  ell  p[D]         (with the scikit-learn helpers modelled)
gsphcov  D pi μ[D] c y[D]                   -> log_pdf  ell  p
cgauss   D pi logdet s[2D] y[2D]            -> log_pdf
vmf      D pi tiny μ[D] κ ive y[D]          -> log_pdf  log_norm
watson   D pi w[2D] κ h y[2D]               -> log_pdf  log_norm
bingham  D pi eps U[2D*D] λ[D] y[2D]        -> log_pdf  norm  λ'[D]       (λ' = sorted + spread eigenvalues)
cacg     D tiny U[2D*D] λ[D] y[2D]          -> log_pdf  quadratic_form
```
complex numbers travel as `re im`. -/
open PbBss PbBss.Dist
namespace Driver

def cfl (a : Array String) (off i : Nat) : CF := ⟨fl a off (2 * i), fl a off (2 * i + 1)⟩

def opsDist (a : Array String) : Option String :=
  let D := tokNat a 1
  match a[0]! with
  | "gauss" =>
    let pi := tokFloat a 2
    let μ : Fin D → Float := fun d => fl a 3 d.val
    let P : Fin D → Fin D → Float := fun i j => fl a (3 + D) (i.val * D + j.val)
    let ell := tokFloat a (3 + D + D * D)
    let y : Fin D → Float := fun d => fl a (4 + D + D * D) d.val
    some (fmtFloats [gaussLogPdf pi μ P ell y, logDetFull P])
  | "gdiag" =>
    let pi := tokFloat a 2
    let μ : Fin D → Float := fun d => fl a 3 d.val
    let p : Fin D → Float := fun d => fl a (3 + D) d.val
    let ell := tokFloat a (3 + 2 * D)
    let y : Fin D → Float := fun d => fl a (4 + 2 * D) d.val
    some (fmtFloats [diagLogPdf pi μ p ell y])
  | "gsph" =>
    let pi := tokFloat a 2
    let μ : Fin D → Float := fun d => fl a 3 d.val
    let p := tokFloat a (3 + D)
    let ell := tokFloat a (4 + D)
    let y : Fin D → Float := fun d => fl a (5 + D) d.val
    some (fmtFloats [sphLogPdf pi μ p ell y])
  | "gdiagcov" =>
    let pi := tokFloat a 2
    let μ : Fin D → Float := fun d => fl a 3 d.val
    let c : Fin D → Float := fun d => fl a (3 + D) d.val
    let y : Fin D → Float := fun d => fl a (3 + 2 * D) d.val
    some (fmtFloats ([diagOfCov pi μ c y, logDetDiag (precCholDiag c)] ++ (List.finRange D).map (precCholDiag c)))
  | "gsphcov" =>
    let pi := tokFloat a 2
    let μ : Fin D → Float := fun d => fl a 3 d.val
    let c := tokFloat a (3 + D)
    let y : Fin D → Float := fun d => fl a (4 + D) d.val
    let p := 1 / Float.sqrt c
    some (fmtFloats [sphOfCov pi μ c y, logDetSpherical D p, p])
  | "cgauss" =>
    let pi := tokFloat a 2
    let logdet := tokFloat a 3
    let s : Fin D → CF := fun d => cfl a 4 d.val
    let y : Fin D → CF := fun d => cfl a (4 + 2 * D) d.val
    some (fmtFloats [cgaussLogPdf pi logdet s y])
  | "vmf" =>
    let pi := tokFloat a 2
    let tiny := tokFloat a 3
    let μ : Fin D → Float := fun d => fl a 4 d.val
    let κ := tokFloat a (4 + D)
    let iv := tokFloat a (5 + D)
    let y : Fin D → Float := fun d => fl a (6 + D) d.val
    some (fmtFloats [vmfLogPdf pi tiny μ κ iv y, vmfLogNorm D pi κ iv])
  | "watson" =>
    let pi := tokFloat a 2
    let w : Fin D → CF := fun d => cfl a 3 d.val
    let κ := tokFloat a (3 + 2 * D)
    let h := tokFloat a (4 + 2 * D)
    let y : Fin D → CF := fun d => cfl a (5 + 2 * D) d.val
    some (fmtFloats [watsonLogPdf pi w κ h y, watsonLogNorm D pi h])
  | "bingham" =>
    let pi := tokFloat a 2
    let eps := tokFloat a 3
    let U : Fin D → Fin D → CF := fun i j => cfl a 4 (i.val * D + j.val)
    let lam : Fin D → Float := fun d => fl a (4 + 2 * D * D) d.val
    let y : Fin D → CF := fun d => cfl a (4 + 2 * D * D + D) d.val
    some (fmtFloats ([binghamLogPdf pi eps U lam y, binghamNorm pi eps lam] ++ (List.finRange D).map (removeDup eps lam)))
  | "cacg" =>
    let tiny := tokFloat a 2
    let U : Fin D → Fin D → CF := fun i j => cfl a 3 (i.val * D + j.val)
    let lam : Fin D → Float := fun d => fl a (3 + 2 * D * D) d.val
    let y : Fin D → CF := fun d => cfl a (3 + 2 * D * D + D) d.val
    some (fmtFloats [cacgLogPdf tiny U lam y, cacgQuad tiny U lam (cacgNormalize tiny y)])
  | _ => none

end Driver

import PbBss.Model.Tensor
/-! # Lemmas of the reversed-index tensor layer

Part 1: index lists (`padTake`, `setAt`, `insertAt`, `eraseAt`, `swapAt`, `bidx`, `bshape`) — every
equality is proved by `ext_getD` (same length, same `getD` everywhere) followed by case splits and `omega`.
Part 2: the generic family `fixLead (op t) c lead = op (fixLead t c lead)` for every primitive that is
addressed from the end of the shape and touches only the last `c` axes.
Part 3: rank formulas and the slice laws of the transcriptions (`push_fixLead`: `simp` with Part 2).
Part 4: `reshape(-1, *core)` / reshape back (`ravel` / `unravel`), per-matrix externals (`mapCore`), `__post_init__`.
Part 5: the reshape pair with some flattened axes kept in the core (class axis of a mixture).
Part 6: one EM iteration and the whole EM loop of the GMM trainer.
Part 7: shapes of the GMM iterates (turns the shape hypothesis of Part 6 into hypotheses on the inputs).

Purely structural: no property of the scalar type is used, so the statements hold verbatim for the
`Float` instance the driver executes. -/
set_option linter.unusedSimpArgs false
set_option linter.unusedVariables false
namespace PbBss.Tensor

/-! ## Part 1: index lists -/

theorem ext_getD {l1 l2 : List Nat} (hl : l1.length = l2.length)
    (h : ∀ i, i < l1.length → l1.getD i 0 = l2.getD i 0) : l1 = l2 := by
  apply List.ext_getElem hl
  intro i h1 h2
  have := h i h1
  simpa [List.getD_eq_getElem?_getD, List.getElem?_eq_getElem h1, List.getElem?_eq_getElem h2] using this

@[simp] theorem length_padTake (d n : Nat) (l : List Nat) : (padTake d n l).length = n := by
  simp [padTake]

theorem getD_padTake (d d' n : Nat) (l : List Nat) (i : Nat) :
    (padTake d n l).getD i d' = if i < n then l.getD i d else d' := by
  simp only [padTake, List.getD_eq_getElem?_getD, List.getElem?_map]
  by_cases h : i < n <;> simp [h]

theorem getD_append' (a b : List Nat) (i d : Nat) :
    (a ++ b).getD i d = if i < a.length then a.getD i d else b.getD (i - a.length) d := by
  simp only [List.getD_eq_getElem?_getD, List.getElem?_append]
  split <;> rfl

theorem getD_cons' (x : Nat) (l : List Nat) (i d : Nat) :
    (x :: l).getD i d = if i = 0 then x else l.getD (i - 1) d := by
  cases i <;> simp

theorem getD_drop' (l : List Nat) (n i d : Nat) : (l.drop n).getD i d = l.getD (n + i) d := by
  simp [List.getD_eq_getElem?_getD, List.getElem?_drop]

theorem getD_take' (l : List Nat) (n i d : Nat) :
    (l.take n).getD i d = if i < n then l.getD i d else d := by
  simp only [List.getD_eq_getElem?_getD, List.getElem?_take]
  split <;> simp

theorem getD_of_le (l : List Nat) (i d : Nat) (h : l.length ≤ i) : l.getD i d = d := by
  simp [List.getD_eq_getElem?_getD, List.getElem?_eq_none h]

@[simp] theorem length_bidx (s idx : List Nat) : (bidx s idx).length = s.length := by simp [bidx]

theorem getD_bidx (s idx : List Nat) (i d : Nat) :
    (bidx s idx).getD i d = if i < s.length then (if s.getD i 1 = 1 then 0 else idx.getD i 0) else d := by
  simp only [bidx, List.getD_eq_getElem?_getD, List.getElem?_map]
  by_cases h : i < s.length <;> simp [h]

@[simp] theorem length_bshape (a b : List Nat) : (bshape a b).length = max a.length b.length := by
  simp [bshape]

theorem getD_bshape (a b : List Nat) (i d : Nat) :
    (bshape a b).getD i d =
      if i < max a.length b.length then (if a.getD i 1 = 1 then b.getD i 1 else a.getD i 1) else d := by
  simp only [bshape, List.getD_eq_getElem?_getD, List.getElem?_map]
  by_cases h : i < max a.length b.length <;> simp [h]

@[simp] theorem length_swapAt (d : Nat) (l : List Nat) (i j : Nat) :
    (swapAt d l i j).length = max l.length (max i j + 1) := by simp [swapAt]

theorem getD_swapAt (d d' : Nat) (l : List Nat) (i j p : Nat) :
    (swapAt d l i j).getD p d' =
      if p < max l.length (max i j + 1) then
        (if p = i then l.getD j d else if p = j then l.getD i d else l.getD p d) else d' := by
  simp only [swapAt, List.getD_eq_getElem?_getD, List.getElem?_map]
  by_cases h : p < max l.length (max i j + 1) <;> simp [h]

@[simp] theorem length_setAt (d : Nat) (l : List Nat) (k x : Nat) :
    (setAt d l k x).length = k + 1 + (l.length - (k + 1)) := by
  simp [setAt]; omega

@[simp] theorem length_insertAt (d : Nat) (l : List Nat) (k x : Nat) :
    (insertAt d l k x).length = k + 1 + (l.length - k) := by
  simp [insertAt]; omega

@[simp] theorem length_eraseAt (d : Nat) (l : List Nat) (k : Nat) :
    (eraseAt d l k).length = k + (l.length - (k + 1)) := by
  simp [eraseAt]

theorem getD_both_le (l : List Nat) (i j d : Nat) (hi : l.length ≤ i) (hj : l.length ≤ j) :
    l.getD i d = l.getD j d := by rw [getD_of_le _ _ _ hi, getD_of_le _ _ _ hj]

theorem getD_default_irrel (l : List Nat) (i d d' : Nat) (hi : i < l.length) : l.getD i d = l.getD i d' := by
  simp [List.getD_eq_getElem?_getD, List.getElem?_eq_getElem hi]

/-- the closing step of every index-list equality: split all `if`s, finish with linear arithmetic -/
macro "idx_cases" : tactic =>
  `(tactic| (repeat' split) <;>
      (first | omega | rfl | contradiction | (congr 1; omega) | (apply getD_both_le <;> omega)
             | (apply getD_of_le; omega) | (symm; apply getD_of_le; omega) | (apply getD_default_irrel; omega)))

/-! ### `fixLead` index versus the index manipulations of the primitives -/

theorem getD_fix (c k : Nat) (hk : k < c) (core L : List Nat) :
    (padTake 0 c core ++ L).getD k 0 = core.getD k 0 := by
  simp only [getD_append', getD_padTake, length_padTake, hk, if_true]

theorem setAt_fix (c k j : Nat) (hk : k < c) (core L : List Nat) :
    setAt 0 (padTake 0 c core ++ L) k j = padTake 0 c (setAt 0 core k j) ++ L := by
  apply ext_getD
  · simp; omega
  · intro i hi
    simp only [length_setAt, length_insertAt, length_eraseAt, length_padTake, length_swapAt, length_bidx, length_bshape,
      List.length_append, List.length_take, List.length_drop] at hi
    simp only [setAt, getD_append', getD_cons', getD_drop', getD_padTake, length_padTake]
    idx_cases

theorem insertAt_fix (c k j : Nat) (hk : k ≤ c) (core L : List Nat) :
    insertAt 0 (padTake 0 c core ++ L) k j = padTake 0 (c + 1) (insertAt 0 core k j) ++ L := by
  apply ext_getD
  · simp; omega
  · intro i hi
    simp only [length_setAt, length_insertAt, length_eraseAt, length_padTake, length_swapAt, length_bidx, length_bshape,
      List.length_append, List.length_take, List.length_drop] at hi
    simp only [insertAt, getD_append', getD_cons', getD_drop', getD_padTake, length_padTake]
    idx_cases

theorem eraseAt_fix (c k : Nat) (hk : k ≤ c) (core L : List Nat) :
    eraseAt 0 (padTake 0 (c + 1) core ++ L) k = padTake 0 c (eraseAt 0 core k) ++ L := by
  apply ext_getD
  · simp; omega
  · intro i hi
    simp only [length_setAt, length_insertAt, length_eraseAt, length_padTake, length_swapAt, length_bidx, length_bshape,
      List.length_append, List.length_take, List.length_drop] at hi
    simp only [eraseAt, getD_append', getD_drop', getD_take', getD_padTake, length_padTake, List.length_take,
      List.length_append]
    idx_cases

theorem swapAt_fix (c i j : Nat) (hi : i < c) (hj : j < c) (core L : List Nat) :
    swapAt 0 (padTake 0 c core ++ L) i j = padTake 0 c (swapAt 0 core i j) ++ L := by
  apply ext_getD
  · simp; omega
  · intro p hi
    simp only [length_setAt, length_insertAt, length_eraseAt, length_padTake, length_swapAt, length_bidx, length_bshape,
      List.length_append, List.length_take, List.length_drop] at hi
    simp only [getD_swapAt, getD_append', getD_padTake, length_padTake, List.length_append]
    idx_cases

/-! ### shapes: what a primitive does to the last `c` sizes and to the leading sizes -/

theorem setAt_take (s : List Nat) (c k x : Nat) (hk : k < c) :
    (setAt 1 s k x).take c = setAt 1 (s.take c) k x := by
  apply ext_getD
  · simp; omega
  · intro i hi
    simp only [length_setAt, length_insertAt, length_eraseAt, length_padTake, length_swapAt, length_bidx, length_bshape,
      List.length_append, List.length_take, List.length_drop] at hi
    simp only [setAt, getD_take', getD_append', getD_cons', getD_drop', getD_padTake, length_padTake]
    idx_cases

theorem setAt_drop (s : List Nat) (c k x : Nat) (hk : k < c) : (setAt 1 s k x).drop c = s.drop c := by
  apply ext_getD
  · simp; omega
  · intro i hi
    simp only [length_setAt, length_insertAt, length_eraseAt, length_padTake, length_swapAt, length_bidx, length_bshape,
      List.length_append, List.length_take, List.length_drop] at hi
    simp only [setAt, getD_append', getD_cons', getD_drop', getD_padTake, length_padTake]
    idx_cases

theorem eraseAt_take (s : List Nat) (c k : Nat) (hk : k ≤ c) :
    (eraseAt 1 s k).take c = eraseAt 1 (s.take (c + 1)) k := by
  apply ext_getD
  · simp; omega
  · intro i hi
    simp only [length_setAt, length_insertAt, length_eraseAt, length_padTake, length_swapAt, length_bidx, length_bshape,
      List.length_append, List.length_take, List.length_drop] at hi
    simp only [eraseAt, getD_take', getD_append', getD_drop', getD_padTake, length_padTake, List.length_take]
    idx_cases

theorem eraseAt_drop (s : List Nat) (c k : Nat) (hk : k ≤ c) : (eraseAt 1 s k).drop c = s.drop (c + 1) := by
  apply ext_getD
  · simp; omega
  · intro i hi
    simp only [length_setAt, length_insertAt, length_eraseAt, length_padTake, length_swapAt, length_bidx, length_bshape,
      List.length_append, List.length_take, List.length_drop] at hi
    simp only [eraseAt, getD_take', getD_append', getD_drop', getD_padTake, length_padTake, List.length_take]
    idx_cases

theorem insertAt_take (s : List Nat) (c k x : Nat) (hk : k ≤ c) :
    (insertAt 1 s k x).take (c + 1) = insertAt 1 (s.take c) k x := by
  apply ext_getD
  · simp; omega
  · intro i hi
    simp only [length_setAt, length_insertAt, length_eraseAt, length_padTake, length_swapAt, length_bidx, length_bshape,
      List.length_append, List.length_take, List.length_drop] at hi
    simp only [insertAt, getD_take', getD_append', getD_cons', getD_drop', getD_padTake, length_padTake]
    idx_cases

theorem insertAt_drop (s : List Nat) (c k x : Nat) (hk : k ≤ c) :
    (insertAt 1 s k x).drop (c + 1) = s.drop c := by
  apply ext_getD
  · simp; omega
  · intro i hi
    simp only [length_setAt, length_insertAt, length_eraseAt, length_padTake, length_swapAt, length_bidx, length_bshape,
      List.length_append, List.length_take, List.length_drop] at hi
    simp only [insertAt, getD_append', getD_cons', getD_drop', getD_padTake, length_padTake]
    idx_cases

theorem swapAt_take (s : List Nat) (c i j : Nat) (hi : i < c) (hj : j < c) :
    (swapAt 1 s i j).take c = swapAt 1 (s.take c) i j := by
  apply ext_getD
  · simp; omega
  · intro p hi
    simp only [length_setAt, length_insertAt, length_eraseAt, length_padTake, length_swapAt, length_bidx, length_bshape,
      List.length_append, List.length_take, List.length_drop] at hi
    simp only [getD_swapAt, getD_take', List.length_take]
    idx_cases

theorem swapAt_drop (s : List Nat) (c i j : Nat) (hi : i < c) (hj : j < c) :
    (swapAt 1 s i j).drop c = s.drop c := by
  apply ext_getD
  · simp; omega
  · intro p hi
    simp only [length_setAt, length_insertAt, length_eraseAt, length_padTake, length_swapAt, length_bidx, length_bshape,
      List.length_append, List.length_take, List.length_drop] at hi
    simp only [getD_swapAt, getD_drop']
    idx_cases

theorem bshape_take (a b : List Nat) (c : Nat) : (bshape a b).take c = bshape (a.take c) (b.take c) := by
  apply ext_getD
  · simp; omega
  · intro i hi
    simp only [length_setAt, length_insertAt, length_eraseAt, length_padTake, length_swapAt, length_bidx, length_bshape,
      List.length_append, List.length_take, List.length_drop] at hi
    simp only [getD_bshape, getD_take', List.length_take]
    idx_cases

/-- reading operand `a` of a broadcast elementwise operation at a fixed leading index -/
theorem bidx_fix_left (A B : List Nat) (c : Nat) (hc : c ≤ A.length) (core lead : List Nat) :
    bidx A (padTake 0 c core ++ bidx ((bshape A B).drop c) lead) =
      padTake 0 c (bidx (A.take c) core) ++ bidx (A.drop c) lead := by
  apply ext_getD
  · simp; omega
  · intro i hi
    simp only [length_setAt, length_insertAt, length_eraseAt, length_padTake, length_swapAt, length_bidx, length_bshape,
      List.length_append, List.length_take, List.length_drop] at hi
    by_cases h : i < c
    · simp only [getD_bidx, getD_append', getD_padTake, length_padTake, getD_take', List.length_take, h]
      idx_cases
    · obtain ⟨m, rfl⟩ := Nat.exists_eq_add_of_le (Nat.le_of_not_lt h)
      simp only [getD_bidx, getD_append', getD_padTake, length_padTake, getD_drop', getD_bshape, getD_take',
        List.length_take, List.length_drop, length_bshape, Nat.add_sub_cancel_left]
      idx_cases

theorem bidx_fix_right (A B : List Nat) (c : Nat) (hc : c ≤ B.length) (core lead : List Nat) :
    bidx B (padTake 0 c core ++ bidx ((bshape A B).drop c) lead) =
      padTake 0 c (bidx (B.take c) core) ++ bidx (B.drop c) lead := by
  apply ext_getD
  · simp; omega
  · intro i hi
    simp only [length_setAt, length_insertAt, length_eraseAt, length_padTake, length_swapAt, length_bidx, length_bshape,
      List.length_append, List.length_take, List.length_drop] at hi
    by_cases h : i < c
    · simp only [getD_bidx, getD_append', getD_padTake, length_padTake, getD_take', List.length_take, h]
      idx_cases
    · obtain ⟨m, rfl⟩ := Nat.exists_eq_add_of_le (Nat.le_of_not_lt h)
      simp only [getD_bidx, getD_append', getD_padTake, length_padTake, getD_drop', getD_bshape, getD_take',
        List.length_take, List.length_drop, length_bshape, Nat.add_sub_cancel_left]
      idx_cases

theorem padTake_padTake_append (c : Nat) (core L : List Nat) :
    padTake 0 c (padTake 0 c core ++ L) = padTake 0 c core := by
  apply ext_getD
  · simp
  · intro i hi
    simp only [length_setAt, length_insertAt, length_eraseAt, length_padTake, length_swapAt, length_bidx, length_bshape,
      List.length_append, List.length_take, List.length_drop] at hi
    simp only [getD_padTake, getD_append', length_padTake]
    idx_cases

theorem drop_padTake_append (c : Nat) (core L : List Nat) : (padTake 0 c core ++ L).drop c = L := by
  simp [List.drop_append]

/-- clamping twice: a broadcast shape that is compatible with `dt` clamps no index that `dt` keeps -/
theorem bidx_bidx (dt ds lead : List Nat) (hlen : dt.length ≤ ds.length)
    (hcompat : ∀ i, i < dt.length → dt.getD i 1 ≠ 1 → ds.getD i 1 ≠ 1) :
    bidx dt (bidx ds lead) = bidx dt lead := by
  apply ext_getD
  · simp
  · intro i hi
    simp only [length_bidx] at hi
    have := hcompat i hi
    simp only [getD_bidx]
    idx_cases

/-! ## Part 2: the `fixLead` family -/

theorem T.ext' {α : Type} {a b : T α} (h1 : a.rshape = b.rshape) (h2 : ∀ idx, a.get idx = b.get idx) : a = b := by
  cases a; cases b
  simp only [T.mk.injEq]
  exact ⟨h1, funext h2⟩

variable {α β γ : Type}

@[simp] theorem rshape_fixLead (t : T α) (c : Nat) (lead : List Nat) :
    (fixLead t c lead).rshape = t.rshape.take c := rfl

theorem map_fixLead (f : α → β) (t : T α) (c : Nat) (lead : List Nat) :
    fixLead (map f t) c lead = map f (fixLead t c lead) := rfl

theorem const_fixLead (s : List Nat) (x : α) (c : Nat) (lead : List Nat) :
    fixLead (const s x) c lead = const (s.take c) x := rfl

/-- elementwise operations with NumPy broadcasting act slice by slice; an operand whose leading axes are
singletons (or missing beyond its own rank, as long as it has the `c` core axes) is read as if repeated -/
theorem zipWith_fixLead (f : α → β → γ) (a : T α) (b : T β) (c : Nat) (lead : List Nat)
    (ha : c ≤ a.rank) (hb : c ≤ b.rank) :
    fixLead (zipWith f a b) c lead = zipWith f (fixLead a c lead) (fixLead b c lead) := by
  apply T.ext'
  · simp [zipWith, fixLead, bshape_take]
  · intro core
    simp only [zipWith, fixLead]
    rw [bidx_fix_left _ _ _ ha, bidx_fix_right _ _ _ hb]

/-- a `keepdims=True` reduction over axis `-(k+1)`, `k < c`, acts slice by slice -/
theorem reduceKeep_fixLead (k : Nat) (r : Nat → (Nat → α) → β) (t : T α) (c : Nat) (lead : List Nat)
    (hk : k < c) : fixLead (reduceKeep k r t) c lead = reduceKeep k r (fixLead t c lead) := by
  apply T.ext'
  · simp [reduceKeep, fixLead, setAt_take _ _ _ _ hk]
  · intro core
    simp only [reduceKeep, fixLead, setAt_drop _ _ _ _ hk, getD_take', hk, if_true]
    congr 1
    funext j
    rw [setAt_fix _ _ _ hk]

/-- a `keepdims=False` reduction over axis `-(k+1)` lowers the core rank by one -/
theorem reduceDrop_fixLead (k : Nat) (r : Nat → (Nat → α) → β) (t : T α) (c : Nat) (lead : List Nat)
    (hk : k ≤ c) : fixLead (reduceDrop k r t) c lead = reduceDrop k r (fixLead t (c + 1) lead) := by
  apply T.ext'
  · simp [reduceDrop, fixLead, eraseAt_take _ _ _ hk]
  · intro core
    simp only [reduceDrop, fixLead, eraseAt_drop _ _ _ hk, getD_take', Nat.lt_succ_of_le hk, if_true]
    congr 1
    funext j
    rw [insertAt_fix _ _ _ hk]

/-- running reductions (`cumsum`, `cumprod`) along axis `-(k+1)`, `k < c` -/
theorem scanAxis_fixLead (k : Nat) (r : Nat → (Nat → α) → β) (t : T α) (c : Nat) (lead : List Nat)
    (hk : k < c) : fixLead (scanAxis k r t) c lead = scanAxis k r (fixLead t c lead) := by
  apply T.ext'
  · rfl
  · intro core
    simp only [scanAxis, fixLead, getD_fix _ _ hk]
    congr 1
    funext j
    rw [setAt_fix _ _ _ hk]

/-- `t[..., None, :, …]` (new axis at `-(k+1)`, `k ≤ c`) raises the core rank by one -/
theorem expandDims_fixLead (k : Nat) (t : T α) (c : Nat) (lead : List Nat) (hk : k ≤ c) :
    fixLead (expandDims k t) (c + 1) lead = expandDims k (fixLead t c lead) := by
  apply T.ext'
  · simp [expandDims, fixLead, insertAt_take _ _ _ _ hk]
  · intro core
    simp only [expandDims, fixLead, insertAt_drop _ _ _ _ hk]
    rw [eraseAt_fix _ _ hk]

theorem swapaxes_fixLead (i j : Nat) (t : T α) (c : Nat) (lead : List Nat) (hi : i < c) (hj : j < c) :
    fixLead (swapaxes i j t) c lead = swapaxes i j (fixLead t c lead) := by
  apply T.ext'
  · simp [swapaxes, fixLead, swapAt_take _ _ _ _ hi hj]
  · intro core
    simp only [swapaxes, fixLead, swapAt_drop _ _ _ _ hi hj]
    rw [swapAt_fix _ _ _ hi hj]

/-- `np.broadcast_to` of (singleton) leading axes: every slice of the broadcast tensor is the slice of the
original, i.e. the singleton axes behave as if repeated -/
theorem broadcastLead_fixLead (t : T α) (c : Nat) (s lead : List Nat) (hc : c ≤ t.rank)
    (hlen : (t.rshape.drop c).length ≤ s.length)
    (hcompat : ∀ i, i < (t.rshape.drop c).length → (t.rshape.drop c).getD i 1 ≠ 1 → s.getD i 1 ≠ 1) :
    fixLead (broadcastLead c s t) c lead = fixLead t c lead := by
  have hlen_take : (t.rshape.take c).length = c := by
    simp only [List.length_take]; exact Nat.min_eq_left hc
  apply T.ext'
  · simp [broadcastLead, fixLead, List.take_append_of_le_length, hlen_take]
  · intro core
    simp only [broadcastLead, fixLead]
    rw [padTake_padTake_append, drop_padTake_append]
    have : (t.rshape.take c ++ s).drop c = s := by
      rw [List.drop_append, hlen_take]; simp [List.drop_eq_nil_of_le, hlen_take]
    rw [this, bidx_bidx _ _ _ hlen hcompat]


/-! ## Part 3: ranks, and the transcriptions of pb_bss functions

Each transcription is a composition of primitives; its slice law follows by pushing `fixLead` through the
composition with the Part-2 lemmas (`simp`), the side conditions "the operand has the `c` core axes" being
discharged from the rank formulas below. -/

@[simp] theorem rank_map (f : α → β) (t : T α) : (map f t).rank = t.rank := rfl
@[simp] theorem rank_const (s : List Nat) (x : α) : (const s x).rank = s.length := rfl
@[simp] theorem rank_zipWith (f : α → β → γ) (a : T α) (b : T β) :
    (zipWith f a b).rank = max a.rank b.rank := by simp [T.rank, zipWith]
@[simp] theorem rank_reduceKeep (k : Nat) (r : Nat → (Nat → α) → β) (t : T α) :
    (reduceKeep k r t).rank = k + 1 + (t.rank - (k + 1)) := by simp [T.rank, reduceKeep]
@[simp] theorem rank_reduceDrop (k : Nat) (r : Nat → (Nat → α) → β) (t : T α) :
    (reduceDrop k r t).rank = k + (t.rank - (k + 1)) := by simp [T.rank, reduceDrop]
@[simp] theorem rank_scanAxis (k : Nat) (r : Nat → (Nat → α) → β) (t : T α) :
    (scanAxis k r t).rank = t.rank := rfl
@[simp] theorem rank_expandDims (k : Nat) (t : T α) : (expandDims k t).rank = k + 1 + (t.rank - k) := by
  simp [T.rank, expandDims]
@[simp] theorem rank_swapaxes (i j : Nat) (t : T α) :
    (swapaxes i j t).rank = max t.rank (max i j + 1) := by simp [T.rank, swapaxes]
@[simp] theorem rank_fixLead (t : T α) (c : Nat) (lead : List Nat) :
    (fixLead t c lead).rank = min c t.rank := by simp [T.rank, fixLead]

/-- `expandDims_fixLead` with the core rank of the RESULT as the free parameter (the form `simp` can use) -/
theorem expandDims_fixLead' (k : Nat) (t : T α) (c : Nat) (lead : List Nat) (hk : k < c) :
    fixLead (expandDims k t) c lead = expandDims k (fixLead t (c - 1) lead) := by
  obtain ⟨c', rfl⟩ : ∃ c', c = c' + 1 := ⟨c - 1, by omega⟩
  exact expandDims_fixLead k t c' lead (by omega)

/-- the sizes of the core axes are those of the stack -/
theorem getD_rshape_fixLead (t : T α) (c : Nat) (lead : List Nat) (i d : Nat) (hi : i < c) :
    (fixLead t c lead).rshape.getD i d = t.rshape.getD i d := by
  simp [fixLead, getD_take', hi]

theorem rshape_drop_fixLead (t : T α) (c k : Nat) (lead : List Nat) :
    (fixLead t c lead).rshape.drop k = (t.rshape.drop k).take (c - k) := by
  simp [fixLead, List.drop_take]

/-- side conditions of the slice laws: rank formulas + linear arithmetic -/
macro "rank_tac" : tactic =>
  `(tactic| ((try simp only [rank_map, rank_const, rank_zipWith, rank_reduceKeep, rank_reduceDrop, rank_scanAxis,
      rank_expandDims, rank_swapaxes, sumAxisKeep, sumAxis, meanAxisKeep, meanAxis, amaxAxisKeep, amaxAxis,
      cumprodFromEnd, cumsumFromEnd, normAxis, normAxisKeep, conjT, reT, List.length_nil, List.length_drop]); omega))

/-- push `fixLead` through a composition of primitives -/
macro "push_fixLead" "[" defs:Lean.Parser.Tactic.simpLemma,* "]" : tactic =>
  `(tactic| simp (disch := rank_tac) only [$defs,*, map_fixLead, const_fixLead, zipWith_fixLead, reduceKeep_fixLead,
      reduceDrop_fixLead, scanAxis_fixLead, expandDims_fixLead', swapaxes_fixLead, getD_rshape_fixLead,
      sumAxisKeep, sumAxis, meanAxisKeep, meanAxis, amaxAxisKeep, amaxAxis, cumprodFromEnd, cumsumFromEnd,
      normAxis, normAxisKeep, conjT, reT, rshape_drop_fixLead,
      Option.map, List.take_nil, List.take_zero, Nat.reduceSub, Nat.reduceAdd, Bool.false_eq_true, ↓reduceIte])

section transcriptions
variable [Add α] [Sub α] [Mul α] [Div α] [Neg α] [OfNat α 0] [OfNat α 1] [NatCast α] [Max α]
  [LT α] [DecidableLT α] [BEq α] [Transc α]

set_option linter.unusedSectionVars false

theorem logPdfToAffiliation_fixLead (tiny : α) (w lp : T α) (mask : Option (T α)) (clip : Option α)
    (lead : List Nat) (hw : 2 ≤ w.rank) (hlp : 2 ≤ lp.rank) (hm : ∀ m, mask = some m → 2 ≤ m.rank) :
    fixLead (logPdfToAffiliation tiny w lp mask clip) 2 lead =
      logPdfToAffiliation tiny (fixLead w 2 lead) (fixLead lp 2 lead) (mask.map (fixLead · 2 lead)) clip := by
  cases mask with
  | none => cases clip <;> push_fixLead [logPdfToAffiliation]
  | some m =>
    have := hm m rfl
    cases clip <;> push_fixLead [logPdfToAffiliation]

theorem estimateMixtureWeight_fixLead (eps : α) (aff : T α) (sal : Option (T α)) (lead : List Nat)
    (ha : 2 ≤ aff.rank) :
    fixLead (estimateMixtureWeight eps aff sal) 2 lead =
      estimateMixtureWeight eps (fixLead aff 2 lead) (sal.map (fixLead · 1 lead)) := by
  cases sal with
  | none => push_fixLead [estimateMixtureWeight]
  | some s => push_fixLead [estimateMixtureWeight]

theorem gaussianFit_mean_fixLead (tiny : α) (ct : CovType) (y : T α) (sal : Option (T α)) (lead : List Nat)
    (hy : 2 ≤ y.rank) (hs : ∀ s, sal = some s → 1 ≤ s.rank) :
    fixLead (gaussianFit tiny ct y sal).1 1 lead =
      (gaussianFit tiny ct (fixLead y 2 lead) (sal.map (fixLead · 1 lead))).1 := by
  cases sal with
  | none => cases ct <;> push_fixLead [gaussianFit]
  | some s =>
    have := hs s rfl
    cases ct <;> push_fixLead [gaussianFit]

theorem gaussianFit_cov_fixLead (tiny : α) (ct : CovType) (y : T α) (sal : Option (T α)) (lead : List Nat)
    (hy : 2 ≤ y.rank) (hs : ∀ s, sal = some s → 1 ≤ s.rank) :
    fixLead (gaussianFit tiny ct y sal).2 (covRank ct) lead =
      (gaussianFit tiny ct (fixLead y 2 lead) (sal.map (fixLead · 1 lead))).2 := by
  cases sal with
  | none => cases ct <;> push_fixLead [gaussianFit, covRank]
  | some s =>
    have := hs s rfl
    cases ct <;> push_fixLead [gaussianFit, covRank]

theorem gaussianLogPdf_fixLead (log2pi : α) (mean pc logDet y : T α) (lead : List Nat)
    (hm : 1 ≤ mean.rank) (hp : 2 ≤ pc.rank) (hy : 2 ≤ y.rank) :
    fixLead (gaussianLogPdf log2pi mean pc logDet y) 1 lead =
      gaussianLogPdf log2pi (fixLead mean 1 lead) (fixLead pc 2 lead) (fixLead logDet 0 lead) (fixLead y 2 lead) := by
  push_fixLead [gaussianLogPdf, gaussLogPdfTail]

theorem diagonalGaussianLogPdf_fixLead (log2pi : α) (mean pc logDet y : T α) (lead : List Nat)
    (hm : 1 ≤ mean.rank) (hp : 1 ≤ pc.rank) (hy : 2 ≤ y.rank) :
    fixLead (diagonalGaussianLogPdf log2pi mean pc logDet y) 1 lead =
      diagonalGaussianLogPdf log2pi (fixLead mean 1 lead) (fixLead pc 1 lead) (fixLead logDet 0 lead)
        (fixLead y 2 lead) := by
  push_fixLead [diagonalGaussianLogPdf, gaussLogPdfTail]

theorem sphericalGaussianLogPdf_fixLead (log2pi : α) (mean pc logDet y : T α) (lead : List Nat)
    (hm : 1 ≤ mean.rank) (hy : 2 ≤ y.rank) :
    fixLead (sphericalGaussianLogPdf log2pi mean pc logDet y) 1 lead =
      sphericalGaussianLogPdf log2pi (fixLead mean 1 lead) (fixLead pc 0 lead) (fixLead logDet 0 lead)
        (fixLead y 2 lead) := by
  push_fixLead [sphericalGaussianLogPdf, gaussLogPdfTail]

theorem vmfFit_fixLead (tiny minC maxC : α) (y : T α) (sal : Option (T α)) (lead : List Nat)
    (hy : 2 ≤ y.rank) (hs : ∀ s, sal = some s → 1 ≤ s.rank) :
    fixLead (vmfFit tiny minC maxC y sal).1 1 lead =
        (vmfFit tiny minC maxC (fixLead y 2 lead) (sal.map (fixLead · 1 lead))).1 ∧
    fixLead (vmfFit tiny minC maxC y sal).2 0 lead =
        (vmfFit tiny minC maxC (fixLead y 2 lead) (sal.map (fixLead · 1 lead))).2 := by
  have hy' : 2 ≤ y.rshape.length := hy
  cases sal with
  | none => constructor <;> push_fixLead [vmfFit]
  | some s =>
    have := hs s rfl
    constructor <;> push_fixLead [vmfFit]

theorem vmfLogPdf_fixLead (tiny : α) (mean conc logNorm y : T α) (lead : List Nat)
    (hm : 1 ≤ mean.rank) (hy : 2 ≤ y.rank) :
    fixLead (vmfLogPdf tiny mean conc logNorm y) 1 lead =
      vmfLogPdf tiny (fixLead mean 1 lead) (fixLead conc 0 lead) (fixLead logNorm 0 lead) (fixLead y 2 lead) := by
  push_fixLead [vmfLogPdf]

end transcriptions

section complex
variable {κ : Type} [Add α] [Sub α] [Mul α] [Div α] [Neg α] [OfNat α 0] [OfNat α 1] [NatCast α] [Max α]
  [LT α] [DecidableLT α] [BEq α] [Transc α]
  [Add κ] [Sub κ] [Mul κ] [Div κ] [OfNat κ 0] [OfNat κ 1] [CxOps α κ]

set_option linter.unusedSectionVars false

theorem scatter_fixLead (floorDen : Option α) (y : T κ) (sal : Option (T α)) (lead : List Nat)
    (hy : 2 ≤ y.rank) (hs : ∀ s, sal = some s → 1 ≤ s.rank) :
    fixLead (scatter floorDen y sal) 2 lead = scatter floorDen (fixLead y 2 lead) (sal.map (fixLead · 1 lead)) := by
  cases sal with
  | none => push_fixLead [scatter]
  | some s =>
    have := hs s rfl
    cases floorDen <;> push_fixLead [scatter]

theorem watsonLogPdf_fixLead (mode : T κ) (conc logNorm : T α) (y : T κ) (lead : List Nat)
    (hm : 1 ≤ mode.rank) (hy : 2 ≤ y.rank) :
    fixLead (watsonLogPdf mode conc logNorm y) 1 lead =
      watsonLogPdf (fixLead mode 1 lead) (fixLead conc 0 lead) (fixLead logNorm 0 lead) (fixLead y 2 lead) := by
  push_fixLead [watsonLogPdf]

theorem eigCovariance_fixLead (vecs : T κ) (vals : T α) (lead : List Nat) (hv : 2 ≤ vecs.rank) (hl : 1 ≤ vals.rank) :
    fixLead (eigCovariance vecs vals) 2 lead = eigCovariance (fixLead vecs 2 lead) (fixLead vals 1 lead) := by
  push_fixLead [eigCovariance]

theorem binghamLogPdf_fixLead (vecs : T κ) (vals logNorm : T α) (y : T κ) (lead : List Nat)
    (hv : 2 ≤ vecs.rank) (hl : 1 ≤ vals.rank) (hy : 2 ≤ y.rank) :
    fixLead (binghamLogPdf vecs vals logNorm y) 1 lead =
      binghamLogPdf (fixLead vecs 2 lead) (fixLead vals 1 lead) (fixLead logNorm 0 lead) (fixLead y 2 lead) := by
  push_fixLead [binghamLogPdf, eigCovariance]

theorem cacgNormalize_fixLead (tiny : α) (y : T κ) (lead : List Nat) (hy : 2 ≤ y.rank) :
    fixLead (cacgNormalize tiny y) 2 lead = cacgNormalize tiny (fixLead y 2 lead) := by
  push_fixLead [cacgNormalize]

theorem cacgStartQuadraticForm_fixLead (y : T κ) (lead : List Nat) :
    fixLead (cacgStartQuadraticForm (α := α) y) 1 lead = cacgStartQuadraticForm (fixLead y 2 lead) := by
  push_fixLead [cacgStartQuadraticForm]

theorem cacgFitCovariance_fixLead (tiny : α) (herm : Bool) (y : T κ) (sal : Option (T α)) (q : T α) (lead : List Nat)
    (hy : 2 ≤ y.rank) (hq : 1 ≤ q.rank) (hs : ∀ s, sal = some s → 1 ≤ s.rank) :
    fixLead (cacgFitCovariance tiny herm y sal q) 2 lead =
      cacgFitCovariance tiny herm (fixLead y 2 lead) (sal.map (fixLead · 1 lead)) (fixLead q 1 lead) := by
  cases sal with
  | none => cases herm <;> push_fixLead [cacgFitCovariance]
  | some s =>
    have := hs s rfl
    cases herm <;> push_fixLead [cacgFitCovariance]

theorem cacgEigenvalueNorm_fixLead (tiny floor : α) (vals : T α) (lead : List Nat) (hl : 1 ≤ vals.rank) :
    fixLead (cacgEigenvalueNorm tiny floor vals) 1 lead = cacgEigenvalueNorm tiny floor (fixLead vals 1 lead) := by
  push_fixLead [cacgEigenvalueNorm]

theorem cacgLogPdf_fixLead (tiny : α) (vecs : T κ) (vals : T α) (y : T κ) (lead : List Nat)
    (hv : 2 ≤ vecs.rank) (hl : 1 ≤ vals.rank) (hy : 2 ≤ y.rank) :
    fixLead (cacgLogPdf tiny vecs vals y).1 1 lead =
        (cacgLogPdf tiny (fixLead vecs 2 lead) (fixLead vals 1 lead) (fixLead y 2 lead)).1 ∧
    fixLead (cacgLogPdf tiny vecs vals y).2 1 lead =
        (cacgLogPdf tiny (fixLead vecs 2 lead) (fixLead vals 1 lead) (fixLead y 2 lead)).2 := by
  constructor <;> push_fixLead [cacgLogPdf]

end complex

/-! ## Part 4: the `reshape(-1, core)` / reshape-back pair -/

theorem foldl_mul_init (l : List Nat) (a : Nat) : l.foldl (· * ·) a = a * l.foldl (· * ·) 1 := by
  induction l generalizing a with
  | nil => simp
  | cons x xs ih => simp only [List.foldl_cons]; rw [ih (a * x), ih (1 * x)]; simp [Nat.mul_assoc]

theorem prodList_cons (d : Nat) (s : List Nat) : prodList (d :: s) = d * prodList s := by
  simp only [prodList, List.foldl_cons]; rw [foldl_mul_init]; simp

@[simp] theorem prodList_nil : prodList [] = 1 := rfl

/-- `idx` is a valid (reversed) multi-index of the (reversed) shape `dims` -/
inductive ValidIdx : List Nat → List Nat → Prop
  | nil : ValidIdx [] []
  | cons {i d : Nat} {is s : List Nat} : i < d → ValidIdx is s → ValidIdx (i :: is) (d :: s)

theorem unravel_ravel {idx dims : List Nat} (h : ValidIdx idx dims) : unravel dims (ravel dims idx) = idx := by
  induction h with
  | nil => rfl
  | @cons i d is s hid _ ih =>
    simp only [ravel, unravel, List.getD_cons_zero, List.drop_one, List.tail_cons, Nat.mod_eq_of_lt hid]
    have h1 : (i + d * ravel s is) % d = i := by
      rw [Nat.add_mul_mod_self_left]; exact Nat.mod_eq_of_lt hid
    have h2 : (i + d * ravel s is) / d = ravel s is := by
      rw [Nat.add_mul_div_left _ _ (by omega : 0 < d), Nat.div_eq_of_lt hid]; simp
    rw [h1, h2, ih]

theorem ravel_lt {idx dims : List Nat} (h : ValidIdx idx dims) : ravel dims idx < prodList dims := by
  induction h with
  | nil => simp [ravel]
  | @cons i d is s hid _ ih =>
    simp only [ravel, List.getD_cons_zero, List.drop_one, List.tail_cons, prodList_cons, Nat.mod_eq_of_lt hid]
    calc i + d * ravel s is < d + d * ravel s is := by omega
      _ = d * (ravel s is + 1) := by rw [Nat.mul_add, Nat.mul_one, Nat.add_comm]
      _ ≤ d * prodList s := Nat.mul_le_mul_left d ih

/-- pointwise description of validity -/
theorem validIdx_of_getD : ∀ (idx dims : List Nat), idx.length = dims.length →
    (∀ i, i < dims.length → idx.getD i 0 < dims.getD i 1) → ValidIdx idx dims
  | [], [], _, _ => ValidIdx.nil
  | [], _ :: _, h, _ => by simp at h
  | _ :: _, [], h, _ => by simp at h
  | i :: is, d :: s, hl, h => by
    refine ValidIdx.cons ?_ (validIdx_of_getD is s (by simpa using hl) ?_)
    · simpa using h 0 (by simp)
    · intro j hj
      simpa using h (j + 1) (by simpa using hj)

theorem validIdx_bidx {dims lead : List Nat} (h : ValidLead dims lead) : ValidIdx (bidx dims lead) dims := by
  apply validIdx_of_getD
  · simp
  · intro i hi
    simp only [getD_bidx, hi, if_true]
    split
    · omega
    · exact h i hi (by assumption)


theorem bidx_singleton (n o : Nat) (h : n = 1 → o = 0) : bidx [n] [o] = [o] := by
  simp only [bidx, List.length_cons, List.length_nil]
  by_cases hn : n = 1
  · simp [hn, h hn]
  · simp [hn]

theorem take_take_append (l m : List Nat) (c : Nat) (h : c ≤ l.length) : (l.take c ++ m).take c = l.take c := by
  rw [List.take_append_of_le_length (by simp [List.length_take]; omega)]
  simp [List.take_take]

theorem drop_take_append (l m : List Nat) (c : Nat) (h : c ≤ l.length) : (l.take c ++ m).drop c = m := by
  have : (l.take c).length = c := by simp [List.length_take]; omega
  rw [List.drop_append, this]; simp [List.drop_eq_nil_of_le, this]

theorem getD_padTake_append_self (c : Nat) (core L : List Nat) (d : Nat) :
    (padTake 0 c core ++ L).getD c d = L.getD 0 d := by
  simp only [getD_append', length_padTake, Nat.lt_irrefl, if_false, Nat.sub_self]

/-- a slice of the flattened stack is the slice of the stack at the unravelled index -/
theorem flattenLead_fixLead (t : T α) (c : Nat) (lead : List Nat) (hc : c ≤ t.rank)
    (hv : ValidLead (t.rshape.drop c) lead) :
    fixLead (flattenLead c t) c [ravel (t.rshape.drop c) (bidx (t.rshape.drop c) lead)] = fixLead t c lead := by
  have hvi := validIdx_bidx hv
  apply T.ext'
  · simp only [flattenLead, fixLead]; exact take_take_append _ _ _ hc
  · intro core
    simp only [flattenLead, fixLead]
    rw [drop_take_append _ _ _ hc, bidx_singleton _ _ (fun h => by have := ravel_lt hvi; omega),
      padTake_padTake_append, getD_padTake_append_self, List.getD_cons_zero, unravel_ravel hvi]

/-- a slice of the reshaped-back tensor is the slice of the flat one at the ravelled index -/
theorem unflattenLead_fixLead (v : T α) (c : Nat) (dims lead : List Nat) (hc : c ≤ v.rank)
    (hd : v.rshape.drop c = [prodList dims]) (hv : ValidLead dims lead) :
    fixLead (unflattenLead c dims v) c lead = fixLead v c [ravel dims (bidx dims lead)] := by
  have hvi := validIdx_bidx hv
  apply T.ext'
  · simp only [unflattenLead, fixLead]; exact take_take_append _ _ _ hc
  · intro core
    simp only [unflattenLead, fixLead]
    rw [drop_take_append _ _ _ hc, hd, bidx_singleton _ _ (fun h => by have := ravel_lt hvi; omega),
      padTake_padTake_append, drop_padTake_append]

/-- **The reshape pair.**  `np.reshape(op(np.reshape(t, (-1, *core))), (*lead, *core'))` — flatten all
leading axes, apply an operation that acts on the last axes only, reshape back — acts slice by slice. -/
theorem reshape_pair (op : T α → T β) (c c' : Nat) (t : T α) (lead : List Nat)
    (hop : ∀ u l, fixLead (op u) c' l = op (fixLead u c l))
    (hshape : (op (flattenLead c t)).rshape.drop c' = (flattenLead c t).rshape.drop c)
    (hc : c ≤ t.rank) (hc' : c' ≤ (op (flattenLead c t)).rank)
    (hv : ValidLead (t.rshape.drop c) lead) :
    fixLead (unflattenLead c' (t.rshape.drop c) (op (flattenLead c t))) c' lead = op (fixLead t c lead) := by
  rw [unflattenLead_fixLead _ _ _ _ hc' _ hv, hop, flattenLead_fixLead t c lead hc hv]
  rw [hshape]; simp only [flattenLead]; exact drop_take_append _ _ _ hc

theorem fixLead_fixLead_nil (t : T α) (c : Nat) (lead : List Nat) :
    fixLead (fixLead t c lead) c [] = fixLead t c lead := by
  apply T.ext'
  · simp [fixLead, List.take_take]
  · intro core
    simp only [fixLead]
    have : bidx ((t.rshape.take c).drop c) [] = [] := by
      apply ext_getD <;> simp [List.length_take]
    have h2 := padTake_padTake_append c core []
    rw [List.append_nil] at h2
    rw [this, List.append_nil, h2]


theorem fixLead_fixLead (t : T α) (c : Nat) (lead X : List Nat) :
    fixLead (fixLead t c lead) c X = fixLead t c lead := by
  apply T.ext'
  · simp [fixLead, List.take_take]
  · intro core
    simp only [fixLead]
    have : bidx ((t.rshape.take c).drop c) X = [] := by
      apply ext_getD <;> simp [List.length_take]
    have h2 := padTake_padTake_append c core []
    rw [List.append_nil] at h2
    rw [this, List.append_nil, h2]

theorem fixLead_bidx (t : T α) (c : Nat) (lead : List Nat) :
    fixLead t c (bidx (t.rshape.drop c) lead) = fixLead t c lead := by
  apply T.ext'
  · rfl
  · intro core
    simp only [fixLead]
    rw [bidx_bidx _ _ _ (Nat.le_refl _) (fun _ _ h => h)]

@[simp] theorem rank_flattenLead (c : Nat) (t : T α) : (flattenLead c t).rank = min c t.rank + 1 := by
  simp [T.rank, flattenLead]

theorem mapCore_fixLead (c c' : Nat) (oshape : List Nat) (g : T α → T β) (t : T α) (l : List Nat)
    (ho : oshape.length = c') :
    fixLead (mapCore c c' oshape g t) c' l = mapCore c c' oshape g (fixLead t c l) := by
  apply T.ext'
  · simp only [mapCore, fixLead]
    rw [List.take_append_of_le_length (by omega), List.take_of_length_le (by omega)]
    simp [List.drop_take]
  · intro core
    simp only [mapCore]
    show (g (fixLead t c ((padTake 0 c' core ++ bidx ((oshape ++ t.rshape.drop c).drop c') l).drop c'))).get
        (padTake 0 c' (padTake 0 c' core ++ bidx ((oshape ++ t.rshape.drop c).drop c') l)) = _
    rw [padTake_padTake_append, drop_padTake_append, fixLead_fixLead]
    have : (oshape ++ t.rshape.drop c).drop c' = t.rshape.drop c := by
      rw [List.drop_append, ← ho]; simp
    rw [this, fixLead_bidx]

theorem padTake_cons (n a : Nat) (l : List Nat) : padTake 0 (n + 1) (a :: l) = a :: padTake 0 n l := by
  apply ext_getD
  · simp
  · intro i hi
    simp only [getD_padTake, getD_cons']
    idx_cases

theorem diagLast2_fixLead (t : T α) (c : Nat) (l : List Nat) (hc : 1 ≤ c) :
    fixLead (diagLast2 t) c l = diagLast2 (fixLead t (c + 1) l) := by
  apply T.ext'
  · simp only [diagLast2, fixLead]
    apply ext_getD
    · simp [List.length_take, List.length_drop]; omega
    · intro i hi
      simp only [getD_take', getD_drop']
      idx_cases
  · intro core
    simp only [diagLast2, fixLead, List.drop_drop]
    rw [getD_fix _ _ (by omega), padTake_cons, Nat.add_comm 1 c]
    rfl


/-- a tensor reshaped back to NO leading axes is already a "slice": fixing (no) leading indices changes nothing -/
theorem fixLead_unflattenLead_nil (v : T α) (c : Nat) (X : List Nat) (hc : c ≤ v.rank) :
    fixLead (unflattenLead c [] v) c X = unflattenLead c [] v := by
  apply T.ext'
  · simp only [unflattenLead, fixLead]; rw [take_take_append _ _ _ hc, List.append_nil]
  · intro core
    simp only [unflattenLead, fixLead]
    rw [drop_take_append _ _ _ hc]
    have : bidx [] X = [] := rfl
    rw [this, List.append_nil]
    have h2 := padTake_padTake_append c core []
    rw [List.append_nil] at h2
    rw [h2]
    simp [ravel]

theorem drop_take_self (l : List Nat) (c : Nat) : (l.take c).drop c = [] := by
  simp [List.drop_take]

theorem validLead_nil (lead : List Nat) : ValidLead [] lead := by
  intro i hi; simp at hi

section postinit
variable [Add α] [Mul α] [Div α] [OfNat α 0] [OfNat α 1] [NatCast α] [Transc α]
set_option linter.unusedSectionVars false

theorem diagonalPostInit_fixLead (cov : T α) (lead : List Nat) (hc : 1 ≤ cov.rank)
    (hv : ValidLead (cov.rshape.drop 1) lead) :
    fixLead (diagonalPostInit cov).1 1 lead = (diagonalPostInitCore (fixLead cov 1 lead)).1 ∧
    fixLead (diagonalPostInit cov).2 0 lead = (diagonalPostInitCore (fixLead cov 1 lead)).2 := by
  constructor
  · exact reshape_pair (map _) 1 1 cov lead (fun u l => map_fixLead _ u 1 l) rfl hc
      (by simp only [rank_map, rank_flattenLead]; omega) hv
  · exact reshape_pair (fun u => sumAxis 0 (map Transc.log (map (fun x => (1 : α) / Transc.sqrt x) u))) 1 0 cov lead
      (fun u l => by simp only [sumAxis, reduceDrop_fixLead _ _ _ _ _ (Nat.le_refl 0), map_fixLead])
      (by simp only [sumAxis, reduceDrop, map]; exact eraseAt_drop _ 0 0 (Nat.le_refl 0)) hc (Nat.zero_le _) hv

theorem sphericalPostInit_fixLead (dim : Nat) (cov : T α) (lead : List Nat)
    (hv : ValidLead cov.rshape lead) :
    fixLead (sphericalPostInit dim cov).1 0 lead = (sphericalPostInitCore dim (fixLead cov 0 lead)).1 ∧
    fixLead (sphericalPostInit dim cov).2 0 lead = (sphericalPostInitCore dim (fixLead cov 0 lead)).2 := by
  constructor
  · exact reshape_pair (map _) 0 0 cov lead (fun u l => map_fixLead _ u 0 l) rfl (Nat.zero_le _) (Nat.zero_le _) hv
  · exact reshape_pair (fun u => map (fun x => (dim : α) * Transc.log x) (map (fun x => (1 : α) / Transc.sqrt x) u))
      0 0 cov lead (fun u l => rfl) rfl (Nat.zero_le _) (Nat.zero_le _) hv

theorem fullPostInit_fixLead (chol : T α → T α) (cov : T α) (lead : List Nat) (hc : 2 ≤ cov.rank)
    (hv : ValidLead (cov.rshape.drop 2) lead) :
    fixLead (fullPostInit chol cov).1 2 lead = (fullPostInitCore chol (fixLead cov 2 lead)).1 ∧
    fixLead (fullPostInit chol cov).2 0 lead = (fullPostInitCore chol (fixLead cov 2 lead)).2 := by
  have hdd : (cov.rshape.take 2).length = 2 := by simp only [List.length_take]; exact Nat.min_eq_left hc
  have htt : (fixLead cov 2 lead).rshape.take 2 = cov.rshape.take 2 := by simp [fixLead, List.take_take]
  constructor
  · simp only [fullPostInit, fullPostInitCore, htt]
    exact reshape_pair (mapCore 2 2 (cov.rshape.take 2) chol) 2 2 cov lead
      (fun u l => mapCore_fixLead 2 2 _ chol u l hdd)
      (by simp only [mapCore]; rw [List.drop_append, hdd]; simp)
      hc (by simp only [T.rank, mapCore, List.length_append]; omega) hv
  · simp only [fullPostInit, fullPostInitCore, htt]
    exact reshape_pair
      (fun u => sumAxis 0 (map Transc.log (diagLast2 (mapCore 2 2 (cov.rshape.take 2) chol u)))) 2 0 cov lead
      (fun u l => by
        simp only [sumAxis, reduceDrop_fixLead _ _ _ _ _ (Nat.le_refl 0), map_fixLead]
        rw [diagLast2_fixLead _ 1 _ (Nat.le_refl 1), mapCore_fixLead 2 2 _ chol u l hdd])
      (by
        simp only [sumAxis, reduceDrop, map, diagLast2, mapCore]
        rw [eraseAt_drop _ 0 0 (Nat.le_refl 0), List.drop_drop, List.drop_append, hdd]; simp)
      hc (Nat.zero_le _) hv

/-- corollary in the form "stacked result at `lead` = result of the slice alone" (both read at their core
indices): the stand-alone object runs the same reshapes with no leading axis -/
theorem diagonalPostInit_slices (cov : T α) (lead : List Nat) (hc : 1 ≤ cov.rank)
    (hv : ValidLead (cov.rshape.drop 1) lead) :
    fixLead (diagonalPostInit cov).1 1 lead = fixLead (diagonalPostInit (fixLead cov 1 lead)).1 1 [] ∧
    fixLead (diagonalPostInit cov).2 0 lead = fixLead (diagonalPostInit (fixLead cov 1 lead)).2 0 [] := by
  have h1 := diagonalPostInit_fixLead cov lead hc hv
  have h2 := diagonalPostInit_fixLead (fixLead cov 1 lead) [] (by simp only [rank_fixLead]; omega)
    (by simp only [fixLead, List.drop_take, Nat.sub_self, List.take_zero]; exact validLead_nil _)
  rw [fixLead_fixLead] at h2
  exact ⟨h1.1.trans h2.1.symm, h1.2.trans h2.2.symm⟩

/-- stacked `__post_init__` at a leading index = the stand-alone object's `__post_init__` of that slice -/
theorem diagonalPostInit_standalone (cov : T α) (lead : List Nat) (hc : 1 ≤ cov.rank)
    (hv : ValidLead (cov.rshape.drop 1) lead) :
    fixLead (diagonalPostInit cov).1 1 lead = (diagonalPostInit (fixLead cov 1 lead)).1 ∧
    fixLead (diagonalPostInit cov).2 0 lead = (diagonalPostInit (fixLead cov 1 lead)).2 := by
  have h := diagonalPostInit_slices cov lead hc hv
  have hr : (fixLead cov 1 lead).rshape.drop 1 = [] := drop_take_self _ _
  constructor
  · rw [h.1]; simp only [diagonalPostInit, hr]
    exact fixLead_unflattenLead_nil _ 1 [] (by simp only [rank_map, rank_flattenLead, rank_fixLead]; omega)
  · rw [h.2]; simp only [diagonalPostInit, hr]
    exact fixLead_unflattenLead_nil _ 0 [] (Nat.zero_le _)

theorem sphericalPostInit_standalone (dim : Nat) (cov : T α) (lead : List Nat) (hv : ValidLead cov.rshape lead) :
    fixLead (sphericalPostInit dim cov).1 0 lead = (sphericalPostInit dim (fixLead cov 0 lead)).1 ∧
    fixLead (sphericalPostInit dim cov).2 0 lead = (sphericalPostInit dim (fixLead cov 0 lead)).2 := by
  have h := sphericalPostInit_fixLead dim cov lead hv
  have h0 := sphericalPostInit_fixLead dim (fixLead cov 0 lead) []
    (by simp only [fixLead, List.take_zero]; exact validLead_nil _)
  rw [fixLead_fixLead] at h0
  have hr : (fixLead cov 0 lead).rshape = [] := by simp [fixLead]
  constructor
  · rw [h.1, ← h0.1]; simp only [sphericalPostInit, hr]
    exact fixLead_unflattenLead_nil _ 0 [] (Nat.zero_le _)
  · rw [h.2, ← h0.2]; simp only [sphericalPostInit, hr]
    exact fixLead_unflattenLead_nil _ 0 [] (Nat.zero_le _)

theorem fullPostInit_standalone (chol : T α → T α) (cov : T α) (lead : List Nat) (hc : 2 ≤ cov.rank)
    (hv : ValidLead (cov.rshape.drop 2) lead) :
    fixLead (fullPostInit chol cov).1 2 lead = (fullPostInit chol (fixLead cov 2 lead)).1 ∧
    fixLead (fullPostInit chol cov).2 0 lead = (fullPostInit chol (fixLead cov 2 lead)).2 := by
  have h := fullPostInit_fixLead chol cov lead hc hv
  have hr : (fixLead cov 2 lead).rshape.drop 2 = [] := drop_take_self _ _
  have h0 := fullPostInit_fixLead chol (fixLead cov 2 lead) []
    (by simp only [rank_fixLead]; omega) (by rw [hr]; exact validLead_nil _)
  rw [fixLead_fixLead] at h0
  constructor
  · rw [h.1, ← h0.1]; simp only [fullPostInit, hr]
    exact fixLead_unflattenLead_nil _ 2 []
      (by simp only [T.rank, mapCore, List.length_append, fixLead, List.length_take]
          have : 2 ≤ cov.rshape.length := hc
          omega)
  · rw [h.2, ← h0.2]; simp only [fullPostInit, hr]
    exact fixLead_unflattenLead_nil _ 0 [] (Nat.zero_le _)

end postinit
/-! ## Part 5: the reshape pair with part of the flattened axes kept in the core (class axis) -/

@[simp] theorem length_modnorm (dims idx : List Nat) : (modnorm dims idx).length = dims.length := by
  induction dims generalizing idx with
  | nil => rfl
  | cons d s ih => simp [modnorm, ih]

theorem unravel_ravel_mod (dims idx : List Nat) (hpos : ∀ d, d ∈ dims → 0 < d) :
    unravel dims (ravel dims idx) = modnorm dims idx := by
  induction dims generalizing idx with
  | nil => rfl
  | cons d s ih =>
    have hd : 0 < d := hpos d (by simp)
    simp only [ravel, unravel, modnorm]
    have h1 : (idx.getD 0 0 % d + d * ravel s (idx.drop 1)) % d = idx.getD 0 0 % d := by
      rw [Nat.add_mul_mod_self_left]; exact Nat.mod_mod _ _
    have h2 : (idx.getD 0 0 % d + d * ravel s (idx.drop 1)) / d = ravel s (idx.drop 1) := by
      rw [Nat.add_mul_div_left _ _ hd, Nat.div_eq_of_lt (Nat.mod_lt _ hd)]; simp
    rw [h1, h2, ih _ (fun x hx => hpos x (by simp [hx]))]

theorem ravel_eq_zero_of_prod_one (dims idx : List Nat) (h : prodList dims = 1) : ravel dims idx = 0 := by
  induction dims generalizing idx with
  | nil => rfl
  | cons d s ih =>
    rw [prodList_cons] at h
    have hd : d = 1 := Nat.eq_one_of_mul_eq_one_right h
    have hs : prodList s = 1 := Nat.eq_one_of_mul_eq_one_left h
    simp [ravel, hd, ih _ hs, Nat.mod_one]

theorem modnorm_of_valid {idx dims : List Nat} (h : ValidIdx idx dims) : modnorm dims idx = idx := by
  induction h with
  | nil => rfl
  | @cons i d is s hid _ ih =>
    simp only [modnorm, List.getD_cons_zero, List.drop_one, List.tail_cons, Nat.mod_eq_of_lt hid, ih]

/-- `ravel` and `modnorm` look at the first `dims.length` entries only (missing ones count as 0) -/
theorem ravel_padTake (dims idx : List Nat) : ravel dims (padTake 0 dims.length idx) = ravel dims idx := by
  induction dims generalizing idx with
  | nil => rfl
  | cons d s ih =>
    simp only [ravel, List.length_cons]
    have h0 : (padTake 0 (s.length + 1) idx).getD 0 0 = idx.getD 0 0 := by
      rw [getD_padTake]; simp
    have h1 : (padTake 0 (s.length + 1) idx).drop 1 = padTake 0 s.length (idx.drop 1) := by
      apply ext_getD
      · simp
      · intro i hi
        simp only [getD_drop', getD_padTake]
        simp only [List.length_drop, length_padTake] at hi
        idx_cases
    rw [h0, h1, ih]

theorem modnorm_padTake (dims idx : List Nat) : modnorm dims (padTake 0 dims.length idx) = modnorm dims idx := by
  induction dims generalizing idx with
  | nil => rfl
  | cons d s ih =>
    simp only [modnorm, List.length_cons]
    have h0 : (padTake 0 (s.length + 1) idx).getD 0 0 = idx.getD 0 0 := by
      rw [getD_padTake]; simp
    have h1 : (padTake 0 (s.length + 1) idx).drop 1 = padTake 0 s.length (idx.drop 1) := by
      apply ext_getD
      · simp
      · intro i hi
        simp only [getD_drop', getD_padTake]
        simp only [List.length_drop, length_padTake] at hi
        idx_cases
    rw [h0, h1, ih]

/-- splitting the axes into the first `E.length` (kept in the core) and the rest (leading) -/
theorem modnorm_append (dims E L : List Nat) (he : E.length ≤ dims.length) :
    modnorm dims (E ++ L) = modnorm (dims.take E.length) E ++ modnorm (dims.drop E.length) L := by
  induction E generalizing dims with
  | nil => simp [modnorm]
  | cons x xs ih =>
    cases dims with
    | nil => simp at he
    | cons d s =>
      simp only [List.length_cons, List.take_succ_cons, List.drop_succ_cons, modnorm, List.cons_append,
        List.getD_cons_zero, List.drop_one, List.tail_cons, List.drop_zero]
      rw [ih s (by simpa using he)]


theorem bidx_singleton_ravel (dims idx : List Nat) (hpos : ∀ d, d ∈ dims → 0 < d) :
    bidx [prodList dims] [ravel dims idx] = [ravel dims idx] :=
  bidx_singleton _ _ (fun h => ravel_eq_zero_of_prod_one dims idx h)

/-- reading a flattened stack at the offset of a (wrapped) index reads the stack at that index -/
theorem flattenLead_get (t : T α) (c : Nat) (x idx : List Nat) (hpos : ∀ d, d ∈ t.rshape.drop c → 0 < d) :
    (flattenLead c t).get (padTake 0 c x ++ [ravel (t.rshape.drop c) idx]) =
      t.get (padTake 0 c x ++ modnorm (t.rshape.drop c) idx) := by
  simp only [flattenLead]
  rw [padTake_padTake_append, getD_padTake_append_self, List.getD_cons_zero, unravel_ravel_mod _ _ hpos]

theorem padTake_split (c e : Nat) (core : List Nat) :
    padTake 0 (c + e) core = padTake 0 c core ++ padTake 0 e (core.drop c) := by
  apply ext_getD
  · simp
  · intro i hi
    simp only [getD_padTake, getD_append', length_padTake, getD_drop']
    idx_cases

theorem padTake_of_length (n : Nat) (l : List Nat) (h : l.length = n) : padTake 0 n l = l := by
  apply ext_getD
  · simp [h]
  · intro i hi
    simp only [length_padTake] at hi
    simp only [getD_padTake, hi, if_true]

theorem take_drop_comm (l : List Nat) (c e : Nat) : (l.take (c + e)).drop c = (l.drop c).take e := by
  rw [List.drop_take]; simp

/-- **The reshape pair with `e` flattened axes kept in the core** (e.g. the class axis of a mixture model):
`np.reshape(op(np.reshape(t, (-1, *core))), t.shape[:-c] + core')` at a leading index is the same computation
run on the slice alone (whose own reshape flattens only the `e` kept axes). -/
theorem reshape_pair_gen (op : T α → T β) (c c' e : Nat) (t : T α) (lead : List Nat)
    (hop : ∀ u l, fixLead (op u) c' l = op (fixLead u c l))
    (hshape : ∀ u, (op u).rshape.drop c' = u.rshape.drop c)
    (hrank : ∀ u, c ≤ u.rank → c' ≤ (op u).rank)
    (hc : c + e ≤ t.rank)
    (hpos : ∀ d, d ∈ t.rshape.drop c → 0 < d)
    (hv : ValidLead (t.rshape.drop (c + e)) lead) :
    fixLead (unflattenLead c' (t.rshape.drop c) (op (flattenLead c t))) (c' + e) lead =
      unflattenLead c' ((t.rshape.drop c).take e) (op (flattenLead c (fixLead t (c + e) lead))) := by
  have hct : c ≤ t.rank := by omega
  have hcl : c + e ≤ t.rshape.length := hc
  have hcs : c ≤ (fixLead t (c + e) lead).rank := by simp only [rank_fixLead]; omega
  have hV : c' ≤ (op (flattenLead c t)).rank := hrank _ (by simp only [rank_flattenLead]; omega)
  have hV' : c' ≤ (op (flattenLead c (fixLead t (c + e) lead))).rank :=
    hrank _ (by simp only [rank_flattenLead, rank_fixLead]; omega)
  have hSdims : (fixLead t (c + e) lead).rshape.drop c = (t.rshape.drop c).take e := take_drop_comm _ _ _
  have hdd : (t.rshape.drop c).drop e = t.rshape.drop (c + e) := by rw [List.drop_drop]
  have hlen_dims : e ≤ (t.rshape.drop c).length := by simp only [List.length_drop]; omega
  have hposS : ∀ d, d ∈ (fixLead t (c + e) lead).rshape.drop c → 0 < d := by
    intro d hd; rw [hSdims] at hd; exact hpos d (List.mem_of_mem_take hd)
  have hvalid := validIdx_bidx hv
  -- shapes of the flat results
  have hVd : (op (flattenLead c t)).rshape.drop c' = [prodList (t.rshape.drop c)] := by
    rw [hshape]; simp only [flattenLead]; exact drop_take_append _ _ _ hct
  have hV'd : (op (flattenLead c (fixLead t (c + e) lead))).rshape.drop c' = [prodList ((t.rshape.drop c).take e)] := by
    rw [hshape]; simp only [flattenLead]; rw [drop_take_append _ _ _ hcs, hSdims]
  -- the two flat inputs agree slice by slice
  have key : ∀ (E : List Nat), E.length = e →
      fixLead (flattenLead c t) c [ravel (t.rshape.drop c) (E ++ bidx (t.rshape.drop (c + e)) lead)] =
      fixLead (flattenLead c (fixLead t (c + e) lead)) c [ravel ((t.rshape.drop c).take e) E] := by
    intro E hE
    apply T.ext'
    · simp only [flattenLead, fixLead]
      rw [take_take_append _ _ _ hct, take_take_append _ _ _ (by simp only [List.length_take]; omega), List.take_take]
      congr 1; omega
    · intro x
      have e1 : (fixLead (flattenLead c t) c [ravel (t.rshape.drop c) (E ++ bidx (t.rshape.drop (c + e)) lead)]).get x =
          (flattenLead c t).get (padTake 0 c x ++ [ravel (t.rshape.drop c) (E ++ bidx (t.rshape.drop (c + e)) lead)]) := by
        simp only [fixLead]
        have : (flattenLead c t).rshape.drop c = [prodList (t.rshape.drop c)] := by
          simp only [flattenLead]; exact drop_take_append _ _ _ hct
        rw [this, bidx_singleton_ravel _ _ hpos]
      have e2 : (fixLead (flattenLead c (fixLead t (c + e) lead)) c [ravel ((t.rshape.drop c).take e) E]).get x =
          (flattenLead c (fixLead t (c + e) lead)).get (padTake 0 c x ++ [ravel ((t.rshape.drop c).take e) E]) := by
        simp only [fixLead]
        have : (flattenLead c ⟨t.rshape.take (c + e), fun core => t.get (padTake 0 (c + e) core ++ bidx (t.rshape.drop (c + e)) lead)⟩).rshape.drop c
            = [prodList ((t.rshape.drop c).take e)] := by
          simp only [flattenLead]
          rw [drop_take_append _ _ _ (by simp only [List.length_take]; omega), take_drop_comm]
        rw [this, bidx_singleton_ravel _ _ (fun d hd => hpos d (List.mem_of_mem_take hd))]
      rw [e1, e2, flattenLead_get _ _ _ _ hpos]
      have := flattenLead_get (fixLead t (c + e) lead) c x E hposS
      rw [hSdims] at this
      rw [this]
      simp only [fixLead]
      have hm : modnorm (t.rshape.drop c) (E ++ bidx (t.rshape.drop (c + e)) lead) =
          modnorm ((t.rshape.drop c).take e) E ++ bidx (t.rshape.drop (c + e)) lead := by
        rw [modnorm_append _ _ _ (by omega), hE, hdd, modnorm_of_valid hvalid]
      have hml : (modnorm ((t.rshape.drop c).take e) E).length = e := by
        simp only [length_modnorm, List.length_take]; omega
      rw [hm, padTake_split c e, padTake_padTake_append, drop_padTake_append,
        padTake_of_length e _ hml, List.append_assoc]
  have hVl : ((op (flattenLead c t)).rshape.take c').length = c' := by
    simp only [List.length_take]; exact Nat.min_eq_left hV
  -- `op` of the two flat inputs agree slice by slice
  have key2 : ∀ (E : List Nat), E.length = e →
      fixLead (op (flattenLead c t)) c' [ravel (t.rshape.drop c) (E ++ bidx (t.rshape.drop (c + e)) lead)] =
      fixLead (op (flattenLead c (fixLead t (c + e) lead))) c' [ravel ((t.rshape.drop c).take e) E] := by
    intro E hE; rw [hop, hop, key E hE]
  have hshapes : (op (flattenLead c t)).rshape.take c' = (op (flattenLead c (fixLead t (c + e) lead))).rshape.take c' := by
    have := congrArg T.rshape (key2 (List.replicate e 0) (by simp))
    simpa only [rshape_fixLead] using this
  apply T.ext'
  · simp only [unflattenLead, fixLead]
    rw [List.take_append, hVl, List.take_of_length_le (by omega), hshapes]
    congr 2; omega
  · intro core
    simp only [unflattenLead]
    show (op (flattenLead c t)).get
        (padTake 0 c' (padTake 0 (c' + e) core ++ bidx (((op (flattenLead c t)).rshape.take c' ++ t.rshape.drop c).drop (c' + e)) lead) ++
          [ravel (t.rshape.drop c) ((padTake 0 (c' + e) core ++
            bidx (((op (flattenLead c t)).rshape.take c' ++ t.rshape.drop c).drop (c' + e)) lead).drop c')]) = _
    have hdrop : ((op (flattenLead c t)).rshape.take c' ++ t.rshape.drop c).drop (c' + e) = t.rshape.drop (c + e) := by
      rw [List.drop_append, hVl]
      rw [List.drop_eq_nil_of_le (by omega)]
      simp only [List.nil_append, Nat.add_sub_cancel_left, List.drop_drop]
    rw [hdrop, padTake_split c' e, List.append_assoc, padTake_padTake_append, drop_padTake_append]
    -- both sides as slices of the flat results at one flat index
    have hE : (padTake 0 e (core.drop c')).length = e := length_padTake _ _ _
    have k : (fixLead (op (flattenLead c t)) c' [ravel (t.rshape.drop c) (padTake 0 e (core.drop c') ++ bidx (t.rshape.drop (c + e)) lead)]).get core = (fixLead (op (flattenLead c (fixLead t (c + e) lead))) c' [ravel ((t.rshape.drop c).take e) (padTake 0 e (core.drop c'))]).get core := by rw [key2 _ hE]
    have fg : ∀ {δ : Type} (u : T δ) (n : Nat) (l x : List Nat),
        (fixLead u n l).get x = u.get (padTake 0 n x ++ bidx (u.rshape.drop n) l) := fun _ _ _ _ => rfl
    rw [fg, fg, hVd, hV'd, bidx_singleton_ravel _ _ hpos,
      bidx_singleton_ravel _ _ (fun d hd => hpos d (List.mem_of_mem_take hd))] at k
    rw [k]
    congr 2
    have : ((t.rshape.drop c).take e).length = e := by simp only [List.length_take]; omega
    have h := ravel_padTake ((t.rshape.drop c).take e) (core.drop c')
    rw [this] at h
    rw [h]

/-! ## Part 6: the Gaussian mixture model — one EM iteration and the whole loop -/

theorem validLeadB_sound {dims lead : List Nat} (h : validLeadB dims lead = true) : ValidLead dims lead := by
  intro i hi hne
  simp only [validLeadB, List.all_eq_true, List.mem_range] at h
  have := h i hi
  simp only [Bool.or_eq_true, beq_iff_eq, decide_eq_true_eq] at this
  rcases this with h1 | h2
  · exact absurd h1 hne
  · exact h2

theorem goodLeadB_sound {r : Nat} {cov : T α} {lead : List Nat} (h : goodLeadB r cov lead = true) :
    GoodLead r cov lead := by
  simp only [goodLeadB, Bool.and_eq_true, decide_eq_true_eq, List.all_eq_true] at h
  exact ⟨h.1.1, fun d hd => h.1.2 d hd, validLeadB_sound h.2⟩

section gmm
variable [Add α] [Sub α] [Mul α] [Div α] [Neg α] [OfNat α 0] [OfNat α 1] [NatCast α] [Max α]
  [LT α] [DecidableLT α] [BEq α] [Transc α]
set_option linter.unusedSectionVars false

theorem diagonalPostInit_class (cov : T α) (lead : List Nat) (hg : GoodLead 1 cov lead) :
    fixLead (diagonalPostInit cov).1 2 lead = (diagonalPostInit (fixLead cov 2 lead)).1 ∧
    fixLead (diagonalPostInit cov).2 1 lead = (diagonalPostInit (fixLead cov 2 lead)).2 := by
  obtain ⟨hr, hpos, hv⟩ := hg
  have hd : (fixLead cov 2 lead).rshape.drop 1 = (cov.rshape.drop 1).take 1 := take_drop_comm _ 1 1
  constructor
  · simp only [diagonalPostInit, hd]
    exact reshape_pair_gen (map _) 1 1 1 cov lead (fun u l => map_fixLead _ u 1 l) (fun u => rfl)
      (fun u h => h) hr hpos hv
  · simp only [diagonalPostInit, hd]
    exact reshape_pair_gen (fun u => sumAxis 0 (map Transc.log (map (fun x => (1 : α) / Transc.sqrt x) u))) 1 0 1 cov lead
      (fun u l => by simp only [sumAxis, reduceDrop_fixLead _ _ _ _ _ (Nat.le_refl 0), map_fixLead])
      (fun u => by simp only [sumAxis, reduceDrop, map]; exact eraseAt_drop _ 0 0 (Nat.le_refl 0))
      (fun u h => Nat.zero_le _) hr hpos hv

theorem sphericalPostInit_class (dim : Nat) (cov : T α) (lead : List Nat) (hg : GoodLead 0 cov lead) :
    fixLead (sphericalPostInit dim cov).1 1 lead = (sphericalPostInit dim (fixLead cov 1 lead)).1 ∧
    fixLead (sphericalPostInit dim cov).2 1 lead = (sphericalPostInit dim (fixLead cov 1 lead)).2 := by
  obtain ⟨hr, hpos, hv⟩ := hg
  have hd : (fixLead cov 1 lead).rshape = (cov.rshape.drop 0).take 1 := by simp [fixLead]
  constructor
  · simp only [sphericalPostInit, hd]
    exact reshape_pair_gen (map _) 0 0 1 cov lead (fun u l => map_fixLead _ u 0 l) (fun u => rfl)
      (fun u h => h) hr hpos hv
  · simp only [sphericalPostInit, hd]
    exact reshape_pair_gen (fun u => map (fun x => (dim : α) * Transc.log x) (map (fun x => (1 : α) / Transc.sqrt x) u))
      0 0 1 cov lead (fun u l => rfl) (fun u => rfl) (fun u h => h) hr hpos hv

theorem fullPostInit_class (chol : T α → T α) (cov : T α) (lead : List Nat) (hg : GoodLead 2 cov lead) :
    fixLead (fullPostInit chol cov).1 3 lead = (fullPostInit chol (fixLead cov 3 lead)).1 ∧
    fixLead (fullPostInit chol cov).2 1 lead = (fullPostInit chol (fixLead cov 3 lead)).2 := by
  obtain ⟨hr, hpos, hv⟩ := hg
  have hr' : 3 ≤ cov.rshape.length := hr
  have hd : (fixLead cov 3 lead).rshape.drop 2 = (cov.rshape.drop 2).take 1 := take_drop_comm _ 2 1
  have htt : (fixLead cov 3 lead).rshape.take 2 = cov.rshape.take 2 := by
    simp only [fixLead, List.take_take]; rfl
  have hdd : (cov.rshape.take 2).length = 2 := by simp only [List.length_take]; omega
  constructor
  · simp only [fullPostInit, hd, htt]
    exact reshape_pair_gen (mapCore 2 2 (cov.rshape.take 2) chol) 2 2 1 cov lead
      (fun u l => mapCore_fixLead 2 2 _ chol u l hdd)
      (fun u => by simp only [mapCore]; rw [List.drop_append, hdd]; simp)
      (fun u h => by simp only [T.rank, mapCore, List.length_append]; omega) hr hpos hv
  · simp only [fullPostInit, hd, htt]
    exact reshape_pair_gen
      (fun u => sumAxis 0 (map Transc.log (diagLast2 (mapCore 2 2 (cov.rshape.take 2) chol u)))) 2 0 1 cov lead
      (fun u l => by
        simp only [sumAxis, reduceDrop_fixLead _ _ _ _ _ (Nat.le_refl 0), map_fixLead]
        rw [diagLast2_fixLead _ 1 _ (Nat.le_refl 1), mapCore_fixLead 2 2 _ chol u l hdd])
      (fun u => by
        simp only [sumAxis, reduceDrop, map, diagLast2, mapCore]
        rw [eraseAt_drop _ 0 0 (Nat.le_refl 0), List.drop_drop, List.drop_append, hdd]; simp)
      (fun u h => Nat.zero_le _) hr hpos hv

theorem gaussPostInit_class (ct : CovType) (chol : T α → T α) (dim : Nat) (cov : T α) (lead : List Nat)
    (hg : GoodLead (covRank ct) cov lead) :
    fixLead (gaussPostInit ct chol dim cov).1 (covRank ct + 1) lead =
        (gaussPostInit ct chol dim (fixLead cov (covRank ct + 1) lead)).1 ∧
    fixLead (gaussPostInit ct chol dim cov).2 1 lead =
        (gaussPostInit ct chol dim (fixLead cov (covRank ct + 1) lead)).2 := by
  cases ct
  · exact fullPostInit_class chol cov lead hg
  · exact diagonalPostInit_class cov lead hg
  · exact sphericalPostInit_class dim cov lead hg


/-- `GaussianTrainer._fit` as the mixture calls it: observations with a singleton class axis
`(..., 1, N, D)` (core rank 3), saliency `(..., K, N)` (core rank 2) -/
theorem gaussianFit_class (tiny : α) (ct : CovType) (y s : T α) (lead : List Nat)
    (hy : 3 ≤ y.rank) (hs : 2 ≤ s.rank) :
    fixLead (gaussianFit tiny ct y (some s)).1 2 lead =
        (gaussianFit tiny ct (fixLead y 3 lead) (some (fixLead s 2 lead))).1 ∧
    fixLead (gaussianFit tiny ct y (some s)).2 (covRank ct + 1) lead =
        (gaussianFit tiny ct (fixLead y 3 lead) (some (fixLead s 2 lead))).2 := by
  constructor <;> cases ct <;> push_fixLead [gaussianFit, covRank]

/-- the three `log_pdf` as the mixture calls them: parameters with a class axis, observations `(..., 1, N, D)` -/
theorem gaussLogPdfOf_class (ct : CovType) (log2pi : α) (mean pc logDet y : T α) (lead : List Nat)
    (hm : 2 ≤ mean.rank) (hp : covRank ct + 1 ≤ pc.rank) (hl : 1 ≤ logDet.rank) (hy : 3 ≤ y.rank) :
    fixLead (gaussLogPdfOf ct log2pi mean pc logDet y) 2 lead =
      gaussLogPdfOf ct log2pi (fixLead mean 2 lead) (fixLead pc (covRank ct + 1) lead) (fixLead logDet 1 lead)
        (fixLead y 3 lead) := by
  cases ct <;> simp only [covRank] at hp <;>
    push_fixLead [gaussLogPdfOf, gaussianLogPdf, diagonalGaussianLogPdf, sphericalGaussianLogPdf, gaussLogPdfTail, covRank]

/-- the slice of a stacked mixture state -/
def Gmm.fix (ct : CovType) (m : Gmm α) (lead : List Nat) : Gmm α :=
  ⟨fixLead m.weight 2 lead, fixLead m.mean 2 lead, fixLead m.cov (covRank ct + 1) lead,
   fixLead m.pc (covRank ct + 1) lead, fixLead m.logDet 1 lead⟩

theorem gmmMStep_fixLead (tiny eps : α) (ct : CovType) (chol : T α → T α) (y aff sal : T α) (lead : List Nat)
    (hy : 2 ≤ y.rank) (ha : 2 ≤ aff.rank) (hs : 1 ≤ sal.rank)
    (hg : GoodLead (covRank ct) (gmmMStep tiny eps ct chol y aff sal).cov lead) :
    (gmmMStep tiny eps ct chol y aff sal).fix ct lead =
      gmmMStep tiny eps ct chol (fixLead y 2 lead) (fixLead aff 2 lead) (fixLead sal 1 lead) := by
  have hy3 : 3 ≤ (expandDims 2 y).rank := by rank_tac
  have hs2 : 2 ≤ (zipWith (fun a b : α => a * b) aff (expandDims 1 sal)).rank := by rank_tac
  have hfit := gaussianFit_class tiny ct (expandDims 2 y) (zipWith (· * ·) aff (expandDims 1 sal)) lead hy3 hs2
  have hpi := gaussPostInit_class ct chol (y.rshape.getD 0 1) _ lead hg
  have hy' : fixLead (expandDims 2 y) 3 lead = expandDims 2 (fixLead y 2 lead) := by push_fixLead [Option.map]
  have hs' : fixLead (zipWith (fun a b : α => a * b) aff (expandDims 1 sal)) 2 lead =
      zipWith (· * ·) (fixLead aff 2 lead) (expandDims 1 (fixLead sal 1 lead)) := by push_fixLead [Option.map]
  have hw := estimateMixtureWeight_fixLead eps aff (some sal) lead ha
  simp only [Gmm.fix, gmmMStep, Gmm.mk.injEq]
  rw [hy', hs'] at hfit
  simp only [gmmMStep] at hpi
  refine ⟨hw, hfit.1, hfit.2, ?_, ?_⟩
  · rw [hpi.1, hfit.2, getD_rshape_fixLead _ _ _ _ _ (by omega)]
  · rw [hpi.2, hfit.2, getD_rshape_fixLead _ _ _ _ _ (by omega)]

theorem gmmPredict_fixLead (tiny log2pi : α) (ct : CovType) (m : Gmm α) (y : T α) (lead : List Nat)
    (hw : 2 ≤ m.weight.rank) (hm : 2 ≤ m.mean.rank) (hp : covRank ct + 1 ≤ m.pc.rank) (hl : 1 ≤ m.logDet.rank)
    (hy : 2 ≤ y.rank) :
    fixLead (gmmPredict tiny log2pi ct m y) 2 lead = gmmPredict tiny log2pi ct (m.fix ct lead) (fixLead y 2 lead) := by
  have hy3 : 3 ≤ (expandDims 2 y).rank := by rank_tac
  have hlp := gaussLogPdfOf_class ct log2pi m.mean m.pc m.logDet (expandDims 2 y) lead hm hp hl hy3
  have hy' : fixLead (expandDims 2 y) 3 lead = expandDims 2 (fixLead y 2 lead) := by push_fixLead [Option.map]
  have hr : 2 ≤ (gaussLogPdfOf ct log2pi m.mean m.pc m.logDet (expandDims 2 y)).rank := by
    cases ct <;> simp only [gaussLogPdfOf, gaussianLogPdf, diagonalGaussianLogPdf, sphericalGaussianLogPdf,
      gaussLogPdfTail] <;> rank_tac
  simp only [gmmPredict, Gmm.fix]
  rw [logPdfToAffiliation_fixLead tiny _ _ none none lead hw hr (by intro m h; cases h), hlp, hy']
  rfl


@[simp] theorem rank_unflattenLead (c : Nat) (lead : List Nat) (t : T α) :
    (unflattenLead c lead t).rank = min c t.rank + lead.length := by
  simp [T.rank, unflattenLead]

@[simp] theorem rank_mapCore (c c' : Nat) (oshape : List Nat) (g : T α → T β) (t : T α) :
    (mapCore c c' oshape g t).rank = oshape.length + (t.rank - c) := by
  simp [T.rank, mapCore]

theorem gmmMStep_ranks (tiny eps : α) (ct : CovType) (chol : T α → T α) (y aff sal : T α) (lead : List Nat)
    (hy : 2 ≤ y.rank) (ha : 2 ≤ aff.rank) (hs : 1 ≤ sal.rank)
    (hg : GoodLead (covRank ct) (gmmMStep tiny eps ct chol y aff sal).cov lead) :
    2 ≤ (gmmMStep tiny eps ct chol y aff sal).weight.rank ∧ 2 ≤ (gmmMStep tiny eps ct chol y aff sal).mean.rank ∧
    covRank ct + 1 ≤ (gmmMStep tiny eps ct chol y aff sal).pc.rank ∧
    1 ≤ (gmmMStep tiny eps ct chol y aff sal).logDet.rank := by
  obtain ⟨hr, -, -⟩ := hg
  refine ⟨?_, ?_, ?_, ?_⟩
  · simp only [gmmMStep, estimateMixtureWeight]; rank_tac
  · cases ct <;> (simp only [gmmMStep, gaussianFit]; rank_tac)
  · simp only [gmmMStep] at hr ⊢
    generalize (gaussianFit tiny ct (expandDims 2 y) (some (zipWith (fun a b : α => a * b) aff (expandDims 1 sal)))).2 = cov at hr ⊢
    cases ct <;> simp only [covRank] at hr ⊢ <;>
      simp only [gaussPostInit, fullPostInit, diagonalPostInit, sphericalPostInit, rank_unflattenLead, rank_map,
        rank_mapCore, rank_flattenLead, List.length_drop, List.length_take] <;>
      simp only [T.rank] at hr ⊢ <;> omega
  · simp only [gmmMStep] at hr ⊢
    generalize (gaussianFit tiny ct (expandDims 2 y) (some (zipWith (fun a b : α => a * b) aff (expandDims 1 sal)))).2 = cov at hr ⊢
    cases ct <;> simp only [covRank] at hr ⊢ <;>
      simp only [gaussPostInit, fullPostInit, diagonalPostInit, sphericalPostInit, rank_unflattenLead,
        List.length_drop] <;>
      simp only [T.rank] at hr ⊢ <;> omega

theorem gmmPredict_rank (tiny log2pi : α) (ct : CovType) (m : Gmm α) (y : T α) :
    2 ≤ (gmmPredict tiny log2pi ct m y).rank := by
  simp only [gmmPredict, logPdfToAffiliation]; rank_tac

/-- **The EM loop of the GMM trainer acts slice by slice.**  After any number of iterations every field of the
stacked model at a leading index is the field of the model fitted on that slice alone. -/
theorem gmmFit_fixLead (tiny eps log2pi : α) (ct : CovType) (chol : T α → T α) (y init sal : T α) (lead : List Nat)
    (hy : 2 ≤ y.rank) (hi : 2 ≤ init.rank) (hs : 1 ≤ sal.rank) (n : Nat)
    (hg : ∀ k, k ≤ n → GoodLead (covRank ct) (gmmFit tiny eps log2pi ct chol y init sal k).cov lead) :
    (gmmFit tiny eps log2pi ct chol y init sal n).fix ct lead =
      gmmFit tiny eps log2pi ct chol (fixLead y 2 lead) (fixLead init 2 lead) (fixLead sal 1 lead) n := by
  induction n with
  | zero => exact gmmMStep_fixLead tiny eps ct chol y init sal lead hy hi hs (hg 0 (Nat.le_refl 0))
  | succ n ih =>
    have ihn := ih (fun k hk => hg k (Nat.le_succ_of_le hk))
    have hgn := hg n (Nat.le_succ n)
    have hgs := hg (n + 1) (Nat.le_refl _)
    -- ranks of the previous iterate
    have hranks : 2 ≤ (gmmFit tiny eps log2pi ct chol y init sal n).weight.rank ∧
        2 ≤ (gmmFit tiny eps log2pi ct chol y init sal n).mean.rank ∧
        covRank ct + 1 ≤ (gmmFit tiny eps log2pi ct chol y init sal n).pc.rank ∧
        1 ≤ (gmmFit tiny eps log2pi ct chol y init sal n).logDet.rank := by
      cases n with
      | zero => exact gmmMStep_ranks tiny eps ct chol y init sal lead hy hi hs hgn
      | succ m => exact gmmMStep_ranks tiny eps ct chol y _ sal lead hy (gmmPredict_rank _ _ _ _ _) hs hgn
    obtain ⟨h1, h2, h3, h4⟩ := hranks
    have hp := gmmPredict_fixLead tiny log2pi ct (gmmFit tiny eps log2pi ct chol y init sal n) y lead h1 h2 h3 h4 hy
    rw [ihn] at hp
    have := gmmMStep_fixLead tiny eps ct chol y
      (gmmPredict tiny log2pi ct (gmmFit tiny eps log2pi ct chol y init sal n) y) sal lead hy
      (gmmPredict_rank _ _ _ _ _) hs hgs
    rw [hp] at this
    exact this

end gmm
/-! ## Part 7: shapes of the GMM iterates (discharges the shape hypothesis of `gmmFit_fixLead`) -/

@[simp] theorem rshape_map (f : α → β) (t : T α) : (map f t).rshape = t.rshape := rfl
@[simp] theorem rshape_const (s : List Nat) (x : α) : (const s x).rshape = s := rfl
@[simp] theorem rshape_zipWith (f : α → β → γ) (a : T α) (b : T β) : (zipWith f a b).rshape = bshape a.rshape b.rshape := rfl
@[simp] theorem rshape_reduceKeep (k : Nat) (r : Nat → (Nat → α) → β) (t : T α) :
    (reduceKeep k r t).rshape = setAt 1 t.rshape k 1 := rfl
@[simp] theorem rshape_reduceDrop (k : Nat) (r : Nat → (Nat → α) → β) (t : T α) :
    (reduceDrop k r t).rshape = eraseAt 1 t.rshape k := rfl
@[simp] theorem rshape_expandDims (k : Nat) (t : T α) : (expandDims k t).rshape = insertAt 1 t.rshape k 1 := rfl
@[simp] theorem rshape_flattenLead (c : Nat) (t : T α) :
    (flattenLead c t).rshape = t.rshape.take c ++ [prodList (t.rshape.drop c)] := rfl
@[simp] theorem rshape_unflattenLead (c : Nat) (lead : List Nat) (t : T α) :
    (unflattenLead c lead t).rshape = t.rshape.take c ++ lead := rfl
@[simp] theorem rshape_mapCore (c c' : Nat) (o : List Nat) (g : T α → T β) (t : T α) :
    (mapCore c c' o g t).rshape = o ++ t.rshape.drop c := rfl
@[simp] theorem rshape_diagLast2 (t : T α) : (diagLast2 t).rshape = t.rshape.drop 1 := rfl

theorem bshape_cons_cons (a b : Nat) (as bs : List Nat) :
    bshape (a :: as) (b :: bs) = (if a = 1 then b else a) :: bshape as bs := by
  apply ext_getD
  · simp
  · intro i hi
    simp only [getD_bshape, getD_cons', List.length_cons]
    cases i with
    | zero => simp
    | succ j =>
      simp only [Nat.add_sub_cancel, Nat.succ_ne_zero, if_false]
      have : (j + 1 < max (as.length + 1) (bs.length + 1)) ↔ (j < max as.length bs.length) := by omega
      simp only [this]

theorem bshape_self (l : List Nat) : bshape l l = l := by
  apply ext_getD
  · simp
  · intro i hi
    simp only [length_bshape, Nat.max_self] at hi
    simp only [getD_bshape, Nat.max_self, hi, if_true]
    split <;> simp_all

theorem bshape_nil_left (l : List Nat) : bshape [] l = l := by
  apply ext_getD
  · simp
  · intro i hi
    simp only [length_bshape, List.length_nil, Nat.zero_max] at hi
    simp only [getD_bshape, List.length_nil, Nat.zero_max, hi, if_true]
    have : ([] : List Nat).getD i 1 = 1 := rfl
    simp only [this, if_true]
    exact getD_default_irrel _ _ _ _ hi

theorem bshape_nil_right (l : List Nat) : bshape l [] = l := by
  apply ext_getD
  · simp
  · intro i hi
    simp only [length_bshape, List.length_nil, Nat.max_zero] at hi
    simp only [getD_bshape, List.length_nil, Nat.max_zero, hi, if_true]
    split <;> simp_all

theorem ite_one_self (a : Nat) : (if a = 1 then 1 else a) = a := by split <;> simp_all
theorem ite_one_one (a : Nat) : (if (1 : Nat) = 1 then a else 1) = a := by simp

-- index manipulations on explicit lists (literal positions)
theorem insertAt_zero (d : Nat) (l : List Nat) (x : Nat) : insertAt d l 0 x = x :: l := by simp [insertAt, padTake]
theorem insertAt_one_cons (d a : Nat) (l : List Nat) (x : Nat) : insertAt d (a :: l) 1 x = a :: x :: l := by
  simp [insertAt, padTake]
theorem insertAt_two_cons (d a b : Nat) (l : List Nat) (x : Nat) : insertAt d (a :: b :: l) 2 x = a :: b :: x :: l := by
  simp [insertAt, padTake, List.range_succ]
theorem eraseAt_zero_cons (d a : Nat) (l : List Nat) : eraseAt d (a :: l) 0 = l := by simp [eraseAt, padTake]
theorem eraseAt_one_cons (d a b : Nat) (l : List Nat) : eraseAt d (a :: b :: l) 1 = a :: l := by simp [eraseAt, padTake]
theorem eraseAt_two_cons (d a b c : Nat) (l : List Nat) : eraseAt d (a :: b :: c :: l) 2 = a :: b :: l := by
  simp [eraseAt, padTake, List.range_succ]
theorem setAt_zero_cons (d a : Nat) (l : List Nat) (x : Nat) : setAt d (a :: l) 0 x = x :: l := by simp [setAt, padTake]
theorem setAt_one_cons (d a b : Nat) (l : List Nat) (x : Nat) : setAt d (a :: b :: l) 1 x = a :: x :: l := by
  simp [setAt, padTake]


/-- reversed core shape of one covariance -/
def covCore : CovType → Nat → List Nat
  | .full, D => [D, D]
  | .diagonal, D => [D]
  | .spherical, _ => []

macro "shape_simp" "[" defs:Lean.Parser.Tactic.simpLemma,* "]" : tactic =>
  `(tactic| simp only [$defs,*, rshape_map, rshape_const, rshape_zipWith, rshape_reduceKeep, rshape_reduceDrop,
      rshape_expandDims, rshape_flattenLead, rshape_unflattenLead, rshape_mapCore, rshape_diagLast2,
      sumAxisKeep, sumAxis, meanAxisKeep, meanAxis, amaxAxisKeep, amaxAxis,
      bshape_cons_cons, bshape_self, bshape_nil_left, bshape_nil_right, ite_one_self, ite_one_one, ite_self,
      insertAt_zero, insertAt_one_cons, insertAt_two_cons, eraseAt_zero_cons, eraseAt_one_cons, eraseAt_two_cons,
      setAt_zero_cons, setAt_one_cons, if_true, List.take_succ_cons, List.take_zero, List.drop_succ_cons, List.drop_zero,
      List.cons_append, List.nil_append, List.append_nil, List.take_nil, List.drop_nil])

section gmmShapes
variable [Add α] [Sub α] [Mul α] [Div α] [Neg α] [OfNat α 0] [OfNat α 1] [NatCast α] [Max α]
  [LT α] [DecidableLT α] [BEq α] [Transc α]
set_option linter.unusedSectionVars false

theorem gaussPostInit_shapes (ct : CovType) (chol : T α → T α) (dim : Nat) (cov : T α) (D K : Nat) (Ld : List Nat)
    (h : cov.rshape = covCore ct D ++ K :: Ld) :
    (gaussPostInit ct chol dim cov).1.rshape = covCore ct D ++ K :: Ld ∧
    (gaussPostInit ct chol dim cov).2.rshape = K :: Ld := by
  cases ct <;> simp only [covCore] at h ⊢ <;> constructor <;>
    shape_simp [gaussPostInit, fullPostInit, diagonalPostInit, sphericalPostInit, h]

theorem gmmMStep_shapes (tiny eps : α) (ct : CovType) (chol : T α → T α) (y aff sal : T α) (D N K : Nat) (Ld : List Nat)
    (hy : y.rshape = D :: N :: Ld) (ha : aff.rshape = N :: K :: Ld) (hs : sal.rshape = N :: Ld) :
    (gmmMStep tiny eps ct chol y aff sal).weight.rshape = 1 :: K :: Ld ∧
    (gmmMStep tiny eps ct chol y aff sal).mean.rshape = D :: K :: Ld ∧
    (gmmMStep tiny eps ct chol y aff sal).cov.rshape = covCore ct D ++ K :: Ld ∧
    (gmmMStep tiny eps ct chol y aff sal).pc.rshape = covCore ct D ++ K :: Ld ∧
    (gmmMStep tiny eps ct chol y aff sal).logDet.rshape = K :: Ld := by
  refine ⟨?_, ?_, ?_, ?_, ?_⟩
  · shape_simp [gmmMStep, estimateMixtureWeight, hy, ha, hs]
  · cases ct <;> shape_simp [gmmMStep, gaussianFit, hy, ha, hs]
  · cases ct <;> shape_simp [gmmMStep, gaussianFit, covCore, hy, ha, hs]
  · have hc : (gaussianFit tiny ct (expandDims 2 y) (some (zipWith (fun a b : α => a * b) aff (expandDims 1 sal)))).2.rshape =
        covCore ct D ++ K :: Ld := by
      cases ct <;> shape_simp [gaussianFit, covCore, hy, ha, hs]
    exact (gaussPostInit_shapes ct chol _ _ D K Ld hc).1
  · have hc : (gaussianFit tiny ct (expandDims 2 y) (some (zipWith (fun a b : α => a * b) aff (expandDims 1 sal)))).2.rshape =
        covCore ct D ++ K :: Ld := by
      cases ct <;> shape_simp [gaussianFit, covCore, hy, ha, hs]
    exact (gaussPostInit_shapes ct chol _ _ D K Ld hc).2

theorem gmmPredict_shape (tiny log2pi : α) (ct : CovType) (m : Gmm α) (y : T α) (D N K : Nat) (Ld : List Nat)
    (hw : m.weight.rshape = 1 :: K :: Ld) (hm : m.mean.rshape = D :: K :: Ld)
    (hp : m.pc.rshape = covCore ct D ++ K :: Ld) (hl : m.logDet.rshape = K :: Ld) (hy : y.rshape = D :: N :: Ld) :
    (gmmPredict tiny log2pi ct m y).rshape = N :: K :: Ld := by
  cases ct <;> simp only [covCore] at hp <;>
    shape_simp [gmmPredict, logPdfToAffiliation, gaussLogPdfOf, gaussianLogPdf, diagonalGaussianLogPdf,
      sphericalGaussianLogPdf, gaussLogPdfTail, hw, hm, hp, hl, hy]

theorem gmmFit_shapes (tiny eps log2pi : α) (ct : CovType) (chol : T α → T α) (y init sal : T α) (D N K : Nat)
    (Ld : List Nat) (hy : y.rshape = D :: N :: Ld) (hi : init.rshape = N :: K :: Ld) (hs : sal.rshape = N :: Ld)
    (n : Nat) :
    (gmmFit tiny eps log2pi ct chol y init sal n).weight.rshape = 1 :: K :: Ld ∧
    (gmmFit tiny eps log2pi ct chol y init sal n).mean.rshape = D :: K :: Ld ∧
    (gmmFit tiny eps log2pi ct chol y init sal n).cov.rshape = covCore ct D ++ K :: Ld ∧
    (gmmFit tiny eps log2pi ct chol y init sal n).pc.rshape = covCore ct D ++ K :: Ld ∧
    (gmmFit tiny eps log2pi ct chol y init sal n).logDet.rshape = K :: Ld := by
  induction n with
  | zero => exact gmmMStep_shapes tiny eps ct chol y init sal D N K Ld hy hi hs
  | succ n ih =>
    obtain ⟨h1, h2, -, h4, h5⟩ := ih
    exact gmmMStep_shapes tiny eps ct chol y _ sal D N K Ld hy
      (gmmPredict_shape tiny log2pi ct _ y D N K Ld h1 h2 h4 h5 hy) hs

theorem length_covCore (ct : CovType) (D : Nat) : (covCore ct D).length = covRank ct := by cases ct <;> rfl

theorem goodLead_of_shape (ct : CovType) (cov : T α) (D K : Nat) (Ld lead : List Nat)
    (h : cov.rshape = covCore ct D ++ K :: Ld) (hK : 0 < K) (hpos : ∀ d, d ∈ Ld → 0 < d) (hv : ValidLead Ld lead) :
    GoodLead (covRank ct) cov lead := by
  have hl := length_covCore ct D
  refine ⟨?_, ?_, ?_⟩
  · simp only [T.rank, h, List.length_append, List.length_cons, hl]; omega
  · intro d hd
    rw [h, List.drop_append, ← hl] at hd
    simp only [List.drop_length, Nat.sub_self, List.drop_zero, List.nil_append, List.mem_cons] at hd
    rcases hd with rfl | hd
    · exact hK
    · exact hpos d hd
  · have : cov.rshape.drop (covRank ct + 1) = Ld := by
      rw [h, ← hl, ← List.drop_drop, List.drop_append]; simp
    rw [this]; exact hv

/-- **`GMMTrainer._fit` on well-shaped inputs**: observations `(*lead, N, D)`, initial affiliation `(*lead, K, N)`,
saliency `(*lead, N)` with `K > 0` and no empty leading axis; then for every in-range leading index and every
number of iterations the stacked model restricted to that index is the model of the slice alone. -/
theorem gmmFit_fixLead_shaped (tiny eps log2pi : α) (ct : CovType) (chol : T α → T α) (y init sal : T α)
    (D N K : Nat) (Ld lead : List Nat)
    (hy : y.rshape = D :: N :: Ld) (hi : init.rshape = N :: K :: Ld) (hs : sal.rshape = N :: Ld)
    (hK : 0 < K) (hpos : ∀ d, d ∈ Ld → 0 < d) (hv : ValidLead Ld lead) (n : Nat) :
    (gmmFit tiny eps log2pi ct chol y init sal n).fix ct lead =
      gmmFit tiny eps log2pi ct chol (fixLead y 2 lead) (fixLead init 2 lead) (fixLead sal 1 lead) n := by
  apply gmmFit_fixLead
  · simp only [T.rank, hy, List.length_cons]; omega
  · simp only [T.rank, hi, List.length_cons]; omega
  · simp only [T.rank, hs, List.length_cons]; omega
  · intro k _
    exact goodLead_of_shape ct _ D K Ld lead
      (gmmFit_shapes tiny eps log2pi ct chol y init sal D N K Ld hy hi hs k).2.2.1 hK hpos hv

end gmmShapes
end PbBss.Tensor

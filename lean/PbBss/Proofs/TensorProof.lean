import PbBss.Model.Tensor
/-! # Lemmas of the reversed-index tensor layer

Part 1: index lists (`padTake`, `setAt`, `insertAt`, `eraseAt`, `swapAt`, `bidx`, `bshape`) — every
equality is proved by `ext_getD` (same length, same `getD` everywhere) followed by case splits and `omega`.
Part 2: the generic family `fixLead (op t) c lead = op (fixLead t c lead)` for every primitive that is
addressed from the end of the shape and touches only the last `c` axes.

Purely structural: no property of the scalar type is used, so the statements hold verbatim for the
`Float` instance the driver executes. -/
set_option linter.unusedSimpArgs false
set_option linter.unusedVariables false
namespace PbBss.Tensor

/-! ## Part 1: index lists -/

theorem ext_getD {l1 l2 : List Nat} (hl : l1.length = l2.length)
    (h : ∀ i, i < l1.length → l1.getD i 0 = l2.getD i 0) : l1 = l2 := by
  apply List.ext_getElem hl
  intro i h1 h2
  have := h i h1
  simpa [List.getD_eq_getElem?_getD, List.getElem?_eq_getElem h1, List.getElem?_eq_getElem h2] using this

@[simp] theorem length_padTake (d n : Nat) (l : List Nat) : (padTake d n l).length = n := by
  simp [padTake]

theorem getD_padTake (d d' n : Nat) (l : List Nat) (i : Nat) :
    (padTake d n l).getD i d' = if i < n then l.getD i d else d' := by
  simp only [padTake, List.getD_eq_getElem?_getD, List.getElem?_map]
  by_cases h : i < n <;> simp [h]

theorem getD_append' (a b : List Nat) (i d : Nat) :
    (a ++ b).getD i d = if i < a.length then a.getD i d else b.getD (i - a.length) d := by
  simp only [List.getD_eq_getElem?_getD, List.getElem?_append]
  split <;> rfl

theorem getD_cons' (x : Nat) (l : List Nat) (i d : Nat) :
    (x :: l).getD i d = if i = 0 then x else l.getD (i - 1) d := by
  cases i <;> simp

theorem getD_drop' (l : List Nat) (n i d : Nat) : (l.drop n).getD i d = l.getD (n + i) d := by
  simp [List.getD_eq_getElem?_getD, List.getElem?_drop]

theorem getD_take' (l : List Nat) (n i d : Nat) :
    (l.take n).getD i d = if i < n then l.getD i d else d := by
  simp only [List.getD_eq_getElem?_getD, List.getElem?_take]
  split <;> simp

theorem getD_of_le (l : List Nat) (i d : Nat) (h : l.length ≤ i) : l.getD i d = d := by
  simp [List.getD_eq_getElem?_getD, List.getElem?_eq_none h]

@[simp] theorem length_bidx (s idx : List Nat) : (bidx s idx).length = s.length := by simp [bidx]

theorem getD_bidx (s idx : List Nat) (i d : Nat) :
    (bidx s idx).getD i d = if i < s.length then (if s.getD i 1 = 1 then 0 else idx.getD i 0) else d := by
  simp only [bidx, List.getD_eq_getElem?_getD, List.getElem?_map]
  by_cases h : i < s.length <;> simp [h]

@[simp] theorem length_bshape (a b : List Nat) : (bshape a b).length = max a.length b.length := by
  simp [bshape]

theorem getD_bshape (a b : List Nat) (i d : Nat) :
    (bshape a b).getD i d =
      if i < max a.length b.length then (if a.getD i 1 = 1 then b.getD i 1 else a.getD i 1) else d := by
  simp only [bshape, List.getD_eq_getElem?_getD, List.getElem?_map]
  by_cases h : i < max a.length b.length <;> simp [h]

@[simp] theorem length_swapAt (d : Nat) (l : List Nat) (i j : Nat) :
    (swapAt d l i j).length = max l.length (max i j + 1) := by simp [swapAt]

theorem getD_swapAt (d d' : Nat) (l : List Nat) (i j p : Nat) :
    (swapAt d l i j).getD p d' =
      if p < max l.length (max i j + 1) then
        (if p = i then l.getD j d else if p = j then l.getD i d else l.getD p d) else d' := by
  simp only [swapAt, List.getD_eq_getElem?_getD, List.getElem?_map]
  by_cases h : p < max l.length (max i j + 1) <;> simp [h]

@[simp] theorem length_setAt (d : Nat) (l : List Nat) (k x : Nat) :
    (setAt d l k x).length = k + 1 + (l.length - (k + 1)) := by
  simp [setAt]; omega

@[simp] theorem length_insertAt (d : Nat) (l : List Nat) (k x : Nat) :
    (insertAt d l k x).length = k + 1 + (l.length - k) := by
  simp [insertAt]; omega

@[simp] theorem length_eraseAt (d : Nat) (l : List Nat) (k : Nat) :
    (eraseAt d l k).length = k + (l.length - (k + 1)) := by
  simp [eraseAt]

theorem getD_both_le (l : List Nat) (i j d : Nat) (hi : l.length ≤ i) (hj : l.length ≤ j) :
    l.getD i d = l.getD j d := by rw [getD_of_le _ _ _ hi, getD_of_le _ _ _ hj]

theorem getD_default_irrel (l : List Nat) (i d d' : Nat) (hi : i < l.length) : l.getD i d = l.getD i d' := by
  simp [List.getD_eq_getElem?_getD, List.getElem?_eq_getElem hi]

/-- the closing step of every index-list equality: split all `if`s, finish with linear arithmetic -/
macro "idx_cases" : tactic =>
  `(tactic| (repeat' split) <;>
      (first | omega | rfl | contradiction | (congr 1; omega) | (apply getD_both_le <;> omega)
             | (apply getD_of_le; omega) | (symm; apply getD_of_le; omega) | (apply getD_default_irrel; omega)))

/-! ### `fixLead` index versus the index manipulations of the primitives -/

theorem getD_fix (c k : Nat) (hk : k < c) (core L : List Nat) :
    (padTake 0 c core ++ L).getD k 0 = core.getD k 0 := by
  simp only [getD_append', getD_padTake, length_padTake, hk, if_true]

theorem setAt_fix (c k j : Nat) (hk : k < c) (core L : List Nat) :
    setAt 0 (padTake 0 c core ++ L) k j = padTake 0 c (setAt 0 core k j) ++ L := by
  apply ext_getD
  · simp; omega
  · intro i hi
    simp only [length_setAt, length_insertAt, length_eraseAt, length_padTake, length_swapAt, length_bidx, length_bshape,
      List.length_append, List.length_take, List.length_drop] at hi
    simp only [setAt, getD_append', getD_cons', getD_drop', getD_padTake, length_padTake]
    idx_cases

theorem insertAt_fix (c k j : Nat) (hk : k ≤ c) (core L : List Nat) :
    insertAt 0 (padTake 0 c core ++ L) k j = padTake 0 (c + 1) (insertAt 0 core k j) ++ L := by
  apply ext_getD
  · simp; omega
  · intro i hi
    simp only [length_setAt, length_insertAt, length_eraseAt, length_padTake, length_swapAt, length_bidx, length_bshape,
      List.length_append, List.length_take, List.length_drop] at hi
    simp only [insertAt, getD_append', getD_cons', getD_drop', getD_padTake, length_padTake]
    idx_cases

theorem eraseAt_fix (c k : Nat) (hk : k ≤ c) (core L : List Nat) :
    eraseAt 0 (padTake 0 (c + 1) core ++ L) k = padTake 0 c (eraseAt 0 core k) ++ L := by
  apply ext_getD
  · simp; omega
  · intro i hi
    simp only [length_setAt, length_insertAt, length_eraseAt, length_padTake, length_swapAt, length_bidx, length_bshape,
      List.length_append, List.length_take, List.length_drop] at hi
    simp only [eraseAt, getD_append', getD_drop', getD_take', getD_padTake, length_padTake, List.length_take,
      List.length_append]
    idx_cases

theorem swapAt_fix (c i j : Nat) (hi : i < c) (hj : j < c) (core L : List Nat) :
    swapAt 0 (padTake 0 c core ++ L) i j = padTake 0 c (swapAt 0 core i j) ++ L := by
  apply ext_getD
  · simp; omega
  · intro p hi
    simp only [length_setAt, length_insertAt, length_eraseAt, length_padTake, length_swapAt, length_bidx, length_bshape,
      List.length_append, List.length_take, List.length_drop] at hi
    simp only [getD_swapAt, getD_append', getD_padTake, length_padTake, List.length_append]
    idx_cases

/-! ### shapes: what a primitive does to the last `c` sizes and to the leading sizes -/

theorem setAt_take (s : List Nat) (c k x : Nat) (hk : k < c) :
    (setAt 1 s k x).take c = setAt 1 (s.take c) k x := by
  apply ext_getD
  · simp; omega
  · intro i hi
    simp only [length_setAt, length_insertAt, length_eraseAt, length_padTake, length_swapAt, length_bidx, length_bshape,
      List.length_append, List.length_take, List.length_drop] at hi
    simp only [setAt, getD_take', getD_append', getD_cons', getD_drop', getD_padTake, length_padTake]
    idx_cases

theorem setAt_drop (s : List Nat) (c k x : Nat) (hk : k < c) : (setAt 1 s k x).drop c = s.drop c := by
  apply ext_getD
  · simp; omega
  · intro i hi
    simp only [length_setAt, length_insertAt, length_eraseAt, length_padTake, length_swapAt, length_bidx, length_bshape,
      List.length_append, List.length_take, List.length_drop] at hi
    simp only [setAt, getD_append', getD_cons', getD_drop', getD_padTake, length_padTake]
    idx_cases

theorem eraseAt_take (s : List Nat) (c k : Nat) (hk : k ≤ c) :
    (eraseAt 1 s k).take c = eraseAt 1 (s.take (c + 1)) k := by
  apply ext_getD
  · simp; omega
  · intro i hi
    simp only [length_setAt, length_insertAt, length_eraseAt, length_padTake, length_swapAt, length_bidx, length_bshape,
      List.length_append, List.length_take, List.length_drop] at hi
    simp only [eraseAt, getD_take', getD_append', getD_drop', getD_padTake, length_padTake, List.length_take]
    idx_cases

theorem eraseAt_drop (s : List Nat) (c k : Nat) (hk : k ≤ c) : (eraseAt 1 s k).drop c = s.drop (c + 1) := by
  apply ext_getD
  · simp; omega
  · intro i hi
    simp only [length_setAt, length_insertAt, length_eraseAt, length_padTake, length_swapAt, length_bidx, length_bshape,
      List.length_append, List.length_take, List.length_drop] at hi
    simp only [eraseAt, getD_take', getD_append', getD_drop', getD_padTake, length_padTake, List.length_take]
    idx_cases

theorem insertAt_take (s : List Nat) (c k x : Nat) (hk : k ≤ c) :
    (insertAt 1 s k x).take (c + 1) = insertAt 1 (s.take c) k x := by
  apply ext_getD
  · simp; omega
  · intro i hi
    simp only [length_setAt, length_insertAt, length_eraseAt, length_padTake, length_swapAt, length_bidx, length_bshape,
      List.length_append, List.length_take, List.length_drop] at hi
    simp only [insertAt, getD_take', getD_append', getD_cons', getD_drop', getD_padTake, length_padTake]
    idx_cases

theorem insertAt_drop (s : List Nat) (c k x : Nat) (hk : k ≤ c) :
    (insertAt 1 s k x).drop (c + 1) = s.drop c := by
  apply ext_getD
  · simp; omega
  · intro i hi
    simp only [length_setAt, length_insertAt, length_eraseAt, length_padTake, length_swapAt, length_bidx, length_bshape,
      List.length_append, List.length_take, List.length_drop] at hi
    simp only [insertAt, getD_append', getD_cons', getD_drop', getD_padTake, length_padTake]
    idx_cases

theorem swapAt_take (s : List Nat) (c i j : Nat) (hi : i < c) (hj : j < c) :
    (swapAt 1 s i j).take c = swapAt 1 (s.take c) i j := by
  apply ext_getD
  · simp; omega
  · intro p hi
    simp only [length_setAt, length_insertAt, length_eraseAt, length_padTake, length_swapAt, length_bidx, length_bshape,
      List.length_append, List.length_take, List.length_drop] at hi
    simp only [getD_swapAt, getD_take', List.length_take]
    idx_cases

theorem swapAt_drop (s : List Nat) (c i j : Nat) (hi : i < c) (hj : j < c) :
    (swapAt 1 s i j).drop c = s.drop c := by
  apply ext_getD
  · simp; omega
  · intro p hi
    simp only [length_setAt, length_insertAt, length_eraseAt, length_padTake, length_swapAt, length_bidx, length_bshape,
      List.length_append, List.length_take, List.length_drop] at hi
    simp only [getD_swapAt, getD_drop']
    idx_cases

theorem bshape_take (a b : List Nat) (c : Nat) : (bshape a b).take c = bshape (a.take c) (b.take c) := by
  apply ext_getD
  · simp; omega
  · intro i hi
    simp only [length_setAt, length_insertAt, length_eraseAt, length_padTake, length_swapAt, length_bidx, length_bshape,
      List.length_append, List.length_take, List.length_drop] at hi
    simp only [getD_bshape, getD_take', List.length_take]
    idx_cases

/-- reading operand `a` of a broadcast elementwise operation at a fixed leading index -/
theorem bidx_fix_left (A B : List Nat) (c : Nat) (hc : c ≤ A.length) (core lead : List Nat) :
    bidx A (padTake 0 c core ++ bidx ((bshape A B).drop c) lead) =
      padTake 0 c (bidx (A.take c) core) ++ bidx (A.drop c) lead := by
  apply ext_getD
  · simp; omega
  · intro i hi
    simp only [length_setAt, length_insertAt, length_eraseAt, length_padTake, length_swapAt, length_bidx, length_bshape,
      List.length_append, List.length_take, List.length_drop] at hi
    by_cases h : i < c
    · simp only [getD_bidx, getD_append', getD_padTake, length_padTake, getD_take', List.length_take, h]
      idx_cases
    · obtain ⟨m, rfl⟩ := Nat.exists_eq_add_of_le (Nat.le_of_not_lt h)
      simp only [getD_bidx, getD_append', getD_padTake, length_padTake, getD_drop', getD_bshape, getD_take',
        List.length_take, List.length_drop, length_bshape, Nat.add_sub_cancel_left]
      idx_cases

theorem bidx_fix_right (A B : List Nat) (c : Nat) (hc : c ≤ B.length) (core lead : List Nat) :
    bidx B (padTake 0 c core ++ bidx ((bshape A B).drop c) lead) =
      padTake 0 c (bidx (B.take c) core) ++ bidx (B.drop c) lead := by
  apply ext_getD
  · simp; omega
  · intro i hi
    simp only [length_setAt, length_insertAt, length_eraseAt, length_padTake, length_swapAt, length_bidx, length_bshape,
      List.length_append, List.length_take, List.length_drop] at hi
    by_cases h : i < c
    · simp only [getD_bidx, getD_append', getD_padTake, length_padTake, getD_take', List.length_take, h]
      idx_cases
    · obtain ⟨m, rfl⟩ := Nat.exists_eq_add_of_le (Nat.le_of_not_lt h)
      simp only [getD_bidx, getD_append', getD_padTake, length_padTake, getD_drop', getD_bshape, getD_take',
        List.length_take, List.length_drop, length_bshape, Nat.add_sub_cancel_left]
      idx_cases

theorem padTake_padTake_append (c : Nat) (core L : List Nat) :
    padTake 0 c (padTake 0 c core ++ L) = padTake 0 c core := by
  apply ext_getD
  · simp
  · intro i hi
    simp only [length_setAt, length_insertAt, length_eraseAt, length_padTake, length_swapAt, length_bidx, length_bshape,
      List.length_append, List.length_take, List.length_drop] at hi
    simp only [getD_padTake, getD_append', length_padTake]
    idx_cases

theorem drop_padTake_append (c : Nat) (core L : List Nat) : (padTake 0 c core ++ L).drop c = L := by
  simp [List.drop_append]

/-- clamping twice: a broadcast shape that is compatible with `dt` clamps no index that `dt` keeps -/
theorem bidx_bidx (dt ds lead : List Nat) (hlen : dt.length ≤ ds.length)
    (hcompat : ∀ i, i < dt.length → dt.getD i 1 ≠ 1 → ds.getD i 1 ≠ 1) :
    bidx dt (bidx ds lead) = bidx dt lead := by
  apply ext_getD
  · simp
  · intro i hi
    simp only [length_bidx] at hi
    have := hcompat i hi
    simp only [getD_bidx]
    idx_cases

/-! ## Part 2: the `fixLead` family -/

theorem T.ext' {α : Type} {a b : T α} (h1 : a.rshape = b.rshape) (h2 : ∀ idx, a.get idx = b.get idx) : a = b := by
  cases a; cases b
  simp only [T.mk.injEq]
  exact ⟨h1, funext h2⟩

variable {α β γ : Type}

@[simp] theorem rshape_fixLead (t : T α) (c : Nat) (lead : List Nat) :
    (fixLead t c lead).rshape = t.rshape.take c := rfl

theorem map_fixLead (f : α → β) (t : T α) (c : Nat) (lead : List Nat) :
    fixLead (map f t) c lead = map f (fixLead t c lead) := rfl

theorem const_fixLead (s : List Nat) (x : α) (c : Nat) (lead : List Nat) :
    fixLead (const s x) c lead = const (s.take c) x := rfl

/-- elementwise operations with NumPy broadcasting act slice by slice; an operand whose leading axes are
singletons (or missing beyond its own rank, as long as it has the `c` core axes) is read as if repeated -/
theorem zipWith_fixLead (f : α → β → γ) (a : T α) (b : T β) (c : Nat) (lead : List Nat)
    (ha : c ≤ a.rank) (hb : c ≤ b.rank) :
    fixLead (zipWith f a b) c lead = zipWith f (fixLead a c lead) (fixLead b c lead) := by
  apply T.ext'
  · simp [zipWith, fixLead, bshape_take]
  · intro core
    simp only [zipWith, fixLead]
    rw [bidx_fix_left _ _ _ ha, bidx_fix_right _ _ _ hb]

/-- a `keepdims=True` reduction over axis `-(k+1)`, `k < c`, acts slice by slice -/
theorem reduceKeep_fixLead (k : Nat) (r : Nat → (Nat → α) → β) (t : T α) (c : Nat) (lead : List Nat)
    (hk : k < c) : fixLead (reduceKeep k r t) c lead = reduceKeep k r (fixLead t c lead) := by
  apply T.ext'
  · simp [reduceKeep, fixLead, setAt_take _ _ _ _ hk]
  · intro core
    simp only [reduceKeep, fixLead, setAt_drop _ _ _ _ hk, getD_take', hk, if_true]
    congr 1
    funext j
    rw [setAt_fix _ _ _ hk]

/-- a `keepdims=False` reduction over axis `-(k+1)` lowers the core rank by one -/
theorem reduceDrop_fixLead (k : Nat) (r : Nat → (Nat → α) → β) (t : T α) (c : Nat) (lead : List Nat)
    (hk : k ≤ c) : fixLead (reduceDrop k r t) c lead = reduceDrop k r (fixLead t (c + 1) lead) := by
  apply T.ext'
  · simp [reduceDrop, fixLead, eraseAt_take _ _ _ hk]
  · intro core
    simp only [reduceDrop, fixLead, eraseAt_drop _ _ _ hk, getD_take', Nat.lt_succ_of_le hk, if_true]
    congr 1
    funext j
    rw [insertAt_fix _ _ _ hk]

/-- running reductions (`cumsum`, `cumprod`) along axis `-(k+1)`, `k < c` -/
theorem scanAxis_fixLead (k : Nat) (r : Nat → (Nat → α) → β) (t : T α) (c : Nat) (lead : List Nat)
    (hk : k < c) : fixLead (scanAxis k r t) c lead = scanAxis k r (fixLead t c lead) := by
  apply T.ext'
  · rfl
  · intro core
    simp only [scanAxis, fixLead, getD_fix _ _ hk]
    congr 1
    funext j
    rw [setAt_fix _ _ _ hk]

/-- `t[..., None, :, …]` (new axis at `-(k+1)`, `k ≤ c`) raises the core rank by one -/
theorem expandDims_fixLead (k : Nat) (t : T α) (c : Nat) (lead : List Nat) (hk : k ≤ c) :
    fixLead (expandDims k t) (c + 1) lead = expandDims k (fixLead t c lead) := by
  apply T.ext'
  · simp [expandDims, fixLead, insertAt_take _ _ _ _ hk]
  · intro core
    simp only [expandDims, fixLead, insertAt_drop _ _ _ _ hk]
    rw [eraseAt_fix _ _ hk]

theorem swapaxes_fixLead (i j : Nat) (t : T α) (c : Nat) (lead : List Nat) (hi : i < c) (hj : j < c) :
    fixLead (swapaxes i j t) c lead = swapaxes i j (fixLead t c lead) := by
  apply T.ext'
  · simp [swapaxes, fixLead, swapAt_take _ _ _ _ hi hj]
  · intro core
    simp only [swapaxes, fixLead, swapAt_drop _ _ _ _ hi hj]
    rw [swapAt_fix _ _ _ hi hj]

/-- `np.broadcast_to` of (singleton) leading axes: every slice of the broadcast tensor is the slice of the
original, i.e. the singleton axes behave as if repeated -/
theorem broadcastLead_fixLead (t : T α) (c : Nat) (s lead : List Nat) (hc : c ≤ t.rank)
    (hlen : (t.rshape.drop c).length ≤ s.length)
    (hcompat : ∀ i, i < (t.rshape.drop c).length → (t.rshape.drop c).getD i 1 ≠ 1 → s.getD i 1 ≠ 1) :
    fixLead (broadcastLead c s t) c lead = fixLead t c lead := by
  have hlen_take : (t.rshape.take c).length = c := by
    simp only [List.length_take]; exact Nat.min_eq_left hc
  apply T.ext'
  · simp [broadcastLead, fixLead, List.take_append_of_le_length, hlen_take]
  · intro core
    simp only [broadcastLead, fixLead]
    rw [padTake_padTake_append, drop_padTake_append]
    have : (t.rshape.take c ++ s).drop c = s := by
      rw [List.drop_append, hlen_take]; simp [List.drop_eq_nil_of_le, hlen_take]
    rw [this, bidx_bidx _ _ _ hlen hcompat]


/-! ## Part 3: ranks, and the transcriptions of pb_bss functions

Each transcription is a composition of primitives; its slice law follows by pushing `fixLead` through the
composition with the Part-2 lemmas (`simp`), the side conditions "the operand has the `c` core axes" being
discharged from the rank formulas below. -/

@[simp] theorem rank_map (f : α → β) (t : T α) : (map f t).rank = t.rank := rfl
@[simp] theorem rank_const (s : List Nat) (x : α) : (const s x).rank = s.length := rfl
@[simp] theorem rank_zipWith (f : α → β → γ) (a : T α) (b : T β) :
    (zipWith f a b).rank = max a.rank b.rank := by simp [T.rank, zipWith]
@[simp] theorem rank_reduceKeep (k : Nat) (r : Nat → (Nat → α) → β) (t : T α) :
    (reduceKeep k r t).rank = k + 1 + (t.rank - (k + 1)) := by simp [T.rank, reduceKeep]
@[simp] theorem rank_reduceDrop (k : Nat) (r : Nat → (Nat → α) → β) (t : T α) :
    (reduceDrop k r t).rank = k + (t.rank - (k + 1)) := by simp [T.rank, reduceDrop]
@[simp] theorem rank_scanAxis (k : Nat) (r : Nat → (Nat → α) → β) (t : T α) :
    (scanAxis k r t).rank = t.rank := rfl
@[simp] theorem rank_expandDims (k : Nat) (t : T α) : (expandDims k t).rank = k + 1 + (t.rank - k) := by
  simp [T.rank, expandDims]
@[simp] theorem rank_swapaxes (i j : Nat) (t : T α) :
    (swapaxes i j t).rank = max t.rank (max i j + 1) := by simp [T.rank, swapaxes]
@[simp] theorem rank_fixLead (t : T α) (c : Nat) (lead : List Nat) :
    (fixLead t c lead).rank = min c t.rank := by simp [T.rank, fixLead]

/-- `expandDims_fixLead` with the core rank of the RESULT as the free parameter (the form `simp` can use) -/
theorem expandDims_fixLead' (k : Nat) (t : T α) (c : Nat) (lead : List Nat) (hk : k < c) :
    fixLead (expandDims k t) c lead = expandDims k (fixLead t (c - 1) lead) := by
  obtain ⟨c', rfl⟩ : ∃ c', c = c' + 1 := ⟨c - 1, by omega⟩
  exact expandDims_fixLead k t c' lead (by omega)

/-- the sizes of the core axes are those of the stack -/
theorem getD_rshape_fixLead (t : T α) (c : Nat) (lead : List Nat) (i d : Nat) (hi : i < c) :
    (fixLead t c lead).rshape.getD i d = t.rshape.getD i d := by
  simp [fixLead, getD_take', hi]

/-- side conditions of the slice laws: rank formulas + linear arithmetic -/
macro "rank_tac" : tactic =>
  `(tactic| ((try simp only [rank_map, rank_const, rank_zipWith, rank_reduceKeep, rank_reduceDrop, rank_scanAxis,
      rank_expandDims, rank_swapaxes, sumAxisKeep, sumAxis, meanAxisKeep, meanAxis, amaxAxisKeep, amaxAxis,
      cumprodFromEnd, cumsumFromEnd, List.length_nil]); omega))

/-- push `fixLead` through a composition of primitives -/
macro "push_fixLead" "[" defs:Lean.Parser.Tactic.simpLemma,* "]" : tactic =>
  `(tactic| simp (disch := rank_tac) only [$defs,*, map_fixLead, const_fixLead, zipWith_fixLead, reduceKeep_fixLead,
      reduceDrop_fixLead, scanAxis_fixLead, expandDims_fixLead', swapaxes_fixLead, getD_rshape_fixLead,
      sumAxisKeep, sumAxis, meanAxisKeep, meanAxis, amaxAxisKeep, amaxAxis, cumprodFromEnd, cumsumFromEnd,
      Option.map, List.take_nil, List.take_zero, Nat.reduceSub, Nat.reduceAdd])

section transcriptions
variable [Add α] [Sub α] [Mul α] [Div α] [Neg α] [OfNat α 0] [OfNat α 1] [NatCast α] [Max α]
  [LT α] [DecidableLT α] [BEq α] [Transc α]

set_option linter.unusedSectionVars false

theorem logPdfToAffiliation_fixLead (tiny : α) (w lp : T α) (mask : Option (T α)) (clip : Option α)
    (lead : List Nat) (hw : 2 ≤ w.rank) (hlp : 2 ≤ lp.rank) (hm : ∀ m, mask = some m → 2 ≤ m.rank) :
    fixLead (logPdfToAffiliation tiny w lp mask clip) 2 lead =
      logPdfToAffiliation tiny (fixLead w 2 lead) (fixLead lp 2 lead) (mask.map (fixLead · 2 lead)) clip := by
  cases mask with
  | none => cases clip <;> push_fixLead [logPdfToAffiliation]
  | some m =>
    have := hm m rfl
    cases clip <;> push_fixLead [logPdfToAffiliation]

theorem estimateMixtureWeight_fixLead (eps : α) (aff : T α) (sal : Option (T α)) (lead : List Nat)
    (ha : 2 ≤ aff.rank) :
    fixLead (estimateMixtureWeight eps aff sal) 2 lead =
      estimateMixtureWeight eps (fixLead aff 2 lead) (sal.map (fixLead · 1 lead)) := by
  cases sal with
  | none => push_fixLead [estimateMixtureWeight]
  | some s => push_fixLead [estimateMixtureWeight]

/-- core rank of the covariance field per covariance type -/
def covRank : CovType → Nat
  | .full => 2
  | .diagonal => 1
  | .spherical => 0

theorem gaussianFit_mean_fixLead (tiny : α) (ct : CovType) (y : T α) (sal : Option (T α)) (lead : List Nat)
    (hy : 2 ≤ y.rank) (hs : ∀ s, sal = some s → 1 ≤ s.rank) :
    fixLead (gaussianFit tiny ct y sal).1 1 lead =
      (gaussianFit tiny ct (fixLead y 2 lead) (sal.map (fixLead · 1 lead))).1 := by
  cases sal with
  | none => cases ct <;> push_fixLead [gaussianFit]
  | some s =>
    have := hs s rfl
    cases ct <;> push_fixLead [gaussianFit]

theorem gaussianFit_cov_fixLead (tiny : α) (ct : CovType) (y : T α) (sal : Option (T α)) (lead : List Nat)
    (hy : 2 ≤ y.rank) (hs : ∀ s, sal = some s → 1 ≤ s.rank) :
    fixLead (gaussianFit tiny ct y sal).2 (covRank ct) lead =
      (gaussianFit tiny ct (fixLead y 2 lead) (sal.map (fixLead · 1 lead))).2 := by
  cases sal with
  | none => cases ct <;> push_fixLead [gaussianFit, covRank]
  | some s =>
    have := hs s rfl
    cases ct <;> push_fixLead [gaussianFit, covRank]

theorem gaussianLogPdf_fixLead (log2pi : α) (mean pc logDet y : T α) (lead : List Nat)
    (hm : 1 ≤ mean.rank) (hp : 2 ≤ pc.rank) (hy : 2 ≤ y.rank) :
    fixLead (gaussianLogPdf log2pi mean pc logDet y) 1 lead =
      gaussianLogPdf log2pi (fixLead mean 1 lead) (fixLead pc 2 lead) (fixLead logDet 0 lead) (fixLead y 2 lead) := by
  push_fixLead [gaussianLogPdf, gaussLogPdfTail]

theorem diagonalGaussianLogPdf_fixLead (log2pi : α) (mean pc logDet y : T α) (lead : List Nat)
    (hm : 1 ≤ mean.rank) (hp : 1 ≤ pc.rank) (hy : 2 ≤ y.rank) :
    fixLead (diagonalGaussianLogPdf log2pi mean pc logDet y) 1 lead =
      diagonalGaussianLogPdf log2pi (fixLead mean 1 lead) (fixLead pc 1 lead) (fixLead logDet 0 lead)
        (fixLead y 2 lead) := by
  push_fixLead [diagonalGaussianLogPdf, gaussLogPdfTail]

theorem sphericalGaussianLogPdf_fixLead (log2pi : α) (mean pc logDet y : T α) (lead : List Nat)
    (hm : 1 ≤ mean.rank) (hy : 2 ≤ y.rank) :
    fixLead (sphericalGaussianLogPdf log2pi mean pc logDet y) 1 lead =
      sphericalGaussianLogPdf log2pi (fixLead mean 1 lead) (fixLead pc 0 lead) (fixLead logDet 0 lead)
        (fixLead y 2 lead) := by
  push_fixLead [sphericalGaussianLogPdf, gaussLogPdfTail]

end transcriptions

end PbBss.Tensor

import PbBss.Proofs.GreedyDom
/-! Generalisation of `row_dominant_greedy`: it suffices that in every remaining block every off-graph entry is
strictly below SOME graph entry of the block (needed for the `multiply` metric, which is not row dominant). -/
namespace PbBss
variable {α : Type} [LinearOrder α] {K : Nat}

theorem greedyLoop_eq_step (hK : 0 < K) (s0 : Fin K → Fin K → α) (σ : Fin K → Fin K)
    (hσ : Function.Injective σ)
    (hstep : ∀ (R : Finset (Fin K)) i j, i ∉ R → j ∉ R.image σ → j ≠ σ i →
      ∃ i', i' ∉ R ∧ s0 i j < s0 i' (σ i')) :
    ∀ (t : Nat) (s : Fin K → Fin K → Sc α) (rp : Fin K → Fin K) (R : Finset (Fin K)),
      InvD s0 σ s rp R → R.card + t = K → greedyLoop hK t s rp = σ := by
  intro t
  induction t with
  | zero =>
    intro s rp R hI hc
    simp only [greedyLoop]
    have hR : R = Finset.univ := Finset.eq_univ_of_card _ (by simpa using hc)
    funext a; exact hI.agree a (by simp [hR])
  | succ t ih =>
    intro s rp R hI hc
    simp only [greedyLoop]
    set p := argmaxOn s (allPos K) (⟨0, hK⟩, ⟨0, hK⟩) with hp
    have hRlt : R.card < K := by omega
    obtain ⟨a, ha⟩ : ∃ a, a ∉ R := by
      by_contra h; push_neg at h
      have : R = Finset.univ := Finset.eq_univ_iff_forall.mpr h
      simp [this] at hRlt
    have hσa : σ a ∉ R.image σ := by
      simp only [Finset.mem_image, not_exists, not_and]
      intro x hx hxa; exact ha (hσ hxa ▸ hx)
    obtain ⟨_, hmax⟩ := argmaxOn_ge s (allPos K) (⟨0, hK⟩, ⟨0, hK⟩)
    -- the arg-max is unmasked
    have hpa := hmax (a, σ a) (mem_allPos' _)
    have hsa : s a (σ a) = some (s0 a (σ a)) := by rw [hI.val]; simp [ha, hσa]
    have hpsome : ¬ (p.1 ∈ R ∨ p.2 ∈ R.image σ) := by
      intro hm
      have : s p.1 p.2 = none := by rw [hI.val, if_pos hm]
      rw [this, hsa] at hpa
      simp [toWB, WithBot.none_eq_bot, WithBot.some_eq_coe] at hpa
    push_neg at hpsome
    -- and lies on the graph of σ (row dominance)
    have hp2 : p.2 = σ p.1 := by
      by_contra hne
      obtain ⟨i', hi', hlt⟩ := hstep R p.1 p.2 hpsome.1 hpsome.2 hne
      have hσp : σ i' ∉ R.image σ := by
        simp only [Finset.mem_image, not_exists, not_and]
        intro x hx hxa; exact hi' (hσ hxa ▸ hx)
      have h1 := hmax (i', σ i') (mem_allPos' _)
      have e1 : s i' (σ i') = some (s0 i' (σ i')) := by rw [hI.val]; simp [hi', hσp]
      have e2 : s p.1 p.2 = some (s0 p.1 p.2) := by rw [hI.val]; simp [hpsome.1, hpsome.2]
      rw [e1, e2] at h1
      simp only [toWB, WithBot.some_eq_coe, WithBot.coe_le_coe] at h1
      exact absurd hlt (not_lt.mpr h1)
    apply ih (maskRC s p.1 p.2) _ (insert p.1 R)
    · refine ⟨?_, ?_⟩
      · intro x y
        simp only [maskRC, hI.val, Finset.image_insert, Finset.mem_insert, ← hp2]
        by_cases hx : x = p.1 <;> by_cases hy : y = p.2 <;> simp [hx, hy]
      · intro x hx
        simp only [Finset.mem_insert] at hx
        by_cases hx1 : x = p.1
        · simp [hx1, hp2]
        · simp only [hx1, if_false]; exact hI.agree x (by tauto)
    · rw [Finset.card_insert_of_notMem hpsome.1]; omega


/-- **stepwise dominance ⇒ the greedy assignment is exactly σ** -/
theorem stepwise_dominant_greedy (hK : 0 < K) (s0 : Fin K → Fin K → α) (σ : Fin K → Fin K)
    (hσ : Function.Injective σ)
    (hstep : ∀ (R : Finset (Fin K)) i j, i ∉ R → j ∉ R.image σ → j ≠ σ i →
      ∃ i', i' ∉ R ∧ s0 i j < s0 i' (σ i')) :
    greedy hK s0 = σ := by
  unfold greedy
  apply greedyLoop_eq_step hK s0 σ hσ hstep K _ _ ∅
  · exact ⟨by simp, by simp⟩
  · simp

end PbBss

import PbBss.Model.Em
import PbBss.Proofs.RealInst
import PbBss.Proofs.Proof1
import PbBss.Proofs.Em
import Mathlib.Analysis.SpecialFunctions.Log.Basic
import Mathlib.Analysis.SpecialFunctions.Pow.Real
import Mathlib.Algebra.BigOperators.Fin
import Mathlib.Tactic
/-! Lemmas behind C02 (EM monotonicity) for the generic EM model `PbBss.Em` over ℝ. -/
open PbBss PbBss.Em Finset

namespace PbBss.EmProof

/-! ### The EM inequality, abstractly -/

/-- GEM step for positive joint weights `p` (old) and `q` (new): if the expected complete-data
log-likelihood under the old posterior does not decrease, neither does the (saliency weighted)
observed-data log-likelihood. -/
theorem gem_abstract {K N : Type} [Fintype K] [Nonempty K] [Fintype N]
    (s : N → ℝ) (hs : ∀ n, 0 ≤ s n) (p q : K → N → ℝ) (hp : ∀ k n, 0 < p k n) (hq : ∀ k n, 0 < q k n)
    (hQ : ∑ n, s n * ∑ k, p k n / (∑ j, p j n) * Real.log (p k n)
        ≤ ∑ n, s n * ∑ k, p k n / (∑ j, p j n) * Real.log (q k n)) :
    ∑ n, s n * Real.log (∑ k, p k n) ≤ ∑ n, s n * Real.log (∑ k, q k n) := by
  have key : ∀ n, s n * (∑ k, p k n / (∑ j, p j n) * (Real.log (q k n) - Real.log (p k n)))
      ≤ s n * (Real.log (∑ k, q k n) - Real.log (∑ k, p k n)) := fun n =>
    mul_le_mul_of_nonneg_left (em_bound (fun k => p k n) (fun k => q k n) (fun k => hp k n) (fun k => hq k n)) (hs n)
  have hsum := Finset.sum_le_sum fun n (_ : n ∈ (univ : Finset N)) => key n
  have e1 : ∑ n, s n * (∑ k, p k n / (∑ j, p j n) * (Real.log (q k n) - Real.log (p k n)))
      = (∑ n, s n * ∑ k, p k n / (∑ j, p j n) * Real.log (q k n))
        - ∑ n, s n * ∑ k, p k n / (∑ j, p j n) * Real.log (p k n) := by
    rw [← Finset.sum_sub_distrib]
    refine Finset.sum_congr rfl fun n _ => ?_
    rw [← mul_sub, ← Finset.sum_sub_distrib]
    congr 1
    refine Finset.sum_congr rfl fun k _ => ?_
    ring
  have e2 : ∑ n, s n * (Real.log (∑ k, q k n) - Real.log (∑ k, p k n))
      = (∑ n, s n * Real.log (∑ k, q k n)) - ∑ n, s n * Real.log (∑ k, p k n) := by
    rw [← Finset.sum_sub_distrib]
    refine Finset.sum_congr rfl fun n _ => ?_
    ring
  rw [e1, e2] at hsum
  linarith

/-! ### The model over ℝ -/
section model
variable {Θ Y : Type} {K N : Nat}

/-- joint weight `π_k(n) · p_k(y_n)` -/
noncomputable def joint (fam : Family Θ Y ℝ) (θ : Mixture Θ ℝ K N) (y : Fin N → Y) (k : Fin K) (n : Fin N) : ℝ :=
  θ.w k n * Real.exp (fam.logPdf (θ.c k) (y n))

/-- Bayes posterior of the model -/
noncomputable def post (fam : Family Θ Y ℝ) (θ : Mixture Θ ℝ K N) (y : Fin N → Y) (k : Fin K) (n : Fin N) : ℝ :=
  joint fam θ y k n / ∑ j, joint fam θ y j n

/-- expected complete-data log-likelihood of `θ'` under the posterior of `θ` -/
noncomputable def Qfun (fam : Family Θ Y ℝ) (s : Fin N → ℝ) (y : Fin N → Y) (θ θ' : Mixture Θ ℝ K N) : ℝ :=
  ∑ n, s n * ∑ k, post fam θ y k n * Real.log (joint fam θ' y k n)

theorem logLik_eq (fam : Family Θ Y ℝ) (s : Fin N → ℝ) (θ : Mixture Θ ℝ K N) (y : Fin N → Y) :
    logLik fam s θ y = ∑ n, s n * Real.log (∑ k, joint fam θ y k n) := by
  simp [logLik, joint, vsum_eq_sum]

theorem joint_pos (fam : Family Θ Y ℝ) (θ : Mixture Θ ℝ K N) (y : Fin N → Y) (hw : ∀ k n, 0 < θ.w k n)
    (k : Fin K) (n : Fin N) : 0 < joint fam θ y k n :=
  mul_pos (hw k n) (Real.exp_pos _)

/-- **GEM step** on the model: any parameter change that does not decrease `Q(θ, ·)` does not decrease
the saliency-weighted log-likelihood (any saliency `≥ 0`). -/
theorem gem_step (fam : Family Θ Y ℝ) (s : Fin N → ℝ) (y : Fin N → Y) (θ θ' : Mixture Θ ℝ (K+1) N)
    (hs : ∀ n, 0 ≤ s n) (hw : ∀ k n, 0 < θ.w k n) (hw' : ∀ k n, 0 < θ'.w k n)
    (hQ : Qfun fam s y θ θ ≤ Qfun fam s y θ θ') :
    logLik fam s θ y ≤ logLik fam s θ' y := by
  rw [logLik_eq, logLik_eq]
  exact gem_abstract s hs _ _ (joint_pos fam θ y hw) (joint_pos fam θ' y hw') hQ

/-- the E-step of the model is the Bayes posterior (denominator clamp inactive: weights `≥ tiny`) -/
theorem eStep_eq_post (tiny : ℝ) (fam : Family Θ Y ℝ) (θ : Mixture Θ ℝ (K+1) N) (y : Fin N → Y)
    (htiny : 0 < tiny) (hw : ∀ k n, tiny ≤ θ.w k n) (k : Fin (K+1)) (n : Fin N) :
    eStep tiny fam θ y k n = post fam θ y k n := by
  unfold eStep post joint
  have hden : tiny ≤ ∑ j, Real.exp (fam.logPdf (θ.c j) (y n) - vmax (fun j => fam.logPdf (θ.c j) (y n))) * θ.w j n := by
    obtain ⟨j0, hj0⟩ := vmax_mem (fun j => fam.logPdf (θ.c j) (y n))
    have hnn : ∀ j ∈ (univ : Finset (Fin (K+1))),
        0 ≤ Real.exp (fam.logPdf (θ.c j) (y n) - vmax (fun j => fam.logPdf (θ.c j) (y n))) * θ.w j n :=
      fun j _ => mul_nonneg (Real.exp_pos _).le (le_trans htiny.le (hw j n))
    refine le_trans ?_ (Finset.single_le_sum hnn (Finset.mem_univ j0))
    rw [hj0]; simp; exact hw j0 n
  exact affiliation_bayes tiny (fun j => θ.w j n) (fun j => fam.logPdf (θ.c j) (y n)) hden htiny k

end model

end PbBss.EmProof

namespace PbBss.EmProof

/-! ### Gibbs' inequality and the weight update -/

/-- Gibbs' inequality on the simplex: for masses `a ≥ 0` the normalised masses maximise `Σ a log ω` over
all positive sub-probability vectors `ω`. -/
theorem gibbs {K : Type} [Fintype K] (a ω : K → ℝ) (ha : ∀ k, 0 ≤ a k) (hω : ∀ k, 0 < ω k)
    (hsum : ∑ k, ω k ≤ 1) :
    ∑ k, a k * Real.log (ω k) ≤ ∑ k, a k * Real.log (a k / ∑ j, a j) := by
  set T := ∑ j, a j with hT
  have hT0 : 0 ≤ T := Finset.sum_nonneg fun k _ => ha k
  rcases hT0.eq_or_lt with h0 | hpos
  · have hz : ∀ k, a k = 0 := by
      intro k
      have := (Finset.sum_eq_zero_iff_of_nonneg (fun k _ => ha k)).mp h0.symm k (Finset.mem_univ k)
      exact this
    simp [hz]
  · have term : ∀ k, a k * Real.log (ω k) - a k * Real.log (a k / T) ≤ T * ω k - a k := by
      intro k
      rcases (ha k).eq_or_lt with hk | hk
      · rw [← hk]; simp; exact mul_nonneg hT0 (hω k).le
      · have hx : 0 < ω k * T / a k := div_pos (mul_pos (hω k) hpos) hk
        have hlog := Real.log_le_sub_one_of_pos hx
        have e : Real.log (ω k * T / a k) = Real.log (ω k) - Real.log (a k / T) := by
          rw [Real.log_div (mul_pos (hω k) hpos).ne' hk.ne', Real.log_mul (hω k).ne' hpos.ne',
            Real.log_div hk.ne' hpos.ne']
          ring
        rw [e] at hlog
        have := mul_le_mul_of_nonneg_left hlog hk.le
        have e2 : a k * (ω k * T / a k - 1) = T * ω k - a k := by field_simp
        rw [e2] at this
        linarith
    have hs := Finset.sum_le_sum fun k (_ : k ∈ (univ : Finset K)) => term k
    rw [Finset.sum_sub_distrib, Finset.sum_sub_distrib, ← Finset.mul_sum] at hs
    have : T * ∑ k, ω k ≤ T := by nlinarith
    linarith

/-- Gibbs on one tie group `S`: a weight vector that is constant on `S` cannot beat the normalised
group masses. -/
theorem gibbs_group {K N : Type} [Fintype K] [Fintype N] (S : Finset N) (c π' : K → N → ℝ)
    (hc : ∀ k n, 0 ≤ c k n) (hπ : ∀ k n, 0 < π' k n)
    (hconst : ∀ k, ∀ n ∈ S, ∀ m ∈ S, π' k n = π' k m) (hsum : ∀ n, ∑ k, π' k n ≤ 1) :
    ∑ n ∈ S, ∑ k, c k n * Real.log (π' k n)
      ≤ ∑ n ∈ S, ∑ k, c k n * Real.log ((∑ m ∈ S, c k m) / ∑ j, ∑ m ∈ S, c j m) := by
  rcases S.eq_empty_or_nonempty with hS | ⟨n₀, hn₀⟩
  · simp [hS]
  · have e1 : ∑ n ∈ S, ∑ k, c k n * Real.log (π' k n) = ∑ k, (∑ m ∈ S, c k m) * Real.log (π' k n₀) := by
      rw [Finset.sum_comm]
      refine Finset.sum_congr rfl fun k _ => ?_
      rw [Finset.sum_mul]
      refine Finset.sum_congr rfl fun n hn => ?_
      rw [hconst k n hn n₀ hn₀]
    have e2 : ∑ n ∈ S, ∑ k, c k n * Real.log ((∑ m ∈ S, c k m) / ∑ j, ∑ m ∈ S, c j m)
        = ∑ k, (∑ m ∈ S, c k m) * Real.log ((∑ m ∈ S, c k m) / ∑ j, ∑ m ∈ S, c j m) := by
      rw [Finset.sum_comm]
      refine Finset.sum_congr rfl fun k _ => ?_
      rw [Finset.sum_mul]
    rw [e1, e2]
    exact gibbs (fun k => ∑ m ∈ S, c k m) (fun k => π' k n₀)
      (fun k => Finset.sum_nonneg fun m _ => hc k m) (fun k => hπ k n₀) (hsum n₀)

section weights
variable {K N G : Nat}

/-- weight part of `Q`: `Σ_n s_n Σ_k γ_kn log π_kn` -/
noncomputable def Wq (s : Fin N → ℝ) (γ π : Fin K → Fin N → ℝ) : ℝ :=
  ∑ n, s n * ∑ k, γ k n * Real.log (π k n)

theorem groupSum_eq (grp : Fin N → Fin G) (g : Fin G) (c : Fin N → ℝ) :
    groupSum grp g c = ∑ m ∈ Finset.univ.filter (fun m => grp m = g), c m := by
  simp [groupSum, vsum_eq_sum, Finset.sum_filter]

/-- **The weight update maximises the weight part of Q** for every tying by groups (`(-1,)`, `(-3,)`,
`(-3,-1)`, per-observation, …): normalised group masses of `γ·s` beat every positive
sub-probability weight family that is constant on the tie groups. -/
theorem weights_maximise_Q (grp : Fin N → Fin G) (s : Fin N → ℝ) (γ π' : Fin K → Fin N → ℝ)
    (hs : ∀ n, 0 ≤ s n) (hγ : ∀ k n, 0 ≤ γ k n) (hπ : ∀ k n, 0 < π' k n)
    (htied : ∀ k n m, grp n = grp m → π' k n = π' k m) (hsum : ∀ n, ∑ k, π' k n ≤ 1) :
    Wq s γ π' ≤ Wq s γ (fun k n => groupSum grp (grp n) (fun m => γ k m * s m)
                                / ∑ j, groupSum grp (grp n) (fun m => γ j m * s m)) := by
  unfold Wq
  have reorg : ∀ π : Fin K → Fin N → ℝ, ∑ n, s n * ∑ k, γ k n * Real.log (π k n)
      = ∑ g : Fin G, ∑ n ∈ Finset.univ.filter (fun n => grp n = g), ∑ k, (γ k n * s n) * Real.log (π k n) := by
    intro π
    rw [Finset.sum_fiberwise (s := Finset.univ) (g := grp) (f := fun n => ∑ k, (γ k n * s n) * Real.log (π k n))]
    refine Finset.sum_congr rfl fun n _ => ?_
    rw [Finset.mul_sum]
    refine Finset.sum_congr rfl fun k _ => ?_
    ring
  rw [reorg, reorg]
  refine Finset.sum_le_sum fun g _ => ?_
  have h := gibbs_group (Finset.univ.filter (fun n => grp n = g)) (fun k n => γ k n * s n) π'
    (fun k n => mul_nonneg (hγ k n) (hs n)) hπ
    (fun k n hn m hm => htied k n m (by rw [(Finset.mem_filter.mp hn).2, (Finset.mem_filter.mp hm).2])) hsum
  refine le_trans h (le_of_eq ?_)
  refine Finset.sum_congr rfl fun n hn => ?_
  have hg : grp n = g := (Finset.mem_filter.mp hn).2
  refine Finset.sum_congr rfl fun k _ => ?_
  simp only [groupSum_eq, hg]

end weights

end PbBss.EmProof

namespace PbBss.EmProof

/-- component part of `Q` for one class: `Σ_n c_n · log p(y_n; ϑ)` with `c_n = γ_kn · s_n` -/
noncomputable def compQ {Θ Y : Type} {N : Nat} (fam : Family Θ Y ℝ) (c : Fin N → ℝ) (y : Fin N → Y) (ϑ : Θ) : ℝ :=
  ∑ n, c n * fam.logPdf ϑ (y n)

end PbBss.EmProof

import Mathlib.LinearAlgebra.Matrix.PosDef
import Mathlib.LinearAlgebra.Matrix.NonsingularInverse
import Mathlib.Data.Complex.Basic
import Mathlib.Analysis.Complex.Basic
import Mathlib.Tactic

open Matrix Complex

variable {n : Type} [Fintype n] [DecidableEq n]

/-- quadratic form of a real diagonal matrix -/
theorem quad_diag (l : n → ℝ) (c : n → ℂ) :
    star c ⬝ᵥ (diagonal (fun i => (l i : ℂ))) *ᵥ c = ((∑ i, l i * Complex.normSq (c i) : ℝ) : ℂ) := by
  simp only [dotProduct, mulVec_diagonal, Pi.star_apply, Complex.ofReal_sum, Complex.ofReal_mul]
  refine Finset.sum_congr rfl fun i _ => ?_
  rw [Complex.normSq_eq_conj_mul_self]
  simp [RCLike.star_def]; ring

/-- **GEV maximality from the generalised-eigh contract** `Vᴴ Φnn V = 1`, `Vᴴ Φxx V = diag λ`:
no vector has a larger Rayleigh quotient than `λ_max`. -/
theorem gev_rayleigh_le (Pxx Pnn V : Matrix n n ℂ) (l : n → ℝ) (hV : IsUnit V)
    (hN : Vᴴ * Pnn * V = 1) (hX : Vᴴ * Pxx * V = diagonal (fun i => (l i : ℂ)))
    (lmax : ℝ) (hl : ∀ i, l i ≤ lmax) (w : n → ℂ) :
    (star w ⬝ᵥ Pxx *ᵥ w).re ≤ lmax * (star w ⬝ᵥ Pnn *ᵥ w).re := by
  obtain ⟨c, rfl⟩ : ∃ c, w = V *ᵥ c := by
    refine ⟨V⁻¹ *ᵥ w, ?_⟩
    rw [mulVec_mulVec, Matrix.mul_nonsing_inv _ ((Matrix.isUnit_iff_isUnit_det V).mp hV), one_mulVec]
  have e : ∀ P : Matrix n n ℂ, star (V *ᵥ c) ⬝ᵥ P *ᵥ (V *ᵥ c) = star c ⬝ᵥ (Vᴴ * P * V) *ᵥ c := by
    intro P
    rw [star_mulVec, mulVec_mulVec, dotProduct_mulVec, vecMul_vecMul, ← dotProduct_mulVec, Matrix.mul_assoc]
  rw [e, e, hN, hX, one_mulVec, quad_diag]
  have h1 : star c ⬝ᵥ c = ((∑ i, Complex.normSq (c i) : ℝ) : ℂ) := by
    simp only [dotProduct, Pi.star_apply, Complex.ofReal_sum]
    refine Finset.sum_congr rfl fun i _ => ?_
    rw [Complex.normSq_eq_conj_mul_self]; simp [RCLike.star_def]
  rw [h1, Complex.ofReal_re, Complex.ofReal_re, Finset.mul_sum]
  exact Finset.sum_le_sum fun i _ => mul_le_mul_of_nonneg_right (hl i) (Complex.normSq_nonneg _)


import PbBss.Proofs.BlindProof
/-! Functional characterisation of one DHTV pass over a segment: every bin of the segment is reordered by the
assignment computed from ITS OWN rows (at the start of the pass) against the fixed centroid; other bins are
untouched.  (The loop processes bins sequentially and in place; bins do not influence each other within a pass.) -/
namespace PbBss.Align
open Function

section
variable {α : Type} [Field α] [LinearOrder α] [Transc α] {K F T : Nat}

/-- the reassignment a pass applies to bin `f`, as a function of the features at the start of the pass -/
def passPerm (m : Metric) (tiny : α) (algo : Algo) (c : Tab2 K T α) (x : Tab3 K F T α) (f : Fin F) : Fin K → Fin K :=
  assign algo (score tiny m (fun k => at3 x k f) (at2 c))

theorem binStep_features (m : Metric) (tiny : α) (algo : Algo) (c : Tab2 K T α) (s : St K F T α) (f : Fin F)
    (k : Fin K) (g : Fin F) (t : Fin T) :
    at3 (binStep m tiny algo c s f).1.features k g t
      = if g = f then at3 s.features (passPerm m tiny algo c s.features f k) g t else at3 s.features k g t := by
  unfold binStep passPerm
  dsimp only
  split
  · rename_i hid
    by_cases hg : g = f
    · simp only [hg, if_true]
      have : at1 (tab1 (assign algo (score tiny m (fun k => at3 s.features k f) (at2 c)))) k = k := by
        have := (List.all_eq_true.mp hid) k (List.mem_finRange k)
        simpa using this
      rw [at1_tab1] at this
      rw [this]
    · simp [hg]
  · simp only [at3_tab3, at1_tab1, permuteBin]
    split <;> rfl

theorem binStep_mapping (m : Metric) (tiny : α) (algo : Algo) (c : Tab2 K T α) (s : St K F T α) (f : Fin F)
    (k : Fin K) (g : Fin F) :
    at2 (binStep m tiny algo c s f).1.mapping k g
      = if g = f then at2 s.mapping (passPerm m tiny algo c s.features f k) g else at2 s.mapping k g := by
  unfold binStep passPerm
  dsimp only
  split
  · rename_i hid
    by_cases hg : g = f
    · simp only [hg, if_true]
      have : at1 (tab1 (assign algo (score tiny m (fun k => at3 s.features k f) (at2 c)))) k = k := by
        have := (List.all_eq_true.mp hid) k (List.mem_finRange k)
        simpa using this
      rw [at1_tab1] at this
      rw [this]
    · simp [hg]
  · simp only [at2_tab2, at1_tab1, permuteBin]

/-- `passPerm` of bin `g` only looks at the rows of bin `g` -/
theorem passPerm_congr (m : Metric) (tiny : α) (algo : Algo) (c : Tab2 K T α) (x y : Tab3 K F T α) (g : Fin F)
    (h : ∀ k t, at3 x k g t = at3 y k g t) : passPerm m tiny algo c x g = passPerm m tiny algo c y g := by
  unfold passPerm
  have : (fun k => at3 x k g) = fun k => at3 y k g := by funext k t; exact h k t
  rw [this]

theorem foldl_binStep_spec (m : Metric) (tiny : α) (algo : Algo) (c : Tab2 K T α) :
    ∀ (l : List (Fin F)), l.Nodup → ∀ (s : St K F T α) (b : Bool),
      let r := l.foldl (fun (acc : St K F T α × Bool) f =>
        let r := binStep m tiny algo c acc.1 f
        (r.1, acc.2 || r.2)) (s, b)
      (∀ k g t, at3 r.1.features k g t
        = if g ∈ l then at3 s.features (passPerm m tiny algo c s.features g k) g t else at3 s.features k g t) ∧
      (∀ k g, at2 r.1.mapping k g
        = if g ∈ l then at2 s.mapping (passPerm m tiny algo c s.features g k) g else at2 s.mapping k g)
  | [], _, s, b => by simp
  | f :: l, hnd, s, b => by
    have hf : f ∉ l := (List.nodup_cons.mp hnd).1
    have hl : l.Nodup := (List.nodup_cons.mp hnd).2
    simp only [List.foldl_cons]
    obtain ⟨h1, h2⟩ := foldl_binStep_spec m tiny algo c l hl (binStep m tiny algo c s f).1
      (b || (binStep m tiny algo c s f).2)
    have hcongr : ∀ g, g ≠ f → passPerm m tiny algo c (binStep m tiny algo c s f).1.features g
        = passPerm m tiny algo c s.features g := by
      intro g hg
      apply passPerm_congr
      intro k t
      rw [binStep_features]; simp [hg]
    refine ⟨?_, ?_⟩
    · intro k g t
      rw [h1 k g t]
      by_cases hgl : g ∈ l
      · have hgf : g ≠ f := fun h => hf (h ▸ hgl)
        simp only [hgl, if_true, List.mem_cons, or_true]
        rw [hcongr g hgf, binStep_features]; simp [hgf]
      · simp only [hgl, if_false, List.mem_cons, or_false]
        rw [binStep_features]
        by_cases hgf : g = f <;> simp [hgf]
    · intro k g
      rw [h2 k g]
      by_cases hgl : g ∈ l
      · have hgf : g ≠ f := fun h => hf (h ▸ hgl)
        simp only [hgl, if_true, List.mem_cons, or_true]
        rw [hcongr g hgf, binStep_mapping]; simp [hgf]
      · simp only [hgl, if_false, List.mem_cons, or_false]
        rw [binStep_mapping]
        by_cases hgf : g = f <;> simp [hgf]

/-- the bins of a segment `[lo, hi)` -/
def segBins (F lo hi : Nat) : List (Fin F) := (List.finRange F).filter fun f => lo ≤ f.val ∧ f.val < hi

theorem mem_segBins {F lo hi : Nat} (f : Fin F) : f ∈ segBins F lo hi ↔ lo ≤ f.val ∧ f.val < hi := by
  simp [segBins]

theorem segBins_nodup (F lo hi : Nat) : (segBins F lo hi).Nodup :=
  List.Nodup.filter _ (List.nodup_finRange F)

/-- the (possibly normalised) centroid table a pass uses -/
def passCentroid (isCos : Bool) (tiny : α) (lo hi : Nat) (x : Tab3 K F T α) : Tab2 K T α :=
  tab2 (if isCos then fun k => vecNormalize tiny (centroid x lo hi k) else centroid x lo hi)

/-- **one pass over a segment**, functional form -/
theorem segmentPass_spec (isCos : Bool) (m : Metric) (tiny : α) (algo : Algo) (lo hi : Nat) (s : St K F T α) :
    let c := passCentroid isCos tiny lo hi s.features
    let r := segmentPass isCos m tiny algo lo hi s
    (∀ k g t, at3 r.1.features k g t
      = if lo ≤ g.val ∧ g.val < hi then at3 s.features (passPerm m tiny algo c s.features g k) g t
        else at3 s.features k g t) ∧
    (∀ k g, at2 r.1.mapping k g
      = if lo ≤ g.val ∧ g.val < hi then at2 s.mapping (passPerm m tiny algo c s.features g k) g
        else at2 s.mapping k g) := by
  intro c r
  have := foldl_binStep_spec m tiny algo c (segBins F lo hi) (segBins_nodup F lo hi) s false
  simp only [mem_segBins] at this
  exact this
end

end PbBss.Align

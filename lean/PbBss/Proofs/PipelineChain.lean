import PbBss.Proofs.AlignTwoLevel
/-! C03 × C16 × C17: ONE theorem across the three stage models of the documented chain

  per-frequency EM (cACGMM) → posteriors → permutation alignment (greedy, `cos`) → global permutation → masks →
  `get_power_spectral_density_matrix` → noise PSD → MVDR

on the balanced noise-free orthonormal scene, for every number `n ≥ 1` of EM iterations and every per-bin relabelling `π`
of the EM posteriors.  Ingredients: `cacg_trajectory_stationary` (EM posterior is two-level), `em_posteriors_restored_by_greedy`
(the greedy aligner restores the class order of bin 0 in every bin), `two_level_mask_psd` / `two_level_noise_psd` (PSD
estimator on two-level masks), `leaky_mvdr_leakage_bound` (MVDR from the leaky noise PSD).  The composite is the model
`Pipeline.pipelinePsd` (`psd ∘ pipelineMasks`, see `C17.axes_contract`). -/
open Matrix PbBss PbBss.Pipeline PbBss.Em PbBss.FixedPoint PbBss.FixedPoint.CacgChain PbBss.PipelineProof

namespace PbBss.PipelineChain

/-! ### bridges between the stage models -/
section bridge
variable {γ : Type} {F K T : Nat}

/-- the alignment model (`Align.applyMapping` on `(K, F)`-indexed rows) and the pipeline model (`Pipeline.applyMapping` on
`(K, F, T)` functions) re-index in the same way: the masks the pipeline hands to the PSD estimator are the aligned mask of
the alignment model, read at class `g k` -/
theorem pipelineMasks_eq_applyMapping (mask : Fin K → Fin F → Fin T → γ) (m : Fin K → Fin F → Fin K)
    (g : Fin K → Fin K) (f : Fin F) (k : Fin K) (t : Fin T) :
    pipelineMasks (toFKT mask) m g f k t = Align.applyMapping mask m (g k) f t := rfl

/-- `psd` of one (bin, class) row depends only on that row of the mask and on that bin of the observation -/
theorem psd_row_congr {F' K' D : Nat} (floor : ℝ) (obs : Fin F → Fin D → Fin T → ℂ) (obs' : Fin F' → Fin D → Fin T → ℂ)
    (mask : Fin F → Fin K → Fin T → ℝ) (mask' : Fin F' → Fin K' → Fin T → ℝ) (f : Fin F) (f' : Fin F') (k : Fin K)
    (k' : Fin K') (ho : obs f = obs' f') (hm : mask f k = mask' f' k') :
    psd floor obs mask f k = psd floor obs' mask' f' k' := by
  unfold psd
  simp only [ho, hm]

/-- the sum over the OTHER aligned classes is the sum over the other TRUE classes (`τ` a bijection) -/
theorem sum_others_reindex {M : Type} [AddCommMonoid M] (τ : Equiv.Perm (Fin K)) (X : Fin K → M) (k : Fin K) :
    (∑ i, if i = k then (0 : M) else X (τ i)) = ∑ i, if i = τ k then (0 : M) else X i := by
  rw [← Equiv.sum_comp τ (fun i => if i = τ k then (0 : M) else X i)]
  simp only [τ.injective.eq_iff]
end bridge

/-! ### the PSD stage on aligned two-level masks, every bin carrying the same scene -/
section twoLevel
variable {K N D F : Nat} {a : Fin (K+1) → Fin (D+1) → ℂ} {c : Fin N → Fin (K+1)} {z : Fin N → Fin (D+1) → ℂ}

/-- unit-modulus source signals: every source energy is its frame count (any number of bins) -/
theorem scene_energy' (u : Fin N → ℂ) (hu : ∀ n, Complex.normSq (u n) = 1) (f : Fin F) (j : Fin (K+1)) :
    energy c (fun (_ : Fin F) t => u t) f j = frames c j := by
  unfold energy frames
  refine Finset.sum_congr rfl fun t _ => ?_
  rw [hu]

/-- the reference computation: PSD row `k'` of the consistent two-level mask on the scene, in any bin -/
theorem scene_twoLevel_psd (sc : Scene a c z) (pfloor G H : ℝ) (f : Fin F) (k' : Fin (K+1)) (d e : Fin (D+1)) :
    psd pfloor (fun (_ : Fin F) d t => z t d) (fun (_ : Fin F) k t => if c t = k then G else H) f k' d e =
      ∑ j, ((muW pfloor G H c k' j * frames c j : ℝ) : ℂ) * (a j d * (starRingEnd ℂ) (a j e)) := by
  obtain ⟨u, hu1, hz⟩ := sc.obs
  have hobs : (fun (_ : Fin F) (d : Fin (D+1)) (t : Fin N) => z t d)
      = fun f d t => (fun (_ : Fin F) => a) f (c t) d * (fun (_ : Fin F) t => u t) f t := by
    funext _ d t
    show z t d = a (c t) d * u t
    rw [hz]; ring
  rw [hobs, two_level_mask_psd]
  simp only [scene_energy' u hu1]

/-- PSD stage: if the masks handed to the estimator are two-level in the class order `τ` (any map), the `k`-th PSD of every
bin is the PSD of the ONE true source `τ k` with the two-level leak coefficients -/
theorem aligned_twoLevel_psd (sc : Scene a c z) (pfloor G H : ℝ) (mask : Fin F → Fin (K+1) → Fin N → ℝ)
    (τ : Fin (K+1) → Fin (K+1)) (hmask : ∀ f k t, mask f k t = if c t = τ k then G else H)
    (f : Fin F) (k : Fin (K+1)) (d e : Fin (D+1)) :
    psd pfloor (fun (_ : Fin F) d t => z t d) mask f k d e =
      ∑ j, ((muW pfloor G H c (τ k) j * frames c j : ℝ) : ℂ) * (a j d * (starRingEnd ℂ) (a j e)) := by
  rw [← scene_twoLevel_psd (F := F) sc pfloor G H f (τ k) d e]
  rw [psd_row_congr pfloor (fun (_ : Fin F) d t => z t d) (fun (_ : Fin F) d t => z t d) mask
    (fun (_ : Fin F) k t => if c t = k then G else H) f f k (τ k) rfl (funext fun t => hmask f k t)]

/-- noise-PSD stage: the noise PSD of aligned target `k` sums the PSDs of the other aligned classes `k' ≠ k`, i.e. of the
true classes `τ k' ≠ τ k`; `τ` is a bijection, so it is the two-level noise PSD of the true target `τ k` -/
theorem aligned_twoLevel_noise_psd (sc : Scene a c z) (pfloor G H : ℝ) (mask : Fin F → Fin (K+1) → Fin N → ℝ)
    (τ : Equiv.Perm (Fin (K+1))) (hmask : ∀ f k t, mask f k t = if c t = τ k then G else H)
    (f : Fin F) (k : Fin (K+1)) (d e : Fin (D+1)) :
    noiseFromPsd (psd pfloor (fun (_ : Fin F) d t => z t d) mask) f k d e =
      ∑ j, ((nuW pfloor G H c (τ k) j * frames c j : ℝ) : ℂ) * (a j d * (starRingEnd ℂ) (a j e)) := by
  obtain ⟨u, hu1, hz⟩ := sc.obs
  have hobs : (fun (_ : Fin F) (d : Fin (D+1)) (t : Fin N) => z t d)
      = fun f d t => (fun (_ : Fin F) => a) f (c t) d * (fun (_ : Fin F) t => u t) f t := by
    funext _ d t
    show z t d = a (c t) d * u t
    rw [hz]; ring
  have hrow : ∀ i, psd pfloor (fun (_ : Fin F) d t => z t d) mask f i d e
      = psd pfloor (fun (_ : Fin F) d t => z t d) (fun (_ : Fin F) k t => if c t = k then G else H) f (τ i) d e :=
    fun i => by
      rw [psd_row_congr pfloor (fun (_ : Fin F) d t => z t d) (fun (_ : Fin F) d t => z t d) mask
        (fun (_ : Fin F) k t => if c t = k then G else H) f f i (τ i) rfl (funext fun t => hmask f i t)]
  have h1 : noiseFromPsd (psd pfloor (fun (_ : Fin F) d t => z t d) mask) f k d e
      = noiseFromPsd (psd pfloor (fun (_ : Fin F) d t => z t d)
          (fun (_ : Fin F) k t => if c t = k then G else H)) f (τ k) d e := by
    simp only [noiseFromPsd, vsum_eq_sum, hrow]
    exact sum_others_reindex τ
      (fun i => psd pfloor (fun (_ : Fin F) d t => z t d) (fun (_ : Fin F) k t => if c t = k then G else H) f i d e) k
  rw [h1, hobs, two_level_noise_psd]
  simp only [scene_energy' u hu1]

end twoLevel

/-! ### the chain EM → alignment → global permutation → masks → PSD → noise PSD -/
section chain
variable {K N D F : Nat} {a : Fin (K+1) → Fin (D+1) → ℂ} {c : Fin N → Fin (K+1)} {z : Fin N → Fin (D+1) → ℂ}

/-- masks stage of the chain: the masks `pipelineMasks post m g` the pipeline hands to the PSD estimator — `post` the
relabelled EM posteriors in the `(F, K, T)` layout, `m` the greedy aligner's mapping, `g` the global permutation — are
two-level in the class order `k ↦ permAtBin π 0 (g k)`, the same in every bin -/
theorem balanced_pipeline_masks
    (eigh : Tab (D+1) (Tab (D+1) ℂ) → Tab (D+1) (Tab (D+1) ℂ) × Tab (D+1) ℝ)
    (tiny floor : ℝ) (rule : WeightRule) (tie : Tying N) (eps : ℝ) (s : Fin N → ℝ)
    (sc : Scene a c z) (heigh : EighOn eigh tiny z) (htiny : 0 < tiny)
    (h10 : ((10 : ℕ) : ℝ) * tiny ≤ 1) (ht : tiny ≤ 1 / ((K+1 : ℕ) : ℝ)) (hf0 : 0 < floor) (hf1 : floor < 1)
    (htie : tie.uniform = true) (S : ℝ) (hS : tiny ≤ S) (hbal : ∀ k, classMass c s k = S) (n : Nat) (hn : 1 ≤ n)
    (hE : 10 * (N : ℝ) ≤ ratioE D floor) (atiny : ℝ) (hat : atiny ≤ cacgG K D floor)
    (π : Fin F → Equiv.Perm (Fin (K+1))) (g : Fin (K+1) → Fin (K+1)) (f : Fin F) (k : Fin (K+1)) (t : Fin N) :
    let base := Align.emMask F eigh tiny floor rule tie eps s c z n
    let post : Fin F → Fin (K+1) → Fin N → ℝ := toFKT (Align.at3 (Align.permuted base π))
    let m : Fin (K+1) → Fin F → Fin (K+1) := Align.greedyAligner atiny .cos (Align.permuted base π)
    pipelineMasks post m g f k t
      = if c t = Align.permAtBin π 0 (g k) then cacgG K D floor else cacgH K D floor := by
  intro base post m
  rw [pipelineMasks_eq_applyMapping]
  exact Align.em_posteriors_restored_by_greedy eigh tiny floor rule tie eps s sc heigh htiny h10 ht hf0 hf1 htie S hS hbal
    n hn hE atiny hat π (g k) f t

/-- **End-to-end chain, balanced noise-free orthonormal scene.**  Hypotheses: those of `em_posteriors_restored_by_greedy`
(scene `Scene a c z`, `eigh` contract, guards on `tiny`, eigenvalue floor `0 < floor < 1`, uniform mixture weights, equal class
masses, `10·N ≤ E = ratioE D floor`, alignment floor `atiny ≤ g`).  `F` frequency bins carry the scene; `n ≥ 1` EM iterations
from the hard true partition; `π` an ARBITRARY per-bin relabelling of the EM posteriors; `g` any global permutation;
`pfloor` the floor of the PSD normalisation (any real).  With

* `post f k t` = the relabelled EM posterior, `(F, K, T)` layout (`toFKT (at3 (permuted (emMask …) π))`),
* `m` = the mapping returned by the greedy aligner (`cos`) on these posteriors,
* `obs f d t = z t d`,

the composite `pipelinePsd pfloor obs post m g` of the documented chain satisfies in EVERY bin `f`, for every class `k`:
the `k`-th PSD is the two-level PSD of the ONE true source `σ k = permAtBin π 0 (g k)` (the same `σ` in every bin),
`Σ_j μ_{σk,j} n_j a_j a_jᴴ`, and the noise PSD of target `k` is `Σ_j ν_{σk,j} n_j a_j a_jᴴ`. -/
theorem balanced_pipeline_chain
    (eigh : Tab (D+1) (Tab (D+1) ℂ) → Tab (D+1) (Tab (D+1) ℂ) × Tab (D+1) ℝ)
    (tiny floor : ℝ) (rule : WeightRule) (tie : Tying N) (eps : ℝ) (s : Fin N → ℝ)
    (sc : Scene a c z) (heigh : EighOn eigh tiny z) (htiny : 0 < tiny)
    (h10 : ((10 : ℕ) : ℝ) * tiny ≤ 1) (ht : tiny ≤ 1 / ((K+1 : ℕ) : ℝ)) (hf0 : 0 < floor) (hf1 : floor < 1)
    (htie : tie.uniform = true) (S : ℝ) (hS : tiny ≤ S) (hbal : ∀ k, classMass c s k = S) (n : Nat) (hn : 1 ≤ n)
    (hE : 10 * (N : ℝ) ≤ ratioE D floor) (atiny : ℝ) (hat : atiny ≤ cacgG K D floor)
    (π : Fin F → Equiv.Perm (Fin (K+1))) (g : Equiv.Perm (Fin (K+1))) (pfloor : ℝ)
    (f : Fin F) (k : Fin (K+1)) (d e : Fin (D+1)) :
    let base := Align.emMask F eigh tiny floor rule tie eps s c z n
    let post : Fin F → Fin (K+1) → Fin N → ℝ := toFKT (Align.at3 (Align.permuted base π))
    let m : Fin (K+1) → Fin F → Fin (K+1) := Align.greedyAligner atiny .cos (Align.permuted base π)
    let obs : Fin F → Fin (D+1) → Fin N → ℂ := fun _ d t => z t d
    let σ : Fin (K+1) → Fin (K+1) := fun k => Align.permAtBin π 0 (g k)
    pipelinePsd pfloor obs post m g f k d e =
        ∑ j, ((muW pfloor (cacgG K D floor) (cacgH K D floor) c (σ k) j * frames c j : ℝ) : ℂ)
          * (a j d * (starRingEnd ℂ) (a j e)) ∧
      noiseFromPsd (pipelinePsd pfloor obs post m g) f k d e =
        ∑ j, ((nuW pfloor (cacgG K D floor) (cacgH K D floor) c (σ k) j * frames c j : ℝ) : ℂ)
          * (a j d * (starRingEnd ℂ) (a j e)) := by
  intro base post m obs σ
  have hmask : ∀ f k t, pipelineMasks post m g f k t
      = if c t = (g.trans (Align.permAtBin π 0)) k then cacgG K D floor else cacgH K D floor := fun f k t =>
    balanced_pipeline_masks eigh tiny floor rule tie eps s sc heigh htiny h10 ht hf0 hf1 htie S hS hbal n hn hE atiny hat
      π g f k t
  exact ⟨aligned_twoLevel_psd sc pfloor _ _ (pipelineMasks post m g) (g.trans (Align.permAtBin π 0)) hmask f k d e,
    aligned_twoLevel_noise_psd sc pfloor _ _ (pipelineMasks post m g) (g.trans (Align.permAtBin π 0)) hmask f k d e⟩

end chain

/-! ### … → MVDR -/
section mvdr
variable {K N D F : Nat} {a : Fin (K+1) → Fin (D+1) → ℂ} {c : Fin N → Fin (K+1)} {z : Fin N → Fin (D+1) → ℂ}

/-- orthonormal prototypes: `a_k` itself is a zero-forcing vector for target `k` -/
theorem ortho_zero_forcing {K D : Nat} {a : Fin K → Fin D → ℂ} (ha : OrthoProto a) (k j : Fin K) :
    star (a k) ⬝ᵥ a j = if j = k then 1 else 0 := by
  rw [← ha j k]
  simp only [dotProduct, Pi.star_apply, RCLike.star_def]
  exact Finset.sum_congr rfl fun d _ => mul_comm _ _

/-- … of squared norm 1 -/
theorem ortho_normSq {K D : Nat} {a : Fin K → Fin D → ℂ} (ha : OrthoProto a) (k : Fin K) :
    normSq (α := ℝ) (a k) = 1 := by
  rw [normSq_eq]
  apply Complex.ofReal_injective
  rw [Complex.ofReal_sum, Complex.ofReal_one]
  have h := ha k k
  rw [if_pos rfl] at h
  rw [← h]
  exact Finset.sum_congr rfl fun d _ => (Complex.mul_conj (a k d)).symm

/-- **The chain up to the beamformer.**  Same hypotheses as `balanced_pipeline_chain`, PSD floor `0 < pfloor`, white sensor
noise `weps j ≥ 0` per class with positive total `ε = Σ_{j≠σk} weps j` for the target.  The matrix handed to the solver is
the noise PSD the CHAIN produced for aligned target `k` in bin `f` — from the relabelled EM posteriors, the greedy
aligner's mapping and the global permutation — plus the white part `ε·1`; the solver contract is stated on THAT matrix
with the true steering vector `a (σ k)`, `σ k = permAtBin π 0 (g k)`.  Then

* that matrix is the leaky noise PSD `Σ_j ν_{σk,j} n_j a_j a_jᴴ + ε·1` of the true target `σ k`;
* the MVDR vector `w = u'/(a_{σk}ᴴ u')` passes the target undistorted (output power `n_{σk}`);
* its leak-weighted interference plus white-noise gain is at most `ε` (the zero-forcing vector is `a (σ k)` itself,
  `‖a (σ k)‖² = 1`): `Σ_{j≠σk} ν_{σk,j} n_j |wᴴa_j|² + ε‖w‖² ≤ ε`. -/
theorem balanced_pipeline_chain_mvdr
    (eigh : Tab (D+1) (Tab (D+1) ℂ) → Tab (D+1) (Tab (D+1) ℂ) × Tab (D+1) ℝ)
    (tiny floor : ℝ) (rule : WeightRule) (tie : Tying N) (eps : ℝ) (s : Fin N → ℝ)
    (sc : Scene a c z) (heigh : EighOn eigh tiny z) (htiny : 0 < tiny)
    (h10 : ((10 : ℕ) : ℝ) * tiny ≤ 1) (ht : tiny ≤ 1 / ((K+1 : ℕ) : ℝ)) (hf0 : 0 < floor) (hf1 : floor < 1)
    (htie : tie.uniform = true) (S : ℝ) (hS : tiny ≤ S) (hbal : ∀ k, classMass c s k = S) (n : Nat) (hn : 1 ≤ n)
    (hE : 10 * (N : ℝ) ≤ ratioE D floor) (atiny : ℝ) (hat : atiny ≤ cacgG K D floor)
    (π : Fin F → Equiv.Perm (Fin (K+1))) (g : Equiv.Perm (Fin (K+1))) (pfloor : ℝ) (hpf : 0 < pfloor)
    (weps : Fin (K+1) → ℝ) (he : ∀ j, 0 ≤ weps j) (f : Fin F) (k : Fin (K+1))
    (hpos : 0 < noiseEps weps (Align.permAtBin π 0 (g k))) (u' : Fin (D+1) → ℂ) :
    let base := Align.emMask F eigh tiny floor rule tie eps s c z n
    let post : Fin F → Fin (K+1) → Fin N → ℝ := toFKT (Align.at3 (Align.permuted base π))
    let m : Fin (K+1) → Fin F → Fin (K+1) := Align.greedyAligner atiny .cos (Align.permuted base π)
    let obs : Fin F → Fin (D+1) → Fin N → ℂ := fun _ d t => z t d
    let σk : Fin (K+1) := Align.permAtBin π 0 (g k)
    let nu : Fin (K+1) → ℝ := nuW pfloor (cacgG K D floor) (cacgH K D floor) c σk
    let Φ : Matrix (Fin (D+1)) (Fin (D+1)) ℂ := Matrix.of fun d e =>
      noiseFromPsd (pipelinePsd pfloor obs post m g) f k d e + if d = e then ((noiseEps weps σk : ℝ) : ℂ) else 0
    Φ = Matrix.of (leakyNoisePsd nu (frames c) weps a σk) ∧
    (Φ *ᵥ u' = a σk →
      outPower (frames c) a (mvdrFromSolve (α := ℝ) (a σk) u') σk = frames c σk ∧
      interference (leakPow nu (frames c) σk) a (mvdrFromSolve (α := ℝ) (a σk) u') σk
          + noiseEps weps σk * normSq (α := ℝ) (mvdrFromSolve (α := ℝ) (a σk) u')
        ≤ noiseEps weps σk) := by
  intro base post m obs σk nu Φ
  have hΦ : Φ = Matrix.of (leakyNoisePsd nu (frames c) weps a σk) := by
    ext d e
    simp only [Φ, Matrix.of_apply, leakyNoisePsd]
    rw [(balanced_pipeline_chain eigh tiny floor rule tie eps s sc heigh htiny h10 ht hf0 hf1 htie S hS hbal n hn hE atiny hat
      π g pfloor f k d e).2]
  refine ⟨hΦ, fun hu => ?_⟩
  rw [hΦ] at hu
  obtain ⟨_, hh0, hhg⟩ := cacg_levels K D floor hf0 hf1
  have hzf := ortho_zero_forcing sc.ortho σk
  have key := leaky_mvdr_leakage_bound nu (frames c) weps (frames_nonneg c)
    (nuW_nonneg hpf (le_trans hh0.le hhg.le) hh0.le c σk) he a σk hpos u' (a σk) hu
    (by rw [hzf, if_pos rfl]) (fun j hj => by rw [hzf, if_neg hj])
  rw [ortho_normSq sc.ortho, mul_one] at key
  exact key

end mvdr

end PbBss.PipelineChain

/-! ### non-vacuity: the two-class scene on the standard basis of `ℂ²` (`scene2`, `a2`, `diagEigh`), `tiny = atiny = 1/100`,
eigenvalue floor `1/10` (`E = 100`, `g = 100/101`, `h = 1/101`, `10·T = 20 ≤ E`), `F = 3` bins, PSD floor `1e-10`, an ARBITRARY
relabelling field `π` and an arbitrary global permutation `g` -/
namespace PbBss.PipelineChain.Example
open PbBss.Align.TwoLevelExample

theorem ex_frames (j : Fin 2) : frames (fun m : Fin 2 => m) j = 1 := by
  fin_cases j <;> simp [frames]

theorem ex_mass (j : Fin 2) : maskMass (100/101) (1/101) (fun m : Fin 2 => m) j = 1 := by
  fin_cases j <;> simp [maskMass, ex_frames, Fin.sum_univ_two] <;> norm_num

theorem ex_mu (k j : Fin 2) :
    muW 1e-10 (100/101) (1/101) (fun m : Fin 2 => m) k j = if j = k then 100/101 else 1/101 := by
  have hm : max (1 : ℝ) 1e-10 = 1 := max_eq_left (by norm_num)
  simp only [muW, ex_mass, hm, div_one]

theorem ex_nu (k j : Fin 2) :
    nuW 1e-10 (100/101) (1/101) (fun m : Fin 2 => m) k j = if j = k then 1/101 else 100/101 := by
  simp only [nuW, Fin.sum_univ_two, ex_mu]
  fin_cases k <;> fin_cases j <;> simp

theorem permAtBin_zero (π : Fin 3 → Equiv.Perm (Fin 2)) : Align.permAtBin π 0 = π 0 := rfl

/-- all hypotheses of `balanced_pipeline_chain` hold; after EVERY number `n ≥ 1` of EM iterations, for EVERY relabelling field
`π` over the three bins and every global permutation `g`, the `k`-th PSD of every bin is `diag` with `100/101` at the
coordinate of the true source `π 0 (g k)` and the leak `1/101` at the other one; the noise PSD has the two values swapped -/
example (n : Nat) (hn : 1 ≤ n) (π : Fin 3 → Equiv.Perm (Fin 2)) (g : Equiv.Perm (Fin 2)) (f : Fin 3) (k d e : Fin 2) :
    let base : Align.Tab3 2 3 2 ℝ := Align.emMask 3 diagEigh (1/100) (1/10) WeightRule.mean ⟨true, 1, tab fun _ => 0⟩ 0
      (fun _ => 1) (fun m : Fin 2 => m) a2 n
    let post : Fin 3 → Fin 2 → Fin 2 → ℝ := toFKT (Align.at3 (Align.permuted base π))
    let m : Fin 2 → Fin 3 → Fin 2 := Align.greedyAligner (1/100) .cos (Align.permuted base π)
    let obs : Fin 3 → Fin 2 → Fin 2 → ℂ := fun _ d t => a2 t d
    pipelinePsd 1e-10 obs post m g f k d e
        = (if d = e then (if d = π 0 (g k) then 100/101 else 1/101) else 0) ∧
      noiseFromPsd (pipelinePsd 1e-10 obs post m g) f k d e
        = (if d = e then (if d = π 0 (g k) then 1/101 else 100/101) else 0) := by
  intro base post m obs
  have key := balanced_pipeline_chain (K := 1) (F := 3) diagEigh (1/100) (1/10) WeightRule.mean
    ⟨true, 1, tab fun _ => 0⟩ 0 (fun _ => 1) scene2 (eighOn2 _) (by norm_num) (by norm_num) (by norm_num) (by norm_num)
    (by norm_num) rfl 1 (by norm_num) (fun k => by fin_cases k <;> simp [classMass]) n hn
    (by rw [ratioE_tenth]; norm_num) (1/100) (by rw [cacgG_tenth]; norm_num) π g 1e-10 f k d e
  rw [cacgG_tenth, cacgH_tenth, permAtBin_zero] at key
  obtain ⟨k1, k2⟩ := key
  refine ⟨k1.trans ?_, k2.trans ?_⟩ <;> clear k1 k2 <;> beta_reduce
  · generalize (π 0) (g k) = q
    simp only [ex_mu, ex_frames]
    fin_cases q <;> fin_cases d <;> fin_cases e <;> simp [a2]
  · generalize (π 0) (g k) = q
    simp only [ex_nu, ex_frames]
    fin_cases q <;> fin_cases d <;> fin_cases e <;> simp [a2]

theorem ex_noiseEps (q : Fin 2) : noiseEps (fun _ : Fin 2 => (1 : ℝ)) q = 1 := by
  fin_cases q <;> simp [noiseEps, vsum_eq_sum, Fin.sum_univ_two]

/-- all hypotheses of `balanced_pipeline_chain_mvdr` hold with white noise `weps = 1` per class (`ε = 1`): the matrix the
chain hands to the solver is `diag` with `1/101 + 1` at the coordinate of the true target `σ k = π 0 (g k)` and `100/101 + 1` at
the other one, the solver contract on it is met by `u' = (101/102)·a (σ k)`, hence the MVDR vector passes the target with
power `n_{σk} = 1` and its leak-weighted interference plus white-noise gain is at most `ε = 1` -/
example (n : Nat) (hn : 1 ≤ n) (π : Fin 3 → Equiv.Perm (Fin 2)) (g : Equiv.Perm (Fin 2)) (f : Fin 3) (k : Fin 2) :
    let base : Align.Tab3 2 3 2 ℝ := Align.emMask 3 diagEigh (1/100) (1/10) WeightRule.mean ⟨true, 1, tab fun _ => 0⟩ 0
      (fun _ => 1) (fun m : Fin 2 => m) a2 n
    let post : Fin 3 → Fin 2 → Fin 2 → ℝ := toFKT (Align.at3 (Align.permuted base π))
    let m : Fin 2 → Fin 3 → Fin 2 := Align.greedyAligner (1/100) .cos (Align.permuted base π)
    let obs : Fin 3 → Fin 2 → Fin 2 → ℂ := fun _ d t => a2 t d
    let σk : Fin 2 := π 0 (g k)
    let nu : Fin 2 → ℝ := nuW 1e-10 (100/101) (1/101) (fun m : Fin 2 => m) σk
    let Φ : Matrix (Fin 2) (Fin 2) ℂ := Matrix.of fun d e =>
      noiseFromPsd (pipelinePsd 1e-10 obs post m g) f k d e + if d = e then (1 : ℂ) else 0
    let u' : Fin 2 → ℂ := fun d => (101/102) * a2 σk d
    Φ *ᵥ u' = a2 σk ∧
      outPower (frames fun m : Fin 2 => m) a2 (mvdrFromSolve (α := ℝ) (a2 σk) u') σk = 1 ∧
      interference (leakPow nu (frames fun m : Fin 2 => m) σk) a2 (mvdrFromSolve (α := ℝ) (a2 σk) u') σk
          + normSq (α := ℝ) (mvdrFromSolve (α := ℝ) (a2 σk) u') ≤ 1 := by
  intro base post m obs σk nu Φ u'
  have key := balanced_pipeline_chain_mvdr (K := 1) (F := 3) diagEigh (1/100) (1/10) WeightRule.mean
    ⟨true, 1, tab fun _ => 0⟩ 0 (fun _ => 1) scene2 (eighOn2 _) (by norm_num) (by norm_num) (by norm_num) (by norm_num)
    (by norm_num) rfl 1 (by norm_num) (fun k => by fin_cases k <;> simp [classMass]) n hn
    (by rw [ratioE_tenth]; norm_num) (1/100) (by rw [cacgG_tenth]; norm_num) π g 1e-10 (by norm_num)
    (fun _ => 1) (fun _ => zero_le_one) f k (by rw [ex_noiseEps]; norm_num) u'
  rw [cacgG_tenth, cacgH_tenth, permAtBin_zero] at key
  simp only [ex_noiseEps, ex_frames, Complex.ofReal_one, one_mul] at key
  obtain ⟨hΦ, himp⟩ := key
  have hsolve : Φ *ᵥ u' = a2 σk := by
    have hΦ' : Φ = _ := hΦ
    rw [hΦ']
    funext d
    simp only [mulVec, dotProduct, leakyNoisePsd, Matrix.of_apply, ex_noiseEps, Fin.sum_univ_two, ex_nu, ex_frames, u', σk]
    generalize (π 0) (g k) = q
    fin_cases q <;> fin_cases d <;> simp [a2] <;> norm_num
  exact ⟨hsolve, himp hsolve⟩

end PbBss.PipelineChain.Example

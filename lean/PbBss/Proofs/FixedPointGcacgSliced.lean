import PbBss.Proofs.FixedPointGcacg
/-! GCACGMM as it is instantiated for the driver: the spatial stream `sliced` over `F` frequency bins (one cACG component
per class AND bin, fitted on the observations of that bin), one spherical Gaussian per class tied over all bins
(`prodFamily (sliced (cacgFamily …)) (sphFamily …)`).  The `n`-step fixed-point theorem of `FixedPointGcacg.lean` in this
setting: per-bin prototypes `a f`, observation `n` lies in bin `bin n` and is `((bin n, z n), y n)` with
`z n = u_n · a (bin n) (c n)`, `y n = b (c n)`; equal class masses inside every bin. -/
open PbBss PbBss.Em Finset PbBss.FixedPoint PbBss.FixedPoint.CacgChain PbBss.FixedPoint.Gcacg

namespace PbBss.FixedPoint.GcacgSliced

local notation "conj" => starRingEnd ℂ

/-! ### the per-bin scene -/

/-- noise-free orthonormal scene with one set of prototypes per frequency bin -/
structure BinScene {F K N D : Nat} (a : Fin F → Fin K → Fin D → ℂ) (bin : Fin N → Fin F) (c : Fin N → Fin K)
    (z : Fin N → Fin D → ℂ) : Prop where
  ortho : ∀ f, OrthoProto (a f)
  obs : ∃ u : Fin N → ℂ, (∀ n, Complex.normSq (u n) = 1) ∧ ∀ n d, z n d = u n * a (bin n) (c n) d

section scene
variable {F K N D : Nat} {a : Fin F → Fin K → Fin D → ℂ} {bin : Fin N → Fin F} {c : Fin N → Fin K}
  {z : Fin N → Fin D → ℂ}

/-- one observation as a scene of its own (prototypes of its bin) -/
theorem BinScene.one (sc : BinScene a bin c z) (n : Fin N) :
    Scene (a (bin n)) (fun _ : Fin 1 => c n) (fun _ => z n) := by
  obtain ⟨u, hu, hz⟩ := sc.obs
  exact ⟨sc.ortho _, fun _ => u n, fun _ => hu n, fun _ d => hz n d⟩

/-- the data of bin `f`, the slots of the other bins filled with prototypes of bin `f` (they carry weight 0) -/
theorem BinScene.fill (sc : BinScene a bin c z) (f : Fin F) :
    Scene (a f) c (fun n => if bin n = f then z n else a f (c n)) := by
  obtain ⟨u, hu, hz⟩ := sc.obs
  refine ⟨sc.ortho f, fun n => if bin n = f then u n else 1, fun n => ?_, fun n d => ?_⟩
  · show Complex.normSq (if bin n = f then u n else 1) = 1
    split
    · exact hu n
    · simp
  · show (if bin n = f then z n else a f (c n)) d = (if bin n = f then u n else 1) * a f (c n) d
    by_cases h : bin n = f
    · simp only [h, if_true]
      rw [hz n d, h]
    · simp [h]

end scene

/-- class masses add up over the bins -/
theorem classMass_bins {F K N : Nat} (bin : Fin N → Fin F) (c : Fin N → Fin K) (s : Fin N → ℝ) (k : Fin K) :
    ∑ f, classMass c (fun n => if bin n = f then s n else 0) k = classMass c s k := by
  unfold classMass
  rw [Finset.sum_comm]
  refine Finset.sum_congr rfl fun n _ => ?_
  split
  · simp
  · simp

/-! ### the cACG M-step of one bin -/

/-- the scatter reads an observation only where its weight is non-zero -/
theorem cacgScatter_congr_z {N D : Nat} (tiny : ℝ) (w q : Fin N → ℝ) (z z' : Fin N → Fin (D+1) → ℂ)
    (h : ∀ n, w n ≠ 0 → z n = z' n) :
    cacgScatter CovNorm.eigenvalue tiny N w q z = cacgScatter CovNorm.eigenvalue tiny N w q z' := by
  have ho : outerSum (fun n => w n / max (q n) (((10 : Nat) : ℝ) * tiny)) z
      = outerSum (fun n => w n / max (q n) (((10 : Nat) : ℝ) * tiny)) z' := by
    unfold outerSum
    congr 1
    funext d e
    congr 1
    funext n
    by_cases hw : w n = 0
    · simp [hw]
    · rw [h n hw]
  unfold cacgScatter
  simp only [ho]

/-- from a matrix `(D+1)·(g·a_k a_kᴴ + (h/ρ)·Σ_{j≠k} a_j a_jᴴ)` with `h/ρ ≤ floor·g` the `eigh` contract and
`from_covariance` produce the spiked spectrum on `a_k` (the second half of `cacgMstep_two_level`) -/
theorem spiked_of_two_level_matrix {K D : Nat} {a : Fin (K+1) → Fin (D+1) → ℂ} (ha : OrthoProto a)
    (eigh : Tab (D+1) (Tab (D+1) ℂ) → Tab (D+1) (Tab (D+1) ℂ) × Tab (D+1) ℝ) (tiny floor : ℝ)
    (htiny : 0 < tiny) (hf1 : floor < 1) (A : Tab (D+1) (Tab (D+1) ℂ))
    (g h ρ : ℝ) (hg : tiny ≤ g) (hh : 0 ≤ h) (hρ : 1 ≤ ρ) (hdom : h / ρ ≤ floor * g) (k : Fin (K+1))
    (hAm : ∀ d e, rd2 A d e
      = ∑ j, (((((D+1 : ℕ) : ℝ)) * (if j = k then g else h / ρ) : ℝ) : ℂ) * (a j d * conj (a j e)))
    (hspec : EighSpec A (eigh A)) :
    Spiked (⟨(eigh A).1, cacgEigvals CovNorm.eigenvalue floor tiny (rd (eigh A).2)⟩ : Cacg ℝ ℂ (D+1)) (a k) floor := by
  have hg0 : 0 < g := lt_of_lt_of_le htiny hg
  have hρ0 : 0 < ρ := lt_of_lt_of_le one_pos hρ
  have hD : (1:ℝ) ≤ ((D+1 : ℕ) : ℝ) := by push_cast; linarith [Nat.cast_nonneg (α := ℝ) D]
  have hD0 : (0:ℝ) < ((D+1 : ℕ) : ℝ) := lt_of_lt_of_le one_pos hD
  set m : Fin (K+1) → ℝ := fun j => ((D+1 : ℕ) : ℝ) * (if j = k then g else h / ρ) with hm
  have hmk : m k = ((D+1 : ℕ) : ℝ) * g := by simp [hm]
  have hmj : ∀ j, j ≠ k → m j = ((D+1 : ℕ) : ℝ) * (h / ρ) := fun j hj => by simp [hm, hj]
  have hhρ : 0 ≤ h / ρ := div_nonneg hh hρ0.le
  have hlt : h / ρ < g := lt_of_le_of_lt hdom (by nlinarith)
  obtain ⟨t, p, hp, hcol, hevt, hevB⟩ := eigh_dominant ha m A hAm k (((D+1 : ℕ) : ℝ) * (h / ρ))
    (mul_nonneg hD0.le hhρ) (by rw [hmk]; exact mul_lt_mul_of_pos_left hlt hD0)
    (fun j hj => by rw [hmj j hj]; exact mul_nonneg hD0.le hhρ) (fun j hj => (hmj j hj).le)
    (by rw [hmk]; exact mul_pos hD0 hg0) (eigh A) hspec
  have hmkpos : 0 < m k := by rw [hmk]; exact mul_pos hD0 hg0
  have hBle : ((D+1 : ℕ) : ℝ) * (h / ρ) ≤ floor * m k := by
    rw [hmk]
    calc ((D+1 : ℕ) : ℝ) * (h / ρ) ≤ ((D+1 : ℕ) : ℝ) * (floor * g) := mul_le_mul_of_nonneg_left hdom hD0.le
      _ = floor * (((D+1 : ℕ) : ℝ) * g) := by ring
  have hmx : vmax (rd (eigh A).2) = m k := by
    apply vmax_eq_of _ _ _ t hevt
    intro e
    by_cases he : e = t
    · rw [he, hevt]
    · refine le_trans (hevB e he).2 (le_trans hBle ?_)
      nlinarith
  have htm : tiny ≤ m k := by rw [hmk]; nlinarith
  refine ⟨hspec.unitary, t, p, hp, hcol, ?_, ?_⟩
  · show rd (cacgEigvals CovNorm.eigenvalue floor tiny (rd (eigh A).2)) t = 1
    simp only [cacgEigvals, rd_tab, hmx, hevt]
    rw [max_eq_left htm, div_self hmkpos.ne', max_eq_left hf1.le]
  · intro e he
    show rd (cacgEigvals CovNorm.eigenvalue floor tiny (rd (eigh A).2)) e = floor
    simp only [cacgEigvals, rd_tab, hmx]
    rw [max_eq_left htm]
    apply max_eq_right
    rw [div_le_iff₀ hmkpos]
    exact le_trans (hevB e he).2 hBle

/-- **cACG M-step of bin `f`** (the weights of the other bins are 0) on a two-level affiliation with two-level
quadratic forms, equal class masses `Sf` inside the bin: spiked on the bin's prototype `a f k` -/
theorem cacgMstep_two_level_bin {F K N D : Nat} {a : Fin F → Fin (K+1) → Fin (D+1) → ℂ} {bin : Fin N → Fin F}
    {c : Fin N → Fin (K+1)} {z : Fin N → Fin (D+1) → ℂ} (sc : BinScene a bin c z)
    (eigh : Tab (D+1) (Tab (D+1) ℂ) → Tab (D+1) (Tab (D+1) ℂ) × Tab (D+1) ℝ) (tiny floor : ℝ)
    (heigh : EighOn eigh tiny z) (htiny : 0 < tiny) (h10 : ((10 : ℕ) : ℝ) * tiny ≤ 1)
    (hf1 : floor < 1) (s : Fin N → ℝ) (f : Fin F) (Sf : ℝ) (hS : tiny ≤ Sf)
    (hbal : ∀ k, classMass c (fun n => if bin n = f then s n else 0) k = Sf)
    (g h ρ : ℝ) (hgh : g + K * h = 1) (hg : tiny ≤ g) (hh : 0 ≤ h) (hρ : 1 ≤ ρ) (hdom : h / ρ ≤ floor * g)
    (k : Fin (K+1)) :
    Spiked (cacgMstep eigh CovNorm.eigenvalue floor tiny N
      (fun n => if bin n = f then (if c n = k then g else h) * s n else 0)
      (fun n => if c n = k then 1 else ρ) z) (a f k) floor := by
  set s' : Fin N → ℝ := fun n => if bin n = f then s n else 0 with hs'
  have hw : (fun n => if bin n = f then (if c n = k then g else h) * s n else 0)
      = fun n => (if c n = k then g else h) * s' n := by
    funext n
    simp only [hs']
    split <;> simp
  rw [hw]
  set w : Fin N → ℝ := fun n => (if c n = k then g else h) * s' n with hwd
  set q : Fin N → ℝ := fun n => if c n = k then 1 else ρ with hq
  set z' : Fin N → Fin (D+1) → ℂ := fun n => if bin n = f then z n else a f (c n) with hz'
  have hS0 : 0 < Sf := lt_of_lt_of_le htiny hS
  have hρ0 : 0 < ρ := lt_of_lt_of_le one_pos hρ
  have hcz : cacgScatter CovNorm.eigenvalue tiny N w q z = cacgScatter CovNorm.eigenvalue tiny N w q z' := by
    refine cacgScatter_congr_z tiny w q z z' fun n hn => ?_
    have hb : bin n = f := by
      by_contra hne
      apply hn
      simp [hwd, hs', hne]
    simp [hz', hb]
  have hsum : ∑ n, w n = Sf := sum_two_level c s' Sf hbal g h hgh k
  have heff : (fun n => w n / max (q n) (((10 : ℕ) : ℝ) * tiny)) = fun n => (if c n = k then g else h / ρ) * s' n := by
    funext n
    simp only [hwd, hq]
    by_cases hc : c n = k
    · simp only [hc, if_true]; rw [max_eq_left h10, div_one]
    · simp only [hc, if_false]; rw [max_eq_left (le_trans h10 hρ)]; ring
  have hAm : ∀ d e, rd2 (cacgScatter CovNorm.eigenvalue tiny N w q z) d e
      = ∑ j, (((((D+1 : ℕ) : ℝ)) * (if j = k then g else h / ρ) : ℝ) : ℂ) * (a f j d * conj (a f j e)) := by
    intro d e
    rw [hcz, cacgScatter_scene (sc.fill f) tiny w q d e]
    refine Finset.sum_congr rfl fun j _ => ?_
    rw [heff, classMass_two_level, hbal, hsum, max_eq_left hS]
    congr 2
    field_simp
  exact spiked_of_two_level_matrix (sc.ortho f) eigh tiny floor htiny hf1 _ g h ρ hg hh hρ hdom k hAm (heigh w q)

/-! ### the invariant, the E-step and the M-step -/
section chain
variable {F K N D E : Nat} {a : Fin F → Fin (K+1) → Fin (D+1) → ℂ} {b : Fin (K+1) → Fin E → ℝ}
  {bin : Fin N → Fin F} {c : Fin N → Fin (K+1)} {z : Fin N → Fin (D+1) → ℂ} {y : Fin N → Fin E → ℝ}
  (eigh : Tab (D+1) (Tab (D+1) ℂ) → Tab (D+1) (Tab (D+1) ℂ) × Tab (D+1) ℝ) (tiny floor tinyG log2pi : ℝ)
  (rule : WeightRule) (tie : Tying N) (eps : ℝ) (s : Fin N → ℝ)

/-- the family of GCACGMM as the driver instantiates it: per-bin cACG components, one Gaussian tied over the bins -/
noncomputable abbrev gfamS (F D E : Nat)
    (eigh : Tab (D+1) (Tab (D+1) ℂ) → Tab (D+1) (Tab (D+1) ℂ) × Tab (D+1) ℝ) (tiny floor tinyG log2pi : ℝ) :
    Family (Tab F (Cacg ℝ ℂ (D+1)) × SphG ℝ E) ((Fin F × (Fin (D+1) → ℂ)) × (Fin E → ℝ)) ℝ :=
  prodFamily (sliced (F := F) (cacgFamily D eigh CovNorm.eigenvalue floor tiny)) (sphFamily E tinyG log2pi)

/-- the invariant: the cACG component of every class and bin spiked on the bin's prototype, the Gaussian components
balanced at levels `(g, h)` with common variance `v`, uniform mixture weights -/
def GInvS (a : Fin F → Fin (K+1) → Fin (D+1) → ℂ) (b : Fin (K+1) → Fin E → ℝ) (floor : ℝ)
    (θ : Mixture (Tab F (Cacg ℝ ℂ (D+1)) × SphG ℝ E) ℝ (K+1) N) (g h v : ℝ) : Prop :=
  (∀ k f, Spiked (rd (θ.c k).1 f) (a f k) floor) ∧ SBalanced b (sndMix θ) g h v
    ∧ ∀ k n, θ.w k n = 1 / ((K+1 : ℕ) : ℝ)

/-- quadratic forms of a model satisfying the invariant: `1` on the true class, `1/floor` elsewhere -/
theorem aux_ginvS (sc : BinScene a bin c z) (ht1 : tiny ≤ 1) (hf0 : 0 < floor) (hf1 : floor < 1)
    (θ : Mixture (Tab F (Cacg ℝ ℂ (D+1)) × SphG ℝ E) ℝ (K+1) N) (g h v : ℝ) (hinv : GInvS a b floor θ g h v)
    (k : Fin (K+1)) (n : Fin N) :
    eAux (gfamS F D E eigh tiny floor tinyG log2pi) θ (fun n => ((bin n, z n), y n)) k n
      = if c n = k then 1 else 1 / floor :=
  cacgQuad_spiked (sc.one n) tiny floor hf0 hf1 ht1 (rd (θ.c k).1 (bin n)) k (hinv.1 k (bin n)) (0 : Fin 1)

/-- joint log-density of a model satisfying the invariant -/
theorem logPdf_ginvS (sc : BinScene a bin c z) (hb : OrthoProtoR b) (hy : ∀ n d, y n d = b (c n) d) (ht1 : tiny ≤ 1)
    (hf0 : 0 < floor) (hf1 : floor < 1) (θ : Mixture (Tab F (Cacg ℝ ℂ (D+1)) × SphG ℝ E) ℝ (K+1) N) (g h v : ℝ)
    (hinv : GInvS a b floor θ g h v) (hv : 0 < v) (k : Fin (K+1)) (n : Fin N) :
    (gfamS F D E eigh tiny floor tinyG log2pi).logPdf (θ.c k) ((bin n, z n), y n)
      = gBase K D E floor log2pi g h v
        + (if c n = k then -(((D+1 : ℕ) : ℝ) * Real.log floor) + (g - h) / v else 0) := by
  show cacgLogPdf tiny (rd (θ.c k).1 (bin n)) (z n) + sphLogPdf log2pi (θ.c k).2 (y n) = _
  have h1 : cacgLogPdf tiny (rd (θ.c k).1 (bin n)) (z n)
      = (if c n = k then -(((D+1 : ℕ) : ℝ) * Real.log floor) else 0)
        + (((D+1 : ℕ) : ℝ) * Real.log floor - (((D+1 : ℕ) : ℝ) - 1) * Real.log floor) :=
    cacgLogPdf_spiked (sc.one n) tiny floor hf0 hf1 ht1 (rd (θ.c k).1 (bin n)) k (hinv.1 k (bin n)) (0 : Fin 1)
  have h2 := sphLogPdf_balanced hb hy log2pi (sndMix θ) g h v hinv.2.1 hv k n
  rw [sndMix_c] at h2
  rw [h1, h2]
  unfold gBase
  split <;> ring

/-- posterior of a model satisfying the invariant -/
theorem eStep_ginvS (sc : BinScene a bin c z) (hb : OrthoProtoR b) (hy : ∀ n d, y n d = b (c n) d) (htiny : 0 < tiny)
    (ht1 : tiny ≤ 1) (ht : tiny ≤ 1 / ((K+1 : ℕ) : ℝ)) (hf0 : 0 < floor) (hf1 : floor < 1)
    (θ : Mixture (Tab F (Cacg ℝ ℂ (D+1)) × SphG ℝ E) ℝ (K+1) N) (g h v : ℝ) (hinv : GInvS a b floor θ g h v)
    (hv : 0 < v) (k : Fin (K+1)) (n : Fin N) :
    eStep tiny (gfamS F D E eigh tiny floor tinyG log2pi) θ (fun n => ((bin n, z n), y n)) k n
      = if c n = k then ratioE D floor * Real.exp ((g - h) / v) / (ratioE D floor * Real.exp ((g - h) / v) + K)
        else 1 / (ratioE D floor * Real.exp ((g - h) / v) + K) := by
  have hRpos : 0 < ratioE D floor * Real.exp ((g - h) / v) :=
    mul_pos (lt_trans one_pos (one_lt_ratioE D floor hf0 hf1)) (Real.exp_pos _)
  refine eStep_of_ratio tiny htiny ht _ θ _ c hinv.2.2 _ (gBase K D E floor log2pi g h v) hRpos n (fun j => ?_) k
  show Real.exp ((gfamS F D E eigh tiny floor tinyG log2pi).logPdf (θ.c j) ((bin n, z n), y n)) = _
  rw [logPdf_ginvS eigh tiny floor tinyG log2pi sc hb hy ht1 hf0 hf1 θ g h v hinv hv j n, Real.exp_add, mul_comm]
  split
  · rw [Real.exp_add]; rfl
  · rw [Real.exp_zero]

/-- the M-step on a two-level affiliation with two-level quadratic forms establishes the invariant -/
theorem mStep_ginvS (sc : BinScene a bin c z) (hb : OrthoProtoR b) (hy : ∀ n d, y n d = b (c n) d)
    (heigh : EighOn eigh tiny z) (htiny : 0 < tiny) (h10 : ((10 : ℕ) : ℝ) * tiny ≤ 1) (hf1 : floor < 1)
    (htie : tie.uniform = true) (Sb : Fin F → ℝ) (hSb : ∀ f, tiny ≤ Sb f)
    (hbalb : ∀ f k, classMass c (fun n => if bin n = f then s n else 0) k = Sb f)
    (hS : 0 < ∑ f, Sb f) (hguard : tinyG ≤ ∑ f, Sb f)
    (g h ρ : ℝ) (hgh : g + K * h = 1) (hg : tiny ≤ g) (hh : 0 ≤ h) (hρ : 1 ≤ ρ) (hdom : h / ρ ≤ floor * g)
    (aux : Fin (K+1) → Fin N → ℝ) (haux : ∀ k n, aux k n = if c n = k then 1 else ρ) :
    GInvS a b floor (mStep (gfamS F D E eigh tiny floor tinyG log2pi) rule tie eps s
      (fun n => ((bin n, z n), y n)) (twoLevel c g h) aux) g h (sphVar K E g h) := by
  have hbal : ∀ k, classMass c s k = ∑ f, Sb f := fun k => by
    rw [← classMass_bins bin c s k]
    exact Finset.sum_congr rfl fun f _ => hbalb f k
  refine ⟨fun k f => ?_, fun k => ?_, uniform_w_gen rule tie eps s _ _ htie _ aux⟩
  · rw [mStep_c]
    show Spiked (rd (tab fun f => cacgMstep eigh CovNorm.eigenvalue floor tiny N
      (fun n => if bin n = f then twoLevel c g h k n * s n else 0) (aux k) z) f) (a f k) floor
    rw [rd_tab]
    have e2 : aux k = fun n => if c n = k then 1 else ρ := by funext n; rw [haux]
    rw [e2]
    exact cacgMstep_two_level_bin sc eigh tiny floor heigh htiny h10 hf1 s f (Sb f) (hSb f) (hbalb f) g h ρ hgh hg hh
      hρ hdom k
  · rw [sndMix_c, mStep_c]
    exact sphMstep_twoLevel hb hy tinyG s (∑ f, Sb f) hS hbal g h hgh hguard k (fun _ => 1)

/-- **the invariant holds at every iterate of `Em.fit`** (GCACGMM with per-bin cACG components) -/
theorem gcacg_sliced_chain (sc : BinScene a bin c z) (hb : OrthoProtoR b) (hy : ∀ n d, y n d = b (c n) d)
    (hK : 1 ≤ K) (heigh : EighOn eigh tiny z) (htiny : 0 < tiny) (h10 : ((10 : ℕ) : ℝ) * tiny ≤ 1)
    (ht : tiny ≤ 1 / ((K+1 : ℕ) : ℝ)) (hf0 : 0 < floor) (hf1 : floor < 1) (htie : tie.uniform = true)
    (Sb : Fin F → ℝ) (hSb : ∀ f, tiny ≤ Sb f)
    (hbalb : ∀ f k, classMass c (fun n => if bin n = f then s n else 0) k = Sb f)
    (hS : 0 < ∑ f, Sb f) (hguard : tinyG ≤ ∑ f, Sb f)
    (g₀ h₀ : ℝ) (h0 : LevOkG K floor (g₀, h₀)) (i : Nat) :
    GInvS a b floor
      (fit tiny (gfamS F D E eigh tiny floor tinyG log2pi) rule tie eps s (fun n => ((bin n, z n), y n)) (i+1)
        (twoLevel c g₀ h₀))
      (gLevSeq D E K floor g₀ h₀ i).1 (gLevSeq D E K floor g₀ h₀ i).2
      (sphVar K E (gLevSeq D E K floor g₀ h₀ i).1 (gLevSeq D E K floor g₀ h₀ i).2) := by
  have hE := dim_pos_of_ortho hb
  have ht1 : tiny ≤ 1 := by
    have : (0:ℝ) ≤ ((10 : ℕ) : ℝ) * tiny - tiny := by push_cast; linarith
    linarith
  induction i with
  | zero =>
    rw [fit_one]
    exact mStep_ginvS eigh tiny floor tinyG log2pi rule tie eps s sc hb hy heigh htiny h10 hf1 htie Sb hSb hbalb hS
      hguard g₀ h₀ 1 h0.1 (le_trans ht (h0.ge_inv hf0 hf1)) h0.2.1.le le_rfl (by rw [div_one]; exact h0.2.2) _
      (fun k n => by simp)
  | succ i ih =>
    rw [fit_succ, emStep_eq]
    have hok := levOkG_seq D E K hK hE floor hf0 hf1 g₀ h₀ h0 i
    have hok' := levOkG_seq D E K hK hE floor hf0 hf1 g₀ h₀ h0 (i+1)
    have hv := (hok.toS hf0 hf1).var_pos E hK hE
    have hγ : eStep tiny (gfamS F D E eigh tiny floor tinyG log2pi)
        (fit tiny (gfamS F D E eigh tiny floor tinyG log2pi) rule tie eps s (fun n => ((bin n, z n), y n)) (i+1)
          (twoLevel c g₀ h₀)) (fun n => ((bin n, z n), y n))
        = twoLevel c (gLevSeq D E K floor g₀ h₀ (i+1)).1 (gLevSeq D E K floor g₀ h₀ (i+1)).2 := by
      funext k n
      rw [eStep_ginvS eigh tiny floor tinyG log2pi sc hb hy htiny ht1 ht hf0 hf1 _ _ _ _ ih hv k n]
      rfl
    rw [hγ]
    have hs' := (hok'.toS hf0 hf1).2.2
    refine mStep_ginvS eigh tiny floor tinyG log2pi rule tie eps s sc hb hy heigh htiny h10 hf1 htie Sb hSb hbalb hS
      hguard _ _ (1 / floor) hok'.1 (le_trans ht (hok'.ge_inv hf0 hf1)) hok'.2.1.le ?_ ?_ _
      (fun k n => aux_ginvS eigh tiny floor tinyG log2pi sc ht1 hf0 hf1 _ _ _ _ ih k n)
    · rw [le_div_iff₀ hf0]; linarith
    · have e : ∀ x : ℝ, x / (1 / floor) = floor * x := fun x => by field_simp
      rw [e]
      exact mul_le_mul_of_nonneg_left hs'.le hf0.le

theorem ginvS_argmax (sc : BinScene a bin c z) (hb : OrthoProtoR b) (hy : ∀ n d, y n d = b (c n) d) (htiny : 0 < tiny)
    (ht1 : tiny ≤ 1) (ht : tiny ≤ 1 / ((K+1 : ℕ) : ℝ)) (hf0 : 0 < floor) (hf1 : floor < 1)
    (θ : Mixture (Tab F (Cacg ℝ ℂ (D+1)) × SphG ℝ E) ℝ (K+1) N) (g h v : ℝ) (hinv : GInvS a b floor θ g h v)
    (hlt : h < g) (hv : 0 < v) (n : Fin N) :
    vargmax (fun k => eStep tiny (gfamS F D E eigh tiny floor tinyG log2pi) θ (fun n => ((bin n, z n), y n)) k n)
      = c n := by
  refine vargmax_of_strict _ (c n) fun j hj => ?_
  rw [eStep_ginvS eigh tiny floor tinyG log2pi sc hb hy htiny ht1 ht hf0 hf1 θ g h v hinv hv,
    eStep_ginvS eigh tiny floor tinyG log2pi sc hb hy htiny ht1 ht hf0 hf1 θ g h v hinv hv,
    if_pos rfl, if_neg (Ne.symm hj)]
  have hE : 1 < ratioE D floor := one_lt_ratioE D floor hf0 hf1
  have hx : 1 ≤ Real.exp ((g - h) / v) := Real.one_le_exp (div_pos (by linarith) hv).le
  have hR : 1 < ratioE D floor * Real.exp ((g - h) / v) := by nlinarith
  have h3 : 0 < ratioE D floor * Real.exp ((g - h) / v) + K := by positivity
  exact div_lt_div_of_pos_right hR h3

end chain

/-! ### the theorem -/
section main
variable {F K N D E : Nat} {a : Fin F → Fin (K+1) → Fin (D+1) → ℂ} {b : Fin (K+1) → Fin E → ℝ}
  {bin : Fin N → Fin F} {c : Fin N → Fin (K+1)} {z : Fin N → Fin (D+1) → ℂ} {y : Fin N → Fin E → ℝ}

/-- **GCACGMM with per-bin cACG components (`sliced`) and one Gaussian tied over the bins: the true partition is a
stable EM fixed point of the balanced noise-free scene for EVERY number of iterations `n ≥ 1`.**
As `fixed_point_gcacg_balanced`, with: `F ≥ 1` frequency bins, observation `n` lies in bin `bin n`; per-bin complex
orthonormal prototypes `a f` (`BinScene`: `z n = u_n · a (bin n) (c n)`, `|u_n| = 1`); inside every bin `f` all classes
have the same saliency mass `Sb f ≥ tiny` (so every class has the total mass `Σ_f Sb f`, and `tinyG ≤ Σ_f Sb f`);
`eigh` under its contract on every scatter matrix of the data.  Conclusion for every `n ≥ 1`: levels
`g + K h = 1`, `0 < h ≤ floor·g`, `h < g`, `v = sphVar K E g h > 0`; the cACG component of every class `k` and bin `f` is
spiked on `a f k` with spectrum `(1, floor, …, floor)`; Gaussian means `g·b_k + h·Σ_{j≠k} b_j` with common variance `v`,
strictly closer to their own prototype; arg-max of the E-step = the true class at every observation. -/
theorem fixed_point_gcacg_sliced_balanced (sc : BinScene a bin c z) (hb : OrthoProtoR b)
    (hy : ∀ n d, y n d = b (c n) d) (hK : 1 ≤ K) (hF : 0 < F)
    (eigh : Tab (D+1) (Tab (D+1) ℂ) → Tab (D+1) (Tab (D+1) ℂ) × Tab (D+1) ℝ)
    (tiny floor tinyG log2pi : ℝ) (heigh : EighOn eigh tiny z) (htiny : 0 < tiny)
    (h10 : ((10 : ℕ) : ℝ) * tiny ≤ 1) (ht : tiny ≤ 1 / ((K+1 : ℕ) : ℝ)) (hf0 : 0 < floor) (hf1 : floor < 1)
    (rule : WeightRule) (tie : Tying N) (htie : tie.uniform = true) (eps : ℝ) (s : Fin N → ℝ)
    (Sb : Fin F → ℝ) (hSb : ∀ f, tiny ≤ Sb f)
    (hbalb : ∀ f k, classMass c (fun n => if bin n = f then s n else 0) k = Sb f) (hguard : tinyG ≤ ∑ f, Sb f)
    (g₀ h₀ : ℝ) (hgh : g₀ + K * h₀ = 1) (hh0 : 0 < h₀) (hlt : h₀ ≤ floor * g₀) (n : Nat) (hn : 1 ≤ n) :
    let fam := prodFamily (sliced (F := F) (cacgFamily D eigh CovNorm.eigenvalue floor tiny)) (sphFamily E tinyG log2pi)
    let yz : Fin N → (Fin F × (Fin (D+1) → ℂ)) × (Fin E → ℝ) := fun m => ((bin m, z m), y m)
    let θ := fit tiny fam rule tie eps s yz n (twoLevel c g₀ h₀)
    let g := (gLevSeq D E K floor g₀ h₀ (n-1)).1
    let h := (gLevSeq D E K floor g₀ h₀ (n-1)).2
    let v := sphVar K E g h
    (g + K * h = 1 ∧ 0 < h ∧ h ≤ floor * g)
      ∧ h < g ∧ 0 < v
      ∧ (∀ k f, Spiked (rd (θ.c k).1 f) (a f k) floor)
      ∧ (∀ k, (∀ d, rd (θ.c k).2.mean d = ∑ j, (if j = k then g else h) * b j d) ∧ (θ.c k).2.var = v)
      ∧ (∀ k j, j ≠ k → ∑ d, (rd (θ.c k).2.mean d - b k d) ^ 2 < ∑ d, (rd (θ.c k).2.mean d - b j d) ^ 2)
      ∧ ∀ obs, vargmax (fun k => eStep tiny fam θ yz k obs) = c obs := by
  intro fam yz θ g h v
  obtain ⟨i, rfl⟩ : ∃ i, n = i + 1 := ⟨n - 1, by omega⟩
  have hE := dim_pos_of_ortho hb
  have ht1 : tiny ≤ 1 := by
    have : (0:ℝ) ≤ ((10 : ℕ) : ℝ) * tiny - tiny := by push_cast; linarith
    linarith
  have hS : 0 < ∑ f, Sb f :=
    Finset.sum_pos (fun f _ => lt_of_lt_of_le htiny (hSb f)) ⟨⟨0, hF⟩, Finset.mem_univ _⟩
  have h0 : LevOkG K floor (g₀, h₀) := ⟨hgh, hh0, hlt⟩
  have hok : LevOkG K floor (gLevSeq D E K floor g₀ h₀ i) := levOkG_seq D E K hK hE floor hf0 hf1 g₀ h₀ h0 i
  have hs := hok.toS hf0 hf1
  have hv : 0 < v := hs.var_pos E hK hE
  have hinv : GInvS a b floor θ g h v :=
    gcacg_sliced_chain eigh tiny floor tinyG log2pi rule tie eps s sc hb hy hK heigh htiny h10 ht hf0 hf1 htie Sb hSb
      hbalb hS hguard g₀ h₀ h0 i
  have hsb : SBalanced b (sndMix θ) g h v := hinv.2.1
  refine ⟨hok, hs.2.2, hv, hinv.1, fun k => ?_, fun k j hj => ?_, fun obs => ?_⟩
  · have := hsb k
    rw [sndMix_c] at this
    exact this
  · have := sbalanced_points hb (sndMix θ) g h v hsb hs.2.2 k j hj
    rw [sndMix_c] at this
    exact this
  · exact ginvS_argmax eigh tiny floor tinyG log2pi sc hb hy htiny ht1 ht hf0 hf1 θ g h v hinv hs.2.2 hv obs

/-! ### a concrete scene (non-vacuity) -/

/-- four observations: bins `0,0,1,1`, classes `0,1,0,1` -/
def bin4 : Fin 4 → Fin 2 := ![0, 0, 1, 1]
def c4 : Fin 4 → Fin 2 := ![0, 1, 0, 1]

theorem binScene4 : BinScene (fun _ : Fin 2 => a2) bin4 c4 (fun n => a2 (c4 n)) :=
  ⟨fun _ => scene2.ortho, fun _ => 1, fun _ => by simp, fun n d => by simp⟩

theorem eighOn4 (tiny : ℝ) : EighOn (D := 1) diagEigh tiny (fun n : Fin 4 => a2 (c4 n)) := by
  intro w q
  refine diagEigh_spec _ (fun d => ((1 + 1 : ℕ) : ℝ)
    * (∑ n, if c4 n = d then w n / max (q n) (((10 : ℕ) : ℝ) * tiny) else 0) / max (∑ n, w n) tiny) ?_
  intro d e
  rw [cacgScatter_eq]
  have h2 : conj (2:ℂ) = 2 := map_ofNat _ 2
  fin_cases d <;> fin_cases e <;> simp [a2, c4, Fin.sum_univ_four, h2] <;> ring

/-- non-vacuity of `fixed_point_gcacg_sliced_balanced`: two bins, two classes, one observation per class and bin on the
standard basis of `ℂ²` (spatial) and of `ℝ²` (spectral), unit saliency, `tiny = 1/100`, `floor = 1/2`, `tinyG = 1/2`,
start `(4/5, 1/5)` — the conclusion for ALL `n ≥ 1` -/
example (n : Nat) (hn : 1 ≤ n) (obs : Fin 4) :
    vargmax (fun k => eStep (1/100)
      (prodFamily (sliced (F := 2) (cacgFamily 1 diagEigh CovNorm.eigenvalue (1/2) (1/100))) (sphFamily 2 (1/2) 0))
      (fit (1/100)
        (prodFamily (sliced (F := 2) (cacgFamily 1 diagEigh CovNorm.eigenvalue (1/2) (1/100))) (sphFamily 2 (1/2) 0))
        WeightRule.tinyFloor ⟨true, 1, tab fun _ => 0⟩ 0 (fun _ => 1)
        (fun m : Fin 4 => ((bin4 m, a2 (c4 m)), a2R (c4 m))) n (twoLevel c4 (4/5) (1/5)))
      (fun m : Fin 4 => ((bin4 m, a2 (c4 m)), a2R (c4 m))) k obs) = c4 obs :=
  (fixed_point_gcacg_sliced_balanced (K := 1) (y := fun m => a2R (c4 m)) binScene4 ortho_a2R (fun _ _ => rfl) le_rfl
    (by norm_num) diagEigh (1/100) (1/2) (1/2) 0 (eighOn4 _) (by norm_num) (by norm_num) (by norm_num) (by norm_num)
    (by norm_num) WeightRule.tinyFloor ⟨true, 1, tab fun _ => 0⟩ rfl 0 (fun _ => 1) (fun _ => 1) (fun _ => by norm_num)
    (fun f k => by fin_cases f <;> fin_cases k <;> simp [classMass, bin4, c4, Fin.sum_univ_four]) (by norm_num)
    (4/5) (1/5) (by norm_num) (by norm_num) (by norm_num) n hn).2.2.2.2.2.2 obs

end main

end PbBss.FixedPoint.GcacgSliced

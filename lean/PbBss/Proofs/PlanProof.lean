import PbBss.Model.Plan
import Mathlib.Tactic

namespace PbBss.Plan

def Covers (l : List (Nat × Nat)) (f : Nat) : Prop := ∃ seg ∈ l, seg.1 ≤ f ∧ f < seg.2

theorem count_lt_iff (n s i : Nat) (hs : 0 < s) : i < (n + s - 1) / s ↔ i * s < n := by
  rw [Nat.lt_iff_add_one_le, Nat.le_div_iff_mul_le hs, Nat.add_mul, Nat.one_mul]
  generalize i * s = m
  omega

theorem mem_rangeUp (a b s x : Nat) (hs : 0 < s) :
    x ∈ rangeUp a b s ↔ ∃ i, x = a + i * s ∧ a + i * s < b := by
  simp only [rangeUp, List.mem_map, List.mem_range, count_lt_iff _ _ _ hs]
  constructor
  · rintro ⟨i, hi, rfl⟩; exact ⟨i, rfl, by omega⟩
  · rintro ⟨i, rfl, hi⟩; exact ⟨i, by omega, rfl⟩

theorem mem_rangeDown (hi s x : Nat) (hs : 0 < s) :
    x ∈ rangeDown hi s ↔ ∃ i, x = hi - s - i * s ∧ i * s < hi - s := by
  simp only [rangeDown, List.mem_map, List.mem_range, count_lt_iff _ _ _ hs]
  constructor
  · rintro ⟨i, hi', rfl⟩; exact ⟨i, rfl, hi'⟩
  · rintro ⟨i, rfl, hi'⟩; exact ⟨i, hi', rfl⟩

theorem mem_interleave {α} (x : α) : ∀ (xs ys : List α), x ∈ interleave xs ys ↔ x ∈ xs ∨ x ∈ ys
  | [], ys => by simp [interleave]
  | x' :: xs, [] => by simp [interleave]
  | x' :: xs, y :: ys => by
    simp only [interleave, List.mem_cons, mem_interleave x xs ys]
    tauto

/-- `fixLastHi` only enlarges segments when `F` bounds every upper end -/
theorem covers_fixLastHi (F : Nat) : ∀ (l : List (Nat × Nat)) (f : Nat), (∀ seg ∈ l, seg.2 ≤ F) →
    Covers l f → Covers (fixLastHi F l) f
  | [], _, _, h => by simpa [Covers] using h
  | [(lo, hi)], f, hF, h => by
    obtain ⟨seg, hm, h1, h2⟩ := h
    simp only [List.mem_singleton] at hm; subst hm
    exact ⟨(lo, F), by simp [fixLastHi], h1, lt_of_lt_of_le h2 (hF _ (by simp))⟩
  | x :: y :: ys, f, hF, h => by
    obtain ⟨seg, hm, h1, h2⟩ := h
    rcases List.mem_cons.mp hm with rfl | hm
    · exact ⟨seg, by simp [fixLastHi], h1, h2⟩
    · obtain ⟨seg', hm', h'⟩ := covers_fixLastHi F (y :: ys) f (fun s hs => hF s (List.mem_cons_of_mem _ hs)) ⟨seg, hm, h1, h2⟩
      exact ⟨seg', by simp only [fixLastHi]; exact List.mem_cons_of_mem _ hm', h'⟩

/-- the last segment of `fixLastHi` reaches `F` -/
theorem last_fixLastHi (F : Nat) : ∀ (l : List (Nat × Nat)) (h : l ≠ []),
    ((l.getLast h).1, F) ∈ fixLastHi F l
  | [(lo, hi)], _ => by simp [fixLastHi]
  | x :: y :: ys, _ => by
    simp only [fixLastHi, List.getLast_cons_cons]
    exact List.mem_cons_of_mem _ (last_fixLastHi F (y :: ys) (by simp))

theorem covers_fixLastLo : ∀ (l : List (Nat × Nat)) (f : Nat), Covers l f → Covers (fixLastLo l) f
  | [], _, h => by simpa [Covers] using h
  | [(lo, hi)], f, h => by
    obtain ⟨seg, hm, h1, h2⟩ := h
    simp only [List.mem_singleton] at hm; subst hm
    exact ⟨(0, hi), by simp [fixLastLo], Nat.zero_le _, h2⟩
  | x :: y :: ys, f, h => by
    obtain ⟨seg, hm, h1, h2⟩ := h
    rcases List.mem_cons.mp hm with rfl | hm
    · exact ⟨seg, by simp [fixLastLo], h1, h2⟩
    · obtain ⟨seg', hm', h'⟩ := covers_fixLastLo (y :: ys) f ⟨seg, hm, h1, h2⟩
      exact ⟨seg', by simp only [fixLastLo]; exact List.mem_cons_of_mem _ hm', h'⟩

theorem last_fixLastLo : ∀ (l : List (Nat × Nat)) (h : l ≠ []),
    (0, (l.getLast h).2) ∈ fixLastLo l
  | [(lo, hi)], _ => by simp [fixLastLo]
  | x :: y :: ys, _ => by
    simp only [fixLastLo, List.getLast_cons_cons]
    exact List.mem_cons_of_mem _ (last_fixLastLo (y :: ys) (by simp))

end PbBss.Plan

namespace PbBss.Plan

/-- **C16 plan coverage**: with `start + width ≤ F` and `0 < shift ≤ width` every bin lies in a segment. -/
theorem plan_covers (c : Cfg) (hw : c.start + c.width ≤ c.F) (hs : 0 < c.shift)
    (hsw : c.shift ≤ c.width) (f : Nat) (hf : f < c.F) : Covers (plan c) f := by
  obtain ⟨F, start, w, s⟩ := c
  simp only at hw hs hsw hf
  simp only [plan]
  set ups := (rangeUp (start + s) (F - w) s).map fun x => (x, x + w) with hups
  set downs := (rangeDown start s).map fun x => (x, x + w) with hdowns
  have hupsF : ∀ seg ∈ ups, seg.2 ≤ F := by
    intro seg hseg
    simp only [hups, List.mem_map] at hseg
    obtain ⟨x, hx, rfl⟩ := hseg
    obtain ⟨i, rfl, hi⟩ := (mem_rangeUp _ _ _ _ hs).mp hx
    simp only; omega
  -- helper: anything covered by the (fixed) up / down lists is covered by the plan
  have inU : ∀ seg, seg ∈ fixLastHi F ups → seg.1 ≤ f → f < seg.2 → Covers
      ((if downs.isEmpty then 0 else start, if ups.isEmpty then F else start + w) ::
        interleave (fixLastHi F ups) (fixLastLo downs)) f := fun seg hm h1 h2 =>
    ⟨seg, List.mem_cons_of_mem _ ((mem_interleave _ _ _).mpr (Or.inl hm)), h1, h2⟩
  have inD : ∀ seg, seg ∈ fixLastLo downs → seg.1 ≤ f → f < seg.2 → Covers
      ((if downs.isEmpty then 0 else start, if ups.isEmpty then F else start + w) ::
        interleave (fixLastHi F ups) (fixLastLo downs)) f := fun seg hm h1 h2 =>
    ⟨seg, List.mem_cons_of_mem _ ((mem_interleave _ _ _).mpr (Or.inr hm)), h1, h2⟩
  by_cases h1 : f < start
  · -- below the main segment
    by_cases hd : downs.isEmpty
    · refine ⟨_, List.mem_cons_self, ?_, ?_⟩
      · simp [hd]
      · simp only; split <;> omega
    · have hdne : downs ≠ [] := by simpa [List.isEmpty_iff] using hd
      -- candidate index
      set g := start - f with hg
      set i0 := (g - 1) / s with hi0
      have e1 : g ≤ (i0 + 1) * s := by
        have : g - 1 < i0 * s + s := Nat.lt_div_mul_add (a := g - 1) hs
        rw [Nat.add_mul, Nat.one_mul]; omega
      have e2 : i0 * s < g := by
        have : i0 * s ≤ g - 1 := Nat.div_mul_le_self (g - 1) s
        omega
      rw [Nat.add_mul, Nat.one_mul] at e1
      by_cases hv : i0 * s < start - s
      · -- a proper down segment covers f
        have hx : start - s - i0 * s ∈ rangeDown start s := (mem_rangeDown _ _ _ hs).mpr ⟨i0, rfl, hv⟩
        have hc : Covers downs f := ⟨(start - s - i0 * s, start - s - i0 * s + w),
          by simp only [hdowns, List.mem_map]; exact ⟨_, hx, rfl⟩, by simp only; omega, by simp only; omega⟩
        obtain ⟨seg, hm, h1', h2'⟩ := covers_fixLastLo downs f hc
        exact inD seg hm h1' h2'
      · -- f is below `shift`: the stretched last down segment covers it
        have hl := last_fixLastLo downs hdne
        have hmem := List.getLast_mem hdne
        simp only [hdowns, List.mem_map] at hmem
        obtain ⟨x, hx, hxe⟩ := hmem
        refine inD _ hl (Nat.zero_le _) ?_
        rw [← hxe]; simp only; omega
  · by_cases h2 : f < start + w
    · -- inside the main segment
      refine ⟨_, List.mem_cons_self, ?_, ?_⟩
      · simp only; split <;> omega
      · simp only; split <;> omega
    · -- above the main segment
      by_cases hu : ups.isEmpty
      · refine ⟨_, List.mem_cons_self, ?_, ?_⟩
        · simp only; split <;> omega
        · simp [hu, hf]
      · have hune : ups ≠ [] := by simpa [List.isEmpty_iff] using hu
        set a := start + s with ha
        set i0 := (f - a) / s with hi0
        have e1 : i0 * s ≤ f - a := Nat.div_mul_le_self _ _
        have e2 : f - a < i0 * s + s := Nat.lt_div_mul_add (a := f - a) hs
        by_cases hv : a + i0 * s < F - w
        · have hx : a + i0 * s ∈ rangeUp a (F - w) s := (mem_rangeUp _ _ _ _ hs).mpr ⟨i0, rfl, hv⟩
          have hc : Covers ups f := ⟨(a + i0 * s, a + i0 * s + w),
            by simp only [hups, List.mem_map]; exact ⟨_, hx, rfl⟩, by simp only; omega, by simp only; omega⟩
          obtain ⟨seg, hm, h1', h2'⟩ := covers_fixLastHi F ups f hupsF hc
          exact inU seg hm h1' h2'
        · have hl := last_fixLastHi F ups hune
          have hmem := List.getLast_mem hune
          simp only [hups, List.mem_map] at hmem
          obtain ⟨x, hx, hxe⟩ := hmem
          obtain ⟨i, rfl, hi⟩ := (mem_rangeUp _ _ _ _ hs).mp hx
          refine inU _ hl ?_ hf
          rw [← hxe]; simp only; omega

end PbBss.Plan

import PbBss.Model.Optimal
import Mathlib.Data.List.Perm.Basic
import Mathlib.Order.Basic
import Mathlib.Tactic

namespace PbBss
variable {α : Type}

theorem picks_perm {β} : ∀ (l : List β) (x : β) (r : List β), (x, r) ∈ picks l → l.Perm (x :: r)
  | [], _, _, h => by simp [picks] at h
  | y :: ys, x, r, h => by
    simp only [picks, List.mem_cons, List.mem_map] at h
    rcases h with h | ⟨p, hp, hpe⟩
    · cases h; exact List.Perm.refl _
    · cases hpe
      have := picks_perm ys p.1 p.2 hp
      exact (List.Perm.cons y this).trans (List.Perm.swap _ _ _)

theorem picks_mem {β} : ∀ (l : List β) (x : β), x ∈ l → ∃ r, (x, r) ∈ picks l
  | [], _, h => by simp at h
  | y :: ys, x, h => by
    rcases List.mem_cons.mp h with rfl | h
    · exact ⟨ys, by simp [picks]⟩
    · obtain ⟨r, hr⟩ := picks_mem ys x h
      exact ⟨y :: r, by simp only [picks, List.mem_cons, List.mem_map]; exact Or.inr ⟨(x, r), hr, rfl⟩⟩

/-- every arrangement of `l` is enumerated -/
theorem lexPermsAux_complete {β} : ∀ (n : Nat) (l p : List β), l.length = n → p.Perm l →
    p ∈ lexPermsAux n l
  | 0, l, p, hl, hp => by
    have : l = [] := List.length_eq_zero_iff.mp hl
    subst this
    simp [lexPermsAux, List.Perm.eq_nil hp]
  | n+1, l, p, hl, hp => by
    cases p with
    | nil => have := hp.length_eq; simp [hl] at this
    | cons x p' =>
      have hx : x ∈ l := hp.subset (by simp)
      obtain ⟨r, hr⟩ := picks_mem l x hx
      have hlr := picks_perm l x r hr
      have hp' : p'.Perm r := (List.Perm.cons_inv ((hp.trans hlr))).symm.symm
      have hrl : r.length = n := by
        have := hlr.length_eq; simp [hl] at this; omega
      simp only [lexPermsAux, List.mem_flatMap, List.mem_map]
      exact ⟨(x, r), hr, p', lexPermsAux_complete n r p' hrl hp', rfl⟩

/-- and only arrangements of `l` are enumerated -/
theorem lexPermsAux_sound {β} : ∀ (n : Nat) (l p : List β), l.length = n → p ∈ lexPermsAux n l → p.Perm l
  | 0, l, p, hl, hp => by
    have : l = [] := List.length_eq_zero_iff.mp hl
    subst this
    simp [lexPermsAux] at hp; simp [hp]
  | n+1, l, p, hl, hp => by
    simp only [lexPermsAux, List.mem_flatMap, List.mem_map] at hp
    obtain ⟨⟨x, r⟩, hr, p', hp', rfl⟩ := hp
    have hlr := picks_perm l x r hr
    have hrl : r.length = n := by
      have := hlr.length_eq; simp [hl] at this; omega
    exact (List.Perm.cons x (lexPermsAux_sound n r p' hrl hp')).trans hlr.symm

variable [AddCommMonoid α] [LinearOrder α]

/-- the brute-force loop returns a listed (or the initial) candidate whose score dominates all listed ones -/
theorem optimalLoop_max (s : Nat → Nat → α) :
    ∀ (ps : List (List Nat)) (best : Option (List Nat × α)),
      (∀ b ∈ best, b.2 = permScore s b.1) →
      (ps ≠ [] ∨ best.isSome) →
      ∃ r, optimalLoop s ps best = some r ∧ r.2 = permScore s r.1 ∧
        (r.1 ∈ ps ∨ some r = best) ∧ (∀ p ∈ ps, permScore s p ≤ r.2) ∧ (∀ b ∈ best, b.2 ≤ r.2)
  | [], best, hb, hne => by
    rcases hne with h | h
    · exact absurd rfl h
    · obtain ⟨b, rfl⟩ := Option.isSome_iff_exists.mp h
      exact ⟨b, rfl, hb b rfl, Or.inr rfl, by simp, by simp⟩
  | p :: ps, none, _, _ => by
    obtain ⟨r, h1, h2, h3, h4, h5⟩ := optimalLoop_max s ps (some (p, permScore s p)) (by simp) (Or.inr rfl)
    refine ⟨r, by simpa [optimalLoop] using h1, h2, ?_, ?_, by simp⟩
    · rcases h3 with h3 | h3
      · exact Or.inl (List.mem_cons_of_mem _ h3)
      · cases h3; exact Or.inl (by simp)
    · intro q hq
      rcases List.mem_cons.mp hq with rfl | hq
      · exact h5 _ rfl
      · exact h4 q hq
  | p :: ps, some (bp, bs), hb, _ => by
    have hbs := hb (bp, bs) rfl
    simp only [optimalLoop]
    by_cases hlt : bs < permScore s p
    · simp only [hlt, if_true]
      obtain ⟨r, h1, h2, h3, h4, h5⟩ := optimalLoop_max s ps (some (p, permScore s p)) (by simp) (Or.inr rfl)
      refine ⟨r, h1, h2, ?_, ?_, ?_⟩
      · rcases h3 with h3 | h3
        · exact Or.inl (List.mem_cons_of_mem _ h3)
        · cases h3; exact Or.inl (by simp)
      · intro q hq
        rcases List.mem_cons.mp hq with rfl | hq
        · exact h5 _ rfl
        · exact h4 q hq
      · intro b hb'; cases hb'; exact le_trans hlt.le (h5 _ rfl)
    · simp only [hlt, if_false]
      obtain ⟨r, h1, h2, h3, h4, h5⟩ := optimalLoop_max s ps (some (bp, bs)) hb (Or.inr rfl)
      refine ⟨r, h1, h2, ?_, ?_, h5⟩
      · rcases h3 with h3 | h3
        · exact Or.inl (List.mem_cons_of_mem _ h3)
        · exact Or.inr h3
      · intro q hq
        rcases List.mem_cons.mp hq with rfl | hq
        · exact le_trans (not_lt.mp hlt) (h5 _ rfl)
        · exact h4 q hq

/-- **C15 optimality**: the `'optimal'` assignment is a permutation of `0..K-1` whose total score is
at least that of every permutation. -/
theorem optimal_is_max (K : Nat) (s : Nat → Nat → α) :
    ∃ r, optimal K s = some r ∧ r.1.Perm (List.range K) ∧ r.2 = permScore s r.1 ∧
      ∀ p : List Nat, p.Perm (List.range K) → permScore s p ≤ r.2 := by
  have hne : lexPerms K ≠ [] := by
    have := lexPermsAux_complete K (List.range K) (List.range K) (by simp) (List.Perm.refl _)
    intro h; rw [lexPerms] at h; rw [h] at this; simp at this
  obtain ⟨r, h1, h2, h3, h4, _⟩ := optimalLoop_max s (lexPerms K) none (by simp) (Or.inl hne)
  refine ⟨r, h1, ?_, h2, ?_⟩
  · rcases h3 with h3 | h3
    · exact lexPermsAux_sound K (List.range K) r.1 (by simp) h3
    · cases h3
  · intro p hp
    exact h4 p (lexPermsAux_complete K (List.range K) p (by simp) hp)

end PbBss

import Mathlib.Analysis.SpecialFunctions.Log.Basic
import Mathlib.Analysis.Convex.Jensen
import Mathlib.Analysis.Convex.SpecificFunctions.Basic
import Mathlib.Tactic

open Finset

/-- one-observation EM bound: log-likelihood gain ≥ expected complete-data gain under the
current posterior γ = p / Σp -/
theorem em_bound {K : Type} [Fintype K] [Nonempty K] (p q : K → ℝ) (hp : ∀ k, 0 < p k) (hq : ∀ k, 0 < q k) :
    ∑ k, (p k / ∑ j, p j) * (Real.log (q k) - Real.log (p k))
      ≤ Real.log (∑ k, q k) - Real.log (∑ k, p k) := by
  have hP : 0 < ∑ j, p j := Finset.sum_pos (fun k _ => hp k) Finset.univ_nonempty
  have hQ : 0 < ∑ j, q j := Finset.sum_pos (fun k _ => hq k) Finset.univ_nonempty
  have hw : ∀ k ∈ (univ : Finset K), 0 ≤ p k / ∑ j, p j := fun k _ => (div_pos (hp k) hP).le
  have hw1 : ∑ k, p k / ∑ j, p j = 1 := by rw [← Finset.sum_div]; exact div_self hP.ne'
  have hmem : ∀ k ∈ (univ : Finset K), q k / p k ∈ Set.Ioi (0:ℝ) := fun k _ => div_pos (hq k) (hp k)
  have J := strictConcaveOn_log_Ioi.concaveOn.le_map_sum hw hw1 hmem
  simp only [smul_eq_mul] at J
  have e1 : ∑ k, p k / (∑ j, p j) * (q k / p k) = (∑ k, q k) / ∑ j, p j := by
    rw [Finset.sum_div]
    refine Finset.sum_congr rfl fun k _ => ?_
    have := (hp k).ne'
    field_simp
  rw [e1, Real.log_div hQ.ne' hP.ne'] at J
  refine le_trans (le_of_eq ?_) J
  refine Finset.sum_congr rfl fun k _ => ?_
  rw [Real.log_div (hq k).ne' (hp k).ne']


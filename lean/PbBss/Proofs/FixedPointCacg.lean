import PbBss.Proofs.FixedPointRound
/-! First M-step of the cACG mixture from the hard true partition in the noise-free orthonormal scene: the Tyler/Ito
scatter is `(D+1)·a_k a_kᴴ`, `eigh` (under its contract) returns `a_k` up to a phase with eigenvalue `D+1` and zeros,
and `from_covariance` turns that into the spiked spectrum `(1, floor, …, floor)` — the eigenvalue floor is what makes
the rank-one scatter regular. -/
open PbBss PbBss.Em Finset

namespace PbBss.FixedPoint

local notation "conj" => starRingEnd ℂ

/-- contract of `np.linalg.eigh` on the matrix it is given: orthonormal columns, each an eigenvector for its
eigenvalue (ordering of the eigenvalues is not used) -/
structure EighSpec {D : Nat} (A : Tab D (Tab D ℂ)) (r : Tab D (Tab D ℂ) × Tab D ℝ) : Prop where
  unitary : ∀ e e', ∑ g, conj (rd2 r.1 g e) * rd2 r.1 g e' = if e = e' then 1 else 0
  eig : ∀ e d, ∑ g, rd2 A d g * rd2 r.1 g e = ((rd r.2 e : ℝ) : ℂ) * rd2 r.1 d e

/-- eigen-decomposition of a rank-one matrix `β·v vᴴ` (`β > 0`, `‖v‖ = 1`) under the `eigh` contract: one column is
`v` up to a unit phase with eigenvalue `β`, all other eigenvalues vanish -/
theorem eigh_rank_one {D : Nat} (A : Tab D (Tab D ℂ)) (β : ℝ) (hβ : 0 < β) (v : Fin D → ℂ)
    (hv : ∑ g, Complex.normSq (v g) = 1) (hA : ∀ d g, rd2 A d g = (β : ℂ) * (v d * conj (v g)))
    (r : Tab D (Tab D ℂ) × Tab D ℝ) (hr : EighSpec A r) :
    ∃ (t : Fin D) (p : ℂ), Complex.normSq p = 1 ∧ (∀ g, rd2 r.1 g t = p * v g) ∧ rd r.2 t = β
      ∧ ∀ e, e ≠ t → rd r.2 e = 0 := by
  set U := rd2 r.1 with hU
  set ev := rd r.2 with hev
  set cf : Fin D → ℂ := fun e => ∑ g, conj (v g) * U g e with hcf
  have hvv : ∑ g, conj (v g) * v g = 1 := by
    have : ((∑ g, Complex.normSq (v g) : ℝ) : ℂ) = 1 := by rw [hv]; simp
    rw [← this, Complex.ofReal_sum]
    exact Finset.sum_congr rfl fun g _ => (Complex.normSq_eq_conj_mul_self).symm
  -- (E1) β v_d c_e = ev_e U_de
  have E1 : ∀ e d, (β : ℂ) * v d * cf e = (ev e : ℂ) * U d e := by
    intro e d
    rw [← hr.eig e d]
    simp only [hA, hcf, Finset.mul_sum]
    exact Finset.sum_congr rfl fun g _ => by ring
  -- (E2) β c_e = ev_e c_e
  have E2 : ∀ e, (β : ℂ) * cf e = (ev e : ℂ) * cf e := by
    intro e
    have h : ∑ d, conj (v d) * ((β : ℂ) * v d * cf e) = ∑ d, conj (v d) * ((ev e : ℂ) * U d e) :=
      Finset.sum_congr rfl fun d _ => by rw [E1]
    have l : ∑ d, conj (v d) * ((β : ℂ) * v d * cf e) = (β : ℂ) * cf e * ∑ d, conj (v d) * v d := by
      rw [Finset.mul_sum]; exact Finset.sum_congr rfl fun d _ => by ring
    have rr : ∑ d, conj (v d) * ((ev e : ℂ) * U d e) = (ev e : ℂ) * cf e := by
      rw [hcf, Finset.mul_sum]; exact Finset.sum_congr rfl fun d _ => by ring
    rw [l, rr, hvv, mul_one] at h
    exact h
  -- Parseval: Σ_e |c_e|² = 1
  have hpars : ∑ e, Complex.normSq (cf e) = 1 := by
    have := parseval (⟨r.1, r.2⟩ : Cacg ℝ ℂ D) hr.unitary v
    rw [hv] at this
    rw [← this]
    refine Finset.sum_congr rfl fun e _ => ?_
    rw [← Complex.normSq_conj (cf e), hcf, map_sum]
    congr 1
    refine Finset.sum_congr rfl fun g _ => ?_
    rw [map_mul, Complex.conj_conj]; ring
  obtain ⟨t, ht⟩ : ∃ t, cf t ≠ 0 := by
    by_contra hne
    push Not at hne
    simp [hne] at hpars
  have hevt : ev t = β := by
    have := mul_right_cancel₀ ht (E2 t)
    exact_mod_cast this.symm
  have hβc : ((β : ℝ) : ℂ) ≠ 0 := by exact_mod_cast hβ.ne'
  have hcol : ∀ g, U g t = cf t * v g := by
    intro g
    have := E1 t g
    rw [hevt] at this
    have h2 : (β : ℂ) * (cf t * v g) = (β : ℂ) * U g t := by rw [← this]; ring
    exact (mul_left_cancel₀ hβc h2).symm
  have hnorm : Complex.normSq (cf t) = 1 := by
    have h1 := hr.unitary t t
    simp only [if_true] at h1
    have h2 : ∑ g, conj (U g t) * U g t = ((Complex.normSq (cf t) : ℝ) : ℂ) := by
      have : ∀ g, conj (U g t) * U g t = (conj (cf t) * cf t) * (conj (v g) * v g) := by
        intro g; rw [hcol, map_mul]; ring
      simp only [this, ← Finset.mul_sum, hvv, mul_one]
      exact (Complex.normSq_eq_conj_mul_self).symm
    rw [h2] at h1
    exact_mod_cast h1
  refine ⟨t, cf t, hnorm, hcol, hevt, ?_⟩
  intro e he
  have hce : cf e = 0 := by
    have h1 := hr.unitary t e
    rw [if_neg (Ne.symm he)] at h1
    have h2 : ∑ g, conj (U g t) * U g e = conj (cf t) * cf e := by
      rw [hcf, Finset.mul_sum]
      exact Finset.sum_congr rfl fun g _ => by rw [hcol, map_mul]; ring
    rw [h2] at h1
    rcases mul_eq_zero.mp h1 with h | h
    · exact absurd ((map_eq_zero (starRingEnd ℂ)).mp h) ht
    · exact h
  have hcolz : ∀ d, (ev e : ℂ) * U d e = 0 := by
    intro d; rw [← E1 e d, hce, mul_zero]
  obtain ⟨d, hd⟩ : ∃ d, U d e ≠ 0 := by
    by_contra hne
    push Not at hne
    have h1 := hr.unitary e e
    simp only [if_true] at h1
    have hz : ∀ g, rd2 r.1 g e = 0 := hne
    simp [hz] at h1
  rcases mul_eq_zero.mp (hcolz d) with h | h
  · exact_mod_cast h
  · exact absurd h hd

theorem vmax_eq_of {n : Nat} (f : Fin (n+1) → ℝ) (β : ℝ) (hle : ∀ e, f e ≤ β) (t : Fin (n+1)) (ht : f t = β) :
    vmax f = β := by
  apply le_antisymm
  · obtain ⟨k, hk⟩ := vmax_mem f
    rw [hk]; exact hle k
  · rw [← ht]; exact vmax_ge f t

/-- the matrix `ComplexAngularCentralGaussianTrainer._fit` hands to `eigh` (covariance_norm `'eigenvalue'` or
`False`), in Mathlib notation -/
theorem cacgScatter_eq {D N : Nat} (tiny : ℝ) (w q : Fin N → ℝ) (z : Fin N → Fin (D+1) → ℂ) (d e : Fin (D+1)) :
    rd2 (cacgScatter CovNorm.eigenvalue tiny N w q z) d e
      = ((((D+1 : ℕ) : ℝ) : ℂ) * (∑ n, ((w n / max (q n) (((10 : ℕ) : ℝ) * tiny) : ℝ) : ℂ) * (z n d * conj (z n e)))
            / ((max (∑ n, w n) tiny : ℝ) : ℂ)
          + conj ((((D+1 : ℕ) : ℝ) : ℂ) * (∑ n, ((w n / max (q n) (((10 : ℕ) : ℝ) * tiny) : ℝ) : ℂ) * (z n e * conj (z n d)))
            / ((max (∑ n, w n) tiny : ℝ) : ℂ))) / ((1 + 1 : ℝ) : ℂ) := by
  simp [cacgScatter, outerSum, vsum_eq_sum]

/-- hard start, noise-free orthonormal scene: the first cACG scatter of class `k` is `(D+1)·a_k a_kᴴ` -/
theorem cacgScatter_hard {K N D : Nat} {a : Fin K → Fin (D+1) → ℂ} {c : Fin N → Fin K} {z : Fin N → Fin (D+1) → ℂ}
    (sc : Scene a c z) (tiny : ℝ) (h10 : ((10 : ℕ) : ℝ) * tiny ≤ 1) (s : Fin N → ℝ) (k : Fin K)
    (hpos : 0 < ∑ n, hardStart c k n * s n) (hden : tiny ≤ ∑ n, hardStart c k n * s n) (d e : Fin (D+1)) :
    rd2 (cacgScatter CovNorm.eigenvalue tiny N (fun n => hardStart c k n * s n) (fun _ => 1) z) d e
      = (((D+1 : ℕ) : ℝ) : ℂ) * (a k d * conj (a k e)) := by
  obtain ⟨u, hu, hz⟩ := sc.obs
  rw [cacgScatter_eq]
  simp only [max_eq_left hden, max_eq_left h10, div_one]
  rw [outer_scene a c u hu z hz, outer_scene a c u hu z hz]
  simp only [classMass_hard]
  set M : ℝ := ∑ n, hardStart c k n * s n with hM
  have hMc : ((M : ℝ) : ℂ) ≠ 0 := by exact_mod_cast hpos.ne'
  have e1 : ∀ d e : Fin (D+1), ∑ j, ((if j = k then M else 0 : ℝ) : ℂ) * (a j d * conj (a j e))
      = (M : ℂ) * (a k d * conj (a k e)) := by
    intro d e
    rw [Finset.sum_eq_single k]
    · simp
    · intro j _ hj; simp [hj]
    · simp
  rw [e1, e1]
  have h2 : ((1 + 1 : ℝ) : ℂ) ≠ 0 := by norm_num
  simp only [map_mul, map_div₀, Complex.conj_ofReal, Complex.conj_conj]
  field_simp
  push_cast
  ring

/-- `eigh` honours its contract on every scatter matrix of the cACG M-step on the data -/
def EighOn {N D : Nat} (eigh : Tab (D+1) (Tab (D+1) ℂ) → Tab (D+1) (Tab (D+1) ℂ) × Tab (D+1) ℝ) (tiny : ℝ)
    (z : Fin N → Fin (D+1) → ℂ) : Prop :=
  ∀ w q : Fin N → ℝ, EighSpec (cacgScatter CovNorm.eigenvalue tiny N w q z)
    (eigh (cacgScatter CovNorm.eigenvalue tiny N w q z))

/-- **first cACG M-step from the hard true partition**: the fitted component of class `k` is spiked on `a_k`:
covariance `U diag(1, floor, …, floor) Uᴴ` with the eigenvalue-1 eigenvector `a_k` up to a unit phase -/
theorem cacgMstep_hard_spiked {K N D : Nat} {a : Fin K → Fin (D+1) → ℂ} {c : Fin N → Fin K}
    {z : Fin N → Fin (D+1) → ℂ} (sc : Scene a c z)
    (eigh : Tab (D+1) (Tab (D+1) ℂ) → Tab (D+1) (Tab (D+1) ℂ) × Tab (D+1) ℝ) (tiny floor : ℝ)
    (heigh : EighOn eigh tiny z) (h10 : ((10 : ℕ) : ℝ) * tiny ≤ 1) (htiny : tiny ≤ 1)
    (hf0 : 0 ≤ floor) (hf1 : floor ≤ 1) (s : Fin N → ℝ) (k : Fin K)
    (hpos : 0 < ∑ n, hardStart c k n * s n) (hden : tiny ≤ ∑ n, hardStart c k n * s n) :
    Spiked (cacgMstep eigh CovNorm.eigenvalue floor tiny N (fun n => hardStart c k n * s n) (fun _ => 1) z) (a k)
      floor := by
  set A := cacgScatter CovNorm.eigenvalue tiny N (fun n => hardStart c k n * s n) (fun _ => 1) z with hA
  have hβ : (0:ℝ) < ((D+1 : ℕ) : ℝ) := by positivity
  have hunit : ∑ g, Complex.normSq (a k g) = 1 := scene_norm_sq sc.ortho k 1 (by simp) (a k) (by simp)
  have hspec := heigh (fun n => hardStart c k n * s n) (fun _ => 1)
  obtain ⟨t, p, hp, hcol, hevt, hev0⟩ := eigh_rank_one A ((D+1 : ℕ) : ℝ) hβ (a k) hunit
    (fun d g => cacgScatter_hard sc tiny h10 s k hpos hden d g) (eigh A) hspec
  have hmx : vmax (rd (eigh A).2) = ((D+1 : ℕ) : ℝ) := by
    apply vmax_eq_of _ _ _ t hevt
    intro e
    by_cases he : e = t
    · rw [he, hevt]
    · rw [hev0 e he]; exact hβ.le
  have hone : (1:ℝ) ≤ ((D+1 : ℕ) : ℝ) := by push_cast; linarith [Nat.cast_nonneg (α := ℝ) D]
  refine ⟨hspec.unitary, t, p, hp, hcol, ?_, ?_⟩
  · show rd (cacgEigvals CovNorm.eigenvalue floor tiny (rd (eigh A).2)) t = 1
    simp only [cacgEigvals, rd_tab, hmx, hevt]
    rw [max_eq_left (le_trans htiny hone), div_self hβ.ne', max_eq_left hf1]
  · intro e he
    show rd (cacgEigvals CovNorm.eigenvalue floor tiny (rd (eigh A).2)) e = floor
    simp only [cacgEigvals, rd_tab, hmx, hev0 e he]
    rw [zero_div, max_eq_right hf0]

/-! ### a concrete `eigh` (non-vacuity of `EighOn`) -/

/-- `eigh` of a real diagonal 2×2 matrix: identity eigenvectors, the diagonal as eigenvalues -/
noncomputable def diagEigh (A : Tab 2 (Tab 2 ℂ)) : Tab 2 (Tab 2 ℂ) × Tab 2 ℝ :=
  (tab2 fun g e => if g = e then 1 else 0, tab fun e => (rd2 A e e).re)

theorem diagEigh_spec (A : Tab 2 (Tab 2 ℂ)) (x : Fin 2 → ℝ)
    (hA : ∀ d e, rd2 A d e = if d = e then ((x d : ℝ) : ℂ) else 0) : EighSpec A (diagEigh A) := by
  refine ⟨?_, ?_⟩
  · intro e e'
    fin_cases e <;> fin_cases e' <;> simp [diagEigh]
  · intro e d
    fin_cases e <;> fin_cases d <;> simp [diagEigh, hA]

theorem eighOn2 (tiny : ℝ) : EighOn (D := 1) diagEigh tiny a2 := by
  intro w q
  refine diagEigh_spec _ (fun d => ((1 + 1 : ℕ) : ℝ) * (w d / max (q d) (((10 : ℕ) : ℝ) * tiny)) / max (w 0 + w 1) tiny) ?_
  intro d e
  rw [cacgScatter_eq]
  have h2 : conj (2:ℂ) = 2 := map_ofNat _ 2
  fin_cases d <;> fin_cases e <;> simp [a2, Fin.sum_univ_two, h2] <;> ring

end PbBss.FixedPoint

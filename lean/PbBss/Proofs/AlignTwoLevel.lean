import PbBss.Props.C16Core
import PbBss.Proofs.PipelineLeakyEm
/-! C03 × C16: the link between the EM theorems and the blind-alignment theorems.

Two-level masks `base k f t = if c t = k then g else h` (the same owner sequence `c` in every frequency bin, levels
`0 ≤ h < g`, every class owning at least one frame) lie in the analytic domain of `C16.dhtv_restores_in_domain` /
`C16.jitter_cos_dominant` as soon as the leak is small, `10 · T · h ≤ g` (`T` = number of frames): the pairwise inner
product of two class patterns is at most `T·g·h` and every pattern norm is at least `g`.  The posterior of the cACG mixture
in the balanced noise-free orthonormal scene is such a mask after every number `n ≥ 1` of EM iterations
(`cacg_trajectory_stationary`; `g = E/(E+K)`, `h = 1/(E+K)`, `h/g = 1/E`), so `10 · T ≤ E = floor^{-(D+1)}` suffices and
DHTV / the greedy aligner undo every per-frequency relabelling of the EM posteriors. -/
namespace PbBss.Align
open Function Finset

/-! ### (a) two-level patterns lie in the domain -/

/-- class activity pattern of a two-level mask: level `g` on the frames the class owns, leak `h` elsewhere -/
def twoLevelPat {K T : Nat} (c : Fin T → Fin K) (g h : ℝ) : Fin K → Fin T → ℝ :=
  fun k t => if c t = k then g else h

/-- the consistent two-level mask: the same pattern in every frequency bin -/
def twoLevelMask {K T : Nat} (F : Nat) (c : Fin T → Fin K) (g h : ℝ) : Tab3 K F T ℝ :=
  tab3 fun k _ t => twoLevelPat c g h k t

@[simp] theorem at3_twoLevelMask {K F T : Nat} (c : Fin T → Fin K) (g h : ℝ) (k : Fin K) (f : Fin F) (t : Fin T) :
    at3 (twoLevelMask F c g h) k f t = if c t = k then g else h := by
  simp [twoLevelMask, twoLevelPat]

theorem twoLevelPat_nonneg {K T : Nat} (c : Fin T → Fin K) (g h : ℝ) (hh : 0 ≤ h) (hg : h < g) (k : Fin K) (t : Fin T) :
    0 ≤ twoLevelPat c g h k t := by
  unfold twoLevelPat
  split <;> linarith

/-- a class that owns a frame has squared norm at least `g²` -/
theorem twoLevelPat_sq_ge {K T : Nat} (c : Fin T → Fin K) (g h : ℝ) (k : Fin K) (hown : ∃ t, c t = k) :
    g * g ≤ ∑ t, twoLevelPat c g h k t * twoLevelPat c g h k t := by
  obtain ⟨t0, ht0⟩ := hown
  have h1 : twoLevelPat c g h k t0 * twoLevelPat c g h k t0 = g * g := by simp [twoLevelPat, ht0]
  rw [← h1]
  exact Finset.single_le_sum (f := fun t => twoLevelPat c g h k t * twoLevelPat c g h k t)
    (fun t _ => mul_self_nonneg _) (Finset.mem_univ t0)

/-- … hence norm at least `g` -/
theorem twoLevelPat_nrm_ge {K T : Nat} (c : Fin T → Fin K) (g h : ℝ) (hg0 : 0 ≤ g) (k : Fin K) (hown : ∃ t, c t = k) :
    g ≤ nrm (twoLevelPat c g h k) := by
  have h1 := twoLevelPat_sq_ge c g h k hown
  rw [← nrm_sq] at h1
  exact (mul_self_le_mul_self_iff hg0 (nrm_nonneg _)).mpr h1

/-- two different classes never both own a frame: every term of the inner product is `g·h` or `h²` -/
theorem twoLevelPat_cross_le {K T : Nat} (c : Fin T → Fin K) (g h : ℝ) (hh : 0 ≤ h) (hg : h < g) (k k' : Fin K)
    (hne : k' ≠ k) : (∑ t, twoLevelPat c g h k' t * twoLevelPat c g h k t) ≤ (T : ℝ) * (g * h) := by
  have hterm : ∀ t ∈ (Finset.univ : Finset (Fin T)), twoLevelPat c g h k' t * twoLevelPat c g h k t ≤ g * h := by
    intro t _
    unfold twoLevelPat
    by_cases h1 : c t = k'
    · have h2 : c t ≠ k := fun h2 => hne (h1.symm.trans h2)
      rw [if_pos h1, if_neg h2]
    · rw [if_neg h1]
      by_cases h2 : c t = k
      · rw [if_pos h2, mul_comm]
      · rw [if_neg h2]
        exact mul_le_mul_of_nonneg_right hg.le hh
  calc _ ≤ ∑ _t : Fin T, g * h := Finset.sum_le_sum hterm
    _ = (T : ℝ) * (g * h) := by simp

/-- exact value of the inner product of two different class patterns:
`(n_k + n_k')·g·h + (T − n_k − n_k')·h²` with `n_k` the number of frames class `k` owns -/
theorem twoLevelPat_cross_eq {K T : Nat} (c : Fin T → Fin K) (g h : ℝ) (k k' : Fin K) (hne : k' ≠ k) :
    (∑ t, twoLevelPat c g h k' t * twoLevelPat c g h k t)
      = (((Finset.univ.filter fun t => c t = k).card : ℝ) + ((Finset.univ.filter fun t => c t = k').card : ℝ)) * (g * h)
        + ((T : ℝ) - ((Finset.univ.filter fun t => c t = k).card : ℝ)
            - ((Finset.univ.filter fun t => c t = k').card : ℝ)) * (h * h) := by
  have hterm : ∀ t : Fin T, twoLevelPat c g h k' t * twoLevelPat c g h k t
      = (if c t = k then (1:ℝ) else 0) * (g * h - h * h) + (if c t = k' then (1:ℝ) else 0) * (g * h - h * h) + h * h := by
    intro t
    unfold twoLevelPat
    by_cases h1 : c t = k'
    · have h2 : c t ≠ k := fun h2 => hne (h1.symm.trans h2)
      rw [if_pos h1, if_neg h2, if_pos h1, if_neg h2]; ring
    · by_cases h2 : c t = k
      · rw [if_neg h1, if_pos h2, if_pos h2, if_neg h1]; ring
      · rw [if_neg h1, if_neg h2, if_neg h2, if_neg h1]; ring
  simp only [hterm, Finset.sum_add_distrib, ← Finset.sum_mul, Finset.sum_boole, Finset.sum_const, Finset.card_univ,
    Fintype.card_fin, nsmul_eq_mul]
  ring

/-- the pairwise-cosine bound of the C16 domain from the smallness of the leak, `10 · T · h ≤ g` -/
theorem twoLevelPat_cos {K T : Nat} (c : Fin T → Fin K) (g h : ℝ) (hh : 0 ≤ h) (hg : h < g)
    (hown : ∀ k, ∃ t, c t = k) (hsmall : 10 * (T : ℝ) * h ≤ g) (k k' : Fin K) (hne : k' ≠ k) :
    (∑ t, twoLevelPat c g h k' t * twoLevelPat c g h k t)
      ≤ 0.1 * (nrm (twoLevelPat c g h k') * nrm (twoLevelPat c g h k)) := by
  have hg0 : 0 ≤ g := le_trans hh hg.le
  have h1 := twoLevelPat_cross_le c g h hh hg k k' hne
  have h2 : g * g ≤ nrm (twoLevelPat c g h k') * nrm (twoLevelPat c g h k) :=
    mul_le_mul (twoLevelPat_nrm_ge c g h hg0 k' (hown k')) (twoLevelPat_nrm_ge c g h hg0 k (hown k)) hg0
      (nrm_nonneg _)
  have h3 : (T : ℝ) * (g * h) ≤ 0.1 * (g * g) := by
    have := mul_le_mul_of_nonneg_left hsmall hg0
    linarith
  linarith

/-- **(a)** the two-level mask with owner sequence `c` (every class owns a frame), levels `0 ≤ h < g`, small leak
`10 · T · h ≤ g` and norm floor `tiny ≤ g` satisfies every hypothesis of `C16.dhtv_restores_in_domain` /
`C16.jitter_cos_dominant` / `C16.greedyAligner_consistent_in_domain` with `pat = twoLevelPat c g h` (no jitter). -/
theorem twoLevel_patterns_in_domain {K T : Nat} (F : Nat) (c : Fin T → Fin K) (g h tiny : ℝ) (hh : 0 ≤ h) (hg : h < g)
    (hown : ∀ k, ∃ t, c t = k) (hsmall : 10 * (T : ℝ) * h ≤ g) (htiny : tiny ≤ g) :
    (∀ k t, 0 ≤ twoLevelPat c g h k t) ∧
    (∀ k, 0 < nrm (twoLevelPat c g h k)) ∧
    (∀ k k', k' ≠ k → (∑ t, twoLevelPat c g h k' t * twoLevelPat c g h k t)
        ≤ 0.1 * (nrm (twoLevelPat c g h k') * nrm (twoLevelPat c g h k))) ∧
    (∀ k (f : Fin F) t, 0.9 * twoLevelPat c g h k t ≤ at3 (twoLevelMask F c g h) k f t) ∧
    (∀ k (f : Fin F) t, at3 (twoLevelMask F c g h) k f t ≤ 1.1 * twoLevelPat c g h k t) ∧
    (∀ k (f : Fin F), tiny ≤ nrm (fun t => at3 (twoLevelMask F c g h) k f t)) := by
  have hg0 : 0 < g := lt_of_le_of_lt hh hg
  have hp := twoLevelPat_nonneg c g h hh hg
  have hbase : ∀ k (f : Fin F) t, at3 (twoLevelMask F c g h) k f t = twoLevelPat c g h k t := fun k f t => by
    simp [twoLevelPat]
  refine ⟨hp, fun k => lt_of_lt_of_le hg0 (twoLevelPat_nrm_ge c g h hg0.le k (hown k)),
    twoLevelPat_cos c g h hh hg hown hsmall, ?_, ?_, ?_⟩
  · intro k f t; rw [hbase]; linarith [hp k t]
  · intro k f t; rw [hbase]; linarith [hp k t]
  · intro k f
    have : (fun t => at3 (twoLevelMask F c g h) k f t) = twoLevelPat c g h k := funext fun t => hbase k f t
    rw [this]
    exact le_trans htiny (twoLevelPat_nrm_ge c g h hg0.le k (hown k))

/-! ### (b) DHTV and the greedy aligner restore every per-frequency relabelling of a two-level mask -/

/-- **(b), DHTV** (`cos` metric, any assignment algorithm, any plan with `PlanOk` for the domain constants, a majority
`Al₀` of bins sharing the order `σ₀`): for EVERY per-frequency permutation field `π` of the two-level mask, in every bin of
`alignedAfter` the converged features are the normalised rows in the order `σ₀`, the net reordering `π_f ∘ mapping[:, f]` is
`σ₀`, and the input mask re-indexed by the returned mapping is the two-level mask in the order `σ₀`. -/
theorem twoLevel_restored_by_dhtv {K F T : Nat} (c : Fin T → Fin K) (g h tiny : ℝ) (ht : 0 < tiny) (hh : 0 ≤ h)
    (hg : h < g) (hown : ∀ k, ∃ t, c t = k) (hsmall : 10 * (T : ℝ) * h ≤ g) (htiny : tiny ≤ g)
    (algo : Algo) (plan : List (Nat × Nat × Nat)) (π : Fin F → Equiv.Perm (Fin K)) (σ0 : Equiv.Perm (Fin K))
    (Al0 : Finset (Fin F)) (hAl : ∀ f ∈ Al0, π f = σ0)
    (hplan : PlanOk F (0.81 / 1.21) (1.21 / 0.81 * 0.1) plan Al0) :
    ∀ f ∈ alignedAfter F plan Al0, ∀ k,
      (∀ t, at3 (dhtv tiny .cos algo plan (permuted (twoLevelMask F c g h) π)).features k f t
          = normRows tiny (twoLevelMask F c g h) (σ0 k) f t) ∧
      π f (at2 (dhtv tiny .cos algo plan (permuted (twoLevelMask F c g h) π)).mapping k f) = σ0 k ∧
      ∀ t, applyMapping (at3 (permuted (twoLevelMask F c g h) π))
          (at2 (dhtv tiny .cos algo plan (permuted (twoLevelMask F c g h) π)).mapping) k f t
            = if c t = σ0 k then g else h := by
  obtain ⟨h1, h2, h3, h4, h5, h6⟩ := twoLevel_patterns_in_domain F c g h tiny hh hg hown hsmall htiny
  intro f hf k
  obtain ⟨r1, r2⟩ := C16.dhtv_restores_in_domain tiny ht (twoLevelPat c g h) (twoLevelMask F c g h) h1 h2 h3 h4 h5 h6
    algo plan π σ0 Al0 hAl hplan f hf k
  refine ⟨r1, r2, fun t => ?_⟩
  have key : ∀ m : Fin K, π f m = σ0 k →
      at3 (permuted (twoLevelMask F c g h) π) m f t = if c t = σ0 k then g else h := by
    intro m hm
    rw [permuted, at3_tab3, hm, at3_twoLevelMask]
  exact key _ r2

/-- **(b), greedy (adjacent-bin) aligner** (`cos` metric): for EVERY per-frequency permutation field `π` of the two-level
mask the aligned mask is the two-level mask in the class order of bin 0, in every bin -/
theorem twoLevel_restored_by_greedy {K F T : Nat} (c : Fin T → Fin K) (g h tiny : ℝ) (hh : 0 ≤ h)
    (hg : h < g) (hown : ∀ k, ∃ t, c t = k) (hsmall : 10 * (T : ℝ) * h ≤ g) (htiny : tiny ≤ g)
    (π : Fin F → Equiv.Perm (Fin K)) (k : Fin K) (f : Fin F) (t : Fin T) :
    applyMapping (at3 (permuted (twoLevelMask F c g h) π))
        (greedyAligner tiny .cos (permuted (twoLevelMask F c g h) π)) k f t
      = if c t = permAtBin π 0 k then g else h := by
  obtain ⟨h1, h2, h3, h4, h5, h6⟩ := twoLevel_patterns_in_domain F c g h tiny hh hg hown hsmall htiny
  rw [C16.greedyAligner_consistent_in_domain tiny (twoLevelPat c g h) (twoLevelMask F c g h) h1 h2 h3 h4 h5 h6 π k f t,
    at3_twoLevelMask]

end PbBss.Align

/-! ### non-vacuity of (a)/(b): K = 2, F = 3, T = 4, g = 99/100, h = 1/100 -/
namespace PbBss.Align.TwoLevelExample
open PbBss.Align

/-- owner sequence: frames 0, 1 belong to class 0, frames 2, 3 to class 1 -/
def c4 : Fin 4 → Fin 2 := ![0, 0, 1, 1]

theorem c4_own : ∀ k : Fin 2, ∃ t, c4 t = k := by
  intro k; fin_cases k
  · exact ⟨0, rfl⟩
  · exact ⟨2, rfl⟩

/-- the hypotheses of (a) hold (`10 · 4 · 1/100 = 2/5 ≤ 99/100`), alignment floor `tiny = 1/100` -/
example : (∀ k t, 0 ≤ twoLevelPat c4 (99/100) (1/100) k t) ∧
    (∀ k, 0 < nrm (twoLevelPat c4 (99/100) (1/100) k)) ∧
    (∀ k k', k' ≠ k → (∑ t, twoLevelPat c4 (99/100) (1/100) k' t * twoLevelPat c4 (99/100) (1/100) k t)
        ≤ 0.1 * (nrm (twoLevelPat c4 (99/100) (1/100) k') * nrm (twoLevelPat c4 (99/100) (1/100) k))) ∧
    (∀ k (f : Fin 3) t, 0.9 * twoLevelPat c4 (99/100) (1/100) k t ≤ at3 (twoLevelMask 3 c4 (99/100) (1/100)) k f t) ∧
    (∀ k (f : Fin 3) t, at3 (twoLevelMask 3 c4 (99/100) (1/100)) k f t ≤ 1.1 * twoLevelPat c4 (99/100) (1/100) k t) ∧
    (∀ k (f : Fin 3), (1/100 : ℝ) ≤ nrm (fun t => at3 (twoLevelMask 3 c4 (99/100) (1/100)) k f t)) :=
  twoLevel_patterns_in_domain 3 c4 (99/100) (1/100) (1/100) (by norm_num) (by norm_num) c4_own (by norm_num)
    (by norm_num)

/-- the inner product of the two class patterns is exactly `4·g·h` here (`n₀ = n₁ = 2`, `T = 4`) -/
example : (∑ t, twoLevelPat c4 (99/100) (1/100) 1 t * twoLevelPat c4 (99/100) (1/100) 0 t) = 4 * (99/100 * (1/100)) := by
  simp [Fin.sum_univ_four, twoLevelPat, c4]; norm_num

/-- the majority `{0, 1}` of the three bins with the one-segment plan `[(2 passes, bins 0..3)]` satisfies `PlanOk`, and
the plan covers every bin -/
theorem planOk3 : PlanOk 3 (0.81 / 1.21) (1.21 / 0.81 * 0.1) [(2, 0, 3)] ({0, 1} : Finset (Fin 3)) ∧
    ∀ f, f ∈ alignedAfter 3 [(2, 0, 3)] ({0, 1} : Finset (Fin 3)) :=
  ⟨planOkB_sound 3 [(2, 0, 3)] (fun f => decide (f.val < 2)) _ (by decide) (by decide),
    fun f => coversB_sound 3 [(2, 0, 3)] _ (by decide) f⟩

/-- DHTV: bins 0 and 1 share the order `σ₀`, bin 2 carries an ARBITRARY relabelling `τ`: in all three bins the mask
re-indexed by the DHTV mapping is the two-level mask in the order `σ₀` -/
example (algo : Algo) (σ0 τ : Equiv.Perm (Fin 2)) (f : Fin 3) (k : Fin 2) (t : Fin 4) :
    let π : Fin 3 → Equiv.Perm (Fin 2) := fun f => if f.val < 2 then σ0 else τ
    applyMapping (at3 (permuted (twoLevelMask 3 c4 (99/100) (1/100)) π))
        (at2 (dhtv (1/100) .cos algo [(2, 0, 3)] (permuted (twoLevelMask 3 c4 (99/100) (1/100)) π)).mapping) k f t
      = if c4 t = σ0 k then 99/100 else 1/100 := by
  intro π
  exact (twoLevel_restored_by_dhtv c4 (99/100) (1/100) (1/100) (by norm_num) (by norm_num) (by norm_num) c4_own
    (by norm_num) (by norm_num) algo [(2, 0, 3)] π σ0 {0, 1}
    (by intro f hf; fin_cases f <;> simp_all [π]) planOk3.1 f (planOk3.2 f) k).2.2 t

/-- greedy aligner: EVERY relabelling field over the three bins is undone (class order of bin 0) -/
example (π : Fin 3 → Equiv.Perm (Fin 2)) (f : Fin 3) (k : Fin 2) (t : Fin 4) :
    applyMapping (at3 (permuted (twoLevelMask 3 c4 (99/100) (1/100)) π))
        (greedyAligner (1/100) .cos (permuted (twoLevelMask 3 c4 (99/100) (1/100)) π)) k f t
      = if c4 t = π 0 k then 99/100 else 1/100 :=
  twoLevel_restored_by_greedy c4 (99/100) (1/100) (1/100) (by norm_num) (by norm_num) c4_own (by norm_num)
    (by norm_num) π k f t

end PbBss.Align.TwoLevelExample

/-! ### (c) the link: the EM posteriors of the cACG mixture lie in the domain of the alignment theorems -/
namespace PbBss.Align
open PbBss.Em PbBss.FixedPoint PbBss.FixedPoint.CacgChain PbBss.PipelineProof

section em
variable {K N D : Nat} {a : Fin (K+1) → Fin (D+1) → ℂ} {c : Fin N → Fin (K+1)} {z : Fin N → Fin (D+1) → ℂ}

/-- the posteriors of `F` frequency bins as one `(K+1, F, N)` mask: the EM posterior of the scene after `n` iterations from
the hard true partition, the same scene in every bin (the per-bin label order is scrambled afterwards by `permuted`) -/
noncomputable def emMask (F : Nat) (eigh : Tab (D+1) (Tab (D+1) ℂ) → Tab (D+1) (Tab (D+1) ℂ) × Tab (D+1) ℝ)
    (tiny floor : ℝ) (rule : WeightRule) (tie : Tying N) (eps : ℝ) (s : Fin N → ℝ) (c : Fin N → Fin (K+1))
    (z : Fin N → Fin (D+1) → ℂ) (n : Nat) : Tab3 (K+1) F N ℝ :=
  tab3 fun k _ t => eStep tiny (cacgFamily D eigh CovNorm.eigenvalue floor tiny)
    (fit tiny (cacgFamily D eigh CovNorm.eigenvalue floor tiny) rule tie eps s z n (hardStart c)) z k t

/-- a class of positive mass owns a frame -/
theorem own_of_classMass_pos (c : Fin N → Fin (K+1)) (s : Fin N → ℝ) (k : Fin (K+1)) (h : 0 < classMass c s k) :
    ∃ t, c t = k := by
  by_contra hno
  have hno' : ∀ t, c t ≠ k := fun t ht => hno ⟨t, ht⟩
  have : classMass c s k = 0 := by
    unfold classMass
    exact Finset.sum_eq_zero fun t _ => if_neg (hno' t)
  linarith

/-- the smallness condition of (a) for the EM levels: `h/g = 1/E`, so `10 · T ≤ E` suffices -/
theorem cacg_levels_small (K D N : Nat) (floor : ℝ) (hf0 : 0 < floor) (hf1 : floor < 1)
    (hE : 10 * (N : ℝ) ≤ ratioE D floor) : 10 * (N : ℝ) * cacgH K D floor ≤ cacgG K D floor := by
  have h1 : 1 < ratioE D floor := one_lt_ratioE D floor hf0 hf1
  have hK0 : (0 : ℝ) ≤ K := Nat.cast_nonneg K
  have h3 : 0 < ratioE D floor + K := by positivity
  unfold cacgG cacgH
  rw [mul_one_div]
  exact div_le_div_of_nonneg_right hE h3.le

/-- the upper level is at least the uniform share `1/(K+1)` (a convenient bound for the alignment floor `atiny`) -/
theorem inv_le_cacgG (K D : Nat) (floor : ℝ) (hf0 : 0 < floor) (hf1 : floor < 1) :
    1 / ((K : ℝ) + 1) ≤ cacgG K D floor := by
  obtain ⟨h1, h2, h3⟩ := cacg_levels K D floor hf0 hf1
  have hK0 : (0 : ℝ) ≤ K := Nat.cast_nonneg K
  rw [div_le_iff₀ (by positivity)]
  nlinarith

/-- **(c), part 1**: after every number `n ≥ 1` of EM iterations the mask of EM posteriors IS the two-level mask of (a)
with `g = cacgG K D floor = E/(E+K)`, `h = cacgH K D floor = 1/(E+K)` and the true owner sequence `c` -/
theorem emMask_eq_twoLevel (F : Nat) (eigh : Tab (D+1) (Tab (D+1) ℂ) → Tab (D+1) (Tab (D+1) ℂ) × Tab (D+1) ℝ)
    (tiny floor : ℝ) (rule : WeightRule) (tie : Tying N) (eps : ℝ) (s : Fin N → ℝ)
    (sc : Scene a c z) (heigh : EighOn eigh tiny z) (htiny : 0 < tiny)
    (h10 : ((10 : ℕ) : ℝ) * tiny ≤ 1) (ht : tiny ≤ 1 / ((K+1 : ℕ) : ℝ)) (hf0 : 0 < floor) (hf1 : floor < 1)
    (htie : tie.uniform = true) (S : ℝ) (hS : tiny ≤ S) (hbal : ∀ k, classMass c s k = S) (n : Nat) (hn : 1 ≤ n) :
    emMask F eigh tiny floor rule tie eps s c z n = twoLevelMask F c (cacgG K D floor) (cacgH K D floor) := by
  unfold emMask twoLevelMask
  congr 1
  funext k _ t
  exact (cacg_trajectory_stationary eigh tiny floor rule tie eps s sc heigh htiny h10 ht hf0 hf1 htie S hS hbal n hn).2 k t

/-- **(c), part 2**: the EM posteriors satisfy every hypothesis of the C16 domain theorems whenever
`10 · T ≤ E = ratioE D floor = floor^{-(D+1)}` (`T = N` frames) and the alignment floor is `atiny ≤ g` -/
theorem em_posteriors_in_domain (F : Nat)
    (eigh : Tab (D+1) (Tab (D+1) ℂ) → Tab (D+1) (Tab (D+1) ℂ) × Tab (D+1) ℝ)
    (tiny floor : ℝ) (rule : WeightRule) (tie : Tying N) (eps : ℝ) (s : Fin N → ℝ)
    (sc : Scene a c z) (heigh : EighOn eigh tiny z) (htiny : 0 < tiny)
    (h10 : ((10 : ℕ) : ℝ) * tiny ≤ 1) (ht : tiny ≤ 1 / ((K+1 : ℕ) : ℝ)) (hf0 : 0 < floor) (hf1 : floor < 1)
    (htie : tie.uniform = true) (S : ℝ) (hS : tiny ≤ S) (hbal : ∀ k, classMass c s k = S) (n : Nat) (hn : 1 ≤ n)
    (hE : 10 * (N : ℝ) ≤ ratioE D floor) (atiny : ℝ) (hat : atiny ≤ cacgG K D floor) :
    let pat := twoLevelPat c (cacgG K D floor) (cacgH K D floor)
    let base := emMask F eigh tiny floor rule tie eps s c z n
    (∀ k t, 0 ≤ pat k t) ∧ (∀ k, 0 < nrm (pat k)) ∧
    (∀ k k', k' ≠ k → (∑ t, pat k' t * pat k t) ≤ 0.1 * (nrm (pat k') * nrm (pat k))) ∧
    (∀ k (f : Fin F) t, 0.9 * pat k t ≤ at3 base k f t) ∧ (∀ k (f : Fin F) t, at3 base k f t ≤ 1.1 * pat k t) ∧
    (∀ k (f : Fin F), atiny ≤ nrm (fun t => at3 base k f t)) := by
  intro pat base
  have hb : base = twoLevelMask F c (cacgG K D floor) (cacgH K D floor) :=
    emMask_eq_twoLevel F eigh tiny floor rule tie eps s sc heigh htiny h10 ht hf0 hf1 htie S hS hbal n hn
  obtain ⟨_, hh0, hhg⟩ := cacg_levels K D floor hf0 hf1
  have hown : ∀ k, ∃ t, c t = k := fun k =>
    own_of_classMass_pos c s k (by rw [hbal k]; exact lt_of_lt_of_le htiny hS)
  rw [hb]
  exact twoLevel_patterns_in_domain F c _ _ atiny hh0.le hhg hown (cacg_levels_small K D N floor hf0 hf1 hE) hat

/-- **(c), the link EM → DHTV.**  Balanced noise-free orthonormal scene (hypotheses of `cacg_trajectory_stationary`), the
EM posteriors of `F` bins after ANY number `n ≥ 1` of iterations, relabelled bin by bin by an ARBITRARY permutation field
`π` (the permutation problem EM creates); `10 · T ≤ E = floor^{-(D+1)}`; alignment floor `0 < atiny ≤ g`; a majority `Al₀`
of bins sharing the order `σ₀` and a plan with `PlanOk`.  Then DHTV (`cos`) returns the order `σ₀` in every bin of
`alignedAfter`: the net reordering `π_f ∘ mapping[:, f]` is `σ₀` and the re-indexed posterior of class `k` is
`g` on the frames of source `σ₀ k` and `h` elsewhere. -/
theorem em_posteriors_restored_by_dhtv {F : Nat}
    (eigh : Tab (D+1) (Tab (D+1) ℂ) → Tab (D+1) (Tab (D+1) ℂ) × Tab (D+1) ℝ)
    (tiny floor : ℝ) (rule : WeightRule) (tie : Tying N) (eps : ℝ) (s : Fin N → ℝ)
    (sc : Scene a c z) (heigh : EighOn eigh tiny z) (htiny : 0 < tiny)
    (h10 : ((10 : ℕ) : ℝ) * tiny ≤ 1) (ht : tiny ≤ 1 / ((K+1 : ℕ) : ℝ)) (hf0 : 0 < floor) (hf1 : floor < 1)
    (htie : tie.uniform = true) (S : ℝ) (hS : tiny ≤ S) (hbal : ∀ k, classMass c s k = S) (n : Nat) (hn : 1 ≤ n)
    (hE : 10 * (N : ℝ) ≤ ratioE D floor) (atiny : ℝ) (hat0 : 0 < atiny) (hat : atiny ≤ cacgG K D floor)
    (algo : Algo) (plan : List (Nat × Nat × Nat)) (π : Fin F → Equiv.Perm (Fin (K+1))) (σ0 : Equiv.Perm (Fin (K+1)))
    (Al0 : Finset (Fin F)) (hAl : ∀ f ∈ Al0, π f = σ0)
    (hplan : PlanOk F (0.81 / 1.21) (1.21 / 0.81 * 0.1) plan Al0) :
    let base := emMask F eigh tiny floor rule tie eps s c z n
    ∀ f ∈ alignedAfter F plan Al0, ∀ k,
      (∀ t, at3 (dhtv atiny .cos algo plan (permuted base π)).features k f t = normRows atiny base (σ0 k) f t) ∧
      π f (at2 (dhtv atiny .cos algo plan (permuted base π)).mapping k f) = σ0 k ∧
      ∀ t, applyMapping (at3 (permuted base π)) (at2 (dhtv atiny .cos algo plan (permuted base π)).mapping) k f t
            = if c t = σ0 k then cacgG K D floor else cacgH K D floor := by
  intro base
  have hb : base = twoLevelMask F c (cacgG K D floor) (cacgH K D floor) :=
    emMask_eq_twoLevel F eigh tiny floor rule tie eps s sc heigh htiny h10 ht hf0 hf1 htie S hS hbal n hn
  obtain ⟨_, hh0, hhg⟩ := cacg_levels K D floor hf0 hf1
  have hown : ∀ k, ∃ t, c t = k := fun k =>
    own_of_classMass_pos c s k (by rw [hbal k]; exact lt_of_lt_of_le htiny hS)
  rw [hb]
  exact twoLevel_restored_by_dhtv c _ _ atiny hat0 hh0.le hhg hown (cacg_levels_small K D N floor hf0 hf1 hE) hat
    algo plan π σ0 Al0 hAl hplan

/-- **(c), the link EM → greedy (adjacent-bin) aligner**: same scene, no majority needed — for EVERY relabelling field `π`
the aligned posteriors carry the class order of bin 0 in every bin -/
theorem em_posteriors_restored_by_greedy {F : Nat}
    (eigh : Tab (D+1) (Tab (D+1) ℂ) → Tab (D+1) (Tab (D+1) ℂ) × Tab (D+1) ℝ)
    (tiny floor : ℝ) (rule : WeightRule) (tie : Tying N) (eps : ℝ) (s : Fin N → ℝ)
    (sc : Scene a c z) (heigh : EighOn eigh tiny z) (htiny : 0 < tiny)
    (h10 : ((10 : ℕ) : ℝ) * tiny ≤ 1) (ht : tiny ≤ 1 / ((K+1 : ℕ) : ℝ)) (hf0 : 0 < floor) (hf1 : floor < 1)
    (htie : tie.uniform = true) (S : ℝ) (hS : tiny ≤ S) (hbal : ∀ k, classMass c s k = S) (n : Nat) (hn : 1 ≤ n)
    (hE : 10 * (N : ℝ) ≤ ratioE D floor) (atiny : ℝ) (hat : atiny ≤ cacgG K D floor)
    (π : Fin F → Equiv.Perm (Fin (K+1))) (k : Fin (K+1)) (f : Fin F) (t : Fin N) :
    let base := emMask F eigh tiny floor rule tie eps s c z n
    applyMapping (at3 (permuted base π)) (greedyAligner atiny .cos (permuted base π)) k f t
      = if c t = permAtBin π 0 k then cacgG K D floor else cacgH K D floor := by
  intro base
  have hb : base = twoLevelMask F c (cacgG K D floor) (cacgH K D floor) :=
    emMask_eq_twoLevel F eigh tiny floor rule tie eps s sc heigh htiny h10 ht hf0 hf1 htie S hS hbal n hn
  obtain ⟨_, hh0, hhg⟩ := cacg_levels K D floor hf0 hf1
  have hown : ∀ k, ∃ t, c t = k := fun k =>
    own_of_classMass_pos c s k (by rw [hbal k]; exact lt_of_lt_of_le htiny hS)
  rw [hb]
  exact twoLevel_restored_by_greedy c _ _ atiny hh0.le hhg hown (cacg_levels_small K D N floor hf0 hf1 hE) hat π k f t

end em
end PbBss.Align

/-! ### non-vacuity of (c): the two-class scene on the standard basis of `ℂ²`, eigenvalue floor `1/10` (E = 100, T = 2) -/
namespace PbBss.Align.TwoLevelExample
open PbBss.Align PbBss.Em PbBss.FixedPoint PbBss.FixedPoint.CacgChain PbBss.PipelineProof

theorem ratioE_tenth : ratioE 1 (1/10) = 100 := by
  unfold ratioE
  have h : -((((1+1 : ℕ) : ℝ)) * Real.log (1/10)) = Real.log 100 := by
    rw [one_div, Real.log_inv, show (100 : ℝ) = 10 ^ (2 : ℕ) by norm_num, Real.log_pow]
    push_cast; ring
  rw [h, Real.exp_log (by norm_num)]

theorem cacgG_tenth : cacgG 1 1 (1/10) = 100/101 := by unfold cacgG; rw [ratioE_tenth]; norm_num
theorem cacgH_tenth : cacgH 1 1 (1/10) = 1/101 := by unfold cacgH; rw [ratioE_tenth]; norm_num

/-- all hypotheses of `em_posteriors_restored_by_dhtv` hold in the scene `scene2` (`tiny = 1/100` in EM and in the aligner,
`floor = 1/10`, so `10 · T = 20 ≤ 100 = E`; three bins, bins 0 and 1 in the order `σ₀`, bin 2 relabelled arbitrarily by `τ`):
after EVERY number `n ≥ 1` of EM iterations DHTV re-indexes the EM posteriors of all three bins to the order `σ₀`, with the
levels `100/101` and `1/101` -/
example (n : Nat) (hn : 1 ≤ n) (algo : Algo) (σ0 τ : Equiv.Perm (Fin 2)) (f : Fin 3) (k : Fin 2) (t : Fin 2) :
    let π : Fin 3 → Equiv.Perm (Fin 2) := fun f => if f.val < 2 then σ0 else τ
    let base : Tab3 2 3 2 ℝ := emMask 3 diagEigh (1/100) (1/10) WeightRule.mean ⟨true, 1, tab fun _ => 0⟩ 0
      (fun _ => 1) (fun m : Fin 2 => m) a2 n
    applyMapping (at3 (permuted base π)) (at2 (dhtv (1/100) .cos algo [(2, 0, 3)] (permuted base π)).mapping) k f t
      = if t = σ0 k then 100/101 else 1/101 := by
  intro π base
  have key := (em_posteriors_restored_by_dhtv (K := 1) (F := 3) diagEigh (1/100) (1/10) WeightRule.mean
    ⟨true, 1, tab fun _ => 0⟩ 0 (fun _ => 1) scene2 (eighOn2 _) (by norm_num) (by norm_num) (by norm_num) (by norm_num)
    (by norm_num) rfl 1 (by norm_num) (fun k => by fin_cases k <;> simp [classMass]) n hn
    (by rw [ratioE_tenth]; norm_num) (1/100) (by norm_num) (by rw [cacgG_tenth]; norm_num) algo [(2, 0, 3)] π σ0 {0, 1}
    (by intro f hf; fin_cases f <;> simp_all [π]) planOk3.1 f (planOk3.2 f) k).2.2 t
  rw [cacgG_tenth, cacgH_tenth] at key
  exact key

/-- the same for the greedy aligner and EVERY relabelling field -/
example (n : Nat) (hn : 1 ≤ n) (π : Fin 3 → Equiv.Perm (Fin 2)) (f : Fin 3) (k : Fin 2) (t : Fin 2) :
    let base : Tab3 2 3 2 ℝ := emMask 3 diagEigh (1/100) (1/10) WeightRule.mean ⟨true, 1, tab fun _ => 0⟩ 0
      (fun _ => 1) (fun m : Fin 2 => m) a2 n
    applyMapping (at3 (permuted base π)) (greedyAligner (1/100) .cos (permuted base π)) k f t
      = if t = π 0 k then 100/101 else 1/101 := by
  intro base
  have key := em_posteriors_restored_by_greedy (K := 1) (F := 3) diagEigh (1/100) (1/10) WeightRule.mean
    ⟨true, 1, tab fun _ => 0⟩ 0 (fun _ => 1) scene2 (eighOn2 _) (by norm_num) (by norm_num) (by norm_num) (by norm_num)
    (by norm_num) rfl 1 (by norm_num) (fun k => by fin_cases k <;> simp [classMass]) n hn
    (by rw [ratioE_tenth]; norm_num) (1/100) (by rw [cacgG_tenth]; norm_num) π k f t
  rw [cacgG_tenth, cacgH_tenth] at key
  exact key

end PbBss.Align.TwoLevelExample

import PbBss.Proofs.EmProof
/-! # EM monotonicity for the generic EM model `PbBss.Em` (C02)

`em_step_monotone`: one EM iteration of the model (`emStep` = `_predict` then `_m_step`) does not decrease the
saliency-weighted observed-data log-likelihood, provided
* the numerical guards are inactive at the current iterate (E-step denominator clamp, weights positive),
* the component M-step does not decrease the component part of `Q` (`CompImproves`; discharged per family in
  `EmGauss.lean`, `EmWatson.lean`, `EmCacg.lean`).
`em_monotone`: induction over the iteration count of `fit`. -/
open PbBss PbBss.Em Finset

namespace PbBss.EmProof

section post
variable {Θ Y : Type} {K N : Nat}

theorem joint_sum_pos (fam : Family Θ Y ℝ) (θ : Mixture Θ ℝ (K+1) N) (y : Fin N → Y) (hw : ∀ k n, 0 < θ.w k n)
    (n : Fin N) : 0 < ∑ j, joint fam θ y j n :=
  Finset.sum_pos (fun j _ => joint_pos fam θ y hw j n) Finset.univ_nonempty

theorem post_pos (fam : Family Θ Y ℝ) (θ : Mixture Θ ℝ (K+1) N) (y : Fin N → Y) (hw : ∀ k n, 0 < θ.w k n)
    (k : Fin (K+1)) (n : Fin N) : 0 < post fam θ y k n :=
  div_pos (joint_pos fam θ y hw k n) (joint_sum_pos fam θ y hw n)

theorem post_sum_one (fam : Family Θ Y ℝ) (θ : Mixture Θ ℝ (K+1) N) (y : Fin N → Y) (hw : ∀ k n, 0 < θ.w k n)
    (n : Fin N) : ∑ k, post fam θ y k n = 1 := by
  unfold post
  rw [← Finset.sum_div]
  exact div_self (joint_sum_pos fam θ y hw n).ne'

/-- `Q(θ, θ')` = weight part + component parts -/
theorem Qfun_split (fam : Family Θ Y ℝ) (s : Fin N → ℝ) (y : Fin N → Y) (θ θ' : Mixture Θ ℝ K N)
    (hw' : ∀ k n, 0 < θ'.w k n) :
    Qfun fam s y θ θ' = Wq s (post fam θ y) (fun k n => θ'.w k n)
      + ∑ k, compQ fam (fun n => post fam θ y k n * s n) y (θ'.c k) := by
  have hlog : ∀ k n, Real.log (joint fam θ' y k n) = Real.log (θ'.w k n) + fam.logPdf (θ'.c k) (y n) := by
    intro k n
    unfold joint
    rw [Real.log_mul (hw' k n).ne' (Real.exp_pos _).ne', Real.log_exp]
  unfold Qfun Wq compQ
  simp only [hlog]
  rw [Finset.sum_comm (f := fun k n => post fam θ y k n * s n * fam.logPdf (θ'.c k) (y n)),
    ← Finset.sum_add_distrib]
  refine Finset.sum_congr rfl fun n _ => ?_
  rw [Finset.mul_sum, Finset.mul_sum, ← Finset.sum_add_distrib]
  refine Finset.sum_congr rfl fun k _ => ?_
  ring

/-- abstract EM step: better weights (w.r.t. `Wq`) and better components (w.r.t. `compQ`) give a larger
log-likelihood -/
theorem em_step_abstract (fam : Family Θ Y ℝ) (s : Fin N → ℝ) (y : Fin N → Y) (θ θ' : Mixture Θ ℝ (K+1) N)
    (hs : ∀ n, 0 ≤ s n) (hw : ∀ k n, 0 < θ.w k n) (hw' : ∀ k n, 0 < θ'.w k n)
    (hW : Wq s (post fam θ y) (fun k n => θ.w k n) ≤ Wq s (post fam θ y) (fun k n => θ'.w k n))
    (hC : ∀ k, compQ fam (fun n => post fam θ y k n * s n) y (θ.c k)
        ≤ compQ fam (fun n => post fam θ y k n * s n) y (θ'.c k)) :
    logLik fam s θ y ≤ logLik fam s θ' y := by
  refine gem_step fam s y θ θ' hs hw hw' ?_
  rw [Qfun_split fam s y θ θ hw, Qfun_split fam s y θ θ' hw']
  exact add_le_add hW (Finset.sum_le_sum fun k _ => hC k)

end post

/-! ### The weight update of the model (`estimate_mixture_weight`) -/
section weights
variable {K N G : Nat}

theorem groupSum_nonneg (grp : Fin N → Fin G) (g : Fin G) (c : Fin N → ℝ) (hc : ∀ n, 0 ≤ c n) :
    0 ≤ groupSum grp g c := by
  rw [groupSum_eq]; exact Finset.sum_nonneg fun m _ => hc m

theorem groupSum_one (grp : Fin N → Fin G) (g : Fin G) :
    groupSum grp g (fun _ => (1 : ℝ)) = ((Finset.univ.filter (fun m => grp m = g)).card : ℝ) := by
  rw [groupSum_eq]; simp

theorem groupSum_one_pos (grp : Fin N → Fin G) (n : Fin N) : 0 < groupSum grp (grp n) (fun _ => (1 : ℝ)) := by
  rw [groupSum_one]
  exact_mod_cast Finset.card_pos.mpr ⟨n, by simp⟩

theorem sum_groupSum (grp : Fin N → Fin G) (g : Fin G) (c : Fin K → Fin N → ℝ) :
    ∑ k, groupSum grp g (c k) = groupSum grp g (fun m => ∑ k, c k m) := by
  simp only [groupSum_eq]
  rw [Finset.sum_comm]

/-- the `np.mean` rule (saliency `None`) gives the normalised group masses when the affiliations sum to one -/
theorem groupWeight_mean_eq (grp : Fin N → Fin G) (eps : ℝ) (γ : Fin K → Fin N → ℝ)
    (hγ1 : ∀ n, ∑ k, γ k n = 1) (g : Fin G) (k : Fin K) :
    groupWeight .mean grp eps γ (fun _ => 1) g k
      = groupSum grp g (fun m => γ k m * 1) / ∑ j, groupSum grp g (fun m => γ j m * 1) := by
  simp only [groupWeight, mul_one]
  rw [sum_groupSum]
  simp only [hγ1]

theorem absα_of_nonneg (x : ℝ) (hx : 0 ≤ x) : absα x = x := by
  unfold absα; exact max_eq_left (by linarith)

/-- the `_unit_norm(ord=1, eps_style='where')` rule (saliency given) gives the normalised group masses
whenever the resulting weight is positive (i.e. the `eps` fallback is not taken) -/
theorem groupWeight_unitNorm_eq (grp : Fin N → Fin G) (eps : ℝ) (γ : Fin K → Fin N → ℝ) (s : Fin N → ℝ)
    (hγ : ∀ k n, 0 ≤ γ k n) (hs : ∀ n, 0 ≤ s n) (g : Fin G) (k : Fin K)
    (hpos : 0 < groupWeight .unitNorm grp eps γ s g k) :
    groupWeight .unitNorm grp eps γ s g k
      = groupSum grp g (fun m => γ k m * s m) / ∑ j, groupSum grp g (fun m => γ j m * s m) := by
  have hM : ∀ j, 0 ≤ groupSum grp g (fun m => γ j m * s m) :=
    fun j => groupSum_nonneg grp g _ fun m => mul_nonneg (hγ j m) (hs m)
  simp only [groupWeight, rd_tab, vsum_eq_sum] at hpos ⊢
  simp only [absα_of_nonneg _ (hM _)] at hpos ⊢
  have hT : 0 ≤ ∑ j, groupSum grp g (fun m => γ j m * s m) := Finset.sum_nonneg fun j _ => hM j
  rcases hT.eq_or_lt with h0 | hp
  · exfalso
    have hz : groupSum grp g (fun m => γ k m * s m) = 0 :=
      (Finset.sum_eq_zero_iff_of_nonneg (fun j _ => hM j)).mp h0.symm k (Finset.mem_univ k)
    rw [hz, zero_div] at hpos
    exact lt_irrefl _ hpos
  · rw [if_pos hp]

theorem groupWeight_sum_le_one (rule : WeightRule) (grp : Fin N → Fin G) (eps : ℝ) (γ : Fin K → Fin N → ℝ)
    (s : Fin N → ℝ) (hγ : ∀ k n, 0 ≤ γ k n) (hs : ∀ n, 0 ≤ s n) (hγ1 : ∀ n, ∑ k, γ k n ≤ 1) (n : Fin N) :
    ∑ k, groupWeight rule grp eps γ s (grp n) k ≤ 1 := by
  cases rule with
  | mean =>
    simp only [groupWeight]
    rw [← Finset.sum_div, sum_groupSum, div_le_one (groupSum_one_pos grp n)]
    simp only [groupSum_eq]
    exact Finset.sum_le_sum fun m _ => hγ1 m
  | unitNorm =>
    have hM : ∀ j, 0 ≤ groupSum grp (grp n) (fun m => γ j m * s m) :=
      fun j => groupSum_nonneg grp _ _ fun m => mul_nonneg (hγ j m) (hs m)
    simp only [groupWeight, rd_tab, vsum_eq_sum]
    simp only [absα_of_nonneg _ (hM _)]
    have hT : 0 ≤ ∑ j, groupSum grp (grp n) (fun m => γ j m * s m) := Finset.sum_nonneg fun j _ => hM j
    rw [← Finset.sum_div]
    rcases hT.eq_or_lt with h0 | hp
    · rw [← h0]; simp
    · rw [if_pos hp, div_self hp.ne']
  | tinyFloor =>
    have hM : ∀ j, 0 ≤ groupSum grp (grp n) (fun m => γ j m * s m) :=
      fun j => groupSum_nonneg grp _ _ fun m => mul_nonneg (hγ j m) (hs m)
    simp only [groupWeight, rd_tab, vsum_eq_sum]
    have hT : 0 ≤ ∑ j, groupSum grp (grp n) (fun m => γ j m * s m) := Finset.sum_nonneg fun j _ => hM j
    rw [← Finset.sum_div]
    rcases (le_max_left (∑ j, groupSum grp (grp n) (fun m => γ j m * s m)) eps).eq_or_lt with h | h
    · rcases hT.eq_or_lt with h0 | hp
      · rw [← h0]; simp
      · rw [← h, div_self hp.ne']
    · have hpos : 0 < max (∑ j, groupSum grp (grp n) (fun m => γ j m * s m)) eps := lt_of_le_of_lt hT h
      rw [div_le_one hpos]; exact le_max_left _ _

theorem groupWeight_nonneg (rule : WeightRule) (grp : Fin N → Fin G) (eps : ℝ) (γ : Fin K → Fin N → ℝ)
    (s : Fin N → ℝ) (hγ : ∀ k n, 0 ≤ γ k n) (hs : ∀ n, 0 ≤ s n) (heps : 0 ≤ eps) (g : Fin G) (k : Fin K) :
    0 ≤ groupWeight rule grp eps γ s g k := by
  cases rule with
  | mean =>
    simp only [groupWeight]
    exact div_nonneg (groupSum_nonneg grp g _ (hγ k)) (groupSum_nonneg grp g _ fun _ => zero_le_one)
  | unitNorm =>
    have hM : ∀ j, 0 ≤ groupSum grp g (fun m => γ j m * s m) :=
      fun j => groupSum_nonneg grp g _ fun m => mul_nonneg (hγ j m) (hs m)
    simp only [groupWeight, rd_tab, vsum_eq_sum]
    simp only [absα_of_nonneg _ (hM _)]
    have hT : 0 ≤ ∑ j, groupSum grp g (fun m => γ j m * s m) := Finset.sum_nonneg fun j _ => hM j
    refine div_nonneg (hM k) ?_
    split_ifs <;> linarith
  | tinyFloor =>
    have hM : ∀ j, 0 ≤ groupSum grp g (fun m => γ j m * s m) :=
      fun j => groupSum_nonneg grp g _ fun m => mul_nonneg (hγ j m) (hs m)
    simp only [groupWeight, rd_tab, vsum_eq_sum]
    exact div_nonneg (hM k) (le_trans heps (le_max_right _ _))

/-- the inline update of the integration models (`sum / max(Σ_k sum, tiny)`) gives the normalised group masses when its
floor is inactive -/
theorem groupWeight_tinyFloor_eq (grp : Fin N → Fin G) (eps : ℝ) (γ : Fin K → Fin N → ℝ) (s : Fin N → ℝ)
    (g : Fin G) (k : Fin K) (hfloor : eps ≤ ∑ j, groupSum grp g (fun m => γ j m * s m)) :
    groupWeight .tinyFloor grp eps γ s g k
      = groupSum grp g (fun m => γ k m * s m) / ∑ j, groupSum grp g (fun m => γ j m * s m) := by
  simp only [groupWeight, rd_tab, vsum_eq_sum, max_eq_left hfloor]

end weights

/-! ### One EM iteration of the model -/
section step
variable {Θ Y : Type} {K N : Nat}

/-- the E-step's denominator clamp `max(·, tiny)` is inactive at `θ` -/
def ClampFree (tiny : ℝ) (fam : Family Θ Y ℝ) (θ : Mixture Θ ℝ (K+1) N) (y : Fin N → Y) : Prop :=
  ∀ n, tiny ≤ ∑ j, Real.exp (fam.logPdf (θ.c j) (y n) - vmax (fun j => fam.logPdf (θ.c j) (y n))) * θ.w j n

theorem eStep_eq_post' (tiny : ℝ) (fam : Family Θ Y ℝ) (θ : Mixture Θ ℝ (K+1) N) (y : Fin N → Y)
    (htiny : 0 < tiny) (hc : ClampFree tiny fam θ y) (k : Fin (K+1)) (n : Fin N) :
    eStep tiny fam θ y k n = post fam θ y k n := by
  unfold eStep post joint
  exact affiliation_bayes tiny _ _ (hc n) htiny k

/-- structural invariants of the weights of every model an M-step returns -/
structure WInv (tie : Tying N) (θ : Mixture Θ ℝ (K+1) N) : Prop where
  nonneg : ∀ k n, 0 ≤ θ.w k n
  sum_le : ∀ n, ∑ k, θ.w k n ≤ 1
  tied : ∀ k n m, rd tie.grp n = rd tie.grp m → θ.w k n = θ.w k m
  unif : tie.uniform = true → ∀ k n, θ.w k n = 1 / ((K+1 : ℕ) : ℝ)

theorem mStep_w_uniform (fam : Family Θ Y ℝ) (rule : WeightRule) (tie : Tying N) (eps : ℝ) (s : Fin N → ℝ)
    (y : Fin N → Y) (γ aux : Fin (K+1) → Fin N → ℝ) (hu : tie.uniform = true) (k : Fin (K+1)) (n : Fin N) :
    (mStep fam rule tie eps s y γ aux).w k n = 1 / ((K+1 : ℕ) : ℝ) := by
  simp [mStep, Mixture.w, mWeight, hu]

theorem mStep_w_grouped (fam : Family Θ Y ℝ) (rule : WeightRule) (tie : Tying N) (eps : ℝ) (s : Fin N → ℝ)
    (y : Fin N → Y) (γ aux : Fin (K+1) → Fin N → ℝ) (hu : tie.uniform = false) (k : Fin (K+1)) (n : Fin N) :
    (mStep fam rule tie eps s y γ aux).w k n = groupWeight rule (rd tie.grp) eps γ s (rd tie.grp n) k := by
  simp only [mStep, Mixture.w, mWeight, hu, Bool.false_eq_true, if_false, rd2_tab2]
  simp only [rd2, rd_tab]

theorem mStep_c (fam : Family Θ Y ℝ) (rule : WeightRule) (tie : Tying N) (eps : ℝ) (s : Fin N → ℝ)
    (y : Fin N → Y) (γ aux : Fin (K+1) → Fin N → ℝ) (k : Fin (K+1)) :
    (mStep fam rule tie eps s y γ aux).c k = fam.mstep N (fun n => γ k n * s n) (aux k) y := by
  simp [mStep, Mixture.c]

/-- every M-step output satisfies the structural weight invariants -/
theorem mStep_WInv (fam : Family Θ Y ℝ) (rule : WeightRule) (tie : Tying N) (eps : ℝ) (s : Fin N → ℝ)
    (y : Fin N → Y) (γ aux : Fin (K+1) → Fin N → ℝ) (hγ : ∀ k n, 0 ≤ γ k n) (hγ1 : ∀ n, ∑ k, γ k n ≤ 1)
    (hs : ∀ n, 0 ≤ s n) (heps : 0 ≤ eps) : WInv tie (mStep fam rule tie eps s y γ aux) := by
  cases hu : tie.uniform with
  | true =>
    refine ⟨fun k n => ?_, fun n => ?_, fun k n m _ => ?_, fun _ k n => mStep_w_uniform fam rule tie eps s y γ aux hu k n⟩
    · rw [mStep_w_uniform fam rule tie eps s y γ aux hu]; positivity
    · simp only [mStep_w_uniform fam rule tie eps s y γ aux hu]
      simp only [Finset.sum_const, Finset.card_univ, Fintype.card_fin, nsmul_eq_mul]
      rw [mul_one_div, div_self]
      exact_mod_cast Nat.succ_ne_zero K
    · rw [mStep_w_uniform fam rule tie eps s y γ aux hu, mStep_w_uniform fam rule tie eps s y γ aux hu]
  | false =>
    refine ⟨fun k n => ?_, fun n => ?_, fun k n m h => ?_, fun h => by rw [hu] at h; exact absurd h (by decide)⟩
    · rw [mStep_w_grouped fam rule tie eps s y γ aux hu]
      exact groupWeight_nonneg rule (rd tie.grp) eps γ s hγ hs heps _ k
    · simp only [mStep_w_grouped fam rule tie eps s y γ aux hu]
      exact groupWeight_sum_le_one rule (rd tie.grp) eps γ s hγ hs hγ1 n
    · rw [mStep_w_grouped fam rule tie eps s y γ aux hu, mStep_w_grouped fam rule tie eps s y γ aux hu, h]

/-- the component M-step of every class does not decrease its part of `Q(θ, ·)` (discharged per family) -/
def CompImproves (fam : Family Θ Y ℝ) (s : Fin N → ℝ) (y : Fin N → Y) (θ : Mixture Θ ℝ (K+1) N) : Prop :=
  ∀ k, compQ fam (fun n => post fam θ y k n * s n) y (θ.c k)
    ≤ compQ fam (fun n => post fam θ y k n * s n) y
        (fam.mstep N (fun n => post fam θ y k n * s n) (fun n => fam.aux (θ.c k) (y n)) y)

theorem emStep_eq (tiny : ℝ) (fam : Family Θ Y ℝ) (rule : WeightRule) (tie : Tying N) (eps : ℝ)
    (s : Fin N → ℝ) (y : Fin N → Y) (θ : Mixture Θ ℝ (K+1) N) (htiny : 0 < tiny)
    (hclamp : ClampFree tiny fam θ y) :
    emStep tiny fam rule tie eps s y θ
      = mStep fam rule tie eps s y (post fam θ y) (fun k n => fam.aux (θ.c k) (y n)) := by
  unfold emStep
  have h1 : rd2 (tab2 (eStep tiny fam θ y)) = post fam θ y := by
    funext k n; rw [rd2_tab2]; exact eStep_eq_post' tiny fam θ y htiny hclamp k n
  have h2 : rd2 (tab2 (eAux fam θ y)) = fun k n => fam.aux (θ.c k) (y n) := by
    funext k n; rw [rd2_tab2]; rfl
  simp only [h1, h2]

/-- the floor `max(Σ_k ·, tiny)` of the integration models' inline weight update is inactive at `θ` (vacuous for the two
rules of `estimate_mixture_weight`) -/
def FloorFree (rule : WeightRule) (tie : Tying N) (eps : ℝ) (fam : Family Θ Y ℝ) (s : Fin N → ℝ) (y : Fin N → Y)
    (θ : Mixture Θ ℝ (K+1) N) : Prop :=
  rule = .tinyFloor → ∀ n,
    eps ≤ ∑ j, groupSum (rd tie.grp) (rd tie.grp n) (fun m => post fam θ y j m * s m)

theorem floorFree_of_ne (rule : WeightRule) (tie : Tying N) (eps : ℝ) (fam : Family Θ Y ℝ) (s : Fin N → ℝ)
    (y : Fin N → Y) (θ : Mixture Θ ℝ (K+1) N) (h : rule ≠ .tinyFloor) : FloorFree rule tie eps fam s y θ :=
  fun hr => absurd hr h

/-- **One EM iteration does not decrease the (saliency-weighted) log-likelihood.** -/
theorem em_step_monotone (tiny : ℝ) (fam : Family Θ Y ℝ) (rule : WeightRule) (tie : Tying N) (eps : ℝ)
    (s : Fin N → ℝ) (y : Fin N → Y) (θ : Mixture Θ ℝ (K+1) N) (htiny : 0 < tiny) (hs : ∀ n, 0 ≤ s n)
    (hrule : rule = .mean → ∀ n, s n = 1) (hinv : WInv tie θ) (hw : ∀ k n, 0 < θ.w k n)
    (hclamp : ClampFree tiny fam θ y)
    (hw' : ∀ k n, 0 < (emStep tiny fam rule tie eps s y θ).w k n)
    (hfloor : FloorFree rule tie eps fam s y θ)
    (hcomp : CompImproves fam s y θ) :
    logLik fam s θ y ≤ logLik fam s (emStep tiny fam rule tie eps s y θ) y := by
  have hpost0 : ∀ k n, 0 ≤ post fam θ y k n := fun k n => (post_pos fam θ y hw k n).le
  refine em_step_abstract fam s y θ _ hs hw hw' ?_ ?_
  · -- weights
    rw [emStep_eq tiny fam rule tie eps s y θ htiny hclamp] at hw' ⊢
    cases hu : tie.uniform with
    | true =>
      refine le_of_eq ?_
      congr 1
      funext k n
      rw [hinv.unif hu k n, mStep_w_uniform _ _ _ _ _ _ _ _ hu]
    | false =>
      have hnew : (fun k n => (mStep fam rule tie eps s y (post fam θ y)
            (fun k n => fam.aux (θ.c k) (y n))).w k n)
          = fun k n => groupSum (rd tie.grp) (rd tie.grp n) (fun m => post fam θ y k m * s m)
              / ∑ j, groupSum (rd tie.grp) (rd tie.grp n) (fun m => post fam θ y j m * s m) := by
        funext k n
        have hp := hw' k n
        rw [mStep_w_grouped _ _ _ _ _ _ _ _ hu] at hp ⊢
        cases rule with
        | mean =>
          have hs1 : s = fun _ => 1 := funext (hrule rfl)
          subst hs1
          exact groupWeight_mean_eq (rd tie.grp) eps (post fam θ y) (post_sum_one fam θ y hw) _ k
        | unitNorm =>
          exact groupWeight_unitNorm_eq (rd tie.grp) eps (post fam θ y) s hpost0 hs _ k hp
        | tinyFloor =>
          exact groupWeight_tinyFloor_eq (rd tie.grp) eps (post fam θ y) s _ k (hfloor rfl n)
      rw [hnew]
      exact weights_maximise_Q (rd tie.grp) s (post fam θ y) (fun k n => θ.w k n) hs hpost0 hw
        hinv.tied hinv.sum_le
  · -- components
    intro k
    rw [emStep_eq tiny fam rule tie eps s y θ htiny hclamp, mStep_c]
    exact hcomp k

/-! ### Induction over the iteration count -/

theorem affiliation_nonneg' (tiny : ℝ) (w lp : Fin (K+1) → ℝ) (hw : ∀ k, 0 ≤ w k) (ht : 0 < tiny) (k : Fin (K+1)) :
    0 ≤ affiliation tiny w lp k := by
  unfold affiliation
  simp only [transc_exp_real, vsum_eq_sum]
  exact div_nonneg (mul_nonneg (Real.exp_pos _).le (hw k)) (le_trans ht.le (le_max_right _ _))

theorem affiliation_sum_le_one' (tiny : ℝ) (w lp : Fin (K+1) → ℝ) (_hw : ∀ k, 0 ≤ w k) (ht : 0 < tiny) :
    ∑ k, affiliation tiny w lp k ≤ 1 := by
  unfold affiliation
  simp only [transc_exp_real, vsum_eq_sum]
  rw [← Finset.sum_div]
  have hpos : 0 < max (∑ k, Real.exp (lp k - vmax lp) * w k) tiny := lt_of_lt_of_le ht (le_max_right _ _)
  rw [div_le_one hpos]
  exact le_max_left _ _

theorem iter_succ' {β : Type} (f : β → β) (n : Nat) (x : β) : iter f (n+1) x = f (iter f n x) := by
  induction n generalizing x with
  | zero => rfl
  | succ n ih => exact ih (f x)

theorem fit_one (tiny : ℝ) (fam : Family Θ Y ℝ) (rule : WeightRule) (tie : Tying N) (eps : ℝ)
    (s : Fin N → ℝ) (y : Fin N → Y) (γ₀ : Fin (K+1) → Fin N → ℝ) :
    fit tiny fam rule tie eps s y 1 γ₀ = mStep fam rule tie eps s y γ₀ (fun _ _ => 1) := rfl

/-- `fit (i+1) = emStep (fit i)` for `i ≥ 1`: the loop of `Trainer.fit` -/
theorem fit_succ (tiny : ℝ) (fam : Family Θ Y ℝ) (rule : WeightRule) (tie : Tying N) (eps : ℝ)
    (s : Fin N → ℝ) (y : Fin N → Y) (γ₀ : Fin (K+1) → Fin N → ℝ) (i : Nat) (hi : 1 ≤ i) :
    fit tiny fam rule tie eps s y (i+1) γ₀
      = emStep tiny fam rule tie eps s y (fit tiny fam rule tie eps s y i γ₀) := by
  obtain ⟨j, rfl⟩ : ∃ j, i = j + 1 := ⟨i - 1, by omega⟩
  unfold fit
  simp only [Nat.add_sub_cancel]
  exact iter_succ' _ _ _

/-- every iterate of `fit` satisfies the structural weight invariants -/
theorem fit_WInv (tiny : ℝ) (fam : Family Θ Y ℝ) (rule : WeightRule) (tie : Tying N) (eps : ℝ)
    (s : Fin N → ℝ) (y : Fin N → Y) (γ₀ : Fin (K+1) → Fin N → ℝ) (htiny : 0 < tiny) (hs : ∀ n, 0 ≤ s n)
    (heps : 0 ≤ eps) (hγ₀ : ∀ k n, 0 ≤ γ₀ k n) (hγ₀1 : ∀ n, ∑ k, γ₀ k n ≤ 1) (i : Nat) (hi : 1 ≤ i) :
    WInv tie (fit tiny fam rule tie eps s y i γ₀) := by
  induction i, hi using Nat.le_induction with
  | base => exact mStep_WInv fam rule tie eps s y γ₀ _ hγ₀ hγ₀1 hs heps
  | succ i hi ih =>
    rw [fit_succ tiny fam rule tie eps s y γ₀ i hi]
    unfold emStep
    refine mStep_WInv fam rule tie eps s y _ _ (fun k n => ?_) (fun n => ?_) hs heps
    · rw [rd2_tab2]; exact affiliation_nonneg' tiny _ _ (fun j => ih.nonneg j n) htiny k
    · simp only [rd2_tab2]; exact affiliation_sum_le_one' tiny _ _ (fun j => ih.nonneg j n) htiny

/-- **EM monotonicity** (C02): along every stretch `a ≤ i ≤ b` of the iteration history of one fit on which the
numerical guards are inactive — mixture weights positive, E-step denominator clamp inactive, and the component
M-step of the family is an exact / minorise-maximise step (`CompImproves`) — the saliency-weighted observed-data
log-likelihood of the iterates is non-decreasing.  Any number of iterations, any weight tying, any saliency `≥ 0`. -/
theorem em_monotone (tiny : ℝ) (fam : Family Θ Y ℝ) (rule : WeightRule) (tie : Tying N) (eps : ℝ)
    (s : Fin N → ℝ) (y : Fin N → Y) (γ₀ : Fin (K+1) → Fin N → ℝ) (htiny : 0 < tiny) (hs : ∀ n, 0 ≤ s n)
    (heps : 0 ≤ eps) (hrule : rule = .mean → ∀ n, s n = 1)
    (hγ₀ : ∀ k n, 0 ≤ γ₀ k n) (hγ₀1 : ∀ n, ∑ k, γ₀ k n ≤ 1)
    (a b : Nat) (ha : 1 ≤ a) (hab : a ≤ b)
    (hw : ∀ i, a ≤ i → i ≤ b → ∀ k n, 0 < (fit tiny fam rule tie eps s y i γ₀).w k n)
    (hclamp : ∀ i, a ≤ i → i < b → ClampFree tiny fam (fit tiny fam rule tie eps s y i γ₀) y)
    (hfloor : ∀ i, a ≤ i → i < b → FloorFree rule tie eps fam s y (fit tiny fam rule tie eps s y i γ₀))
    (hcomp : ∀ i, a ≤ i → i < b → CompImproves fam s y (fit tiny fam rule tie eps s y i γ₀)) :
    logLik fam s (fit tiny fam rule tie eps s y a γ₀) y ≤ logLik fam s (fit tiny fam rule tie eps s y b γ₀) y := by
  induction b, hab using Nat.le_induction with
  | base => exact le_refl _
  | succ b hab ih =>
    refine le_trans (ih (fun i h1 h2 => hw i h1 (by omega)) (fun i h1 h2 => hclamp i h1 (by omega))
      (fun i h1 h2 => hfloor i h1 (by omega)) (fun i h1 h2 => hcomp i h1 (by omega))) ?_
    have hb1 : 1 ≤ b := le_trans ha hab
    rw [fit_succ tiny fam rule tie eps s y γ₀ b hb1]
    refine em_step_monotone tiny fam rule tie eps s y _ htiny hs hrule
      (fit_WInv tiny fam rule tie eps s y γ₀ htiny hs heps hγ₀ hγ₀1 b hb1)
      (hw b hab (by omega)) (hclamp b hab (by omega)) ?_ (hfloor b hab (by omega))
      (hcomp b hab (by omega))
    rw [← fit_succ tiny fam rule tie eps s y γ₀ b hb1]
    exact hw (b+1) (by omega) (le_refl _)

end step

end PbBss.EmProof

namespace PbBss.EmProof

/-- product of two observation streams (GCACGMM with unit stream weights): if each stream's M-step does not
decrease its own component part of `Q`, neither does the joint M-step -/
theorem prod_mstep_improves {Θ₁ Θ₂ Y₁ Y₂ : Type} {N : Nat} (fam₁ : Family Θ₁ Y₁ ℝ) (fam₂ : Family Θ₂ Y₂ ℝ)
    (c aux : Fin N → ℝ) (y : Fin N → Y₁ × Y₂) (θ : Θ₁ × Θ₂)
    (h₁ : compQ fam₁ c (fun n => (y n).1) θ.1 ≤ compQ fam₁ c (fun n => (y n).1) (fam₁.mstep N c aux (fun n => (y n).1)))
    (h₂ : compQ fam₂ c (fun n => (y n).2) θ.2
        ≤ compQ fam₂ c (fun n => (y n).2) (fam₂.mstep N c (fun _ => 1) (fun n => (y n).2))) :
    compQ (prodFamily fam₁ fam₂) c y θ ≤ compQ (prodFamily fam₁ fam₂) c y ((prodFamily fam₁ fam₂).mstep N c aux y) := by
  have split : ∀ ϑ : Θ₁ × Θ₂, compQ (prodFamily fam₁ fam₂) c y ϑ
      = compQ fam₁ c (fun n => (y n).1) ϑ.1 + compQ fam₂ c (fun n => (y n).2) ϑ.2 := by
    intro ϑ
    simp only [compQ, prodFamily, mul_add, Finset.sum_add_distrib]
  rw [split, split]
  exact add_le_add h₁ h₂

end PbBss.EmProof

namespace PbBss.EmProof
section fitc
variable {Θ Y : Type} {K N : Nat}

/-- every component of every iterate is an output of the family's M-step -/
theorem fit_c_mstep (tiny : ℝ) (fam : Family Θ Y ℝ) (rule : WeightRule) (tie : Tying N) (eps : ℝ)
    (s : Fin N → ℝ) (y : Fin N → Y) (γ₀ : Fin (K+1) → Fin N → ℝ) (i : Nat) (hi : 1 ≤ i) (k : Fin (K+1)) :
    ∃ w aux, (fit tiny fam rule tie eps s y i γ₀).c k = fam.mstep N w aux y := by
  obtain ⟨j, rfl⟩ : ∃ j, i = j + 1 := ⟨i - 1, by omega⟩
  cases j with
  | zero => exact ⟨_, _, mStep_c fam rule tie eps s y γ₀ _ k⟩
  | succ j =>
    rw [fit_succ tiny fam rule tie eps s y γ₀ (j+1) (by omega)]
    unfold emStep
    exact ⟨_, _, mStep_c fam rule tie eps s y _ _ k⟩

/-- the components of iterate `i+1` are the M-step on the Bayes posterior of iterate `i` (clamp inactive) -/
theorem fit_succ_c (tiny : ℝ) (fam : Family Θ Y ℝ) (rule : WeightRule) (tie : Tying N) (eps : ℝ)
    (s : Fin N → ℝ) (y : Fin N → Y) (γ₀ : Fin (K+1) → Fin N → ℝ) (i : Nat) (hi : 1 ≤ i) (htiny : 0 < tiny)
    (hclamp : ClampFree tiny fam (fit tiny fam rule tie eps s y i γ₀) y) (k : Fin (K+1)) :
    (fit tiny fam rule tie eps s y (i+1) γ₀).c k
      = fam.mstep N (fun n => post fam (fit tiny fam rule tie eps s y i γ₀) y k n * s n)
          (fun n => fam.aux ((fit tiny fam rule tie eps s y i γ₀).c k) (y n)) y := by
  rw [fit_succ tiny fam rule tie eps s y γ₀ i hi, emStep_eq tiny fam rule tie eps s y _ htiny hclamp, mStep_c]

/-- `CACGMM._log_likelihood` (`logsumexp(log_pdf, b=weight)` summed) is the mixture log-likelihood with the
weights included -/
theorem logLikMethod_eq (fam : Family Θ Y ℝ) (θ : Mixture Θ ℝ (K+1) N) (y : Fin N → Y)
    (hw : ∀ k n, 0 < θ.w k n) :
    logLikMethod fam θ y = logLik fam (fun _ => 1) θ y := by
  unfold logLikMethod logLik
  simp only [vsum_eq_sum, rd_tab, transc_log_real, transc_exp_real, one_mul]
  refine Finset.sum_congr rfl fun n _ => ?_
  have hrd : rd (tab fun k => fam.logPdf (θ.c k) (y n)) = fun k => fam.logPdf (θ.c k) (y n) :=
    funext fun k => rd_tab _ k
  rw [hrd]
  set m := vmax (fun k => fam.logPdf (θ.c k) (y n))
  have h1 : ∑ k, θ.w k n * Real.exp (fam.logPdf (θ.c k) (y n) - m)
      = (∑ k, θ.w k n * Real.exp (fam.logPdf (θ.c k) (y n))) / Real.exp m := by
    rw [Finset.sum_div]
    refine Finset.sum_congr rfl fun k _ => ?_
    rw [Real.exp_sub]; ring
  have hpos : 0 < ∑ k, θ.w k n * Real.exp (fam.logPdf (θ.c k) (y n)) :=
    Finset.sum_pos (fun k _ => mul_pos (hw k n) (Real.exp_pos _)) Finset.univ_nonempty
  rw [h1, Real.log_div hpos.ne' (Real.exp_pos _).ne', Real.log_exp]
  ring

end fitc
end PbBss.EmProof

namespace PbBss.EmProof

/-- independent component parameters per leading index (`sliced`): the joint M-step improves if, for every slice `f`,
the base family's M-step on the weights restricted to that slice improves -/
theorem sliced_mstep_improves {Θ Y : Type} {N F : Nat} (fam : Family Θ Y ℝ) (c aux : Fin N → ℝ)
    (y : Fin N → Fin F × Y) (θ : Tab F Θ)
    (h : ∀ f, compQ fam (fun n => if (y n).1 = f then c n else 0) (fun n => (y n).2) (rd θ f)
        ≤ compQ fam (fun n => if (y n).1 = f then c n else 0) (fun n => (y n).2)
            (fam.mstep N (fun n => if (y n).1 = f then c n else 0) aux (fun n => (y n).2))) :
    compQ (sliced fam) c y θ ≤ compQ (sliced fam) c y ((sliced fam).mstep N c aux y) := by
  have split : ∀ ϑ : Tab F Θ, compQ (sliced fam) c y ϑ
      = ∑ f, compQ fam (fun n => if (y n).1 = f then c n else 0) (fun n => (y n).2) (rd ϑ f) := by
    intro ϑ
    simp only [compQ, sliced]
    rw [Finset.sum_comm]
    refine Finset.sum_congr rfl fun n _ => ?_
    simp only [ite_mul, zero_mul]
    rw [Finset.sum_ite_eq]
    simp
  rw [split, split]
  refine Finset.sum_le_sum fun f _ => ?_
  have hm : rd ((sliced fam).mstep N c aux y) f
      = fam.mstep N (fun n => if (y n).1 = f then c n else 0) aux (fun n => (y n).2) := by
    simp [sliced]
  rw [hm]
  exact h f

end PbBss.EmProof

import PbBss.Model.Greedy
import Mathlib.Data.Fintype.Card
import Mathlib.Data.Finset.Card
import Mathlib.Order.Basic
import Mathlib.Tactic

namespace PbBss
variable {α : Type} [LinearOrder α] {K : Nat}

/-- the argmax result is either the initial best or a member of the list -/
theorem argmaxOn_mem (s : Fin K → Fin K → Sc α) (l : List (Fin K × Fin K)) (b : Fin K × Fin K) :
    argmaxOn s l b = b ∨ argmaxOn s l b ∈ l := by
  induction l generalizing b with
  | nil => simp [argmaxOn]
  | cons p ps ih =>
    simp only [argmaxOn]
    rcases ih (if gtSc (s p.1 p.2) (s b.1 b.2) then p else b) with h | h
    · rw [h]; split <;> simp
    · right; exact List.mem_cons_of_mem _ h

/-- if some listed position (or the start) is unmasked then the argmax is unmasked -/
theorem argmaxOn_isSome (s : Fin K → Fin K → Sc α) (l : List (Fin K × Fin K)) (b : Fin K × Fin K)
    (h : (s b.1 b.2).isSome ∨ ∃ p ∈ l, (s p.1 p.2).isSome) :
    (s (argmaxOn s l b).1 (argmaxOn s l b).2).isSome := by
  induction l generalizing b with
  | nil => simpa [argmaxOn] using h
  | cons p ps ih =>
    simp only [argmaxOn]
    apply ih
    rcases h with h | ⟨q, hq, hs⟩
    · left
      split
      · rename_i hg
        cases hp : s p.1 p.2 <;> simp_all [gtSc]
      · exact h
    · rcases List.mem_cons.mp hq with rfl | hq
      · left
        split
        · exact hs
        · rename_i hg
          cases hb : s b.1 b.2
          · cases hq' : s q.1 q.2 <;> simp_all [gtSc]
          · simp
      · right; exact ⟨q, hq, hs⟩

theorem mem_allPos (p : Fin K × Fin K) : p ∈ allPos K := by
  simp [allPos, List.mem_flatMap]

structure Inv (s : Fin K → Fin K → Sc α) (rp : Fin K → Fin K) (R C : Finset (Fin K)) : Prop where
  masked : ∀ a b, s a b = none ↔ (a ∈ R ∨ b ∈ C)
  card : R.card = C.card
  inj : Set.InjOn rp R
  img : ∀ a ∈ R, rp a ∈ C

theorem greedyLoop_injective (hK : 0 < K) :
    ∀ (t : Nat) (s : Fin K → Fin K → Sc α) (rp : Fin K → Fin K) (R C : Finset (Fin K)),
      Inv s rp R C → R.card + t = K → Function.Injective (greedyLoop hK t s rp) := by
  intro t
  induction t with
  | zero =>
    intro s rp R C hI hc
    simp only [greedyLoop]
    have hR : R = Finset.univ := by
      apply Finset.eq_univ_of_card; simpa using hc
    intro a b hab
    exact hI.inj (by simp [hR]) (by simp [hR]) hab
  | succ t ih =>
    intro s rp R C hI hc
    simp only [greedyLoop]
    set p := argmaxOn s (allPos K) (⟨0, hK⟩, ⟨0, hK⟩) with hp
    -- there is an unmasked position
    have hRlt : R.card < K := by omega
    have hClt : C.card < K := by rw [← hI.card]; exact hRlt
    obtain ⟨a, ha⟩ : ∃ a, a ∉ R := by
      by_contra h; push_neg at h
      have : R = Finset.univ := Finset.eq_univ_iff_forall.mpr h
      simp [this] at hRlt
    obtain ⟨b, hb⟩ : ∃ b, b ∉ C := by
      by_contra h; push_neg at h
      have : C = Finset.univ := Finset.eq_univ_iff_forall.mpr h
      simp [this] at hClt
    have hsome : (s p.1 p.2).isSome := by
      apply argmaxOn_isSome
      right
      refine ⟨(a, b), mem_allPos _, ?_⟩
      have := (hI.masked a b).not.mpr (by simp [ha, hb])
      exact Option.isSome_iff_ne_none.mpr this
    have hpn : ¬ (p.1 ∈ R ∨ p.2 ∈ C) := by
      rw [← hI.masked]; exact Option.isSome_iff_ne_none.mp hsome
    push_neg at hpn
    apply ih (maskRC s p.1 p.2) _ (insert p.1 R) (insert p.2 C)
    · refine ⟨?_, ?_, ?_, ?_⟩
      · intro x y
        simp only [maskRC, Finset.mem_insert]
        by_cases hx : x = p.1 <;> by_cases hy : y = p.2 <;> simp [hx, hy, hI.masked]
      · rw [Finset.card_insert_of_notMem hpn.1, Finset.card_insert_of_notMem hpn.2, hI.card]
      · intro x hx y hy hxy
        simp only [Finset.coe_insert, Set.mem_insert_iff, Finset.mem_coe] at hx hy
        by_cases hx1 : x = p.1 <;> by_cases hy1 : y = p.1
        · rw [hx1, hy1]
        · simp only [hx1, hy1, if_true, if_false] at hxy
          have : y ∈ R := by tauto
          exact absurd (hxy ▸ hI.img y this) hpn.2
        · simp only [hx1, hy1, if_true, if_false] at hxy
          have : x ∈ R := by tauto
          exact absurd (hxy ▸ hI.img x this) hpn.2
        · simp only [hx1, hy1, if_false] at hxy
          exact hI.inj (by tauto) (by tauto) hxy
      · intro x hx
        simp only [Finset.mem_insert] at hx ⊢
        by_cases hx1 : x = p.1
        · simp [hx1]
        · simp only [hx1, if_false]; right; exact hI.img x (by tauto)
    · rw [Finset.card_insert_of_notMem hpn.1]; omega

/-- **C14 kernel**: for every finite score matrix the greedy assignment is a permutation. -/
theorem greedy_bijective (hK : 0 < K) (s : Fin K → Fin K → α) :
    Function.Bijective (greedy hK s) := by
  have hinj : Function.Injective (greedy hK s) := by
    unfold greedy
    apply greedyLoop_injective hK K _ _ ∅ ∅
    · exact ⟨by simp, rfl, by simp, by simp⟩
    · simp
  exact Finite.injective_iff_bijective.mp hinj

end PbBss

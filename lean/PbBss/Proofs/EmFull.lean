import PbBss.Proofs.EmGauss
import Mathlib.Analysis.Matrix.PosDef
import Mathlib.Analysis.Matrix.Order
import Mathlib.Analysis.Matrix.Spectrum
import Mathlib.LinearAlgebra.Matrix.PosDef
import Mathlib.LinearAlgebra.Matrix.Block
import Mathlib.LinearAlgebra.Matrix.NonsingularInverse
import Mathlib.Analysis.SpecialFunctions.Log.Basic
import Mathlib.Algebra.Order.Star.Real
import Mathlib.Tactic
/-! # The full-covariance Gaussian M-step maximises the component part of `Q` (C02)

`GaussianTrainer._fit` with `covariance_type = 'full'` as transcribed in `PbBss.Em` (`fullMstep`) against the
transcribed log-density `fullLogPdf` (whitening with the external `pchol` = sklearn's
`_compute_precision_cholesky` / `_compute_log_det_cholesky`).

Layer 1 (`card_add_log_det_le_trace_real`, `tri_crux`): real matrices, `D + 2 log det P + log det S ≤ tr(Pᵀ S P)`.
Layer 2 (`full_mstep_improves`): the model. -/
open PbBss PbBss.Em Finset Matrix

namespace PbBss.EmProof

/-! ## Layer 1: real matrices -/
section matrix
variable {n : Type} [Fintype n] [DecidableEq n]

/-- for a real positive definite matrix: `n + log det A ≤ tr A` (sum over eigenvalues of `x − 1 − log x ≥ 0`) -/
theorem card_add_log_det_le_trace_real (A : Matrix n n ℝ) (hA : A.PosDef) :
    (Fintype.card n : ℝ) + Real.log A.det ≤ A.trace := by
  have hH := hA.isHermitian
  have hdet : A.det = ∏ i, hH.eigenvalues i := by
    have h := hH.det_eq_prod_eigenvalues
    simpa using h
  have htr : A.trace = ∑ i, hH.eigenvalues i := by
    have h := hH.trace_eq_sum_eigenvalues
    simpa using h
  have hpos : ∀ i, 0 < hH.eigenvalues i := fun i => hA.eigenvalues_pos i
  rw [hdet, htr, Real.log_prod (fun i _ => (hpos i).ne')]
  have : ∀ i, 1 + Real.log (hH.eigenvalues i) ≤ hH.eigenvalues i := by
    intro i
    have := Real.log_le_sub_one_of_pos (hpos i)
    linarith
  calc (Fintype.card n : ℝ) + ∑ i, Real.log (hH.eigenvalues i)
      = ∑ i, (1 + Real.log (hH.eigenvalues i)) := by
        rw [Finset.sum_add_distrib]; simp
    _ ≤ ∑ i, hH.eigenvalues i := Finset.sum_le_sum fun i _ => this i

/-- crux of the full-covariance M-step: for an invertible whitening matrix `P` (precision `P Pᵀ`) and a positive
definite `S`: `n + 2 log det P + log det S ≤ tr(Pᵀ S P)` -/
theorem tri_crux (P S : Matrix n n ℝ) (hP : 0 < P.det) (hS : S.PosDef) :
    (Fintype.card n : ℝ) + 2 * Real.log P.det + Real.log S.det ≤ (Pᵀ * S * P).trace := by
  have hunit : IsUnit P := (Matrix.isUnit_iff_isUnit_det P).mpr (isUnit_iff_ne_zero.mpr hP.ne')
  have hinj : Function.Injective P.mulVec := Matrix.mulVec_injective_of_isUnit hunit
  have hA : (Pᴴ * S * P).PosDef := hS.conjTranspose_mul_mul_same hinj
  rw [Matrix.conjTranspose_eq_transpose_of_trivial] at hA
  have key := card_add_log_det_le_trace_real _ hA
  have hdet : (Pᵀ * S * P).det = P.det * P.det * S.det := by
    rw [det_mul, det_mul, det_transpose]; ring
  rw [hdet, Real.log_mul (mul_pos hP hP).ne' hS.det_pos.ne', Real.log_mul hP.ne' hP.ne'] at key
  linarith

end matrix

/-! ## Layer 2: the model -/
section model
variable {D N : Nat}

/-- a stored table as a real matrix -/
def tmat (t : Tab D (Tab D ℝ)) : Matrix (Fin D) (Fin D) ℝ := Matrix.of fun d e => rd2 t d e

@[simp] theorem tmat_apply (t : Tab D (Tab D ℝ)) (d e : Fin D) : tmat t d e = rd2 t d e := rfl

/-- recorded contract of the external `pchol` (sklearn `_compute_precision_cholesky(cov, 'full')` and
`_compute_log_det_cholesky`) on the covariance `cov`: `P` upper triangular with positive diagonal,
`(P Pᵀ) Σ = 1`, `ℓ = Σ_d log P_dd` -/
structure PcholOk {D : Nat} (cov : Tab D (Tab D ℝ)) (pe : Tab D (Tab D ℝ) × ℝ) : Prop where
  upper : ∀ d e : Fin D, e < d → rd2 pe.1 d e = 0
  diag_pos : ∀ d, 0 < rd2 pe.1 d d
  inv : ∀ d e, ∑ f, (∑ g, rd2 pe.1 d g * rd2 pe.1 f g) * rd2 cov f e = if d = e then 1 else 0
  logdet : pe.2 = ∑ d, Real.log (rd2 pe.1 d d)

/-- the part of the contract that does not mention the covariance: `P` upper triangular, positive diagonal,
`ℓ = Σ_d log P_dd` -/
structure PcholTri {D : Nat} (pe : Tab D (Tab D ℝ) × ℝ) : Prop where
  upper : ∀ d e : Fin D, e < d → rd2 pe.1 d e = 0
  diag_pos : ∀ d, 0 < rd2 pe.1 d d
  logdet : pe.2 = ∑ d, Real.log (rd2 pe.1 d d)

theorem PcholOk.tri {cov : Tab D (Tab D ℝ)} {pe : Tab D (Tab D ℝ) × ℝ} (h : PcholOk cov pe) : PcholTri pe :=
  ⟨h.upper, h.diag_pos, h.logdet⟩

theorem PcholTri.det_eq {pe : Tab D (Tab D ℝ) × ℝ} (h : PcholTri pe) :
    (tmat pe.1).det = ∏ d, rd2 pe.1 d d := by
  have hbt : (tmat pe.1).BlockTriangular id := fun i j hij => h.upper i j hij
  rw [Matrix.det_of_isUpperTriangular hbt]
  rfl

theorem PcholTri.det_pos {pe : Tab D (Tab D ℝ) × ℝ} (h : PcholTri pe) : 0 < (tmat pe.1).det := by
  rw [h.det_eq]
  exact Finset.prod_pos fun d _ => h.diag_pos d

theorem PcholTri.log_det {pe : Tab D (Tab D ℝ) × ℝ} (h : PcholTri pe) :
    Real.log (tmat pe.1).det = pe.2 := by
  rw [h.det_eq, h.logdet, Real.log_prod (fun d _ => (h.diag_pos d).ne')]

/-- `(P Pᵀ) Σ = 1` as matrices -/
theorem PcholOk.mul_eq_one {cov : Tab D (Tab D ℝ)} {pe : Tab D (Tab D ℝ) × ℝ} (h : PcholOk cov pe) :
    tmat pe.1 * (tmat pe.1)ᵀ * tmat cov = 1 := by
  ext d e
  rw [Matrix.mul_apply, Matrix.one_apply]
  rw [← h.inv d e]
  refine Finset.sum_congr rfl fun f _ => ?_
  rw [Matrix.mul_apply]
  rfl

/-! ### closed form of the log-density and of `compQ` -/

/-- weighted mean of the observations -/
noncomputable def wmean (c : Fin N → ℝ) (y : Fin N → Fin D → ℝ) : Fin D → ℝ :=
  fun d => (∑ n, c n * y n d) / ∑ n, c n

/-- coordinate `d` of the whitened vector, `(Pᵀ v)_d = Σ_e P[e][d]·v_e` -/
def proj (P : Tab D (Tab D ℝ)) (d : Fin D) (v : Fin D → ℝ) : ℝ := ∑ e, rd2 P e d * v e

/-- `Σ_n c_n ‖Pᵀ(y_n − μ)‖²` -/
def qsum (P : Tab D (Tab D ℝ)) (c : Fin N → ℝ) (y : Fin N → Fin D → ℝ) (μ : Fin D → ℝ) : ℝ :=
  ∑ d, ∑ n, c n * (proj P d (y n) - proj P d μ) ^ 2

theorem proj_sub (P : Tab D (Tab D ℝ)) (d : Fin D) (v w : Fin D → ℝ) :
    proj P d v - proj P d w = ∑ e, rd2 P e d * (v e - w e) := by
  unfold proj
  rw [← Finset.sum_sub_distrib]
  exact Finset.sum_congr rfl fun e _ => by ring

theorem fullLogPdf_eq (pchol : Tab D (Tab D ℝ) → Tab D (Tab D ℝ) × ℝ) (log2pi : ℝ) (θ : FullG ℝ D)
    (y : Fin D → ℝ) :
    fullLogPdf pchol log2pi θ y
      = -(1 / 2 * (D : ℝ) * log2pi) + (pchol θ.cov).2
        - 1 / 2 * ∑ d, (proj (pchol θ.cov).1 d y - proj (pchol θ.cov).1 d (rd θ.mean)) ^ 2 := by
  have e4 : (1 : ℝ) / (1 + 1) = 1 / 2 := by norm_num
  simp only [fullLogPdf, vsum_eq_sum, half, rd_tab, proj_sub, e4, sq]

theorem full_compQ_eq (pchol : Tab D (Tab D ℝ) → Tab D (Tab D ℝ) × ℝ) (tiny log2pi : ℝ) (c : Fin N → ℝ)
    (y : Fin N → Fin D → ℝ) (θ : FullG ℝ D) :
    compQ (fullFamily D pchol tiny log2pi) c y θ
      = (∑ n, c n) * (-(1 / 2 * (D : ℝ) * log2pi) + (pchol θ.cov).2)
        - 1 / 2 * qsum (pchol θ.cov).1 c y (rd θ.mean) := by
  unfold compQ qsum
  simp only [fullFamily, fullLogPdf_eq]
  rw [Finset.sum_mul, Finset.sum_comm, Finset.mul_sum, ← Finset.sum_sub_distrib]
  refine Finset.sum_congr rfl fun n _ => ?_
  rw [mul_sub]
  congr 1
  simp only [Finset.mul_sum]
  exact Finset.sum_congr rfl fun d _ => by ring

/-! ### the M-step -/

theorem fullMstep_mean (tiny : ℝ) (c aux : Fin N → ℝ) (y : Fin N → Fin D → ℝ) (hC : tiny ≤ ∑ n, c n) :
    rd (fullMstep tiny N c aux y).mean = wmean c y := by
  funext d
  simp [fullMstep, gaussMean, vsum_eq_sum, max_eq_left hC, wmean]

theorem fullMstep_cov (tiny : ℝ) (c aux : Fin N → ℝ) (y : Fin N → Fin D → ℝ) (hC : tiny ≤ ∑ n, c n)
    (d e : Fin D) :
    rd2 (fullMstep tiny N c aux y).cov d e
      = (∑ n, c n * ((y n d - wmean c y d) * (y n e - wmean c y e))) / ∑ n, c n := by
  simp [fullMstep, gaussMean, vsum_eq_sum, max_eq_left hC, wmean]

/-- whitening commutes with the weighted mean -/
theorem proj_wmean (P : Tab D (Tab D ℝ)) (d : Fin D) (c : Fin N → ℝ) (y : Fin N → Fin D → ℝ) :
    proj P d (wmean c y) = (∑ n, c n * proj P d (y n)) / ∑ n, c n := by
  unfold proj wmean
  simp only [mul_div_assoc', ← Finset.sum_div, Finset.mul_sum]
  rw [Finset.sum_comm]
  congr 1
  exact Finset.sum_congr rfl fun n _ => Finset.sum_congr rfl fun e _ => by ring

/-- the weighted mean minimises `Σ_n c_n ‖Pᵀ(y_n − μ)‖²` over `μ`, for every `P` -/
theorem qsum_min (P : Tab D (Tab D ℝ)) (c : Fin N → ℝ) (y : Fin N → Fin D → ℝ) (hC : 0 < ∑ n, c n)
    (μ : Fin D → ℝ) : qsum P c y (wmean c y) ≤ qsum P c y μ := by
  unfold qsum
  refine Finset.sum_le_sum fun d _ => ?_
  rw [proj_wmean]
  exact PbBss.Trainers.wmean_min_1d c (fun n => proj P d (y n)) hC _

theorem quad_expand (p : Fin D → ℝ) (c : Fin N → ℝ) (r : Fin N → Fin D → ℝ) :
    ∑ n, c n * (∑ e, p e * r n e) ^ 2 = ∑ e, ∑ f, p e * p f * ∑ n, c n * (r n e * r n f) := by
  have h : ∀ n, c n * (∑ e, p e * r n e) ^ 2 = ∑ e, ∑ f, p e * p f * (c n * (r n e * r n f)) := by
    intro n
    rw [sq, Finset.sum_mul_sum, Finset.mul_sum]
    refine Finset.sum_congr rfl fun e _ => ?_
    rw [Finset.mul_sum]
    exact Finset.sum_congr rfl fun f _ => by ring
  simp only [h]
  rw [Finset.sum_comm]
  refine Finset.sum_congr rfl fun e _ => ?_
  rw [Finset.sum_comm]
  exact Finset.sum_congr rfl fun f _ => by rw [Finset.mul_sum]

theorem trace_whiten (P S : Matrix (Fin D) (Fin D) ℝ) :
    (Pᵀ * S * P).trace = ∑ d, ∑ e, ∑ f, P e d * P f d * S e f := by
  simp only [Matrix.trace, Matrix.diag_apply, Matrix.mul_apply, Matrix.transpose_apply, Finset.sum_mul]
  refine Finset.sum_congr rfl fun d _ => ?_
  rw [Finset.sum_comm]
  exact Finset.sum_congr rfl fun e _ => Finset.sum_congr rfl fun f _ => by ring

/-- `Σ_n c_n ‖Pᵀ(y_n − m)‖² = C · tr(Pᵀ S P)` when `C·S = Σ_n c_n (y_n − m)(y_n − m)ᵀ` -/
theorem qsum_eq_trace (P : Tab D (Tab D ℝ)) (c : Fin N → ℝ) (y : Fin N → Fin D → ℝ) (m : Fin D → ℝ)
    (S : Matrix (Fin D) (Fin D) ℝ)
    (hS : ∀ e f, (∑ n, c n) * S e f = ∑ n, c n * ((y n e - m e) * (y n f - m f))) :
    qsum P c y m = (∑ n, c n) * ((tmat P)ᵀ * S * tmat P).trace := by
  unfold qsum
  rw [trace_whiten, Finset.mul_sum]
  refine Finset.sum_congr rfl fun d _ => ?_
  simp only [proj_sub]
  rw [quad_expand (fun e => rd2 P e d) c (fun n e => y n e - m e), Finset.mul_sum]
  refine Finset.sum_congr rfl fun e _ => ?_
  rw [Finset.mul_sum]
  refine Finset.sum_congr rfl fun f _ => ?_
  rw [← hS e f]
  simp only [tmat_apply]
  ring

/-! ### the theorem -/

/-- **full-covariance Gaussian M-step** (strong form): the weighted mean and the weighted scatter maximise
`Σ_n c_n log p(y_n)`.  The old parameters enter only through the whitening matrix `pchol θ.cov`: it has to be upper
triangular with positive diagonal and `ℓ = Σ log P_dd` — its relation to `θ.cov` is not used. -/
theorem full_mstep_improves_of_tri (pchol : Tab D (Tab D ℝ) → Tab D (Tab D ℝ) × ℝ) (tiny log2pi : ℝ)
    (c aux : Fin N → ℝ) (y : Fin N → Fin D → ℝ) (θ : FullG ℝ D)
    (ht : 0 < tiny) (hC : tiny ≤ ∑ n, c n)
    (hP : PcholTri (pchol θ.cov))
    (hpd' : (tmat (fullMstep tiny N c aux y).cov).PosDef)
    (hP' : PcholOk (fullMstep tiny N c aux y).cov (pchol (fullMstep tiny N c aux y).cov)) :
    compQ (fullFamily D pchol tiny log2pi) c y θ
      ≤ compQ (fullFamily D pchol tiny log2pi) c y ((fullFamily D pchol tiny log2pi).mstep N c aux y) := by
  show _ ≤ compQ (fullFamily D pchol tiny log2pi) c y (fullMstep tiny N c aux y)
  have hCpos : 0 < ∑ n, c n := lt_of_lt_of_le ht hC
  rw [full_compQ_eq, full_compQ_eq, fullMstep_mean tiny c aux y hC]
  set θ' := fullMstep tiny N c aux y with hθ'
  set S := tmat θ'.cov with hS
  set pe := pchol θ.cov with hpe
  set pe' := pchol θ'.cov with hpe'
  have hSeq : ∀ e f, (∑ n, c n) * S e f
      = ∑ n, c n * ((y n e - wmean c y e) * (y n f - wmean c y f)) := by
    intro e f
    rw [hS, tmat_apply, hθ', fullMstep_cov tiny c aux y hC]
    field_simp
  have h1 := qsum_min pe.1 c y hCpos (rd θ.mean)
  have h2 := qsum_eq_trace pe.1 c y (wmean c y) S hSeq
  have h3 := qsum_eq_trace pe'.1 c y (wmean c y) S hSeq
  have h4 : ((tmat pe'.1)ᵀ * S * tmat pe'.1).trace = (D : ℝ) := by
    rw [Matrix.trace_mul_cycle, hP'.mul_eq_one, Matrix.trace_one, Fintype.card_fin]
  have h5 := tri_crux (tmat pe.1) S hP.det_pos hpd'
  rw [hP.log_det, Fintype.card_fin] at h5
  have h6 : 2 * pe'.2 + Real.log S.det = 0 := by
    have hd : (tmat pe'.1).det * (tmat pe'.1).det * S.det = 1 := by
      have := congrArg Matrix.det hP'.mul_eq_one
      rwa [det_mul, det_mul, det_transpose, det_one] at this
    have hp := hP'.tri.det_pos
    have hl := congrArg Real.log hd
    rw [Real.log_mul (mul_pos hp hp).ne' hpd'.det_pos.ne', Real.log_mul hp.ne' hp.ne', hP'.tri.log_det,
      Real.log_one] at hl
    linarith
  rw [h3, h4]
  rw [h2] at h1
  have h7 := mul_nonneg hCpos.le (sub_nonneg.mpr h5)
  nlinarith [h1, h7, h6]

/-- **full-covariance Gaussian M-step**: with the contract of the external `pchol` on the old and on the new
covariance, total weight `≥ tiny` (the `max(Σ saliency, tiny)` clamp is inactive) and a positive definite new
covariance (data in general position), the M-step does not decrease the component part of `Q`. -/
theorem full_mstep_improves (pchol : Tab D (Tab D ℝ) → Tab D (Tab D ℝ) × ℝ) (tiny log2pi : ℝ)
    (c aux : Fin N → ℝ) (y : Fin N → Fin D → ℝ) (θ : FullG ℝ D)
    (ht : 0 < tiny) (hC : tiny ≤ ∑ n, c n)
    (hP : PcholOk θ.cov (pchol θ.cov))
    (hpd' : (tmat (fullMstep tiny N c aux y).cov).PosDef)
    (hP' : PcholOk (fullMstep tiny N c aux y).cov (pchol (fullMstep tiny N c aux y).cov)) :
    compQ (fullFamily D pchol tiny log2pi) c y θ
      ≤ compQ (fullFamily D pchol tiny log2pi) c y ((fullFamily D pchol tiny log2pi).mstep N c aux y) :=
  full_mstep_improves_of_tri pchol tiny log2pi c aux y θ ht hC hP.tri hpd' hP'

/-! ### positive definiteness of the new covariance from the contract -/

/-- with weights `≥ 0` the new covariance is positive semi-definite -/
theorem fullMstep_cov_posSemidef (tiny : ℝ) (c aux : Fin N → ℝ) (y : Fin N → Fin D → ℝ) (ht : 0 < tiny)
    (hc : ∀ n, 0 ≤ c n) (hC : tiny ≤ ∑ n, c n) : (tmat (fullMstep tiny N c aux y).cov).PosSemidef := by
  have hCpos : 0 < ∑ n, c n := lt_of_lt_of_le ht hC
  have e : tmat (fullMstep tiny N c aux y).cov
      = (∑ n, c n)⁻¹ • ∑ n, c n • vecMulVec (fun d => y n d - wmean c y d) (star fun d => y n d - wmean c y d) := by
    ext d e
    rw [tmat_apply, fullMstep_cov tiny c aux y hC]
    simp only [Matrix.smul_apply, Matrix.sum_apply, vecMulVec_apply, star_trivial, smul_eq_mul]
    rw [div_eq_inv_mul]
  rw [e]
  refine PosSemidef.smul ?_ (inv_nonneg.mpr hCpos.le)
  exact posSemidef_sum _ fun n _ => PosSemidef.smul (posSemidef_vecMulVec_self_star _) (hc n)

/-- … and the contract of `pchol` on it (`(P Pᵀ) S = 1`) makes it positive definite -/
theorem fullMstep_cov_posDef (pchol : Tab D (Tab D ℝ) → Tab D (Tab D ℝ) × ℝ) (tiny : ℝ) (c aux : Fin N → ℝ)
    (y : Fin N → Fin D → ℝ) (ht : 0 < tiny) (hc : ∀ n, 0 ≤ c n) (hC : tiny ≤ ∑ n, c n)
    (hP' : PcholOk (fullMstep tiny N c aux y).cov (pchol (fullMstep tiny N c aux y).cov)) :
    (tmat (fullMstep tiny N c aux y).cov).PosDef := by
  refine (fullMstep_cov_posSemidef tiny c aux y ht hc hC).posDef_iff_det_ne_zero.mpr fun h0 => ?_
  have := congrArg Matrix.det hP'.mul_eq_one
  rw [det_mul, h0, mul_zero, det_one] at this
  exact zero_ne_one this

/-- **full-covariance Gaussian M-step**, weights `≥ 0`: the positive definiteness of the new covariance follows
from the contract of `pchol` on it. -/
theorem full_mstep_improves_of_nonneg (pchol : Tab D (Tab D ℝ) → Tab D (Tab D ℝ) × ℝ) (tiny log2pi : ℝ)
    (c aux : Fin N → ℝ) (y : Fin N → Fin D → ℝ) (θ : FullG ℝ D)
    (ht : 0 < tiny) (hc : ∀ n, 0 ≤ c n) (hC : tiny ≤ ∑ n, c n)
    (hP : PcholOk θ.cov (pchol θ.cov))
    (hP' : PcholOk (fullMstep tiny N c aux y).cov (pchol (fullMstep tiny N c aux y).cov)) :
    compQ (fullFamily D pchol tiny log2pi) c y θ
      ≤ compQ (fullFamily D pchol tiny log2pi) c y ((fullFamily D pchol tiny log2pi).mstep N c aux y) :=
  full_mstep_improves pchol tiny log2pi c aux y θ ht hC hP
    (fullMstep_cov_posDef pchol tiny c aux y ht hc hC hP') hP'

end model

/-! ### non-vacuity -/
section nonvacuity

/-- the exact 1×1 `pchol`: `P = [[1/√σ²]]`, `ℓ = log(1/√σ²)` -/
noncomputable def pchol1 (A : Tab 1 (Tab 1 ℝ)) : Tab 1 (Tab 1 ℝ) × ℝ :=
  (tab2 fun _ _ => 1 / Real.sqrt (rd2 A 0 0), Real.log (1 / Real.sqrt (rd2 A 0 0)))

/-- the 1×1 `pchol` satisfies the contract on every positive variance -/
theorem pchol1_ok (A : Tab 1 (Tab 1 ℝ)) (hA : 0 < rd2 A 0 0) : PcholOk A (pchol1 A) := by
  have hs : Real.sqrt (rd2 A 0 0) * Real.sqrt (rd2 A 0 0) = rd2 A 0 0 := Real.mul_self_sqrt hA.le
  have hs0 : 0 < Real.sqrt (rd2 A 0 0) := Real.sqrt_pos.mpr hA
  refine ⟨fun d e h => ?_, fun d => ?_, fun d e => ?_, ?_⟩
  · exact absurd h (by omega)
  · simp only [pchol1, rd2_tab2]
    positivity
  · obtain rfl : d = 0 := Subsingleton.elim _ _
    obtain rfl : e = 0 := Subsingleton.elim _ _
    simp only [pchol1, rd2_tab2, Finset.univ_unique, Fin.default_eq_zero, Finset.sum_singleton, if_true]
    field_simp
    linarith
  · simp [pchol1]

/-- two observations `0` and `2` in dimension 1 -/
def y2 : Fin 2 → Fin 1 → ℝ := fun n _ => if n = 0 then 0 else 2

/-- old parameters: mean `0`, covariance `[[1]]` -/
def θ1 : FullG ℝ 1 := ⟨tab fun _ => 0, tab2 fun _ _ => 1⟩

theorem cov2 (aux : Fin 2 → ℝ) (d e : Fin 1) :
    rd2 (fullMstep (1 / 100 : ℝ) 2 (fun _ => 1) aux y2).cov d e = 1 := by
  rw [fullMstep_cov _ _ _ _ (by simp; norm_num)]
  simp [wmean, y2, Fin.sum_univ_two]
  norm_num

/-- `D = 1`, observations `0, 2` with unit weights, `θ = (0, [[1]])`, exact 1×1 `pchol`, `tiny = 1/100`: all
hypotheses of `full_mstep_improves` hold (the new parameters are mean `1`, covariance `[[1]]`) -/
example (log2pi : ℝ) (aux : Fin 2 → ℝ) :
    compQ (fullFamily 1 pchol1 (1 / 100) log2pi) (fun _ : Fin 2 => (1 : ℝ)) y2 θ1
      ≤ compQ (fullFamily 1 pchol1 (1 / 100) log2pi) (fun _ : Fin 2 => (1 : ℝ)) y2
          ((fullFamily 1 pchol1 (1 / 100) log2pi).mstep 2 (fun _ => 1) aux y2) := by
  apply full_mstep_improves
  · norm_num
  · simp; norm_num
  · exact pchol1_ok _ (by simp [θ1])
  · have h : tmat (fullMstep (1 / 100 : ℝ) 2 (fun _ => 1) aux y2).cov = 1 := by
      ext d e
      rw [tmat_apply, cov2, Subsingleton.elim d e, Matrix.one_apply_eq]
    rw [h]
    exact Matrix.PosDef.one
  · exact pchol1_ok _ (by rw [cov2]; exact one_pos)

end nonvacuity

end PbBss.EmProof

import PbBss.Proofs.FixedPointCacgChain
import PbBss.Proofs.FixedPointSph
/-! The INTEGRATION model GCACGMM (`Em.prodFamily (cacgFamily …) (sphFamily …)`: a spatial cACG stream on complex
observations times a spectral spherical-Gaussian stream on real embeddings, unit stream weights) in the BALANCED
noise-free orthonormal scene: a complete `n`-step fixed-point theorem by induction over the EM loop `Em.fit`.

Scene: observation `n` is the pair `(z n, y n)`; `Scene a c z` (spatial stream: complex orthonormal prototypes `a`, unit
phases), `y n = b (c n)` (spectral stream: real orthonormal prototypes `b` as class means), the same true class `c` in both
streams; equal class masses `S`; uniform mixture weights; STRICTLY blurred start `twoLevel c g₀ h₀` with
`h₀ ≤ floor·g₀`.

Invariant (`GInv`): cACG components spiked on their prototypes with spectrum `(1, floor, …, floor)`; Gaussian means
`g·b_k + h·Σ_{j≠k} b_j`, one common variance `sphVar K E g h > 0`; uniform weights; posterior levels `(g, h)` with
`g + K h = 1`, `0 < h ≤ floor·g` (`LevOkG`).  The log-density gap between the true class and any other class is the SUM of
the two streams' gaps `−(D+1)·log floor + (g−h)/v`, so the next posterior is two-level with likelihood ratio
`R = floor^{−(D+1)}·exp((g−h)/v) ≥ floor^{−(D+1)}`, hence `h'/g' = 1/R ≤ floor^{D+1} ≤ floor`. -/
open PbBss PbBss.Em Finset PbBss.FixedPoint PbBss.FixedPoint.CacgChain

namespace PbBss.FixedPoint.Gcacg

/-! ### the second stream of a product mixture -/

/-- the mixture of the second-stream components (same weights) -/
def sndMix {Θ₁ Θ₂ : Type} {K N : Nat} (θ : Mixture (Θ₁ × Θ₂) ℝ K N) : Mixture Θ₂ ℝ K N :=
  ⟨θ.weight, tab fun k => (θ.c k).2⟩

theorem sndMix_c {Θ₁ Θ₂ : Type} {K N : Nat} (θ : Mixture (Θ₁ × Θ₂) ℝ K N) (k : Fin K) :
    (sndMix θ).c k = (θ.c k).2 := by
  simp [sndMix, Mixture.c]

/-! ### the posterior levels -/

/-- `floor · floor^{-(D+1)} = floor^{-D} ≥ 1` -/
theorem one_le_floor_mul_ratioE (D : Nat) (floor : ℝ) (hf0 : 0 < floor) (hf1 : floor < 1) :
    1 ≤ floor * ratioE D floor := by
  unfold ratioE
  have hlog := Real.log_neg hf0 hf1
  have hD : 0 ≤ (D : ℝ) * (-Real.log floor) := mul_nonneg (Nat.cast_nonneg D) (by linarith)
  calc (1:ℝ) = Real.exp 0 := Real.exp_zero.symm
    _ ≤ Real.exp (Real.log floor + -(((D+1 : ℕ) : ℝ) * Real.log floor)) :=
        Real.exp_le_exp.mpr (by push_cast; nlinarith)
    _ = floor * Real.exp (-(((D+1 : ℕ) : ℝ) * Real.log floor)) := by rw [Real.exp_add, Real.exp_log hf0]

/-- likelihood ratio true class : other class of a model satisfying the invariant at levels `p = (g, h)`:
`floor^{-(D+1)} · exp((g−h)/v(g,h))` (product of the two streams' ratios) -/
noncomputable def gRatio (D E K : Nat) (floor : ℝ) (p : ℝ × ℝ) : ℝ :=
  ratioE D floor * Real.exp ((p.1 - p.2) / sphVar K E p.1 p.2)

/-- the next two-level posterior computed from `(g, h)` by one M-step and one E-step -/
noncomputable def gNext (D E K : Nat) (floor : ℝ) (p : ℝ × ℝ) : ℝ × ℝ :=
  (gRatio D E K floor p / (gRatio D E K floor p + K), 1 / (gRatio D E K floor p + K))

/-- the two posterior levels the `i`-th M-step (`i = 0, 1, …`) is computed from -/
noncomputable def gLevSeq (D E K : Nat) (floor g₀ h₀ : ℝ) : Nat → ℝ × ℝ
  | 0 => (g₀, h₀)
  | i+1 => gNext D E K floor (gLevSeq D E K floor g₀ h₀ i)

/-- a proper strictly blurred two-level posterior whose leak is dominated by the eigenvalue floor -/
def LevOkG (K : Nat) (floor : ℝ) (p : ℝ × ℝ) : Prop := p.1 + K * p.2 = 1 ∧ 0 < p.2 ∧ p.2 ≤ floor * p.1

theorem LevOkG.pos {K : Nat} {floor : ℝ} {p : ℝ × ℝ} (h : LevOkG K floor p) (hf0 : 0 < floor) : 0 < p.1 := by
  by_contra hneg
  push Not at hneg
  have := h.2.1
  have := h.2.2
  nlinarith

theorem LevOkG.toS {K : Nat} {floor : ℝ} {p : ℝ × ℝ} (h : LevOkG K floor p) (hf0 : 0 < floor) (hf1 : floor < 1) :
    LevOkS K p := by
  have hp := h.pos hf0
  refine ⟨h.1, h.2.1, lt_of_le_of_lt h.2.2 ?_⟩
  nlinarith

theorem LevOkG.ge_inv {K : Nat} {floor : ℝ} {p : ℝ × ℝ} (h : LevOkG K floor p) (hf0 : 0 < floor) (hf1 : floor < 1) :
    1 / ((K+1 : ℕ) : ℝ) ≤ p.1 := by
  have hs := (h.toS hf0 hf1).2.2
  have hK0 : (0:ℝ) ≤ K := Nat.cast_nonneg K
  have := h.1
  rw [div_le_iff₀ (by positivity)]
  push_cast
  nlinarith

theorem one_le_gRatio (D E K : Nat) (hK : 1 ≤ K) (hE : 0 < E) (floor : ℝ) (hf0 : 0 < floor) (hf1 : floor < 1)
    (p : ℝ × ℝ) (hp : LevOkG K floor p) : ratioE D floor ≤ gRatio D E K floor p := by
  have hs := hp.toS hf0 hf1
  have hv := hs.var_pos E hK hE
  have hpos : 0 ≤ (p.1 - p.2) / sphVar K E p.1 p.2 := (div_pos (by linarith [hs.2.2]) hv).le
  have hexp : 1 ≤ Real.exp ((p.1 - p.2) / sphVar K E p.1 p.2) := Real.one_le_exp hpos
  have hR : 0 < ratioE D floor := lt_trans one_pos (one_lt_ratioE D floor hf0 hf1)
  unfold gRatio
  nlinarith

theorem levOkG_next (D E K : Nat) (hK : 1 ≤ K) (hE : 0 < E) (floor : ℝ) (hf0 : 0 < floor) (hf1 : floor < 1)
    (p : ℝ × ℝ) (hp : LevOkG K floor p) : LevOkG K floor (gNext D E K floor p) := by
  have hge := one_le_gRatio D E K hK hE floor hf0 hf1 p hp
  have h1 := one_lt_ratioE D floor hf0 hf1
  have hR : 0 < gRatio D E K floor p := by linarith
  have hK0 : (0:ℝ) ≤ K := Nat.cast_nonneg K
  have hden : 0 < gRatio D E K floor p + K := by linarith
  have hfl : 1 ≤ floor * gRatio D E K floor p :=
    le_trans (one_le_floor_mul_ratioE D floor hf0 hf1) (mul_le_mul_of_nonneg_left hge hf0.le)
  refine ⟨?_, ?_, ?_⟩
  · simp only [gNext]
    field_simp
  · simp only [gNext]
    positivity
  · simp only [gNext]
    rw [← mul_div_assoc]
    exact div_le_div_of_nonneg_right hfl hden.le

theorem levOkG_seq (D E K : Nat) (hK : 1 ≤ K) (hE : 0 < E) (floor : ℝ) (hf0 : 0 < floor) (hf1 : floor < 1)
    (g₀ h₀ : ℝ) (h0 : LevOkG K floor (g₀, h₀)) (i : Nat) : LevOkG K floor (gLevSeq D E K floor g₀ h₀ i) := by
  induction i with
  | zero => exact h0
  | succ i ih => exact levOkG_next D E K hK hE floor hf0 hf1 _ ih

/-! ### a generic E-step -/

/-- uniform mixture weights, class likelihoods `R·e^B` on the true class and `e^B` on every other class: the posterior
is two-level, `R/(R+K)` and `1/(R+K)` -/
theorem eStep_of_ratio {Θ Y : Type} {K N : Nat} (tiny : ℝ) (htiny : 0 < tiny) (ht : tiny ≤ 1 / ((K+1 : ℕ) : ℝ))
    (fam : Family Θ Y ℝ) (θ : Mixture Θ ℝ (K+1) N) (x : Fin N → Y) (c : Fin N → Fin (K+1))
    (hw : ∀ k n, θ.w k n = 1 / ((K+1 : ℕ) : ℝ)) (R B : ℝ) (hR : 0 < R) (n : Fin N)
    (hexp : ∀ j, Real.exp (fam.logPdf (θ.c j) (x n)) = (if c n = j then R else 1) * Real.exp B) (k : Fin (K+1)) :
    eStep tiny fam θ x k n = if c n = k then R / (R + K) else 1 / (R + K) := by
  rw [eStep_bayes tiny htiny _ θ _ (fun k n => by rw [hw]; exact ht)]
  simp only [hw, hexp]
  have hsum : ∑ j : Fin (K+1), 1 / ((K+1 : ℕ) : ℝ) * ((if c n = j then R else 1) * Real.exp B)
      = 1 / ((K+1 : ℕ) : ℝ) * Real.exp B * (R + K) := by
    rw [← sum_ite_one (c n) R, Finset.mul_sum]
    exact Finset.sum_congr rfl fun j _ => by ring
  rw [hsum]
  have h1 : (0:ℝ) < 1 / ((K+1 : ℕ) : ℝ) := by positivity
  have h2 : 0 < Real.exp B := Real.exp_pos _
  have h3 : 0 < R + K := by positivity
  split <;> field_simp

/-! ### the invariant, the E-step and the M-step -/
section chain
variable {K N D E : Nat} {a : Fin (K+1) → Fin (D+1) → ℂ} {b : Fin (K+1) → Fin E → ℝ} {c : Fin N → Fin (K+1)}
  {z : Fin N → Fin (D+1) → ℂ} {y : Fin N → Fin E → ℝ}
  (eigh : Tab (D+1) (Tab (D+1) ℂ) → Tab (D+1) (Tab (D+1) ℂ) × Tab (D+1) ℝ) (tiny floor tinyG log2pi : ℝ)
  (rule : WeightRule) (tie : Tying N) (eps : ℝ) (s : Fin N → ℝ)

/-- the two-stream family of GCACGMM (unit stream weights) -/
noncomputable abbrev gfam (D E : Nat)
    (eigh : Tab (D+1) (Tab (D+1) ℂ) → Tab (D+1) (Tab (D+1) ℂ) × Tab (D+1) ℝ) (tiny floor tinyG log2pi : ℝ) :
    Family (Cacg ℝ ℂ (D+1) × SphG ℝ E) ((Fin (D+1) → ℂ) × (Fin E → ℝ)) ℝ :=
  prodFamily (cacgFamily D eigh CovNorm.eigenvalue floor tiny) (sphFamily E tinyG log2pi)

/-- the invariant of the EM loop: every cACG component spiked on its prototype with spectrum `(1, floor, …, floor)`,
the Gaussian components balanced at levels `(g, h)` with common variance `v`, uniform mixture weights -/
def GInv (a : Fin (K+1) → Fin (D+1) → ℂ) (b : Fin (K+1) → Fin E → ℝ) (floor : ℝ)
    (θ : Mixture (Cacg ℝ ℂ (D+1) × SphG ℝ E) ℝ (K+1) N) (g h v : ℝ) : Prop :=
  (∀ k, Spiked (θ.c k).1 (a k) floor) ∧ SBalanced b (sndMix θ) g h v ∧ ∀ k n, θ.w k n = 1 / ((K+1 : ℕ) : ℝ)

/-- the class-independent part of the joint log-density of a model satisfying the invariant -/
noncomputable def gBase (K D E : Nat) (floor log2pi g h v : ℝ) : ℝ :=
  ((((D+1 : ℕ) : ℝ)) * Real.log floor - ((((D+1 : ℕ) : ℝ)) - 1) * Real.log floor) + sphBase K E log2pi g h v

/-- **joint log-density of a model satisfying the invariant**: a class-independent constant plus, on the true class,
the SUM of the two streams' gaps `−(D+1)·log floor + (g−h)/v` -/
theorem logPdf_ginv (sc : Scene a c z) (hb : OrthoProtoR b) (hy : ∀ n d, y n d = b (c n) d) (ht1 : tiny ≤ 1)
    (hf0 : 0 < floor) (hf1 : floor < 1) (θ : Mixture (Cacg ℝ ℂ (D+1) × SphG ℝ E) ℝ (K+1) N) (g h v : ℝ)
    (hinv : GInv a b floor θ g h v) (hv : 0 < v) (k : Fin (K+1)) (n : Fin N) :
    (gfam D E eigh tiny floor tinyG log2pi).logPdf (θ.c k) (z n, y n)
      = gBase K D E floor log2pi g h v
        + (if c n = k then -(((D+1 : ℕ) : ℝ) * Real.log floor) + (g - h) / v else 0) := by
  show cacgLogPdf tiny (θ.c k).1 (z n) + sphLogPdf log2pi (θ.c k).2 (y n) = _
  have h2 := sphLogPdf_balanced hb hy log2pi (sndMix θ) g h v hinv.2.1 hv k n
  rw [sndMix_c] at h2
  rw [cacgLogPdf_spiked sc tiny floor hf0 hf1 ht1 (θ.c k).1 k (hinv.1 k) n, h2]
  unfold gBase
  split <;> ring

/-- **posterior of a model satisfying the invariant**: `R/(R+K)` on the true class, `1/(R+K)` on every other class,
`R = floor^{-(D+1)}·exp((g−h)/v)` -/
theorem eStep_ginv (sc : Scene a c z) (hb : OrthoProtoR b) (hy : ∀ n d, y n d = b (c n) d) (htiny : 0 < tiny)
    (ht1 : tiny ≤ 1) (ht : tiny ≤ 1 / ((K+1 : ℕ) : ℝ)) (hf0 : 0 < floor) (hf1 : floor < 1)
    (θ : Mixture (Cacg ℝ ℂ (D+1) × SphG ℝ E) ℝ (K+1) N) (g h v : ℝ) (hinv : GInv a b floor θ g h v) (hv : 0 < v)
    (k : Fin (K+1)) (n : Fin N) :
    eStep tiny (gfam D E eigh tiny floor tinyG log2pi) θ (fun n => (z n, y n)) k n
      = if c n = k then ratioE D floor * Real.exp ((g - h) / v) / (ratioE D floor * Real.exp ((g - h) / v) + K)
        else 1 / (ratioE D floor * Real.exp ((g - h) / v) + K) := by
  have hRpos : 0 < ratioE D floor * Real.exp ((g - h) / v) :=
    mul_pos (lt_trans one_pos (one_lt_ratioE D floor hf0 hf1)) (Real.exp_pos _)
  refine eStep_of_ratio tiny htiny ht _ θ _ c hinv.2.2 _ (gBase K D E floor log2pi g h v) hRpos n (fun j => ?_) k
  show Real.exp ((gfam D E eigh tiny floor tinyG log2pi).logPdf (θ.c j) (z n, y n)) = _
  rw [logPdf_ginv eigh tiny floor tinyG log2pi sc hb hy ht1 hf0 hf1 θ g h v hinv hv j n, Real.exp_add, mul_comm]
  split
  · rw [Real.exp_add]; rfl
  · rw [Real.exp_zero]

/-- **the M-step of the product mixture on a two-level affiliation with two-level quadratic forms establishes the
invariant**: first stream = `cacgMstep_two_level` (quadratic forms `1` / `ρ`), second stream = `sphMstep_twoLevel` -/
theorem mStep_ginv (sc : Scene a c z) (hb : OrthoProtoR b) (hy : ∀ n d, y n d = b (c n) d)
    (heigh : EighOn eigh tiny z) (htiny : 0 < tiny) (h10 : ((10 : ℕ) : ℝ) * tiny ≤ 1) (hf1 : floor < 1)
    (htie : tie.uniform = true) (S : ℝ) (hS : tiny ≤ S) (hbal : ∀ k, classMass c s k = S) (hguard : tinyG ≤ S)
    (g h ρ : ℝ) (hgh : g + K * h = 1) (hg : tiny ≤ g) (hh : 0 ≤ h) (hρ : 1 ≤ ρ) (hdom : h / ρ ≤ floor * g)
    (aux : Fin (K+1) → Fin N → ℝ) (haux : ∀ k n, aux k n = if c n = k then 1 else ρ) :
    GInv a b floor (mStep (gfam D E eigh tiny floor tinyG log2pi) rule tie eps s (fun n => (z n, y n))
      (twoLevel c g h) aux) g h (sphVar K E g h) := by
  refine ⟨fun k => ?_, fun k => ?_, uniform_w_gen rule tie eps s _ _ htie _ aux⟩
  · rw [mStep_c]
    show Spiked (cacgMstep eigh CovNorm.eigenvalue floor tiny N (fun n => twoLevel c g h k n * s n) (aux k) z) (a k) floor
    have e2 : aux k = fun n => if c n = k then 1 else ρ := by funext n; rw [haux]
    rw [e2]
    exact cacgMstep_two_level sc eigh tiny floor heigh htiny h10 hf1 s S hS hbal g h ρ hgh hg hh hρ hdom k
  · rw [sndMix_c, mStep_c]
    exact sphMstep_twoLevel hb hy tinyG s S (lt_of_lt_of_le htiny hS) hbal g h hgh hguard k (fun _ => 1)

/-- **the invariant holds at every iterate of `Em.fit`** (GCACGMM, balanced noise-free scene, strictly blurred
two-level start with `h₀ ≤ floor·g₀`): induction over the EM loop -/
theorem gcacg_chain (sc : Scene a c z) (hb : OrthoProtoR b) (hy : ∀ n d, y n d = b (c n) d) (hK : 1 ≤ K)
    (heigh : EighOn eigh tiny z) (htiny : 0 < tiny) (h10 : ((10 : ℕ) : ℝ) * tiny ≤ 1)
    (ht : tiny ≤ 1 / ((K+1 : ℕ) : ℝ)) (hf0 : 0 < floor) (hf1 : floor < 1) (htie : tie.uniform = true)
    (S : ℝ) (hS : tiny ≤ S) (hbal : ∀ k, classMass c s k = S) (hguard : tinyG ≤ S)
    (g₀ h₀ : ℝ) (h0 : LevOkG K floor (g₀, h₀)) (i : Nat) :
    GInv a b floor
      (fit tiny (gfam D E eigh tiny floor tinyG log2pi) rule tie eps s (fun n => (z n, y n)) (i+1) (twoLevel c g₀ h₀))
      (gLevSeq D E K floor g₀ h₀ i).1 (gLevSeq D E K floor g₀ h₀ i).2
      (sphVar K E (gLevSeq D E K floor g₀ h₀ i).1 (gLevSeq D E K floor g₀ h₀ i).2) := by
  have hE := dim_pos_of_ortho hb
  have ht1 : tiny ≤ 1 := by
    have : (0:ℝ) ≤ ((10 : ℕ) : ℝ) * tiny - tiny := by push_cast; linarith
    linarith
  induction i with
  | zero =>
    rw [fit_one]
    exact mStep_ginv eigh tiny floor tinyG log2pi rule tie eps s sc hb hy heigh htiny h10 hf1 htie S hS hbal hguard
      g₀ h₀ 1 h0.1 (le_trans ht (h0.ge_inv hf0 hf1)) h0.2.1.le le_rfl (by rw [div_one]; exact h0.2.2) _
      (fun k n => by simp)
  | succ i ih =>
    rw [fit_succ, emStep_eq]
    have hok := levOkG_seq D E K hK hE floor hf0 hf1 g₀ h₀ h0 i
    have hok' := levOkG_seq D E K hK hE floor hf0 hf1 g₀ h₀ h0 (i+1)
    have hv := (hok.toS hf0 hf1).var_pos E hK hE
    have hγ : eStep tiny (gfam D E eigh tiny floor tinyG log2pi)
        (fit tiny (gfam D E eigh tiny floor tinyG log2pi) rule tie eps s (fun n => (z n, y n)) (i+1)
          (twoLevel c g₀ h₀)) (fun n => (z n, y n))
        = twoLevel c (gLevSeq D E K floor g₀ h₀ (i+1)).1 (gLevSeq D E K floor g₀ h₀ (i+1)).2 := by
      funext k n
      rw [eStep_ginv eigh tiny floor tinyG log2pi sc hb hy htiny ht1 ht hf0 hf1 _ _ _ _ ih hv k n]
      rfl
    rw [hγ]
    have hs' := (hok'.toS hf0 hf1).2.2
    refine mStep_ginv eigh tiny floor tinyG log2pi rule tie eps s sc hb hy heigh htiny h10 hf1 htie S hS hbal hguard
      _ _ (1 / floor) hok'.1 (le_trans ht (hok'.ge_inv hf0 hf1)) hok'.2.1.le ?_ ?_ _
      (fun k n => cacgQuad_spiked sc tiny floor hf0 hf1 ht1 _ k (ih.1 k) n)
    · rw [le_div_iff₀ hf0]; linarith
    · have e : ∀ x : ℝ, x / (1 / floor) = floor * x := fun x => by field_simp
      rw [e]
      exact mul_le_mul_of_nonneg_left hs'.le hf0.le

/-- a model satisfying the invariant (levels `h < g`, variance `v > 0`) ranks the true class strictly first -/
theorem ginv_argmax (sc : Scene a c z) (hb : OrthoProtoR b) (hy : ∀ n d, y n d = b (c n) d) (htiny : 0 < tiny)
    (ht1 : tiny ≤ 1) (ht : tiny ≤ 1 / ((K+1 : ℕ) : ℝ)) (hf0 : 0 < floor) (hf1 : floor < 1)
    (θ : Mixture (Cacg ℝ ℂ (D+1) × SphG ℝ E) ℝ (K+1) N) (g h v : ℝ) (hinv : GInv a b floor θ g h v) (hlt : h < g)
    (hv : 0 < v) (n : Fin N) :
    vargmax (fun k => eStep tiny (gfam D E eigh tiny floor tinyG log2pi) θ (fun n => (z n, y n)) k n) = c n := by
  refine vargmax_of_strict _ (c n) fun j hj => ?_
  rw [eStep_ginv eigh tiny floor tinyG log2pi sc hb hy htiny ht1 ht hf0 hf1 θ g h v hinv hv,
    eStep_ginv eigh tiny floor tinyG log2pi sc hb hy htiny ht1 ht hf0 hf1 θ g h v hinv hv,
    if_pos rfl, if_neg (Ne.symm hj)]
  have hE : 1 < ratioE D floor := one_lt_ratioE D floor hf0 hf1
  have hx : 1 ≤ Real.exp ((g - h) / v) := Real.one_le_exp (div_pos (by linarith) hv).le
  have hR : 1 < ratioE D floor * Real.exp ((g - h) / v) := by nlinarith
  have h3 : 0 < ratioE D floor * Real.exp ((g - h) / v) + K := by positivity
  exact div_lt_div_of_pos_right hR h3

end chain

/-! ### the theorems -/
section main
variable {K N D E : Nat} {a : Fin (K+1) → Fin (D+1) → ℂ} {b : Fin (K+1) → Fin E → ℝ} {c : Fin N → Fin (K+1)}
  {z : Fin N → Fin (D+1) → ℂ} {y : Fin N → Fin E → ℝ}

/-- **GCACGMM: the true partition is a stable EM fixed point of the balanced noise-free two-stream scene, for EVERY
number of iterations `n ≥ 1`**.
Model: `fit tiny fam …` with `fam = prodFamily (cacgFamily D eigh 'eigenvalue' floor tiny) (sphFamily E tinyG log2pi)`
(unit stream weights).  Scene: observation `n` is the pair `(z n, y n)`; spatial stream `Scene a c z` (complex
orthonormal prototypes, each observation its class prototype times a unit phase), spectral stream `y n = b (c n)` (real
orthonormal prototypes as class means), the same true class in both streams; `K+1 ≥ 2` classes of equal saliency mass
`S`; uniform mixture weights (`weight_constant_axis = -2`); `eigh` under its contract on the data (`EighOn`);
`0 < floor < 1`.  Start: the true partition STRICTLY blurred, `twoLevel c g₀ h₀`, `g₀ + K h₀ = 1`, `0 < h₀` (from the
hard start the Gaussian variance is exactly 0: no density) and `h₀ ≤ floor·g₀` (the first cACG covariance stays spiked).
Guards (as in the two single-stream theorems): `0 < tiny`, `10·tiny ≤ 1`, `tiny ≤ 1/(K+1)`, `tiny ≤ S`, `tinyG ≤ S`.
Then for every `n ≥ 1`, with `(g, h) = gLevSeq … (n-1)` the posterior levels the last M-step was computed from and
`v = sphVar K E g h`, the model `θ = fit n γ₀` has
* `g + K h = 1`, `0 < h ≤ floor·g` (hence `h < g`), `v > 0`;
* every cACG component spiked on its prototype `a k` with spectrum `(1, floor, …, floor)`;
* Gaussian means `m_k = g·b_k + h·Σ_{j≠k} b_j`, one common variance `v`, and `‖m_k − b_k‖² < ‖m_k − b_j‖²` (`j ≠ k`);
* arg-max of its E-step = the true class at every observation.
Proved by induction over the EM loop — no trajectory hypothesis. -/
theorem fixed_point_gcacg_balanced (sc : Scene a c z) (hb : OrthoProtoR b) (hy : ∀ n d, y n d = b (c n) d)
    (hK : 1 ≤ K) (eigh : Tab (D+1) (Tab (D+1) ℂ) → Tab (D+1) (Tab (D+1) ℂ) × Tab (D+1) ℝ)
    (tiny floor tinyG log2pi : ℝ) (heigh : EighOn eigh tiny z) (htiny : 0 < tiny)
    (h10 : ((10 : ℕ) : ℝ) * tiny ≤ 1) (ht : tiny ≤ 1 / ((K+1 : ℕ) : ℝ)) (hf0 : 0 < floor) (hf1 : floor < 1)
    (rule : WeightRule) (tie : Tying N) (htie : tie.uniform = true) (eps : ℝ) (s : Fin N → ℝ)
    (S : ℝ) (hS : tiny ≤ S) (hbal : ∀ k, classMass c s k = S) (hguard : tinyG ≤ S)
    (g₀ h₀ : ℝ) (hgh : g₀ + K * h₀ = 1) (hh0 : 0 < h₀) (hlt : h₀ ≤ floor * g₀) (n : Nat) (hn : 1 ≤ n) :
    let fam := prodFamily (cacgFamily D eigh CovNorm.eigenvalue floor tiny) (sphFamily E tinyG log2pi)
    let yz : Fin N → (Fin (D+1) → ℂ) × (Fin E → ℝ) := fun m => (z m, y m)
    let θ := fit tiny fam rule tie eps s yz n (twoLevel c g₀ h₀)
    let g := (gLevSeq D E K floor g₀ h₀ (n-1)).1
    let h := (gLevSeq D E K floor g₀ h₀ (n-1)).2
    let v := sphVar K E g h
    (g + K * h = 1 ∧ 0 < h ∧ h ≤ floor * g)
      ∧ h < g ∧ 0 < v
      ∧ (∀ k, Spiked (θ.c k).1 (a k) floor)
      ∧ (∀ k, (∀ d, rd (θ.c k).2.mean d = ∑ j, (if j = k then g else h) * b j d) ∧ (θ.c k).2.var = v)
      ∧ (∀ k j, j ≠ k → ∑ d, (rd (θ.c k).2.mean d - b k d) ^ 2 < ∑ d, (rd (θ.c k).2.mean d - b j d) ^ 2)
      ∧ ∀ obs, vargmax (fun k => eStep tiny fam θ yz k obs) = c obs := by
  intro fam yz θ g h v
  obtain ⟨i, rfl⟩ : ∃ i, n = i + 1 := ⟨n - 1, by omega⟩
  have hE := dim_pos_of_ortho hb
  have ht1 : tiny ≤ 1 := by
    have : (0:ℝ) ≤ ((10 : ℕ) : ℝ) * tiny - tiny := by push_cast; linarith
    linarith
  have h0 : LevOkG K floor (g₀, h₀) := ⟨hgh, hh0, hlt⟩
  have hok : LevOkG K floor (gLevSeq D E K floor g₀ h₀ i) := levOkG_seq D E K hK hE floor hf0 hf1 g₀ h₀ h0 i
  have hs := hok.toS hf0 hf1
  have hv : 0 < v := hs.var_pos E hK hE
  have hinv : GInv a b floor θ g h v :=
    gcacg_chain eigh tiny floor tinyG log2pi rule tie eps s sc hb hy hK heigh htiny h10 ht hf0 hf1 htie S hS hbal
      hguard g₀ h₀ h0 i
  have hsb : SBalanced b (sndMix θ) g h v := hinv.2.1
  refine ⟨hok, hs.2.2, hv, hinv.1, fun k => ?_, fun k j hj => ?_, fun obs => ?_⟩
  · have := hsb k
    rw [sndMix_c] at this
    exact this
  · have := sbalanced_points hb (sndMix θ) g h v hsb hs.2.2 k j hj
    rw [sndMix_c] at this
    exact this
  · exact ginv_argmax eigh tiny floor tinyG log2pi sc hb hy htiny ht1 ht hf0 hf1 θ g h v hinv hs.2.2 hv obs

/-- the quantities behind the ranking, at every iterate `n ≥ 1`: the joint log-density gap between the true class and
any other class is exactly the SUM of the two streams' gaps `−(D+1)·log floor + (g − h)/v > 0`; the quadratic forms
handed to the next M-step (`prodFamily.aux` = the cACG quadratic form) are `1` on the true class and `1/floor`
elsewhere; and the E-step of iterate `n` is the two-level posterior with the NEXT levels `g' = R/(R+K)`, `h' = 1/(R+K)`,
`R = floor^{-(D+1)}·exp((g−h)/v)` -/
theorem fixed_point_gcacg_balanced_values (sc : Scene a c z) (hb : OrthoProtoR b) (hy : ∀ n d, y n d = b (c n) d)
    (hK : 1 ≤ K) (eigh : Tab (D+1) (Tab (D+1) ℂ) → Tab (D+1) (Tab (D+1) ℂ) × Tab (D+1) ℝ)
    (tiny floor tinyG log2pi : ℝ) (heigh : EighOn eigh tiny z) (htiny : 0 < tiny)
    (h10 : ((10 : ℕ) : ℝ) * tiny ≤ 1) (ht : tiny ≤ 1 / ((K+1 : ℕ) : ℝ)) (hf0 : 0 < floor) (hf1 : floor < 1)
    (rule : WeightRule) (tie : Tying N) (htie : tie.uniform = true) (eps : ℝ) (s : Fin N → ℝ)
    (S : ℝ) (hS : tiny ≤ S) (hbal : ∀ k, classMass c s k = S) (hguard : tinyG ≤ S)
    (g₀ h₀ : ℝ) (hgh : g₀ + K * h₀ = 1) (hh0 : 0 < h₀) (hlt : h₀ ≤ floor * g₀) (n : Nat) (hn : 1 ≤ n) :
    let fam := prodFamily (cacgFamily D eigh CovNorm.eigenvalue floor tiny) (sphFamily E tinyG log2pi)
    let yz : Fin N → (Fin (D+1) → ℂ) × (Fin E → ℝ) := fun m => (z m, y m)
    let θ := fit tiny fam rule tie eps s yz n (twoLevel c g₀ h₀)
    let g := (gLevSeq D E K floor g₀ h₀ (n-1)).1
    let h := (gLevSeq D E K floor g₀ h₀ (n-1)).2
    let v := sphVar K E g h
    (∀ obs j, j ≠ c obs → fam.logPdf (θ.c (c obs)) (yz obs) - fam.logPdf (θ.c j) (yz obs)
          = -(((D+1 : ℕ) : ℝ) * Real.log floor) + (g - h) / v)
      ∧ 0 < -(((D+1 : ℕ) : ℝ) * Real.log floor) + (g - h) / v
      ∧ (∀ k obs, eAux fam θ yz k obs = if c obs = k then 1 else 1 / floor)
      ∧ eStep tiny fam θ yz
          = twoLevel c (gLevSeq D E K floor g₀ h₀ n).1 (gLevSeq D E K floor g₀ h₀ n).2 := by
  intro fam yz θ g h v
  obtain ⟨i, rfl⟩ : ∃ i, n = i + 1 := ⟨n - 1, by omega⟩
  have hE := dim_pos_of_ortho hb
  have ht1 : tiny ≤ 1 := by
    have : (0:ℝ) ≤ ((10 : ℕ) : ℝ) * tiny - tiny := by push_cast; linarith
    linarith
  have h0 : LevOkG K floor (g₀, h₀) := ⟨hgh, hh0, hlt⟩
  have hok : LevOkG K floor (gLevSeq D E K floor g₀ h₀ i) := levOkG_seq D E K hK hE floor hf0 hf1 g₀ h₀ h0 i
  have hs := hok.toS hf0 hf1
  have hv : 0 < v := hs.var_pos E hK hE
  have hinv : GInv a b floor θ g h v :=
    gcacg_chain eigh tiny floor tinyG log2pi rule tie eps s sc hb hy hK heigh htiny h10 ht hf0 hf1 htie S hS hbal
      hguard g₀ h₀ h0 i
  refine ⟨fun obs j hj => ?_, ?_, fun k obs => ?_, ?_⟩
  · show (gfam D E eigh tiny floor tinyG log2pi).logPdf (θ.c (c obs)) (z obs, y obs)
      - (gfam D E eigh tiny floor tinyG log2pi).logPdf (θ.c j) (z obs, y obs) = _
    rw [logPdf_ginv eigh tiny floor tinyG log2pi sc hb hy ht1 hf0 hf1 θ g h v hinv hv,
      logPdf_ginv eigh tiny floor tinyG log2pi sc hb hy ht1 hf0 hf1 θ g h v hinv hv, if_pos rfl,
      if_neg (Ne.symm hj)]
    ring
  · have hlog := Real.log_neg hf0 hf1
    have hD : (0:ℝ) < ((D+1 : ℕ) : ℝ) := by positivity
    have h1 : 0 < -(((D+1 : ℕ) : ℝ) * Real.log floor) := by nlinarith
    have hlt' : h < g := hs.2.2
    have h2 : 0 < (g - h) / v := div_pos (sub_pos.mpr hlt') hv
    linarith
  · exact cacgQuad_spiked sc tiny floor hf0 hf1 ht1 _ k (hinv.1 k) obs
  · funext k obs
    rw [eStep_ginv eigh tiny floor tinyG log2pi sc hb hy htiny ht1 ht hf0 hf1 θ g h v hinv hv k obs]
    rfl

/-! ### a concrete scene (non-vacuity) -/

/-- non-vacuity of `fixed_point_gcacg_balanced`: two classes; spatial stream on the standard basis of `ℂ²`
(`scene2`, `diagEigh` honours the `eigh` contract on every scatter matrix of this data, `tiny = 1/100`, `floor = 1/2`);
spectral stream on the standard basis of `ℝ²` as class means (`a2R`, `tinyG = 1/2`, `log2pi := 0`); one observation per
class, unit saliency; strictly blurred start `(4/5, 1/5)` (`1/5 ≤ 1/2 · 4/5`) — the conclusion for ALL `n ≥ 1` -/
example (n : Nat) (hn : 1 ≤ n) (obs : Fin 2) :
    vargmax (fun k => eStep (1/100)
      (prodFamily (cacgFamily 1 diagEigh CovNorm.eigenvalue (1/2) (1/100)) (sphFamily 2 (1/2) 0))
      (fit (1/100) (prodFamily (cacgFamily 1 diagEigh CovNorm.eigenvalue (1/2) (1/100)) (sphFamily 2 (1/2) 0))
        WeightRule.tinyFloor ⟨true, 1, tab fun _ => 0⟩ 0 (fun _ => 1) (fun m : Fin 2 => (a2 m, a2R m)) n
        (twoLevel (fun m : Fin 2 => m) (4/5) (1/5))) (fun m : Fin 2 => (a2 m, a2R m)) k obs) = obs :=
  (fixed_point_gcacg_balanced (K := 1) (c := fun m : Fin 2 => m) scene2 ortho_a2R (fun _ _ => rfl) le_rfl diagEigh
    (1/100) (1/2) (1/2) 0 (eighOn2 _) (by norm_num) (by norm_num) (by norm_num) (by norm_num) (by norm_num)
    WeightRule.tinyFloor ⟨true, 1, tab fun _ => 0⟩ rfl 0 (fun _ => 1) 1 (by norm_num)
    (fun k => by fin_cases k <;> simp [classMass]) (by norm_num)
    (4/5) (1/5) (by norm_num) (by norm_num) (by norm_num) n hn).2.2.2.2.2.2 obs

end main

end PbBss.FixedPoint.Gcacg

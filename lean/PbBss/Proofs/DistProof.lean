import PbBss.Model.Dist
import PbBss.Proofs.RealInst
import Mathlib.LinearAlgebra.Matrix.Block
import Mathlib.LinearAlgebra.Matrix.NonsingularInverse
import Mathlib.LinearAlgebra.Matrix.PosDef
import Mathlib.Analysis.Matrix.PosDef
import Mathlib.Analysis.SpecialFunctions.Pow.Real
import Mathlib.Probability.Distributions.Gaussian.Real
import Mathlib.MeasureTheory.Integral.Pi
import Mathlib.MeasureTheory.Integral.Gamma
import Mathlib.MeasureTheory.Measure.Lebesgue.EqHaar
import Mathlib.RingTheory.Norm.Transitivity
import Mathlib.RingTheory.Complex
import Mathlib.Analysis.Matrix.Order
import Mathlib.MeasureTheory.Constructions.HaarToSphere
import Mathlib.MeasureTheory.Integral.Prod
import Mathlib.MeasureTheory.Measure.Haar.InnerProductSpace
import Mathlib.Analysis.InnerProductSpace.PiL2
import Mathlib.LinearAlgebra.Complex.FiniteDimensional
import Mathlib.Tactic
/-! Helper lemmas for property C07 (`Props/C07.lean`): bridges from the executable folds of `Model/Dist.lean` to
Mathlib's `∑`, `∏`, `^`, `!`, and the algebra behind each closed form. -/
open PbBss PbBss.Dist Matrix
open scoped BigOperators

namespace PbBss.Dist

/-! ### folds -/

theorem npow_eq_pow {M : Type} [Monoid M] (x : M) (n : Nat) : npow x n = x ^ n := by
  unfold npow
  induction n with
  | zero => simp [Fin.foldl_zero]
  | succ n ih => rw [Fin.foldl_succ_last, ih, pow_succ]

theorem vprod_eq_prod {M : Type} [CommMonoid M] {n : Nat} (f : Fin n → M) : vprod f = ∏ i, f i := by
  unfold vprod
  induction n with
  | zero => simp [Fin.foldl_zero]
  | succ n ih =>
    rw [Fin.foldl_succ_last, Fin.prod_univ_castSucc]
    simp only [ih]

theorem fact_eq (n : Nat) : fact n = n.factorial := by
  induction n with
  | zero => rfl
  | succ n ih => simp [fact, ih, Nat.factorial_succ]

theorem absR_real (x : ℝ) : absR x = |x| := by
  unfold absR
  split_ifs with h
  · rw [abs_of_neg h]
  · rw [abs_of_nonneg (not_lt.mp h)]

/-! ### Gaussians -/

/-- the common tail over ℝ -/
theorem gaussTail_real {D : Nat} (ell : ℝ) (white : Fin D → ℝ) :
    gaussTail Real.pi ell white
      = -(D : ℝ) / 2 * Real.log (2 * Real.pi) + ell - 1 / 2 * ∑ d, white d ^ 2 := by
  unfold gaussTail
  rw [vsum_eq_sum]
  simp only [transc_log_real, pow_two]
  ring

/-- `Σ_d (Σ_a P a d · x a)² = x ⬝ᵥ (P Pᵀ) x` -/
theorem whiten_sq {D : Nat} (P : Matrix (Fin D) (Fin D) ℝ) (x : Fin D → ℝ) :
    ∑ d, (∑ a, P a d * x a) ^ 2 = x ⬝ᵥ ((P * Pᵀ) *ᵥ x) := by
  simp only [dotProduct, mulVec, Matrix.mul_apply, Matrix.transpose_apply, pow_two]
  simp only [Finset.sum_mul, Finset.mul_sum]
  rw [Finset.sum_comm]
  refine Finset.sum_congr rfl fun a _ => ?_
  rw [Finset.sum_comm]
  refine Finset.sum_congr rfl fun b _ => ?_
  refine Finset.sum_congr rfl fun d _ => ?_
  ring

/-- `Σ log P_ii = log det P` for an upper triangular factor with positive diagonal -/
theorem sum_log_diag {D : Nat} (P : Matrix (Fin D) (Fin D) ℝ) (htri : P.IsUpperTriangular)
    (hpos : ∀ i, 0 < P i i) : ∑ i, Real.log (P i i) = Real.log P.det := by
  rw [Matrix.det_of_isUpperTriangular htri, Real.log_prod]
  intro i _; exact (hpos i).ne'

theorem det_pos_of_tri {D : Nat} (P : Matrix (Fin D) (Fin D) ℝ) (htri : P.IsUpperTriangular)
    (hpos : ∀ i, 0 < P i i) : 0 < P.det := by
  rw [Matrix.det_of_isUpperTriangular htri]
  exact Finset.prod_pos fun i _ => hpos i

/-- the contract `P Pᵀ = Σ⁻¹` with a positive-diagonal triangular `P` forces `Σ` to be invertible and
`log det P = -½ log det Σ` -/
theorem logdet_of_contract {D : Nat} (P S : Matrix (Fin D) (Fin D) ℝ) (htri : P.IsUpperTriangular)
    (hpos : ∀ i, 0 < P i i) (hP : P * Pᵀ = S⁻¹) :
    0 < S.det ∧ Real.log P.det = -(1 / 2) * Real.log S.det := by
  have hd := det_pos_of_tri P htri hpos
  have h1 : P.det * P.det = (S.det)⁻¹ := by
    have := congrArg Matrix.det hP
    rwa [Matrix.det_mul, Matrix.det_transpose, Matrix.det_nonsing_inv, Ring.inverse_eq_inv'] at this
  have hS : 0 < S.det := by
    have : 0 < (S.det)⁻¹ := by rw [← h1]; positivity
    exact inv_pos.mp this
  refine ⟨hS, ?_⟩
  have : Real.log (P.det * P.det) = Real.log ((S.det)⁻¹) := by rw [h1]
  rw [Real.log_mul hd.ne' hd.ne', Real.log_inv] at this
  linarith

theorem gaussLogPdf_closed {D : Nat} (μ y : Fin D → ℝ) (P S : Matrix (Fin D) (Fin D) ℝ) (ell : ℝ)
    (htri : P.IsUpperTriangular) (hpos : ∀ i, 0 < P i i) (hP : P * Pᵀ = S⁻¹)
    (hell : ell = ∑ i, Real.log (P i i)) :
    gaussLogPdf Real.pi μ (fun i j => P i j) ell y
      = -(D : ℝ) / 2 * Real.log (2 * Real.pi) - 1 / 2 * Real.log S.det
        - 1 / 2 * ((y - μ) ⬝ᵥ (S⁻¹ *ᵥ (y - μ))) := by
  unfold gaussLogPdf
  rw [gaussTail_real]
  simp only [vsum_eq_sum]
  have hw := whiten_sq P (y - μ)
  simp only [Pi.sub_apply] at hw
  rw [hw, hP, hell, sum_log_diag P htri hpos, (logdet_of_contract P S htri hpos hP).2]
  ring

theorem diagLogPdf_closed {D : Nat} (μ y p c : Fin D → ℝ) (ell : ℝ) (hc : ∀ d, 0 < c d)
    (hp : ∀ d, p d = 1 / Real.sqrt (c d)) (hell : ell = ∑ d, Real.log (p d)) :
    diagLogPdf Real.pi μ p ell y
      = -(D : ℝ) / 2 * Real.log (2 * Real.pi) - 1 / 2 * Real.log (∏ d, c d)
        - 1 / 2 * ∑ d, (y d - μ d) ^ 2 / c d := by
  unfold diagLogPdf
  rw [gaussTail_real, hell, Real.log_prod (fun d _ => (hc d).ne'), Finset.mul_sum, Finset.mul_sum,
    Finset.mul_sum]
  have h1 : ∀ d, Real.log (p d) = -(1 / 2) * Real.log (c d) := by
    intro d
    rw [hp d, one_div, Real.log_inv, Real.log_sqrt (hc d).le]; ring
  have h2 : ∀ d, (p d * (y d - μ d)) ^ 2 = (y d - μ d) ^ 2 / c d := by
    intro d
    rw [hp d, mul_pow, div_pow, one_pow, Real.sq_sqrt (hc d).le]; ring
  simp only [h1, h2]
  rw [sub_eq_add_neg (-(D : ℝ) / 2 * Real.log (2 * Real.pi)), ← Finset.sum_neg_distrib]
  congr 2
  refine Finset.sum_congr rfl fun d _ => by ring

theorem diagOfCov_closed {D : Nat} (μ y c : Fin D → ℝ) (hc : ∀ d, 0 < c d) :
    diagOfCov Real.pi μ c y
      = -(D : ℝ) / 2 * Real.log (2 * Real.pi) - 1 / 2 * Real.log (∏ d, c d)
        - 1 / 2 * ∑ d, (y d - μ d) ^ 2 / c d := by
  unfold diagOfCov
  refine diagLogPdf_closed μ y _ c _ hc (fun d => by simp [precCholDiag]) ?_
  simp [logDetDiag, vsum_eq_sum]

theorem sphLogPdf_closed {D : Nat} (μ y : Fin D → ℝ) (p c ell : ℝ) (hc : 0 < c)
    (hp : p = 1 / Real.sqrt c) (hell : ell = (D : ℝ) * Real.log p) :
    sphLogPdf Real.pi μ p ell y
      = -(D : ℝ) / 2 * Real.log (2 * Real.pi) - (D : ℝ) / 2 * Real.log c
        - 1 / (2 * c) * ∑ d, (y d - μ d) ^ 2 := by
  unfold sphLogPdf
  rw [gaussTail_real, hell]
  have h1 : Real.log p = -(1 / 2) * Real.log c := by
    rw [hp, one_div, Real.log_inv, Real.log_sqrt hc.le]; ring
  have h2 : ∀ d, (p * (y d - μ d)) ^ 2 = (y d - μ d) ^ 2 / c := by
    intro d
    rw [hp, mul_pow, div_pow, one_pow, Real.sq_sqrt hc.le]; ring
  simp only [h1, h2]
  rw [← Finset.sum_div]
  field_simp
  ring

theorem sphOfCov_closed {D : Nat} (μ y : Fin D → ℝ) (c : ℝ) (hc : 0 < c) :
    sphOfCov Real.pi μ c y
      = -(D : ℝ) / 2 * Real.log (2 * Real.pi) - (D : ℝ) / 2 * Real.log c
        - 1 / (2 * c) * ∑ d, (y d - μ d) ^ 2 := by
  unfold sphOfCov
  exact sphLogPdf_closed μ y _ c _ hc (by simp) (by simp [logDetSpherical])

/-! ### complex circularly symmetric Gaussian -/
section cgauss
open scoped ComplexOrder

theorem conj_dot {D : Nat} (y s : Fin D → ℂ) :
    (vsum fun d => CxOps.conj (α := ℝ) (y d) * s d) = star y ⬝ᵥ s := by
  rw [vsum_eq_sum]; rfl

theorem posDef_det_re {D : Nat} (S : Matrix (Fin D) (Fin D) ℂ) (hS : S.PosDef) :
    0 < S.det.re ∧ ‖S.det‖ = S.det.re := by
  obtain ⟨hre, him⟩ := Complex.pos_iff.mp hS.det_pos
  refine ⟨hre, ?_⟩
  have h : S.det = ((S.det.re : ℝ) : ℂ) := Complex.ext rfl (by simp [← him])
  rw [h, Complex.norm_real, Real.norm_of_nonneg (by simpa using hre.le)]
  simp

theorem cgaussLogPdf_closed {D : Nat} (S : Matrix (Fin D) (Fin D) ℂ) (hS : S.PosDef) (s y : Fin D → ℂ)
    (logdet : ℝ) (hs : S *ᵥ s = y) (hld : logdet = Real.log ‖S.det‖) :
    cgaussLogPdf Real.pi logdet s y
      = -(D : ℝ) * Real.log Real.pi - Real.log (S.det).re - (star y ⬝ᵥ (S⁻¹ *ᵥ y)).re := by
  have hu : IsUnit S.det := (Matrix.isUnit_iff_isUnit_det S).mp hS.isUnit
  have hsol : S⁻¹ *ᵥ y = s := by
    rw [← hs, Matrix.mulVec_mulVec, Matrix.nonsing_inv_mul S hu, Matrix.one_mulVec]
  unfold cgaussLogPdf
  rw [conj_dot, hsol, hld, (posDef_det_re S hS).2]
  simp

end cgauss

/-! ### von Mises-Fisher -/

theorem vmfLogPdf_closed {D : Nat} (μ y : Fin D → ℝ) (κ Inu tiny : ℝ) (hκ : 0 < κ) (hI : 0 < Inu)
    (hy : tiny ≤ Real.sqrt (∑ d, y d ^ 2)) :
    vmfLogPdf Real.pi tiny μ κ (Inu * Real.exp (-κ)) y
      = κ * ∑ d, y d / Real.sqrt (∑ e, y e ^ 2) * μ d
        - ((D : ℝ) / 2 * Real.log (2 * Real.pi) + Real.log Inu - ((D : ℝ) / 2 - 1) * Real.log κ) := by
  unfold vmfLogPdf vmfLogNorm
  simp only [vsum_eq_sum, transc_sqrt_real, transc_log_real, absR_real, ← pow_two]
  rw [max_eq_left hy, abs_of_pos hκ, Real.log_mul hI.ne' (Real.exp_pos _).ne', Real.log_exp]
  ring

/-! ### complex Watson -/

theorem watsonLogPdf_closed {D : Nat} (w y : Fin D → ℂ) (κ M : ℝ) :
    watsonLogPdf Real.pi w κ M y
      = κ * ‖∑ d, y d * star (w d)‖ ^ 2
        - Real.log (2 * Real.pi ^ D / ((D - 1).factorial : ℝ) * M) := by
  unfold watsonLogPdf watsonLogNorm
  simp only [vsum_eq_sum, transc_log_real, npow_eq_pow, fact_eq, cx_re, cx_im, cx_conj]
  rw [Complex.sq_norm, Complex.normSq_apply]
  have : ∀ d, (starRingEnd ℂ) (w d) = star (w d) := fun d => rfl
  simp only [this]
  ring_nf

/-! ### complex Bingham: sorting and the duplicate-spreading map -/

theorem sortAsc_perm (l : List ℝ) : (sortAsc l).Perm l := List.mergeSort_perm l _

theorem sortAsc_length (l : List ℝ) : (sortAsc l).length = l.length := (sortAsc_perm l).length_eq

theorem sortAsc_sorted (l : List ℝ) : (sortAsc l).Pairwise (· ≤ ·) := by
  have h := List.pairwise_mergeSort (le := fun a b : ℝ => !(decide (b < a)))
    (fun a b c h1 h2 => by simp only [Bool.not_eq_true', decide_eq_false_iff_not, not_lt] at *; linarith)
    (fun a b => by
      simp only [Bool.or_eq_true, Bool.not_eq_true', decide_eq_false_iff_not, not_lt]
      exact le_total a b) l
  refine h.imp ?_
  intro a b hab
  simpa using hab

theorem spreadAux_length (eps s0 : ℝ) : ∀ (xs : List ℝ) (prev c : ℝ),
    (spreadAux eps s0 prev c xs).length = xs.length
  | [], _, _ => rfl
  | x :: xs, prev, c => by simp [spreadAux, spreadAux_length eps s0 xs]

theorem spread_length (eps : ℝ) : ∀ l : List ℝ, (spread eps l).length = l.length
  | [] => rfl
  | s0 :: xs => by simp [spread, spreadAux_length]

/-- consecutive outputs differ by at least `eps` -/
theorem spreadAux_chain (eps s0 : ℝ) : ∀ (xs : List ℝ) (prev c : ℝ),
    List.IsChain (fun a b => a + eps ≤ b) ((s0 + c) :: spreadAux eps s0 prev c xs)
  | [], _, _ => by simp [spreadAux]
  | x :: xs, prev, c => by
    rw [spreadAux]
    refine List.IsChain.cons_cons ?_ (spreadAux_chain eps s0 xs x _)
    have := le_max_right (x - prev) eps
    linarith

/-- inputs whose consecutive gaps are already `≥ eps` are reproduced exactly -/
theorem spreadAux_fixed (eps s0 : ℝ) : ∀ (xs : List ℝ) (prev c : ℝ), s0 + c = prev →
    List.IsChain (fun a b => a + eps ≤ b) (prev :: xs) → spreadAux eps s0 prev c xs = xs
  | [], _, _, _, _ => rfl
  | x :: xs, prev, c, hc, hch => by
    rw [List.isChain_cons_cons] at hch
    rw [spreadAux]
    have hmax : max (x - prev) eps = x - prev := max_eq_left (by linarith [hch.1])
    have hx : s0 + (c + max (x - prev) eps) = x := by rw [hmax]; linarith
    rw [hx, spreadAux_fixed eps s0 xs x _ hx hch.2]

/-- on an ascending input every value moves up, the `i`-th one by at most `(k + i + 1)·eps` -/
theorem spreadAux_bound (eps s0 : ℝ) (heps : 0 ≤ eps) : ∀ (xs : List ℝ) (prev c : ℝ) (k : ℕ),
    0 ≤ s0 + c - prev → s0 + c - prev ≤ k * eps → List.IsChain (· ≤ ·) (prev :: xs) →
    ∀ i : ℕ, 0 ≤ (spreadAux eps s0 prev c xs).getD i 0 - xs.getD i 0 ∧
      (spreadAux eps s0 prev c xs).getD i 0 - xs.getD i 0 ≤ (k + i + 1 : ℕ) * eps
  | [], _, _, k, _, _, _, i => by
    simp only [spreadAux, List.getD_nil, sub_self, le_refl, true_and]
    positivity
  | x :: xs, prev, c, k, h0, h1, hch, i => by
    rw [List.isChain_cons_cons] at hch
    rw [spreadAux]
    have hd : 0 ≤ x - prev := by linarith [hch.1]
    have hm0 : x - prev ≤ max (x - prev) eps := le_max_left _ _
    have hm1 : max (x - prev) eps ≤ x - prev + eps := max_le (by linarith) (by linarith)
    have h0' : 0 ≤ s0 + (c + max (x - prev) eps) - x := by linarith
    have h1' : s0 + (c + max (x - prev) eps) - x ≤ ((k + 1 : ℕ) : ℝ) * eps := by
      push_cast; nlinarith
    cases i with
    | zero =>
      simp only [List.getD_cons_zero]
      refine ⟨h0', ?_⟩
      simpa using h1'
    | succ i =>
      simp only [List.getD_cons_succ]
      have := spreadAux_bound eps s0 heps xs x _ (k + 1) h0' h1' hch.2 i
      refine ⟨this.1, ?_⟩
      have e : (k + 1 + i + 1 : ℕ) = (k + (i + 1) + 1 : ℕ) := by omega
      rw [← e]; exact this.2

theorem spread_chain (eps : ℝ) : ∀ l : List ℝ, List.IsChain (fun a b => a + eps ≤ b) (spread eps l)
  | [] => by simp [spread]
  | s0 :: xs => by
    have := spreadAux_chain eps s0 xs s0 0
    rw [add_zero] at this
    exact this

theorem spread_fixed (eps : ℝ) : ∀ l : List ℝ, List.IsChain (fun a b => a + eps ≤ b) l → spread eps l = l
  | [], _ => rfl
  | s0 :: xs, h => by rw [spread, spreadAux_fixed eps s0 xs s0 0 (add_zero _) h]

theorem spread_idem (eps : ℝ) (l : List ℝ) : spread eps (spread eps l) = spread eps l :=
  spread_fixed eps _ (spread_chain eps l)

theorem spread_bound (eps : ℝ) (heps : 0 ≤ eps) : ∀ l : List ℝ, List.IsChain (· ≤ ·) l → ∀ i : ℕ,
    0 ≤ (spread eps l).getD i 0 - l.getD i 0 ∧ (spread eps l).getD i 0 - l.getD i 0 ≤ (i : ℕ) * eps
  | [], _, i => by
    simp only [spread, List.getD_nil, sub_self, le_refl, true_and]
    positivity
  | s0 :: xs, h, i => by
    rw [spread]
    cases i with
    | zero => simp
    | succ i =>
      simp only [List.getD_cons_succ]
      have := spreadAux_bound eps s0 heps xs s0 0 0 (by simp) (by simp) h i
      refine ⟨this.1, ?_⟩
      have e : (0 + i + 1 : ℕ) = (i + 1 : ℕ) := by omega
      rw [← e]; exact this.2

/-! ### complex Bingham: families indexed by `Fin D` -/

theorem getD_of_lt (l : List ℝ) (i : ℕ) (h : i < l.length) : l.getD i 0 = l[i] := by
  simp [List.getD_eq_getElem?_getD, List.getElem?_eq_getElem h]

theorem ofFn_getD {D : Nat} (l : List ℝ) (h : l.length = D) :
    List.ofFn (fun j : Fin D => l.getD j.val 0) = l := by
  subst h
  apply List.ext_getElem
  · simp
  · intro i h1 h2
    simp only [List.getElem_ofFn, getD_of_lt _ _ h2]

theorem sorted_list_length {D : Nat} (lam : Fin D → ℝ) : (sortAsc (List.ofFn lam)).length = D := by
  rw [sortAsc_length, List.length_ofFn]

theorem spread_list_length {D : Nat} (eps : ℝ) (lam : Fin D → ℝ) :
    (spread eps (sortAsc (List.ofFn lam))).length = D := by
  rw [spread_length, sorted_list_length]

theorem ofFn_sortedFam {D : Nat} (lam : Fin D → ℝ) :
    List.ofFn (sortedFam lam) = sortAsc (List.ofFn lam) := ofFn_getD _ (sorted_list_length lam)

theorem ofFn_removeDup {D : Nat} (eps : ℝ) (lam : Fin D → ℝ) :
    List.ofFn (removeDup eps lam) = spread eps (sortAsc (List.ofFn lam)) :=
  ofFn_getD _ (spread_list_length eps lam)

/-- the sorted family is a rearrangement of the input -/
theorem sortedFam_perm {D : Nat} (lam : Fin D → ℝ) : (List.ofFn (sortedFam lam)).Perm (List.ofFn lam) := by
  rw [ofFn_sortedFam]; exact sortAsc_perm _

theorem sortedFam_mono {D : Nat} (lam : Fin D → ℝ) : Monotone (sortedFam lam) := by
  intro i j hij
  rcases eq_or_lt_of_le hij with rfl | hlt
  · exact le_rfl
  · have hs := List.pairwise_iff_getElem.mp (sortAsc_sorted (List.ofFn lam))
    have hi : i.val < (sortAsc (List.ofFn lam)).length := by rw [sorted_list_length]; exact i.isLt
    have hj : j.val < (sortAsc (List.ofFn lam)).length := by rw [sorted_list_length]; exact j.isLt
    have := hs i.val j.val hi hj hlt
    simpa only [sortedFam, getD_of_lt _ _ hi, getD_of_lt _ _ hj] using this

theorem getD_chain {R : ℝ → ℝ → Prop} {l : List ℝ} (h : List.IsChain R l) (i : ℕ) (hi : i + 1 < l.length) :
    R (l.getD i 0) (l.getD (i + 1) 0) := by
  rw [getD_of_lt _ _ hi, getD_of_lt _ _ (Nat.lt_of_succ_lt hi)]
  exact h.getElem i hi

/-- consecutive spread eigenvalues differ by at least `eps` -/
theorem removeDup_gap {D : Nat} (eps : ℝ) (lam : Fin D → ℝ) (j : Fin D) (h : j.val + 1 < D) :
    removeDup eps lam j + eps ≤ removeDup eps lam ⟨j.val + 1, h⟩ :=
  getD_chain (spread_chain eps _) j.val (by rw [spread_list_length]; exact h)

theorem removeDup_strictMono {D : Nat} (eps : ℝ) (heps : 0 < eps) (lam : Fin D → ℝ) :
    StrictMono (removeDup eps lam) := by
  cases D with
  | zero => intro i; exact i.elim0
  | succ n =>
    rw [Fin.strictMono_iff_lt_succ]
    intro i
    have := removeDup_gap eps lam i.castSucc (by simp)
    have e : (⟨i.castSucc.val + 1, by simp⟩ : Fin (n + 1)) = i.succ := by ext; simp
    rw [e] at this
    linarith

/-- every eigenvalue moves up, by at most `(D-1)·eps` (the `j`-th smallest by at most `j·eps`) -/
theorem removeDup_moves {D : Nat} (eps : ℝ) (heps : 0 ≤ eps) (lam : Fin D → ℝ) (j : Fin D) :
    0 ≤ removeDup eps lam j - sortedFam lam j ∧
      removeDup eps lam j - sortedFam lam j ≤ (j.val : ℝ) * eps ∧
      removeDup eps lam j - sortedFam lam j ≤ ((D - 1 : ℕ) : ℝ) * eps := by
  have hch : List.IsChain (· ≤ ·) (sortAsc (List.ofFn lam)) := (sortAsc_sorted _).isChain
  have := spread_bound eps heps _ hch j.val
  refine ⟨this.1, this.2, this.2.trans ?_⟩
  have : (j.val : ℝ) ≤ ((D - 1 : ℕ) : ℝ) := by
    have := j.isLt
    exact_mod_cast (by omega : j.val ≤ D - 1)
  exact mul_le_mul_of_nonneg_right this heps

/-- idempotent on inputs whose sorted values already have gaps `≥ eps` -/
theorem removeDup_eq_sorted {D : Nat} (eps : ℝ) (lam : Fin D → ℝ)
    (hg : ∀ (j : Fin D) (h : j.val + 1 < D), sortedFam lam j + eps ≤ sortedFam lam ⟨j.val + 1, h⟩) :
    removeDup eps lam = sortedFam lam := by
  have hch : List.IsChain (fun a b => a + eps ≤ b) (sortAsc (List.ofFn lam)) := by
    rw [List.isChain_iff_getElem]
    intro i hi
    have hD : i + 1 < D := by rwa [sorted_list_length] at hi
    have := hg ⟨i, Nat.lt_of_succ_lt hD⟩ hD
    simpa only [sortedFam, getD_of_lt _ _ hi, getD_of_lt _ _ (Nat.lt_of_succ_lt hi)] using this
  funext j
  simp only [removeDup, sortedFam, spread_fixed eps _ hch]

theorem removeDup_idem {D : Nat} (eps : ℝ) (heps : 0 ≤ eps) (lam : Fin D → ℝ) :
    removeDup eps (removeDup eps lam) = removeDup eps lam := by
  have hch := spread_chain eps (sortAsc (List.ofFn lam))
  have hsorted : (spread eps (sortAsc (List.ofFn lam))).Pairwise (fun a b => (!(decide (b < a))) = true) := by
    have hle : List.IsChain (· ≤ ·) (spread eps (sortAsc (List.ofFn lam))) :=
      hch.imp fun a b hab => by linarith
    refine hle.pairwise.imp ?_
    intro a b hab
    simpa using hab
  funext j
  simp only [removeDup]
  rw [show List.ofFn (fun j : Fin D => (spread eps (sortAsc (List.ofFn lam))).getD j.val 0)
      = spread eps (sortAsc (List.ofFn lam)) from ofFn_getD _ (spread_list_length eps lam)]
  rw [show sortAsc (spread eps (sortAsc (List.ofFn lam))) = spread eps (sortAsc (List.ofFn lam)) from
    List.mergeSort_of_pairwise hsorted, spread_idem]

theorem prod_ite_ne {D : Nat} (j : Fin D) (f : Fin D → ℝ) :
    (∏ k, if k = j then 1 else f k) = ∏ k ∈ Finset.univ.erase j, f k := by
  rw [Finset.prod_ite, Finset.prod_const_one, one_mul]
  congr 1
  ext k; simp

theorem binghamNormRaw_closed {D : Nat} (lam : Fin D → ℝ) :
    binghamNormRaw Real.pi lam
      = 2 * Real.pi ^ D * ∑ j, Real.exp (lam j) / ∏ k ∈ Finset.univ.erase j, (lam j - lam k) := by
  unfold binghamNormRaw
  simp only [vsum_eq_sum, vprod_eq_prod, npow_eq_pow, transc_exp_real, prod_ite_ne]
  congr 1
  refine Finset.sum_congr rfl fun j _ => ?_
  rw [one_div, inv_mul_eq_div]

/-! ### spectral form `U diag(λ) Uᴴ` (Bingham parameter matrix, cACG covariance) -/

/-- `U diag(λ) Uᴴ` -/
noncomputable def specMat {D : Nat} (U : Matrix (Fin D) (Fin D) ℂ) (lam : Fin D → ℝ) :
    Matrix (Fin D) (Fin D) ℂ :=
  U * Matrix.diagonal (fun x => (lam x : ℂ)) * Uᴴ

theorem specMat_apply {D : Nat} (U : Matrix (Fin D) (Fin D) ℂ) (mu : Fin D → ℝ) (d g : Fin D) :
    specMat U mu d g = ∑ e, U d e * (mu e : ℂ) * star (U g e) := by
  unfold specMat
  rw [Matrix.mul_apply]
  refine Finset.sum_congr rfl fun e _ => ?_
  rw [Matrix.mul_diagonal, Matrix.conjTranspose_apply]

theorem covariance_eq {D : Nat} (U : Matrix (Fin D) (Fin D) ℂ) (lam : Fin D → ℝ) (w z : Fin D) :
    covariance (fun i j => U i j) lam w z = specMat U lam w z := by
  unfold covariance specMat
  rw [vsum_eq_sum, Matrix.mul_apply]
  refine Finset.sum_congr rfl fun x _ => ?_
  rw [Matrix.mul_diagonal, Matrix.conjTranspose_apply]
  rfl

theorem binghamQuad_eq {D : Nat} (U : Matrix (Fin D) (Fin D) ℂ) (lam : Fin D → ℝ) (y : Fin D → ℂ) :
    binghamQuad (fun i j => U i j) lam y = (star y ⬝ᵥ (specMat U lam *ᵥ y)).re := by
  unfold binghamQuad
  simp only [vsum_eq_sum, covariance_eq, cx_re]
  congr 1
  simp only [dotProduct, mulVec, Finset.mul_sum, mul_assoc]
  rfl

theorem specMat_mul_inv {D : Nat} (U : Matrix (Fin D) (Fin D) ℂ) (lam : Fin D → ℝ) (hU : Uᴴ * U = 1)
    (hl : ∀ e, lam e ≠ 0) : specMat U lam * specMat U (fun e => 1 / lam e) = 1 := by
  have hU' : U * Uᴴ = 1 := mul_eq_one_comm.mp hU
  unfold specMat
  have hd : Matrix.diagonal (fun x => (lam x : ℂ)) * Matrix.diagonal (fun x => ((1 / lam x : ℝ) : ℂ)) = 1 := by
    rw [Matrix.diagonal_mul_diagonal, ← Matrix.diagonal_one]
    congr 1
    funext x
    have hc : (lam x : ℂ) ≠ 0 := by exact_mod_cast hl x
    push_cast
    field_simp
  calc U * Matrix.diagonal (fun x => (lam x : ℂ)) * Uᴴ * (U * Matrix.diagonal (fun x => ((1 / lam x : ℝ) : ℂ)) * Uᴴ)
      = U * (Matrix.diagonal (fun x => (lam x : ℂ)) * (Uᴴ * U) * Matrix.diagonal (fun x => ((1 / lam x : ℝ) : ℂ))) * Uᴴ := by
        simp only [Matrix.mul_assoc]
    _ = 1 := by rw [hU, Matrix.mul_one, hd, Matrix.mul_one, hU']

theorem specMat_inv {D : Nat} (U : Matrix (Fin D) (Fin D) ℂ) (lam : Fin D → ℝ) (hU : Uᴴ * U = 1)
    (hl : ∀ e, lam e ≠ 0) : (specMat U lam)⁻¹ = specMat U (fun e => 1 / lam e) :=
  Matrix.inv_eq_right_inv (specMat_mul_inv U lam hU hl)

theorem specMat_det {D : Nat} (U : Matrix (Fin D) (Fin D) ℂ) (lam : Fin D → ℝ) (hU : Uᴴ * U = 1) :
    (specMat U lam).det = ((∏ e, lam e : ℝ) : ℂ) := by
  have hU' : U * Uᴴ = 1 := mul_eq_one_comm.mp hU
  have h1 : U.det * Uᴴ.det = 1 := by rw [← Matrix.det_mul, hU', Matrix.det_one]
  unfold specMat
  rw [Matrix.det_mul, Matrix.det_mul, Matrix.det_diagonal]
  push_cast
  calc U.det * (∏ e, (lam e : ℂ)) * Uᴴ.det = (U.det * Uᴴ.det) * ∏ e, (lam e : ℂ) := by ring
    _ = ∏ e, (lam e : ℂ) := by rw [h1, one_mul]

/-- the five-factor einsum of the cACG quadratic form is `zᴴ (U diag(1/λ) Uᴴ) z` -/
theorem cacg_einsum_eq {D : Nat} (U : Matrix (Fin D) (Fin D) ℂ) (lam : Fin D → ℝ) (z : Fin D → ℂ) :
    (∑ d, ∑ e, ∑ g, (starRingEnd ℂ) (z d) * U d e * ((1 / lam e : ℝ) : ℂ) * (starRingEnd ℂ) (U g e) * z g)
      = star z ⬝ᵥ (specMat U (fun e => 1 / lam e) *ᵥ z) := by
  simp only [dotProduct, mulVec, specMat_apply, Finset.mul_sum, Finset.sum_mul, Pi.star_apply]
  refine Finset.sum_congr rfl fun d _ => ?_
  rw [Finset.sum_comm]
  refine Finset.sum_congr rfl fun e _ => ?_
  refine Finset.sum_congr rfl fun g _ => ?_
  simp only [Complex.star_def]
  ring

/-- `zᴴ (U diag(μ) Uᴴ) z = Σ_e μ_e |(Uᴴ z)_e|²` is a real number -/
theorem specMat_quad_real {D : Nat} (U : Matrix (Fin D) (Fin D) ℂ) (mu : Fin D → ℝ) (z : Fin D → ℂ) :
    star z ⬝ᵥ (specMat U mu *ᵥ z) = ((∑ e, mu e * Complex.normSq ((Uᴴ *ᵥ z) e) : ℝ) : ℂ) := by
  have h : specMat U mu *ᵥ z = U *ᵥ (fun e => (mu e : ℂ) * (Uᴴ *ᵥ z) e) := by
    unfold specMat
    rw [← Matrix.mulVec_mulVec, ← Matrix.mulVec_mulVec]
    congr 1
    funext e
    rw [Matrix.mulVec_diagonal]
  have h2 : star z ᵥ* U = star (Uᴴ *ᵥ z) := by
    rw [Matrix.star_mulVec, Matrix.conjTranspose_conjTranspose]
  rw [h, Matrix.dotProduct_mulVec, h2]
  push_cast
  simp only [dotProduct, Pi.star_apply]
  refine Finset.sum_congr rfl fun e _ => ?_
  rw [Complex.normSq_eq_conj_mul_self, Complex.star_def]
  ring

/-! ### complex Bingham `log_pdf`, cACG `log_pdf` -/

theorem binghamLogPdf_closed {D : Nat} (U : Matrix (Fin D) (Fin D) ℂ) (lam : Fin D → ℝ) (y : Fin D → ℂ)
    (eps : ℝ) :
    binghamLogPdf Real.pi eps (fun i j => U i j) lam y
      = (star y ⬝ᵥ (specMat U lam *ᵥ y)).re
        - Real.log (2 * Real.pi ^ D * ∑ j, Real.exp (removeDup eps lam j)
            / ∏ k ∈ Finset.univ.erase j, (removeDup eps lam j - removeDup eps lam k)) := by
  unfold binghamLogPdf binghamNorm
  rw [binghamQuad_eq, binghamNormRaw_closed]
  rfl

theorem absC_ofReal (r : ℝ) (hr : 0 ≤ r) : absC (α := ℝ) ((r : ℝ) : ℂ) = r := by
  unfold absC
  simp only [cx_re, cx_im, Complex.ofReal_re, Complex.ofReal_im, mul_zero, add_zero, transc_sqrt_real]
  exact Real.sqrt_mul_self hr

/-- `normalize_observation` of a non-zero observation is `y / ‖y‖` -/
theorem cacgNormalize_eq {D : Nat} (tiny : ℝ) (y : Fin D → ℂ) (hy : 0 < Real.sqrt (∑ d, ‖y d‖ ^ 2)) :
    cacgNormalize tiny y = fun d => y d / ((Real.sqrt (∑ d, ‖y d‖ ^ 2) : ℝ) : ℂ) := by
  unfold cacgNormalize
  have hn : (vsum fun d => CxOps.re (α := ℝ) (y d) * CxOps.re (α := ℝ) (y d)
      + CxOps.im (α := ℝ) (y d) * CxOps.im (α := ℝ) (y d)) = ∑ d, ‖y d‖ ^ 2 := by
    rw [vsum_eq_sum]
    refine Finset.sum_congr rfl fun d _ => ?_
    rw [Complex.sq_norm, Complex.normSq_apply]; rfl
  simp only [hn, transc_sqrt_real, if_pos hy, cx_ofReal]
  funext d
  push_cast
  rw [mul_one_div]

theorem cacgQuad_eq {D : Nat} (tiny : ℝ) (U : Matrix (Fin D) (Fin D) ℂ) (lam : Fin D → ℝ) (z : Fin D → ℂ)
    (hU : Uᴴ * U = 1) (hl : ∀ e, 0 < lam e)
    (hguard : tiny ≤ (star z ⬝ᵥ ((specMat U lam)⁻¹ *ᵥ z)).re) :
    cacgQuad tiny (fun i j => U i j) lam z = (star z ⬝ᵥ ((specMat U lam)⁻¹ *ᵥ z)).re := by
  rw [specMat_inv U lam hU (fun e => (hl e).ne')] at hguard ⊢
  unfold cacgQuad
  simp only [vsum_eq_sum, cx_conj, cx_ofReal]
  rw [cacg_einsum_eq, specMat_quad_real] at *
  have hr : 0 ≤ ∑ e, 1 / lam e * Complex.normSq ((Uᴴ *ᵥ z) e) :=
    Finset.sum_nonneg fun e _ => mul_nonneg (one_div_nonneg.mpr (hl e).le) (Complex.normSq_nonneg _)
  rw [absC_ofReal _ hr]
  simp only [Complex.ofReal_re] at hguard ⊢
  exact max_eq_left hguard

theorem cacgLogPdf_closed {D : Nat} (tiny : ℝ) (U : Matrix (Fin D) (Fin D) ℂ) (lam : Fin D → ℝ)
    (y z : Fin D → ℂ) (hU : Uᴴ * U = 1) (hl : ∀ e, 0 < lam e)
    (hy : 0 < Real.sqrt (∑ d, ‖y d‖ ^ 2))
    (hz : z = fun d => y d / ((Real.sqrt (∑ d, ‖y d‖ ^ 2) : ℝ) : ℂ))
    (hguard : tiny ≤ (star z ⬝ᵥ ((specMat U lam)⁻¹ *ᵥ z)).re) :
    cacgLogPdf tiny (fun i j => U i j) lam y
      = -(D : ℝ) * Real.log (star z ⬝ᵥ ((specMat U lam)⁻¹ *ᵥ z)).re
        - Real.log ((specMat U lam).det).re := by
  unfold cacgLogPdf
  rw [cacgNormalize_eq tiny y hy, ← hz, cacgQuad_eq tiny U lam z hU hl hguard, specMat_det U lam hU,
    vsum_eq_sum, Complex.ofReal_re, Real.log_prod (fun e _ => (hl e).ne')]
  rfl

/-! ### von Mises–Fisher: the density itself, and the two-point sphere -/

/-- the von Mises–Fisher density itself: `C_D(κ) exp(κ μᵀx)` with `C_D(κ) = κ^{D/2-1} / ((2π)^{D/2} I_{D/2-1}(κ))` -/
theorem exp_vmfLogPdf {D : Nat} (μ y : Fin D → ℝ) (κ Inu tiny : ℝ) (hκ : 0 < κ) (hI : 0 < Inu)
    (hy : tiny ≤ Real.sqrt (∑ d, y d ^ 2)) :
    Real.exp (vmfLogPdf Real.pi tiny μ κ (Inu * Real.exp (-κ)) y)
      = κ ^ ((D : ℝ) / 2 - 1) / ((2 * Real.pi) ^ ((D : ℝ) / 2) * Inu)
        * Real.exp (κ * ∑ d, y d / Real.sqrt (∑ e, y e ^ 2) * μ d) := by
  have h2pi : 0 < 2 * Real.pi := by positivity
  rw [vmfLogPdf_closed μ y κ Inu tiny hκ hI hy, Real.rpow_def_of_pos hκ, Real.rpow_def_of_pos h2pi,
    Real.exp_sub, Real.exp_sub, Real.exp_add, Real.exp_log hI]
  have e1 : Real.exp ((D : ℝ) / 2 * Real.log (2 * Real.pi)) = Real.exp (Real.log (2 * Real.pi) * ((D : ℝ) / 2)) := by
    rw [mul_comm]
  have e2 : Real.exp (((D : ℝ) / 2 - 1) * Real.log κ) = Real.exp (Real.log κ * ((D : ℝ) / 2 - 1)) := by
    rw [mul_comm]
  rw [e1, e2]
  have := (Real.exp_pos (Real.log (2 * Real.pi) * ((D : ℝ) / 2))).ne'
  have := (Real.exp_pos (Real.log κ * ((D : ℝ) / 2 - 1))).ne'
  field_simp

/-- **`D = 1`: the von Mises–Fisher law on the two-point sphere `{+1, -1}` sums to one**, given the elementary
closed form of the Bessel function of order `-1/2`, `I_{-1/2}(κ) = √(2/(πκ)) cosh κ` -/
theorem vmf_D1_sum_one (m κ tiny : ℝ) (hm : m = 1 ∨ m = -1) (hκ : 0 < κ) (ht : tiny ≤ 1) :
    Real.exp (vmfLogPdf (D := 1) Real.pi tiny (fun _ => m) κ
        (Real.sqrt (2 / (Real.pi * κ)) * Real.cosh κ * Real.exp (-κ)) (fun _ => 1))
      + Real.exp (vmfLogPdf (D := 1) Real.pi tiny (fun _ => m) κ
        (Real.sqrt (2 / (Real.pi * κ)) * Real.cosh κ * Real.exp (-κ)) (fun _ => -1)) = 1 := by
  have hpi := Real.pi_pos
  have hI : 0 < Real.sqrt (2 / (Real.pi * κ)) * Real.cosh κ :=
    mul_pos (Real.sqrt_pos.mpr (by positivity)) (Real.cosh_pos κ)
  have hn1 : Real.sqrt (∑ d : Fin 1, (fun _ => (1 : ℝ)) d ^ 2) = 1 := by simp
  have hn2 : Real.sqrt (∑ d : Fin 1, (fun _ => (-1 : ℝ)) d ^ 2) = 1 := by simp
  rw [vmfLogPdf_closed _ _ κ _ tiny hκ hI (by rw [hn1]; exact ht),
    vmfLogPdf_closed _ _ κ _ tiny hκ hI (by rw [hn2]; exact ht)]
  simp only [Fin.sum_univ_one, Nat.cast_one, one_pow, neg_one_sq, Real.sqrt_one, div_one]
  generalize hN : 1 / 2 * Real.log (2 * Real.pi) + Real.log (Real.sqrt (2 / (Real.pi * κ)) * Real.cosh κ)
      - (1 / 2 - 1) * Real.log κ = N
  rw [Real.exp_sub, Real.exp_sub, ← add_div]
  -- the normaliser is `2 cosh κ`
  have hnorm : Real.exp N = 2 * Real.cosh κ := by
    rw [← hN]
    have h4 : (2 * Real.pi) * (2 / (Real.pi * κ)) * κ = 4 := by field_simp; ring
    have hs : Real.log (Real.sqrt (2 / (Real.pi * κ))) = 1 / 2 * Real.log (2 / (Real.pi * κ)) := by
      rw [Real.log_sqrt (by positivity)]; ring
    rw [Real.log_mul (Real.sqrt_pos.mpr (by positivity)).ne' (Real.cosh_pos κ).ne', hs]
    have : 1 / 2 * Real.log (2 * Real.pi) + (1 / 2 * Real.log (2 / (Real.pi * κ)) + Real.log (Real.cosh κ))
        - (1 / 2 - 1) * Real.log κ
        = 1 / 2 * Real.log ((2 * Real.pi) * (2 / (Real.pi * κ)) * κ) + Real.log (Real.cosh κ) := by
      have h2pi : 0 < 2 * Real.pi := by positivity
      have hq : 0 < 2 / (Real.pi * κ) := by positivity
      have hA : Real.log ((2 * Real.pi) * (2 / (Real.pi * κ)) * κ)
          = Real.log (2 * Real.pi) + Real.log (2 / (Real.pi * κ)) + Real.log κ := by
        rw [Real.log_mul (mul_pos h2pi hq).ne' hκ.ne', Real.log_mul h2pi.ne' hq.ne']
      rw [hA]
      ring
    rw [this, h4, Real.exp_add, Real.exp_log (Real.cosh_pos κ)]
    have : Real.exp (1 / 2 * Real.log 4) = 2 := by
      have h : (4 : ℝ) = 2 ^ 2 := by norm_num
      rw [h, Real.log_pow]; push_cast
      rw [show (1 : ℝ) / 2 * (2 * Real.log 2) = Real.log 2 by ring, Real.exp_log (by norm_num)]
    rw [this]
  rw [hnorm, Real.cosh_eq]
  rcases hm with rfl | rfl
  · have : Real.exp (κ * (1 * 1)) + Real.exp (κ * (-1 * 1)) = Real.exp κ + Real.exp (-κ) := by
      norm_num
    rw [this]; have := Real.exp_pos κ; have := Real.exp_pos (-κ); field_simp
  · have : Real.exp (κ * (1 * -1)) + Real.exp (κ * (-1 * -1)) = Real.exp (-κ) + Real.exp κ := by
      norm_num
    rw [this]; have := Real.exp_pos κ; have := Real.exp_pos (-κ); field_simp; ring

/-! ### complex Bingham: Kent's formula at the stored eigenvalues (symmetry under the sort) -/

/-- Kent's sum as a function of the *set* of eigenvalues -/
noncomputable def kentSum (A : Finset ℝ) : ℝ := ∑ a ∈ A, Real.exp a / ∏ b ∈ A.erase a, (a - b)

theorem kentSum_image {D : Nat} (f : Fin D → ℝ) (hf : Function.Injective f) :
    ∑ j, Real.exp (f j) / ∏ k ∈ Finset.univ.erase j, (f j - f k) = kentSum (Finset.univ.image f) := by
  unfold kentSum
  rw [Finset.sum_image (fun a _ b _ h => hf h)]
  refine Finset.sum_congr rfl fun j _ => ?_
  rw [← Finset.image_erase hf, Finset.prod_image (fun a _ b _ h => hf h)]

theorem image_sortedFam {D : Nat} (lam : Fin D → ℝ) :
    Finset.univ.image (sortedFam lam) = Finset.univ.image lam := by
  ext a
  simp only [Finset.mem_image, Finset.mem_univ, true_and]
  rw [← List.mem_ofFn, ← List.mem_ofFn]
  exact (sortedFam_perm lam).mem_iff

/-- pairwise gaps `≥ eps` of the input give consecutive gaps `≥ eps` of the sorted family -/
theorem sorted_gaps_of_pairwise {D : Nat} (eps : ℝ) (lam : Fin D → ℝ)
    (hgap : ∀ i j, i ≠ j → eps ≤ |lam i - lam j|) (j : Fin D) (h : j.val + 1 < D) :
    sortedFam lam j + eps ≤ sortedFam lam ⟨j.val + 1, h⟩ := by
  have h1 : (List.ofFn lam).Pairwise (fun a b => eps ≤ |a - b|) := by
    rw [List.pairwise_ofFn]
    intro i j hij
    exact hgap i j hij.ne
  have h2 : (sortAsc (List.ofFn lam)).Pairwise (fun a b => eps ≤ |a - b|) :=
    ((sortAsc_perm _).pairwise_iff (fun {x y} hxy => by rwa [abs_sub_comm])).mpr h1
  have h3 : (sortAsc (List.ofFn lam)).Pairwise (fun a b => a + eps ≤ b) := by
    refine ((sortAsc_sorted _).and h2).imp ?_
    rintro a b ⟨hab, hg⟩
    rw [abs_sub_comm, abs_of_nonneg (by linarith)] at hg
    linarith
  exact getD_chain h3.isChain j.val (by rw [sorted_list_length]; exact h)

/-- **in the property's domain** (pairwise eigenvalue gaps `≥ eps`, `eps > 0`; the code's `eps` is `1e-8`, the
property's bound `1e-3`) `ComplexBingham.norm()` is Kent's formula at the stored eigenvalues themselves -/
theorem binghamNorm_of_gaps {D : Nat} (eps : ℝ) (heps : 0 < eps) (lam : Fin D → ℝ)
    (hgap : ∀ i j, i ≠ j → eps ≤ |lam i - lam j|) :
    binghamNorm Real.pi eps lam
      = 2 * Real.pi ^ D * ∑ j, Real.exp (lam j) / ∏ k ∈ Finset.univ.erase j, (lam j - lam k) := by
  have hs : removeDup eps lam = sortedFam lam :=
    removeDup_eq_sorted eps lam (sorted_gaps_of_pairwise eps lam hgap)
  have hinj1 : Function.Injective (sortedFam lam) := by
    rw [← hs]; exact (removeDup_strictMono eps heps lam).injective
  have hinj2 : Function.Injective lam := by
    intro i j hij
    by_contra hne
    have := hgap i j hne
    rw [hij, sub_self, abs_zero] at this
    linarith
  unfold binghamNorm
  rw [binghamNormRaw_closed, hs, kentSum_image _ hinj1, kentSum_image _ hinj2, image_sortedFam]

/-! ### the real Gaussians integrate to one (Lebesgue measure on `ℝ^D`) -/
section integrals
open MeasureTheory ProbabilityTheory
open scoped NNReal

theorem inv_sqrt_eq_exp (x : ℝ) (hx : 0 < x) : (Real.sqrt x)⁻¹ = Real.exp (-(1 / 2) * Real.log x) := by
  have h : -(1 / 2) * Real.log x = -Real.log (Real.sqrt x) := by rw [Real.log_sqrt hx.le]; ring
  rw [h, Real.exp_neg, Real.exp_log (Real.sqrt_pos.mpr hx)]

/-- the density of `DiagonalGaussian` is the product of Mathlib's one-dimensional Gaussian densities -/
theorem exp_diagOfCov_eq_prod {D : Nat} (μ y c : Fin D → ℝ) (hc : ∀ d, 0 < c d) :
    Real.exp (diagOfCov Real.pi μ c y) = ∏ d, gaussianPDFReal (μ d) (c d).toNNReal (y d) := by
  rw [diagOfCov_closed μ y c hc]
  have hf : ∀ d, gaussianPDFReal (μ d) (c d).toNNReal (y d)
      = Real.exp (-(1 / 2) * Real.log (2 * Real.pi * c d) - (y d - μ d) ^ 2 / (2 * c d)) := by
    intro d
    have hpos : 0 < 2 * Real.pi * c d := by have := hc d; positivity
    rw [gaussianPDFReal_def]
    simp only [Real.coe_toNNReal _ (hc d).le]
    rw [inv_sqrt_eq_exp _ hpos, ← Real.exp_add]
    congr 1; ring
  simp only [hf]
  rw [← Real.exp_sum]
  congr 1
  rw [Real.log_prod (fun d _ => (hc d).ne')]
  have hl : ∀ d, Real.log (2 * Real.pi * c d) = Real.log (2 * Real.pi) + Real.log (c d) := fun d =>
    Real.log_mul (by positivity) (hc d).ne'
  simp only [hl, Finset.sum_sub_distrib, mul_add, Finset.sum_add_distrib, Finset.sum_const, Finset.card_univ,
    Fintype.card_fin, nsmul_eq_mul, ← Finset.mul_sum]
  have : ∑ d, (y d - μ d) ^ 2 / (2 * c d) = 1 / 2 * ∑ d, (y d - μ d) ^ 2 / c d := by
    rw [Finset.mul_sum]; refine Finset.sum_congr rfl fun d _ => ?_
    have := (hc d).ne'; field_simp
  rw [this]; ring

/-- **`DiagonalGaussian` integrates to one** w.r.t. Lebesgue measure on `ℝ^D` -/
theorem integral_exp_diagOfCov {D : Nat} (μ c : Fin D → ℝ) (hc : ∀ d, 0 < c d) :
    ∫ y : Fin D → ℝ, Real.exp (diagOfCov Real.pi μ c y) = 1 := by
  simp only [exp_diagOfCov_eq_prod μ _ c hc]
  rw [integral_fintype_prod_volume_eq_prod (fun d x => gaussianPDFReal (μ d) (c d).toNNReal x)]
  refine Finset.prod_eq_one fun d _ => ?_
  apply integral_gaussianPDFReal_eq_one
  exact (Real.toNNReal_pos.mpr (hc d)).ne'

theorem sphOfCov_eq_diagOfCov {D : Nat} (μ y : Fin D → ℝ) (c : ℝ) (hc : 0 < c) :
    sphOfCov Real.pi μ c y = diagOfCov Real.pi μ (fun _ => c) y := by
  rw [sphOfCov_closed μ y c hc, diagOfCov_closed μ y _ (fun _ => hc)]
  rw [Finset.prod_const, Finset.card_univ, Fintype.card_fin, Real.log_pow, ← Finset.sum_div]
  field_simp

/-- **`SphericalGaussian` integrates to one** -/
theorem integral_exp_sphOfCov {D : Nat} (μ : Fin D → ℝ) (c : ℝ) (hc : 0 < c) :
    ∫ y : Fin D → ℝ, Real.exp (sphOfCov Real.pi μ c y) = 1 := by
  simp only [sphOfCov_eq_diagOfCov μ _ c hc]
  exact integral_exp_diagOfCov μ _ (fun _ => hc)

/-- linear change of variables on `ℝ^D` -/
theorem integral_comp_matrix {D : Nat} (M : Matrix (Fin D) (Fin D) ℝ) (hM : M.det ≠ 0)
    (g : (Fin D → ℝ) → ℝ) (hg : Measurable g) :
    ∫ y, g (M *ᵥ y) = |M.det|⁻¹ * ∫ w, g w := by
  have h := Real.map_matrix_volume_pi_eq_smul_volume_pi hM
  have hmeas : Measurable (Matrix.toLin' M) := (Matrix.toLin' M).continuous_of_finiteDimensional.measurable
  calc ∫ y, g (M *ᵥ y) = ∫ y, g (Matrix.toLin' M y) := by simp only [Matrix.toLin'_apply]
    _ = ∫ w, g w ∂(Measure.map (Matrix.toLin' M) volume) :=
        (integral_map hmeas.aemeasurable hg.aestronglyMeasurable).symm
    _ = |M.det|⁻¹ * ∫ w, g w := by
        rw [h, integral_smul_measure, ENNReal.toReal_ofReal (abs_nonneg _), abs_inv, smul_eq_mul]

theorem stdPDF_eq (t : ℝ) :
    gaussianPDFReal 0 1 t = Real.exp (-(1 / 2) * Real.log (2 * Real.pi) - t ^ 2 / 2) := by
  have hpos : 0 < 2 * Real.pi := by positivity
  rw [gaussianPDFReal_def]
  simp only [NNReal.coe_one, mul_one, sub_zero]
  rw [inv_sqrt_eq_exp _ hpos, ← Real.exp_add]
  congr 1; ring

/-- the density of the full-covariance `Gaussian` is `det P` times the standard normal density of the whitened
observation `Pᵀ(y-μ)` -/
theorem exp_gaussLogPdf_eq {D : Nat} (μ y : Fin D → ℝ) (P : Matrix (Fin D) (Fin D) ℝ) (ell : ℝ)
    (htri : P.IsUpperTriangular) (hpos : ∀ i, 0 < P i i) (hell : ell = ∑ i, Real.log (P i i)) :
    Real.exp (gaussLogPdf Real.pi μ (fun i j => P i j) ell y)
      = P.det * ∏ d, gaussianPDFReal 0 1 ((Pᵀ *ᵥ (y - μ)) d) := by
  have hd := det_pos_of_tri P htri hpos
  unfold gaussLogPdf
  rw [gaussTail_real, hell, sum_log_diag P htri hpos]
  simp only [vsum_eq_sum, stdPDF_eq]
  have hw : ∀ d, ∑ a, P a d * (y a - μ a) = (Pᵀ *ᵥ (y - μ)) d := by
    intro d; simp [mulVec, dotProduct, Matrix.transpose_apply]
  simp only [hw]
  rw [← Real.exp_sum, Finset.sum_sub_distrib, Finset.sum_const, Finset.card_univ, Fintype.card_fin,
    nsmul_eq_mul, ← Finset.sum_div]
  conv_rhs => rw [← Real.exp_log hd]
  rw [← Real.exp_add]
  congr 1; ring

theorem measurable_prod_stdPDF {D : Nat} :
    Measurable fun w : Fin D → ℝ => ∏ d, gaussianPDFReal 0 1 (w d) :=
  Finset.measurable_prod _ fun d _ => (measurable_gaussianPDFReal 0 1).comp (measurable_pi_apply d)

/-- **the full-covariance `Gaussian` integrates to one** w.r.t. Lebesgue measure on `ℝ^D`, for every upper triangular
factor `P` with positive diagonal and `log_det_precision_cholesky = Σ log P_ii` -/
theorem integral_exp_gaussLogPdf {D : Nat} (μ : Fin D → ℝ) (P : Matrix (Fin D) (Fin D) ℝ) (ell : ℝ)
    (htri : P.IsUpperTriangular) (hpos : ∀ i, 0 < P i i) (hell : ell = ∑ i, Real.log (P i i)) :
    ∫ y : Fin D → ℝ, Real.exp (gaussLogPdf Real.pi μ (fun i j => P i j) ell y) = 1 := by
  have hd := det_pos_of_tri P htri hpos
  have hdT : Pᵀ.det ≠ 0 := by rw [Matrix.det_transpose]; exact hd.ne'
  simp only [exp_gaussLogPdf_eq μ _ P ell htri hpos hell]
  rw [integral_const_mul]
  have h1 : ∫ y : Fin D → ℝ, ∏ d, gaussianPDFReal 0 1 ((Pᵀ *ᵥ (y - μ)) d)
      = ∫ y : Fin D → ℝ, ∏ d, gaussianPDFReal 0 1 ((Pᵀ *ᵥ y) d) :=
    integral_sub_right_eq_self (fun y : Fin D → ℝ => ∏ d, gaussianPDFReal 0 1 ((Pᵀ *ᵥ y) d)) μ
  rw [h1, integral_comp_matrix Pᵀ hdT (fun w => ∏ d, gaussianPDFReal 0 1 (w d)) measurable_prod_stdPDF,
    integral_fintype_prod_volume_eq_prod (fun _ x => gaussianPDFReal 0 1 x)]
  simp only [integral_gaussianPDFReal_eq_one 0 one_ne_zero, Finset.prod_const_one, mul_one,
    Matrix.det_transpose, abs_of_pos hd]
  exact mul_inv_cancel₀ hd.ne'

end integrals

/-! ### the complex circularly symmetric Gaussian integrates to one (Lebesgue measure on `ℂ^D`) -/
section cintegral
open MeasureTheory
open scoped ComplexOrder MatrixOrder

theorem integral_complex_stdGauss : ∫ z : ℂ, Real.exp (-‖z‖ ^ 2) = Real.pi := by
  have h := Complex.integral_exp_neg_rpow (p := 2) (by norm_num)
  have e : (2 : ℝ) / 2 + 1 = 1 + 1 := by norm_num
  rw [e, Real.Gamma_add_one (by norm_num), Real.Gamma_one] at h
  simpa using h

/-- complex-linear change of variables on `ℂ^D`: the real Jacobian of `w = B y` is `|det B|²` -/
theorem integral_comp_cmatrix {D : Nat} (B : Matrix (Fin D) (Fin D) ℂ) (hB : B.det ≠ 0)
    (g : (Fin D → ℂ) → ℝ) (hg : Measurable g) :
    ∫ y, g (B *ᵥ y) = (Complex.normSq B.det)⁻¹ * ∫ w, g w := by
  let T : (Fin D → ℂ) →ₗ[ℝ] (Fin D → ℂ) := (Matrix.toLin' B).restrictScalars ℝ
  have hdet : LinearMap.det T = Complex.normSq B.det := by
    rw [LinearMap.det_restrictScalars, LinearMap.det_toLin', Algebra.norm_complex_apply]
  have hne : LinearMap.det T ≠ 0 := by rw [hdet]; exact (Complex.normSq_pos.mpr hB).ne'
  have h := Measure.map_linearMap_addHaar_eq_smul_addHaar (volume : Measure (Fin D → ℂ)) hne
  have hmeas : Measurable T := T.continuous_of_finiteDimensional.measurable
  calc ∫ y, g (B *ᵥ y) = ∫ y, g (T y) := rfl
    _ = ∫ w, g w ∂(Measure.map T volume) := (integral_map hmeas.aemeasurable hg.aestronglyMeasurable).symm
    _ = (Complex.normSq B.det)⁻¹ * ∫ w, g w := by
        rw [h, integral_smul_measure, ENNReal.toReal_ofReal (abs_nonneg _), hdet, abs_inv,
          abs_of_nonneg (Complex.normSq_nonneg _), smul_eq_mul]

theorem measurable_prod_cstd {D : Nat} :
    Measurable fun w : Fin D → ℂ => ∏ d, Real.exp (-‖w d‖ ^ 2) :=
  Finset.measurable_prod _ fun d _ => by fun_prop

/-- `yᴴ (Bᴴ B) y = Σ_d |(B y)_d|²` -/
theorem quad_conjTranspose_mul_self {D : Nat} (B : Matrix (Fin D) (Fin D) ℂ) (y : Fin D → ℂ) :
    (star y ⬝ᵥ ((Bᴴ * B) *ᵥ y)).re = ∑ d, ‖(B *ᵥ y) d‖ ^ 2 := by
  rw [← Matrix.mulVec_mulVec, Matrix.dotProduct_mulVec]
  have h2 : star y ᵥ* Bᴴ = star (B *ᵥ y) := by rw [Matrix.star_mulVec]
  rw [h2]
  simp only [dotProduct, Pi.star_apply, Complex.re_sum]
  refine Finset.sum_congr rfl fun d _ => ?_
  rw [Complex.star_def, ← Complex.normSq_eq_conj_mul_self, Complex.ofReal_re, Complex.sq_norm]

/-- **the complex circularly symmetric Gaussian integrates to one** w.r.t. Lebesgue measure on `ℂ^D`
(with the externals at their contract values `s = Σ⁻¹ y`, `logdet = log|det Σ|`) -/
theorem integral_exp_cgauss {D : Nat} (S : Matrix (Fin D) (Fin D) ℂ) (hS : S.PosDef) :
    ∫ y : Fin D → ℂ, Real.exp (cgaussLogPdf Real.pi (Real.log ‖S.det‖) (S⁻¹ *ᵥ y) y) = 1 := by
  have hu : IsUnit S.det := (Matrix.isUnit_iff_isUnit_det S).mp hS.isUnit
  have hinv : S⁻¹.PosDef := hS.inv
  obtain ⟨B, hB⟩ := CStarAlgebra.nonneg_iff_eq_star_mul_self.mp hinv.posSemidef.nonneg
  rw [star_eq_conjTranspose] at hB
  obtain ⟨hdre, _⟩ := posDef_det_re S hS
  -- determinant bookkeeping
  have hdetinv : (S⁻¹).det = (S.det)⁻¹ := by rw [Matrix.det_nonsing_inv, Ring.inverse_eq_inv']
  have hnormsq : ((Complex.normSq B.det : ℝ) : ℂ) = (S.det)⁻¹ := by
    rw [← hdetinv, hB, Matrix.det_mul, Matrix.det_conjTranspose, Complex.normSq_eq_conj_mul_self,
      Complex.star_def]
  have hSdet : S.det = ((S.det.re : ℝ) : ℂ) := by
    obtain ⟨_, him⟩ := Complex.pos_iff.mp hS.det_pos
    exact Complex.ext rfl (by simp [← him])
  have hN : Complex.normSq B.det = (S.det.re)⁻¹ := by
    have : ((Complex.normSq B.det : ℝ) : ℂ) = (((S.det.re)⁻¹ : ℝ) : ℂ) := by
      rw [hnormsq]; conv_lhs => rw [hSdet]
      push_cast; rfl
    exact_mod_cast this
  have hBdet : B.det ≠ 0 := by
    intro h0
    rw [h0, Complex.normSq_zero] at hN
    exact (inv_pos.mpr hdre).ne' hN.symm
  -- the integrand
  have hint : ∀ y : Fin D → ℂ, Real.exp (cgaussLogPdf Real.pi (Real.log ‖S.det‖) (S⁻¹ *ᵥ y) y)
      = ((Real.pi ^ D)⁻¹ * (S.det.re)⁻¹) * ∏ d, Real.exp (-‖(B *ᵥ y) d‖ ^ 2) := by
    intro y
    have hs : S *ᵥ (S⁻¹ *ᵥ y) = y := by
      rw [Matrix.mulVec_mulVec, Matrix.mul_nonsing_inv S hu, Matrix.one_mulVec]
    rw [cgaussLogPdf_closed S hS _ y _ hs rfl, hB, quad_conjTranspose_mul_self, ← Real.exp_sum,
      Finset.sum_neg_distrib, sub_eq_add_neg, sub_eq_add_neg, Real.exp_add, Real.exp_add, Real.exp_neg,
      Real.exp_log hdre, neg_mul, Real.exp_neg, Real.exp_nat_mul, Real.exp_log Real.pi_pos]
  simp only [hint]
  rw [integral_const_mul,
    integral_comp_cmatrix B hBdet (fun w => ∏ d, Real.exp (-‖w d‖ ^ 2)) measurable_prod_cstd,
    integral_fintype_prod_volume_eq_prod (fun _ (z : ℂ) => Real.exp (-‖z‖ ^ 2))]
  simp only [integral_complex_stdGauss, Finset.prod_const, Finset.card_univ, Fintype.card_fin, hN, inv_inv]
  have := Real.pi_pos
  field_simp

end cintegral

/-! ### polar coordinates: from a Gaussian integral over the space to an integral over its unit sphere -/
section polar
open MeasureTheory Measure Metric Set Module

theorem integral_polar {E : Type*} [NormedAddCommGroup E] [NormedSpace ℝ E] [MeasurableSpace E] [BorelSpace E]
    [FiniteDimensional ℝ E] [Nontrivial E] (μ : Measure E) [μ.IsAddHaarMeasure] (F : E → ℝ)
    (hF : Integrable F μ) :
    ∫ x, F x ∂μ
      = ∫ u : sphere (0 : E) 1, (∫ r in Ioi (0 : ℝ), r ^ (finrank ℝ E - 1) * F (r • u.1)) ∂μ.toSphere := by
  have hmp := μ.measurePreserving_homeomorphUnitSphereProd
  have hemb := (homeomorphUnitSphereProd E).measurableEmbedding
  let G : sphere (0 : E) 1 × Ioi (0 : ℝ) → ℝ := fun p => F (p.2.1 • p.1.1)
  have hG : ∀ x : ({0}ᶜ : Set E), G (homeomorphUnitSphereProd E x) = F x.1 := by
    intro x
    have := congrArg Subtype.val ((homeomorphUnitSphereProd E).symm_apply_apply x)
    rw [homeomorphUnitSphereProd_symm_apply_coe] at this
    simp only [G, this]
  have hms : MeasurableSet ({0}ᶜ : Set E) := (measurableSet_singleton _).compl
  have hint : Integrable G (μ.toSphere.prod (volumeIoiPow (finrank ℝ E - 1))) := by
    rw [← hmp.integrable_comp_emb hemb]
    have h1 : Integrable (F ∘ (↑) : ({0}ᶜ : Set E) → ℝ) (μ.comap (↑)) :=
      (integrableOn_iff_comap_subtypeVal hms).mp hF.integrableOn
    exact h1.congr (Filter.Eventually.of_forall fun x => (hG x).symm)
  calc ∫ x, F x ∂μ = ∫ x : ({0}ᶜ : Set E), F x.1 ∂(μ.comap (↑)) := by
        rw [integral_subtype_comap hms fun x => F x, restrict_compl_singleton]
    _ = ∫ p, G p ∂(μ.toSphere.prod (volumeIoiPow (finrank ℝ E - 1))) := by
        rw [← hmp.integral_comp hemb G]
        exact integral_congr_ae (Filter.Eventually.of_forall fun x => (hG x).symm)
    _ = ∫ u, ∫ r, G (u, r) ∂(volumeIoiPow (finrank ℝ E - 1)) ∂μ.toSphere := integral_prod _ hint
    _ = _ := by
        refine integral_congr_ae (Filter.Eventually.of_forall fun u => ?_)
        simp only [G, Measure.volumeIoiPow, ENNReal.ofReal]
        rw [integral_withDensity_eq_integral_smul,
          integral_subtype_comap measurableSet_Ioi fun a => Real.toNNReal (a ^ (finrank ℝ E - 1)) • F (a • u.1)]
        · refine setIntegral_congr_fun measurableSet_Ioi fun x hx => ?_
          simp only [NNReal.smul_def, Real.coe_toNNReal _ (pow_nonneg (le_of_lt hx) _), smul_eq_mul]
        · exact (measurable_subtype_coe.pow_const _).real_toNNReal

/-- `∫_0^∞ r^{2D-1} e^{-b r²} dr = (D-1)! / (2 b^D)` -/
theorem integral_pow_mul_exp_neg_mul_sq (D : ℕ) (hD : 0 < D) (b : ℝ) (hb : 0 < b) :
    ∫ r in Ioi (0 : ℝ), r ^ (2 * D - 1) * Real.exp (-(r ^ 2 * b)) = ((D - 1).factorial : ℝ) / 2 * (b ^ D)⁻¹ := by
  have h := integral_rpow_mul_exp_neg_mul_rpow (p := 2) (q := ((2 * D - 1 : ℕ) : ℝ)) (b := b) (by norm_num)
    (by have : (0 : ℝ) ≤ ((2 * D - 1 : ℕ) : ℝ) := Nat.cast_nonneg _; linarith) hb
  have hcast : ((2 * D - 1 : ℕ) : ℝ) = 2 * (D : ℝ) - 1 := by
    rw [Nat.cast_sub (by omega)]; push_cast; ring
  have e1 : (-(((2 * D - 1 : ℕ) : ℝ) + 1) / 2) = -(D : ℝ) := by rw [hcast]; ring
  have e2 : ((((2 * D - 1 : ℕ) : ℝ) + 1) / 2) = ((D - 1 : ℕ) : ℝ) + 1 := by
    rw [hcast, Nat.cast_sub (by omega)]; push_cast; ring
  rw [e1, e2, Real.Gamma_nat_eq_factorial, Real.rpow_neg hb.le, Real.rpow_natCast] at h
  rw [← h.trans (by ring : (b ^ D)⁻¹ * (1 / 2) * ((D - 1).factorial : ℝ) = ((D - 1).factorial : ℝ) / 2 * (b ^ D)⁻¹)]
  refine setIntegral_congr_fun measurableSet_Ioi fun r hr => ?_
  simp only [Real.rpow_natCast, Real.rpow_two]
  congr 2; ring

theorem sphere_integral_of_gaussian {E : Type*} [NormedAddCommGroup E] [NormedSpace ℝ E] [MeasurableSpace E]
    [BorelSpace E] [FiniteDimensional ℝ E] [Nontrivial E] (μ : Measure E) [μ.IsAddHaarMeasure]
    (q : E → ℝ) (D : ℕ) (hD : 0 < D) (hn : finrank ℝ E = 2 * D)
    (hq2 : ∀ (r : ℝ) (x : E), q (r • x) = r ^ 2 * q x) (hpos : ∀ u : sphere (0 : E) 1, 0 < q u.1)
    (hI : Integrable (fun x => Real.exp (-q x)) μ) :
    ∫ x, Real.exp (-q x) ∂μ
      = ((D - 1).factorial : ℝ) / 2 * ∫ u : sphere (0 : E) 1, ((q u.1) ^ D)⁻¹ ∂μ.toSphere := by
  rw [integral_polar μ _ hI, ← integral_const_mul]
  refine integral_congr_ae (Filter.Eventually.of_forall fun u => ?_)
  simp only [hq2, hn]
  exact integral_pow_mul_exp_neg_mul_sq D hD (q u.1) (hpos u)

end polar

/-! ### the complex angular central Gaussian integrates to the sphere area -/
section cacgIntegral
open MeasureTheory Measure Metric Set Module
open scoped ComplexOrder MatrixOrder

/-- `ℂ^D` with the Euclidean norm, as a real normed space -/
abbrev CE (D : ℕ) := EuclideanSpace ℂ (Fin D)

/-- the identification `(Fin D → ℂ) ≃ EuclideanSpace ℂ (Fin D)` -/
noncomputable def cLin (D : ℕ) : (Fin D → ℂ) ≃L[ℝ] CE D := (PiLp.continuousLinearEquiv 2 ℝ (fun _ : Fin D => ℂ)).symm

/-- Lebesgue measure of `ℂ^D = ℝ^{2D}` transported to the Euclidean space -/
noncomputable def volE (D : ℕ) : Measure (CE D) := (volume : Measure (Fin D → ℂ)).map (cLin D)

instance (D : ℕ) : (volE D).IsAddHaarMeasure := ContinuousLinearEquiv.isAddHaarMeasure_map _ _

theorem cLin_ofLp (D : ℕ) (y : Fin D → ℂ) : (cLin D y).ofLp = y := rfl

theorem integral_volE {D : ℕ} (F : CE D → ℝ) : ∫ x, F x ∂(volE D) = ∫ y : Fin D → ℂ, F (cLin D y) :=
  (cLin D).toHomeomorph.measurableEmbedding.integral_map F

theorem integrable_volE {D : ℕ} (F : CE D → ℝ) (h : Integrable (fun y : Fin D → ℂ => F (cLin D y))) :
    Integrable F (volE D) :=
  ((cLin D).toHomeomorph.measurableEmbedding.integrable_map_iff).mpr h

theorem finrank_CE (D : ℕ) : finrank ℝ (CE D) = 2 * D := by
  rw [← (cLin D).toLinearEquiv.finrank_eq, Module.finrank_pi_fintype]
  simp [Complex.finrank_real_complex, mul_comm]


/-- the quadratic form `zᴴ B⁻¹ z` on the Euclidean space -/
noncomputable def cacgQ {D : ℕ} (U : Matrix (Fin D) (Fin D) ℂ) (lam : Fin D → ℝ) (x : CE D) : ℝ :=
  (star x.ofLp ⬝ᵥ ((specMat U lam)⁻¹ *ᵥ x.ofLp)).re

theorem specMat_posDef {D : ℕ} (U : Matrix (Fin D) (Fin D) ℂ) (lam : Fin D → ℝ) (hU : Uᴴ * U = 1)
    (hl : ∀ e, 0 < lam e) : (specMat U lam).PosDef := by
  have hd : (Matrix.diagonal fun x => (lam x : ℂ)).PosDef :=
    Matrix.PosDef.diagonal fun i => by exact_mod_cast hl i
  have hUu : IsUnit U := IsUnit.of_mul_eq_one_right _ hU
  exact hd.mul_mul_conjTranspose_same (Matrix.vecMul_injective_of_isUnit hUu)

theorem cacgQ_smul {D : ℕ} (U : Matrix (Fin D) (Fin D) ℂ) (lam : Fin D → ℝ) (r : ℝ) (x : CE D) :
    cacgQ U lam (r • x) = r ^ 2 * cacgQ U lam x := by
  unfold cacgQ
  have h1 : (r • x).ofLp = (r : ℂ) • x.ofLp := by
    ext d; simp [Complex.real_smul]
  have h2 : star ((r : ℂ) • x.ofLp) = (r : ℂ) • star x.ofLp := by
    ext d; simp
  rw [h1, h2, Matrix.mulVec_smul, smul_dotProduct, dotProduct_smul, smul_smul, smul_eq_mul,
    ← Complex.ofReal_mul, Complex.re_ofReal_mul]
  ring

theorem cacgQ_pos {D : ℕ} (U : Matrix (Fin D) (Fin D) ℂ) (lam : Fin D → ℝ) (hU : Uᴴ * U = 1)
    (hl : ∀ e, 0 < lam e) (x : CE D) (hx : x ≠ 0) : 0 < cacgQ U lam x := by
  have hinv := (specMat_posDef U lam hU hl).inv
  have hne : x.ofLp ≠ 0 := fun h => hx (by ext d; simpa using congrFun h d)
  exact (Complex.pos_iff.mp (hinv.dotProduct_mulVec_pos hne)).1

/-- `∫_{ℂ^D} e^{-zᴴB⁻¹z} dz = π^D det B` (the complex Gaussian integral in its unnormalised form) -/
theorem integral_exp_neg_cacgQ {D : ℕ} (U : Matrix (Fin D) (Fin D) ℂ) (lam : Fin D → ℝ) (hU : Uᴴ * U = 1)
    (hl : ∀ e, 0 < lam e) :
    Integrable (fun x => Real.exp (-cacgQ U lam x)) (volE D) ∧
      ∫ x, Real.exp (-cacgQ U lam x) ∂(volE D) = Real.pi ^ D * ((specMat U lam).det).re := by
  have hS := specMat_posDef U lam hU hl
  have hu : IsUnit (specMat U lam).det := (Matrix.isUnit_iff_isUnit_det _).mp hS.isUnit
  obtain ⟨hdre, _⟩ := posDef_det_re _ hS
  have h1 := integral_exp_cgauss (specMat U lam) hS
  have hI1 : Integrable fun y : Fin D → ℂ =>
      Real.exp (cgaussLogPdf Real.pi (Real.log ‖(specMat U lam).det‖) ((specMat U lam)⁻¹ *ᵥ y) y) := by
    by_contra h
    rw [integral_undef h] at h1
    exact zero_ne_one h1
  have hpt : ∀ y : Fin D → ℂ, Real.exp (-cacgQ U lam (cLin D y))
      = (Real.pi ^ D * ((specMat U lam).det).re)
        * Real.exp (cgaussLogPdf Real.pi (Real.log ‖(specMat U lam).det‖) ((specMat U lam)⁻¹ *ᵥ y) y) := by
    intro y
    have hs : specMat U lam *ᵥ ((specMat U lam)⁻¹ *ᵥ y) = y := by
      rw [Matrix.mulVec_mulVec, Matrix.mul_nonsing_inv _ hu, Matrix.one_mulVec]
    have e1 : Real.exp (-(D : ℝ) * Real.log Real.pi) = (Real.pi ^ D)⁻¹ := by
      rw [neg_mul, Real.exp_neg, Real.exp_nat_mul, Real.exp_log Real.pi_pos]
    have e2 : Real.exp (-Real.log ((specMat U lam).det).re) = (((specMat U lam).det).re)⁻¹ := by
      rw [Real.exp_neg, Real.exp_log hdre]
    rw [cgaussLogPdf_closed _ hS _ y _ hs rfl, sub_eq_add_neg, sub_eq_add_neg, Real.exp_add, Real.exp_add,
      e1, e2]
    unfold cacgQ
    rw [cLin_ofLp]
    have := Real.pi_pos
    field_simp
  constructor
  · apply integrable_volE
    simp only [hpt]
    exact hI1.const_mul _
  · rw [integral_volE]
    simp only [hpt]
    rw [integral_const_mul, h1, mul_one]

theorem nontrivial_CE {D : ℕ} (hD : 0 < D) : Nontrivial (CE D) := by
  refine ⟨⟨0, EuclideanSpace.single ⟨0, hD⟩ 1, fun h => ?_⟩⟩
  have := congrArg (fun x : CE D => x.ofLp ⟨0, hD⟩) h
  simp at this

/-- **the complex angular central Gaussian integrates to the sphere area `2π^D/(D-1)!`** over the Euclidean unit
sphere of `ℂ^D`, w.r.t. the surface measure induced by Lebesgue measure (`Measure.toSphere`) -/
theorem cacg_sphere_integral {D : ℕ} (hD : 0 < D) (tiny : ℝ) (U : Matrix (Fin D) (Fin D) ℂ) (lam : Fin D → ℝ)
    (hU : Uᴴ * U = 1) (hl : ∀ e, 0 < lam e)
    (hguard : ∀ u : sphere (0 : CE D) 1, tiny ≤ cacgQ U lam u.1) :
    ∫ u : sphere (0 : CE D) 1, Real.exp (cacgLogPdf tiny (fun i j => U i j) lam u.1.ofLp) ∂(volE D).toSphere
      = 2 * Real.pi ^ D / ((D - 1).factorial : ℝ) := by
  have := nontrivial_CE hD
  obtain ⟨hI, hval⟩ := integral_exp_neg_cacgQ U lam hU hl
  obtain ⟨hdre, _⟩ := posDef_det_re _ (specMat_posDef U lam hU hl)
  have hne : ∀ u : sphere (0 : CE D) 1, u.1 ≠ 0 := fun u h => by
    have := u.2; rw [mem_sphere_zero_iff_norm, h, norm_zero] at this; exact zero_ne_one this
  have hpos : ∀ u : sphere (0 : CE D) 1, 0 < cacgQ U lam u.1 := fun u => cacgQ_pos U lam hU hl _ (hne u)
  have hsph := sphere_integral_of_gaussian (volE D) (cacgQ U lam) D hD (finrank_CE D) (cacgQ_smul U lam) hpos hI
  rw [hval] at hsph
  -- pointwise: the density on the sphere is `(zᴴB⁻¹z)^{-D} / det B`
  have hpt : ∀ u : sphere (0 : CE D) 1,
      Real.exp (cacgLogPdf tiny (fun i j => U i j) lam u.1.ofLp)
        = (((specMat U lam).det).re)⁻¹ * ((cacgQ U lam u.1) ^ D)⁻¹ := by
    intro u
    have hn : Real.sqrt (∑ d, ‖u.1.ofLp d‖ ^ 2) = 1 := by
      rw [← EuclideanSpace.norm_eq]; exact mem_sphere_zero_iff_norm.mp u.2
    have hz : u.1.ofLp = fun d => u.1.ofLp d / ((Real.sqrt (∑ d, ‖u.1.ofLp d‖ ^ 2) : ℝ) : ℂ) := by
      funext d; rw [hn]; simp
    rw [cacgLogPdf_closed tiny U lam u.1.ofLp u.1.ofLp hU hl (by rw [hn]; exact one_pos) hz (hguard u)]
    have hq := hpos u
    unfold cacgQ at hq ⊢
    rw [sub_eq_add_neg, Real.exp_add, Real.exp_neg (Real.log _), Real.exp_log hdre, neg_mul, Real.exp_neg,
      Real.exp_nat_mul, Real.exp_log hq]
    ring
  simp only [hpt]
  rw [integral_const_mul]
  have hfact : (0 : ℝ) < ((D - 1).factorial : ℝ) := by exact_mod_cast Nat.factorial_pos _
  have : ∫ u : sphere (0 : CE D) 1, ((cacgQ U lam u.1) ^ D)⁻¹ ∂(volE D).toSphere
      = 2 * (Real.pi ^ D * ((specMat U lam).det).re) / ((D - 1).factorial : ℝ) := by
    rw [hsph]; field_simp
  rw [this]
  field_simp

theorem specMat_one {D : ℕ} : specMat (1 : Matrix (Fin D) (Fin D) ℂ) (fun _ => (1 : ℝ)) = 1 := by
  unfold specMat
  simp

/-- the total mass of the surface measure is the area `2π^D/(D-1)!` of the unit sphere of `ℂ^D` -/
theorem toSphere_volE_univ {D : ℕ} (hD : 0 < D) :
    (volE D).toSphere.real univ = 2 * Real.pi ^ D / ((D - 1).factorial : ℝ) := by
  have hq : ∀ u : sphere (0 : CE D) 1, cacgQ (1 : Matrix (Fin D) (Fin D) ℂ) (fun _ => (1 : ℝ)) u.1 = 1 := by
    intro u
    unfold cacgQ
    rw [specMat_one, inv_one, Matrix.one_mulVec]
    have hn : ‖u.1‖ = 1 := mem_sphere_zero_iff_norm.mp u.2
    rw [EuclideanSpace.norm_eq, Real.sqrt_eq_one] at hn
    have hsum : (star u.1.ofLp ⬝ᵥ u.1.ofLp).re = ∑ i, ‖u.1.ofLp i‖ ^ 2 := by
      simp only [dotProduct, Pi.star_apply, Complex.re_sum]
      refine Finset.sum_congr rfl fun d _ => ?_
      rw [Complex.star_def, ← Complex.normSq_eq_conj_mul_self, Complex.ofReal_re, Complex.sq_norm]
    rw [hsum, hn]
  have h := cacg_sphere_integral hD 0 (1 : Matrix (Fin D) (Fin D) ℂ) (fun _ => (1 : ℝ)) (by simp)
    (fun _ => one_pos) (fun u => by rw [hq u]; exact zero_le_one)
  rw [← h]
  have hpt : ∀ u : sphere (0 : CE D) 1,
      Real.exp (cacgLogPdf 0 (fun i j => (1 : Matrix (Fin D) (Fin D) ℂ) i j) (fun _ => (1 : ℝ)) u.1.ofLp) = 1 := by
    intro u
    have hn : Real.sqrt (∑ d, ‖u.1.ofLp d‖ ^ 2) = 1 := by
      rw [← EuclideanSpace.norm_eq]; exact mem_sphere_zero_iff_norm.mp u.2
    have hz : u.1.ofLp = fun d => u.1.ofLp d / ((Real.sqrt (∑ d, ‖u.1.ofLp d‖ ^ 2) : ℝ) : ℂ) := by
      funext d; rw [hn]; simp
    have hq' := hq u
    unfold cacgQ at hq'
    rw [cacgLogPdf_closed 0 1 (fun _ => 1) u.1.ofLp u.1.ofLp (by simp) (fun _ => one_pos)
      (by rw [hn]; exact one_pos) hz (by rw [hq']; exact zero_le_one), hq', specMat_one]
    simp
  simp only [hpt]
  simp [Measure.real]

end cacgIntegral

/-! ### the complex Watson density integrates to one -/
section watsonIntegral
open MeasureTheory Measure Metric Set Module
open scoped ComplexOrder MatrixOrder

/-- `∫_ℂ |z|^{2m} e^{-|z|²} dz = π m!` -/
theorem integral_complex_pow_gauss (m : ℕ) :
    ∫ z : ℂ, ‖z‖ ^ (2 * m) * Real.exp (-‖z‖ ^ 2) = Real.pi * (m.factorial : ℝ) := by
  have h := Complex.integral_rpow_mul_exp_neg_rpow (p := 2) (q := ((2 * m : ℕ) : ℝ)) (by norm_num)
    (by have : (0 : ℝ) ≤ ((2 * m : ℕ) : ℝ) := Nat.cast_nonneg _; linarith)
  have e : (((2 * m : ℕ) : ℝ) + 2) / 2 = (m : ℝ) + 1 := by push_cast; ring
  rw [e, Real.Gamma_nat_eq_factorial] at h
  simp only [Real.rpow_natCast, Real.rpow_two] at h
  rw [h]; ring

/-- `∫_{ℂ^{n+1}} |x_0|^{2m} e^{-|x|²} dx = π^{n+1} m!` -/
theorem integral_coord_pow_gauss (n m : ℕ) :
    ∫ x : Fin (n + 1) → ℂ, ‖x 0‖ ^ (2 * m) * Real.exp (-∑ d, ‖x d‖ ^ 2)
      = Real.pi ^ (n + 1) * (m.factorial : ℝ) := by
  let f : Fin (n + 1) → ℂ → ℝ :=
    Fin.cons (fun z => ‖z‖ ^ (2 * m) * Real.exp (-‖z‖ ^ 2)) (fun _ z => Real.exp (-‖z‖ ^ 2))
  have hf : ∀ x : Fin (n + 1) → ℂ, ‖x 0‖ ^ (2 * m) * Real.exp (-∑ d, ‖x d‖ ^ 2) = ∏ d, f d (x d) := by
    intro x
    rw [Fin.prod_univ_succ, Fin.sum_univ_succ, neg_add, Real.exp_add, ← Finset.sum_neg_distrib, Real.exp_sum]
    simp only [f, Fin.cons_zero, Fin.cons_succ]
    ring
  simp only [hf]
  rw [integral_fintype_prod_volume_eq_prod f, Fin.prod_univ_succ]
  simp only [f, Fin.cons_zero, Fin.cons_succ, integral_complex_pow_gauss, integral_complex_stdGauss,
    Finset.prod_const, Finset.card_univ, Fintype.card_fin]
  ring

theorem star_dot_self_re {D : ℕ} (x : Fin D → ℂ) : (star x ⬝ᵥ x).re = ∑ d, ‖x d‖ ^ 2 := by
  simp only [dotProduct, Pi.star_apply, Complex.re_sum]
  refine Finset.sum_congr rfl fun d _ => ?_
  rw [Complex.star_def, ← Complex.normSq_eq_conj_mul_self, Complex.ofReal_re, Complex.sq_norm]

theorem unitary_norm_sq {D : ℕ} (U : Matrix (Fin D) (Fin D) ℂ) (hU : Uᴴ * U = 1) (x : Fin D → ℂ) :
    ∑ d, ‖(U *ᵥ x) d‖ ^ 2 = ∑ d, ‖x d‖ ^ 2 := by
  rw [← quad_conjTranspose_mul_self, hU, Matrix.one_mulVec, star_dot_self_re]

theorem unitary_col_inner {n : ℕ} (U : Matrix (Fin (n + 1)) (Fin (n + 1)) ℂ) (hU : Uᴴ * U = 1)
    (x : Fin (n + 1) → ℂ) : ∑ d, (U *ᵥ x) d * star (U d 0) = x 0 := by
  have h : ∀ e, ∑ d, star (U d 0) * U d e = (1 : Matrix (Fin (n + 1)) (Fin (n + 1)) ℂ) 0 e := by
    intro e
    rw [← hU, Matrix.mul_apply]
    refine Finset.sum_congr rfl fun d _ => ?_
    rw [Matrix.conjTranspose_apply]
  simp only [mulVec, dotProduct, Finset.sum_mul]
  rw [Finset.sum_comm]
  have : ∀ e, ∑ d, U d e * x e * star (U d 0) = x e * (1 : Matrix (Fin (n + 1)) (Fin (n + 1)) ℂ) 0 e := by
    intro e
    rw [← h e, Finset.mul_sum]
    refine Finset.sum_congr rfl fun d _ => by ring
  simp only [this, Matrix.one_apply]
  simp

theorem unitary_normSq_det {D : ℕ} (U : Matrix (Fin D) (Fin D) ℂ) (hU : Uᴴ * U = 1) :
    Complex.normSq U.det = 1 := by
  have h := congrArg Matrix.det hU
  rw [Matrix.det_mul, Matrix.det_conjTranspose, Matrix.det_one] at h
  have : ((Complex.normSq U.det : ℝ) : ℂ) = 1 := by
    rw [Complex.normSq_eq_conj_mul_self, ← h, Complex.star_def]
  exact_mod_cast this

/-- `∫_{ℂ^{n+1}} |wᴴy|^{2m} e^{-|y|²} dy = π^{n+1} m!` for `w` the first column of a unitary matrix -/
theorem integral_mode_pow_gauss {n : ℕ} (m : ℕ) (U : Matrix (Fin (n + 1)) (Fin (n + 1)) ℂ) (hU : Uᴴ * U = 1) :
    ∫ y : Fin (n + 1) → ℂ, ‖∑ d, y d * star (U d 0)‖ ^ (2 * m) * Real.exp (-∑ d, ‖y d‖ ^ 2)
      = Real.pi ^ (n + 1) * (m.factorial : ℝ) := by
  have hdet : U.det ≠ 0 := by
    intro h0
    have := unitary_normSq_det U hU
    rw [h0, Complex.normSq_zero] at this
    exact zero_ne_one this
  have hg : Measurable fun y : Fin (n + 1) → ℂ =>
      ‖∑ d, y d * star (U d 0)‖ ^ (2 * m) * Real.exp (-∑ d, ‖y d‖ ^ 2) := by fun_prop
  have h := integral_comp_cmatrix U hdet _ hg
  rw [unitary_normSq_det U hU, inv_one, one_mul] at h
  rw [← h]
  simp only [unitary_col_inner U hU, unitary_norm_sq U hU]
  exact integral_coord_pow_gauss n m

/-- `|wᴴx|` on the Euclidean space, `w` the first column of `U` -/
noncomputable def modeAbs {n : ℕ} (U : Matrix (Fin (n + 1)) (Fin (n + 1)) ℂ) (x : CE (n + 1)) : ℝ :=
  ‖∑ d, x.ofLp d * star (U d 0)‖

theorem modeAbs_smul {n : ℕ} (U : Matrix (Fin (n + 1)) (Fin (n + 1)) ℂ) (r : ℝ) (hr : 0 < r) (x : CE (n + 1)) :
    modeAbs U (r • x) = r * modeAbs U x := by
  unfold modeAbs
  have : ∑ d, (r • x).ofLp d * star (U d 0) = (r : ℂ) * ∑ d, x.ofLp d * star (U d 0) := by
    rw [Finset.mul_sum]
    refine Finset.sum_congr rfl fun d _ => ?_
    simp [Complex.real_smul, mul_assoc]
  rw [this, norm_mul, Complex.norm_real, Real.norm_of_nonneg hr.le]

theorem norm_sq_CE {D : ℕ} (x : CE D) : ‖x‖ ^ 2 = ∑ d, ‖x.ofLp d‖ ^ 2 := by
  rw [EuclideanSpace.norm_eq, Real.sq_sqrt (Finset.sum_nonneg fun d _ => by positivity)]

theorem integral_modeAbs_gauss {n : ℕ} (m : ℕ) (U : Matrix (Fin (n + 1)) (Fin (n + 1)) ℂ) (hU : Uᴴ * U = 1) :
    Integrable (fun x : CE (n + 1) => modeAbs U x ^ (2 * m) * Real.exp (-‖x‖ ^ 2)) (volE (n + 1)) ∧
    ∫ x : CE (n + 1), modeAbs U x ^ (2 * m) * Real.exp (-‖x‖ ^ 2) ∂(volE (n + 1))
      = Real.pi ^ (n + 1) * (m.factorial : ℝ) := by
  have hval := integral_mode_pow_gauss m U hU
  have hpt : ∀ y : Fin (n + 1) → ℂ, modeAbs U (cLin (n + 1) y) ^ (2 * m) * Real.exp (-‖cLin (n + 1) y‖ ^ 2)
      = ‖∑ d, y d * star (U d 0)‖ ^ (2 * m) * Real.exp (-∑ d, ‖y d‖ ^ 2) := by
    intro y
    rw [norm_sq_CE]
    rfl
  have hpos : Real.pi ^ (n + 1) * (m.factorial : ℝ) ≠ 0 := by
    have := Real.pi_pos
    have : (0 : ℝ) < (m.factorial : ℝ) := by exact_mod_cast Nat.factorial_pos _
    positivity
  constructor
  · apply integrable_volE
    simp only [hpt]
    by_contra h
    rw [integral_undef h] at hval
    exact hpos hval.symm
  · rw [integral_volE]
    simp only [hpt]
    exact hval

/-- moments of `|wᴴu|²` over the unit sphere of `ℂ^{n+1}`: `∫_S |wᴴu|^{2m} dS = 2π^{n+1} m!/(m+n)!` -/
theorem sphere_moment {n : ℕ} (m : ℕ) (U : Matrix (Fin (n + 1)) (Fin (n + 1)) ℂ) (hU : Uᴴ * U = 1) :
    ∫ u : sphere (0 : CE (n + 1)) 1, modeAbs U u.1 ^ (2 * m) ∂(volE (n + 1)).toSphere
      = 2 * Real.pi ^ (n + 1) * (m.factorial : ℝ) / ((m + n).factorial : ℝ) := by
  have := nontrivial_CE (D := n + 1) (Nat.succ_pos n)
  obtain ⟨hI, hval⟩ := integral_modeAbs_gauss m U hU
  rw [integral_polar (volE (n + 1)) _ hI, finrank_CE] at hval
  have hinner : ∀ u : sphere (0 : CE (n + 1)) 1,
      ∫ r in Ioi (0 : ℝ), r ^ (2 * (n + 1) - 1) * (modeAbs U (r • u.1) ^ (2 * m) * Real.exp (-‖r • u.1‖ ^ 2))
        = ((m + n).factorial : ℝ) / 2 * modeAbs U u.1 ^ (2 * m) := by
    intro u
    have hu : ‖u.1‖ = 1 := mem_sphere_zero_iff_norm.mp u.2
    have h := integral_pow_mul_exp_neg_mul_sq (m + n + 1) (Nat.succ_pos _) 1 one_pos
    rw [one_pow, inv_one, mul_one, Nat.add_sub_cancel] at h
    rw [← h, ← integral_mul_const]
    refine setIntegral_congr_fun measurableSet_Ioi fun r hr => ?_
    have hr' : (0 : ℝ) < r := hr
    simp only [modeAbs_smul U r hr', norm_smul, hu, mul_one, Real.norm_of_nonneg hr'.le, mul_pow]
    have e : 2 * (m + n + 1) - 1 = (2 * (n + 1) - 1) + 2 * m := by omega
    rw [e, pow_add]
    ring
  simp only [hinner] at hval
  rw [integral_const_mul] at hval
  have hfact : (0 : ℝ) < ((m + n).factorial : ℝ) := by exact_mod_cast Nat.factorial_pos _
  field_simp at hval ⊢
  linarith

/-- Kummer's function `M(1; n+1; κ) = Σ_m κ^m / (n+1)_m = Σ_m κ^m n!/(m+n)!` (what `scipy.special.hyp1f1(1, D, κ)`
computes for `D = n+1`; Mathlib has no hypergeometric functions, so it is defined by its series) -/
noncomputable def kummerM1 (n : ℕ) (κ : ℝ) : ℝ := ∑' m : ℕ, κ ^ m * (n.factorial : ℝ) / ((m + n).factorial : ℝ)

theorem summable_kummer (n : ℕ) (κ : ℝ) (hκ : 0 ≤ κ) (c : ℝ) (hc : 0 ≤ c) :
    Summable fun m : ℕ => c * κ ^ m / ((m + n).factorial : ℝ) := by
  refine Summable.of_nonneg_of_le (fun m => by positivity) (fun m => ?_)
    ((Real.summable_pow_div_factorial κ).mul_left c)
  have h1 : ((m.factorial : ℕ) : ℝ) ≤ ((m + n).factorial : ℝ) := by
    exact_mod_cast Nat.factorial_le (Nat.le_add_right m n)
  have h0 : (0 : ℝ) < (m.factorial : ℝ) := by exact_mod_cast Nat.factorial_pos _
  rw [mul_div_assoc]
  exact mul_le_mul_of_nonneg_left (div_le_div_of_nonneg_left (by positivity) h0 h1) hc

/-- `∫_S e^{κ|wᴴu|²} dS = Σ_m 2π^{n+1} κ^m/(m+n)!` -/
theorem sphere_integral_exp_mode {n : ℕ} (κ : ℝ) (hκ : 0 ≤ κ) (U : Matrix (Fin (n + 1)) (Fin (n + 1)) ℂ)
    (hU : Uᴴ * U = 1) :
    ∫ u : sphere (0 : CE (n + 1)) 1, Real.exp (κ * modeAbs U u.1 ^ 2) ∂(volE (n + 1)).toSphere
      = ∑' m : ℕ, 2 * Real.pi ^ (n + 1) * κ ^ m / ((m + n).factorial : ℝ) := by
  let F : ℕ → sphere (0 : CE (n + 1)) 1 → ℝ := fun m u => κ ^ m / (m.factorial : ℝ) * modeAbs U u.1 ^ (2 * m)
  have hmom : ∀ m, ∫ u, F m u ∂(volE (n + 1)).toSphere
      = 2 * Real.pi ^ (n + 1) * κ ^ m / ((m + n).factorial : ℝ) := by
    intro m
    have h0 : (0 : ℝ) < (m.factorial : ℝ) := by exact_mod_cast Nat.factorial_pos _
    simp only [F]
    rw [integral_const_mul, sphere_moment m U hU]
    field_simp
  have hint : ∀ m, Integrable (F m) (volE (n + 1)).toSphere := by
    intro m
    have hval := sphere_moment m U hU
    have hpos : 2 * Real.pi ^ (n + 1) * (m.factorial : ℝ) / ((m + n).factorial : ℝ) ≠ 0 := by
      have := Real.pi_pos
      have : (0 : ℝ) < (m.factorial : ℝ) := by exact_mod_cast Nat.factorial_pos _
      have : (0 : ℝ) < ((m + n).factorial : ℝ) := by exact_mod_cast Nat.factorial_pos _
      positivity
    have : Integrable (fun u : sphere (0 : CE (n + 1)) 1 => modeAbs U u.1 ^ (2 * m)) (volE (n + 1)).toSphere := by
      by_contra h
      rw [integral_undef h] at hval
      exact hpos hval.symm
    exact this.const_mul _
  have hnn : ∀ m u, 0 ≤ F m u := fun m u => by
    simp only [F]; have : 0 ≤ modeAbs U u.1 := norm_nonneg _; positivity
  have hsum : Summable fun m => ∫ u, ‖F m u‖ ∂(volE (n + 1)).toSphere := by
    have : ∀ m, ∫ u, ‖F m u‖ ∂(volE (n + 1)).toSphere = 2 * Real.pi ^ (n + 1) * κ ^ m / ((m + n).factorial : ℝ) := by
      intro m
      rw [← hmom m]
      refine integral_congr_ae (Filter.Eventually.of_forall fun u => ?_)
      exact Real.norm_of_nonneg (hnn m u)
    simp only [this]
    exact summable_kummer n κ hκ (2 * Real.pi ^ (n + 1)) (by have := Real.pi_pos; positivity)
  have h := integral_tsum_of_summable_integral_norm hint hsum
  simp only [hmom] at h
  rw [h]
  refine integral_congr_ae (Filter.Eventually.of_forall fun u => ?_)
  simp only [F]
  rw [Real.exp_eq_exp_ℝ, NormedSpace.exp_eq_tsum_div]
  refine tsum_congr fun m => ?_
  rw [mul_pow, ← pow_mul]
  ring

/-- **the complex Watson density integrates to one** over the Euclidean unit sphere of `ℂ^{n+1}` (surface measure
`Measure.toSphere` of Lebesgue measure), for every concentration `κ ≥ 0` and every mode that is the first column of a
unitary matrix, given the contract `hyp1f1(1, n+1, κ) = M(1; n+1; κ)` -/
theorem watson_sphere_integral {n : ℕ} (κ : ℝ) (hκ : 0 ≤ κ) (U : Matrix (Fin (n + 1)) (Fin (n + 1)) ℂ)
    (hU : Uᴴ * U = 1) :
    ∫ u : sphere (0 : CE (n + 1)) 1,
        Real.exp (watsonLogPdf Real.pi (fun d => U d 0) κ (kummerM1 n κ) u.1.ofLp) ∂(volE (n + 1)).toSphere
      = 1 := by
  have hpi := Real.pi_pos
  have hfac : (0 : ℝ) < (n.factorial : ℝ) := by exact_mod_cast Nat.factorial_pos _
  -- M ≥ its zeroth term 1 > 0
  have hsumK : Summable fun m : ℕ => κ ^ m * (n.factorial : ℝ) / ((m + n).factorial : ℝ) := by
    have := summable_kummer n κ hκ (n.factorial : ℝ) hfac.le
    refine this.congr fun m => by ring
  have hM : 0 < kummerM1 n κ := by
    unfold kummerM1
    refine hsumK.tsum_pos (fun m => by positivity) 0 ?_
    simp [hfac.ne']
  have hA : 0 < 2 * Real.pi ^ (n + 1) / ((n + 1 - 1).factorial : ℝ) * kummerM1 n κ := by
    rw [Nat.add_sub_cancel]; positivity
  have hpt : ∀ u : sphere (0 : CE (n + 1)) 1,
      Real.exp (watsonLogPdf Real.pi (fun d => U d 0) κ (kummerM1 n κ) u.1.ofLp)
        = (2 * Real.pi ^ (n + 1) / ((n + 1 - 1).factorial : ℝ) * kummerM1 n κ)⁻¹
          * Real.exp (κ * modeAbs U u.1 ^ 2) := by
    intro u
    rw [watsonLogPdf_closed, Real.exp_sub, Real.exp_log hA]
    unfold modeAbs
    field_simp
  simp only [hpt]
  rw [integral_const_mul, sphere_integral_exp_mode κ hκ U hU, Nat.add_sub_cancel]
  have hK : ∑' m : ℕ, 2 * Real.pi ^ (n + 1) * κ ^ m / ((m + n).factorial : ℝ)
      = 2 * Real.pi ^ (n + 1) / (n.factorial : ℝ) * kummerM1 n κ := by
    unfold kummerM1
    rw [← tsum_mul_left]
    refine tsum_congr fun m => ?_
    field_simp
  rw [hK]
  have := hM.ne'
  field_simp

end watsonIntegral

end PbBss.Dist

import PbBss.Model.Dist
import PbBss.Proofs.RealInst
import Mathlib.LinearAlgebra.Matrix.Block
import Mathlib.LinearAlgebra.Matrix.NonsingularInverse
import Mathlib.LinearAlgebra.Matrix.PosDef
import Mathlib.Analysis.Matrix.PosDef
import Mathlib.Analysis.SpecialFunctions.Pow.Real
import Mathlib.Tactic
/-! Helper lemmas for property C07 (`Props/C07.lean`): bridges from the executable folds of `Model/Dist.lean` to
Mathlib's `∑`, `∏`, `^`, `!`, and the algebra behind each closed form. -/
open PbBss PbBss.Dist Matrix
open scoped BigOperators

namespace PbBss.Dist

/-! ### folds -/

theorem npow_eq_pow {M : Type} [Monoid M] (x : M) (n : Nat) : npow x n = x ^ n := by
  unfold npow
  induction n with
  | zero => simp [Fin.foldl_zero]
  | succ n ih => rw [Fin.foldl_succ_last, ih, pow_succ]

theorem vprod_eq_prod {M : Type} [CommMonoid M] {n : Nat} (f : Fin n → M) : vprod f = ∏ i, f i := by
  unfold vprod
  induction n with
  | zero => simp [Fin.foldl_zero]
  | succ n ih =>
    rw [Fin.foldl_succ_last, Fin.prod_univ_castSucc]
    simp only [ih]

theorem fact_eq (n : Nat) : fact n = n.factorial := by
  induction n with
  | zero => rfl
  | succ n ih => simp [fact, ih, Nat.factorial_succ]

theorem absR_real (x : ℝ) : absR x = |x| := by
  unfold absR
  split_ifs with h
  · rw [abs_of_neg h]
  · rw [abs_of_nonneg (not_lt.mp h)]

/-! ### Gaussians -/

/-- the common tail over ℝ -/
theorem gaussTail_real {D : Nat} (ell : ℝ) (white : Fin D → ℝ) :
    gaussTail Real.pi ell white
      = -(D : ℝ) / 2 * Real.log (2 * Real.pi) + ell - 1 / 2 * ∑ d, white d ^ 2 := by
  unfold gaussTail
  rw [vsum_eq_sum]
  simp only [transc_log_real, pow_two]
  ring

/-- `Σ_d (Σ_a P a d · x a)² = x ⬝ᵥ (P Pᵀ) x` -/
theorem whiten_sq {D : Nat} (P : Matrix (Fin D) (Fin D) ℝ) (x : Fin D → ℝ) :
    ∑ d, (∑ a, P a d * x a) ^ 2 = x ⬝ᵥ ((P * Pᵀ) *ᵥ x) := by
  simp only [dotProduct, mulVec, Matrix.mul_apply, Matrix.transpose_apply, pow_two]
  simp only [Finset.sum_mul, Finset.mul_sum]
  rw [Finset.sum_comm]
  refine Finset.sum_congr rfl fun a _ => ?_
  rw [Finset.sum_comm]
  refine Finset.sum_congr rfl fun b _ => ?_
  refine Finset.sum_congr rfl fun d _ => ?_
  ring

/-- `Σ log P_ii = log det P` for an upper triangular factor with positive diagonal -/
theorem sum_log_diag {D : Nat} (P : Matrix (Fin D) (Fin D) ℝ) (htri : P.IsUpperTriangular)
    (hpos : ∀ i, 0 < P i i) : ∑ i, Real.log (P i i) = Real.log P.det := by
  rw [Matrix.det_of_isUpperTriangular htri, Real.log_prod]
  intro i _; exact (hpos i).ne'

theorem det_pos_of_tri {D : Nat} (P : Matrix (Fin D) (Fin D) ℝ) (htri : P.IsUpperTriangular)
    (hpos : ∀ i, 0 < P i i) : 0 < P.det := by
  rw [Matrix.det_of_isUpperTriangular htri]
  exact Finset.prod_pos fun i _ => hpos i

/-- the contract `P Pᵀ = Σ⁻¹` with a positive-diagonal triangular `P` forces `Σ` to be invertible and
`log det P = -½ log det Σ` -/
theorem logdet_of_contract {D : Nat} (P S : Matrix (Fin D) (Fin D) ℝ) (htri : P.IsUpperTriangular)
    (hpos : ∀ i, 0 < P i i) (hP : P * Pᵀ = S⁻¹) :
    0 < S.det ∧ Real.log P.det = -(1 / 2) * Real.log S.det := by
  have hd := det_pos_of_tri P htri hpos
  have h1 : P.det * P.det = (S.det)⁻¹ := by
    have := congrArg Matrix.det hP
    rwa [Matrix.det_mul, Matrix.det_transpose, Matrix.det_nonsing_inv, Ring.inverse_eq_inv'] at this
  have hS : 0 < S.det := by
    have : 0 < (S.det)⁻¹ := by rw [← h1]; positivity
    exact inv_pos.mp this
  refine ⟨hS, ?_⟩
  have : Real.log (P.det * P.det) = Real.log ((S.det)⁻¹) := by rw [h1]
  rw [Real.log_mul hd.ne' hd.ne', Real.log_inv] at this
  linarith

theorem gaussLogPdf_closed {D : Nat} (μ y : Fin D → ℝ) (P S : Matrix (Fin D) (Fin D) ℝ) (ell : ℝ)
    (htri : P.IsUpperTriangular) (hpos : ∀ i, 0 < P i i) (hP : P * Pᵀ = S⁻¹)
    (hell : ell = ∑ i, Real.log (P i i)) :
    gaussLogPdf Real.pi μ (fun i j => P i j) ell y
      = -(D : ℝ) / 2 * Real.log (2 * Real.pi) - 1 / 2 * Real.log S.det
        - 1 / 2 * ((y - μ) ⬝ᵥ (S⁻¹ *ᵥ (y - μ))) := by
  unfold gaussLogPdf
  rw [gaussTail_real]
  simp only [vsum_eq_sum]
  have hw := whiten_sq P (y - μ)
  simp only [Pi.sub_apply] at hw
  rw [hw, hP, hell, sum_log_diag P htri hpos, (logdet_of_contract P S htri hpos hP).2]
  ring

theorem diagLogPdf_closed {D : Nat} (μ y p c : Fin D → ℝ) (ell : ℝ) (hc : ∀ d, 0 < c d)
    (hp : ∀ d, p d = 1 / Real.sqrt (c d)) (hell : ell = ∑ d, Real.log (p d)) :
    diagLogPdf Real.pi μ p ell y
      = -(D : ℝ) / 2 * Real.log (2 * Real.pi) - 1 / 2 * Real.log (∏ d, c d)
        - 1 / 2 * ∑ d, (y d - μ d) ^ 2 / c d := by
  unfold diagLogPdf
  rw [gaussTail_real, hell, Real.log_prod (fun d _ => (hc d).ne'), Finset.mul_sum, Finset.mul_sum,
    Finset.mul_sum]
  have h1 : ∀ d, Real.log (p d) = -(1 / 2) * Real.log (c d) := by
    intro d
    rw [hp d, one_div, Real.log_inv, Real.log_sqrt (hc d).le]; ring
  have h2 : ∀ d, (p d * (y d - μ d)) ^ 2 = (y d - μ d) ^ 2 / c d := by
    intro d
    rw [hp d, mul_pow, div_pow, one_pow, Real.sq_sqrt (hc d).le]; ring
  simp only [h1, h2]
  rw [sub_eq_add_neg (-(D : ℝ) / 2 * Real.log (2 * Real.pi)), ← Finset.sum_neg_distrib]
  congr 2
  refine Finset.sum_congr rfl fun d _ => by ring

theorem diagOfCov_closed {D : Nat} (μ y c : Fin D → ℝ) (hc : ∀ d, 0 < c d) :
    diagOfCov Real.pi μ c y
      = -(D : ℝ) / 2 * Real.log (2 * Real.pi) - 1 / 2 * Real.log (∏ d, c d)
        - 1 / 2 * ∑ d, (y d - μ d) ^ 2 / c d := by
  unfold diagOfCov
  refine diagLogPdf_closed μ y _ c _ hc (fun d => by simp [precCholDiag]) ?_
  simp [logDetDiag, vsum_eq_sum]

theorem sphLogPdf_closed {D : Nat} (μ y : Fin D → ℝ) (p c ell : ℝ) (hc : 0 < c)
    (hp : p = 1 / Real.sqrt c) (hell : ell = (D : ℝ) * Real.log p) :
    sphLogPdf Real.pi μ p ell y
      = -(D : ℝ) / 2 * Real.log (2 * Real.pi) - (D : ℝ) / 2 * Real.log c
        - 1 / (2 * c) * ∑ d, (y d - μ d) ^ 2 := by
  unfold sphLogPdf
  rw [gaussTail_real, hell]
  have h1 : Real.log p = -(1 / 2) * Real.log c := by
    rw [hp, one_div, Real.log_inv, Real.log_sqrt hc.le]; ring
  have h2 : ∀ d, (p * (y d - μ d)) ^ 2 = (y d - μ d) ^ 2 / c := by
    intro d
    rw [hp, mul_pow, div_pow, one_pow, Real.sq_sqrt hc.le]; ring
  simp only [h1, h2]
  rw [← Finset.sum_div]
  field_simp
  ring

theorem sphOfCov_closed {D : Nat} (μ y : Fin D → ℝ) (c : ℝ) (hc : 0 < c) :
    sphOfCov Real.pi μ c y
      = -(D : ℝ) / 2 * Real.log (2 * Real.pi) - (D : ℝ) / 2 * Real.log c
        - 1 / (2 * c) * ∑ d, (y d - μ d) ^ 2 := by
  unfold sphOfCov
  exact sphLogPdf_closed μ y _ c _ hc (by simp) (by simp [logDetSpherical])

/-! ### complex circularly symmetric Gaussian -/
section cgauss
open scoped ComplexOrder

theorem conj_dot {D : Nat} (y s : Fin D → ℂ) :
    (vsum fun d => CxOps.conj (α := ℝ) (y d) * s d) = star y ⬝ᵥ s := by
  rw [vsum_eq_sum]; rfl

theorem posDef_det_re {D : Nat} (S : Matrix (Fin D) (Fin D) ℂ) (hS : S.PosDef) :
    0 < S.det.re ∧ ‖S.det‖ = S.det.re := by
  obtain ⟨hre, him⟩ := Complex.pos_iff.mp hS.det_pos
  refine ⟨hre, ?_⟩
  have h : S.det = ((S.det.re : ℝ) : ℂ) := Complex.ext rfl (by simp [← him])
  rw [h, Complex.norm_real, Real.norm_of_nonneg (by simpa using hre.le)]
  simp

theorem cgaussLogPdf_closed {D : Nat} (S : Matrix (Fin D) (Fin D) ℂ) (hS : S.PosDef) (s y : Fin D → ℂ)
    (logdet : ℝ) (hs : S *ᵥ s = y) (hld : logdet = Real.log ‖S.det‖) :
    cgaussLogPdf Real.pi logdet s y
      = -(D : ℝ) * Real.log Real.pi - Real.log (S.det).re - (star y ⬝ᵥ (S⁻¹ *ᵥ y)).re := by
  have hu : IsUnit S.det := (Matrix.isUnit_iff_isUnit_det S).mp hS.isUnit
  have hsol : S⁻¹ *ᵥ y = s := by
    rw [← hs, Matrix.mulVec_mulVec, Matrix.nonsing_inv_mul S hu, Matrix.one_mulVec]
  unfold cgaussLogPdf
  rw [conj_dot, hsol, hld, (posDef_det_re S hS).2]
  simp

end cgauss

/-! ### von Mises-Fisher -/

theorem vmfLogPdf_closed {D : Nat} (μ y : Fin D → ℝ) (κ Inu tiny : ℝ) (hκ : 0 < κ) (hI : 0 < Inu)
    (hy : tiny ≤ Real.sqrt (∑ d, y d ^ 2)) :
    vmfLogPdf Real.pi tiny μ κ (Inu * Real.exp (-κ)) y
      = κ * ∑ d, y d / Real.sqrt (∑ e, y e ^ 2) * μ d
        - ((D : ℝ) / 2 * Real.log (2 * Real.pi) + Real.log Inu - ((D : ℝ) / 2 - 1) * Real.log κ) := by
  unfold vmfLogPdf vmfLogNorm
  simp only [vsum_eq_sum, transc_sqrt_real, transc_log_real, absR_real, ← pow_two]
  rw [max_eq_left hy, abs_of_pos hκ, Real.log_mul hI.ne' (Real.exp_pos _).ne', Real.log_exp]
  ring

/-! ### complex Watson -/

theorem watsonLogPdf_closed {D : Nat} (w y : Fin D → ℂ) (κ M : ℝ) :
    watsonLogPdf Real.pi w κ M y
      = κ * ‖∑ d, y d * star (w d)‖ ^ 2
        - Real.log (2 * Real.pi ^ D / ((D - 1).factorial : ℝ) * M) := by
  unfold watsonLogPdf watsonLogNorm
  simp only [vsum_eq_sum, transc_log_real, npow_eq_pow, fact_eq, cx_re, cx_im, cx_conj]
  rw [Complex.sq_norm, Complex.normSq_apply]
  have : ∀ d, (starRingEnd ℂ) (w d) = star (w d) := fun d => rfl
  simp only [this]
  ring_nf

/-! ### complex Bingham: sorting and the duplicate-spreading map -/

theorem sortAsc_perm (l : List ℝ) : (sortAsc l).Perm l := List.mergeSort_perm l _

theorem sortAsc_length (l : List ℝ) : (sortAsc l).length = l.length := (sortAsc_perm l).length_eq

theorem sortAsc_sorted (l : List ℝ) : (sortAsc l).Pairwise (· ≤ ·) := by
  have h := List.pairwise_mergeSort (le := fun a b : ℝ => !(decide (b < a)))
    (fun a b c h1 h2 => by simp only [Bool.not_eq_true', decide_eq_false_iff_not, not_lt] at *; linarith)
    (fun a b => by
      simp only [Bool.or_eq_true, Bool.not_eq_true', decide_eq_false_iff_not, not_lt]
      exact le_total a b) l
  refine h.imp ?_
  intro a b hab
  simpa using hab

theorem spreadAux_length (eps s0 : ℝ) : ∀ (xs : List ℝ) (prev c : ℝ),
    (spreadAux eps s0 prev c xs).length = xs.length
  | [], _, _ => rfl
  | x :: xs, prev, c => by simp [spreadAux, spreadAux_length eps s0 xs]

theorem spread_length (eps : ℝ) : ∀ l : List ℝ, (spread eps l).length = l.length
  | [] => rfl
  | s0 :: xs => by simp [spread, spreadAux_length]

/-- consecutive outputs differ by at least `eps` -/
theorem spreadAux_chain (eps s0 : ℝ) : ∀ (xs : List ℝ) (prev c : ℝ),
    List.IsChain (fun a b => a + eps ≤ b) ((s0 + c) :: spreadAux eps s0 prev c xs)
  | [], _, _ => by simp [spreadAux]
  | x :: xs, prev, c => by
    rw [spreadAux]
    refine List.IsChain.cons_cons ?_ (spreadAux_chain eps s0 xs x _)
    have := le_max_right (x - prev) eps
    linarith

/-- inputs whose consecutive gaps are already `≥ eps` are reproduced exactly -/
theorem spreadAux_fixed (eps s0 : ℝ) : ∀ (xs : List ℝ) (prev c : ℝ), s0 + c = prev →
    List.IsChain (fun a b => a + eps ≤ b) (prev :: xs) → spreadAux eps s0 prev c xs = xs
  | [], _, _, _, _ => rfl
  | x :: xs, prev, c, hc, hch => by
    rw [List.isChain_cons_cons] at hch
    rw [spreadAux]
    have hmax : max (x - prev) eps = x - prev := max_eq_left (by linarith [hch.1])
    have hx : s0 + (c + max (x - prev) eps) = x := by rw [hmax]; linarith
    rw [hx, spreadAux_fixed eps s0 xs x _ hx hch.2]

/-- on an ascending input every value moves up, the `i`-th one by at most `(k + i + 1)·eps` -/
theorem spreadAux_bound (eps s0 : ℝ) (heps : 0 ≤ eps) : ∀ (xs : List ℝ) (prev c : ℝ) (k : ℕ),
    0 ≤ s0 + c - prev → s0 + c - prev ≤ k * eps → List.IsChain (· ≤ ·) (prev :: xs) →
    ∀ i : ℕ, 0 ≤ (spreadAux eps s0 prev c xs).getD i 0 - xs.getD i 0 ∧
      (spreadAux eps s0 prev c xs).getD i 0 - xs.getD i 0 ≤ (k + i + 1 : ℕ) * eps
  | [], _, _, k, _, _, _, i => by
    simp only [spreadAux, List.getD_nil, sub_self, le_refl, true_and]
    positivity
  | x :: xs, prev, c, k, h0, h1, hch, i => by
    rw [List.isChain_cons_cons] at hch
    rw [spreadAux]
    have hd : 0 ≤ x - prev := by linarith [hch.1]
    have hm0 : x - prev ≤ max (x - prev) eps := le_max_left _ _
    have hm1 : max (x - prev) eps ≤ x - prev + eps := max_le (by linarith) (by linarith)
    have h0' : 0 ≤ s0 + (c + max (x - prev) eps) - x := by linarith
    have h1' : s0 + (c + max (x - prev) eps) - x ≤ ((k + 1 : ℕ) : ℝ) * eps := by
      push_cast; nlinarith
    cases i with
    | zero =>
      simp only [List.getD_cons_zero]
      refine ⟨h0', ?_⟩
      simpa using h1'
    | succ i =>
      simp only [List.getD_cons_succ]
      have := spreadAux_bound eps s0 heps xs x _ (k + 1) h0' h1' hch.2 i
      refine ⟨this.1, ?_⟩
      have e : (k + 1 + i + 1 : ℕ) = (k + (i + 1) + 1 : ℕ) := by omega
      rw [← e]; exact this.2

theorem spread_chain (eps : ℝ) : ∀ l : List ℝ, List.IsChain (fun a b => a + eps ≤ b) (spread eps l)
  | [] => by simp [spread]
  | s0 :: xs => by
    have := spreadAux_chain eps s0 xs s0 0
    rw [add_zero] at this
    exact this

theorem spread_fixed (eps : ℝ) : ∀ l : List ℝ, List.IsChain (fun a b => a + eps ≤ b) l → spread eps l = l
  | [], _ => rfl
  | s0 :: xs, h => by rw [spread, spreadAux_fixed eps s0 xs s0 0 (add_zero _) h]

theorem spread_idem (eps : ℝ) (l : List ℝ) : spread eps (spread eps l) = spread eps l :=
  spread_fixed eps _ (spread_chain eps l)

theorem spread_bound (eps : ℝ) (heps : 0 ≤ eps) : ∀ l : List ℝ, List.IsChain (· ≤ ·) l → ∀ i : ℕ,
    0 ≤ (spread eps l).getD i 0 - l.getD i 0 ∧ (spread eps l).getD i 0 - l.getD i 0 ≤ (i : ℕ) * eps
  | [], _, i => by
    simp only [spread, List.getD_nil, sub_self, le_refl, true_and]
    positivity
  | s0 :: xs, h, i => by
    rw [spread]
    cases i with
    | zero => simp
    | succ i =>
      simp only [List.getD_cons_succ]
      have := spreadAux_bound eps s0 heps xs s0 0 0 (by simp) (by simp) h i
      refine ⟨this.1, ?_⟩
      have e : (0 + i + 1 : ℕ) = (i + 1 : ℕ) := by omega
      rw [← e]; exact this.2

/-! ### complex Bingham: families indexed by `Fin D` -/

theorem ofFn_getD {D : Nat} (l : List ℝ) (h : l.length = D) :
    List.ofFn (fun j : Fin D => l.getD j.val 0) = l := by
  subst h
  apply List.ext_getElem
  · simp
  · intro i h1 h2
    simp [List.getD_eq_getElem _ _ h2]

theorem sorted_list_length {D : Nat} (lam : Fin D → ℝ) : (sortAsc (List.ofFn lam)).length = D := by
  rw [sortAsc_length, List.length_ofFn]

theorem spread_list_length {D : Nat} (eps : ℝ) (lam : Fin D → ℝ) :
    (spread eps (sortAsc (List.ofFn lam))).length = D := by
  rw [spread_length, sorted_list_length]

theorem ofFn_sortedFam {D : Nat} (lam : Fin D → ℝ) :
    List.ofFn (sortedFam lam) = sortAsc (List.ofFn lam) := ofFn_getD _ (sorted_list_length lam)

theorem ofFn_removeDup {D : Nat} (eps : ℝ) (lam : Fin D → ℝ) :
    List.ofFn (removeDup eps lam) = spread eps (sortAsc (List.ofFn lam)) :=
  ofFn_getD _ (spread_list_length eps lam)

/-- the sorted family is a rearrangement of the input -/
theorem sortedFam_perm {D : Nat} (lam : Fin D → ℝ) : (List.ofFn (sortedFam lam)).Perm (List.ofFn lam) := by
  rw [ofFn_sortedFam]; exact sortAsc_perm _

theorem sortedFam_mono {D : Nat} (lam : Fin D → ℝ) : Monotone (sortedFam lam) := by
  intro i j hij
  rcases eq_or_lt_of_le hij with rfl | hlt
  · exact le_rfl
  · have hs := List.pairwise_iff_getElem.mp (sortAsc_sorted (List.ofFn lam))
    have hi : i.val < (sortAsc (List.ofFn lam)).length := by rw [sorted_list_length]; exact i.isLt
    have hj : j.val < (sortAsc (List.ofFn lam)).length := by rw [sorted_list_length]; exact j.isLt
    have := hs i.val j.val hi hj hlt
    simpa [sortedFam, List.getD_eq_getElem _ _ hi, List.getD_eq_getElem _ _ hj] using this

theorem getD_chain {R : ℝ → ℝ → Prop} {l : List ℝ} (h : List.IsChain R l) (i : ℕ) (hi : i + 1 < l.length) :
    R (l.getD i 0) (l.getD (i + 1) 0) := by
  rw [List.getD_eq_getElem _ _ hi, List.getD_eq_getElem _ _ (Nat.lt_of_succ_lt hi)]
  exact h.getElem i hi

/-- consecutive spread eigenvalues differ by at least `eps` -/
theorem removeDup_gap {D : Nat} (eps : ℝ) (lam : Fin D → ℝ) (j : Fin D) (h : j.val + 1 < D) :
    removeDup eps lam j + eps ≤ removeDup eps lam ⟨j.val + 1, h⟩ :=
  getD_chain (spread_chain eps _) j.val (by rw [spread_list_length]; exact h)

theorem removeDup_strictMono {D : Nat} (eps : ℝ) (heps : 0 < eps) (lam : Fin D → ℝ) :
    StrictMono (removeDup eps lam) := by
  cases D with
  | zero => intro i; exact i.elim0
  | succ n =>
    rw [Fin.strictMono_iff_lt_succ]
    intro i
    have := removeDup_gap eps lam i.castSucc (by simp)
    have e : (⟨i.castSucc.val + 1, by simp⟩ : Fin (n + 1)) = i.succ := by ext; simp
    rw [e] at this
    linarith

/-- every eigenvalue moves up, by at most `(D-1)·eps` (the `j`-th smallest by at most `j·eps`) -/
theorem removeDup_moves {D : Nat} (eps : ℝ) (heps : 0 ≤ eps) (lam : Fin D → ℝ) (j : Fin D) :
    0 ≤ removeDup eps lam j - sortedFam lam j ∧
      removeDup eps lam j - sortedFam lam j ≤ (j.val : ℝ) * eps ∧
      removeDup eps lam j - sortedFam lam j ≤ ((D - 1 : ℕ) : ℝ) * eps := by
  have hch : List.IsChain (· ≤ ·) (sortAsc (List.ofFn lam)) := (sortAsc_sorted _).isChain
  have := spread_bound eps heps _ hch j.val
  refine ⟨this.1, this.2, this.2.trans ?_⟩
  have : (j.val : ℝ) ≤ ((D - 1 : ℕ) : ℝ) := by
    have := j.isLt
    exact_mod_cast (by omega : j.val ≤ D - 1)
  exact mul_le_mul_of_nonneg_right this heps

/-- idempotent on inputs whose sorted values already have gaps `≥ eps` -/
theorem removeDup_eq_sorted {D : Nat} (eps : ℝ) (lam : Fin D → ℝ)
    (hg : ∀ (j : Fin D) (h : j.val + 1 < D), sortedFam lam j + eps ≤ sortedFam lam ⟨j.val + 1, h⟩) :
    removeDup eps lam = sortedFam lam := by
  have hch : List.IsChain (fun a b => a + eps ≤ b) (sortAsc (List.ofFn lam)) := by
    rw [List.isChain_iff_getElem]
    intro i hi
    have hD : i + 1 < D := by rwa [sorted_list_length] at hi
    have := hg ⟨i, Nat.lt_of_succ_lt hD⟩ hD
    simpa [sortedFam, List.getD_eq_getElem _ _ hi, List.getD_eq_getElem _ _ (Nat.lt_of_succ_lt hi)] using this
  funext j
  simp only [removeDup, sortedFam, spread_fixed eps _ hch]

theorem removeDup_idem {D : Nat} (eps : ℝ) (heps : 0 ≤ eps) (lam : Fin D → ℝ) :
    removeDup eps (removeDup eps lam) = removeDup eps lam := by
  have hch := spread_chain eps (sortAsc (List.ofFn lam))
  have hsorted : (spread eps (sortAsc (List.ofFn lam))).Pairwise (fun a b => (!(decide (b < a))) = true) := by
    have hle : List.IsChain (· ≤ ·) (spread eps (sortAsc (List.ofFn lam))) :=
      hch.imp fun a b hab => by linarith
    refine hle.pairwise.imp ?_
    intro a b hab
    simpa using hab
  funext j
  simp only [removeDup]
  rw [show List.ofFn (fun j : Fin D => (spread eps (sortAsc (List.ofFn lam))).getD j.val 0)
      = spread eps (sortAsc (List.ofFn lam)) from ofFn_getD _ (spread_list_length eps lam)]
  rw [show sortAsc (spread eps (sortAsc (List.ofFn lam))) = spread eps (sortAsc (List.ofFn lam)) from
    List.mergeSort_of_pairwise hsorted, spread_idem]

theorem prod_ite_ne {D : Nat} (j : Fin D) (f : Fin D → ℝ) :
    (∏ k, if k = j then 1 else f k) = ∏ k ∈ Finset.univ.erase j, f k := by
  rw [Finset.prod_ite, Finset.prod_const_one, one_mul]
  congr 1
  ext k; simp

theorem binghamNormRaw_closed {D : Nat} (lam : Fin D → ℝ) :
    binghamNormRaw Real.pi lam
      = 2 * Real.pi ^ D * ∑ j, Real.exp (lam j) / ∏ k ∈ Finset.univ.erase j, (lam j - lam k) := by
  unfold binghamNormRaw
  simp only [vsum_eq_sum, vprod_eq_prod, npow_eq_pow, transc_exp_real, prod_ite_ne]
  congr 1
  refine Finset.sum_congr rfl fun j _ => ?_
  rw [one_div, inv_mul_eq_div]

end PbBss.Dist

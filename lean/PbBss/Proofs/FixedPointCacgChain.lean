import PbBss.Proofs.FixedPointCacg
import PbBss.Proofs.FixedPointChain
/-! A complete `n`-step fixed-point theorem for the cACG mixture (`Em.fit … cacgFamily`, covariance_norm = 'eigenvalue')
in the BALANCED noise-free orthonormal scene (uniform mixture weights, equal class masses), by induction over the EM loop.

The invariant is simpler than for the Watson / vMF mixtures: the fitted parameters are a fixed point already after the
first M-step.  Every class covariance is `Spiked (θ.c k) (a k) floor` = `U diag(1, floor, …, floor) Uᴴ` with the
eigenvalue-1 eigenvector on the class prototype, after EVERY M-step:

* E-step of a spiked model with uniform weights: two-level posterior `g = E/(E+K)` on the true class, `h = 1/(E+K)` on the
  others, `E = floor^{-(D+1)}`; quadratic forms `1` (true class) and `1/floor` (others);
* Tyler-weighted scatter of class `k`: `(D+1)·(g·a_k a_kᴴ + h·floor·Σ_{j≠k} a_j a_jᴴ)`;
* `eigh` (under `EighSpec`, no ordering, no uniqueness of the eigenvectors in the degenerate eigenspaces needed): one
  column is `a_k` up to a unit phase with eigenvalue `(D+1)·g`, all other eigenvalues lie in `[0, (D+1)·h·floor]`;
* eigenvalue normalisation and flooring: `h·floor/g ≤ floor` (because `h ≤ g`), so all other eigenvalues are floored:
  the spectrum is `(1, floor, …, floor)` again. -/
open PbBss PbBss.Em Finset

namespace PbBss.FixedPoint.CacgChain

local notation "conj" => starRingEnd ℂ

/-! ### `eigh` on `Σ_j m_j a_j a_jᴴ` with one dominant mass -/

/-- eigen-decomposition of `A = Σ_j m_j a_j a_jᴴ` (orthonormal prototypes, `m_k > 0` strictly dominant, the other
masses in `[0, B]`, `B < m_k`) under the `eigh` contract: one column is `a_k` up to a unit phase with eigenvalue `m_k`,
every other eigenvalue lies in `[0, B]`.  Nothing is claimed about the eigenvectors of the other columns (they are not
unique when masses coincide). -/
theorem eigh_dominant {D K : Nat} {a : Fin K → Fin D → ℂ} (ha : OrthoProto a) (m : Fin K → ℝ)
    (A : Tab D (Tab D ℂ)) (hA : ∀ d g, rd2 A d g = ∑ j, (m j : ℂ) * (a j d * conj (a j g)))
    (k : Fin K) (B : ℝ) (hB0 : 0 ≤ B) (hBk : B < m k) (hm0 : ∀ j, j ≠ k → 0 ≤ m j) (hmB : ∀ j, j ≠ k → m j ≤ B)
    (hk : 0 < m k) (r : Tab D (Tab D ℂ) × Tab D ℝ) (hr : EighSpec A r) :
    ∃ (t : Fin D) (p : ℂ), Complex.normSq p = 1 ∧ (∀ g, rd2 r.1 g t = p * a k g) ∧ rd r.2 t = m k
      ∧ ∀ e, e ≠ t → 0 ≤ rd r.2 e ∧ rd r.2 e ≤ B := by
  set U := rd2 r.1 with hU
  set ev := rd r.2 with hev
  set cf : Fin D → Fin K → ℂ := fun e j => coef a (fun g => U g e) j with hcf
  have hvv : ∑ g, conj (a k g) * a k g = 1 := by
    have h := ha k k
    simp only [if_true] at h
    rw [← h]
    exact Finset.sum_congr rfl fun g _ => mul_comm _ _
  -- (E1) Σ_j m_j c_ej a_j d = ev_e U_de
  have E1 : ∀ e d, ∑ j, (m j : ℂ) * cf e j * a j d = (ev e : ℂ) * U d e := by
    intro e d
    rw [← hr.eig e d]
    exact (S_mulVec (S := rd2 A) (m := m) (a := a) hA (fun g => U g e) d).symm
  -- (E2) m_i c_ei = ev_e c_ei
  have E2 : ∀ e i, (m i : ℂ) * cf e i = (ev e : ℂ) * cf e i := by
    intro e i
    have h : ∑ d, conj (a i d) * (∑ j, (m j : ℂ) * cf e j * a j d) = ∑ d, conj (a i d) * ((ev e : ℂ) * U d e) :=
      Finset.sum_congr rfl fun d _ => by rw [E1]
    have l : ∑ d, conj (a i d) * (∑ j, (m j : ℂ) * cf e j * a j d) = (m i : ℂ) * cf e i := by
      simp only [Finset.mul_sum]
      rw [Finset.sum_comm]
      have : ∀ j, ∑ d, conj (a i d) * ((m j : ℂ) * cf e j * a j d) = (m j : ℂ) * cf e j * coef a (a j) i := by
        intro j
        unfold coef
        rw [Finset.mul_sum]
        exact Finset.sum_congr rfl fun d _ => by ring
      simp only [this, coef_proto ha]
      rw [Finset.sum_eq_single i]
      · simp
      · intro j _ hj; simp [hj]
      · simp
    have rr : ∑ d, conj (a i d) * ((ev e : ℂ) * U d e) = (ev e : ℂ) * cf e i := by
      simp only [hcf, coef]
      rw [Finset.mul_sum]
      exact Finset.sum_congr rfl fun d _ => by ring
    rw [l, rr] at h
    exact h
  -- Parseval: Σ_e |c_ek|² = 1
  have hunitk : ∑ g, Complex.normSq (a k g) = 1 := scene_norm_sq ha k 1 (by simp) (a k) (by simp)
  have hpars : ∑ e, Complex.normSq (cf e k) = 1 := by
    have := parseval (⟨r.1, r.2⟩ : Cacg ℝ ℂ D) hr.unitary (a k)
    rw [hunitk] at this
    rw [← this]
    refine Finset.sum_congr rfl fun e _ => ?_
    rw [← Complex.normSq_conj (cf e k)]
    simp only [hcf, coef]
    rw [map_sum]
    congr 1
    refine Finset.sum_congr rfl fun g _ => ?_
    rw [map_mul, Complex.conj_conj]; ring
  obtain ⟨t, ht⟩ : ∃ t, cf t k ≠ 0 := by
    by_contra hne
    push Not at hne
    simp [hne] at hpars
  have hevt : ev t = m k := by
    have := mul_right_cancel₀ ht (E2 t k)
    exact_mod_cast this.symm
  have hmkc : ((m k : ℝ) : ℂ) ≠ 0 := by exact_mod_cast hk.ne'
  have hcft : ∀ j, j ≠ k → cf t j = 0 := by
    intro j hj
    by_contra hne
    have h := mul_right_cancel₀ hne (E2 t j)
    rw [hevt] at h
    have h' : m j = m k := by exact_mod_cast h
    have := hmB j hj
    linarith
  have hcol : ∀ g, U g t = cf t k * a k g := by
    intro g
    have h := E1 t g
    rw [hevt, Finset.sum_eq_single k] at h
    · have h2 : (m k : ℂ) * (cf t k * a k g) = (m k : ℂ) * U g t := by rw [← h]; ring
      exact (mul_left_cancel₀ hmkc h2).symm
    · intro j _ hj; rw [hcft j hj]; simp
    · simp
  have hnorm : Complex.normSq (cf t k) = 1 := by
    have h1 := hr.unitary t t
    simp only [if_true] at h1
    have h2 : ∑ g, conj (U g t) * U g t = ((Complex.normSq (cf t k) : ℝ) : ℂ) := by
      have : ∀ g, conj (U g t) * U g t = (conj (cf t k) * cf t k) * (conj (a k g) * a k g) := by
        intro g; rw [hcol, map_mul]; ring
      simp only [this, ← Finset.mul_sum, hvv, mul_one]
      exact (Complex.normSq_eq_conj_mul_self).symm
    rw [h2] at h1
    exact_mod_cast h1
  refine ⟨t, cf t k, hnorm, hcol, hevt, ?_⟩
  intro e he
  have hce : cf e k = 0 := by
    have h1 := hr.unitary t e
    rw [if_neg (Ne.symm he)] at h1
    have h2 : ∑ g, conj (U g t) * U g e = conj (cf t k) * cf e k := by
      simp only [hcf, coef]
      rw [Finset.mul_sum]
      exact Finset.sum_congr rfl fun g _ => by
        rw [show U g t = coef a (fun g => U g t) k * a k g from hcol g, map_mul]; simp only [coef]; ring
    rw [h2] at h1
    rcases mul_eq_zero.mp h1 with h | h
    · exact absurd ((map_eq_zero (starRingEnd ℂ)).mp h) ht
    · exact h
  -- Rayleigh: ev_e = Σ_j m_j |c_ej|²
  set x : Fin K → ℝ := fun j => Complex.normSq (cf e j) with hx
  have hx0 : ∀ j, 0 ≤ x j := fun j => Complex.normSq_nonneg _
  have hunite : ∑ d, Complex.normSq (U d e) = 1 := by
    have h1 := hr.unitary e e
    simp only [if_true] at h1
    have h2 : ∑ g, conj (U g e) * U g e = ((∑ g, Complex.normSq (U g e) : ℝ) : ℂ) := by
      rw [Complex.ofReal_sum]
      exact Finset.sum_congr rfl fun g _ => (Complex.normSq_eq_conj_mul_self).symm
    rw [h2] at h1
    exact_mod_cast h1
  have hray : ev e = ∑ j, m j * x j := by
    have h1 := rayleigh_eq (S := rd2 A) (m := m) (a := a) hA (fun g => U g e)
    have h2 : ∑ d, ∑ e', conj (U d e) * rd2 A d e' * U e' e = ((ev e : ℝ) : ℂ) := by
      have : ∀ d, ∑ e', conj (U d e) * rd2 A d e' * U e' e = conj (U d e) * ((ev e : ℂ) * U d e) := by
        intro d
        rw [← hr.eig e d, Finset.mul_sum]
        exact Finset.sum_congr rfl fun e' _ => by ring
      simp only [this]
      have h3 : ∀ d, conj (U d e) * ((ev e : ℂ) * U d e) = (ev e : ℂ) * ((Complex.normSq (U d e) : ℝ) : ℂ) := by
        intro d; rw [Complex.normSq_eq_conj_mul_self]; ring
      simp only [h3, ← Finset.mul_sum]
      rw [← Complex.ofReal_sum, hunite]
      simp
    rw [h2] at h1
    exact_mod_cast h1
  have hxk : x k = 0 := by simp [hx, hce]
  have hxs : ∑ j, x j ≤ 1 := by
    have := bessel ha (fun g => U g e)
    rwa [hunite] at this
  rw [hray]
  constructor
  · refine Finset.sum_nonneg fun j _ => ?_
    by_cases hj : j = k
    · rw [hj, hxk, mul_zero]
    · exact mul_nonneg (hm0 j hj) (hx0 j)
  · have hle : ∑ j, m j * x j ≤ ∑ j, B * x j := by
      refine Finset.sum_le_sum fun j _ => ?_
      by_cases hj : j = k
      · rw [hj, hxk, mul_zero, mul_zero]
      · exact mul_le_mul_of_nonneg_right (hmB j hj) (hx0 j)
    calc ∑ j, m j * x j ≤ ∑ j, B * x j := hle
      _ = B * ∑ j, x j := by rw [Finset.mul_sum]
      _ ≤ B * 1 := mul_le_mul_of_nonneg_left hxs hB0
      _ = B := mul_one B

/-! ### the cACG scatter in the scene -/

/-- **Tyler/Ito scatter of the scene** (any weights `w`, any quadratic forms `q`): `Σ_j m_j a_j a_jᴴ` with
`m_j = (D+1)·(mass of `w/q` on class `j`)/max(Σ w, tiny)`; the hermitisation is the identity on it -/
theorem cacgScatter_scene {K N D : Nat} {a : Fin K → Fin (D+1) → ℂ} {c : Fin N → Fin K} {z : Fin N → Fin (D+1) → ℂ}
    (sc : Scene a c z) (tiny : ℝ) (w q : Fin N → ℝ) (d e : Fin (D+1)) :
    rd2 (cacgScatter CovNorm.eigenvalue tiny N w q z) d e
      = ∑ j, (((((D+1 : ℕ) : ℝ) * classMass c (fun n => w n / max (q n) (((10 : ℕ) : ℝ) * tiny)) j
            / max (∑ n, w n) tiny : ℝ)) : ℂ) * (a j d * conj (a j e)) := by
  obtain ⟨u, hu, hz⟩ := sc.obs
  rw [cacgScatter_eq, outer_scene a c u hu z hz, outer_scene a c u hu z hz]
  set M : Fin K → ℝ := classMass c (fun n => w n / max (q n) (((10 : ℕ) : ℝ) * tiny)) with hM
  have hconj : conj (∑ j, (M j : ℂ) * (a j e * conj (a j d))) = ∑ j, (M j : ℂ) * (a j d * conj (a j e)) := by
    rw [map_sum]
    refine Finset.sum_congr rfl fun j _ => ?_
    rw [map_mul, map_mul, Complex.conj_ofReal, Complex.conj_conj]; ring
  simp only [map_mul, map_div₀, Complex.conj_ofReal]
  rw [hconj]
  have hr : ∑ j, ((((D+1 : ℕ) : ℝ) * M j / max (∑ n, w n) tiny : ℝ) : ℂ) * (a j d * conj (a j e))
      = (((D+1 : ℕ) : ℝ) : ℂ) * (∑ j, (M j : ℂ) * (a j d * conj (a j e))) / ((max (∑ n, w n) tiny : ℝ) : ℂ) := by
    rw [Finset.mul_sum, Finset.sum_div]
    refine Finset.sum_congr rfl fun j _ => ?_
    push_cast; ring
  rw [hr]
  push_cast
  ring

/-- total weight of a two-level affiliation on classes of equal mass `S`, with `g + K·h = 1` -/
theorem sum_two_level {K N : Nat} (c : Fin N → Fin (K+1)) (s : Fin N → ℝ) (S : ℝ)
    (hbal : ∀ k, classMass c s k = S) (g h : ℝ) (hgh : g + K * h = 1) (k : Fin (K+1)) :
    ∑ n, (if c n = k then g else h) * s n = S := by
  rw [← classMass_sum c]
  simp only [classMass_two_level, hbal]
  rw [← Finset.sum_mul]
  have : ∑ j : Fin (K+1), (if j = k then g else h) = g + K * h := by
    have e : ∀ j : Fin (K+1), (if j = k then g else h) = h + (if j = k then g - h else 0) := by
      intro j; split <;> ring
    simp only [e, Finset.sum_add_distrib, Finset.sum_ite_eq', Finset.mem_univ, if_true]
    simp
    ring
  rw [this, hgh, one_mul]

/-- **cACG M-step on a two-level affiliation with two-level quadratic forms** (balanced scene): weights
`g` / `h` (true class / others, `g + K·h = 1`), quadratic forms `1` / `ρ ≥ 1`, and `h/ρ ≤ floor·g`: the fitted
covariance is spiked on `a_k` with spectrum `(1, floor, …, floor)`.
(`g = 1, h = 0, ρ = 1`: the first M-step from the hard partition; `ρ = 1/floor`: every later M-step.) -/
theorem cacgMstep_two_level {K N D : Nat} {a : Fin (K+1) → Fin (D+1) → ℂ} {c : Fin N → Fin (K+1)}
    {z : Fin N → Fin (D+1) → ℂ} (sc : Scene a c z)
    (eigh : Tab (D+1) (Tab (D+1) ℂ) → Tab (D+1) (Tab (D+1) ℂ) × Tab (D+1) ℝ) (tiny floor : ℝ)
    (heigh : EighOn eigh tiny z) (htiny : 0 < tiny) (h10 : ((10 : ℕ) : ℝ) * tiny ≤ 1)
    (hf1 : floor < 1) (s : Fin N → ℝ) (S : ℝ) (hS : tiny ≤ S) (hbal : ∀ k, classMass c s k = S)
    (g h ρ : ℝ) (hgh : g + K * h = 1) (hg : tiny ≤ g) (hh : 0 ≤ h) (hρ : 1 ≤ ρ) (hdom : h / ρ ≤ floor * g)
    (k : Fin (K+1)) :
    Spiked (cacgMstep eigh CovNorm.eigenvalue floor tiny N (fun n => (if c n = k then g else h) * s n)
      (fun n => if c n = k then 1 else ρ) z) (a k) floor := by
  set w : Fin N → ℝ := fun n => (if c n = k then g else h) * s n with hw
  set q : Fin N → ℝ := fun n => if c n = k then 1 else ρ with hq
  set A := cacgScatter CovNorm.eigenvalue tiny N w q z with hA
  have hS0 : 0 < S := lt_of_lt_of_le htiny hS
  have hg0 : 0 < g := lt_of_lt_of_le htiny hg
  have hρ0 : 0 < ρ := lt_of_lt_of_le one_pos hρ
  have hD : (1:ℝ) ≤ ((D+1 : ℕ) : ℝ) := by push_cast; linarith [Nat.cast_nonneg (α := ℝ) D]
  have hD0 : (0:ℝ) < ((D+1 : ℕ) : ℝ) := lt_of_lt_of_le one_pos hD
  have hsum : ∑ n, w n = S := sum_two_level c s S hbal g h hgh k
  have heff : (fun n => w n / max (q n) (((10 : ℕ) : ℝ) * tiny)) = fun n => (if c n = k then g else h / ρ) * s n := by
    funext n
    simp only [hw, hq]
    by_cases hc : c n = k
    · simp only [hc, if_true]; rw [max_eq_left h10, div_one]
    · simp only [hc, if_false]; rw [max_eq_left (le_trans h10 hρ)]; ring
  set m : Fin (K+1) → ℝ := fun j => ((D+1 : ℕ) : ℝ) * (if j = k then g else h / ρ) with hm
  have hAm : ∀ d e, rd2 A d e = ∑ j, (m j : ℂ) * (a j d * conj (a j e)) := by
    intro d e
    rw [hA, cacgScatter_scene sc tiny w q d e]
    refine Finset.sum_congr rfl fun j _ => ?_
    rw [heff, classMass_two_level, hbal, hsum, max_eq_left hS]
    congr 2
    simp only [hm]
    field_simp
  have hmk : m k = ((D+1 : ℕ) : ℝ) * g := by simp [hm]
  have hmj : ∀ j, j ≠ k → m j = ((D+1 : ℕ) : ℝ) * (h / ρ) := fun j hj => by simp [hm, hj]
  have hhρ : 0 ≤ h / ρ := div_nonneg hh hρ0.le
  have hlt : h / ρ < g := lt_of_le_of_lt hdom (by nlinarith)
  have hspec := heigh w q
  obtain ⟨t, p, hp, hcol, hevt, hevB⟩ := eigh_dominant sc.ortho m A hAm k (((D+1 : ℕ) : ℝ) * (h / ρ))
    (mul_nonneg hD0.le hhρ) (by rw [hmk]; exact mul_lt_mul_of_pos_left hlt hD0)
    (fun j hj => by rw [hmj j hj]; exact mul_nonneg hD0.le hhρ) (fun j hj => (hmj j hj).le)
    (by rw [hmk]; exact mul_pos hD0 hg0) (eigh A) hspec
  have hmkpos : 0 < m k := by rw [hmk]; exact mul_pos hD0 hg0
  have hBle : ((D+1 : ℕ) : ℝ) * (h / ρ) ≤ floor * m k := by
    rw [hmk]
    calc ((D+1 : ℕ) : ℝ) * (h / ρ) ≤ ((D+1 : ℕ) : ℝ) * (floor * g) := mul_le_mul_of_nonneg_left hdom hD0.le
      _ = floor * (((D+1 : ℕ) : ℝ) * g) := by ring
  have hmx : vmax (rd (eigh A).2) = m k := by
    apply vmax_eq_of _ _ _ t hevt
    intro e
    by_cases he : e = t
    · rw [he, hevt]
    · refine le_trans (hevB e he).2 (le_trans hBle ?_)
      nlinarith
  have htm : tiny ≤ m k := by rw [hmk]; nlinarith
  refine ⟨hspec.unitary, t, p, hp, hcol, ?_, ?_⟩
  · show rd (cacgEigvals CovNorm.eigenvalue floor tiny (rd (eigh A).2)) t = 1
    simp only [cacgEigvals, rd_tab, hmx, hevt]
    rw [max_eq_left htm, div_self hmkpos.ne', max_eq_left hf1.le]
  · intro e he
    show rd (cacgEigvals CovNorm.eigenvalue floor tiny (rd (eigh A).2)) e = floor
    simp only [cacgEigvals, rd_tab, hmx]
    rw [max_eq_left htm]
    apply max_eq_right
    rw [div_le_iff₀ hmkpos]
    exact le_trans (hevB e he).2 hBle

/-! ### E-step of a spiked model -/

/-- quadratic forms of a spiked model at the scene's observations: `1` for the true class, `1/φ` for the others -/
theorem cacgQuad_spiked {K N D : Nat} {a : Fin K → Fin D → ℂ} {c : Fin N → Fin K} {z : Fin N → Fin D → ℂ}
    (sc : Scene a c z) (tiny φ : ℝ) (hφ0 : 0 < φ) (hφ1 : φ < 1) (htiny : tiny ≤ 1) (θ : Cacg ℝ ℂ D) (k : Fin K)
    (hθ : Spiked θ (a k) φ) (n : Fin N) :
    cacgQuad tiny θ (z n) = if c n = k then 1 else 1 / φ := by
  obtain ⟨u, hu, hz⟩ := sc.obs
  rw [cacgQuad_eq, quadRaw_spiked θ (a k) φ hθ, scene_inner_sq sc.ortho k (c n) (u n) (hu n) (z n) (hz n),
    scene_norm_sq sc.ortho (c n) (u n) (hu n) (z n) (hz n)]
  have h1φ : 1 ≤ 1 / φ := by rw [le_div_iff₀ hφ0]; linarith
  split
  · simp [htiny]
  · simp only [sub_zero, zero_add]
    exact max_eq_left (le_trans htiny h1φ)

/-- log-pdf of a spiked model at the scene's observations -/
theorem cacgLogPdf_spiked {K N D : Nat} {a : Fin K → Fin D → ℂ} {c : Fin N → Fin K} {z : Fin N → Fin D → ℂ}
    (sc : Scene a c z) (tiny φ : ℝ) (hφ0 : 0 < φ) (hφ1 : φ < 1) (htiny : tiny ≤ 1) (θ : Cacg ℝ ℂ D) (k : Fin K)
    (hθ : Spiked θ (a k) φ) (n : Fin N) :
    cacgLogPdf tiny θ (z n)
      = (if c n = k then -((D : ℝ) * Real.log φ) else 0) + ((D : ℝ) * Real.log φ - ((D : ℝ) - 1) * Real.log φ) := by
  have hq := cacgQuad_spiked sc tiny φ hφ0 hφ1 htiny θ k hθ n
  rw [cacgQuad_eq] at hq
  rw [cacgLogPdf_eq, hq, sumLog_spiked θ (a k) φ hθ]
  split
  · rw [Real.log_one]; ring
  · rw [one_div, Real.log_inv]; ring

section chain
variable {K N D : Nat} {a : Fin (K+1) → Fin (D+1) → ℂ} {c : Fin N → Fin (K+1)} {z : Fin N → Fin (D+1) → ℂ}
  (eigh : Tab (D+1) (Tab (D+1) ℂ) → Tab (D+1) (Tab (D+1) ℂ) × Tab (D+1) ℝ) (tiny floor : ℝ)
  (rule : WeightRule) (tie : Tying N) (eps : ℝ) (s : Fin N → ℝ)

/-- the likelihood ratio true class : other class of a spiked model, `floor^{-(D+1)}` -/
noncomputable def ratioE (D : Nat) (floor : ℝ) : ℝ := Real.exp (-((((D+1 : ℕ) : ℝ)) * Real.log floor))

theorem one_lt_ratioE (D : Nat) (floor : ℝ) (hf0 : 0 < floor) (hf1 : floor < 1) : 1 < ratioE D floor := by
  unfold ratioE
  have hlog : 0 < -(((D+1 : ℕ) : ℝ) * Real.log floor) := by
    have := Real.log_neg hf0 hf1
    have hD : (0:ℝ) < ((D+1 : ℕ) : ℝ) := by positivity
    nlinarith
  have := Real.add_one_lt_exp hlog.ne'
  linarith

/-- the invariant of the EM loop: every class covariance spiked on its prototype with spectrum `(1, floor, …, floor)`,
uniform mixture weights -/
def CacgInv (a : Fin (K+1) → Fin (D+1) → ℂ) (floor : ℝ) (θ : Mixture (Cacg ℝ ℂ (D+1)) ℝ (K+1) N) : Prop :=
  (∀ k, Spiked (θ.c k) (a k) floor) ∧ ∀ k n, θ.w k n = 1 / ((K+1 : ℕ) : ℝ)

/-- **posterior of a model satisfying the invariant**: `E/(E+K)` on the true class, `1/(E+K)` on every other class,
`E = floor^{-(D+1)}` -/
theorem eStep_spiked (sc : Scene a c z) (htiny : 0 < tiny) (ht1 : tiny ≤ 1) (ht : tiny ≤ 1 / ((K+1 : ℕ) : ℝ))
    (hf0 : 0 < floor) (hf1 : floor < 1) (θ : Mixture (Cacg ℝ ℂ (D+1)) ℝ (K+1) N) (hinv : CacgInv a floor θ)
    (k : Fin (K+1)) (n : Fin N) :
    eStep tiny (cacgFamily D eigh CovNorm.eigenvalue floor tiny) θ z k n
      = if c n = k then ratioE D floor / (ratioE D floor + K) else 1 / (ratioE D floor + K) := by
  obtain ⟨hsp, hw⟩ := hinv
  rw [eStep_bayes tiny htiny _ θ z (fun k n => by rw [hw]; exact ht)]
  set ℓ₀ : ℝ := (((D+1 : ℕ) : ℝ)) * Real.log floor - ((((D+1 : ℕ) : ℝ)) - 1) * Real.log floor with hℓ
  have hexp : ∀ j, Real.exp ((cacgFamily D eigh CovNorm.eigenvalue floor tiny).logPdf (θ.c j) (z n))
      = (if c n = j then ratioE D floor else 1) * Real.exp ℓ₀ := by
    intro j
    show Real.exp (cacgLogPdf tiny (θ.c j) (z n)) = _
    rw [cacgLogPdf_spiked sc tiny floor hf0 hf1 ht1 (θ.c j) j (hsp j) n, Real.exp_add]
    unfold ratioE
    split
    · rfl
    · rw [Real.exp_zero]
  simp only [hw, hexp]
  have hsum : ∑ j : Fin (K+1), 1 / ((K+1 : ℕ) : ℝ) * ((if c n = j then ratioE D floor else 1) * Real.exp ℓ₀)
      = 1 / ((K+1 : ℕ) : ℝ) * Real.exp ℓ₀ * (ratioE D floor + K) := by
    rw [← sum_ite_one (c n) (ratioE D floor), Finset.mul_sum]
    exact Finset.sum_congr rfl fun j _ => by ring
  rw [hsum]
  have h1 : (0:ℝ) < 1 / ((K+1 : ℕ) : ℝ) := by positivity
  have h2 : 0 < Real.exp ℓ₀ := Real.exp_pos _
  have hE : 1 < ratioE D floor := one_lt_ratioE D floor hf0 hf1
  have h3 : 0 < ratioE D floor + K := by positivity
  split <;> field_simp

/-- a model satisfying the invariant ranks the true class strictly first at every observation -/
theorem cacg_argmax (sc : Scene a c z) (htiny : 0 < tiny) (ht1 : tiny ≤ 1) (ht : tiny ≤ 1 / ((K+1 : ℕ) : ℝ))
    (hf0 : 0 < floor) (hf1 : floor < 1) (θ : Mixture (Cacg ℝ ℂ (D+1)) ℝ (K+1) N) (hinv : CacgInv a floor θ)
    (n : Fin N) :
    vargmax (fun k => eStep tiny (cacgFamily D eigh CovNorm.eigenvalue floor tiny) θ z k n) = c n := by
  refine vargmax_of_strict _ (c n) fun j hj => ?_
  rw [eStep_spiked eigh tiny floor sc htiny ht1 ht hf0 hf1 θ hinv, eStep_spiked eigh tiny floor sc htiny ht1 ht hf0 hf1 θ hinv,
    if_pos rfl, if_neg (Ne.symm hj)]
  have hE : 1 < ratioE D floor := one_lt_ratioE D floor hf0 hf1
  have h3 : 0 < ratioE D floor + K := by positivity
  exact div_lt_div_of_pos_right hE h3

theorem cacg_uniform_w (htie : tie.uniform = true) (γ aux : Fin (K+1) → Fin N → ℝ) (k : Fin (K+1)) (n : Fin N) :
    (mStep (cacgFamily D eigh CovNorm.eigenvalue floor tiny) rule tie eps s z γ aux).w k n = 1 / ((K+1 : ℕ) : ℝ) := by
  simp [Mixture.w, mStep, mWeight, htie]

/-- **the M-step of the mixture on a two-level affiliation with two-level quadratic forms re-establishes the
invariant** -/
theorem mStep_inv (sc : Scene a c z) (heigh : EighOn eigh tiny z) (htiny : 0 < tiny) (h10 : ((10 : ℕ) : ℝ) * tiny ≤ 1)
    (hf1 : floor < 1) (htie : tie.uniform = true) (S : ℝ) (hS : tiny ≤ S) (hbal : ∀ k, classMass c s k = S)
    (g h ρ : ℝ) (hgh : g + K * h = 1) (hg : tiny ≤ g) (hh : 0 ≤ h) (hρ : 1 ≤ ρ) (hdom : h / ρ ≤ floor * g)
    (γ aux : Fin (K+1) → Fin N → ℝ) (hγ : ∀ k n, γ k n = if c n = k then g else h)
    (haux : ∀ k n, aux k n = if c n = k then 1 else ρ) :
    CacgInv a floor (mStep (cacgFamily D eigh CovNorm.eigenvalue floor tiny) rule tie eps s z γ aux) := by
  refine ⟨fun k => ?_, cacg_uniform_w eigh tiny floor rule tie eps s htie γ aux⟩
  rw [mStep_c]
  show Spiked (cacgMstep eigh CovNorm.eigenvalue floor tiny N (fun n => γ k n * s n) (aux k) z) (a k) floor
  have e1 : (fun n => γ k n * s n) = fun n => (if c n = k then g else h) * s n := by funext n; rw [hγ]
  have e2 : aux k = fun n => if c n = k then 1 else ρ := by funext n; rw [haux]
  rw [e1, e2]
  exact cacgMstep_two_level sc eigh tiny floor heigh htiny h10 hf1 s S hS hbal g h ρ hgh hg hh hρ hdom k

/-- **one EM iteration preserves the invariant** -/
theorem cacg_step (sc : Scene a c z) (heigh : EighOn eigh tiny z) (htiny : 0 < tiny) (h10 : ((10 : ℕ) : ℝ) * tiny ≤ 1)
    (ht : tiny ≤ 1 / ((K+1 : ℕ) : ℝ)) (hf0 : 0 < floor) (hf1 : floor < 1) (htie : tie.uniform = true)
    (S : ℝ) (hS : tiny ≤ S) (hbal : ∀ k, classMass c s k = S)
    (θ : Mixture (Cacg ℝ ℂ (D+1)) ℝ (K+1) N) (hinv : CacgInv a floor θ) :
    CacgInv a floor (emStep tiny (cacgFamily D eigh CovNorm.eigenvalue floor tiny) rule tie eps s z θ) := by
  have ht1 : tiny ≤ 1 := by
    have : (0:ℝ) ≤ ((10 : ℕ) : ℝ) * tiny - tiny := by push_cast; linarith
    linarith
  have hE : 1 < ratioE D floor := one_lt_ratioE D floor hf0 hf1
  have hK0 : (0:ℝ) ≤ K := Nat.cast_nonneg K
  have h3 : 0 < ratioE D floor + K := by positivity
  rw [emStep_eq]
  refine mStep_inv eigh tiny floor rule tie eps s sc heigh htiny h10 hf1 htie S hS hbal
    (ratioE D floor / (ratioE D floor + K)) (1 / (ratioE D floor + K)) (1 / floor) ?_ ?_ ?_ ?_ ?_ _ _
    (fun k n => eStep_spiked eigh tiny floor sc htiny ht1 ht hf0 hf1 θ hinv k n)
    (fun k n => cacgQuad_spiked sc tiny floor hf0 hf1 ht1 (θ.c k) k (hinv.1 k) n)
  · field_simp
  · refine le_trans ht ?_
    rw [div_le_div_iff₀ (by positivity) h3]
    push_cast
    nlinarith
  · positivity
  · rw [le_div_iff₀ hf0]; linarith
  · have e : 1 / (ratioE D floor + K) / (1 / floor) = floor * (1 / (ratioE D floor + K)) := by field_simp
    rw [e]
    apply mul_le_mul_of_nonneg_left _ hf0.le
    exact div_le_div_of_nonneg_right hE.le h3.le

/-- **the invariant holds after every number of iterations**, from the hard true partition or from any uniform-leak
blur `twoLevel c g₀ h₀` with `h₀ ≤ floor·g₀` (`g₀ = 1, h₀ = 0`: the hard start): induction over the EM loop `Em.fit` -/
theorem cacg_chain (sc : Scene a c z) (heigh : EighOn eigh tiny z) (htiny : 0 < tiny) (h10 : ((10 : ℕ) : ℝ) * tiny ≤ 1)
    (ht : tiny ≤ 1 / ((K+1 : ℕ) : ℝ)) (hf0 : 0 < floor) (hf1 : floor < 1) (htie : tie.uniform = true)
    (S : ℝ) (hS : tiny ≤ S) (hbal : ∀ k, classMass c s k = S)
    (g₀ h₀ : ℝ) (hgh : g₀ + K * h₀ = 1) (hh0 : 0 ≤ h₀) (hlt : h₀ ≤ floor * g₀) (i : Nat) :
    CacgInv a floor (fit tiny (cacgFamily D eigh CovNorm.eigenvalue floor tiny) rule tie eps s z (i+1) (twoLevel c g₀ h₀)) := by
  induction i with
  | zero =>
    have hK0 : (0:ℝ) ≤ K := Nat.cast_nonneg K
    have hg0 : 0 ≤ g₀ := by
      by_contra hneg
      push Not at hneg
      nlinarith
    have hhg : h₀ ≤ g₀ := le_trans hlt (by nlinarith)
    have hg : tiny ≤ g₀ := by
      refine le_trans ht ?_
      rw [div_le_iff₀ (by positivity)]
      push_cast
      nlinarith
    rw [fit_one]
    exact mStep_inv eigh tiny floor rule tie eps s sc heigh htiny h10 hf1 htie S hS hbal g₀ h₀ 1 hgh hg hh0 le_rfl
      (by rw [div_one]; exact hlt) _ _ (fun k n => rfl) (fun k n => by simp)
  | succ i ih =>
    rw [fit_succ]
    exact cacg_step eigh tiny floor rule tie eps s sc heigh htiny h10 ht hf0 hf1 htie S hS hbal _ ih

/-- **cACGMM: the true partition is a stable EM fixed point of the balanced noise-free scene, for every number of
iterations `n ≥ 1`** (`n = 0` is read as `1` by `fit`, so the statement holds for every `n`; it is stated for `n ≥ 1`
as in the property).  Scene: observations = class prototype times a unit phase, prototypes orthonormal in `ℂ^{D+1}`,
`K+1` classes of equal saliency mass `S ≥ tiny`, uniform mixture weights (`weight_constant_axis = -2`),
`covariance_norm = 'eigenvalue'`, `0 < floor < 1`, `eigh` under its contract (`EighOn`: orthonormal eigenvector
columns, nothing about ordering or the choice inside degenerate eigenspaces).  Guards: `0 < tiny`, `10·tiny ≤ 1`
(quadratic-form floor of the Tyler weights inactive), `tiny ≤ 1/(K+1)` (denominator clamp of the posterior inactive),
`tiny ≤ S`.  Start: the hard true partition. -/
theorem fixed_point_cacg_balanced (sc : Scene a c z) (heigh : EighOn eigh tiny z) (htiny : 0 < tiny)
    (h10 : ((10 : ℕ) : ℝ) * tiny ≤ 1) (ht : tiny ≤ 1 / ((K+1 : ℕ) : ℝ)) (hf0 : 0 < floor) (hf1 : floor < 1)
    (htie : tie.uniform = true) (S : ℝ) (hS : tiny ≤ S) (hbal : ∀ k, classMass c s k = S) :
    ∀ n, 1 ≤ n → ∀ obs,
      vargmax (fun k => eStep tiny (cacgFamily D eigh CovNorm.eigenvalue floor tiny)
        (fit tiny (cacgFamily D eigh CovNorm.eigenvalue floor tiny) rule tie eps s z n (hardStart c)) z k obs) = c obs := by
  intro n hn obs
  obtain ⟨i, rfl⟩ : ∃ i, n = i + 1 := ⟨n - 1, by omega⟩
  have ht1 : tiny ≤ 1 := by
    have : (0:ℝ) ≤ ((10 : ℕ) : ℝ) * tiny - tiny := by push_cast; linarith
    linarith
  rw [← twoLevel_hard]
  exact cacg_argmax eigh tiny floor sc htiny ht1 ht hf0 hf1 _
    (cacg_chain eigh tiny floor rule tie eps s sc heigh htiny h10 ht hf0 hf1 htie S hS hbal 1 0 (by ring) le_rfl
      (by nlinarith) i) obs

/-- the same from a blurred start `twoLevel c g₀ h₀` (`g₀` on the true class, `h₀` on every other class,
`g₀ + K·h₀ = 1`, `0 ≤ h₀ ≤ floor·g₀`) -/
theorem fixed_point_cacg_balanced_blur (sc : Scene a c z) (heigh : EighOn eigh tiny z) (htiny : 0 < tiny)
    (h10 : ((10 : ℕ) : ℝ) * tiny ≤ 1) (ht : tiny ≤ 1 / ((K+1 : ℕ) : ℝ)) (hf0 : 0 < floor) (hf1 : floor < 1)
    (htie : tie.uniform = true) (S : ℝ) (hS : tiny ≤ S) (hbal : ∀ k, classMass c s k = S)
    (g₀ h₀ : ℝ) (hgh : g₀ + K * h₀ = 1) (hh0 : 0 ≤ h₀) (hlt : h₀ ≤ floor * g₀) :
    ∀ n, 1 ≤ n → ∀ obs,
      vargmax (fun k => eStep tiny (cacgFamily D eigh CovNorm.eigenvalue floor tiny)
        (fit tiny (cacgFamily D eigh CovNorm.eigenvalue floor tiny) rule tie eps s z n (twoLevel c g₀ h₀)) z k obs)
        = c obs := by
  intro n hn obs
  obtain ⟨i, rfl⟩ : ∃ i, n = i + 1 := ⟨n - 1, by omega⟩
  have ht1 : tiny ≤ 1 := by
    have : (0:ℝ) ≤ ((10 : ℕ) : ℝ) * tiny - tiny := by push_cast; linarith
    linarith
  exact cacg_argmax eigh tiny floor sc htiny ht1 ht hf0 hf1 _
    (cacg_chain eigh tiny floor rule tie eps s sc heigh htiny h10 ht hf0 hf1 htie S hS hbal g₀ h₀ hgh hh0 hlt i) obs

/-- the trajectory is stationary: after every number of iterations `n ≥ 1` the posterior is the same two-level table
`E/(E+K)` (true class) / `1/(E+K)` (others), `E = exp(−(D+1)·log floor) = floor^{-(D+1)}`, and every class covariance is
spiked on its prototype with spectrum `(1, floor, …, floor)` -/
theorem cacg_trajectory_stationary (sc : Scene a c z) (heigh : EighOn eigh tiny z) (htiny : 0 < tiny)
    (h10 : ((10 : ℕ) : ℝ) * tiny ≤ 1) (ht : tiny ≤ 1 / ((K+1 : ℕ) : ℝ)) (hf0 : 0 < floor) (hf1 : floor < 1)
    (htie : tie.uniform = true) (S : ℝ) (hS : tiny ≤ S) (hbal : ∀ k, classMass c s k = S) (n : Nat) (hn : 1 ≤ n) :
    (∀ k, Spiked ((fit tiny (cacgFamily D eigh CovNorm.eigenvalue floor tiny) rule tie eps s z n (hardStart c)).c k)
        (a k) floor)
      ∧ ∀ k obs, eStep tiny (cacgFamily D eigh CovNorm.eigenvalue floor tiny)
          (fit tiny (cacgFamily D eigh CovNorm.eigenvalue floor tiny) rule tie eps s z n (hardStart c)) z k obs
        = if c obs = k then ratioE D floor / (ratioE D floor + K) else 1 / (ratioE D floor + K) := by
  obtain ⟨i, rfl⟩ : ∃ i, n = i + 1 := ⟨n - 1, by omega⟩
  have ht1 : tiny ≤ 1 := by
    have : (0:ℝ) ≤ ((10 : ℕ) : ℝ) * tiny - tiny := by push_cast; linarith
    linarith
  have hinv := cacg_chain eigh tiny floor rule tie eps s sc heigh htiny h10 ht hf0 hf1 htie S hS hbal 1 0 (by ring) le_rfl
      (by nlinarith) i
  rw [twoLevel_hard] at hinv
  exact ⟨hinv.1, fun k obs => eStep_spiked eigh tiny floor sc htiny ht1 ht hf0 hf1 _ hinv k obs⟩

end chain

/-! ### non-vacuity -/

/-- all hypotheses of `fixed_point_cacg_balanced` hold in the two-class scene on the standard basis of `ℂ²`
(`D+1 = 2`, one observation per class, unit saliency, `tiny = 1/100`, `floor = 1/2`, `diagEigh` honours the `eigh`
contract on every scatter matrix of this data): the conclusion for ALL `n ≥ 1` -/
example : ∀ n, 1 ≤ n → ∀ obs : Fin 2,
    vargmax (fun k => eStep (1/100) (cacgFamily 1 diagEigh CovNorm.eigenvalue (1/2) (1/100))
      (fit (1/100) (cacgFamily 1 diagEigh CovNorm.eigenvalue (1/2) (1/100)) WeightRule.mean ⟨true, 1, tab fun _ => 0⟩ 0
        (fun _ => 1) a2 n (hardStart fun m : Fin 2 => m)) a2 k obs) = obs :=
  fixed_point_cacg_balanced (K := 1) diagEigh (1/100) (1/2) WeightRule.mean ⟨true, 1, tab fun _ => 0⟩ 0 (fun _ => 1)
    scene2 (eighOn2 _) (by norm_num) (by norm_num) (by norm_num) (by norm_num) (by norm_num) rfl 1 (by norm_num)
    (fun k => by fin_cases k <;> simp [classMass])

end PbBss.FixedPoint.CacgChain

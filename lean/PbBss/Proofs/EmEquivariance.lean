import PbBss.Proofs.EmMono
import Mathlib.Logic.Equiv.Defs
import Mathlib.Algebra.BigOperators.Group.Finset.Basic
import Mathlib.Analysis.Complex.Basic
import Mathlib.Tactic
/-! # Relabelling equivariance (C05) and observation congruence (C04) of the generic EM model `PbBss.Em.fit`

Everything is over `α := ℝ`, for EVERY component family `fam : Family Θ Y ℝ`, every weight rule, every tying, every
saliency, every iteration count.

* `Mixture.perm σ θ` : class `k` of the new mixture is class `σ k` of the old one.
* `eStep_perm`, `eAux_perm`, `groupWeight_perm`, `mWeight_perm`, `mStep_perm`, `emStep_perm`, **`fit_perm`**,
  `fit_predict_perm`, `logLik_perm`, `logLikMethod_perm`.
* **`fit_congr_obs`** : observation sequences the family cannot tell apart give the same fitted model; instance
  `watson_fit_phase_invariant` (complex Watson mixture, per-observation unit-modulus phases). -/
open PbBss PbBss.Em Finset

namespace PbBss.EmProof

/-! ### `Tab` extensionality -/
section tabs

theorem tab_ext {β : Type} {n : Nat} {t t' : Tab n β} (h : ∀ i, rd t i = rd t' i) : t = t' := by
  apply Vector.ext
  intro i hi
  exact h ⟨i, hi⟩

theorem tab2_ext {β : Type} {n m : Nat} {t t' : Tab n (Tab m β)} (h : ∀ i j, rd2 t i j = rd2 t' i j) : t = t' :=
  tab_ext fun i => tab_ext fun j => h i j

theorem mixture_ext {Θ : Type} {K N : Nat} {θ θ' : Mixture Θ ℝ K N} (hw : ∀ k n, θ.w k n = θ'.w k n)
    (hc : ∀ k, θ.c k = θ'.c k) : θ = θ' := by
  cases θ; cases θ'
  congr
  · exact tab2_ext hw
  · exact tab_ext hc

end tabs

/-! ### reindexing the maximum -/

theorem vmax_perm {n : Nat} (f : Fin (n+1) → ℝ) (σ : Equiv.Perm (Fin (n+1))) :
    vmax (fun k => f (σ k)) = vmax f := by
  apply le_antisymm
  · obtain ⟨k, hk⟩ := vmax_mem (fun k => f (σ k))
    rw [hk]; exact vmax_ge f (σ k)
  · obtain ⟨k, hk⟩ := vmax_mem f
    rw [hk]
    have := vmax_ge (fun k => f (σ k)) (σ.symm k)
    simpa using this

theorem vsum_perm {n : Nat} (f : Fin n → ℝ) (σ : Equiv.Perm (Fin n)) :
    vsum (fun k => f (σ k)) = vsum f := by
  rw [vsum_eq_sum, vsum_eq_sum]
  exact Equiv.sum_comp σ f

/-- `log_pdf_to_affiliation` of relabelled inputs is the relabelled output -/
theorem affiliation_perm {K : Nat} (tiny : ℝ) (w lp : Fin (K+1) → ℝ) (σ : Equiv.Perm (Fin (K+1))) (k : Fin (K+1)) :
    affiliation tiny (fun j => w (σ j)) (fun j => lp (σ j)) k = affiliation tiny w lp (σ k) := by
  unfold affiliation
  simp only [vmax_perm lp σ]
  rw [vsum_perm (fun j => Transc.exp (lp j - vmax lp) * w j) σ]

section model
variable {Θ Y : Type} {K N : Nat}

/-- the relabelled mixture: class `k` of `θ.perm σ` is class `σ k` of `θ` -/
def _root_.PbBss.Em.Mixture.perm (σ : Equiv.Perm (Fin K)) (θ : Mixture Θ ℝ K N) : Mixture Θ ℝ K N :=
  { weight := tab2 fun k n => θ.w (σ k) n
    comp := tab fun k => θ.c (σ k) }

@[simp] theorem perm_w (σ : Equiv.Perm (Fin K)) (θ : Mixture Θ ℝ K N) (k : Fin K) (n : Fin N) :
    (θ.perm σ).w k n = θ.w (σ k) n := by
  simp [Mixture.perm, Mixture.w]

@[simp] theorem perm_c (σ : Equiv.Perm (Fin K)) (θ : Mixture Θ ℝ K N) (k : Fin K) :
    (θ.perm σ).c k = θ.c (σ k) := by
  simp [Mixture.perm, Mixture.c]

theorem perm_one (θ : Mixture Θ ℝ K N) : θ.perm 1 = θ :=
  mixture_ext (fun k n => by simp) (fun k => by simp)

theorem perm_perm (σ τ : Equiv.Perm (Fin K)) (θ : Mixture Θ ℝ K N) : (θ.perm σ).perm τ = θ.perm (σ * τ) :=
  mixture_ext (fun k n => by simp) (fun k => by simp)

/-! ### E-step -/

/-- **the posterior of the relabelled model is the relabelled posterior** -/
theorem eStep_perm (tiny : ℝ) (fam : Family Θ Y ℝ) (θ : Mixture Θ ℝ (K+1) N) (y : Fin N → Y)
    (σ : Equiv.Perm (Fin (K+1))) (k : Fin (K+1)) (n : Fin N) :
    eStep tiny fam (θ.perm σ) y k n = eStep tiny fam θ y (σ k) n := by
  unfold eStep
  simp only [perm_w, perm_c]
  exact affiliation_perm tiny (fun j => θ.w j n) (fun j => fam.logPdf (θ.c j) (y n)) σ k

theorem eAux_perm (fam : Family Θ Y ℝ) (θ : Mixture Θ ℝ K N) (y : Fin N → Y)
    (σ : Equiv.Perm (Fin K)) (k : Fin K) (n : Fin N) :
    eAux fam (θ.perm σ) y k n = eAux fam θ y (σ k) n := by
  simp [eAux]

/-! ### M-step -/

theorem groupWeight_perm {G : Nat} (rule : WeightRule) (grp : Fin N → Fin G) (eps : ℝ) (γ : Fin K → Fin N → ℝ)
    (s : Fin N → ℝ) (g : Fin G) (σ : Equiv.Perm (Fin K)) (k : Fin K) :
    groupWeight rule grp eps (fun j => γ (σ j)) s g k = groupWeight rule grp eps γ s g (σ k) := by
  cases rule with
  | mean => rfl
  | unitNorm =>
    simp only [groupWeight, rd_tab]
    rw [vsum_perm (fun j => absα (groupSum grp g fun m => γ j m * s m)) σ]
  | tinyFloor =>
    simp only [groupWeight, rd_tab]
    rw [vsum_perm (fun j => groupSum grp g fun m => γ j m * s m) σ]

theorem mWeight_perm (rule : WeightRule) (tie : Tying N) (eps : ℝ) (γ : Fin K → Fin N → ℝ)
    (s : Fin N → ℝ) (σ : Equiv.Perm (Fin K)) (k : Fin K) (n : Fin N) :
    rd2 (mWeight rule tie eps (fun j => γ (σ j)) s) k n = rd2 (mWeight rule tie eps γ s) (σ k) n := by
  unfold mWeight
  cases hu : tie.uniform with
  | true => simp
  | false =>
    simp only [Bool.false_eq_true, if_false, rd2_tab2]
    simp only [rd2, rd_tab]
    exact groupWeight_perm rule (rd tie.grp) eps γ s _ σ k

/-- **the M-step on relabelled posteriors is the relabelled M-step** (all weight rules, all tyings) -/
theorem mStep_perm (fam : Family Θ Y ℝ) (rule : WeightRule) (tie : Tying N) (eps : ℝ) (s : Fin N → ℝ)
    (y : Fin N → Y) (γ aux : Fin K → Fin N → ℝ) (σ : Equiv.Perm (Fin K)) :
    mStep fam rule tie eps s y (fun k => γ (σ k)) (fun k => aux (σ k))
      = (mStep fam rule tie eps s y γ aux).perm σ := by
  refine mixture_ext (fun k n => ?_) (fun k => ?_)
  · rw [perm_w]
    exact mWeight_perm rule tie eps γ s σ k n
  · rw [perm_c]
    simp [mStep, Mixture.c]

/-! ### one iteration, `fit` -/

theorem emStep_perm (tiny : ℝ) (fam : Family Θ Y ℝ) (rule : WeightRule) (tie : Tying N) (eps : ℝ)
    (s : Fin N → ℝ) (y : Fin N → Y) (θ : Mixture Θ ℝ (K+1) N) (σ : Equiv.Perm (Fin (K+1))) :
    emStep tiny fam rule tie eps s y (θ.perm σ) = (emStep tiny fam rule tie eps s y θ).perm σ := by
  unfold emStep
  have h1 : rd2 (tab2 (eStep tiny fam (θ.perm σ) y)) = fun k => rd2 (tab2 (eStep tiny fam θ y)) (σ k) := by
    funext k n; rw [rd2_tab2, rd2_tab2]; exact eStep_perm tiny fam θ y σ k n
  have h2 : rd2 (tab2 (eAux fam (θ.perm σ) y)) = fun k => rd2 (tab2 (eAux fam θ y)) (σ k) := by
    funext k n; rw [rd2_tab2, rd2_tab2]; exact eAux_perm fam θ y σ k n
  simp only [h1, h2]
  exact mStep_perm fam rule tie eps s y _ _ σ

theorem iter_emStep_perm (tiny : ℝ) (fam : Family Θ Y ℝ) (rule : WeightRule) (tie : Tying N) (eps : ℝ)
    (s : Fin N → ℝ) (y : Fin N → Y) (σ : Equiv.Perm (Fin (K+1))) (m : Nat) (θ : Mixture Θ ℝ (K+1) N) :
    iter (emStep tiny fam rule tie eps s y) m (θ.perm σ)
      = (iter (emStep tiny fam rule tie eps s y) m θ).perm σ := by
  induction m generalizing θ with
  | zero => rfl
  | succ m ih =>
    show iter _ m (emStep tiny fam rule tie eps s y (θ.perm σ)) = (iter _ m (emStep tiny fam rule tie eps s y θ)).perm σ
    rw [emStep_perm, ih]

/-- **C05 on the EM loop: training from relabelled initial affiliations returns the relabelled model**, for every
family, weight rule, tying, saliency, floor constants and every number of iterations. -/
theorem fit_perm (tiny : ℝ) (fam : Family Θ Y ℝ) (rule : WeightRule) (tie : Tying N) (eps : ℝ)
    (s : Fin N → ℝ) (y : Fin N → Y) (n : Nat) (γ₀ : Fin (K+1) → Fin N → ℝ) (σ : Equiv.Perm (Fin (K+1))) :
    fit tiny fam rule tie eps s y n (fun k => γ₀ (σ k)) = (fit tiny fam rule tie eps s y n γ₀).perm σ := by
  unfold fit
  have h := mStep_perm fam rule tie eps s y γ₀ (fun _ _ => 1) σ
  rw [h, iter_emStep_perm]

/-- the E-step (`predict`) of the model fitted from relabelled affiliations is the relabelled E-step -/
theorem fit_predict_perm (tiny : ℝ) (fam : Family Θ Y ℝ) (rule : WeightRule) (tie : Tying N) (eps : ℝ)
    (s : Fin N → ℝ) (y : Fin N → Y) (n : Nat) (γ₀ : Fin (K+1) → Fin N → ℝ) (σ : Equiv.Perm (Fin (K+1)))
    (k : Fin (K+1)) (m : Fin N) :
    eStep tiny fam (fit tiny fam rule tie eps s y n (fun k => γ₀ (σ k))) y k m
      = eStep tiny fam (fit tiny fam rule tie eps s y n γ₀) y (σ k) m := by
  rw [fit_perm, eStep_perm]

/-- the log-likelihood does not see the labelling -/
theorem logLik_perm (fam : Family Θ Y ℝ) (s : Fin N → ℝ) (θ : Mixture Θ ℝ K N) (y : Fin N → Y)
    (σ : Equiv.Perm (Fin K)) : logLik fam s (θ.perm σ) y = logLik fam s θ y := by
  unfold logLik
  simp only [perm_w, perm_c]
  congr 1
  funext n
  rw [vsum_perm (fun k => θ.w k n * Transc.exp (fam.logPdf (θ.c k) (y n))) σ]

/-- neither does `CACGMM._log_likelihood` (`logsumexp` with the max-shift) -/
theorem logLikMethod_perm (fam : Family Θ Y ℝ) (θ : Mixture Θ ℝ (K+1) N) (y : Fin N → Y)
    (σ : Equiv.Perm (Fin (K+1))) : logLikMethod fam (θ.perm σ) y = logLikMethod fam θ y := by
  unfold logLikMethod
  have hrd : ∀ f : Fin (K+1) → ℝ, rd (tab f) = f := fun f => funext fun i => rd_tab f i
  simp only [perm_w, perm_c, rd_tab, hrd]
  congr 1
  funext n
  rw [vmax_perm (fun k => fam.logPdf (θ.c k) (y n)) σ,
    vsum_perm (fun k => θ.w k n * Transc.exp (fam.logPdf (θ.c k) (y n)
      - vmax fun k => fam.logPdf (θ.c k) (y n))) σ]

theorem fit_logLik_perm (tiny : ℝ) (fam : Family Θ Y ℝ) (rule : WeightRule) (tie : Tying N) (eps : ℝ)
    (s : Fin N → ℝ) (y : Fin N → Y) (n : Nat) (γ₀ : Fin (K+1) → Fin N → ℝ) (σ : Equiv.Perm (Fin (K+1))) :
    logLik fam s (fit tiny fam rule tie eps s y n (fun k => γ₀ (σ k))) y
      = logLik fam s (fit tiny fam rule tie eps s y n γ₀) y := by
  rw [fit_perm, logLik_perm]

end model

/-! ### C04 on the same model: observations the family cannot tell apart -/
section congr
variable {Θ Y : Type} {K N : Nat}

/-- two observation sequences (of the fixed length `N` of the data) are indistinguishable to the family: same
log-densities, same auxiliary quantities, same weighted one-component fits -/
structure ObsIndist (fam : Family Θ Y ℝ) (y y' : Fin N → Y) : Prop where
  logPdf : ∀ θ n, fam.logPdf θ (y n) = fam.logPdf θ (y' n)
  aux : ∀ θ n, fam.aux θ (y n) = fam.aux θ (y' n)
  mstep : ∀ w a, fam.mstep N w a y = fam.mstep N w a y'

theorem ObsIndist.refl (fam : Family Θ Y ℝ) (y : Fin N → Y) : ObsIndist fam y y :=
  ⟨fun _ _ => rfl, fun _ _ => rfl, fun _ _ => rfl⟩

theorem ObsIndist.symm {fam : Family Θ Y ℝ} {y y' : Fin N → Y} (h : ObsIndist fam y y') : ObsIndist fam y' y :=
  ⟨fun θ n => (h.logPdf θ n).symm, fun θ n => (h.aux θ n).symm, fun w a => (h.mstep w a).symm⟩

theorem eStep_congr_obs (tiny : ℝ) {fam : Family Θ Y ℝ} {y y' : Fin N → Y} (h : ObsIndist fam y y')
    (θ : Mixture Θ ℝ (K+1) N) : eStep tiny fam θ y = eStep tiny fam θ y' := by
  funext k n
  unfold eStep
  simp only [h.logPdf]

theorem eAux_congr_obs {fam : Family Θ Y ℝ} {y y' : Fin N → Y} (h : ObsIndist fam y y')
    (θ : Mixture Θ ℝ K N) : eAux fam θ y = eAux fam θ y' := by
  funext k n
  unfold eAux
  simp only [h.aux]

theorem mStep_congr_obs {fam : Family Θ Y ℝ} {y y' : Fin N → Y} (h : ObsIndist fam y y') (rule : WeightRule)
    (tie : Tying N) (eps : ℝ) (s : Fin N → ℝ) (γ aux : Fin K → Fin N → ℝ) :
    mStep fam rule tie eps s y γ aux = mStep fam rule tie eps s y' γ aux := by
  unfold mStep
  simp only [h.mstep]

theorem emStep_congr_obs (tiny : ℝ) {fam : Family Θ Y ℝ} {y y' : Fin N → Y} (h : ObsIndist fam y y')
    (rule : WeightRule) (tie : Tying N) (eps : ℝ) (s : Fin N → ℝ) :
    emStep (K := K) tiny fam rule tie eps s y = emStep tiny fam rule tie eps s y' := by
  funext θ
  unfold emStep
  rw [eStep_congr_obs tiny h θ, eAux_congr_obs h θ, mStep_congr_obs h]

/-- **C04 on the EM loop, generic form**: observation sequences that are indistinguishable to the component family give
the same fitted model after every number of iterations. -/
theorem fit_congr_obs (tiny : ℝ) {fam : Family Θ Y ℝ} {y y' : Fin N → Y} (h : ObsIndist fam y y')
    (rule : WeightRule) (tie : Tying N) (eps : ℝ) (s : Fin N → ℝ) (n : Nat) (γ₀ : Fin (K+1) → Fin N → ℝ) :
    fit tiny fam rule tie eps s y n γ₀ = fit tiny fam rule tie eps s y' n γ₀ := by
  unfold fit
  rw [emStep_congr_obs tiny h, mStep_congr_obs h]

/-- … and the same posteriors (`predict` on the respective observations) -/
theorem fit_predict_congr_obs (tiny : ℝ) {fam : Family Θ Y ℝ} {y y' : Fin N → Y} (h : ObsIndist fam y y')
    (rule : WeightRule) (tie : Tying N) (eps : ℝ) (s : Fin N → ℝ) (n : Nat) (γ₀ : Fin (K+1) → Fin N → ℝ) :
    eStep tiny fam (fit tiny fam rule tie eps s y n γ₀) y = eStep tiny fam (fit tiny fam rule tie eps s y' n γ₀) y' := by
  rw [fit_congr_obs tiny h, eStep_congr_obs tiny h]

/-- … and the same log-likelihood -/
theorem logLik_congr_obs {fam : Family Θ Y ℝ} {y y' : Fin N → Y} (h : ObsIndist fam y y') (s : Fin N → ℝ)
    (θ : Mixture Θ ℝ K N) : logLik fam s θ y = logLik fam s θ y' := by
  unfold logLik
  simp only [h.logPdf]

end congr

/-! ### instance: complex directional families under per-observation unit-modulus phases -/
section phase
local notation "conj" => starRingEnd ℂ

theorem abs2_normSq_real (z : ℂ) : abs2 (α := ℝ) z = Complex.normSq z := by
  simp [abs2, Complex.normSq_apply]

theorem abs2_phase (u z : ℂ) (hu : ‖u‖ = 1) : abs2 (α := ℝ) (u * z) = abs2 (α := ℝ) z := by
  rw [abs2_normSq_real, abs2_normSq_real, map_mul, Complex.normSq_eq_norm_sq u, hu]
  simp

theorem phase_mul_conj (u : ℂ) (hu : ‖u‖ = 1) : u * conj u = 1 := by
  rw [Complex.mul_conj, Complex.normSq_eq_norm_sq, hu]; simp

theorem cdot_phase {D : Nat} (u : ℂ) (y m : Fin D → ℂ) :
    cdot (α := ℝ) (fun d => u * y d) m = u * cdot (α := ℝ) y m := by
  simp only [cdot, vsum_eq_sum, Finset.mul_sum, mul_assoc]

/-- `Σ_n c_n y_n y_nᴴ` does not see per-observation phases -/
theorem outerSum_phase {N D : Nat} (c : Fin N → ℝ) (y : Fin N → Fin D → ℂ) (u : Fin N → ℂ) (hu : ∀ n, ‖u n‖ = 1) :
    outerSum c (fun n d => u n * y n d) = outerSum c y := by
  unfold outerSum
  congr 1
  funext d e
  congr 1
  funext n
  simp only [cx_conj, map_mul]
  have := phase_mul_conj (u n) (hu n)
  calc CxOps.ofReal (c n) * (u n * y n d * (conj (u n) * conj (y n e)))
      = CxOps.ofReal (c n) * ((u n * conj (u n)) * (y n d * conj (y n e))) := by ring
    _ = _ := by rw [this, one_mul]

theorem watsonScatter_phase {N D : Nat} (w : Fin N → ℝ) (y : Fin N → Fin D → ℂ) (u : Fin N → ℂ)
    (hu : ∀ n, ‖u n‖ = 1) : watsonScatter w (fun n d => u n * y n d) = watsonScatter w y := by
  unfold watsonScatter
  rw [outerSum_phase w y u hu]

theorem watsonLogPdf_phase {D : Nat} (θ : Watson ℝ ℂ D) (y : Fin D → ℂ) (u : ℂ) (hu : ‖u‖ = 1) :
    watsonLogPdf θ (fun d => u * y d) = watsonLogPdf θ y := by
  unfold watsonLogPdf
  rw [cdot_phase, abs2_phase _ _ hu]

/-- the complex Watson family cannot tell `y` from `u • y` (`|u_n| = 1` per observation) -/
theorem watson_obsIndist {N D : Nat} (pca : Tab D (Tab D ℂ) → Tab D ℂ × ℝ) (kinv lnorm : ℝ → ℝ)
    (y : Fin N → Fin D → ℂ) (u : Fin N → ℂ) (hu : ∀ n, ‖u n‖ = 1) :
    ObsIndist (watsonFamily D pca kinv lnorm) (fun n d => u n * y n d) y where
  logPdf θ n := watsonLogPdf_phase θ (y n) (u n) (hu n)
  aux _ _ := rfl
  mstep w a := by
    show watsonMstep pca kinv lnorm N w a _ = watsonMstep pca kinv lnorm N w a y
    unfold watsonMstep
    rw [watsonScatter_phase w y u hu]

/-- **C04 for the complex Watson mixture (cWMM)**: multiplying every observation by its own unit-modulus phase does not
change the fitted model — any PCA / spline / normaliser externals, any weight rule, tying, saliency, iteration count. -/
theorem watson_fit_phase_invariant {K N D : Nat} (tiny : ℝ) (pca : Tab D (Tab D ℂ) → Tab D ℂ × ℝ) (kinv lnorm : ℝ → ℝ)
    (rule : WeightRule) (tie : Tying N) (eps : ℝ) (s : Fin N → ℝ) (y : Fin N → Fin D → ℂ) (u : Fin N → ℂ)
    (hu : ∀ n, ‖u n‖ = 1) (n : Nat) (γ₀ : Fin (K+1) → Fin N → ℝ) :
    fit tiny (watsonFamily D pca kinv lnorm) rule tie eps s (fun n d => u n * y n d) n γ₀
      = fit tiny (watsonFamily D pca kinv lnorm) rule tie eps s y n γ₀ :=
  fit_congr_obs tiny (watson_obsIndist pca kinv lnorm y u hu) rule tie eps s n γ₀

theorem watson_predict_phase_invariant {K N D : Nat} (tiny : ℝ) (pca : Tab D (Tab D ℂ) → Tab D ℂ × ℝ)
    (kinv lnorm : ℝ → ℝ) (rule : WeightRule) (tie : Tying N) (eps : ℝ) (s : Fin N → ℝ) (y : Fin N → Fin D → ℂ)
    (u : Fin N → ℂ) (hu : ∀ n, ‖u n‖ = 1) (n : Nat) (γ₀ : Fin (K+1) → Fin N → ℝ) :
    eStep tiny (watsonFamily D pca kinv lnorm)
        (fit tiny (watsonFamily D pca kinv lnorm) rule tie eps s (fun n d => u n * y n d) n γ₀) (fun n d => u n * y n d)
      = eStep tiny (watsonFamily D pca kinv lnorm) (fit tiny (watsonFamily D pca kinv lnorm) rule tie eps s y n γ₀) y :=
  fit_predict_congr_obs tiny (watson_obsIndist pca kinv lnorm y u hu) rule tie eps s n γ₀

/-! the cACG family (cACGMM): quadratic form and Tyler scatter are phase invariant as well -/

theorem cacgQuad_phase {D : Nat} (tiny : ℝ) (θ : Cacg ℝ ℂ D) (z : Fin D → ℂ) (u : ℂ) (hu : ‖u‖ = 1) :
    cacgQuad tiny θ (fun d => u * z d) = cacgQuad tiny θ z := by
  unfold cacgQuad
  have h : ∀ e, (vsum fun g => CxOps.conj (α := ℝ) (rd2 θ.vecs g e) * (u * z g))
      = u * vsum fun g => CxOps.conj (α := ℝ) (rd2 θ.vecs g e) * z g := by
    intro e
    simp only [vsum_eq_sum, Finset.mul_sum]
    refine Finset.sum_congr rfl fun g _ => ?_
    ring
  simp only [h, abs2_phase _ _ hu]

theorem cacg_obsIndist {N D : Nat} (eigh : Tab (D+1) (Tab (D+1) ℂ) → Tab (D+1) (Tab (D+1) ℂ) × Tab (D+1) ℝ)
    (nrm : CovNorm) (floor tiny : ℝ) (z : Fin N → Fin (D+1) → ℂ) (u : Fin N → ℂ) (hu : ∀ n, ‖u n‖ = 1) :
    ObsIndist (cacgFamily D eigh nrm floor tiny) (fun n d => u n * z n d) z where
  logPdf θ n := by
    show cacgLogPdf tiny θ _ = cacgLogPdf tiny θ (z n)
    unfold cacgLogPdf
    rw [cacgQuad_phase tiny θ (z n) (u n) (hu n)]
  aux θ n := cacgQuad_phase tiny θ (z n) (u n) (hu n)
  mstep w a := by
    show cacgMstep eigh nrm floor tiny N w a _ = cacgMstep eigh nrm floor tiny N w a z
    unfold cacgMstep cacgScatter
    rw [outerSum_phase _ z u hu]

/-- **C04 for the cACG mixture (cACGMM)** -/
theorem cacg_fit_phase_invariant {K N D : Nat} (tinyE : ℝ)
    (eigh : Tab (D+1) (Tab (D+1) ℂ) → Tab (D+1) (Tab (D+1) ℂ) × Tab (D+1) ℝ) (nrm : CovNorm) (floor tiny : ℝ)
    (rule : WeightRule) (tie : Tying N) (eps : ℝ) (s : Fin N → ℝ) (z : Fin N → Fin (D+1) → ℂ) (u : Fin N → ℂ)
    (hu : ∀ n, ‖u n‖ = 1) (n : Nat) (γ₀ : Fin (K+1) → Fin N → ℝ) :
    fit tinyE (cacgFamily D eigh nrm floor tiny) rule tie eps s (fun n d => u n * z n d) n γ₀
      = fit tinyE (cacgFamily D eigh nrm floor tiny) rule tie eps s z n γ₀ :=
  fit_congr_obs tinyE (cacg_obsIndist eigh nrm floor tiny z u hu) rule tie eps s n γ₀

end phase

/-! ### non-vacuity -/
section examples

/-- a toy family: unit-variance Gaussian on ℝ, M-step = weighted sum -/
noncomputable def toyFam : Family ℝ ℝ ℝ :=
  ⟨fun θ y => -((y - θ) * (y - θ)), fun _ _ => 1, fun _ w _ y => vsum fun n => w n * y n⟩

def toyTie : Tying 2 := ⟨false, 1, tab fun _ => 0⟩

/-- one-hot initial affiliations: observation `n` belongs to class `n` -/
def toyγ : Fin 2 → Fin 2 → ℝ := fun k n => if k = n then 1 else 0

/-- `fit_perm` at a concrete 2-class mixture with the swap, any number of iterations -/
example (n : Nat) :
    fit (1e-10) toyFam .unitNorm toyTie (1e-10) (fun _ => 1) ![0, 1] n (fun k => toyγ (Equiv.swap 0 1 k))
      = (fit (1e-10) toyFam .unitNorm toyTie (1e-10) (fun _ => 1) ![0, 1] n toyγ).perm (Equiv.swap 0 1) :=
  fit_perm _ _ _ _ _ _ _ n toyγ (Equiv.swap 0 1)

/-- the relabelling acts non-trivially there: the two fitted classes differ, and the swapped start exchanges them -/
example :
    (fit (1e-10) toyFam .unitNorm toyTie (1e-10) (fun _ => 1) ![0, 1] 1 toyγ).c 0 = 0
    ∧ (fit (1e-10) toyFam .unitNorm toyTie (1e-10) (fun _ => 1) ![0, 1] 1 toyγ).c 1 = 1
    ∧ (fit (1e-10) toyFam .unitNorm toyTie (1e-10) (fun _ => 1) ![0, 1] 1 (fun k => toyγ (Equiv.swap 0 1 k))).c 0 = 1 := by
  refine ⟨?_, ?_, ?_⟩
  · rw [fit_one, mStep_c]; simp [toyFam, toyγ, vsum_eq_sum]
  · rw [fit_one, mStep_c]; simp [toyFam, toyγ, vsum_eq_sum]
  · rw [fit_perm, perm_c, fit_one, mStep_c]; simp [toyFam, toyγ, vsum_eq_sum]

/-- the phase hypothesis of the Watson instance is satisfiable with a non-trivial phase -/
example : ‖(Complex.I : ℂ)‖ = 1 ∧ (Complex.I : ℂ) ≠ 1 := by
  refine ⟨Complex.norm_I, fun h => ?_⟩
  have := congrArg Complex.re h
  simp at this

end examples

end PbBss.EmProof

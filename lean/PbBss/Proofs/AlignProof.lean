import PbBss.Model.Align
import PbBss.Proofs.GreedyProof
import PbBss.Proofs.OptimalProof
import Mathlib.Data.Fintype.Perm
import Mathlib.Algebra.BigOperators.Group.Finset.Basic
import Mathlib.Tactic
/-! Lemmas about the alignment models: assignments are bijections, compositions stay bijections,
the DHTV loop keeps `features = applyMapping features₀ mapping`. -/
namespace PbBss.Align
open Function

/-! ### assignments -/
section
variable {α : Type} [AddCommMonoid α] [LinearOrder α]

theorem perm_range_getD_lt {K : Nat} {p : List Nat} (hp : p.Perm (List.range K)) (i : Nat) (hi : i < K) :
    p.getD i 0 < K := by
  have hlen : p.length = K := by simpa using hp.length_eq
  have hmem : p.getD i 0 ∈ p := by
    have hi' : i < p.length := by omega
    rw [List.getD_eq_getElem?_getD, List.getElem?_eq_getElem hi']; exact List.getElem_mem _
  simpa using (hp.mem_iff.mp hmem)

theorem perm_range_getD_inj {K : Nat} {p : List Nat} (hp : p.Perm (List.range K)) (i j : Nat)
    (hi : i < K) (hj : j < K) (h : p.getD i 0 = p.getD j 0) : i = j := by
  have hlen : p.length = K := by simpa using hp.length_eq
  have hnd : p.Nodup := hp.nodup_iff.mpr List.nodup_range
  have hi' : i < p.length := by omega
  have hj' : j < p.length := by omega
  rw [List.getD_eq_getElem?_getD, List.getD_eq_getElem?_getD, List.getElem?_eq_getElem hi',
    List.getElem?_eq_getElem hj'] at h
  exact (List.Nodup.getElem_inj_iff hnd).mp (by simpa using h)

theorem assign_bijective {K : Nat} (algo : Algo) (s : Fin K → Fin K → α) : Bijective (assign algo s) := by
  unfold assign
  by_cases hK : 0 < K
  · simp only [hK, dite_true]
    cases algo with
    | greedy => exact greedy_bijective hK s
    | optimal =>
      obtain ⟨r, hr, hperm, -, -⟩ :=
        optimal_is_max K (fun i j => if h : i < K ∧ j < K then s ⟨i, h.1⟩ ⟨j, h.2⟩ else 0)
      simp only [hr]
      apply Finite.injective_iff_bijective.mp
      intro a b hab
      have ha := perm_range_getD_lt hperm a.val a.isLt
      have hb := perm_range_getD_lt hperm b.val b.isLt
      simp only [ha, hb, dite_true] at hab
      have := perm_range_getD_inj hperm a.val b.val a.isLt b.isLt (by simpa using congrArg Fin.val hab)
      exact Fin.ext this
  · simp only [hK, dite_false]; exact bijective_id
end

/-! ### applying a mapping -/
theorem applyMapping_sum {M : Type} [AddCommMonoid M] {K F : Nat} (mask : Fin K → Fin F → M)
    (m : Fin K → Fin F → Fin K) (f : Fin F) (hm : Bijective fun k => m k f) :
    ∑ k, applyMapping mask m k f = ∑ k, mask k f := by
  simp only [applyMapping]
  exact (Equiv.ofBijective _ hm).sum_comp (fun k => mask k f)

theorem applyMapping_perm {β : Type} {K F : Nat} (mask : Fin K → Fin F → β)
    (m : Fin K → Fin F → Fin K) (f : Fin F) (hm : Bijective fun k => m k f) :
    (List.ofFn fun k => applyMapping mask m k f).Perm (List.ofFn fun k => mask k f) := by
  have := Equiv.Perm.ofFn_comp_perm (Equiv.ofBijective _ hm) (fun k => mask k f)
  simpa [applyMapping, Function.comp_def] using this

/-! ### adjacent-bin chain -/
theorem composeChain_bijective {K : Nat} (a : Nat → Fin K → Fin K) (ha : ∀ f, Bijective (a f)) :
    ∀ f, Bijective (composeChain a f)
  | 0 => bijective_id
  | f+1 => by
    have := (ha (f+1)).comp (composeChain_bijective a ha f)
    simpa [composeChain, Function.comp_def] using this

/-- the column-by-column executable chain computes `composeChain` -/
theorem chainCols_get {K : Nat} (b : Nat → Fin K → Fin K) :
    ∀ (n : Nat) (a : Nat → Tab1 K (Fin K)) (prev : Tab1 K (Fin K)) (f0 : Nat),
      (∀ k, at1 prev k = composeChain b f0 k) → (∀ i k, at1 (a i) k = b (f0 + 1 + i) k) →
      ∀ i, i < n → ∃ c, (chainCols a n prev)[i]? = some c ∧ ∀ k, at1 c k = composeChain b (f0 + 1 + i) k
  | 0, _, _, _, _, _, i, hi => by omega
  | n+1, a, prev, f0, hprev, ha, i, hi => by
    have hcol : ∀ k, at1 (tab1 fun k => at1 (a 0) (at1 prev k)) k = composeChain b (f0 + 1) k := by
      intro k
      rw [at1_tab1, ha 0 (at1 prev k), hprev k]
      rfl
    cases i with
    | zero => exact ⟨tab1 fun k => at1 (a 0) (at1 prev k), by simp [chainCols], hcol⟩
    | succ i =>
      obtain ⟨c, hc, hck⟩ := chainCols_get b n (fun g => a (g+1)) _ (f0+1) hcol
        (by intro j k; rw [ha (j+1) k]; congr 1; omega) i (by omega)
      refine ⟨c, by simpa [chainCols] using hc, ?_⟩
      intro k; rw [hck k]; congr 1; omega

/-! ### DHTV loop invariant -/
section dhtv
variable {α : Type} [Field α] [LinearOrder α] [Transc α] {K F T : Nat}

/-- every bin of the mapping is a permutation and the features are the start features reordered by it -/
def Inv (f0 : Tab3 K F T α) (s : St K F T α) : Prop :=
  (∀ f, Bijective fun k => at2 s.mapping k f) ∧
    ∀ k f t, at3 s.features k f t = at3 f0 (at2 s.mapping k f) f t

theorem binStep_inv (f0 : Tab3 K F T α) (m : Metric) (tiny : α) (algo : Algo) (c : Tab2 K T α)
    (s : St K F T α) (f : Fin F) (h : Inv f0 s) : Inv f0 (binStep m tiny algo c s f).1 := by
  unfold binStep
  dsimp only
  split
  · exact h
  · have hrp : Bijective (assign algo (score tiny m (fun k => at3 s.features k f) (at2 c))) :=
      assign_bijective _ _
    refine ⟨?_, ?_⟩
    · intro g
      simp only [at2_tab2, at1_tab1, permuteBin]
      by_cases hg : g = f
      · subst hg
        simpa [Function.comp_def] using (h.1 g).comp hrp
      · simpa [hg] using h.1 g
    · intro k g t
      simp only [at3_tab3, at2_tab2, at1_tab1, permuteBin]
      by_cases hg : g = f
      · subst hg; simp [h.2]
      · simp [hg, h.2]

theorem foldl_binStep_inv (f0 : Tab3 K F T α) (m : Metric) (tiny : α) (algo : Algo) (c : Tab2 K T α) :
    ∀ (l : List (Fin F)) (acc : St K F T α × Bool), Inv f0 acc.1 →
      Inv f0 (l.foldl (fun (acc : St K F T α × Bool) f =>
        let r := binStep m tiny algo c acc.1 f
        (r.1, acc.2 || r.2)) acc).1
  | [], _, h => h
  | f :: l, acc, h => foldl_binStep_inv f0 m tiny algo c l _ (binStep_inv f0 m tiny algo c acc.1 f h)

theorem segmentPass_inv (f0 : Tab3 K F T α) (isCos : Bool) (m : Metric) (tiny : α) (algo : Algo)
    (lo hi : Nat) (s : St K F T α) (h : Inv f0 s) : Inv f0 (segmentPass isCos m tiny algo lo hi s).1 := by
  unfold segmentPass
  exact foldl_binStep_inv f0 m tiny algo _ _ (s, false) h

theorem segmentIter_inv (f0 : Tab3 K F T α) (isCos : Bool) (m : Metric) (tiny : α) (algo : Algo)
    (lo hi : Nat) : ∀ (n : Nat) (s : St K F T α), Inv f0 s → Inv f0 (segmentIter isCos m tiny algo lo hi n s)
  | 0, _, h => h
  | n+1, s, h => by
    unfold segmentIter
    have h' := segmentPass_inv f0 isCos m tiny algo lo hi s h
    dsimp only
    split
    · exact segmentIter_inv f0 isCos m tiny algo lo hi n _ h'
    · exact h'

theorem foldl_plan_inv (f0 : Tab3 K F T α) (isCos : Bool) (m : Metric) (tiny : α) (algo : Algo) :
    ∀ (plan : List (Nat × Nat × Nat)) (s : St K F T α), Inv f0 s →
      Inv f0 (plan.foldl (fun s seg => segmentIter isCos m tiny algo seg.2.1 seg.2.2 seg.1 s) s)
  | [], _, h => h
  | _ :: plan, s, h =>
    foldl_plan_inv f0 isCos m tiny algo plan _ (segmentIter_inv f0 isCos m tiny algo _ _ _ s h)

/-- the features DHTV starts from: the row-normalised mask for `cos`, the mask itself otherwise -/
def dhtvStart (tiny : α) (metric : Metric) (mask : Tab3 K F T α) : Tab3 K F T α :=
  if metric == .cos then tab3 (fun k f => vecNormalize tiny (at3 mask k f)) else mask

theorem dhtv_inv (tiny : α) (metric : Metric) (algo : Algo) (plan : List (Nat × Nat × Nat))
    (mask : Tab3 K F T α) : Inv (dhtvStart tiny metric mask) (dhtv tiny metric algo plan mask) := by
  unfold dhtv
  apply foldl_plan_inv
  refine ⟨?_, ?_⟩
  · intro f; simp [Function.bijective_id]
  · intro k f t; simp [dhtvStart]
end dhtv

/-! ### first strict maximum -/
theorem firstMaxLoop_max {β α : Type} [LinearOrder α] (g : β → α) :
    ∀ (ps : List β) (best : Option (β × α)),
      (∀ b ∈ best, b.2 = g b.1) → (ps ≠ [] ∨ best.isSome) →
      ∃ r, firstMaxLoop g ps best = some r ∧ r.2 = g r.1 ∧
        (r.1 ∈ ps ∨ some r = best) ∧ (∀ p ∈ ps, g p ≤ r.2) ∧ (∀ b ∈ best, b.2 ≤ r.2)
  | [], best, hb, hne => by
    rcases hne with h | h
    · exact absurd rfl h
    · obtain ⟨b, rfl⟩ := Option.isSome_iff_exists.mp h
      exact ⟨b, rfl, hb b rfl, Or.inr rfl, by simp, by simp⟩
  | p :: ps, none, _, _ => by
    obtain ⟨r, h1, h2, h3, h4, h5⟩ := firstMaxLoop_max g ps (some (p, g p)) (by simp) (Or.inr rfl)
    refine ⟨r, by simpa [firstMaxLoop] using h1, h2, ?_, ?_, by simp⟩
    · rcases h3 with h3 | h3
      · exact Or.inl (List.mem_cons_of_mem _ h3)
      · cases h3; exact Or.inl (by simp)
    · intro q hq
      rcases List.mem_cons.mp hq with rfl | hq
      · exact h5 _ rfl
      · exact h4 q hq
  | p :: ps, some (bp, bs), hb, _ => by
    have hbs := hb (bp, bs) rfl
    simp only [firstMaxLoop]
    by_cases hlt : bs < g p
    · simp only [hlt, if_true]
      obtain ⟨r, h1, h2, h3, h4, h5⟩ := firstMaxLoop_max g ps (some (p, g p)) (by simp) (Or.inr rfl)
      refine ⟨r, h1, h2, ?_, ?_, ?_⟩
      · rcases h3 with h3 | h3
        · exact Or.inl (List.mem_cons_of_mem _ h3)
        · cases h3; exact Or.inl (by simp)
      · intro q hq
        rcases List.mem_cons.mp hq with rfl | hq
        · exact h5 _ rfl
        · exact h4 q hq
      · intro b hb'; cases hb'; exact le_trans hlt.le (h5 _ rfl)
    · simp only [hlt, if_false]
      obtain ⟨r, h1, h2, h3, h4, h5⟩ := firstMaxLoop_max g ps (some (bp, bs)) hb (Or.inr rfl)
      refine ⟨r, h1, h2, ?_, ?_, h5⟩
      · rcases h3 with h3 | h3
        · exact Or.inl (List.mem_cons_of_mem _ h3)
        · exact Or.inr h3
      · intro q hq
        rcases List.mem_cons.mp hq with rfl | hq
        · exact le_trans (not_lt.mp hlt) (h5 _ rfl)
        · exact h4 q hq

end PbBss.Align

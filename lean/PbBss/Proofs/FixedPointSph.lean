import PbBss.Proofs.FixedPointVmf
/-! The spherical Gaussian mixture (`Em.sphFamily`, `GMM` with `covariance_type='spherical'`) in the BALANCED noise-free
orthonormal scene: a complete `n`-step fixed-point theorem by induction over the EM loop `Em.fit` (the Gaussian analogue
of `vmf_balanced_chain` / `fixed_point_vmf_balanced`).

Scene: real orthonormal prototypes `a` used as the class MEANS, observations `y n = a (c n)` (noise-free), equal class
masses `S > 0`, uniform mixture weights, STRICTLY blurred start `twoLevel c g₀ h₀` (`0 < h₀ < g₀`, `g₀ + K h₀ = 1`).
Every M-step gives class `k` the mean `g·a_k + h·Σ_{j≠k} a_j` and all classes the same variance
`v(g,h) = [g((1−g)² + K h²) + K h((1−h)² + g² + (K−1)h²)]/D = (1 − g² − K h²)/D > 0`; every E-step gives again a
two-level posterior with `g' = E/(E+K)`, `h' = 1/(E+K)`, `E = exp((g−h)/v)`.

The hard start (`h₀ = 0`) is OUT OF SCOPE: the variance of a noise-free class is then `0`, a Gaussian of variance 0 has
no density (`1/sqrt 0`, `log 0` are totalised in `ℝ`, `inf`/`nan` in floating point). -/
open PbBss PbBss.Em Finset

namespace PbBss.FixedPoint

/-! ### algebra -/

/-- squared distance of prototype `a_i` from a combination `Σ_j μ_j a_j` of orthonormal prototypes:
`1 − 2 μ_i + Σ_j μ_j²` -/
theorem distSq_comb {K D : Nat} {a : Fin K → Fin D → ℝ} (ha : OrthoProtoR a) (μ : Fin K → ℝ) (i : Fin K) :
    ∑ d, (a i d - ∑ j, μ j * a j d) * (a i d - ∑ j, μ j * a j d) = 1 - 2 * μ i + ∑ j, μ j * μ j := by
  have e : ∀ d, (a i d - ∑ j, μ j * a j d) * (a i d - ∑ j, μ j * a j d)
      = a i d * a i d - 2 * (a i d * ∑ j, μ j * a j d) + (∑ j, μ j * a j d) * (∑ j, μ j * a j d) := by
    intro d; ring
  simp only [e, Finset.sum_add_distrib, Finset.sum_sub_distrib, ← Finset.mul_sum]
  rw [ha i i, if_pos rfl, inner_comb ha, normSq_comb ha]

theorem sum_lev_sq {K : Nat} (k : Fin (K+1)) (g h : ℝ) :
    ∑ j : Fin (K+1), (if j = k then g else h) * (if j = k then g else h) = g * g + K * (h * h) := by
  have e2 : ∀ j : Fin (K+1), (if j = k then g else h) * (if j = k then g else h) = if j = k then g * g else h * h := by
    intro j; split <;> rfl
  simp only [e2]
  rw [sum_lev]

/-- orthonormal vectors exist only in positive dimension -/
theorem dim_pos_of_ortho {K D : Nat} {a : Fin (K+1) → Fin D → ℝ} (ha : OrthoProtoR a) : 0 < D := by
  rcases Nat.eq_zero_or_pos D with h | h
  · subst h
    have := ha 0 0
    simp at this
  · exact h

/-- the common class variance after an M-step on two-level posterior levels `(g, h)` -/
noncomputable def sphVar (K D : Nat) (g h : ℝ) : ℝ :=
  (g * ((1 - g) ^ 2 + K * h ^ 2) + K * h * ((1 - h) ^ 2 + g ^ 2 + (K - 1) * h ^ 2)) / D

/-- for a proper two-level posterior (`g + K h = 1`) the common variance is `(1 − ρ²)/D`, `ρ² = g² + K h²` -/
theorem sphVar_eq (K D : Nat) (g h : ℝ) (hgh : g + K * h = 1) :
    sphVar K D g h = (1 - (g * g + K * (h * h))) / D := by
  unfold sphVar
  congr 1
  have hg : g = 1 - K * h := by linarith
  subst hg
  ring

theorem sphVar_pos (K D : Nat) (hK : 1 ≤ K) (hD : 0 < D) (g h : ℝ) (hh : 0 < h) (hg : 0 < g) : 0 < sphVar K D g h := by
  have hK' : (1:ℝ) ≤ K := by exact_mod_cast hK
  have hD' : (0:ℝ) < D := by exact_mod_cast hD
  unfold sphVar
  apply div_pos _ hD'
  have h1 : 0 ≤ g * ((1 - g) ^ 2 + K * h ^ 2) := by positivity
  have h2 : 0 < (1 - h) ^ 2 + g ^ 2 + (K - 1) * h ^ 2 := by
    have : 0 ≤ ((K:ℝ) - 1) * h ^ 2 := mul_nonneg (by linarith) (sq_nonneg h)
    have : 0 < g ^ 2 := by positivity
    have : 0 ≤ (1 - h) ^ 2 := sq_nonneg _
    linarith
  have h3 : 0 < (K:ℝ) * h * ((1 - h) ^ 2 + g ^ 2 + (K - 1) * h ^ 2) := by
    apply mul_pos (mul_pos (by linarith) hh) h2
  linarith

/-! ### the M-step -/

/-- the two fields of the spherical M-step in `Finset.sum` form -/
theorem sphMstep_fields {N D : Nat} (tinyG : ℝ) (w aux : Fin N → ℝ) (y : Fin N → Fin D → ℝ) :
    (∀ d, rd (sphMstep tinyG N w aux y).mean d = (∑ n, w n * y n d) / max (∑ n, w n) tinyG)
      ∧ (sphMstep tinyG N w aux y).var
        = (∑ n, ∑ d, w n * ((y n d - rd (sphMstep tinyG N w aux y).mean d)
              * (y n d - rd (sphMstep tinyG N w aux y).mean d))) / (max (∑ n, w n) tinyG * (D : ℝ)) := by
  refine ⟨fun d => ?_, ?_⟩
  · simp only [sphMstep, gaussMean, rd_tab, vsum_eq_sum]
  · simp only [sphMstep, gaussMean, rd_tab, vsum_eq_sum]

section mstep
variable {K N D : Nat} {a : Fin (K+1) → Fin D → ℝ} {c : Fin N → Fin (K+1)} {y : Fin N → Fin D → ℝ}

/-- **spherical-Gaussian M-step on a two-level affiliation** in the balanced noise-free orthonormal scene: mean
`g·a_k + h·Σ_{j≠k} a_j`, variance `sphVar K D g h` — the same for every class `k`.
Guard: the class mass `S` is not floored (`tinyG ≤ S`). -/
theorem sphMstep_twoLevel (ha : OrthoProtoR a) (hy : ∀ n d, y n d = a (c n) d) (tinyG : ℝ)
    (s : Fin N → ℝ) (S : ℝ) (hS : 0 < S) (hbal : ∀ k, classMass c s k = S) (g h : ℝ) (hgh : g + K * h = 1)
    (hguard : tinyG ≤ S) (k : Fin (K+1)) (aux : Fin N → ℝ) :
    (∀ d, rd (sphMstep tinyG N (fun n => twoLevel c g h k n * s n) aux y).mean d
        = ∑ j, (if j = k then g else h) * a j d)
      ∧ (sphMstep tinyG N (fun n => twoLevel c g h k n * s n) aux y).var = sphVar K D g h := by
  obtain ⟨hm, hv⟩ := sphMstep_fields tinyG (fun n => twoLevel c g h k n * s n) aux y
  have htot : ∑ n, twoLevel c g h k n * s n = S := by
    rw [twoLevel_total c s S hbal, hgh, one_mul]
  have hr : ∀ d, ∑ n, twoLevel c g h k n * s n * y n d = S * ∑ j, (if j = k then g else h) * a j d := by
    intro d
    rw [resultant_scene a c y hy]
    unfold twoLevel
    simp only [classMass_two_level, hbal]
    rw [Finset.mul_sum]
    exact Finset.sum_congr rfl fun j _ => by ring
  have hmean : ∀ d, rd (sphMstep tinyG N (fun n => twoLevel c g h k n * s n) aux y).mean d
      = ∑ j, (if j = k then g else h) * a j d := by
    intro d
    rw [hm, htot, max_eq_left hguard, hr, mul_div_cancel_left₀ _ hS.ne']
  refine ⟨hmean, ?_⟩
  rw [hv, htot, max_eq_left hguard]
  simp only [hmean, hy, ← Finset.mul_sum, distSq_comb ha, sum_lev_sq]
  -- `Σ_n w_n · f(c n)` regrouped by class
  rw [sum_by_class c (fun n j => twoLevel c g h k n * s n
      * (1 - 2 * (if j = k then g else h) + (g * g + K * (h * h))))]
  have e : ∀ j : Fin (K+1), (∑ n, if c n = j then twoLevel c g h k n * s n
        * (1 - 2 * (if j = k then g else h) + (g * g + K * (h * h))) else 0)
      = S * ((if j = k then g else h) * (1 + (g * g + K * (h * h)))
          - 2 * ((if j = k then g else h) * (if j = k then g else h))) := by
    intro j
    have e1 : ∀ n, (if c n = j then twoLevel c g h k n * s n
          * (1 - 2 * (if j = k then g else h) + (g * g + K * (h * h))) else 0)
        = (if c n = j then twoLevel c g h k n * s n else 0)
          * (1 - 2 * (if j = k then g else h) + (g * g + K * (h * h))) := by
      intro n; split <;> simp
    simp only [e1]
    rw [← Finset.sum_mul]
    have e2 : (∑ n, if c n = j then twoLevel c g h k n * s n else 0)
        = classMass c (fun n => (if c n = k then g else h) * s n) j := rfl
    rw [e2, classMass_two_level, hbal]
    ring
  simp only [e]
  rw [← Finset.mul_sum, Finset.sum_sub_distrib, ← Finset.sum_mul, ← Finset.mul_sum, sum_lev, sum_lev_sq, hgh,
    sphVar_eq K D g h hgh, mul_div_mul_left _ _ hS.ne']
  congr 1
  ring

end mstep

/-! ### the balanced invariant and the E-step -/
section balanced
variable {K N D : Nat} {a : Fin (K+1) → Fin D → ℝ} {c : Fin N → Fin (K+1)} {y : Fin N → Fin D → ℝ}

/-- all class means are the two-level combinations `g·a_k + h·Σ_{j≠k} a_j` of the prototypes, one common variance -/
def SBalanced (a : Fin (K+1) → Fin D → ℝ) (θ : Mixture (SphG ℝ D) ℝ (K+1) N) (g h v : ℝ) : Prop :=
  ∀ k, (∀ d, rd (θ.c k).mean d = ∑ j, (if j = k then g else h) * a j d) ∧ (θ.c k).var = v

/-- squared distance of prototype `a_i` from a balanced class mean `m_k`: `(1−g)² + K h²` for `i = k`,
`(1−h)² + g² + (K−1) h²` for `i ≠ k` — written `1 − 2·lev + (g² + K h²)` -/
theorem sbalanced_distSq (ha : OrthoProtoR a) (θ : Mixture (SphG ℝ D) ℝ (K+1) N) (g h v : ℝ)
    (hb : SBalanced a θ g h v) (k i : Fin (K+1)) :
    ∑ d, (a i d - rd (θ.c k).mean d) ^ 2 = 1 - 2 * (if i = k then g else h) + (g * g + K * (h * h)) := by
  simp only [(hb k).1, sq]
  rw [distSq_comb ha, sum_lev_sq]

/-- the squared distances in the form of the task statement -/
theorem sbalanced_distSq_own (ha : OrthoProtoR a) (θ : Mixture (SphG ℝ D) ℝ (K+1) N) (g h v : ℝ)
    (hb : SBalanced a θ g h v) (k : Fin (K+1)) :
    ∑ d, (a k d - rd (θ.c k).mean d) ^ 2 = (1 - g) ^ 2 + K * h ^ 2 := by
  rw [sbalanced_distSq ha θ g h v hb, if_pos rfl]; ring

theorem sbalanced_distSq_other (ha : OrthoProtoR a) (θ : Mixture (SphG ℝ D) ℝ (K+1) N) (g h v : ℝ)
    (hb : SBalanced a θ g h v) (k i : Fin (K+1)) (hik : i ≠ k) :
    ∑ d, (a i d - rd (θ.c k).mean d) ^ 2 = (1 - h) ^ 2 + g ^ 2 + (K - 1) * h ^ 2 := by
  rw [sbalanced_distSq ha θ g h v hb, if_neg hik]; ring

/-- the class-independent part of the log-density of a balanced model at a noise-free observation -/
noncomputable def sphBase (K D : Nat) (log2pi g h v : ℝ) : ℝ :=
  -(half * (D : ℝ) * log2pi) + (D : ℝ) * Real.log (1 / Real.sqrt v)
    - half * ((1 - 2 * h + (g * g + K * (h * h))) / v)

/-- the spherical-Gaussian log-density of a balanced model (common POSITIVE variance `v`) at a noise-free observation:
a class-independent constant, plus `(g − h)/v` on the true class -/
theorem sphLogPdf_balanced (ha : OrthoProtoR a) (hy : ∀ n d, y n d = a (c n) d) (log2pi : ℝ)
    (θ : Mixture (SphG ℝ D) ℝ (K+1) N) (g h v : ℝ) (hb : SBalanced a θ g h v) (hv : 0 < v) (k : Fin (K+1)) (n : Fin N) :
    sphLogPdf log2pi (θ.c k) (y n) = sphBase K D log2pi g h v + (if c n = k then (g - h) / v else 0) := by
  have hvk : 0 < (θ.c k).var := by rw [(hb k).2]; exact hv
  rw [sphLogPdf_eq log2pi (θ.c k) (y n) hvk]
  simp only [hy]
  rw [sbalanced_distSq ha θ g h v hb, (hb k).2]
  unfold sphBase half
  split
  · field_simp; ring
  · ring

/-- the posterior of a balanced model with uniform weights is again two-level -/
theorem eStep_sbalanced (ha : OrthoProtoR a) (hy : ∀ n d, y n d = a (c n) d) (tinyG log2pi : ℝ)
    (tiny : ℝ) (htiny : 0 < tiny) (ht : tiny ≤ 1 / ((K+1 : ℕ) : ℝ))
    (θ : Mixture (SphG ℝ D) ℝ (K+1) N) (g h v : ℝ) (hb : SBalanced a θ g h v) (hv : 0 < v)
    (hw : ∀ k n, θ.w k n = 1 / ((K+1 : ℕ) : ℝ)) (k : Fin (K+1)) (n : Fin N) :
    eStep tiny (sphFamily D tinyG log2pi) θ y k n
      = if c n = k then Real.exp ((g - h) / v) / (Real.exp ((g - h) / v) + K)
        else 1 / (Real.exp ((g - h) / v) + K) := by
  rw [eStep_bayes tiny htiny _ θ y (fun k n => by rw [hw]; exact ht)]
  set E := Real.exp ((g - h) / v) with hE
  have hexp : ∀ j, Real.exp ((sphFamily D tinyG log2pi).logPdf (θ.c j) (y n))
      = (if c n = j then E else 1) * Real.exp (sphBase K D log2pi g h v) := by
    intro j
    show Real.exp (sphLogPdf log2pi (θ.c j) (y n)) = _
    rw [sphLogPdf_balanced ha hy log2pi θ g h v hb hv, Real.exp_add, mul_comm]
    split <;> simp [hE]
  simp only [hw, hexp]
  have hsum : ∑ j : Fin (K+1), 1 / ((K+1 : ℕ) : ℝ) * ((if c n = j then E else 1) * Real.exp (sphBase K D log2pi g h v))
      = 1 / ((K+1 : ℕ) : ℝ) * Real.exp (sphBase K D log2pi g h v) * (E + K) := by
    rw [← sum_ite_one (c n) E, Finset.mul_sum]
    exact Finset.sum_congr rfl fun j _ => by ring
  rw [hsum]
  have h1 : (0:ℝ) < 1 / ((K+1 : ℕ) : ℝ) := by positivity
  have h2 : 0 < Real.exp (sphBase K D log2pi g h v) := Real.exp_pos _
  have h3 : 0 < E + K := by positivity
  split <;> field_simp

/-- the next two-level posterior `(g', h')` computed from `(g, h)` by one M-step and one E-step:
`E = exp((g−h)/v(g,h))`, `g' = E/(E+K)`, `h' = 1/(E+K)` -/
noncomputable def sphNext (D K : Nat) (p : ℝ × ℝ) : ℝ × ℝ :=
  let E := Real.exp ((p.1 - p.2) / sphVar K D p.1 p.2)
  (E / (E + K), 1 / (E + K))

/-- the two posterior levels the `i`-th M-step (`i = 0, 1, …`) is computed from -/
noncomputable def sphLevSeq (D K : Nat) (g₀ h₀ : ℝ) : Nat → ℝ × ℝ
  | 0 => (g₀, h₀)
  | i+1 => sphNext D K (sphLevSeq D K g₀ h₀ i)

/-- a proper STRICTLY blurred two-level posterior: sums to one, positive leak, true class strictly the largest -/
def LevOkS (K : Nat) (p : ℝ × ℝ) : Prop := p.1 + K * p.2 = 1 ∧ 0 < p.2 ∧ p.2 < p.1

theorem LevOkS.pos {K : Nat} {p : ℝ × ℝ} (h : LevOkS K p) : 0 < p.1 := lt_trans h.2.1 h.2.2

theorem LevOkS.var_pos {K : Nat} {p : ℝ × ℝ} (h : LevOkS K p) (D : Nat) (hK : 1 ≤ K) (hD : 0 < D) :
    0 < sphVar K D p.1 p.2 := sphVar_pos K D hK hD p.1 p.2 h.2.1 h.pos

theorem levOkS_next (D K : Nat) (hK : 1 ≤ K) (hD : 0 < D) (p : ℝ × ℝ) (hp : LevOkS K p) : LevOkS K (sphNext D K p) := by
  have hv := hp.var_pos D hK hD
  have hpos : 0 < (p.1 - p.2) / sphVar K D p.1 p.2 := div_pos (by linarith [hp.2.2]) hv
  have hE : 1 < Real.exp ((p.1 - p.2) / sphVar K D p.1 p.2) := by
    have := Real.add_one_lt_exp hpos.ne'
    linarith
  have hden : 0 < Real.exp ((p.1 - p.2) / sphVar K D p.1 p.2) + K := by positivity
  refine ⟨?_, ?_, ?_⟩
  · simp only [sphNext]
    field_simp
  · simp only [sphNext]
    positivity
  · simp only [sphNext]
    exact div_lt_div_of_pos_right hE hden

theorem levOkS_seq (D K : Nat) (hK : 1 ≤ K) (hD : 0 < D) (g₀ h₀ : ℝ) (h0 : LevOkS K (g₀, h₀)) (i : Nat) :
    LevOkS K (sphLevSeq D K g₀ h₀ i) := by
  induction i with
  | zero => exact h0
  | succ i ih => exact levOkS_next D K hK hD _ ih

end balanced

/-! ### induction over the EM loop -/
section chain
variable {K N D : Nat} {a : Fin (K+1) → Fin D → ℝ} {c : Fin N → Fin (K+1)} {y : Fin N → Fin D → ℝ}
  (tinyG log2pi : ℝ) (tiny : ℝ) (rule : WeightRule) (tie : Tying N) (eps : ℝ) (s : Fin N → ℝ)

/-- M-step of the mixture on a proper two-level affiliation: balanced with the common variance `sphVar K D g h` -/
theorem mStep_sbalanced (ha : OrthoProtoR a) (hy : ∀ n d, y n d = a (c n) d)
    (S : ℝ) (hS : 0 < S) (hbal : ∀ k, classMass c s k = S) (hguard : tinyG ≤ S)
    (p : ℝ × ℝ) (hp : p.1 + K * p.2 = 1) (aux : Fin (K+1) → Fin N → ℝ) :
    SBalanced a (mStep (sphFamily D tinyG log2pi) rule tie eps s y (twoLevel c p.1 p.2) aux) p.1 p.2
      (sphVar K D p.1 p.2) := by
  intro k
  rw [mStep_c]
  exact sphMstep_twoLevel ha hy tinyG s S hS hbal p.1 p.2 hp hguard k (aux k)

/-- **the balanced invariant holds at every iterate of `Em.fit`** (spherical GMM, balanced noise-free orthonormal
scene, strictly blurred two-level start): induction over the EM loop -/
theorem sph_balanced_chain (ha : OrthoProtoR a) (hy : ∀ n d, y n d = a (c n) d) (hK : 1 ≤ K)
    (htiny : 0 < tiny) (ht : tiny ≤ 1 / ((K+1 : ℕ) : ℝ)) (htie : tie.uniform = true)
    (S : ℝ) (hS : 0 < S) (hbal : ∀ k, classMass c s k = S) (hguard : tinyG ≤ S)
    (g₀ h₀ : ℝ) (h0 : LevOkS K (g₀, h₀)) (i : Nat) :
    SBalanced a (fit tiny (sphFamily D tinyG log2pi) rule tie eps s y (i+1) (twoLevel c g₀ h₀))
      (sphLevSeq D K g₀ h₀ i).1 (sphLevSeq D K g₀ h₀ i).2
      (sphVar K D (sphLevSeq D K g₀ h₀ i).1 (sphLevSeq D K g₀ h₀ i).2) := by
  have hD := dim_pos_of_ortho ha
  induction i with
  | zero =>
    rw [fit_one]
    exact mStep_sbalanced tinyG log2pi rule tie eps s ha hy S hS hbal hguard (g₀, h₀) h0.1 _
  | succ i ih =>
    rw [fit_succ, emStep_eq]
    have hok := levOkS_seq D K hK hD g₀ h₀ h0 i
    have hγ : eStep tiny (sphFamily D tinyG log2pi)
        (fit tiny (sphFamily D tinyG log2pi) rule tie eps s y (i+1) (twoLevel c g₀ h₀)) y
        = twoLevel c (sphLevSeq D K g₀ h₀ (i+1)).1 (sphLevSeq D K g₀ h₀ (i+1)).2 := by
      funext k n
      rw [eStep_sbalanced ha hy tinyG log2pi tiny htiny ht _ _ _ _ ih (hok.var_pos D hK hD)
        (fit_w_uniform_gen tiny rule tie eps s _ y htie (twoLevel c g₀ h₀) i) k n]
      rfl
    rw [hγ]
    exact mStep_sbalanced tinyG log2pi rule tie eps s ha hy S hS hbal hguard _
      (levOkS_seq D K hK hD g₀ h₀ h0 (i+1)).1 _

/-- a balanced model with a positive common variance and uniform weights ranks the true class strictly first; the
log-density of the true class exceeds that of any other class by exactly `(g − h)/v` -/
theorem sbalanced_argmax (ha : OrthoProtoR a) (hy : ∀ n d, y n d = a (c n) d) (htiny : 0 < tiny)
    (θ : Mixture (SphG ℝ D) ℝ (K+1) N) (g h v : ℝ) (hb : SBalanced a θ g h v) (hlt : h < g)
    (hv : 0 < v) (hw : ∀ k n, θ.w k n = 1 / ((K+1 : ℕ) : ℝ)) (n : Fin N) :
    vargmax (fun k => eStep tiny (sphFamily D tinyG log2pi) θ y k n) = c n := by
  refine vargmax_of_strict _ (c n) fun j hj => ?_
  rw [eStep_lt_iff tiny htiny, hw, hw]
  have h1 : (0:ℝ) < 1 / ((K+1 : ℕ) : ℝ) := by positivity
  refine mul_lt_mul_of_pos_left (Real.exp_lt_exp.mpr ?_) h1
  show sphLogPdf log2pi (θ.c j) (y n) < sphLogPdf log2pi (θ.c (c n)) (y n)
  rw [sphLogPdf_balanced ha hy log2pi θ g h v hb hv, sphLogPdf_balanced ha hy log2pi θ g h v hb hv, if_pos rfl,
    if_neg (Ne.symm hj)]
  have : 0 < (g - h) / v := div_pos (by linarith) hv
  linarith

/-- log-density gap of a balanced model: exactly `(g − h)/v` in favour of the true class -/
theorem sbalanced_gap (ha : OrthoProtoR a) (hy : ∀ n d, y n d = a (c n) d)
    (θ : Mixture (SphG ℝ D) ℝ (K+1) N) (g h v : ℝ) (hb : SBalanced a θ g h v) (hv : 0 < v) (n : Fin N)
    (j : Fin (K+1)) (hj : j ≠ c n) :
    sphLogPdf log2pi (θ.c (c n)) (y n) - sphLogPdf log2pi (θ.c j) (y n) = (g - h) / v := by
  rw [sphLogPdf_balanced ha hy log2pi θ g h v hb hv, sphLogPdf_balanced ha hy log2pi θ g h v hb hv, if_pos rfl,
    if_neg (Ne.symm hj)]
  ring

/-- a balanced class mean is strictly closer to its own prototype than to any other prototype (difference of the
squared distances: `2(g − h)`) -/
theorem sbalanced_points (ha : OrthoProtoR a) (θ : Mixture (SphG ℝ D) ℝ (K+1) N) (g h v : ℝ)
    (hb : SBalanced a θ g h v) (hlt : h < g) (k j : Fin (K+1)) (hj : j ≠ k) :
    ∑ d, (rd (θ.c k).mean d - a k d) ^ 2 < ∑ d, (rd (θ.c k).mean d - a j d) ^ 2 := by
  have e : ∀ i, ∑ d, (rd (θ.c k).mean d - a i d) ^ 2 = ∑ d, (a i d - rd (θ.c k).mean d) ^ 2 :=
    fun i => Finset.sum_congr rfl fun d _ => by ring
  rw [e, e, sbalanced_distSq ha θ g h v hb, sbalanced_distSq ha θ g h v hb, if_pos rfl, if_neg hj]
  linarith

end chain

/-! ### the theorems -/
section main
variable {K N D : Nat} {a : Fin (K+1) → Fin D → ℝ} {c : Fin N → Fin (K+1)} {y : Fin N → Fin D → ℝ}

/-- **the true partition is a stable fixed point for EVERY number of iterations (spherical GMM, balanced scene)**.
Real orthonormal prototypes used as the class means, noise-free observations `y n = a (c n)`, uniform mixture weights
(`weight_constant_axis = -2`), all classes of equal positive saliency mass `S`, at least two classes (`1 ≤ K`), start =
the true partition STRICTLY blurred by a uniform leak that keeps the true class the largest (`twoLevel c g₀ h₀`,
`g₀ + K·h₀ = 1`, `0 < h₀ < g₀`).
OUT OF SCOPE: the hard start `h₀ = 0` (and a single class) — the variance of a noise-free class is then exactly `0`, a
Gaussian of variance 0 has no density (`1/sqrt 0`, `log 0`: totalised to `0` in `ℝ`, `inf`/`nan` in floating point).
Guards: posterior denominator clamp inactive (`tiny ≤ 1/(K+1)`), class mass not floored (`tinyG ≤ S`; the weight sum of
every class at every iterate is exactly `S`).  The dimension `D` is positive because orthonormal vectors exist.
Then for every `n ≥ 1`, with `(g, h) = sphLevSeq … (n-1)` the two posterior levels the last M-step was computed from and
`v = sphVar K D g h = [g((1−g)² + K h²) + K h((1−h)² + g² + (K−1)h²)]/D`, the model `θ = fit n γ₀` has
* `g + K h = 1`, `0 < h < g`,
* class means `m_k = g·a_k + h·Σ_{j≠k} a_j` and one common variance `v > 0`,
* `‖m_k − a_k‖² < ‖m_k − a_j‖²` for `j ≠ k` (every mean points at its own prototype),
* arg-max of its E-step = the true class at every observation.
Proved by induction over the EM loop — no trajectory hypothesis. -/
theorem fixed_point_sph_balanced (ha : OrthoProtoR a) (hy : ∀ n d, y n d = a (c n) d) (hK : 1 ≤ K)
    (tinyG log2pi : ℝ) (tiny : ℝ) (htiny : 0 < tiny) (ht : tiny ≤ 1 / ((K+1 : ℕ) : ℝ))
    (rule : WeightRule) (tie : Tying N) (htie : tie.uniform = true) (eps : ℝ) (s : Fin N → ℝ) (S : ℝ) (hS : 0 < S)
    (hbal : ∀ k, classMass c s k = S) (hguard : tinyG ≤ S)
    (g₀ h₀ : ℝ) (hgh : g₀ + K * h₀ = 1) (hh0 : 0 < h₀) (hlt : h₀ < g₀) (n : Nat) (hn : 1 ≤ n) :
    let fam := sphFamily D tinyG log2pi
    let θ := fit tiny fam rule tie eps s y n (twoLevel c g₀ h₀)
    let g := (sphLevSeq D K g₀ h₀ (n-1)).1
    let h := (sphLevSeq D K g₀ h₀ (n-1)).2
    let v := sphVar K D g h
    (g + K * h = 1 ∧ 0 < h ∧ h < g)
      ∧ 0 < v
      ∧ (∀ k, (∀ d, rd (θ.c k).mean d = ∑ j, (if j = k then g else h) * a j d) ∧ (θ.c k).var = v)
      ∧ (∀ k j, j ≠ k → ∑ d, (rd (θ.c k).mean d - a k d) ^ 2 < ∑ d, (rd (θ.c k).mean d - a j d) ^ 2)
      ∧ ∀ obs, vargmax (fun k => eStep tiny fam θ y k obs) = c obs := by
  intro fam θ g h v
  obtain ⟨i, rfl⟩ : ∃ i, n = i + 1 := ⟨n - 1, by omega⟩
  have hD := dim_pos_of_ortho ha
  have h0 : LevOkS K (g₀, h₀) := ⟨hgh, hh0, hlt⟩
  have hok : LevOkS K (sphLevSeq D K g₀ h₀ i) := levOkS_seq D K hK hD g₀ h₀ h0 i
  have hv : 0 < v := hok.var_pos D hK hD
  have hb := sph_balanced_chain tinyG log2pi tiny rule tie eps s ha hy hK htiny ht htie S hS hbal hguard g₀ h₀ h0 i
  refine ⟨hok, hv, hb, fun k j hj => sbalanced_points ha θ g h v hb hok.2.2 k j hj, fun obs => ?_⟩
  exact sbalanced_argmax tinyG log2pi tiny ha hy htiny θ g h v hb hok.2.2 hv
    (fit_w_uniform_gen tiny rule tie eps s fam y htie (twoLevel c g₀ h₀) i) obs

/-- the quantities behind the ranking, at every iterate: squared distances `(1−g)² + K h²` (own prototype) and
`(1−h)² + g² + (K−1) h²` (other prototypes), log-density gap exactly `(g − h)/v` in favour of the true class, and the
E-step of iterate `n` is the two-level posterior with the NEXT levels (`g' = E/(E+K)`, `h' = 1/(E+K)`,
`E = exp((g−h)/v)`) -/
theorem fixed_point_sph_balanced_values (ha : OrthoProtoR a) (hy : ∀ n d, y n d = a (c n) d) (hK : 1 ≤ K)
    (tinyG log2pi : ℝ) (tiny : ℝ) (htiny : 0 < tiny) (ht : tiny ≤ 1 / ((K+1 : ℕ) : ℝ))
    (rule : WeightRule) (tie : Tying N) (htie : tie.uniform = true) (eps : ℝ) (s : Fin N → ℝ) (S : ℝ) (hS : 0 < S)
    (hbal : ∀ k, classMass c s k = S) (hguard : tinyG ≤ S)
    (g₀ h₀ : ℝ) (hgh : g₀ + K * h₀ = 1) (hh0 : 0 < h₀) (hlt : h₀ < g₀) (n : Nat) (hn : 1 ≤ n) :
    let fam := sphFamily D tinyG log2pi
    let θ := fit tiny fam rule tie eps s y n (twoLevel c g₀ h₀)
    let g := (sphLevSeq D K g₀ h₀ (n-1)).1
    let h := (sphLevSeq D K g₀ h₀ (n-1)).2
    let v := sphVar K D g h
    (∀ k, ∑ d, (a k d - rd (θ.c k).mean d) ^ 2 = (1 - g) ^ 2 + K * h ^ 2)
      ∧ (∀ k i, i ≠ k → ∑ d, (a i d - rd (θ.c k).mean d) ^ 2 = (1 - h) ^ 2 + g ^ 2 + (K - 1) * h ^ 2)
      ∧ (∀ obs j, j ≠ c obs →
          sphLogPdf log2pi (θ.c (c obs)) (y obs) - sphLogPdf log2pi (θ.c j) (y obs) = (g - h) / v)
      ∧ eStep tiny fam θ y = twoLevel c (sphLevSeq D K g₀ h₀ n).1 (sphLevSeq D K g₀ h₀ n).2 := by
  intro fam θ g h v
  obtain ⟨i, rfl⟩ : ∃ i, n = i + 1 := ⟨n - 1, by omega⟩
  have hD := dim_pos_of_ortho ha
  have h0 : LevOkS K (g₀, h₀) := ⟨hgh, hh0, hlt⟩
  have hok : LevOkS K (sphLevSeq D K g₀ h₀ i) := levOkS_seq D K hK hD g₀ h₀ h0 i
  have hv : 0 < v := hok.var_pos D hK hD
  have hb := sph_balanced_chain tinyG log2pi tiny rule tie eps s ha hy hK htiny ht htie S hS hbal hguard g₀ h₀ h0 i
  refine ⟨fun k => sbalanced_distSq_own ha θ g h v hb k, fun k i hik => sbalanced_distSq_other ha θ g h v hb k i hik,
    fun obs j hj => sbalanced_gap log2pi ha hy θ g h v hb hv obs j hj, ?_⟩
  funext k obs
  rw [eStep_sbalanced ha hy tinyG log2pi tiny htiny ht θ g h v hb hv
    (fit_w_uniform_gen tiny rule tie eps s fam y htie (twoLevel c g₀ h₀) i) k obs]
  rfl

/-- **one EM round from a strictly blurred two-level start** (the case `n = 1` written out): the first M-step gives the
means `g₀·a_k + h₀·Σ_{j≠k} a_j` and the common variance `sphVar K D g₀ h₀ > 0`, and its E-step ranks the true class
strictly first -/
theorem sph_round_blurred (ha : OrthoProtoR a) (hy : ∀ n d, y n d = a (c n) d) (hK : 1 ≤ K)
    (tinyG log2pi : ℝ) (tiny : ℝ) (htiny : 0 < tiny) (ht : tiny ≤ 1 / ((K+1 : ℕ) : ℝ))
    (rule : WeightRule) (tie : Tying N) (htie : tie.uniform = true) (eps : ℝ) (s : Fin N → ℝ) (S : ℝ) (hS : 0 < S)
    (hbal : ∀ k, classMass c s k = S) (hguard : tinyG ≤ S)
    (g₀ h₀ : ℝ) (hgh : g₀ + K * h₀ = 1) (hh0 : 0 < h₀) (hlt : h₀ < g₀) :
    let fam := sphFamily D tinyG log2pi
    let θ₁ := fit tiny fam rule tie eps s y 1 (twoLevel c g₀ h₀)
    0 < sphVar K D g₀ h₀
      ∧ (∀ k, (∀ d, rd (θ₁.c k).mean d = ∑ j, (if j = k then g₀ else h₀) * a j d) ∧ (θ₁.c k).var = sphVar K D g₀ h₀)
      ∧ ∀ obs, vargmax (fun k => eStep tiny fam θ₁ y k obs) = c obs := by
  intro fam θ₁
  have h := fixed_point_sph_balanced ha hy hK tinyG log2pi tiny htiny ht rule tie htie eps s S hS hbal hguard g₀ h₀ hgh
    hh0 hlt 1 le_rfl
  exact ⟨h.2.1, h.2.2.1, h.2.2.2.2⟩

/-! ### a concrete scene (non-vacuity) -/

/-- non-vacuity of `fixed_point_sph_balanced`: two classes on the standard basis of `ℝ²` as class means, one
observation each, `log2pi := 0`, class-mass floor `tinyG = 1/2`, posterior floor `tiny = 1/4`, strictly blurred start
`g₀ = 3/4`, `h₀ = 1/4` — for ALL `n ≥ 1` -/
example (n : Nat) (hn : 1 ≤ n) (obs : Fin 2) :
    vargmax (fun k => eStep (1/4) (sphFamily 2 (1/2) 0)
      (fit (1/4) (sphFamily 2 (1/2) 0) WeightRule.unitNorm ⟨true, 1, tab fun _ => 0⟩ 0
        (fun _ => 1) a2R n (twoLevel (fun m : Fin 2 => m) (3/4) (1/4))) a2R k obs) = obs :=
  (fixed_point_sph_balanced ortho_a2R (c := fun m : Fin 2 => m) (fun _ _ => rfl) le_rfl (1/2) 0 (1/4) (by norm_num)
    (by norm_num) WeightRule.unitNorm ⟨true, 1, tab fun _ => 0⟩ rfl 0 (fun _ => 1) 1 one_pos
    (fun k => by fin_cases k <;> simp [classMass]) (by norm_num)
    (3/4) (1/4) (by norm_num) (by norm_num) (by norm_num) n hn).2.2.2.2 obs

/-- the first variance of that scene is `(1 − (9/16 + 1/16))/2 = 3/16 > 0` (the theorem is not about a degenerate model) -/
example : sphVar 1 2 (3/4) (1/4) = 3/16 := by
  unfold sphVar; norm_num

end main

end PbBss.FixedPoint

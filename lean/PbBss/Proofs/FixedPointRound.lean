import PbBss.Proofs.FixedPointMstep
/-! One EM round (and a chain of rounds under explicit trajectory hypotheses) of the complex Watson mixture model
`PbBss.Em.fit … (watsonFamily …)` in the noise-free orthonormal scene. -/
open PbBss PbBss.Em Finset

namespace PbBss.FixedPoint

local notation "conj" => starRingEnd ℂ

/-! ### the EM loop -/
section loop
variable {Θ Y : Type} {K N : Nat}

theorem iter_succ_apply {β : Type} (f : β → β) (n : Nat) (x : β) : iter f (n+1) x = f (iter f n x) := by
  induction n generalizing x with
  | zero => rfl
  | succ n ih => exact ih (f x)

theorem fit_one (tiny : ℝ) (fam : Family Θ Y ℝ) (rule : WeightRule) (tie : Tying N) (eps : ℝ) (s : Fin N → ℝ)
    (y : Fin N → Y) (γ₀ : Fin (K+1) → Fin N → ℝ) :
    fit tiny fam rule tie eps s y 1 γ₀ = mStep fam rule tie eps s y γ₀ (fun _ _ => 1) := rfl

theorem emStep_eq (tiny : ℝ) (fam : Family Θ Y ℝ) (rule : WeightRule) (tie : Tying N) (eps : ℝ) (s : Fin N → ℝ)
    (y : Fin N → Y) (θ : Mixture Θ ℝ (K+1) N) :
    emStep tiny fam rule tie eps s y θ = mStep fam rule tie eps s y (eStep tiny fam θ y) (eAux fam θ y) := by
  have h1 : rd2 (tab2 (eStep tiny fam θ y)) = eStep tiny fam θ y := by funext k n; simp
  have h2 : rd2 (tab2 (eAux fam θ y)) = eAux fam θ y := by funext k n; simp
  simp only [emStep, h1, h2]

theorem fit_succ (tiny : ℝ) (fam : Family Θ Y ℝ) (rule : WeightRule) (tie : Tying N) (eps : ℝ) (s : Fin N → ℝ)
    (y : Fin N → Y) (n : Nat) (γ₀ : Fin (K+1) → Fin N → ℝ) :
    fit tiny fam rule tie eps s y (n+2) γ₀
      = emStep tiny fam rule tie eps s y (fit tiny fam rule tie eps s y (n+1) γ₀) := by
  show iter _ (n+1) _ = _
  rw [iter_succ_apply]
  rfl

theorem mStep_c (fam : Family Θ Y ℝ) (rule : WeightRule) (tie : Tying N) (eps : ℝ) (s : Fin N → ℝ)
    (y : Fin N → Y) (γ aux : Fin K → Fin N → ℝ) (k : Fin K) :
    (mStep fam rule tie eps s y γ aux).c k = fam.mstep N (fun n => γ k n * s n) (aux k) y := by
  simp [Mixture.c, mStep]

/-- the affiliations the `i`-th M-step (`i = 0, 1, …`) of `fit` is computed from: the start, then the E-steps -/
noncomputable def affAt (tiny : ℝ) (fam : Family Θ Y ℝ) (rule : WeightRule) (tie : Tying N) (eps : ℝ) (s : Fin N → ℝ)
    (y : Fin N → Y) (γ₀ : Fin (K+1) → Fin N → ℝ) : Nat → Fin (K+1) → Fin N → ℝ
  | 0 => γ₀
  | i+1 => eStep tiny fam (fit tiny fam rule tie eps s y (i+1) γ₀) y

/-- every iterate of `fit` is an M-step of the preceding affiliations -/
theorem fit_eq_mStep (tiny : ℝ) (fam : Family Θ Y ℝ) (rule : WeightRule) (tie : Tying N) (eps : ℝ) (s : Fin N → ℝ)
    (y : Fin N → Y) (γ₀ : Fin (K+1) → Fin N → ℝ) (i : Nat) :
    ∃ aux, fit tiny fam rule tie eps s y (i+1) γ₀
      = mStep fam rule tie eps s y (affAt tiny fam rule tie eps s y γ₀ i) aux := by
  cases i with
  | zero => exact ⟨_, fit_one ..⟩
  | succ i => exact ⟨_, by rw [fit_succ, emStep_eq]; rfl⟩

end loop

/-! ### the scene -/

/-- noise-free orthonormal scene: prototypes orthonormal, every (normalised) observation is its class prototype
times a unit phase -/
structure Scene {K N D : Nat} (a : Fin K → Fin D → ℂ) (c : Fin N → Fin K) (z : Fin N → Fin D → ℂ) : Prop where
  ortho : OrthoProto a
  obs : ∃ u : Fin N → ℂ, (∀ n, Complex.normSq (u n) = 1) ∧ ∀ n d, z n d = u n * a (c n) d

/-- the mode of a Watson component is prototype `k` up to a unit phase -/
def Aligned {K D : Nat} (a : Fin K → Fin D → ℂ) (θ : Watson ℝ ℂ D) (k : Fin K) : Prop :=
  ∃ p : ℂ, Complex.normSq p = 1 ∧ ∀ d, rd θ.mode d = p * a k d

/-- `get_pca` honours its contract on every weighted scatter matrix of the data -/
def PcaOn {N D : Nat} (pca : Tab D (Tab D ℂ) → Tab D ℂ × ℝ) (z : Fin N → Fin D → ℂ) : Prop :=
  ∀ w : Fin N → ℝ, PcaContract (watsonScatter w z) (pca (watsonScatter w z))

/-- share of the weight `γ k · s` of class `k` that sits on the observations of true class `j` (`m_kj`) -/
noncomputable def share {K N : Nat} (c : Fin N → Fin K) (s : Fin N → ℝ) (γ : Fin K → Fin N → ℝ) (k j : Fin K) : ℝ :=
  classMass c (fun n => γ k n * s n) j / ∑ n, γ k n * s n

/-- mass dominance: class `k`'s own observations carry strictly the largest (and a positive) share of its weight -/
def MassDominant {K N : Nat} (c : Fin N → Fin K) (s : Fin N → ℝ) (γ : Fin K → Fin N → ℝ) : Prop :=
  ∀ k, 0 < share c s γ k k ∧ ∀ j, j ≠ k → share c s γ k j < share c s γ k k

theorem share_hard {K N : Nat} (c : Fin N → Fin K) (s : Fin N → ℝ) (hmass : ∀ k, 0 < ∑ n, hardStart c k n * s n)
    (k j : Fin K) : share c s (hardStart c) k j = if j = k then 1 else 0 := by
  unfold share
  rw [classMass_hard]
  split
  · exact div_self (hmass k).ne'
  · simp

theorem massDominant_hard {K N : Nat} (c : Fin N → Fin K) (s : Fin N → ℝ)
    (hmass : ∀ k, 0 < ∑ n, hardStart c k n * s n) : MassDominant c s (hardStart c) := by
  intro k
  refine ⟨by rw [share_hard c s hmass]; simp, fun j hj => ?_⟩
  rw [share_hard c s hmass, share_hard c s hmass]
  simp [hj]

section watson
variable {K N D : Nat} {a : Fin (K+1) → Fin D → ℂ} {c : Fin N → Fin (K+1)} {z : Fin N → Fin D → ℂ}
  (pca : Tab D (Tab D ℂ) → Tab D ℂ × ℝ) (kinv lnorm : ℝ → ℝ)

/-- **Watson M-step in the scene**: under mass dominance of the weights the fitted mode is the class prototype up to
a unit phase, and the concentration is the spline value at the class's own share -/
theorem watsonMstep_scene (sc : Scene a c z) (hpca : PcaOn pca z) (w aux : Fin N → ℝ) (k : Fin (K+1))
    (hk : 0 < classMass c w k / ∑ n, w n)
    (hdom : ∀ j, j ≠ k → classMass c w j / (∑ n, w n) < classMass c w k / ∑ n, w n) :
    Aligned a (watsonMstep pca kinv lnorm N w aux z) k
      ∧ (watsonMstep pca kinv lnorm N w aux z).kappa = kinv (classMass c w k / ∑ n, w n)
      ∧ (watsonMstep pca kinv lnorm N w aux z).logNorm = lnorm (kinv (classMass c w k / ∑ n, w n)) := by
  obtain ⟨u, hu, hz⟩ := sc.obs
  have hS := watsonScatter_scene a c u hu z hz w
  obtain ⟨h1, h2, -, h4⟩ := top_eigvec_scene sc.ortho (fun j => classMass c w j / ∑ n, w n) (watsonScatter w z) hS k hk hdom
    (pca (watsonScatter w z)) (hpca w)
  refine ⟨⟨_, h2, h4⟩, ?_, ?_⟩
  · simp only [watsonMstep, h1]
  · simp only [watsonMstep, h1]

/-- **Watson E-step ranking in the scene**: with aligned modes the true class is strictly first as soon as the
explicit margin `π_j·exp(−logNorm_j) < π_c·exp(κ_c − logNorm_c)` holds -/
theorem watson_estep_rank (sc : Scene a c z) (tiny : ℝ) (htiny : 0 < tiny)
    (θ : Mixture (Watson ℝ ℂ D) ℝ (K+1) N) (hal : ∀ k, Aligned a (θ.c k) k) (n : Fin N) (j : Fin (K+1))
    (hj : j ≠ c n)
    (hmargin : θ.w j n * Real.exp (-(θ.c j).logNorm)
      < θ.w (c n) n * Real.exp ((θ.c (c n)).kappa - (θ.c (c n)).logNorm)) :
    eStep tiny (watsonFamily D pca kinv lnorm) θ z j n < eStep tiny (watsonFamily D pca kinv lnorm) θ z (c n) n := by
  obtain ⟨u, hu, hz⟩ := sc.obs
  rw [eStep_lt_iff tiny htiny]
  obtain ⟨pj, hpj, hmj⟩ := hal j
  obtain ⟨pc, hpc, hmc⟩ := hal (c n)
  have e1 : (watsonFamily D pca kinv lnorm).logPdf (θ.c j) (z n) = -(θ.c j).logNorm := by
    show watsonLogPdf (θ.c j) (z n) = _
    rw [watsonLogPdf_scene sc.ortho (θ.c j) j (c n) pj (u n) hpj (hu n) hmj (z n) (hz n)]
    simp [Ne.symm hj]
  have e2 : (watsonFamily D pca kinv lnorm).logPdf (θ.c (c n)) (z n) = (θ.c (c n)).kappa - (θ.c (c n)).logNorm := by
    show watsonLogPdf (θ.c (c n)) (z n) = _
    rw [watsonLogPdf_scene sc.ortho (θ.c (c n)) (c n) (c n) pc (u n) hpc (hu n) hmc (z n) (hz n)]
    simp
  rw [e1, e2]
  exact hmargin

/-- strict ranking of the E-step gives the arg-max -/
theorem vargmax_of_strict {K : Nat} (f : Fin (K+1) → ℝ) (k : Fin (K+1)) (h : ∀ j, j ≠ k → f j < f k) :
    vargmax f = k :=
  MasksProof.vargmax_unique f k (fun j => by
    by_cases hj : j = k
    · rw [hj]
    · exact (h j hj).le) (fun j hj => h j (ne_of_lt hj))

/-- the margin of iterate `θ` at observation `n` against class `j` -/
def Margin {K N D : Nat} (c : Fin N → Fin (K+1)) (θ : Mixture (Watson ℝ ℂ D) ℝ (K+1) N) (n : Fin N) (j : Fin (K+1)) :
    Prop :=
  θ.w j n * Real.exp (-(θ.c j).logNorm) < θ.w (c n) n * Real.exp ((θ.c (c n)).kappa - (θ.c (c n)).logNorm)

variable (tiny : ℝ) (rule : WeightRule) (tie : Tying N) (eps : ℝ) (s : Fin N → ℝ)

/-- M-step of the mixture under mass dominance: all modes aligned, concentrations = spline at the own share -/
theorem mStep_aligned (sc : Scene a c z) (hpca : PcaOn pca z) (γ aux : Fin (K+1) → Fin N → ℝ)
    (hdom : MassDominant c s γ) (k : Fin (K+1)) :
    Aligned a ((mStep (watsonFamily D pca kinv lnorm) rule tie eps s z γ aux).c k) k
      ∧ ((mStep (watsonFamily D pca kinv lnorm) rule tie eps s z γ aux).c k).kappa = kinv (share c s γ k k)
      ∧ ((mStep (watsonFamily D pca kinv lnorm) rule tie eps s z γ aux).c k).logNorm
          = lnorm (kinv (share c s γ k k)) := by
  rw [mStep_c]
  exact watsonMstep_scene pca kinv lnorm sc hpca (fun n => γ k n * s n) (aux k) k (hdom k).1 (hdom k).2

end watson

/-! ### a concrete scene (non-vacuity of the hypotheses of the round theorems) -/

/-- standard basis of `ℂ²` as prototypes -/
def a2 : Fin 2 → Fin 2 → ℂ := fun k d => if k = d then 1 else 0

/-- PCA of a real diagonal 2×2 matrix -/
noncomputable def diagPca (S : Tab 2 (Tab 2 ℂ)) : Tab 2 ℂ × ℝ :=
  if (rd2 S 1 1).re ≤ (rd2 S 0 0).re then (tab ![1, 0], (rd2 S 0 0).re) else (tab ![0, 1], (rd2 S 1 1).re)

theorem scene2 : Scene a2 (fun n : Fin 2 => n) a2 := by
  refine ⟨?_, fun _ => 1, fun _ => by simp, fun n d => by simp⟩
  intro j k
  fin_cases j <;> fin_cases k <;> simp [a2]

theorem diagPca_contract (S : Tab 2 (Tab 2 ℂ)) (x : Fin 2 → ℝ)
    (hS : ∀ d e, rd2 S d e = if d = e then ((x d : ℝ) : ℂ) else 0) : PcaContract S (diagPca S) := by
  unfold diagPca
  split
  · next h =>
    rw [hS, hS] at h
    refine ⟨by simp [Fin.sum_univ_two], ?_, ?_⟩
    · intro d; fin_cases d <;> simp [hS]
    · intro v hv
      simp only [Fin.sum_univ_two] at hv
      simp only [Fin.sum_univ_two, hS]
      simp [Complex.normSq_apply] at hv h ⊢
      have e := congrArg (fun t => x 0 * t) hv
      nlinarith [e, mul_nonneg (sub_nonneg.mpr h) (add_nonneg (mul_self_nonneg (v 1).re) (mul_self_nonneg (v 1).im))]
  · next h =>
    rw [hS, hS] at h
    refine ⟨by simp [Fin.sum_univ_two], ?_, ?_⟩
    · intro d; fin_cases d <;> simp [hS]
    · intro v hv
      simp only [Fin.sum_univ_two] at hv
      simp only [Fin.sum_univ_two, hS]
      simp [Complex.normSq_apply] at hv h ⊢
      have e := congrArg (fun t => x 1 * t) hv
      nlinarith [e, mul_nonneg (sub_nonneg.mpr h.le) (add_nonneg (mul_self_nonneg (v 0).re) (mul_self_nonneg (v 0).im))]

theorem pcaOn2 : PcaOn diagPca a2 := by
  intro w
  refine diagPca_contract _ (fun d => w d / (w 0 + w 1)) ?_
  intro d e
  rw [watsonScatter_eq]
  fin_cases d <;> fin_cases e <;> simp [a2, Fin.sum_univ_two]

end PbBss.FixedPoint

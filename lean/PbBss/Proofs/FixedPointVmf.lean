import PbBss.Proofs.FixedPointChain
import PbBss.Proofs.EmVmf
/-! The von Mises–Fisher mixture (`Em.vmfFamily`) in the BALANCED noise-free orthonormal scene: a complete `n`-step
fixed-point theorem by induction over the EM loop `Em.fit` (the vMF analogue of `balanced_chain`).

Scene: real orthonormal prototypes `a`, observations `y n = a (c n)` (already normalised, noise-free), equal class
masses `S > 0`, uniform mixture weights, start `twoLevel c g₀ h₀`.  Every M-step gives all classes the same
concentration and the mean direction `(g·a_k + h·Σ_{j≠k} a_j)/ρ`, `ρ = √(g² + K h²)`; every E-step gives again a
two-level posterior. -/
open PbBss PbBss.Em Finset

namespace PbBss.FixedPoint

/-! ### algebra of two-level coefficient vectors on orthonormal prototypes -/

theorem sum_lev {K : Nat} (k : Fin (K+1)) (G H : ℝ) : ∑ j : Fin (K+1), (if j = k then G else H) = G + K * H := by
  have e : ∀ j : Fin (K+1), (if j = k then G else H) = H + (if j = k then G - H else 0) := by
    intro j; split <;> ring
  simp only [e, Finset.sum_add_distrib, Finset.sum_ite_eq', Finset.mem_univ, if_true]
  simp
  ring

theorem sum_lev' {K : Nat} (k : Fin (K+1)) (G H : ℝ) : ∑ j : Fin (K+1), (if k = j then G else H) = G + K * H := by
  rw [← sum_lev k G H]
  exact Finset.sum_congr rfl fun j _ => by simp only [eq_comm]

/-- `⟨a_i, Σ_j m_j a_j⟩ = m_i` -/
theorem inner_comb {K D : Nat} {a : Fin K → Fin D → ℝ} (ha : OrthoProtoR a) (m : Fin K → ℝ) (i : Fin K) :
    ∑ d, a i d * (∑ j, m j * a j d) = m i := by
  simp only [Finset.mul_sum]
  rw [Finset.sum_comm]
  have e : ∀ j, ∑ d, a i d * (m j * a j d) = m j * (if i = j then 1 else 0) := by
    intro j
    rw [← ha i j, Finset.mul_sum]
    exact Finset.sum_congr rfl fun d _ => by ring
  simp only [e]
  simp

/-- `‖Σ_j m_j a_j‖² = Σ_j m_j²` -/
theorem normSq_comb {K D : Nat} {a : Fin K → Fin D → ℝ} (ha : OrthoProtoR a) (m : Fin K → ℝ) :
    ∑ d, (∑ j, m j * a j d) * (∑ j, m j * a j d) = ∑ j, m j * m j := by
  have e : ∀ d, (∑ i, m i * a i d) * (∑ j, m j * a j d) = ∑ i, m i * (a i d * ∑ j, m j * a j d) := by
    intro d
    rw [Finset.sum_mul]
    exact Finset.sum_congr rfl fun i _ => by ring
  simp only [e]
  rw [Finset.sum_comm]
  refine Finset.sum_congr rfl fun i _ => ?_
  rw [← Finset.mul_sum, inner_comb ha]

/-- the resultant of noise-free observations regroups by class -/
theorem resultant_scene {K N D : Nat} (a : Fin K → Fin D → ℝ) (c : Fin N → Fin K) (y : Fin N → Fin D → ℝ)
    (hy : ∀ n d, y n d = a (c n) d) (w : Fin N → ℝ) (d : Fin D) :
    ∑ n, w n * y n d = ∑ j, classMass c w j * a j d := by
  simp only [hy]
  rw [sum_by_class c (fun n j => w n * a j d)]
  refine Finset.sum_congr rfl fun j _ => ?_
  unfold classMass
  rw [Finset.sum_mul]
  refine Finset.sum_congr rfl fun n _ => ?_
  split <;> simp

/-- total weight of a two-level affiliation on classes of equal mass `S` -/
theorem twoLevel_total {K N : Nat} (c : Fin N → Fin (K+1)) (s : Fin N → ℝ) (S : ℝ)
    (hbal : ∀ k, classMass c s k = S) (g h : ℝ) (k : Fin (K+1)) :
    ∑ n, twoLevel c g h k n * s n = (g + K * h) * S := by
  unfold twoLevel
  rw [← classMass_sum c]
  simp only [classMass_two_level, hbal]
  rw [← Finset.sum_mul, sum_lev]

/-- length of the two-level coefficient vector: `ρ = √(g² + K h²)` -/
noncomputable def rho (K : Nat) (g h : ℝ) : ℝ := Real.sqrt (g * g + K * (h * h))

/-- the concentration `VonMisesFisherTrainer._fit` computes from the mean resultant length `q`
(clip to 1, Banerjee's approximation, clip to `[lo, hi]`) -/
noncomputable def vmfKappa (D : Nat) (lo hi q : ℝ) : ℝ :=
  let rbar : ℝ := if q < 1 then q else 1
  let c : ℝ := (rbar * (D : ℝ) - rbar * rbar * rbar) / (1 - rbar * rbar)
  let c1 : ℝ := if c < lo then lo else c
  if hi < c1 then hi else c1

theorem vmfKappa_range (D : Nat) (lo hi q : ℝ) (hlh : lo ≤ hi) : lo ≤ vmfKappa D lo hi q ∧ vmfKappa D lo hi q ≤ hi := by
  simp only [vmfKappa]
  split_ifs <;> constructor <;> linarith

/-- TOTALISATION REMARK.  At mean resultant length exactly 1 (hard start on noise-free data) Banerjee's quotient is
`(D−1)/0`: `0` in `ℝ` (then clipped UP to `lo`), `+inf` in floating point (then clipped DOWN to `hi`).  The model over
`ℝ` and the code therefore disagree on this one value; no theorem of this file uses it — only `vmfKappa_range`. -/
theorem vmfKappa_one (D : Nat) (lo hi : ℝ) (hlo : 0 < lo) (hlh : lo ≤ hi) : vmfKappa D lo hi 1 = lo := by
  simp only [vmfKappa, lt_irrefl, if_false, mul_one, sub_self, div_zero, if_pos hlo, if_neg (not_lt.mpr hlh)]

/-- the three fields of the vMF M-step in `Finset.sum` form -/
theorem vmfMstep_fields {N D : Nat} (lnorm : ℝ → ℝ) (lo hi tinyV : ℝ) (w aux : Fin N → ℝ) (y : Fin N → Fin D → ℝ) :
    (∀ d, rd (vmfMstep lnorm lo hi tinyV N w aux y).mean d
        = (∑ n, w n * y n d) / max (Real.sqrt (∑ d, (∑ n, w n * y n d) * (∑ n, w n * y n d))) tinyV)
      ∧ (vmfMstep lnorm lo hi tinyV N w aux y).kappa
        = vmfKappa D lo hi (Real.sqrt (∑ d, (∑ n, w n * y n d) * (∑ n, w n * y n d)) / ∑ n, w n)
      ∧ (vmfMstep lnorm lo hi tinyV N w aux y).logNorm = lnorm (vmfMstep lnorm lo hi tinyV N w aux y).kappa := by
  refine ⟨fun d => ?_, ?_, rfl⟩
  · simp only [vmfMstep, rd_tab, vsum_eq_sum, transc_sqrt_real]
  · simp only [vmfMstep, vmfKappa, rd_tab, vsum_eq_sum, transc_sqrt_real]

theorem rho_sq (K : Nat) (g h : ℝ) : rho K g h * rho K g h = g * g + K * (h * h) :=
  Real.mul_self_sqrt (add_nonneg (mul_self_nonneg g) (mul_nonneg (Nat.cast_nonneg K) (mul_self_nonneg h)))

theorem rho_pos (K : Nat) (g h : ℝ) (hg : 0 < g) : 0 < rho K g h :=
  Real.sqrt_pos.mpr
    (add_pos_of_pos_of_nonneg (mul_pos hg hg) (mul_nonneg (Nat.cast_nonneg K) (mul_self_nonneg h)))

/-- Cauchy–Schwarz: a two-level vector of total `g + K h = 1` has length at least `1/√(K+1)` -/
theorem rho_lower (K : Nat) (g h : ℝ) (hgh : g + K * h = 1) : 1 / Real.sqrt ((K+1 : ℕ) : ℝ) ≤ rho K g h := by
  have hK : (0:ℝ) < ((K+1 : ℕ) : ℝ) := by positivity
  have hr : 0 < Real.sqrt ((K+1 : ℕ) : ℝ) := Real.sqrt_pos.mpr hK
  unfold rho
  apply Real.le_sqrt_of_sq_le
  rw [div_pow, one_pow, Real.sq_sqrt hK.le, div_le_iff₀ hK]
  push_cast
  have : g = 1 - K * h := by linarith
  subst this
  nlinarith [sq_nonneg (1 - (K:ℝ) * h - h), sq_nonneg h, (Nat.cast_nonneg K : (0:ℝ) ≤ K)]

section mstep
variable {K N D : Nat} {a : Fin (K+1) → Fin D → ℝ} {c : Fin N → Fin (K+1)} {y : Fin N → Fin D → ℝ}

/-- **vMF M-step on a two-level affiliation** in the balanced noise-free orthonormal scene: mean direction
`(g·a_k + h·Σ_{j≠k} a_j)/ρ`, concentration = the clipped Banerjee value of `ρ` — the same for every class `k`.
Guard: the resultant `S·ρ` is not floored. -/
theorem vmfMstep_twoLevel (ha : OrthoProtoR a) (hy : ∀ n d, y n d = a (c n) d) (lnorm : ℝ → ℝ) (lo hi tinyV : ℝ)
    (s : Fin N → ℝ) (S : ℝ) (hS : 0 < S) (hbal : ∀ k, classMass c s k = S) (g h : ℝ) (hgh : g + K * h = 1)
    (hg : 0 < g) (hguard : tinyV ≤ S * rho K g h) (k : Fin (K+1)) (aux : Fin N → ℝ) :
    (∀ d, rd (vmfMstep lnorm lo hi tinyV N (fun n => twoLevel c g h k n * s n) aux y).mean d
        = (∑ j, (if j = k then g else h) * a j d) / rho K g h)
      ∧ (vmfMstep lnorm lo hi tinyV N (fun n => twoLevel c g h k n * s n) aux y).kappa = vmfKappa D lo hi (rho K g h)
      ∧ (vmfMstep lnorm lo hi tinyV N (fun n => twoLevel c g h k n * s n) aux y).logNorm
          = lnorm (vmfKappa D lo hi (rho K g h)) := by
  have hρ := rho_pos K g h hg
  obtain ⟨hm, hκ, hl⟩ := vmfMstep_fields lnorm lo hi tinyV (fun n => twoLevel c g h k n * s n) aux y
  have hr : ∀ d, ∑ n, twoLevel c g h k n * s n * y n d = S * ∑ j, (if j = k then g else h) * a j d := by
    intro d
    rw [resultant_scene a c y hy]
    unfold twoLevel
    simp only [classMass_two_level, hbal]
    rw [Finset.mul_sum]
    exact Finset.sum_congr rfl fun j _ => by ring
  have hn : Real.sqrt (∑ d, (∑ n, twoLevel c g h k n * s n * y n d) * (∑ n, twoLevel c g h k n * s n * y n d))
      = S * rho K g h := by
    simp only [hr]
    have e : ∀ d, (S * ∑ j, (if j = k then g else h) * a j d) * (S * ∑ j, (if j = k then g else h) * a j d)
        = S * S * ((∑ j, (if j = k then g else h) * a j d) * (∑ j, (if j = k then g else h) * a j d)) := by
      intro d; ring
    simp only [e]
    rw [← Finset.mul_sum, normSq_comb ha]
    have e2 : ∀ j : Fin (K+1), (if j = k then g else h) * (if j = k then g else h) = if j = k then g * g else h * h := by
      intro j; split <;> rfl
    simp only [e2]
    rw [sum_lev, ← rho_sq K g h]
    rw [show S * S * (rho K g h * rho K g h) = (S * rho K g h) * (S * rho K g h) by ring]
    exact Real.sqrt_mul_self (mul_pos hS hρ).le
  have htot : ∑ n, twoLevel c g h k n * s n = S := by
    rw [twoLevel_total c s S hbal, hgh, one_mul]
  have hκ' : (vmfMstep lnorm lo hi tinyV N (fun n => twoLevel c g h k n * s n) aux y).kappa
      = vmfKappa D lo hi (rho K g h) := by
    rw [hκ, hn, htot, mul_div_cancel_left₀ _ hS.ne']
  refine ⟨fun d => ?_, hκ', by rw [hl, hκ']⟩
  rw [hm, hn, max_eq_left hguard, hr, mul_div_mul_left _ _ hS.ne']

end mstep

/-! ### the balanced invariant and the E-step -/
section balanced
variable {K N D : Nat} {a : Fin (K+1) → Fin D → ℝ} {c : Fin N → Fin (K+1)} {y : Fin N → Fin D → ℝ}

/-- all mean directions are the normalised two-level combinations `(g·a_k + h·Σ_{j≠k} a_j)/ρ` of the prototypes, one
common concentration and log-normaliser -/
def VBalanced (a : Fin (K+1) → Fin D → ℝ) (θ : Mixture (Vmf ℝ D) ℝ (K+1) N) (g h κ ℓ : ℝ) : Prop :=
  ∀ k, (∀ d, rd (θ.c k).mean d = (∑ j, (if j = k then g else h) * a j d) / rho K g h)
    ∧ (θ.c k).kappa = κ ∧ (θ.c k).logNorm = ℓ

/-- inner product of a balanced mean direction with a prototype: `g/ρ` on its own, `h/ρ` on the others -/
theorem vbalanced_inner (ha : OrthoProtoR a) (θ : Mixture (Vmf ℝ D) ℝ (K+1) N) (g h κ ℓ : ℝ)
    (hb : VBalanced a θ g h κ ℓ) (k i : Fin (K+1)) :
    ∑ d, a i d * rd (θ.c k).mean d = (if i = k then g else h) / rho K g h := by
  simp only [(hb k).1, mul_div_assoc']
  rw [← Finset.sum_div, inner_comb ha (fun j => if j = k then g else h) i]

/-- the vMF log-density of a balanced model at a noise-free observation -/
theorem vmfLogPdf_balanced (ha : OrthoProtoR a) (hy : ∀ n d, y n d = a (c n) d)
    (θ : Mixture (Vmf ℝ D) ℝ (K+1) N) (g h κ ℓ : ℝ) (hb : VBalanced a θ g h κ ℓ) (k : Fin (K+1)) (n : Fin N) :
    vmfLogPdf (θ.c k) (y n) = κ * ((if c n = k then g else h) / rho K g h) - ℓ := by
  simp only [vmfLogPdf, vsum_eq_sum, hy]
  rw [vbalanced_inner ha θ g h κ ℓ hb, (hb k).2.1, (hb k).2.2]

/-- the posterior of a balanced model with uniform weights is again two-level -/
theorem eStep_vbalanced (ha : OrthoProtoR a) (hy : ∀ n d, y n d = a (c n) d) (lnorm : ℝ → ℝ) (lo hi tinyV : ℝ)
    (tiny : ℝ) (htiny : 0 < tiny) (ht : tiny ≤ 1 / ((K+1 : ℕ) : ℝ))
    (θ : Mixture (Vmf ℝ D) ℝ (K+1) N) (g h κ ℓ : ℝ) (hb : VBalanced a θ g h κ ℓ)
    (hw : ∀ k n, θ.w k n = 1 / ((K+1 : ℕ) : ℝ)) (k : Fin (K+1)) (n : Fin N) :
    eStep tiny (vmfFamily D lnorm lo hi tinyV) θ y k n
      = if c n = k
        then Real.exp (κ * (g / rho K g h))
          / (Real.exp (κ * (g / rho K g h)) + K * Real.exp (κ * (h / rho K g h)))
        else Real.exp (κ * (h / rho K g h))
          / (Real.exp (κ * (g / rho K g h)) + K * Real.exp (κ * (h / rho K g h))) := by
  rw [eStep_bayes tiny htiny _ θ y (fun k n => by rw [hw]; exact ht)]
  set Eg := Real.exp (κ * (g / rho K g h)) with hEg
  set Eh := Real.exp (κ * (h / rho K g h)) with hEh
  have hexp : ∀ j, Real.exp ((vmfFamily D lnorm lo hi tinyV).logPdf (θ.c j) (y n))
      = (if c n = j then Eg else Eh) * Real.exp (-ℓ) := by
    intro j
    show Real.exp (vmfLogPdf (θ.c j) (y n)) = _
    rw [vmfLogPdf_balanced ha hy θ g h κ ℓ hb, sub_eq_add_neg, Real.exp_add]
    split <;> rfl
  simp only [hw, hexp]
  have hsum : ∑ j : Fin (K+1), 1 / ((K+1 : ℕ) : ℝ) * ((if c n = j then Eg else Eh) * Real.exp (-ℓ))
      = 1 / ((K+1 : ℕ) : ℝ) * Real.exp (-ℓ) * (Eg + K * Eh) := by
    rw [← sum_lev' (c n) Eg Eh, Finset.mul_sum]
    exact Finset.sum_congr rfl fun j _ => by ring
  rw [hsum]
  have h1 : (0:ℝ) < 1 / ((K+1 : ℕ) : ℝ) := by positivity
  have h2 : 0 < Real.exp (-ℓ) := Real.exp_pos _
  have h3 : 0 < Eg + K * Eh := by positivity
  split <;> field_simp

/-- the next two-level posterior `(g', h')` computed from `(g, h)` by one M-step and one E-step -/
noncomputable def vmfNext (D K : Nat) (lo hi : ℝ) (p : ℝ × ℝ) : ℝ × ℝ :=
  let ρ := rho K p.1 p.2
  let κ := vmfKappa D lo hi ρ
  (Real.exp (κ * (p.1 / ρ)) / (Real.exp (κ * (p.1 / ρ)) + K * Real.exp (κ * (p.2 / ρ))),
   Real.exp (κ * (p.2 / ρ)) / (Real.exp (κ * (p.1 / ρ)) + K * Real.exp (κ * (p.2 / ρ))))

/-- the two posterior levels the `i`-th M-step (`i = 0, 1, …`) is computed from -/
noncomputable def levSeq (D K : Nat) (lo hi g₀ h₀ : ℝ) : Nat → ℝ × ℝ
  | 0 => (g₀, h₀)
  | i+1 => vmfNext D K lo hi (levSeq D K lo hi g₀ h₀ i)

/-- a proper two-level posterior: sums to one, true class strictly the largest -/
def LevOk (K : Nat) (p : ℝ × ℝ) : Prop := p.1 + K * p.2 = 1 ∧ 0 ≤ p.2 ∧ p.2 < p.1

theorem LevOk.pos {K : Nat} {p : ℝ × ℝ} (h : LevOk K p) : 0 < p.1 := lt_of_le_of_lt h.2.1 h.2.2

theorem levOk_next (D K : Nat) (lo hi : ℝ) (hlo : 0 < lo) (hlh : lo ≤ hi) (p : ℝ × ℝ) (hp : LevOk K p) :
    LevOk K (vmfNext D K lo hi p) := by
  have hρ := rho_pos K p.1 p.2 hp.pos
  have hκ : 0 < vmfKappa D lo hi (rho K p.1 p.2) := lt_of_lt_of_le hlo (vmfKappa_range D lo hi _ hlh).1
  have hlt : vmfKappa D lo hi (rho K p.1 p.2) * (p.2 / rho K p.1 p.2)
      < vmfKappa D lo hi (rho K p.1 p.2) * (p.1 / rho K p.1 p.2) :=
    mul_lt_mul_of_pos_left (div_lt_div_of_pos_right hp.2.2 hρ) hκ
  have hE := Real.exp_lt_exp.mpr hlt
  have hEh := Real.exp_pos (vmfKappa D lo hi (rho K p.1 p.2) * (p.2 / rho K p.1 p.2))
  have hEg := Real.exp_pos (vmfKappa D lo hi (rho K p.1 p.2) * (p.1 / rho K p.1 p.2))
  have hden : 0 < Real.exp (vmfKappa D lo hi (rho K p.1 p.2) * (p.1 / rho K p.1 p.2))
      + K * Real.exp (vmfKappa D lo hi (rho K p.1 p.2) * (p.2 / rho K p.1 p.2)) := by positivity
  refine ⟨?_, ?_, ?_⟩
  · simp only [vmfNext]
    field_simp
  · simp only [vmfNext]
    positivity
  · simp only [vmfNext]
    exact div_lt_div_of_pos_right hE hden

theorem levOk_seq (D K : Nat) (lo hi : ℝ) (hlo : 0 < lo) (hlh : lo ≤ hi) (g₀ h₀ : ℝ) (h0 : LevOk K (g₀, h₀)) (i : Nat) :
    LevOk K (levSeq D K lo hi g₀ h₀ i) := by
  induction i with
  | zero => exact h0
  | succ i ih => exact levOk_next D K lo hi hlo hlh _ ih

/-- with at least two classes and a positive leak the mean resultant length is strictly below 1: Banerjee's quotient
`(r̄·D − r̄³)/(1 − r̄²)` is then a genuine division -/
theorem rho_lt_one (K : Nat) (hK : 1 ≤ K) (p : ℝ × ℝ) (hp : LevOk K p) (hh : 0 < p.2) : rho K p.1 p.2 < 1 := by
  have hK' : (1:ℝ) ≤ K := by exact_mod_cast hK
  have hg := hp.pos
  have hρ := rho_pos K p.1 p.2 hg
  have hsq := rho_sq K p.1 p.2
  have h1 : p.1 * p.1 + K * (p.2 * p.2) < 1 := by
    have e : (1:ℝ) = (p.1 + K * p.2) * (p.1 + K * p.2) := by rw [hp.1]; ring
    rw [e]
    have : 0 < (K:ℝ) * (p.1 * p.2) := mul_pos (by linarith) (mul_pos hg hh)
    nlinarith [mul_nonneg (mul_nonneg (by linarith : (0:ℝ) ≤ K) (by linarith : (0:ℝ) ≤ (K:ℝ) - 1)) (mul_self_nonneg p.2)]
  nlinarith

/-- every iterate after the first has a positive leak (so the division by zero at `r̄ = 1` can only occur in the very
first M-step, and only from the hard start `h₀ = 0`) -/
theorem levSeq_succ_pos (D K : Nat) (lo hi g₀ h₀ : ℝ) (i : Nat) : 0 < (levSeq D K lo hi g₀ h₀ (i+1)).2 := by
  simp only [levSeq, vmfNext]
  positivity

theorem rho_levSeq_lt_one (D K : Nat) (hK : 1 ≤ K) (lo hi : ℝ) (hlo : 0 < lo) (hlh : lo ≤ hi) (g₀ h₀ : ℝ)
    (h0 : LevOk K (g₀, h₀)) (i : Nat) (hi0 : 0 < h₀ ∨ 1 ≤ i) :
    rho K (levSeq D K lo hi g₀ h₀ i).1 (levSeq D K lo hi g₀ h₀ i).2 < 1 := by
  apply rho_lt_one K hK _ (levOk_seq D K lo hi hlo hlh g₀ h₀ h0 i)
  cases i with
  | zero =>
    rcases hi0 with h | h
    · exact h
    · omega
  | succ i => exact levSeq_succ_pos D K lo hi g₀ h₀ i

end balanced

/-! ### induction over the EM loop -/
section chain
variable {K N D : Nat} {a : Fin (K+1) → Fin D → ℝ} {c : Fin N → Fin (K+1)} {y : Fin N → Fin D → ℝ}
  (lnorm : ℝ → ℝ) (lo hi tinyV : ℝ) (tiny : ℝ) (rule : WeightRule) (tie : Tying N) (eps : ℝ) (s : Fin N → ℝ)

theorem uniform_w_gen {Θ Y : Type} (fam : Family Θ Y ℝ) (y : Fin N → Y) (htie : tie.uniform = true)
    (γ aux : Fin (K+1) → Fin N → ℝ) (k : Fin (K+1)) (n : Fin N) :
    (mStep fam rule tie eps s y γ aux).w k n = 1 / ((K+1 : ℕ) : ℝ) := by
  simp [Mixture.w, mStep, mWeight, htie]

theorem fit_w_uniform_gen {Θ Y : Type} (fam : Family Θ Y ℝ) (y : Fin N → Y) (htie : tie.uniform = true)
    (γ₀ : Fin (K+1) → Fin N → ℝ) (i : Nat) (k : Fin (K+1)) (n : Fin N) :
    (fit tiny fam rule tie eps s y (i+1) γ₀).w k n = 1 / ((K+1 : ℕ) : ℝ) := by
  obtain ⟨aux, haux⟩ := fit_eq_mStep tiny fam rule tie eps s y γ₀ i
  rw [haux]
  exact uniform_w_gen rule tie eps s fam y htie _ aux k n

/-- M-step of the mixture on a proper two-level affiliation: balanced, concentration = clipped Banerjee value of `ρ` -/
theorem mStep_vbalanced (ha : OrthoProtoR a) (hy : ∀ n d, y n d = a (c n) d)
    (S : ℝ) (hS : 0 < S) (hbal : ∀ k, classMass c s k = S) (hguard : tinyV ≤ S / Real.sqrt ((K+1 : ℕ) : ℝ))
    (p : ℝ × ℝ) (hp : LevOk K p) (aux : Fin (K+1) → Fin N → ℝ) :
    VBalanced a (mStep (vmfFamily D lnorm lo hi tinyV) rule tie eps s y (twoLevel c p.1 p.2) aux) p.1 p.2
      (vmfKappa D lo hi (rho K p.1 p.2)) (lnorm (vmfKappa D lo hi (rho K p.1 p.2))) := by
  intro k
  rw [mStep_c]
  have hg : tinyV ≤ S * rho K p.1 p.2 := by
    refine le_trans hguard ?_
    rw [div_eq_mul_one_div]
    exact mul_le_mul_of_nonneg_left (rho_lower K p.1 p.2 hp.1) hS.le
  exact vmfMstep_twoLevel ha hy lnorm lo hi tinyV s S hS hbal p.1 p.2 hp.1 hp.pos hg k (aux k)

/-- **the balanced invariant holds at every iterate of `Em.fit`** (vMF mixture, balanced noise-free orthonormal scene,
two-level start): induction over the EM loop -/
theorem vmf_balanced_chain (ha : OrthoProtoR a) (hy : ∀ n d, y n d = a (c n) d) (hlo : 0 < lo) (hlh : lo ≤ hi)
    (htiny : 0 < tiny) (ht : tiny ≤ 1 / ((K+1 : ℕ) : ℝ)) (htie : tie.uniform = true)
    (S : ℝ) (hS : 0 < S) (hbal : ∀ k, classMass c s k = S) (hguard : tinyV ≤ S / Real.sqrt ((K+1 : ℕ) : ℝ))
    (g₀ h₀ : ℝ) (h0 : LevOk K (g₀, h₀)) (i : Nat) :
    VBalanced a (fit tiny (vmfFamily D lnorm lo hi tinyV) rule tie eps s y (i+1) (twoLevel c g₀ h₀))
      (levSeq D K lo hi g₀ h₀ i).1 (levSeq D K lo hi g₀ h₀ i).2
      (vmfKappa D lo hi (rho K (levSeq D K lo hi g₀ h₀ i).1 (levSeq D K lo hi g₀ h₀ i).2))
      (lnorm (vmfKappa D lo hi (rho K (levSeq D K lo hi g₀ h₀ i).1 (levSeq D K lo hi g₀ h₀ i).2))) := by
  induction i with
  | zero =>
    rw [fit_one]
    exact mStep_vbalanced lnorm lo hi tinyV rule tie eps s ha hy S hS hbal hguard (g₀, h₀) h0 _
  | succ i ih =>
    rw [fit_succ, emStep_eq]
    have hγ : eStep tiny (vmfFamily D lnorm lo hi tinyV)
        (fit tiny (vmfFamily D lnorm lo hi tinyV) rule tie eps s y (i+1) (twoLevel c g₀ h₀)) y
        = twoLevel c (levSeq D K lo hi g₀ h₀ (i+1)).1 (levSeq D K lo hi g₀ h₀ (i+1)).2 := by
      funext k n
      rw [eStep_vbalanced ha hy lnorm lo hi tinyV tiny htiny ht _ _ _ _ _ ih
        (fit_w_uniform_gen tiny rule tie eps s _ y htie (twoLevel c g₀ h₀) i) k n]
      rfl
    rw [hγ]
    exact mStep_vbalanced lnorm lo hi tinyV rule tie eps s ha hy S hS hbal hguard _
      (levOk_seq D K lo hi hlo hlh g₀ h₀ h0 (i+1)) _

/-- a balanced model with a positive concentration and uniform weights ranks the true class strictly first -/
theorem vbalanced_argmax (ha : OrthoProtoR a) (hy : ∀ n d, y n d = a (c n) d) (htiny : 0 < tiny)
    (θ : Mixture (Vmf ℝ D) ℝ (K+1) N) (g h κ ℓ : ℝ) (hb : VBalanced a θ g h κ ℓ) (hg : 0 < g) (hlt : h < g)
    (hκ : 0 < κ) (hw : ∀ k n, θ.w k n = 1 / ((K+1 : ℕ) : ℝ)) (n : Fin N) :
    vargmax (fun k => eStep tiny (vmfFamily D lnorm lo hi tinyV) θ y k n) = c n := by
  refine vargmax_of_strict _ (c n) fun j hj => ?_
  rw [eStep_lt_iff tiny htiny, hw, hw]
  have h1 : (0:ℝ) < 1 / ((K+1 : ℕ) : ℝ) := by positivity
  refine mul_lt_mul_of_pos_left (Real.exp_lt_exp.mpr ?_) h1
  show vmfLogPdf (θ.c j) (y n) < vmfLogPdf (θ.c (c n)) (y n)
  rw [vmfLogPdf_balanced ha hy θ g h κ ℓ hb, vmfLogPdf_balanced ha hy θ g h κ ℓ hb, if_pos rfl, if_neg (Ne.symm hj)]
  have := mul_lt_mul_of_pos_left (div_lt_div_of_pos_right hlt (rho_pos K g h hg)) hκ
  linarith

/-- a balanced mean direction points at its own prototype, and has unit length -/
theorem vbalanced_points (ha : OrthoProtoR a) (θ : Mixture (Vmf ℝ D) ℝ (K+1) N) (g h κ ℓ : ℝ)
    (hb : VBalanced a θ g h κ ℓ) (hg : 0 < g) (hlt : h < g) (k : Fin (K+1)) :
    (∀ j, j ≠ k → ∑ d, rd (θ.c k).mean d * a j d < ∑ d, rd (θ.c k).mean d * a k d)
      ∧ ∑ d, rd (θ.c k).mean d * rd (θ.c k).mean d = 1 := by
  have hρ := rho_pos K g h hg
  have e : ∀ i, ∑ d, rd (θ.c k).mean d * a i d = (if i = k then g else h) / rho K g h := by
    intro i
    rw [← vbalanced_inner ha θ g h κ ℓ hb k i]
    exact Finset.sum_congr rfl fun d _ => mul_comm _ _
  refine ⟨fun j hj => ?_, ?_⟩
  · rw [e, e, if_pos rfl, if_neg hj]
    exact div_lt_div_of_pos_right hlt hρ
  · have e1 : ∀ d, rd (θ.c k).mean d * rd (θ.c k).mean d
        = (∑ j, (if j = k then g else h) * a j d) * (∑ j, (if j = k then g else h) * a j d)
          / (rho K g h * rho K g h) := by
      intro d; rw [(hb k).1 d, div_mul_div_comm]
    simp only [e1]
    rw [← Finset.sum_div, normSq_comb ha]
    have e2 : ∀ j : Fin (K+1), (if j = k then g else h) * (if j = k then g else h) = if j = k then g * g else h * h := by
      intro j; split <;> rfl
    simp only [e2]
    rw [sum_lev, rho_sq]
    exact div_self (by rw [← rho_sq]; exact (mul_pos hρ hρ).ne')

end chain

/-! ### the theorems -/
section main
variable {K N D : Nat} {a : Fin (K+1) → Fin D → ℝ} {c : Fin N → Fin (K+1)} {y : Fin N → Fin D → ℝ}

/-- **the true partition is a stable fixed point for EVERY number of iterations (vMFMM, balanced scene)**.
Real orthonormal prototypes, noise-free normalised observations `y n = a (c n)`, uniform mixture weights
(`weight_constant_axis = -2`), all classes of equal positive saliency mass `S`, start = the true partition blurred by a
uniform leak that keeps the true class the largest (`twoLevel c g₀ h₀`, `g₀ + K·h₀ = 1`, `0 ≤ h₀ < g₀`; hard start:
`g₀ = 1`, `h₀ = 0`), concentration clipping range `0 < lo ≤ hi` (`min_concentration = 1e-10`).
Guards: posterior denominator clamp inactive (`tiny ≤ 1/(K+1)`), resultant not floored (`tinyV ≤ S/√(K+1)`; the
resultant of every iterate has length `S·ρ ≥ S/√(K+1)`).
Then for every `n ≥ 1`, with `(g, h) = levSeq … (n-1)` the two posterior levels the last M-step was computed from
(`g + K h = 1`, `0 ≤ h < g`) and `ρ = √(g² + K h²)`, the model `θ = fit n γ₀` has
* mean directions `μ_k = (g·a_k + h·Σ_{j≠k} a_j)/ρ`, of unit length, with `μ_k·a_j < μ_k·a_k` for `j ≠ k`,
* one common concentration `κ = vmfKappa D lo hi ρ ∈ [lo, hi]` and log-normaliser `lnorm κ`,
* arg-max of its E-step = the true class at every observation.
Proved by induction over the EM loop — no trajectory hypothesis.  Only `lo ≤ κ ≤ hi` and "κ is the same for all
classes" are used about the concentration (so the value of Banerjee's quotient at `r̄ = 1`, a division by zero, is
immaterial; by `rho_levSeq_lt_one` it can be reached only in the first M-step of the hard start, cf. `vmfKappa_one`).
`1 ≤ K` is not needed (for one class the statement is trivial). -/
theorem fixed_point_vmf_balanced (ha : OrthoProtoR a) (hy : ∀ n d, y n d = a (c n) d) (lnorm : ℝ → ℝ)
    (lo hi tinyV : ℝ) (hlo : 0 < lo) (hlh : lo ≤ hi) (tiny : ℝ) (htiny : 0 < tiny) (ht : tiny ≤ 1 / ((K+1 : ℕ) : ℝ))
    (rule : WeightRule) (tie : Tying N) (htie : tie.uniform = true) (eps : ℝ) (s : Fin N → ℝ) (S : ℝ) (hS : 0 < S)
    (hbal : ∀ k, classMass c s k = S) (hguard : tinyV ≤ S / Real.sqrt ((K+1 : ℕ) : ℝ))
    (g₀ h₀ : ℝ) (hgh : g₀ + K * h₀ = 1) (hh0 : 0 ≤ h₀) (hlt : h₀ < g₀) (n : Nat) (hn : 1 ≤ n) :
    let fam := vmfFamily D lnorm lo hi tinyV
    let θ := fit tiny fam rule tie eps s y n (twoLevel c g₀ h₀)
    let g := (levSeq D K lo hi g₀ h₀ (n-1)).1
    let h := (levSeq D K lo hi g₀ h₀ (n-1)).2
    let κ := vmfKappa D lo hi (rho K g h)
    (g + K * h = 1 ∧ 0 ≤ h ∧ h < g)
      ∧ (lo ≤ κ ∧ κ ≤ hi)
      ∧ (∀ k, (∀ d, rd (θ.c k).mean d = (∑ j, (if j = k then g else h) * a j d) / rho K g h)
            ∧ (θ.c k).kappa = κ ∧ (θ.c k).logNorm = lnorm κ)
      ∧ (∀ k, (∀ j, j ≠ k → ∑ d, rd (θ.c k).mean d * a j d < ∑ d, rd (θ.c k).mean d * a k d)
            ∧ ∑ d, rd (θ.c k).mean d * rd (θ.c k).mean d = 1)
      ∧ ∀ obs, vargmax (fun k => eStep tiny fam θ y k obs) = c obs := by
  intro fam θ g h κ
  obtain ⟨i, rfl⟩ : ∃ i, n = i + 1 := ⟨n - 1, by omega⟩
  have h0 : LevOk K (g₀, h₀) := ⟨hgh, hh0, hlt⟩
  have hok : LevOk K (levSeq D K lo hi g₀ h₀ i) := levOk_seq D K lo hi hlo hlh g₀ h₀ h0 i
  have hb := vmf_balanced_chain lnorm lo hi tinyV tiny rule tie eps s ha hy hlo hlh htiny ht htie S hS hbal hguard
    g₀ h₀ h0 i
  have hκr := vmfKappa_range D lo hi (rho K g h) hlh
  refine ⟨hok, hκr, hb, fun k => vbalanced_points ha θ g h κ _ hb hok.pos hok.2.2 k, fun obs => ?_⟩
  exact vbalanced_argmax lnorm lo hi tinyV tiny ha hy htiny θ g h κ _ hb hok.pos hok.2.2
    (lt_of_lt_of_le hlo hκr.1) (fit_w_uniform_gen tiny rule tie eps s fam y htie (twoLevel c g₀ h₀) i) obs

/-- the hard start (`γ₀` = one-hot truth) is the case `g₀ = 1`, `h₀ = 0`: arg-max = truth after every number of
iterations -/
theorem fixed_point_vmf_balanced_hard (ha : OrthoProtoR a) (hy : ∀ n d, y n d = a (c n) d) (lnorm : ℝ → ℝ)
    (lo hi tinyV : ℝ) (hlo : 0 < lo) (hlh : lo ≤ hi) (tiny : ℝ) (htiny : 0 < tiny) (ht : tiny ≤ 1 / ((K+1 : ℕ) : ℝ))
    (rule : WeightRule) (tie : Tying N) (htie : tie.uniform = true) (eps : ℝ) (s : Fin N → ℝ) (S : ℝ) (hS : 0 < S)
    (hbal : ∀ k, classMass c s k = S) (hguard : tinyV ≤ S / Real.sqrt ((K+1 : ℕ) : ℝ))
    (n : Nat) (hn : 1 ≤ n) (obs : Fin N) :
    vargmax (fun k => eStep tiny (vmfFamily D lnorm lo hi tinyV)
      (fit tiny (vmfFamily D lnorm lo hi tinyV) rule tie eps s y n (hardStart c)) y k obs) = c obs :=
  (fixed_point_vmf_balanced ha hy lnorm lo hi tinyV hlo hlh tiny htiny ht rule tie htie eps s S hS hbal hguard 1 0
    (by simp) le_rfl one_pos n hn).2.2.2.2 obs

/-- **vMF M-step on the hard true partition** (any class masses): the mean direction of class `k` is EXACTLY its
prototype, the mean resultant length is 1.  Guard: class mass positive and not below the resultant floor. -/
theorem vmfMstep_hard (ha : OrthoProtoR a) (hy : ∀ n d, y n d = a (c n) d) (lnorm : ℝ → ℝ) (lo hi tinyV : ℝ)
    (s : Fin N → ℝ) (k : Fin (K+1)) (hpos : 0 < ∑ n, hardStart c k n * s n)
    (hguard : tinyV ≤ ∑ n, hardStart c k n * s n) (aux : Fin N → ℝ) :
    (∀ d, rd (vmfMstep lnorm lo hi tinyV N (fun n => hardStart c k n * s n) aux y).mean d = a k d)
      ∧ (vmfMstep lnorm lo hi tinyV N (fun n => hardStart c k n * s n) aux y).kappa = vmfKappa D lo hi 1
      ∧ (vmfMstep lnorm lo hi tinyV N (fun n => hardStart c k n * s n) aux y).logNorm
          = lnorm (vmfKappa D lo hi 1) := by
  obtain ⟨hm, hκ, hl⟩ := vmfMstep_fields lnorm lo hi tinyV (fun n => hardStart c k n * s n) aux y
  set m := ∑ n, hardStart c k n * s n with hmdef
  have hr : ∀ d, ∑ n, hardStart c k n * s n * y n d = m * a k d := by
    intro d
    rw [resultant_scene a c y hy]
    simp only [classMass_hard]
    rw [Finset.sum_eq_single k]
    · rw [if_pos rfl]
    · intro j _ hj; simp [hj]
    · simp
  have hn : Real.sqrt (∑ d, (∑ n, hardStart c k n * s n * y n d) * (∑ n, hardStart c k n * s n * y n d)) = m := by
    simp only [hr]
    have e : ∀ d, m * a k d * (m * a k d) = m * m * (a k d * a k d) := by intro d; ring
    simp only [e]
    rw [← Finset.mul_sum, ha k k, if_pos rfl, mul_one]
    exact Real.sqrt_mul_self hpos.le
  have hκ' : (vmfMstep lnorm lo hi tinyV N (fun n => hardStart c k n * s n) aux y).kappa = vmfKappa D lo hi 1 := by
    rw [hκ, hn, div_self hpos.ne']
  refine ⟨fun d => ?_, hκ', by rw [hl, hκ']⟩
  rw [hm, hn, max_eq_left hguard, hr, mul_div_cancel_left₀ _ hpos.ne']

/-- **the true partition survives one EM round (vMFMM), any weight rule / tying, any class masses**.  Hard start on
the truth, every class mass positive and `≥ tinyV`.  Then `θ₁ = fit … 1 γ_true` (the first M-step) has `μ_k = a_k`
EXACTLY and equal concentrations `κ₁ = vmfKappa D lo hi 1 ∈ [lo, hi]`, and the E-step of `θ₁` ranks the true class
strictly first at every observation where the explicit weight margin `π_j < π_c·exp(κ₁)` holds. -/
theorem vmf_round_hard (ha : OrthoProtoR a) (hy : ∀ n d, y n d = a (c n) d) (lnorm : ℝ → ℝ) (lo hi tinyV : ℝ)
    (tiny : ℝ) (htiny : 0 < tiny) (rule : WeightRule) (tie : Tying N) (eps : ℝ) (s : Fin N → ℝ)
    (hmass : ∀ k, 0 < ∑ n, hardStart c k n * s n) (hguard : ∀ k, tinyV ≤ ∑ n, hardStart c k n * s n) :
    let fam := vmfFamily D lnorm lo hi tinyV
    let θ₁ := fit tiny fam rule tie eps s y 1 (hardStart c)
    (∀ k, (∀ d, rd (θ₁.c k).mean d = a k d) ∧ (θ₁.c k).kappa = vmfKappa D lo hi 1
        ∧ (θ₁.c k).logNorm = lnorm (vmfKappa D lo hi 1))
      ∧ (∀ n j, j ≠ c n → θ₁.w j n < θ₁.w (c n) n * Real.exp (vmfKappa D lo hi 1) →
            eStep tiny fam θ₁ y j n < eStep tiny fam θ₁ y (c n) n)
      ∧ ∀ n, (∀ j, j ≠ c n → θ₁.w j n < θ₁.w (c n) n * Real.exp (vmfKappa D lo hi 1)) →
            vargmax (fun k => eStep tiny fam θ₁ y k n) = c n := by
  intro fam θ₁
  have hpar : ∀ k, (∀ d, rd (θ₁.c k).mean d = a k d) ∧ (θ₁.c k).kappa = vmfKappa D lo hi 1
      ∧ (θ₁.c k).logNorm = lnorm (vmfKappa D lo hi 1) := by
    intro k
    have hθ : θ₁.c k = vmfMstep lnorm lo hi tinyV N (fun n => hardStart c k n * s n) (fun _ => 1) y :=
      mStep_c fam rule tie eps s y (hardStart c) (fun _ _ => 1) k
    rw [hθ]
    exact vmfMstep_hard ha hy lnorm lo hi tinyV s k (hmass k) (hguard k) _
  have hlp : ∀ n k, fam.logPdf (θ₁.c k) (y n)
      = vmfKappa D lo hi 1 * (if c n = k then 1 else 0) - lnorm (vmfKappa D lo hi 1) := by
    intro n k
    show vmfLogPdf (θ₁.c k) (y n) = _
    simp only [vmfLogPdf, vsum_eq_sum, hy, (hpar k).1, (hpar k).2.1, (hpar k).2.2, ha (c n) k]
  have hrank : ∀ n j, j ≠ c n → θ₁.w j n < θ₁.w (c n) n * Real.exp (vmfKappa D lo hi 1) →
      eStep tiny fam θ₁ y j n < eStep tiny fam θ₁ y (c n) n := by
    intro n j hj hm
    rw [eStep_lt_iff tiny htiny, hlp, hlp, if_pos rfl, if_neg (Ne.symm hj), mul_one, mul_zero, zero_sub,
      sub_eq_add_neg, Real.exp_add, ← mul_assoc]
    exact mul_lt_mul_of_pos_right hm (Real.exp_pos _)
  exact ⟨hpar, hrank, fun n h => vargmax_of_strict _ (c n) fun j hj => hrank n j hj (h j hj)⟩

/-- hard start, balanced or not: after the FIRST M-step every mean direction is exactly its prototype -/
theorem vmf_first_mstep_hard (ha : OrthoProtoR a) (hy : ∀ n d, y n d = a (c n) d) (lnorm : ℝ → ℝ) (lo hi tinyV : ℝ)
    (tiny : ℝ) (rule : WeightRule) (tie : Tying N) (eps : ℝ) (s : Fin N → ℝ)
    (hmass : ∀ k, 0 < ∑ n, hardStart c k n * s n) (hguard : ∀ k, tinyV ≤ ∑ n, hardStart c k n * s n)
    (k : Fin (K+1)) (d : Fin D) :
    rd ((fit tiny (vmfFamily D lnorm lo hi tinyV) rule tie eps s y 1 (hardStart c)).c k).mean d = a k d := by
  have hθ : (fit tiny (vmfFamily D lnorm lo hi tinyV) rule tie eps s y 1 (hardStart c)).c k
      = vmfMstep lnorm lo hi tinyV N (fun n => hardStart c k n * s n) (fun _ => 1) y :=
    mStep_c (vmfFamily D lnorm lo hi tinyV) rule tie eps s y (hardStart c) (fun _ _ => 1) k
  rw [hθ]
  exact (vmfMstep_hard ha hy lnorm lo hi tinyV s k (hmass k) (hguard k) (fun _ => 1)).1 d

/-- with uniform weights the margin of `vmf_round_hard` is just `0 < κ₁`, i.e. `0 < lo ≤ hi` -/
theorem vmf_round_hard_uniform (ha : OrthoProtoR a) (hy : ∀ n d, y n d = a (c n) d) (lnorm : ℝ → ℝ) (lo hi tinyV : ℝ)
    (hlo : 0 < lo) (hlh : lo ≤ hi) (tiny : ℝ) (htiny : 0 < tiny) (rule : WeightRule) (tie : Tying N)
    (htie : tie.uniform = true) (eps : ℝ) (s : Fin N → ℝ)
    (hmass : ∀ k, 0 < ∑ n, hardStart c k n * s n) (hguard : ∀ k, tinyV ≤ ∑ n, hardStart c k n * s n) (n : Fin N) :
    vargmax (fun k => eStep tiny (vmfFamily D lnorm lo hi tinyV)
      (fit tiny (vmfFamily D lnorm lo hi tinyV) rule tie eps s y 1 (hardStart c)) y k n) = c n := by
  apply (vmf_round_hard ha hy lnorm lo hi tinyV tiny htiny rule tie eps s hmass hguard).2.2 n
  intro j _
  rw [fit_w_uniform_gen tiny rule tie eps s _ y htie (hardStart c) 0, fit_w_uniform_gen tiny rule tie eps s _ y htie
    (hardStart c) 0]
  have hpos : 0 < 1 / ((K + 1 : ℕ) : ℝ) := by positivity
  have hκ : 0 < vmfKappa D lo hi 1 := lt_of_lt_of_le hlo (vmfKappa_range D lo hi 1 hlh).1
  have : 1 < Real.exp (vmfKappa D lo hi 1) := by
    have := Real.add_one_lt_exp hκ.ne'
    linarith
  nlinarith

/-! ### a concrete scene (non-vacuity) -/

/-- standard basis of `ℝ²` as prototypes -/
def a2R : Fin 2 → Fin 2 → ℝ := fun k d => if k = d then 1 else 0

theorem ortho_a2R : OrthoProtoR a2R := by
  intro j k
  fin_cases j <;> fin_cases k <;> simp [a2R]

theorem half_le_inv_sqrt_two : (1/2 : ℝ) ≤ 1 / Real.sqrt ((1+1 : ℕ) : ℝ) := by
  have h2 : (0:ℝ) < ((1+1 : ℕ) : ℝ) := by positivity
  have hs : 0 < Real.sqrt ((1+1 : ℕ) : ℝ) := Real.sqrt_pos.mpr h2
  rw [div_le_div_iff₀ (by norm_num) hs, one_mul, one_mul]
  have : Real.sqrt ((1+1 : ℕ) : ℝ) ≤ Real.sqrt (2 * 2) := Real.sqrt_le_sqrt (by push_cast; norm_num)
  rwa [Real.sqrt_mul_self (by norm_num)] at this

/-- non-vacuity of `fixed_point_vmf_balanced`: two classes on the standard basis of `ℝ²`, one observation each,
`lnorm ≡ 0`, clipping range `[1, 2]`, resultant floor `1/2`, blurred start `g₀ = 3/4`, `h₀ = 1/4` — for ALL `n ≥ 1` -/
example (n : Nat) (hn : 1 ≤ n) (obs : Fin 2) :
    vargmax (fun k => eStep (1/4) (vmfFamily 2 (fun _ => 0) 1 2 (1/2))
      (fit (1/4) (vmfFamily 2 (fun _ => 0) 1 2 (1/2)) WeightRule.unitNorm ⟨true, 1, tab fun _ => 0⟩ 0
        (fun _ => 1) a2R n (twoLevel (fun m : Fin 2 => m) (3/4) (1/4))) a2R k obs) = obs :=
  (fixed_point_vmf_balanced ortho_a2R (c := fun m : Fin 2 => m) (fun _ _ => rfl) (fun _ => 0) 1 2 (1/2) one_pos
    (by norm_num) (1/4) (by norm_num) (by norm_num) WeightRule.unitNorm ⟨true, 1, tab fun _ => 0⟩ rfl 0 (fun _ => 1) 1
    one_pos (fun k => by fin_cases k <;> simp [classMass]) (by rw [one_div]; simpa using half_le_inv_sqrt_two)
    (3/4) (1/4) (by norm_num) (by norm_num) (by norm_num) n hn).2.2.2.2 obs

/-- the same scene from the hard start, for all `n ≥ 1` -/
example (n : Nat) (hn : 1 ≤ n) (obs : Fin 2) :
    vargmax (fun k => eStep (1/4) (vmfFamily 2 (fun _ => 0) 1 2 (1/2))
      (fit (1/4) (vmfFamily 2 (fun _ => 0) 1 2 (1/2)) WeightRule.unitNorm ⟨true, 1, tab fun _ => 0⟩ 0
        (fun _ => 1) a2R n (hardStart fun m : Fin 2 => m)) a2R k obs) = obs :=
  fixed_point_vmf_balanced_hard ortho_a2R (c := fun m : Fin 2 => m) (fun _ _ => rfl) (fun _ => 0) 1 2 (1/2) one_pos
    (by norm_num) (1/4) (by norm_num) (by norm_num) WeightRule.unitNorm ⟨true, 1, tab fun _ => 0⟩ rfl 0 (fun _ => 1) 1
    one_pos (fun k => by fin_cases k <;> simp [classMass]) (by rw [one_div]; simpa using half_le_inv_sqrt_two) n hn obs

end main

end PbBss.FixedPoint

import PbBss.Proofs.FixedPointChain
import PbBss.Proofs.EmVmf
/-! The von Mises–Fisher mixture (`Em.vmfFamily`) in the BALANCED noise-free orthonormal scene: a complete `n`-step
fixed-point theorem by induction over the EM loop `Em.fit` (the vMF analogue of `balanced_chain`).

Scene: real orthonormal prototypes `a`, observations `y n = a (c n)` (already normalised, noise-free), equal class
masses `S > 0`, uniform mixture weights, start `twoLevel c g₀ h₀`.  Every M-step gives all classes the same
concentration and the mean direction `(g·a_k + h·Σ_{j≠k} a_j)/ρ`, `ρ = √(g² + K h²)`; every E-step gives again a
two-level posterior. -/
open PbBss PbBss.Em Finset

namespace PbBss.FixedPoint

/-! ### algebra of two-level coefficient vectors on orthonormal prototypes -/

theorem sum_lev {K : Nat} (k : Fin (K+1)) (G H : ℝ) : ∑ j : Fin (K+1), (if j = k then G else H) = G + K * H := by
  have e : ∀ j : Fin (K+1), (if j = k then G else H) = H + (if j = k then G - H else 0) := by
    intro j; split <;> ring
  simp only [e, Finset.sum_add_distrib, Finset.sum_ite_eq', Finset.mem_univ, if_true]
  simp
  ring

theorem sum_lev' {K : Nat} (k : Fin (K+1)) (G H : ℝ) : ∑ j : Fin (K+1), (if k = j then G else H) = G + K * H := by
  rw [← sum_lev k G H]
  exact Finset.sum_congr rfl fun j _ => by simp only [eq_comm]

/-- `⟨a_i, Σ_j m_j a_j⟩ = m_i` -/
theorem inner_comb {K D : Nat} {a : Fin K → Fin D → ℝ} (ha : OrthoProtoR a) (m : Fin K → ℝ) (i : Fin K) :
    ∑ d, a i d * (∑ j, m j * a j d) = m i := by
  simp only [Finset.mul_sum]
  rw [Finset.sum_comm]
  have e : ∀ j, ∑ d, a i d * (m j * a j d) = m j * (if i = j then 1 else 0) := by
    intro j
    rw [← ha i j, Finset.mul_sum]
    exact Finset.sum_congr rfl fun d _ => by ring
  simp only [e]
  simp

/-- `‖Σ_j m_j a_j‖² = Σ_j m_j²` -/
theorem normSq_comb {K D : Nat} {a : Fin K → Fin D → ℝ} (ha : OrthoProtoR a) (m : Fin K → ℝ) :
    ∑ d, (∑ j, m j * a j d) * (∑ j, m j * a j d) = ∑ j, m j * m j := by
  have e : ∀ d, (∑ i, m i * a i d) * (∑ j, m j * a j d) = ∑ i, m i * (a i d * ∑ j, m j * a j d) := by
    intro d
    rw [Finset.sum_mul]
    exact Finset.sum_congr rfl fun i _ => by ring
  simp only [e]
  rw [Finset.sum_comm]
  refine Finset.sum_congr rfl fun i _ => ?_
  rw [← Finset.mul_sum, inner_comb ha]

/-- the resultant of noise-free observations regroups by class -/
theorem resultant_scene {K N D : Nat} (a : Fin K → Fin D → ℝ) (c : Fin N → Fin K) (y : Fin N → Fin D → ℝ)
    (hy : ∀ n d, y n d = a (c n) d) (w : Fin N → ℝ) (d : Fin D) :
    ∑ n, w n * y n d = ∑ j, classMass c w j * a j d := by
  simp only [hy]
  rw [sum_by_class c (fun n j => w n * a j d)]
  refine Finset.sum_congr rfl fun j _ => ?_
  unfold classMass
  rw [Finset.sum_mul]
  refine Finset.sum_congr rfl fun n _ => ?_
  split <;> simp

/-- total weight of a two-level affiliation on classes of equal mass `S` -/
theorem twoLevel_total {K N : Nat} (c : Fin N → Fin (K+1)) (s : Fin N → ℝ) (S : ℝ)
    (hbal : ∀ k, classMass c s k = S) (g h : ℝ) (k : Fin (K+1)) :
    ∑ n, twoLevel c g h k n * s n = (g + K * h) * S := by
  unfold twoLevel
  rw [← classMass_sum c]
  simp only [classMass_two_level, hbal]
  rw [← Finset.sum_mul, sum_lev]

/-- length of the two-level coefficient vector: `ρ = √(g² + K h²)` -/
noncomputable def rho (K : Nat) (g h : ℝ) : ℝ := Real.sqrt (g * g + K * (h * h))

/-- the concentration `VonMisesFisherTrainer._fit` computes from the mean resultant length `q`
(clip to 1, Banerjee's approximation, clip to `[lo, hi]`) -/
noncomputable def vmfKappa (D : Nat) (lo hi q : ℝ) : ℝ :=
  let rbar : ℝ := if q < 1 then q else 1
  let c : ℝ := (rbar * (D : ℝ) - rbar * rbar * rbar) / (1 - rbar * rbar)
  let c1 : ℝ := if c < lo then lo else c
  if hi < c1 then hi else c1

theorem vmfKappa_range (D : Nat) (lo hi q : ℝ) (hlh : lo ≤ hi) : lo ≤ vmfKappa D lo hi q ∧ vmfKappa D lo hi q ≤ hi := by
  simp only [vmfKappa]
  split_ifs <;> constructor <;> linarith

/-- the three fields of the vMF M-step in `Finset.sum` form -/
theorem vmfMstep_fields {N D : Nat} (lnorm : ℝ → ℝ) (lo hi tinyV : ℝ) (w aux : Fin N → ℝ) (y : Fin N → Fin D → ℝ) :
    (∀ d, rd (vmfMstep lnorm lo hi tinyV N w aux y).mean d
        = (∑ n, w n * y n d) / max (Real.sqrt (∑ d, (∑ n, w n * y n d) * (∑ n, w n * y n d))) tinyV)
      ∧ (vmfMstep lnorm lo hi tinyV N w aux y).kappa
        = vmfKappa D lo hi (Real.sqrt (∑ d, (∑ n, w n * y n d) * (∑ n, w n * y n d)) / ∑ n, w n)
      ∧ (vmfMstep lnorm lo hi tinyV N w aux y).logNorm = lnorm (vmfMstep lnorm lo hi tinyV N w aux y).kappa := by
  refine ⟨fun d => ?_, ?_, rfl⟩
  · simp only [vmfMstep, rd_tab, vsum_eq_sum, transc_sqrt_real]
  · simp only [vmfMstep, vmfKappa, rd_tab, vsum_eq_sum, transc_sqrt_real]

theorem rho_sq (K : Nat) (g h : ℝ) : rho K g h * rho K g h = g * g + K * (h * h) :=
  Real.mul_self_sqrt (by positivity)

theorem rho_pos (K : Nat) (g h : ℝ) (hg : 0 < g) : 0 < rho K g h :=
  Real.sqrt_pos.mpr (by positivity)

/-- Cauchy–Schwarz: a two-level vector of total `g + K h = 1` has length at least `1/√(K+1)` -/
theorem rho_lower (K : Nat) (g h : ℝ) (hgh : g + K * h = 1) : 1 / Real.sqrt ((K+1 : ℕ) : ℝ) ≤ rho K g h := by
  have hK : (0:ℝ) < ((K+1 : ℕ) : ℝ) := by positivity
  have hr : 0 < Real.sqrt ((K+1 : ℕ) : ℝ) := Real.sqrt_pos.mpr hK
  unfold rho
  apply Real.le_sqrt_of_sq_le
  rw [div_pow, one_pow, Real.sq_sqrt hK.le, div_le_iff₀ hK]
  push_cast
  have : g = 1 - K * h := by linarith
  subst this
  nlinarith [sq_nonneg (1 - (K:ℝ) * h - h), sq_nonneg h, (Nat.cast_nonneg K : (0:ℝ) ≤ K)]

section mstep
variable {K N D : Nat} {a : Fin (K+1) → Fin D → ℝ} {c : Fin N → Fin (K+1)} {y : Fin N → Fin D → ℝ}

/-- **vMF M-step on a two-level affiliation** in the balanced noise-free orthonormal scene: mean direction
`(g·a_k + h·Σ_{j≠k} a_j)/ρ`, concentration = the clipped Banerjee value of `ρ` — the same for every class `k`.
Guard: the resultant `S·ρ` is not floored. -/
theorem vmfMstep_twoLevel (ha : OrthoProtoR a) (hy : ∀ n d, y n d = a (c n) d) (lnorm : ℝ → ℝ) (lo hi tinyV : ℝ)
    (s : Fin N → ℝ) (S : ℝ) (hS : 0 < S) (hbal : ∀ k, classMass c s k = S) (g h : ℝ) (hgh : g + K * h = 1)
    (hg : 0 < g) (hguard : tinyV ≤ S * rho K g h) (k : Fin (K+1)) (aux : Fin N → ℝ) :
    (∀ d, rd (vmfMstep lnorm lo hi tinyV N (fun n => twoLevel c g h k n * s n) aux y).mean d
        = (∑ j, (if j = k then g else h) * a j d) / rho K g h)
      ∧ (vmfMstep lnorm lo hi tinyV N (fun n => twoLevel c g h k n * s n) aux y).kappa = vmfKappa D lo hi (rho K g h)
      ∧ (vmfMstep lnorm lo hi tinyV N (fun n => twoLevel c g h k n * s n) aux y).logNorm
          = lnorm (vmfKappa D lo hi (rho K g h)) := by
  have hρ := rho_pos K g h hg
  obtain ⟨hm, hκ, hl⟩ := vmfMstep_fields lnorm lo hi tinyV (fun n => twoLevel c g h k n * s n) aux y
  have hr : ∀ d, ∑ n, twoLevel c g h k n * s n * y n d = S * ∑ j, (if j = k then g else h) * a j d := by
    intro d
    rw [resultant_scene a c y hy]
    unfold twoLevel
    simp only [classMass_two_level, hbal]
    rw [Finset.mul_sum]
    exact Finset.sum_congr rfl fun j _ => by ring
  have hn : Real.sqrt (∑ d, (∑ n, twoLevel c g h k n * s n * y n d) * (∑ n, twoLevel c g h k n * s n * y n d))
      = S * rho K g h := by
    simp only [hr]
    have e : ∀ d, (S * ∑ j, (if j = k then g else h) * a j d) * (S * ∑ j, (if j = k then g else h) * a j d)
        = S * S * ((∑ j, (if j = k then g else h) * a j d) * (∑ j, (if j = k then g else h) * a j d)) := by
      intro d; ring
    simp only [e]
    rw [← Finset.mul_sum, normSq_comb ha]
    have e2 : ∀ j : Fin (K+1), (if j = k then g else h) * (if j = k then g else h) = if j = k then g * g else h * h := by
      intro j; split <;> rfl
    simp only [e2]
    rw [sum_lev, ← rho_sq K g h]
    rw [show S * S * (rho K g h * rho K g h) = (S * rho K g h) * (S * rho K g h) by ring]
    exact Real.sqrt_mul_self (mul_pos hS hρ).le
  have htot : ∑ n, twoLevel c g h k n * s n = S := by
    rw [twoLevel_total c s S hbal, hgh, one_mul]
  have hκ' : (vmfMstep lnorm lo hi tinyV N (fun n => twoLevel c g h k n * s n) aux y).kappa
      = vmfKappa D lo hi (rho K g h) := by
    rw [hκ, hn, htot, mul_div_cancel_left₀ _ hS.ne']
  refine ⟨fun d => ?_, hκ', by rw [hl, hκ']⟩
  rw [hm, hn, max_eq_left hguard, hr, mul_div_mul_left _ _ hS.ne']

end mstep

end PbBss.FixedPoint

import PbBss.Model.BfWrapper
import PbBss.Proofs.RealInst
import Mathlib.Analysis.SpecialFunctions.Complex.Arg
import Mathlib.Tactic
/-! Lemmas about `PbBss.BfWrapper` (name dispatch, `apply_beamforming_vector`, `phase_correction`, `stable_solve`)
used by `PbBss/Props/C13.lean`. -/
open PbBss PbBss.BfWrapper

namespace PbBss.BfWrapper

/-- the twelve beamformer cores the docstring and the `if/elif` chain of `get_bf_vector` name, each with the
composition of primitives its name spells (`a+b` = "estimate with a, then beamform with b") -/
def acceptedCores : List (List Char × Core) := [
  ("pca".toList, .pca),
  ("pca+mvdr".toList, .mvdr .pca),
  ("scaled_gev_atf+mvdr".toList, .mvdr .scaledGev),
  ("mvdr_souden".toList, .souden none),
  ("rank1_pca+mvdr_souden".toList, .souden (some .pca)),
  ("rank1_gev+mvdr_souden".toList, .souden (some .gev)),
  ("gev".toList, .gev none),
  ("rank1_pca+gev".toList, .gev (some .pca)),
  ("rank1_gev+gev".toList, .gev (some .gev)),
  ("wmwf".toList, .wmwf none),
  ("rank1_pca+wmwf".toList, .wmwf (some .pca)),
  ("rank1_gev+wmwf".toList, .wmwf (some .gev))]

theorem hasSub_head {a : Char} {sub s : List Char} (h : hasSub (a :: sub) s = true) : a ∈ s := by
  induction s with
  | nil => simp [hasSub] at h
  | cons c s ih =>
    simp only [hasSub, Bool.or_eq_true] at h
    rcases h with h | h
    · have : (a :: sub) <+: (c :: s) := List.isPrefixOf_iff_prefix.mp h
      obtain ⟨t, ht⟩ := this
      have : a = c := by simpa using congrArg List.head? ht
      simp [this]
    · exact List.mem_cons_of_mem _ (ih h)

/-- 'ch' can only occur at the very start of a string whose tail from position 2 consists of digits -/
theorem ch_prefix {core : List Char} (h : hasSub "ch".toList core = true) (hne : (core.drop 2).isEmpty = false)
    (hd : (core.drop 2).all Char.isDigit = true) : core = 'c' :: 'h' :: core.drop 2 := by
  match core, hne, hd, h with
  | [], hne, _, _ => simp at hne
  | [_], hne, _, _ => simp at hne
  | a :: b :: ds, _, hd, h =>
    simp only [List.drop_succ_cons, List.drop_zero] at hd ⊢
    have hds : ∀ c ∈ ds, c.isDigit = true := by simpa using hd
    have e : "ch".toList = ['c', 'h'] := rfl
    rw [e] at h
    simp only [hasSub, Bool.or_eq_true] at h
    rcases h with h | h | h
    · have := List.isPrefixOf_iff_prefix.mp h
      obtain ⟨t, ht⟩ := this
      simp at ht
      obtain ⟨rfl, rfl, _⟩ := ht
      rfl
    · have := List.isPrefixOf_iff_prefix.mp h
      obtain ⟨t, ht⟩ := this
      match ds, hds, ht with
      | [], _, ht => simp at ht
      | x :: ds', hds, ht =>
        simp at ht
        have := hds x (by simp)
        rw [← ht.2.1] at this
        exact absurd this (by decide)
    · have hc := hds 'c' (hasSub_head h)
      exact absurd hc (by decide)

theorem coreOf_some {core : List Char} {c : Core} (h : coreOf core = some c) :
    (core, c) ∈ acceptedCores ∨
    (∃ ds, ds ≠ [] ∧ (∀ x ∈ ds, x.isDigit = true) ∧ core = 'c' :: 'h' :: ds ∧ c = .ch (digitsToNat ds)) := by
  unfold coreOf at h
  split at h
  · next h1 => left; subst h1; cases h; decide
  split at h
  · next h1 =>
    left
    simp only [Bool.or_eq_true, decide_eq_true_eq] at h1
    rcases h1 with rfl | rfl <;> · revert h; revert c; decide
  split at h
  · next h1 =>
    left
    simp only [Bool.or_eq_true, decide_eq_true_eq] at h1
    rcases h1 with (rfl | rfl) | rfl <;> · revert h; revert c; decide
  split at h
  · next h1 =>
    left
    simp only [Bool.or_eq_true, decide_eq_true_eq] at h1
    rcases h1 with (rfl | rfl) | rfl <;> · revert h; revert c; decide
  split at h
  · next h1 =>
    left
    simp only [Bool.or_eq_true, decide_eq_true_eq] at h1
    rcases h1 with (rfl | rfl) | rfl <;> · revert h; revert c; decide
  split at h
  · next h1 =>
    right
    simp only [Bool.and_eq_true, Bool.not_eq_true'] at h1
    obtain ⟨hs, hne, hd⟩ := h1
    refine ⟨core.drop 2, ?_, ?_, ch_prefix hs hne hd, ?_⟩
    · intro e; simp [e] at hne
    · simpa using hd
    · cases h; rfl
  · cases h

/-- every accepted name: the twelve cores, each with and without the `+ban` suffix -/
def acceptedNames : List (List Char × Plan) :=
  acceptedCores.flatMap fun e => [(e.1, ⟨e.2, false⟩), (e.1 ++ "+ban".toList, ⟨e.2, true⟩)]

theorem hasSub_lcmv_false {s : List Char} (h : 'l' ∉ s) : hasSub "lcmv".toList s = false := by
  by_contra hc
  have e : "lcmv".toList = 'l' :: ['c', 'm', 'v'] := rfl
  rw [Bool.not_eq_false, e] at hc
  exact h (hasSub_head hc)

theorem coreOf_ch (ds : List Char) (hne : ds ≠ []) (hd : ∀ x ∈ ds, x.isDigit = true) :
    coreOf ('c' :: 'h' :: ds) = some (.ch (digitsToNat ds)) := by
  have hh : ∀ l : List Char, l.head? ≠ some 'c' → ('c' :: 'h' :: ds = l) = False := by
    intro l hl
    simp only [eq_iff_iff, iff_false]
    intro h
    exact hl (by rw [← h]; rfl)
  unfold coreOf
  rw [if_neg (by rw [hh _ (by decide)]; exact not_false)]
  rw [if_neg (by simp only [hh _ (show "pca+mvdr".toList.head? ≠ some 'c' by decide),
    hh _ (show "scaled_gev_atf+mvdr".toList.head? ≠ some 'c' by decide)]; decide)]
  rw [if_neg (by simp only [hh _ (show "mvdr_souden".toList.head? ≠ some 'c' by decide),
    hh _ (show "rank1_pca+mvdr_souden".toList.head? ≠ some 'c' by decide),
    hh _ (show "rank1_gev+mvdr_souden".toList.head? ≠ some 'c' by decide)]; decide)]
  rw [if_neg (by simp only [hh _ (show "gev".toList.head? ≠ some 'c' by decide),
    hh _ (show "rank1_pca+gev".toList.head? ≠ some 'c' by decide),
    hh _ (show "rank1_gev+gev".toList.head? ≠ some 'c' by decide)]; decide)]
  rw [if_neg (by simp only [hh _ (show "wmwf".toList.head? ≠ some 'c' by decide),
    hh _ (show "rank1_pca+wmwf".toList.head? ≠ some 'c' by decide),
    hh _ (show "rank1_gev+wmwf".toList.head? ≠ some 'c' by decide)]; decide)]
  have hs : hasSub "ch".toList ('c' :: 'h' :: ds) = true := by
    have e : "ch".toList = ['c', 'h'] := rfl
    rw [e]
    simp [hasSub, List.isPrefixOf]
  have hdrop : List.drop 2 ('c' :: 'h' :: ds) = ds := rfl
  rw [if_pos]
  · rw [hdrop]
  · rw [hs, hdrop]
    have h1 : ds.isEmpty = false := by cases ds <;> simp_all
    have h2 : ds.all Char.isDigit = true := by simpa using hd
    simp [h1, h2]

theorem digit_ne_l {x : Char} (h : x.isDigit = true) : x ≠ 'l' := by
  rintro rfl; exact absurd h (by decide)

theorem dispatch_noBan {name : List Char} (hl : 'l' ∉ name) (hb : "+ban".toList.isSuffixOf name = false) :
    dispatch name = (coreOf name).map fun c => ⟨c, false⟩ := by
  unfold dispatch
  rw [hasSub_lcmv_false hl]
  simp only [hb, Bool.false_eq_true, if_false]

theorem dispatch_ban {core : List Char} (hl : 'l' ∉ core) :
    dispatch (core ++ "+ban".toList) = (coreOf core).map fun c => ⟨c, true⟩ := by
  unfold dispatch
  have hl' : 'l' ∉ core ++ "+ban".toList := by
    intro h
    rcases List.mem_append.mp h with h | h
    · exact hl h
    · revert h; decide
  rw [hasSub_lcmv_false hl']
  have hs : "+ban".toList.isSuffixOf (core ++ "+ban".toList) = true :=
    List.isSuffixOf_iff_suffix.mpr (List.suffix_append _ _)
  have hlen : "+ban".toList.length = 4 := rfl
  simp only [hs, Bool.false_eq_true, if_false, if_true, List.length_append, hlen, Nat.add_sub_cancel,
    List.take_left']

/-- digits never end in `+ban` -/
theorem ch_not_ban (ds : List Char) (hd : ∀ x ∈ ds, x.isDigit = true) :
    "+ban".toList.isSuffixOf ('c' :: 'h' :: ds) = false := by
  by_contra h
  rw [Bool.not_eq_false] at h
  obtain ⟨t, ht⟩ := List.isSuffixOf_iff_suffix.mp h
  have hn : 'n' ∈ 'c' :: 'h' :: ds := by
    rw [← ht]; apply List.mem_append_right; decide
  rcases List.mem_cons.mp hn with h1 | h1
  · exact absurd h1 (by decide)
  rcases List.mem_cons.mp h1 with h2 | h2
  · exact absurd h2 (by decide)
  · exact absurd (hd _ h2) (by decide)

theorem mem_acceptedNames_of_core {core : List Char} {c : Core} (h : (core, c) ∈ acceptedCores) :
    (core, (⟨c, false⟩ : Plan)) ∈ acceptedNames ∧ (core ++ "+ban".toList, (⟨c, true⟩ : Plan)) ∈ acceptedNames := by
  unfold acceptedNames
  constructor <;> exact List.mem_flatMap.mpr ⟨(core, c), h, by simp⟩

theorem dispatch_some {name : List Char} {p : Plan} (h : dispatch name = some p) :
    (name, p) ∈ acceptedNames ∨
    ∃ ds, ds ≠ [] ∧ (∀ x ∈ ds, x.isDigit = true) ∧
      ((name = 'c' :: 'h' :: ds ∧ p = ⟨.ch (digitsToNat ds), false⟩) ∨
       (name = 'c' :: 'h' :: ds ++ "+ban".toList ∧ p = ⟨.ch (digitsToNat ds), true⟩)) := by
  unfold dispatch at h
  split at h
  · cases h
  · cases hb : "+ban".toList.isSuffixOf name
    · simp only [hb, Bool.false_eq_true, if_false, Option.map_eq_some_iff] at h
      obtain ⟨c, hc, rfl⟩ := h
      rcases coreOf_some hc with hm | ⟨ds, hne, hd, rfl, rfl⟩
      · exact Or.inl (mem_acceptedNames_of_core hm).1
      · exact Or.inr ⟨ds, hne, hd, Or.inl ⟨rfl, rfl⟩⟩
    · simp only [hb, if_true, Option.map_eq_some_iff] at h
      obtain ⟨c, hc, rfl⟩ := h
      have hname : List.take (name.length - 4) name ++ "+ban".toList = name :=
        List.suffix_iff_eq_append.mp (List.isSuffixOf_iff_suffix.mp hb)
      rcases coreOf_some hc with hm | ⟨ds, hne, hd, hcore, rfl⟩
      · left
        have := (mem_acceptedNames_of_core hm).2
        rwa [hname] at this
      · right
        refine ⟨ds, hne, hd, Or.inr ⟨?_, rfl⟩⟩
        rw [← hcore, hname]

/-! ### `phase_correction` over ℂ -/
end PbBss.BfWrapper

noncomputable instance : Polar ℝ ℂ := ⟨Complex.arg, fun t => Complex.exp (t * Complex.I)⟩

@[simp] theorem polar_arg (z : ℂ) : Polar.arg (α := ℝ) z = Complex.arg z := rfl
@[simp] theorem polar_expI (t : ℝ) : (Polar.expI t : ℂ) = Complex.exp (t * Complex.I) := rfl

namespace PbBss.BfWrapper
open Complex

/-- product of the first `k` factors -/
def mulUpTo {F : Nat} (p : Fin F → ℂ) (k : Nat) (hk : k ≤ F) : ℂ :=
  Fin.foldl k (fun acc j => acc * p ⟨j.val, Nat.lt_of_lt_of_le j.isLt hk⟩) 1

theorem mulUpTo_zero {F : Nat} (p : Fin F → ℂ) : mulUpTo p 0 (Nat.zero_le F) = 1 := by
  simp [mulUpTo]

theorem mulUpTo_succ {F : Nat} (p : Fin F → ℂ) (k : Nat) (hk : k + 1 ≤ F) :
    mulUpTo p (k+1) hk = mulUpTo p k (Nat.le_of_succ_le hk) * p ⟨k, hk⟩ := by
  unfold mulUpTo
  rw [Fin.foldl_succ_last]
  rfl

theorem cumprod_eq_mulUpTo {F : Nat} (p : Fin F → ℂ) (g : Fin F) :
    cumprod p g = mulUpTo p (g.val + 1) g.isLt := rfl

theorem norm_mulUpTo {F : Nat} (p : Fin F → ℂ) (hp : ∀ g, ‖p g‖ = 1) (k : Nat) (hk : k ≤ F) :
    ‖mulUpTo p k hk‖ = 1 := by
  induction k with
  | zero => simp [mulUpTo]
  | succ k ih => rw [mulUpTo_succ, norm_mul, ih, hp, one_mul]

theorem norm_phasor {F D : Nat} (v : Fin (F+1) → Fin D → ℂ) (g : Fin F) : ‖phasor ℝ v g‖ = 1 := by
  unfold phasor
  simp only [polar_expI, polar_arg]
  exact Complex.norm_exp_ofReal_mul_I _

/-- the factor bin `f` is multiplied with: the product of the phasors of the bins `1..f` -/
noncomputable def mult {F D : Nat} (v : Fin (F+1) → Fin D → ℂ) (f : Fin (F+1)) : ℂ :=
  mulUpTo (phasor ℝ v) f.val (Nat.le_of_lt_succ f.isLt)

theorem phaseCorrection_eq_mult {F D : Nat} (v : Fin (F+1) → Fin D → ℂ) (f : Fin (F+1)) (d : Fin D) :
    phaseCorrection ℝ v f d = v f d * mult v f := by
  unfold phaseCorrection
  refine Fin.cases ?_ (fun g => ?_) f
  · simp [mult, mulUpTo]
  · simp only [Fin.cases_succ, cumprod_eq_mulUpTo, mult, Fin.val_succ]

theorem mult_succ {F D : Nat} (v : Fin (F+1) → Fin D → ℂ) (g : Fin F) :
    mult v g.succ = mult v g.castSucc * phasor ℝ v g := by
  unfold mult
  simp only [Fin.val_succ, Fin.val_castSucc]
  rw [mulUpTo_succ]

theorem norm_mult {F D : Nat} (v : Fin (F+1) → Fin D → ℂ) (f : Fin (F+1)) : ‖mult v f‖ = 1 :=
  norm_mulUpTo _ (norm_phasor v) _ _

/-- `conj(exp(i arg z)) · z = |z|` -/
theorem conj_expArg_mul (z : ℂ) : starRingEnd ℂ (exp (arg z * I)) * z = (‖z‖ : ℂ) := by
  have h := Complex.norm_mul_exp_arg_mul_I z
  have hn : starRingEnd ℂ (exp (arg z * I)) * exp (arg z * I) = 1 := by
    rw [← Complex.normSq_eq_conj_mul_self, Complex.normSq_eq_norm_sq, Complex.norm_exp_ofReal_mul_I]
    simp
  calc starRingEnd ℂ (exp (arg z * I)) * z
      = starRingEnd ℂ (exp (arg z * I)) * ((‖z‖ : ℂ) * exp (arg z * I)) := by rw [h]
    _ = (‖z‖ : ℂ) * (starRingEnd ℂ (exp (arg z * I)) * exp (arg z * I)) := by ring
    _ = (‖z‖ : ℂ) := by rw [hn, mul_one]

/-- the inner product of consecutive corrected bins is the modulus of the inner product of the original bins -/
theorem phase_inner {F D : Nat} (v : Fin (F+1) → Fin D → ℂ) (g : Fin F) :
    (∑ d, starRingEnd ℂ (phaseCorrection ℝ v g.succ d) * phaseCorrection ℝ v g.castSucc d)
      = ((‖∑ d, starRingEnd ℂ (v g.succ d) * v g.castSucc d‖ : ℝ) : ℂ) := by
  set z := ∑ d, starRingEnd ℂ (v g.succ d) * v g.castSucc d with hz
  have hp : phasor ℝ v g = exp (arg z * I) := by
    unfold phasor
    simp only [polar_expI, polar_arg, vsum_eq_sum, cx_conj, hz]
  have hm : starRingEnd ℂ (mult v g.castSucc) * mult v g.castSucc = 1 := by
    rw [← Complex.normSq_eq_conj_mul_self, Complex.normSq_eq_norm_sq, norm_mult]; simp
  have : ∀ d, starRingEnd ℂ (phaseCorrection ℝ v g.succ d) * phaseCorrection ℝ v g.castSucc d
      = (starRingEnd ℂ (mult v g.castSucc) * mult v g.castSucc) * starRingEnd ℂ (phasor ℝ v g)
          * (starRingEnd ℂ (v g.succ d) * v g.castSucc d) := by
    intro d
    rw [phaseCorrection_eq_mult, phaseCorrection_eq_mult, mult_succ]
    simp only [map_mul]
    ring
  simp only [this]
  rw [← Finset.mul_sum, ← hz, hm, one_mul, hp, conj_expArg_mul]

/-! ### full arrays: the bin axis is addressed from the end of the shape -/

theorem phaseFull_fixLead (shape : List Nat) (x : List Nat → ℂ) (lead : List Nat)
    (hl : lead.length + 2 = shape.length) (F : Nat) (f : Fin (F+1))
    (d : Fin (shape.getD (shape.length - 1) 0)) :
    phaseFull ℝ shape x (lead ++ [f.val, d.val]) =
      phaseCorrection ℝ (fun (f : Fin (F+1)) (d : Fin (shape.getD (shape.length - 1) 0)) => x (lead ++ [f.val, d.val])) f d := by
  have h2 : shape.length - 2 = lead.length := by omega
  unfold phaseFull
  simp only [h2, List.take_left', List.getD_eq_getElem?_getD, List.getElem?_append_right (Nat.le_refl _),
    Nat.sub_self, List.getElem?_cons_zero, Option.getD_some]
  refine Fin.cases ?_ (fun g => ?_) f
  · rfl
  · simp only [Fin.val_succ]
    unfold phaseCorrection cumprod phasor
    simp only [Fin.cases_succ]
    rfl

/-- witness array of shape (2, 2, 1): both leading indices hold the bins `(1), (-1)` -/
def wx : List Nat → ℂ := fun idx => if idx.getD 1 0 = 1 then -1 else 1

theorem axis0_value : phaseFullAxis0 ℝ [2, 2, 1] wx [1, 1, 0] = -1 := by
  simp [phaseFullAxis0, wx, Fin.foldl_succ, vsum, Complex.arg_neg_one, Complex.exp_pi_mul_I]

theorem axisM2_value : phaseFull ℝ [2, 2, 1] wx [1, 1, 0] = 1 := by
  simp [phaseFull, wx, Fin.foldl_succ, vsum, Complex.arg_neg_one, Complex.exp_pi_mul_I]

theorem perIndex_value : phaseCorrection ℝ (fun (f : Fin 2) (d : Fin 1) => wx ([1] ++ [f.val, d.val])) 1 0 = 1 := by
  have : (1 : Fin 2) = Fin.succ 0 := rfl
  rw [this]
  simp only [phaseCorrection, Fin.cases_succ]
  simp [cumprod, phasor, wx, Fin.foldl_succ, vsum, Complex.arg_neg_one, Complex.exp_pi_mul_I]

end PbBss.BfWrapper

import PbBss.Proofs.PipelineChain
import PbBss.Proofs.FixedPointChain
/-! C03 × C16 × C17 for the complex Watson mixture (cWMM): the chain

  per-frequency EM (cWMM) → posteriors → permutation alignment (greedy `cos` / DHTV) → global permutation → masks →
  `get_power_spectral_density_matrix` → noise PSD

on the balanced noise-free orthonormal scene, for every number `n ≥ 1` of EM iterations from the start `twoLevel c g₀ h₀`
of `C03.fixed_point_watson_balanced` (`g₀ = 1, h₀ = 0`: the hard start).  Unlike the cACG mixture the posterior levels are
not stationary: after `n` iterations they are `G_n = e^{κ_n}/(e^{κ_n}+K)`, `H_n = 1/(e^{κ_n}+K)` with the concentration
`κ_n = kappaSeq kinv K g₀ (n-1)` of `balanced_chain`.  The alignment theorems need the leak to be small,
`10·N·H_n ≤ G_n`, i.e. `10·N ≤ e^{κ_n}`, stated as `Real.log (10·N) ≤ κ_n`.

Generic ingredients reused: `eStep_balanced`, `balanced_chain`, `fit_w_uniform` (FixedPointChain), `two_level_mask_psd`,
`two_level_noise_psd` (PipelineLeaky), `twoLevel_restored_by_greedy`, `twoLevel_restored_by_dhtv` (AlignTwoLevel),
`aligned_twoLevel_psd`, `aligned_twoLevel_noise_psd`, `pipelineMasks_eq_applyMapping` (PipelineChain). -/
open Matrix PbBss PbBss.Pipeline PbBss.Em PbBss.FixedPoint PbBss.PipelineProof PbBss.PipelineChain

namespace PbBss.PipelineChainWatson

/-! ### the two levels of the balanced Watson posterior after `n` iterations -/

/-- `G_n = e^{κ_n}/(e^{κ_n}+K)`, `κ_n = kappaSeq kinv K g₀ (n-1)` -/
noncomputable def watsonG (kinv : ℝ → ℝ) (K : Nat) (g₀ : ℝ) (n : Nat) : ℝ :=
  Real.exp (kappaSeq kinv K g₀ (n-1)) / (Real.exp (kappaSeq kinv K g₀ (n-1)) + K)

/-- `H_n = 1/(e^{κ_n}+K)` -/
noncomputable def watsonH (kinv : ℝ → ℝ) (K : Nat) (g₀ : ℝ) (n : Nat) : ℝ :=
  1 / (Real.exp (kappaSeq kinv K g₀ (n-1)) + K)

/-- `0 < H_n < G_n` and `G_n + K·H_n = 1` as soon as `κ_n > 0` -/
theorem watson_levels (kinv : ℝ → ℝ) (K : Nat) (g₀ : ℝ) (n : Nat) (hκ : 0 < kappaSeq kinv K g₀ (n-1)) :
    0 < watsonH kinv K g₀ n ∧ watsonH kinv K g₀ n < watsonG kinv K g₀ n
      ∧ watsonG kinv K g₀ n + K * watsonH kinv K g₀ n = 1 := by
  have hE : 1 < Real.exp (kappaSeq kinv K g₀ (n-1)) := by
    have := Real.add_one_lt_exp hκ.ne'
    linarith
  have hK0 : (0 : ℝ) ≤ K := Nat.cast_nonneg K
  have h3 : 0 < Real.exp (kappaSeq kinv K g₀ (n-1)) + K := by positivity
  refine ⟨by unfold watsonH; positivity, ?_, by unfold watsonG watsonH; field_simp⟩
  unfold watsonG watsonH
  exact div_lt_div_of_pos_right hE h3

/-- the smallness condition of the alignment domain: `h/g = e^{-κ_n}`, so `log (10·N) ≤ κ_n` suffices -/
theorem watson_levels_small (kinv : ℝ → ℝ) (K N : Nat) (g₀ : ℝ) (n : Nat)
    (hκ : Real.log (10 * (N : ℝ)) ≤ kappaSeq kinv K g₀ (n-1)) :
    10 * (N : ℝ) * watsonH kinv K g₀ n ≤ watsonG kinv K g₀ n := by
  have hE : 10 * (N : ℝ) ≤ Real.exp (kappaSeq kinv K g₀ (n-1)) :=
    (Real.le_exp_log _).trans (Real.exp_le_exp.mpr hκ)
  have hK0 : (0 : ℝ) ≤ K := Nat.cast_nonneg K
  have h3 : 0 < Real.exp (kappaSeq kinv K g₀ (n-1)) + K := by positivity
  unfold watsonG watsonH
  rw [mul_one_div]
  exact div_le_div_of_nonneg_right hE h3.le

/-! ### (a) the posterior VALUES -/
section posterior
variable {K N D : Nat} {a : Fin (K+1) → Fin D → ℂ} {c : Fin N → Fin (K+1)} {z : Fin N → Fin D → ℂ}

/-- **(a)** balanced noise-free orthonormal scene, hypotheses of `C03.fixed_point_watson_balanced`: after every number
`n ≥ 1` of EM iterations from `twoLevel c g₀ h₀` the cWMM posterior is exactly two-level, `G_n` on the true class and `H_n`
on every other class, with `0 < H_n < G_n`, `G_n + K·H_n = 1` -/
theorem watson_posterior_two_level (sc : Scene a c z) (pca : Tab D (Tab D ℂ) → Tab D ℂ × ℝ) (hpca : PcaOn pca z)
    (kinv lnorm : ℝ → ℝ) (hK : 1 ≤ K) (hkinv : ∀ x : ℝ, 1 / ((K+1 : ℕ) : ℝ) < x → x ≤ 1 → 0 < kinv x)
    (tiny : ℝ) (htiny : 0 < tiny) (ht : tiny ≤ 1 / ((K+1 : ℕ) : ℝ)) (rule : WeightRule) (tie : Tying N)
    (htie : tie.uniform = true) (eps : ℝ) (s : Fin N → ℝ) (S : ℝ) (hS : 0 < S) (hbal : ∀ k, classMass c s k = S)
    (g₀ h₀ : ℝ) (hgh : g₀ + K * h₀ = 1) (hh0 : 0 ≤ h₀) (hlt : h₀ < g₀) (n : Nat) (hn : 1 ≤ n) :
    (∀ k t, eStep tiny (watsonFamily D pca kinv lnorm)
        (fit tiny (watsonFamily D pca kinv lnorm) rule tie eps s z n (twoLevel c g₀ h₀)) z k t
          = if c t = k then watsonG kinv K g₀ n else watsonH kinv K g₀ n)
      ∧ 0 < watsonH kinv K g₀ n ∧ watsonH kinv K g₀ n < watsonG kinv K g₀ n
      ∧ watsonG kinv K g₀ n + K * watsonH kinv K g₀ n = 1 := by
  obtain ⟨i, rfl⟩ : ∃ i, n = i + 1 := ⟨n - 1, by omega⟩
  obtain ⟨hb, hκ⟩ := balanced_chain pca kinv lnorm tiny rule tie eps s sc hpca hK hkinv htiny ht htie S hS hbal
    g₀ h₀ hgh hh0 hlt i
  refine ⟨fun k t => ?_, watson_levels kinv K g₀ (i+1) hκ⟩
  exact eStep_balanced pca kinv lnorm sc tiny htiny ht _ _ _ hb
    (fit_w_uniform pca kinv lnorm tiny rule tie eps s htie (twoLevel c g₀ h₀) i) k t

end posterior

section chain
variable {K N D : Nat} {a : Fin (K+1) → Fin (D+1) → ℂ} {c : Fin N → Fin (K+1)} {z : Fin N → Fin (D+1) → ℂ}

/-! ### (b) EM posterior → PSD, one bin -/

/-- **(b)** (cWMM, balanced noise-free orthonormal scene, one bin).  For every number of EM iterations `n ≥ 1`,
`get_power_spectral_density_matrix` (model `psd`, floor `pfloor` kept as `max`) applied to the SAME observations and to the
posterior `eStep (fit … n (twoLevel c g₀ h₀))` as masks returns, for every class `k`, `Σ_j μ_kj · n_j · a_j a_jᴴ` with
`μ_kj = (if j = k then G_n else H_n)/max(G_n n_k + H_n Σ_{j≠k} n_j, pfloor)`; the noise PSD of target `k` is
`Σ_j ν_kj · n_j · a_j a_jᴴ` -/
theorem watson_em_posterior_psd (sc : Scene a c z) (pca : Tab (D+1) (Tab (D+1) ℂ) → Tab (D+1) ℂ × ℝ)
    (hpca : PcaOn pca z) (kinv lnorm : ℝ → ℝ) (hK : 1 ≤ K)
    (hkinv : ∀ x : ℝ, 1 / ((K+1 : ℕ) : ℝ) < x → x ≤ 1 → 0 < kinv x)
    (tiny : ℝ) (htiny : 0 < tiny) (ht : tiny ≤ 1 / ((K+1 : ℕ) : ℝ)) (rule : WeightRule) (tie : Tying N)
    (htie : tie.uniform = true) (eps : ℝ) (s : Fin N → ℝ) (S : ℝ) (hS : 0 < S) (hbal : ∀ k, classMass c s k = S)
    (g₀ h₀ : ℝ) (hgh : g₀ + K * h₀ = 1) (hh0 : 0 ≤ h₀) (hlt : h₀ < g₀) (n : Nat) (hn : 1 ≤ n)
    (pfloor : ℝ) (k : Fin (K+1)) (d e : Fin (D+1)) :
    let post : Fin 1 → Fin (K+1) → Fin N → ℝ := fun _ k t =>
      eStep tiny (watsonFamily (D+1) pca kinv lnorm)
        (fit tiny (watsonFamily (D+1) pca kinv lnorm) rule tie eps s z n (twoLevel c g₀ h₀)) z k t
    let obs : Fin 1 → Fin (D+1) → Fin N → ℂ := fun _ d t => z t d
    psd pfloor obs post 0 k d e =
        ∑ j, ((muW pfloor (watsonG kinv K g₀ n) (watsonH kinv K g₀ n) c k j * frames c j : ℝ) : ℂ)
          * (a j d * (starRingEnd ℂ) (a j e)) ∧
      noiseFromPsd (psd pfloor obs post) 0 k d e =
        ∑ j, ((nuW pfloor (watsonG kinv K g₀ n) (watsonH kinv K g₀ n) c k j * frames c j : ℝ) : ℂ)
          * (a j d * (starRingEnd ℂ) (a j e)) := by
  intro post obs
  obtain ⟨u, hu1, hz⟩ := sc.obs
  have hpost : post = fun _ k t => if c t = k then watsonG kinv K g₀ n else watsonH kinv K g₀ n := by
    funext _ k t
    exact (watson_posterior_two_level sc pca hpca kinv lnorm hK hkinv tiny htiny ht rule tie htie eps s S hS hbal
      g₀ h₀ hgh hh0 hlt n hn).1 k t
  have hobs : obs = fun f d t => (fun (_ : Fin 1) => a) f (c t) d * (fun (_ : Fin 1) t => u t) f t := by
    funext _ d t
    show z t d = a (c t) d * u t
    rw [hz]; ring
  rw [hpost, hobs]
  constructor
  · rw [two_level_mask_psd]
    simp only [scene_energy u hu1]
  · rw [two_level_noise_psd]
    simp only [scene_energy u hu1]

/-! ### (c) the EM posteriors of `F` bins lie in the domain of the alignment theorems -/

/-- the posteriors of `F` frequency bins as one `(K+1, F, N)` mask: the cWMM posterior of the scene after `n` iterations
from `twoLevel c g₀ h₀`, the same scene in every bin (the per-bin label order is scrambled afterwards by `permuted`) -/
noncomputable def watsonMask (F : Nat) (pca : Tab (D+1) (Tab (D+1) ℂ) → Tab (D+1) ℂ × ℝ) (kinv lnorm : ℝ → ℝ)
    (tiny : ℝ) (rule : WeightRule) (tie : Tying N) (eps : ℝ) (s : Fin N → ℝ) (c : Fin N → Fin (K+1))
    (z : Fin N → Fin (D+1) → ℂ) (g₀ h₀ : ℝ) (n : Nat) : Align.Tab3 (K+1) F N ℝ :=
  Align.tab3 fun k _ t => eStep tiny (watsonFamily (D+1) pca kinv lnorm)
    (fit tiny (watsonFamily (D+1) pca kinv lnorm) rule tie eps s z n (twoLevel c g₀ h₀)) z k t

/-- after every number `n ≥ 1` of EM iterations the mask of cWMM posteriors IS the generic two-level mask with the levels
`G_n`, `H_n` and the true owner sequence `c` -/
theorem watsonMask_eq_twoLevel (F : Nat) (sc : Scene a c z) (pca : Tab (D+1) (Tab (D+1) ℂ) → Tab (D+1) ℂ × ℝ)
    (hpca : PcaOn pca z) (kinv lnorm : ℝ → ℝ) (hK : 1 ≤ K)
    (hkinv : ∀ x : ℝ, 1 / ((K+1 : ℕ) : ℝ) < x → x ≤ 1 → 0 < kinv x)
    (tiny : ℝ) (htiny : 0 < tiny) (ht : tiny ≤ 1 / ((K+1 : ℕ) : ℝ)) (rule : WeightRule) (tie : Tying N)
    (htie : tie.uniform = true) (eps : ℝ) (s : Fin N → ℝ) (S : ℝ) (hS : 0 < S) (hbal : ∀ k, classMass c s k = S)
    (g₀ h₀ : ℝ) (hgh : g₀ + K * h₀ = 1) (hh0 : 0 ≤ h₀) (hlt : h₀ < g₀) (n : Nat) (hn : 1 ≤ n) :
    watsonMask F pca kinv lnorm tiny rule tie eps s c z g₀ h₀ n
      = Align.twoLevelMask F c (watsonG kinv K g₀ n) (watsonH kinv K g₀ n) := by
  unfold watsonMask Align.twoLevelMask
  congr 1
  funext k _ t
  exact (watson_posterior_two_level sc pca hpca kinv lnorm hK hkinv tiny htiny ht rule tie htie eps s S hS hbal
    g₀ h₀ hgh hh0 hlt n hn).1 k t

/-- **(c), greedy (adjacent-bin) aligner, `cos`.**  `F` bins carry the scene; the cWMM posteriors after ANY number `n ≥ 1`
of iterations, relabelled bin by bin by an ARBITRARY permutation field `π`; leak small, `log (10·N) ≤ κ_n`; alignment
floor `atiny ≤ G_n`.  The aligned posteriors carry the class order of bin 0 in every bin. -/
theorem watson_posteriors_restored_by_greedy {F : Nat} (sc : Scene a c z)
    (pca : Tab (D+1) (Tab (D+1) ℂ) → Tab (D+1) ℂ × ℝ)
    (hpca : PcaOn pca z) (kinv lnorm : ℝ → ℝ) (hK : 1 ≤ K)
    (hkinv : ∀ x : ℝ, 1 / ((K+1 : ℕ) : ℝ) < x → x ≤ 1 → 0 < kinv x)
    (tiny : ℝ) (htiny : 0 < tiny) (ht : tiny ≤ 1 / ((K+1 : ℕ) : ℝ)) (rule : WeightRule) (tie : Tying N)
    (htie : tie.uniform = true) (eps : ℝ) (s : Fin N → ℝ) (S : ℝ) (hS : 0 < S) (hbal : ∀ k, classMass c s k = S)
    (g₀ h₀ : ℝ) (hgh : g₀ + K * h₀ = 1) (hh0 : 0 ≤ h₀) (hlt : h₀ < g₀) (n : Nat) (hn : 1 ≤ n)
    (hκ : Real.log (10 * (N : ℝ)) ≤ kappaSeq kinv K g₀ (n-1)) (atiny : ℝ) (hat : atiny ≤ watsonG kinv K g₀ n)
    (π : Fin F → Equiv.Perm (Fin (K+1))) (k : Fin (K+1)) (f : Fin F) (t : Fin N) :
    let base := watsonMask F pca kinv lnorm tiny rule tie eps s c z g₀ h₀ n
    Align.applyMapping (Align.at3 (Align.permuted base π)) (Align.greedyAligner atiny .cos (Align.permuted base π)) k f t
      = if c t = Align.permAtBin π 0 k then watsonG kinv K g₀ n else watsonH kinv K g₀ n := by
  intro base
  have hb : base = Align.twoLevelMask F c (watsonG kinv K g₀ n) (watsonH kinv K g₀ n) :=
    watsonMask_eq_twoLevel F sc pca hpca kinv lnorm hK hkinv tiny htiny ht rule tie htie eps s S hS hbal g₀ h₀ hgh hh0 hlt
      n hn
  obtain ⟨_, hh, hhg, _⟩ := watson_posterior_two_level sc pca hpca kinv lnorm hK hkinv tiny htiny ht rule tie htie eps s
    S hS hbal g₀ h₀ hgh hh0 hlt n hn
  have hown : ∀ k, ∃ t, c t = k := fun k => Align.own_of_classMass_pos c s k (by rw [hbal k]; exact hS)
  rw [hb]
  exact Align.twoLevel_restored_by_greedy c _ _ atiny hh.le hhg hown (watson_levels_small kinv K N g₀ n hκ) hat π k f t

/-- **(c), DHTV** (`cos`, any assignment algorithm, any plan with `PlanOk`, a majority `Al₀` of bins sharing the order
`σ₀`, alignment floor `0 < atiny ≤ G_n`): in every bin of `alignedAfter` the net reordering `π_f ∘ mapping[:, f]` is `σ₀`
and the re-indexed posterior of class `k` is `G_n` on the frames of source `σ₀ k`, `H_n` elsewhere -/
theorem watson_posteriors_restored_by_dhtv {F : Nat} (sc : Scene a c z)
    (pca : Tab (D+1) (Tab (D+1) ℂ) → Tab (D+1) ℂ × ℝ)
    (hpca : PcaOn pca z) (kinv lnorm : ℝ → ℝ) (hK : 1 ≤ K)
    (hkinv : ∀ x : ℝ, 1 / ((K+1 : ℕ) : ℝ) < x → x ≤ 1 → 0 < kinv x)
    (tiny : ℝ) (htiny : 0 < tiny) (ht : tiny ≤ 1 / ((K+1 : ℕ) : ℝ)) (rule : WeightRule) (tie : Tying N)
    (htie : tie.uniform = true) (eps : ℝ) (s : Fin N → ℝ) (S : ℝ) (hS : 0 < S) (hbal : ∀ k, classMass c s k = S)
    (g₀ h₀ : ℝ) (hgh : g₀ + K * h₀ = 1) (hh0 : 0 ≤ h₀) (hlt : h₀ < g₀) (n : Nat) (hn : 1 ≤ n)
    (hκ : Real.log (10 * (N : ℝ)) ≤ kappaSeq kinv K g₀ (n-1)) (atiny : ℝ) (hat0 : 0 < atiny)
    (hat : atiny ≤ watsonG kinv K g₀ n)
    (algo : Align.Algo) (plan : List (Nat × Nat × Nat)) (π : Fin F → Equiv.Perm (Fin (K+1)))
    (σ0 : Equiv.Perm (Fin (K+1))) (Al0 : Finset (Fin F)) (hAl : ∀ f ∈ Al0, π f = σ0)
    (hplan : Align.PlanOk F (0.81 / 1.21) (1.21 / 0.81 * 0.1) plan Al0) :
    let base := watsonMask F pca kinv lnorm tiny rule tie eps s c z g₀ h₀ n
    ∀ f ∈ Align.alignedAfter F plan Al0, ∀ k,
      (∀ t, Align.at3 (Align.dhtv atiny .cos algo plan (Align.permuted base π)).features k f t
          = Align.normRows atiny base (σ0 k) f t) ∧
      π f (Align.at2 (Align.dhtv atiny .cos algo plan (Align.permuted base π)).mapping k f) = σ0 k ∧
      ∀ t, Align.applyMapping (Align.at3 (Align.permuted base π))
          (Align.at2 (Align.dhtv atiny .cos algo plan (Align.permuted base π)).mapping) k f t
            = if c t = σ0 k then watsonG kinv K g₀ n else watsonH kinv K g₀ n := by
  intro base
  have hb : base = Align.twoLevelMask F c (watsonG kinv K g₀ n) (watsonH kinv K g₀ n) :=
    watsonMask_eq_twoLevel F sc pca hpca kinv lnorm hK hkinv tiny htiny ht rule tie htie eps s S hS hbal g₀ h₀ hgh hh0 hlt
      n hn
  obtain ⟨_, hh, hhg, _⟩ := watson_posterior_two_level sc pca hpca kinv lnorm hK hkinv tiny htiny ht rule tie htie eps s
    S hS hbal g₀ h₀ hgh hh0 hlt n hn
  have hown : ∀ k, ∃ t, c t = k := fun k => Align.own_of_classMass_pos c s k (by rw [hbal k]; exact hS)
  rw [hb]
  exact Align.twoLevel_restored_by_dhtv c _ _ atiny hat0 hh.le hhg hown (watson_levels_small kinv K N g₀ n hκ) hat
    algo plan π σ0 Al0 hAl hplan

/-! ### (d) the chain EM → alignment → global permutation → masks → PSD → noise PSD -/

/-- masks stage: the masks `pipelineMasks post m g` the pipeline hands to the PSD estimator are two-level in the class
order `k ↦ permAtBin π 0 (g k)`, the same in every bin -/
theorem watson_balanced_pipeline_masks {F : Nat} (sc : Scene a c z)
    (pca : Tab (D+1) (Tab (D+1) ℂ) → Tab (D+1) ℂ × ℝ)
    (hpca : PcaOn pca z) (kinv lnorm : ℝ → ℝ) (hK : 1 ≤ K)
    (hkinv : ∀ x : ℝ, 1 / ((K+1 : ℕ) : ℝ) < x → x ≤ 1 → 0 < kinv x)
    (tiny : ℝ) (htiny : 0 < tiny) (ht : tiny ≤ 1 / ((K+1 : ℕ) : ℝ)) (rule : WeightRule) (tie : Tying N)
    (htie : tie.uniform = true) (eps : ℝ) (s : Fin N → ℝ) (S : ℝ) (hS : 0 < S) (hbal : ∀ k, classMass c s k = S)
    (g₀ h₀ : ℝ) (hgh : g₀ + K * h₀ = 1) (hh0 : 0 ≤ h₀) (hlt : h₀ < g₀) (n : Nat) (hn : 1 ≤ n)
    (hκ : Real.log (10 * (N : ℝ)) ≤ kappaSeq kinv K g₀ (n-1)) (atiny : ℝ) (hat : atiny ≤ watsonG kinv K g₀ n)
    (π : Fin F → Equiv.Perm (Fin (K+1))) (g : Fin (K+1) → Fin (K+1)) (f : Fin F) (k : Fin (K+1)) (t : Fin N) :
    let base := watsonMask F pca kinv lnorm tiny rule tie eps s c z g₀ h₀ n
    let post : Fin F → Fin (K+1) → Fin N → ℝ := toFKT (Align.at3 (Align.permuted base π))
    let m : Fin (K+1) → Fin F → Fin (K+1) := Align.greedyAligner atiny .cos (Align.permuted base π)
    pipelineMasks post m g f k t
      = if c t = Align.permAtBin π 0 (g k) then watsonG kinv K g₀ n else watsonH kinv K g₀ n := by
  intro base post m
  rw [pipelineMasks_eq_applyMapping]
  exact watson_posteriors_restored_by_greedy sc pca hpca kinv lnorm hK hkinv tiny htiny ht rule tie htie eps s S hS hbal
    g₀ h₀ hgh hh0 hlt n hn hκ atiny hat π (g k) f t

/-- **(d) End-to-end chain, cWMM, balanced noise-free orthonormal scene.**  Hypotheses: those of
`C03.fixed_point_watson_balanced` (scene, `get_pca` contract, `1 ≤ K`, `kinv > 0` above `1/(K+1)`, guards on `tiny`, uniform
mixture weights, equal class masses, start `twoLevel c g₀ h₀`), small leak `log (10·N) ≤ κ_n = kappaSeq kinv K g₀ (n-1)`,
alignment floor `atiny ≤ G_n`.  `F` frequency bins carry the scene; `n ≥ 1` EM iterations; `π` an ARBITRARY per-bin
relabelling of the EM posteriors; `g` any global permutation; `pfloor` the floor of the PSD normalisation (any real).  With

* `post f k t` = the relabelled cWMM posterior, `(F, K, T)` layout (`toFKT (at3 (permuted (watsonMask …) π))`),
* `m` = the mapping returned by the greedy aligner (`cos`) on these posteriors,
* `obs f d t = z t d`,

the composite `pipelinePsd pfloor obs post m g` of the documented chain satisfies in EVERY bin `f`, for every class `k`:
the `k`-th PSD is the two-level PSD of the ONE true source `σ k = permAtBin π 0 (g k)` (the same `σ` in every bin),
`Σ_j μ_{σk,j} n_j a_j a_jᴴ` with the levels `G_n`, `H_n`, and the noise PSD of target `k` is `Σ_j ν_{σk,j} n_j a_j a_jᴴ`. -/
theorem watson_balanced_pipeline_chain {F : Nat} (sc : Scene a c z)
    (pca : Tab (D+1) (Tab (D+1) ℂ) → Tab (D+1) ℂ × ℝ)
    (hpca : PcaOn pca z) (kinv lnorm : ℝ → ℝ) (hK : 1 ≤ K)
    (hkinv : ∀ x : ℝ, 1 / ((K+1 : ℕ) : ℝ) < x → x ≤ 1 → 0 < kinv x)
    (tiny : ℝ) (htiny : 0 < tiny) (ht : tiny ≤ 1 / ((K+1 : ℕ) : ℝ)) (rule : WeightRule) (tie : Tying N)
    (htie : tie.uniform = true) (eps : ℝ) (s : Fin N → ℝ) (S : ℝ) (hS : 0 < S) (hbal : ∀ k, classMass c s k = S)
    (g₀ h₀ : ℝ) (hgh : g₀ + K * h₀ = 1) (hh0 : 0 ≤ h₀) (hlt : h₀ < g₀) (n : Nat) (hn : 1 ≤ n)
    (hκ : Real.log (10 * (N : ℝ)) ≤ kappaSeq kinv K g₀ (n-1)) (atiny : ℝ) (hat : atiny ≤ watsonG kinv K g₀ n)
    (π : Fin F → Equiv.Perm (Fin (K+1))) (g : Equiv.Perm (Fin (K+1))) (pfloor : ℝ)
    (f : Fin F) (k : Fin (K+1)) (d e : Fin (D+1)) :
    let base := watsonMask F pca kinv lnorm tiny rule tie eps s c z g₀ h₀ n
    let post : Fin F → Fin (K+1) → Fin N → ℝ := toFKT (Align.at3 (Align.permuted base π))
    let m : Fin (K+1) → Fin F → Fin (K+1) := Align.greedyAligner atiny .cos (Align.permuted base π)
    let obs : Fin F → Fin (D+1) → Fin N → ℂ := fun _ d t => z t d
    let σ : Fin (K+1) → Fin (K+1) := fun k => Align.permAtBin π 0 (g k)
    pipelinePsd pfloor obs post m g f k d e =
        ∑ j, ((muW pfloor (watsonG kinv K g₀ n) (watsonH kinv K g₀ n) c (σ k) j * frames c j : ℝ) : ℂ)
          * (a j d * (starRingEnd ℂ) (a j e)) ∧
      noiseFromPsd (pipelinePsd pfloor obs post m g) f k d e =
        ∑ j, ((nuW pfloor (watsonG kinv K g₀ n) (watsonH kinv K g₀ n) c (σ k) j * frames c j : ℝ) : ℂ)
          * (a j d * (starRingEnd ℂ) (a j e)) := by
  intro base post m obs σ
  have hmask : ∀ f k t, pipelineMasks post m g f k t
      = if c t = (g.trans (Align.permAtBin π 0)) k then watsonG kinv K g₀ n else watsonH kinv K g₀ n := fun f k t =>
    watson_balanced_pipeline_masks sc pca hpca kinv lnorm hK hkinv tiny htiny ht rule tie htie eps s S hS hbal
      g₀ h₀ hgh hh0 hlt n hn hκ atiny hat π g f k t
  exact ⟨aligned_twoLevel_psd sc pfloor _ _ (pipelineMasks post m g) (g.trans (Align.permAtBin π 0)) hmask f k d e,
    aligned_twoLevel_noise_psd sc pfloor _ _ (pipelineMasks post m g) (g.trans (Align.permAtBin π 0)) hmask f k d e⟩

end chain

end PbBss.PipelineChainWatson

/-! ### non-vacuity of (d): the two-class scene on the standard basis of `ℂ²` (`scene2`, `a2`, `diagPca`, `pcaOn2` — the scene
of the non-vacuity example of `C03.fixed_point_watson_balanced`), `kinv ≡ 10` (so `κ_n = 10` for every `n`, `E = e^{10}`,
`G_n = E/(E+1)`, `H_n = 1/(E+1)`, `10·N = 20 ≤ e^{10}`), `tiny = 1/4`, alignment floor `1/100`, `F = 3` bins, PSD floor `1e-10`,
ANY start `twoLevel c g₀ h₀` with `g₀ + h₀ = 1`, `0 ≤ h₀ < g₀` (`g₀ = 1, h₀ = 0`: the hard start), an ARBITRARY relabelling
field `π` and an arbitrary global permutation `g` -/
namespace PbBss.PipelineChainWatson.Example
open PbBss.PipelineChain.Example

theorem kappa_const (κ : ℝ) (K : Nat) (g₀ : ℝ) (i : Nat) : kappaSeq (fun _ => κ) K g₀ i = κ := by
  cases i <;> rfl

theorem watsonG_const (κ g₀ : ℝ) (n : Nat) : watsonG (fun _ => κ) 1 g₀ n = Real.exp κ / (Real.exp κ + 1) := by
  unfold watsonG; rw [kappa_const]; norm_num

theorem watsonH_const (κ g₀ : ℝ) (n : Nat) : watsonH (fun _ => κ) 1 g₀ n = 1 / (Real.exp κ + 1) := by
  unfold watsonH; rw [kappa_const]; norm_num

theorem twenty_le_exp_ten : (20 : ℝ) ≤ Real.exp 10 := by
  have h5 := Real.add_one_le_exp (5 : ℝ)
  have h : Real.exp 10 = Real.exp 5 * Real.exp 5 := by rw [← Real.exp_add]; norm_num
  rw [h]; nlinarith

theorem ex_mass (G H : ℝ) (hGH : G + H = 1) (j : Fin 2) : maskMass G H (fun m : Fin 2 => m) j = 1 := by
  fin_cases j <;> simp [maskMass, PipelineChain.Example.ex_frames, Fin.sum_univ_two] <;> linarith

theorem ex_mu (G H : ℝ) (hGH : G + H = 1) (k j : Fin 2) :
    muW 1e-10 G H (fun m : Fin 2 => m) k j = if j = k then G else H := by
  have hm : max (1 : ℝ) 1e-10 = 1 := max_eq_left (by norm_num)
  simp only [muW, ex_mass G H hGH, hm, div_one]

theorem ex_nu (G H : ℝ) (hGH : G + H = 1) (k j : Fin 2) :
    nuW 1e-10 G H (fun m : Fin 2 => m) k j = if j = k then H else G := by
  simp only [nuW, Fin.sum_univ_two, ex_mu G H hGH]
  fin_cases k <;> fin_cases j <;> simp

theorem ex_psd_value (G H : ℝ) (hGH : G + H = 1) (q d e : Fin 2) :
    ∑ j, ((muW 1e-10 G H (fun m : Fin 2 => m) q j * frames (fun m : Fin 2 => m) j : ℝ) : ℂ)
        * (a2 j d * (starRingEnd ℂ) (a2 j e))
      = if d = e then (if d = q then (G : ℂ) else (H : ℂ)) else 0 := by
  simp only [ex_mu G H hGH, PipelineChain.Example.ex_frames]
  fin_cases q <;> fin_cases d <;> fin_cases e <;> simp [a2]

theorem ex_noise_value (G H : ℝ) (hGH : G + H = 1) (q d e : Fin 2) :
    ∑ j, ((nuW 1e-10 G H (fun m : Fin 2 => m) q j * frames (fun m : Fin 2 => m) j : ℝ) : ℂ)
        * (a2 j d * (starRingEnd ℂ) (a2 j e))
      = if d = e then (if d = q then (H : ℂ) else (G : ℂ)) else 0 := by
  simp only [ex_nu G H hGH, PipelineChain.Example.ex_frames]
  fin_cases q <;> fin_cases d <;> fin_cases e <;> simp [a2]

/-- all hypotheses of `watson_balanced_pipeline_chain` hold; after EVERY number `n ≥ 1` of EM iterations, for EVERY
relabelling field `π` over the three bins and every global permutation `g`, the `k`-th PSD of every bin is `diag` with
`E/(E+1)` at the coordinate of the true source `π 0 (g k)` and the leak `1/(E+1)` at the other one (`E = e^{10}`); the noise
PSD has the two values swapped -/
example (n : Nat) (hn : 1 ≤ n) (g₀ h₀ : ℝ) (hgh : g₀ + h₀ = 1) (hh0 : 0 ≤ h₀) (hlt : h₀ < g₀)
    (π : Fin 3 → Equiv.Perm (Fin 2)) (g : Equiv.Perm (Fin 2)) (f : Fin 3) (k d e : Fin 2) :
    let E : ℝ := Real.exp 10
    let base : Align.Tab3 2 3 2 ℝ := watsonMask (K := 1) (D := 1) 3 diagPca (fun _ => 10) (fun _ => 0) (1/4)
      WeightRule.unitNorm ⟨true, 1, tab fun _ => 0⟩ 0 (fun _ => 1) (fun m : Fin 2 => m) a2 g₀ h₀ n
    let post : Fin 3 → Fin 2 → Fin 2 → ℝ := toFKT (Align.at3 (Align.permuted base π))
    let m : Fin 2 → Fin 3 → Fin 2 := Align.greedyAligner (1/100) .cos (Align.permuted base π)
    let obs : Fin 3 → Fin 2 → Fin 2 → ℂ := fun _ d t => a2 t d
    pipelinePsd 1e-10 obs post m g f k d e
        = (if d = e then (if d = π 0 (g k) then ((E / (E + 1) : ℝ) : ℂ) else ((1 / (E + 1) : ℝ) : ℂ)) else 0) ∧
      noiseFromPsd (pipelinePsd 1e-10 obs post m g) f k d e
        = (if d = e then (if d = π 0 (g k) then ((1 / (E + 1) : ℝ) : ℂ) else ((E / (E + 1) : ℝ) : ℂ)) else 0) := by
  intro E base post m obs
  have hE : (20 : ℝ) ≤ E := twenty_le_exp_ten
  have hGH : E / (E + 1) + 1 / (E + 1) = 1 := by field_simp
  have key := watson_balanced_pipeline_chain (K := 1) (D := 1) (F := 3) scene2 diagPca pcaOn2 (fun _ => 10) (fun _ => 0)
    le_rfl (fun _ _ _ => by norm_num) (1/4) (by norm_num) (by norm_num) WeightRule.unitNorm ⟨true, 1, tab fun _ => 0⟩ rfl 0
    (fun _ => 1) 1 one_pos (fun k => by fin_cases k <;> simp [classMass]) g₀ h₀ (by push_cast; linarith) hh0 hlt n hn
    (by rw [kappa_const, Real.log_le_iff_le_exp (by norm_num)]; push_cast; linarith)
    (1/100) (by rw [watsonG_const, div_le_div_iff₀ (by norm_num) (by positivity)]; nlinarith) π g 1e-10 f k d e
  rw [watsonG_const, watsonH_const, permAtBin_zero] at key
  exact ⟨key.1.trans (ex_psd_value _ _ hGH _ d e), key.2.trans (ex_noise_value _ _ hGH _ d e)⟩

end PbBss.PipelineChainWatson.Example

import PbBss.Proofs.OracleReal
import PbBss.Proofs.BlindProof
/-! Analytic part of C16: non-negative patterns with small pairwise cosine stay row dominant under
entry-wise multiplicative jitter of at most 10 %. -/
namespace PbBss.Align
open Function

/-- Euclidean norm of a row, as the model computes it -/
noncomputable def nrm {T : Nat} (x : Fin T → ℝ) : ℝ := Real.sqrt (∑ t, x t * x t)

theorem nrm_sq {T : Nat} (x : Fin T → ℝ) : nrm x * nrm x = ∑ t, x t * x t :=
  Real.mul_self_sqrt (Finset.sum_nonneg fun t _ => mul_self_nonneg _)

theorem nrm_nonneg {T : Nat} (x : Fin T → ℝ) : 0 ≤ nrm x := Real.sqrt_nonneg _

/-- with both norms above `tiny` the model's cosine score is the textbook cosine -/
theorem cos_sim_eq {T : Nat} (tiny : ℝ) (r m : Fin T → ℝ) (hr : tiny ≤ nrm r) (hm : tiny ≤ nrm m) :
    sim tiny .cos r m = (∑ t, m t * r t) / (nrm m * nrm r) := by
  simp only [sim, vecNormalize, vsum_eq_sum, transc_sqrt_real]
  rw [max_eq_left (by simpa [nrm] using hm), max_eq_left (by simpa [nrm] using hr), Finset.sum_div]
  apply Finset.sum_congr rfl
  intro t _
  rw [div_mul_div_comm]; rfl

/-- entry-wise bounds `lo·p ≤ a ≤ hi·p` (p ≥ 0) carry over to the norm -/
theorem nrm_bounds {T : Nat} (a p : Fin T → ℝ) (lo hi : ℝ) (hlo : 0 ≤ lo) (hp : ∀ t, 0 ≤ p t)
    (h1 : ∀ t, lo * p t ≤ a t) (h2 : ∀ t, a t ≤ hi * p t) :
    lo * nrm p ≤ nrm a ∧ nrm a ≤ hi * nrm p := by
  have hhi : ∀ t, 0 ≤ a t := fun t => le_trans (mul_nonneg hlo (hp t)) (h1 t)
  constructor
  · have : lo * nrm p = Real.sqrt ((lo * nrm p) * (lo * nrm p)) :=
      (Real.sqrt_mul_self (mul_nonneg hlo (nrm_nonneg p))).symm
    rw [this]
    apply Real.sqrt_le_sqrt
    have e : (lo * nrm p) * (lo * nrm p) = ∑ t, (lo * p t) * (lo * p t) := by
      rw [mul_mul_mul_comm, nrm_sq, Finset.mul_sum]
      apply Finset.sum_congr rfl; intro t _; ring
    rw [e]
    apply Finset.sum_le_sum
    intro t _
    exact mul_le_mul (h1 t) (h1 t) (mul_nonneg hlo (hp t)) (hhi t)
  · have hhi0 : 0 ≤ hi * nrm p := by
      by_cases hT : ∃ t, 0 < p t
      · obtain ⟨t, ht⟩ := hT
        have : 0 ≤ hi * p t := le_trans (hhi t) (h2 t)
        have hh : 0 ≤ hi := by
          by_contra hneg
          push_neg at hneg
          have := mul_neg_of_neg_of_pos hneg ht
          linarith
        exact mul_nonneg hh (nrm_nonneg p)
      · push_neg at hT
        have hz : ∀ t, p t = 0 := fun t => le_antisymm (hT t) (hp t)
        have : nrm p = 0 := by simp [nrm, hz]
        simp [this]
    have : hi * nrm p = Real.sqrt ((hi * nrm p) * (hi * nrm p)) := (Real.sqrt_mul_self hhi0).symm
    rw [this]
    apply Real.sqrt_le_sqrt
    have e : (hi * nrm p) * (hi * nrm p) = ∑ t, (hi * p t) * (hi * p t) := by
      rw [mul_mul_mul_comm, nrm_sq, Finset.mul_sum]
      apply Finset.sum_congr rfl; intro t _; ring
    rw [e]
    apply Finset.sum_le_sum
    intro t _
    exact mul_le_mul (h2 t) (h2 t) (hhi t) (le_trans (hhi t) (h2 t))

/-- **jitter lemma**: let `a`, `b` be entry-wise within `[0.9, 1.1]` of non-negative patterns `p`, `q`.
Then `0.81/1.21 · cos(p,q) ≤ cos(a,b) ≤ 1.21/0.81 · cos(p,q)` (model cosine, norms above `tiny`). -/
theorem cos_jitter_bounds {T : Nat} (tiny : ℝ) (a b p q : Fin T → ℝ)
    (hp : ∀ t, 0 ≤ p t) (hq : ∀ t, 0 ≤ q t)
    (ha1 : ∀ t, 0.9 * p t ≤ a t) (ha2 : ∀ t, a t ≤ 1.1 * p t)
    (hb1 : ∀ t, 0.9 * q t ≤ b t) (hb2 : ∀ t, b t ≤ 1.1 * q t)
    (hnp : 0 < nrm p) (hnq : 0 < nrm q) (hta : tiny ≤ nrm a) (htb : tiny ≤ nrm b) :
    0.81 / 1.21 * ((∑ t, q t * p t) / (nrm q * nrm p)) ≤ sim tiny .cos a b ∧
    sim tiny .cos a b ≤ 1.21 / 0.81 * ((∑ t, q t * p t) / (nrm q * nrm p)) := by
  rw [cos_sim_eq tiny a b hta htb]
  obtain ⟨na1, na2⟩ := nrm_bounds a p 0.9 1.1 (by norm_num) hp ha1 ha2
  obtain ⟨nb1, nb2⟩ := nrm_bounds b q 0.9 1.1 (by norm_num) hq hb1 hb2
  have ha0 : ∀ t, 0 ≤ a t := fun t => le_trans (mul_nonneg (by norm_num) (hp t)) (ha1 t)
  have hb0 : ∀ t, 0 ≤ b t := fun t => le_trans (mul_nonneg (by norm_num) (hq t)) (hb1 t)
  have hP : 0 ≤ ∑ t, q t * p t := Finset.sum_nonneg fun t _ => mul_nonneg (hq t) (hp t)
  have hA1 : 0.81 * (∑ t, q t * p t) ≤ ∑ t, b t * a t := by
    rw [Finset.mul_sum]
    apply Finset.sum_le_sum; intro t _
    have := mul_le_mul (hb1 t) (ha1 t) (mul_nonneg (by norm_num) (hp t)) (hb0 t)
    linarith
  have hA2 : ∑ t, b t * a t ≤ 1.21 * (∑ t, q t * p t) := by
    rw [Finset.mul_sum]
    apply Finset.sum_le_sum; intro t _
    have := mul_le_mul (hb2 t) (ha2 t) (ha0 t) (le_trans (hb0 t) (hb2 t))
    linarith
  have hna : 0 < nrm a := lt_of_lt_of_le (by positivity) na1
  have hnb : 0 < nrm b := lt_of_lt_of_le (by positivity) nb1
  have hden1 : 0.81 * (nrm q * nrm p) ≤ nrm b * nrm a := by
    have := mul_le_mul nb1 na1 (by positivity) (le_of_lt hnb)
    linarith
  have hden2 : nrm b * nrm a ≤ 1.21 * (nrm q * nrm p) := by
    have := mul_le_mul nb2 na2 (le_of_lt hna) (by positivity)
    linarith
  have hd : 0 < nrm q * nrm p := mul_pos hnq hnp
  have hd' : 0 < nrm b * nrm a := mul_pos hnb hna
  constructor
  · rw [div_mul_div_comm, div_le_div_iff₀ (by positivity) hd']
    have h1 : 0.81 * (∑ t, q t * p t) * (nrm b * nrm a) ≤ 0.81 * (∑ t, q t * p t) * (1.21 * (nrm q * nrm p)) :=
      mul_le_mul_of_nonneg_left hden2 (by positivity)
    have h2 : 0.81 * (∑ t, q t * p t) * (1.21 * (nrm q * nrm p)) ≤ (∑ t, b t * a t) * (1.21 * (nrm q * nrm p)) :=
      mul_le_mul_of_nonneg_right hA1 (by positivity)
    linarith
  · rw [div_mul_div_comm, div_le_div_iff₀ hd' (by positivity)]
    have hA0 : 0 ≤ ∑ t, b t * a t := Finset.sum_nonneg fun t _ => mul_nonneg (hb0 t) (ha0 t)
    have h1 : (∑ t, b t * a t) * (0.81 * (nrm q * nrm p)) ≤ (∑ t, b t * a t) * (nrm b * nrm a) :=
      mul_le_mul_of_nonneg_left hden1 hA0
    have h2 : (∑ t, b t * a t) * (0.81 * (nrm q * nrm p)) ≤ 1.21 * (∑ t, q t * p t) * (0.81 * (nrm q * nrm p)) :=
      mul_le_mul_of_nonneg_right hA2 (by positivity)
    nlinarith [h1, h2]

end PbBss.Align

namespace PbBss.Align

/-- **C16 analytic domain ⇒ adjacent-bin row dominance** (cos metric): non-negative patterns with pairwise
cosine ≤ 0.1, every bin of the consistent mask within ±10 % of its class pattern. -/
theorem jitter_adjacent_dominant {K F T : Nat} (tiny : ℝ) (pat : Fin K → Fin T → ℝ) (base : Tab3 K F T ℝ)
    (hpat : ∀ k t, 0 ≤ pat k t) (hn : ∀ k, 0 < nrm (pat k))
    (hcos : ∀ k k', k' ≠ k → (∑ t, pat k' t * pat k t) ≤ 0.1 * (nrm (pat k') * nrm (pat k)))
    (hj1 : ∀ k f t, 0.9 * pat k t ≤ at3 base k f t) (hj2 : ∀ k f t, at3 base k f t ≤ 1.1 * pat k t)
    (ht : ∀ k f, tiny ≤ nrm (fun t => at3 base k f t)) :
    AdjacentDominant tiny .cos base := by
  intro f h k k' hk
  have hf1 : f - 1 < F := by omega
  obtain ⟨-, hup⟩ := cos_jitter_bounds tiny (fun t => at3 base k ⟨f - 1, hf1⟩ t) (fun t => at3 base k' ⟨f, h.2⟩ t)
    (pat k) (pat k') (hpat k) (hpat k') (fun t => hj1 k _ t) (fun t => hj2 k _ t)
    (fun t => hj1 k' _ t) (fun t => hj2 k' _ t) (hn k) (hn k') (ht k _) (ht k' _)
  obtain ⟨hlo, -⟩ := cos_jitter_bounds tiny (fun t => at3 base k ⟨f - 1, hf1⟩ t) (fun t => at3 base k ⟨f, h.2⟩ t)
    (pat k) (pat k) (hpat k) (hpat k) (fun t => hj1 k _ t) (fun t => hj2 k _ t)
    (fun t => hj1 k _ t) (fun t => hj2 k _ t) (hn k) (hn k) (ht k _) (ht k _)
  have hself : (∑ t, pat k t * pat k t) / (nrm (pat k) * nrm (pat k)) = 1 := by
    rw [nrm_sq]; exact div_self (by rw [← nrm_sq]; exact ne_of_gt (mul_pos (hn k) (hn k)))
  have hcross : (∑ t, pat k' t * pat k t) / (nrm (pat k') * nrm (pat k)) ≤ 0.1 := by
    rw [div_le_iff₀ (mul_pos (hn k') (hn k))]; exact hcos k k' hk
  rw [hself] at hlo
  calc sim tiny .cos (fun t => at3 base k ⟨f - 1, hf1⟩ t) (fun t => at3 base k' ⟨f, h.2⟩ t)
      ≤ 1.21 / 0.81 * ((∑ t, pat k' t * pat k t) / (nrm (pat k') * nrm (pat k))) := hup
    _ ≤ 1.21 / 0.81 * 0.1 := by apply mul_le_mul_of_nonneg_left hcross; norm_num
    _ < 0.81 / 1.21 * 1 := by norm_num
    _ ≤ _ := hlo

end PbBss.Align

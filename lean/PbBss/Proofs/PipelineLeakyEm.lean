import PbBss.Proofs.PipelineLeaky
import PbBss.Proofs.FixedPointCacgChain
/-! C17 × C03: the PSD estimator of the pipeline (`Pipeline.psd`) applied to the EM posterior itself
(`Em.eStep … (Em.fit … n (hardStart c))` of the cACG mixture) in the balanced noise-free orthonormal scene, one bin.
Combines `cacg_trajectory_stationary` (the posterior after every number `n ≥ 1` of iterations is exactly two-level,
`g = E/(E+K)`, `h = 1/(E+K)`, `E = floor^{-(D+1)}`) with `two_level_mask_psd` / `two_level_noise_psd`. -/
open Matrix PbBss PbBss.Pipeline PbBss.Em PbBss.FixedPoint PbBss.FixedPoint.CacgChain

namespace PbBss.PipelineProof

variable {K N D : Nat} {a : Fin (K+1) → Fin (D+1) → ℂ} {c : Fin N → Fin (K+1)} {z : Fin N → Fin (D+1) → ℂ}

/-- the two levels of the stationary cACG posterior: `g = E/(E+K)`, `h = 1/(E+K)`, `E = floor^{-(D+1)}` -/
noncomputable def cacgG (K D : Nat) (floor : ℝ) : ℝ := ratioE D floor / (ratioE D floor + K)
noncomputable def cacgH (K D : Nat) (floor : ℝ) : ℝ := 1 / (ratioE D floor + K)

theorem cacg_levels (K D : Nat) (floor : ℝ) (hf0 : 0 < floor) (hf1 : floor < 1) :
    cacgG K D floor + K * cacgH K D floor = 1 ∧ 0 < cacgH K D floor ∧ cacgH K D floor < cacgG K D floor := by
  have hE : 1 < ratioE D floor := one_lt_ratioE D floor hf0 hf1
  have hK0 : (0 : ℝ) ≤ K := Nat.cast_nonneg K
  have h3 : 0 < ratioE D floor + K := by positivity
  refine ⟨by unfold cacgG cacgH; field_simp, by unfold cacgH; positivity, ?_⟩
  unfold cacgG cacgH
  exact div_lt_div_of_pos_right hE h3

/-- the scene data in the form the pipeline theorems use: `z t d = a (c t) d · u t` with unit phases, so every source
energy is its frame count -/
theorem scene_energy (u : Fin N → ℂ) (hu : ∀ n, Complex.normSq (u n) = 1) (j : Fin (K+1)) :
    energy c (fun (_ : Fin 1) t => u t) 0 j = frames c j := by
  unfold energy frames
  refine Finset.sum_congr rfl fun t _ => ?_
  rw [hu]

/-- **(v) EM posterior → PSD, end to end (cACGMM, balanced noise-free orthonormal scene, one bin).**  Hypotheses: those
of `cacg_trajectory_stationary` (scene, `eigh` contract, guards on `tiny`, `0 < floor < 1` the eigenvalue floor of the
cACG M-step, uniform mixture weights, equal class masses).  For every number of EM iterations `n ≥ 1` from the hard true
partition, `get_power_spectral_density_matrix` (model `psd`, its own floor `pfloor` kept as `max`) applied to the SAME
observations and to the posterior `eStep (fit … n (hardStart c))` as masks returns, for every class `k`,
`Σ_j μ_kj · n_j · a_j a_jᴴ` with `μ_kj = (if j = k then g else h)/max(g n_k + h Σ_{j≠k} n_j, pfloor)`, and the noise PSD of
target `k` is `Σ_j ν_kj · n_j · a_j a_jᴴ` (`ν_kk > 0`: the target leaks). -/
theorem em_posterior_psd (eigh : Tab (D+1) (Tab (D+1) ℂ) → Tab (D+1) (Tab (D+1) ℂ) × Tab (D+1) ℝ) (tiny floor : ℝ)
    (rule : WeightRule) (tie : Tying N) (eps : ℝ) (s : Fin N → ℝ)
    (sc : Scene a c z) (heigh : EighOn eigh tiny z) (htiny : 0 < tiny)
    (h10 : ((10 : ℕ) : ℝ) * tiny ≤ 1) (ht : tiny ≤ 1 / ((K+1 : ℕ) : ℝ)) (hf0 : 0 < floor) (hf1 : floor < 1)
    (htie : tie.uniform = true) (S : ℝ) (hS : tiny ≤ S) (hbal : ∀ k, classMass c s k = S) (n : Nat) (hn : 1 ≤ n)
    (pfloor : ℝ) (k : Fin (K+1)) (d e : Fin (D+1)) :
    let post : Fin 1 → Fin (K+1) → Fin N → ℝ := fun _ k t =>
      eStep tiny (cacgFamily D eigh CovNorm.eigenvalue floor tiny)
        (fit tiny (cacgFamily D eigh CovNorm.eigenvalue floor tiny) rule tie eps s z n (hardStart c)) z k t
    let obs : Fin 1 → Fin (D+1) → Fin N → ℂ := fun _ d t => z t d
    psd pfloor obs post 0 k d e =
        ∑ j, ((muW pfloor (cacgG K D floor) (cacgH K D floor) c k j * frames c j : ℝ) : ℂ)
          * (a j d * (starRingEnd ℂ) (a j e)) ∧
      noiseFromPsd (psd pfloor obs post) 0 k d e =
        ∑ j, ((nuW pfloor (cacgG K D floor) (cacgH K D floor) c k j * frames c j : ℝ) : ℂ)
          * (a j d * (starRingEnd ℂ) (a j e)) := by
  intro post obs
  obtain ⟨u, hu1, hz⟩ := sc.obs
  have hpost : post = fun _ k t => if c t = k then cacgG K D floor else cacgH K D floor := by
    funext _ k t
    exact (cacg_trajectory_stationary eigh tiny floor rule tie eps s sc heigh htiny h10 ht hf0 hf1 htie S hS hbal n hn).2 k t
  have hobs : obs = fun f d t => (fun (_ : Fin 1) => a) f (c t) d * (fun (_ : Fin 1) t => u t) f t := by
    funext _ d t
    show z t d = a (c t) d * u t
    rw [hz]; ring
  rw [hpost, hobs]
  constructor
  · rw [two_level_mask_psd]
    simp only [scene_energy u hu1]
  · rw [two_level_noise_psd]
    simp only [scene_energy u hu1]

theorem ratioE_half : ratioE 1 (1/2) = 4 := by
  unfold ratioE
  have h : -((((1+1 : ℕ) : ℝ)) * Real.log (1/2)) = Real.log 4 := by
    rw [one_div, Real.log_inv, show (4 : ℝ) = 2 ^ (2 : ℕ) by norm_num, Real.log_pow]
    push_cast; ring
  rw [h, Real.exp_log (by norm_num)]

/-- non-vacuity of (v): the two-class scene on the standard basis of `ℂ²` of `FixedPointCacgChain` (`tiny = 1/100`,
eigenvalue floor `1/2`, hence `E = 4`, `g = 4/5`, `h = 1/5`), PSD floor `1e-10`: all hypotheses of `em_posterior_psd` hold,
and after EVERY number `n ≥ 1` of EM iterations the PSD of class 0 computed from the EM posterior has the entries
`(0,0) = 4/5` (target) and `(1,1) = 1/5` (leak of source 1). -/
example (n : Nat) (hn : 1 ≤ n) :
    let P := psd 1e-10 (fun (_ : Fin 1) d t => a2 t d)
      (fun (_ : Fin 1) k t => eStep (1/100) (cacgFamily 1 diagEigh CovNorm.eigenvalue (1/2) (1/100))
        (fit (1/100) (cacgFamily 1 diagEigh CovNorm.eigenvalue (1/2) (1/100)) WeightRule.mean ⟨true, 1, tab fun _ => 0⟩ 0
          (fun _ => 1) a2 n (hardStart fun m : Fin 2 => m)) a2 k t)
    P 0 0 0 0 = 4/5 ∧ P 0 0 1 1 = 1/5 := by
  intro P
  have key := fun d e => (em_posterior_psd (K := 1) diagEigh (1/100) (1/2) WeightRule.mean ⟨true, 1, tab fun _ => 0⟩ 0
    (fun _ => 1) scene2 (eighOn2 _) (by norm_num) (by norm_num) (by norm_num) (by norm_num) (by norm_num) rfl 1
    (by norm_num) (fun k => by fin_cases k <;> simp [classMass]) n hn 1e-10 0 d e).1
  have hg : cacgG 1 1 (1/2) = 4/5 := by unfold cacgG; rw [ratioE_half]; norm_num
  have hh : cacgH 1 1 (1/2) = 1/5 := by unfold cacgH; rw [ratioE_half]; norm_num
  have hfr : ∀ j : Fin 2, frames (fun m : Fin 2 => m) j = 1 := by
    intro j; fin_cases j <;> simp [frames]
  have hm : ∀ j : Fin 2, maskMass (4/5) (1/5) (fun m : Fin 2 => m) j = 1 := by
    intro j; fin_cases j <;> simp [maskMass, hfr, Fin.sum_univ_two] <;> norm_num
  have hmax : max (1 : ℝ) 1e-10 = 1 := max_eq_left (by norm_num)
  constructor
  · show P 0 0 0 0 = 4/5
    rw [show P 0 0 0 0 = _ from key 0 0]
    simp only [hg, hh, muW, hm, hmax, hfr]
    simp [a2]
  · show P 0 0 1 1 = 1/5
    rw [show P 0 0 1 1 = _ from key 1 1]
    simp only [hg, hh, muW, hm, hmax, hfr]
    simp [a2]

end PbBss.PipelineProof

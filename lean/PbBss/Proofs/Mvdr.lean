import Mathlib.LinearAlgebra.Matrix.PosDef
import Mathlib.Analysis.Matrix.PosDef
import Mathlib.Data.Complex.Basic
import Mathlib.Tactic

open Matrix Complex
open scoped ComplexOrder

variable {n : Type} [Fintype n] [DecidableEq n]

theorem herm_swap (Φ : Matrix n n ℂ) (hΦ : Φ.IsHermitian) (x y : n → ℂ) :
    star (Φ *ᵥ x) ⬝ᵥ y = star x ⬝ᵥ Φ *ᵥ y := by
  rw [star_mulVec, hΦ.eq, dotProduct_mulVec]

/-- MVDR core: `u` solves `Φ u = a` (external solver contract). -/
theorem mvdr_distortionless (Φ : Matrix n n ℂ) (hΦ : Φ.IsHermitian) (a u : n → ℂ)
    (hu : Φ *ᵥ u = a) (hq : star a ⬝ᵥ u ≠ 0) :
    star ((star a ⬝ᵥ u)⁻¹ • u) ⬝ᵥ a = 1 := by
  have hq' : star a ⬝ᵥ u = star u ⬝ᵥ Φ *ᵥ u := by rw [← hu, herm_swap Φ hΦ]
  have hreal : star (star a ⬝ᵥ u) = star a ⬝ᵥ u := by
    rw [hq', ← herm_swap Φ hΦ u u, ← star_dotProduct, herm_swap Φ hΦ]
  have h2 : star u ⬝ᵥ a = star a ⬝ᵥ u := by rw [← hu, ← hq', hu]
  rw [star_smul, smul_dotProduct, h2, smul_eq_mul, star_inv₀, hreal]
  exact inv_mul_cancel₀ hq

theorem mvdr_optimal (Φ : Matrix n n ℂ) (hΦ : Φ.PosSemidef) (a u v : n → ℂ)
    (hu : Φ *ᵥ u = a) (hq : star a ⬝ᵥ u ≠ 0) (hv : star v ⬝ᵥ a = 1) :
    let w := (star a ⬝ᵥ u)⁻¹ • u
    (star w ⬝ᵥ Φ *ᵥ w).re ≤ (star v ⬝ᵥ Φ *ᵥ v).re := by
  intro w
  have hw : star w ⬝ᵥ a = 1 := mvdr_distortionless Φ hΦ.1 a u hu hq
  set x := v - w with hx
  have hxa : star x ⬝ᵥ a = 0 := by simp [hx, sub_dotProduct, hv, hw]
  have hΦw : Φ *ᵥ w = (star a ⬝ᵥ u)⁻¹ • a := by simp [w, mulVec_smul, hu]
  have c1 : star x ⬝ᵥ Φ *ᵥ w = 0 := by rw [hΦw, dotProduct_smul, hxa, smul_zero]
  have c2 : star w ⬝ᵥ Φ *ᵥ x = 0 := by
    rw [← herm_swap Φ hΦ.1, star_dotProduct, c1, star_zero]
  have hv' : v = w + x := by simp [hx]
  have : star v ⬝ᵥ Φ *ᵥ v = star w ⬝ᵥ Φ *ᵥ w + star x ⬝ᵥ Φ *ᵥ x := by
    rw [hv', star_add, mulVec_add, add_dotProduct, dotProduct_add, dotProduct_add, c1, c2]
    ring
  rw [this, Complex.add_re]
  have := hΦ.re_dotProduct_nonneg x
  simp only [RCLike.re_to_complex] at this
  linarith


import PbBss.Model.Em
import PbBss.Proofs.RealInst
import PbBss.Proofs.EmProof
import PbBss.Proofs.GaussM
import Mathlib.Analysis.Matrix.Order
import Mathlib.Analysis.Matrix.PosDef
import Mathlib.LinearAlgebra.Matrix.PosDef
import Mathlib.LinearAlgebra.Matrix.NonsingularInverse
import Mathlib.Analysis.SpecialFunctions.Log.Basic
import Mathlib.Tactic
/-! # C02 for the cACG family: one Tyler / Ito M-step does not decrease the component part of `Q`

Layer 1 (`tyler_step_improves`): the minorise–maximise inequality over `Matrix (Fin d) (Fin d) ℂ`.
Layer 2 (`cacg_mstep_improves`): the same for `PbBss.Em.cacgMstep` at `α := ℝ`, `β := ℂ`. -/
open PbBss PbBss.Em Finset Matrix
open scoped ComplexOrder MatrixOrder

namespace PbBss.EmCacg

/-! ## Layer 1: matrices -/
section matrix
variable {d N : ℕ}

/-- `re (zᴴ B⁻¹ z)` -/
noncomputable def qf (B : Matrix (Fin d) (Fin d) ℂ) (z : Fin d → ℂ) : ℝ :=
  (star z ⬝ᵥ B⁻¹ *ᵥ z).re

/-- the cACG log-density up to its constant: `−d·log(zᴴB⁻¹z) − log det B` -/
noncomputable def acgVal (B : Matrix (Fin d) (Fin d) ℂ) (z : Fin d → ℂ) : ℝ :=
  -(d : ℝ) * Real.log (qf B z) - Real.log (B.det).re

theorem quad_eq_trace (M : Matrix (Fin d) (Fin d) ℂ) (z : Fin d → ℂ) :
    star z ⬝ᵥ M *ᵥ z = (M * vecMulVec z (star z)).trace := by
  simp only [dotProduct, mulVec, trace, diag_apply, mul_apply, vecMulVec_apply, Finset.mul_sum]
  refine Finset.sum_congr rfl fun i _ => Finset.sum_congr rfl fun j _ => ?_
  simp only [Pi.star_apply]
  ring

theorem qf_zero (B : Matrix (Fin d) (Fin d) ℂ) : qf B 0 = 0 := by
  simp [qf]

theorem qf_pos {B : Matrix (Fin d) (Fin d) ℂ} (hB : B.PosDef) {z : Fin d → ℂ} (hz : z ≠ 0) :
    0 < qf B z := by
  have := hB.inv.re_dotProduct_pos hz
  simpa [qf] using this

theorem ne_zero_of_qf_pos {B : Matrix (Fin d) (Fin d) ℂ} {z : Fin d → ℂ} (h : 0 < qf B z) : z ≠ 0 := by
  rintro rfl
  rw [qf_zero] at h
  exact lt_irrefl _ h

theorem det_re_pos {B : Matrix (Fin d) (Fin d) ℂ} (hB : B.PosDef) : 0 < (B.det).re :=
  (Complex.lt_def.mp hB.det_pos).1

theorem posDef_smul {B : Matrix (Fin d) (Fin d) ℂ} (hB : B.PosDef) {r : ℝ} (hr : 0 < r) :
    ((r : ℂ) • B).PosDef := by
  have h : (0 : ℂ) < (r : ℂ) := by exact_mod_cast hr
  exact hB.smul h

theorem inv_smul_real {B : Matrix (Fin d) (Fin d) ℂ} (hB : B.PosDef) {r : ℝ} (hr : 0 < r) :
    ((r : ℂ) • B)⁻¹ = ((r⁻¹ : ℝ) : ℂ) • B⁻¹ := by
  apply Matrix.inv_eq_right_inv
  have hu : IsUnit B.det := isUnit_iff_ne_zero.mpr hB.det_pos.ne'
  rw [Matrix.smul_mul, Matrix.mul_smul, smul_smul, Matrix.mul_nonsing_inv _ hu]
  have : (r : ℂ) * ((r⁻¹ : ℝ) : ℂ) = 1 := by
    rw [← Complex.ofReal_mul, mul_inv_cancel₀ hr.ne', Complex.ofReal_one]
  rw [this, one_smul]

theorem qf_smul {B : Matrix (Fin d) (Fin d) ℂ} (hB : B.PosDef) {r : ℝ} (hr : 0 < r) (z : Fin d → ℂ) :
    qf ((r : ℂ) • B) z = qf B z / r := by
  unfold qf
  rw [inv_smul_real hB hr, Matrix.smul_mulVec, dotProduct_smul, smul_eq_mul, Complex.re_ofReal_mul]
  field_simp

theorem det_smul_re {B : Matrix (Fin d) (Fin d) ℂ} (r : ℝ) :
    (((r : ℂ) • B).det).re = r ^ d * (B.det).re := by
  rw [Matrix.det_smul, Fintype.card_fin, ← Complex.ofReal_pow, Complex.re_ofReal_mul]

/-- scale invariance of the cACG density: `B` and `r·B` (`r > 0`) give the same value -/
theorem acgVal_smul {B : Matrix (Fin d) (Fin d) ℂ} (hB : B.PosDef) {r : ℝ} (hr : 0 < r)
    {z : Fin d → ℂ} (hz : z ≠ 0) : acgVal ((r : ℂ) • B) z = acgVal B z := by
  unfold acgVal
  have hq := qf_pos hB hz
  have hd := det_re_pos hB
  rw [qf_smul hB hr, det_smul_re, Real.log_div hq.ne' hr.ne',
    Real.log_mul (pow_pos hr d).ne' hd.ne', Real.log_pow]
  ring

/-- the Tyler / Ito scatter `(d / Σ c) · Σ_n (c_n / q₀_n) z_n z_nᴴ` with `q₀_n = zᴴ B₀⁻¹ z` -/
noncomputable def tylerS (B₀ : Matrix (Fin d) (Fin d) ℂ) (c : Fin N → ℝ) (z : Fin N → Fin d → ℂ) :
    Matrix (Fin d) (Fin d) ℂ :=
  (((d : ℝ) / ∑ n, c n : ℝ) : ℂ) •
    ∑ n, ((c n / qf B₀ (z n) : ℝ) : ℂ) • vecMulVec (z n) (star (z n))

theorem trace_mul_tylerS (M B₀ : Matrix (Fin d) (Fin d) ℂ) (c : Fin N → ℝ) (z : Fin N → Fin d → ℂ) :
    ((M * tylerS B₀ c z).trace).re =
      (d : ℝ) / (∑ n, c n) * ∑ n, c n / qf B₀ (z n) * (star (z n) ⬝ᵥ M *ᵥ z n).re := by
  unfold tylerS
  rw [Matrix.mul_smul, trace_smul, smul_eq_mul, Complex.re_ofReal_mul, Matrix.mul_sum, trace_sum,
    Complex.re_sum]
  congr 1
  refine Finset.sum_congr rfl fun n _ => ?_
  rw [Matrix.mul_smul, trace_smul, smul_eq_mul, Complex.re_ofReal_mul, quad_eq_trace]

theorem trace_inv_mul_tylerS {B₀ : Matrix (Fin d) (Fin d) ℂ} (c : Fin N → ℝ) (z : Fin N → Fin d → ℂ)
    (hC : 0 < ∑ n, c n) (hq : ∀ n, 0 < qf B₀ (z n)) :
    ((B₀⁻¹ * tylerS B₀ c z).trace).re = d := by
  rw [trace_mul_tylerS]
  have : ∀ n, c n / qf B₀ (z n) * (star (z n) ⬝ᵥ B₀⁻¹ *ᵥ z n).re = c n := by
    intro n
    have := (hq n).ne'
    change c n / qf B₀ (z n) * qf B₀ (z n) = c n
    field_simp
  simp_rw [this]
  field_simp

theorem sum_ratio_tylerS {B₀ : Matrix (Fin d) (Fin d) ℂ} (c : Fin N → ℝ) (z : Fin N → Fin d → ℂ)
    (hC : 0 < ∑ n, c n) (hd : 0 < d) (hS : (tylerS B₀ c z).PosDef) :
    ∑ n, c n * (qf (tylerS B₀ c z) (z n) / qf B₀ (z n)) = ∑ n, c n := by
  have h := trace_mul_tylerS (tylerS B₀ c z)⁻¹ B₀ c z
  have hu : IsUnit (tylerS B₀ c z).det := isUnit_iff_ne_zero.mpr hS.det_pos.ne'
  rw [Matrix.nonsing_inv_mul _ hu, trace_one, Fintype.card_fin] at h
  simp only [Complex.natCast_re] at h
  have hd' : (0 : ℝ) < d := by exact_mod_cast hd
  have e : ∑ n, c n * (qf (tylerS B₀ c z) (z n) / qf B₀ (z n))
      = ∑ n, c n / qf B₀ (z n) * (star (z n) ⬝ᵥ (tylerS B₀ c z)⁻¹ *ᵥ z n).re := by
    refine Finset.sum_congr rfl fun n _ => ?_
    unfold qf
    ring
  rw [e]
  set T := ∑ n, c n / qf B₀ (z n) * (star (z n) ⬝ᵥ (tylerS B₀ c z)⁻¹ *ᵥ z n).re
  field_simp at h
  linarith

/-- **Tyler / Ito minorise–maximise step** (matrix level): replacing `B₀` by the scatter
`S = (d/C) Σ (c_n / q₀_n) z_n z_nᴴ` does not decrease `Σ c_n (−d log(zᴴB⁻¹z) − log det B)`. -/
theorem tyler_step_improves (B₀ : Matrix (Fin d) (Fin d) ℂ) (hB₀ : B₀.PosDef) (c : Fin N → ℝ)
    (z : Fin N → Fin d → ℂ) (hc : ∀ n, 0 ≤ c n) (hC : 0 < ∑ n, c n) (hq : ∀ n, 0 < qf B₀ (z n))
    (hS : (tylerS B₀ c z).PosDef) :
    ∑ n, c n * acgVal B₀ (z n) ≤ ∑ n, c n * acgVal (tylerS B₀ c z) (z n) := by
  set S := tylerS B₀ c z with hSdef
  have hz : ∀ n, z n ≠ 0 := fun n => ne_zero_of_qf_pos (hq n)
  have hq' : ∀ n, 0 < qf S (z n) := fun n => qf_pos hS (hz n)
  -- `0 < d`
  have hd : 0 < d := by
    rcases Nat.eq_zero_or_pos d with h0 | h0
    · subst h0
      have hN : (univ : Finset (Fin N)).Nonempty := by
        by_contra hne
        rw [Finset.not_nonempty_iff_eq_empty] at hne
        rw [hne, Finset.sum_empty] at hC
        exact lt_irrefl _ hC
      obtain ⟨n, _⟩ := hN
      exact absurd (Subsingleton.elim (z n) 0) (hz n)
    · exact h0
  -- determinant part
  have hdet : Real.log (S.det).re ≤ Real.log (B₀.det).re := by
    have h := gaussian_mstep_crux B₀ S hB₀ hS
    rw [hSdef, trace_inv_mul_tylerS c z hC hq, Fintype.card_fin] at h
    linarith
  -- quadratic-form part
  have hterm : ∀ n, c n * acgVal B₀ (z n) - (d : ℝ) * (c n * (qf S (z n) / qf B₀ (z n)) - c n)
        + c n * (Real.log (B₀.det).re - Real.log (S.det).re) ≤ c n * acgVal S (z n) := by
    intro n
    have hlog := Real.log_le_sub_one_of_pos (div_pos (hq' n) (hq n))
    rw [Real.log_div (hq' n).ne' (hq n).ne'] at hlog
    unfold acgVal
    have hd' : (0 : ℝ) ≤ d := Nat.cast_nonneg d
    have h1 : c n * ((d : ℝ) * (Real.log (qf S (z n)) - Real.log (qf B₀ (z n))))
        ≤ c n * ((d : ℝ) * (qf S (z n) / qf B₀ (z n) - 1)) :=
      mul_le_mul_of_nonneg_left (mul_le_mul_of_nonneg_left hlog hd') (hc n)
    nlinarith [h1]
  have hsum := Finset.sum_le_sum fun n (_ : n ∈ (univ : Finset (Fin N))) => hterm n
  rw [Finset.sum_add_distrib, Finset.sum_sub_distrib, ← Finset.mul_sum, Finset.sum_sub_distrib,
    sum_ratio_tylerS c z hC hd hS, ← Finset.sum_mul] at hsum
  have : 0 ≤ (∑ n, c n) * (Real.log (B₀.det).re - Real.log (S.det).re) :=
    mul_nonneg hC.le (by linarith)
  linarith

end matrix

/-! ## Spectral form `U diag(l) Uᴴ` -/
section spectral
variable {d : ℕ}

/-- `U diag(l) Uᴴ` -/
noncomputable def specM (U : Matrix (Fin d) (Fin d) ℂ) (l : Fin d → ℝ) : Matrix (Fin d) (Fin d) ℂ :=
  U * diagonal (fun e => ((l e : ℝ) : ℂ)) * Uᴴ

theorem specM_smul (U : Matrix (Fin d) (Fin d) ℂ) (l : Fin d → ℝ) (r : ℝ) :
    specM U (fun e => r * l e) = (r : ℂ) • specM U l := by
  unfold specM
  have : diagonal (fun e => ((r * l e : ℝ) : ℂ)) = (r : ℂ) • diagonal (fun e => ((l e : ℝ) : ℂ)) := by
    ext i j
    by_cases h : i = j
    · subst h; simp
    · simp [h]
  rw [this, Matrix.mul_smul, Matrix.smul_mul]

theorem unitary_comm {U : Matrix (Fin d) (Fin d) ℂ} (hU : Uᴴ * U = 1) : U * Uᴴ = 1 :=
  mul_eq_one_comm.mp hU

theorem specM_posDef {U : Matrix (Fin d) (Fin d) ℂ} (hU : Uᴴ * U = 1) {l : Fin d → ℝ}
    (hl : ∀ e, 0 < l e) : (specM U l).PosDef := by
  have hU' := unitary_comm hU
  have hunit : IsUnit U := ⟨⟨U, Uᴴ, hU', hU⟩, rfl⟩
  have hinj : Function.Injective U.vecMul := Matrix.vecMul_injective_of_isUnit hunit
  have hdiag : (diagonal fun i => ((l i : ℝ) : ℂ)).PosDef :=
    PosDef.diagonal fun i => by exact_mod_cast hl i
  exact hdiag.mul_mul_conjTranspose_same hinj

theorem specM_inv {U : Matrix (Fin d) (Fin d) ℂ} (hU : Uᴴ * U = 1) {l : Fin d → ℝ}
    (hl : ∀ e, l e ≠ 0) : (specM U l)⁻¹ = specM U (fun e => (l e)⁻¹) := by
  apply Matrix.inv_eq_right_inv
  unfold specM
  have hdd : diagonal (fun e => ((l e : ℝ) : ℂ)) * diagonal (fun e => (((l e)⁻¹ : ℝ) : ℂ)) = 1 := by
    rw [diagonal_mul_diagonal, ← diagonal_one]
    congr 1
    funext e
    rw [← Complex.ofReal_mul, mul_inv_cancel₀ (hl e), Complex.ofReal_one]
  calc U * diagonal (fun e => ((l e : ℝ) : ℂ)) * Uᴴ * (U * diagonal (fun e => (((l e)⁻¹ : ℝ) : ℂ)) * Uᴴ)
      = U * (diagonal (fun e => ((l e : ℝ) : ℂ)) * ((Uᴴ * U) * diagonal (fun e => (((l e)⁻¹ : ℝ) : ℂ)))) * Uᴴ := by
        simp only [Matrix.mul_assoc]
    _ = 1 := by rw [hU, Matrix.one_mul, hdd, Matrix.mul_one, unitary_comm hU]

theorem specM_det {U : Matrix (Fin d) (Fin d) ℂ} (hU : Uᴴ * U = 1) (l : Fin d → ℝ) :
    (specM U l).det = ((∏ e, l e : ℝ) : ℂ) := by
  unfold specM
  rw [det_mul, det_mul, det_diagonal, mul_comm (det U), mul_assoc, ← det_mul, unitary_comm hU, det_one,
    mul_one, Complex.ofReal_prod]

theorem specM_quad (U : Matrix (Fin d) (Fin d) ℂ) (l : Fin d → ℝ) (z : Fin d → ℂ) :
    star z ⬝ᵥ specM U l *ᵥ z
      = ((∑ e, l e * Complex.normSq (∑ g, (starRingEnd ℂ) (U g e) * z g) : ℝ) : ℂ) := by
  unfold specM
  have hw : ∀ e, (Uᴴ *ᵥ z) e = ∑ g, (starRingEnd ℂ) (U g e) * z g := by
    intro e
    simp [mulVec, dotProduct, conjTranspose_apply]
  rw [← mulVec_mulVec, ← mulVec_mulVec, dotProduct_mulVec]
  have hs : star z ᵥ* U = star (Uᴴ *ᵥ z) := by
    rw [star_mulVec, conjTranspose_conjTranspose]
  rw [hs]
  simp only [dotProduct, Pi.star_apply, mulVec_diagonal, hw]
  push_cast
  refine Finset.sum_congr rfl fun e _ => ?_
  rw [← Complex.mul_conj]
  simp only [RCLike.star_def]
  ring

end spectral

/-! ## Layer 2: the model `PbBss.Em.Cacg` over ℝ / ℂ -/
section model
variable {d : ℕ}

/-- eigenvector matrix of a stored model (`vecs[g][e]` = component `g` of eigenvector `e`) -/
def vecM (V : Tab d (Tab d ℂ)) : Matrix (Fin d) (Fin d) ℂ := Matrix.of fun g e => rd2 V g e

/-- the covariance matrix `B = U diag(λ) Uᴴ` a stored cACG model stands for -/
noncomputable def covM (θ : Cacg ℝ ℂ d) : Matrix (Fin d) (Fin d) ℂ := specM (vecM θ.vecs) (rd θ.vals)

/-- orthonormal eigenvector columns, `Uᴴ U = 1` (for a square `U` this is also completeness `U Uᴴ = 1`) -/
def Orthonormal (V : Tab d (Tab d ℂ)) : Prop :=
  ∀ i j, ∑ g, (starRingEnd ℂ) (rd2 V g i) * rd2 V g j = if i = j then 1 else 0

/-- valid cACG parameters: orthonormal eigenvectors, positive eigenvalues -/
structure Valid (θ : Cacg ℝ ℂ d) : Prop where
  orthonormal : Orthonormal θ.vecs
  pos : ∀ e, 0 < rd θ.vals e

theorem vecM_unitary {V : Tab d (Tab d ℂ)} (h : Orthonormal V) : (vecM V)ᴴ * vecM V = 1 := by
  ext i j
  simp only [mul_apply, conjTranspose_apply, vecM, of_apply, one_apply]
  simpa using h i j

theorem covM_posDef {θ : Cacg ℝ ℂ d} (hθ : Valid θ) : (covM θ).PosDef :=
  specM_posDef (vecM_unitary hθ.orthonormal) hθ.pos

theorem rawQuad_eq {θ : Cacg ℝ ℂ d} (hθ : Valid θ) (z : Fin d → ℂ) :
    (∑ e, abs2 (α := ℝ) (∑ g, (starRingEnd ℂ) (rd2 θ.vecs g e) * z g) / rd θ.vals e) = qf (covM θ) z := by
  unfold qf covM
  rw [specM_inv (vecM_unitary hθ.orthonormal) (fun e => (hθ.pos e).ne'), specM_quad, Complex.ofReal_re]
  refine Finset.sum_congr rfl fun e _ => ?_
  simp only [abs2, cx_re, cx_im, Complex.normSq_apply, vecM, of_apply]
  ring

theorem cacgQuad_eq (tiny : ℝ) {θ : Cacg ℝ ℂ d} (hθ : Valid θ) (z : Fin d → ℂ) :
    cacgQuad tiny θ z = max (qf (covM θ) z) tiny := by
  rw [← rawQuad_eq hθ]
  simp only [cacgQuad, vsum_eq_sum, cx_conj]

theorem sum_log_vals {θ : Cacg ℝ ℂ d} (hθ : Valid θ) :
    ∑ e, Real.log (rd θ.vals e) = Real.log ((covM θ).det).re := by
  unfold covM
  rw [specM_det (vecM_unitary hθ.orthonormal), Complex.ofReal_re,
    Real.log_prod (fun e _ => (hθ.pos e).ne')]

theorem cacgLogPdf_eq (tiny : ℝ) {θ : Cacg ℝ ℂ d} (hθ : Valid θ) (z : Fin d → ℂ)
    (h : tiny ≤ qf (covM θ) z) : cacgLogPdf tiny θ z = acgVal (covM θ) z := by
  simp only [cacgLogPdf, acgVal, cacgQuad_eq tiny hθ, max_eq_left h, vsum_eq_sum, transc_log_real,
    sum_log_vals hθ, neg_mul]

end model

/-! ### the scatter matrix handed to `eigh` -/
section mstep
variable {D N : ℕ}

/-- `(d / Σ c) · Σ_n (c_n / q_n) z_n z_nᴴ` for arbitrary `q` -/
noncomputable def scatterM {d : ℕ} (c q : Fin N → ℝ) (z : Fin N → Fin d → ℂ) : Matrix (Fin d) (Fin d) ℂ :=
  (((d : ℝ) / ∑ n, c n : ℝ) : ℂ) • ∑ n, ((c n / q n : ℝ) : ℂ) • vecMulVec (z n) (star (z n))

theorem tylerS_eq {d : ℕ} (B₀ : Matrix (Fin d) (Fin d) ℂ) (c : Fin N → ℝ) (z : Fin N → Fin d → ℂ) :
    tylerS B₀ c z = scatterM c (fun n => qf B₀ (z n)) z := rfl

theorem scatterM_apply {d : ℕ} (c q : Fin N → ℝ) (z : Fin N → Fin d → ℂ) (g e : Fin d) :
    scatterM c q z g e = (((d : ℝ) / ∑ n, c n : ℝ) : ℂ) *
      ∑ n, ((c n / q n : ℝ) : ℂ) * (z n g * (starRingEnd ℂ) (z n e)) := by
  simp [scatterM, Matrix.sum_apply, vecMulVec_apply]

/-- the matrix before hermitisation: `D · Σ_n (w_n / q_n) z_n z_nᴴ / Σ_n w_n` (guards inactive) -/
noncomputable def covE (c q : Fin N → ℝ) (z : Fin N → Fin (D+1) → ℂ) (g e : Fin (D+1)) : ℂ :=
  ((((D+1 : ℕ) : ℝ)) : ℂ) * (∑ n, ((c n / q n : ℝ) : ℂ) * (z n g * (starRingEnd ℂ) (z n e)))
    / ((∑ n, c n : ℝ) : ℂ)

/-- the scatter is already Hermitian … -/
theorem covE_conj (c q : Fin N → ℝ) (z : Fin N → Fin (D+1) → ℂ) (g e : Fin (D+1)) :
    (starRingEnd ℂ) (covE c q z e g) = covE c q z g e := by
  unfold covE
  rw [map_div₀, map_mul, map_sum, Complex.conj_ofReal, Complex.conj_ofReal]
  congr 2
  refine Finset.sum_congr rfl fun n _ => ?_
  rw [map_mul, map_mul, Complex.conj_ofReal, Complex.conj_conj]
  ring

/-- … so the hermitisation `(C + Cᴴ)/2` of the model is the identity -/
theorem herm_id (c q : Fin N → ℝ) (z : Fin N → Fin (D+1) → ℂ) (g e : Fin (D+1)) :
    (covE c q z g e + (starRingEnd ℂ) (covE c q z e g)) / ((1 + 1 : ℝ) : ℂ) = covE c q z g e := by
  rw [covE_conj]
  push_cast
  ring

theorem covE_eq_scatterM (c q : Fin N → ℝ) (z : Fin N → Fin (D+1) → ℂ) (g e : Fin (D+1)) :
    covE c q z g e = scatterM c q z g e := by
  rw [scatterM_apply]
  unfold covE
  push_cast
  ring

theorem scatter_none_entry (tiny : ℝ) (c q : Fin N → ℝ) (z : Fin N → Fin (D+1) → ℂ)
    (hC : tiny ≤ ∑ n, c n) (hq : ∀ n, 10 * tiny ≤ q n) (g e : Fin (D+1)) :
    rd2 (cacgScatter .none tiny N c q z) g e = scatterM c q z g e := by
  have hq' : ∀ n, max (q n) (((10 : ℕ) : ℝ) * tiny) = q n := fun n =>
    max_eq_left (by simpa using hq n)
  rw [← covE_eq_scatterM, ← herm_id c q z g e]
  simp only [cacgScatter, outerSum, rd2_tab2, vsum_eq_sum, cx_ofReal, cx_conj, max_eq_left hC, hq',
    covE]

theorem scatter_none (tiny : ℝ) (c q : Fin N → ℝ) (z : Fin N → Fin (D+1) → ℂ)
    (hC : tiny ≤ ∑ n, c n) (hq : ∀ n, 10 * tiny ≤ q n) :
    vecM (cacgScatter .none tiny N c q z) = scatterM c q z := by
  ext g e
  simp only [vecM, of_apply]
  exact scatter_none_entry tiny c q z hC hq g e

theorem scatter_eigenvalue (tiny : ℝ) (c q : Fin N → ℝ) (z : Fin N → Fin (D+1) → ℂ) :
    cacgScatter .eigenvalue tiny N c q z = cacgScatter .none tiny N c q z := rfl

theorem scatter_trace_entry (tiny : ℝ) (c q : Fin N → ℝ) (z : Fin N → Fin (D+1) → ℂ) (g e : Fin (D+1)) :
    rd2 (cacgScatter .trace tiny N c q z) g e =
      rd2 (cacgScatter .none tiny N c q z) g e /
        ((max (∑ d, (rd2 (cacgScatter .none tiny N c q z) d d).re) tiny : ℝ) : ℂ) := by
  simp only [cacgScatter, rd2_tab2, vsum_eq_sum, cx_ofReal, cx_re]

theorem scatter_trace (tiny : ℝ) (c q : Fin N → ℝ) (z : Fin N → Fin (D+1) → ℂ)
    (hC : tiny ≤ ∑ n, c n) (hq : ∀ n, 10 * tiny ≤ q n)
    (htr : tiny ≤ ∑ d, (rd2 (cacgScatter .none tiny N c q z) d d).re) :
    vecM (cacgScatter .trace tiny N c q z) =
      (((∑ d, (rd2 (cacgScatter .none tiny N c q z) d d).re)⁻¹ : ℝ) : ℂ) • scatterM c q z := by
  ext g e
  simp only [vecM, of_apply, Matrix.smul_apply, smul_eq_mul]
  rw [scatter_trace_entry, max_eq_left htr, scatter_none_entry tiny c q z hC hq]
  push_cast
  rw [div_eq_mul_inv, mul_comm]

end mstep

/-! ### `eigh`, the eigenvalue post-processing and the M-step -/
section step
variable {D N : ℕ}

/-- the recorded contract of the external `eigh` on the matrix `A`: orthonormal eigenvector columns
(`Uᴴ U = 1`, hence complete) and `A U = U diag(λ)` -/
structure EighOk (A : Tab (D+1) (Tab (D+1) ℂ)) (r : Tab (D+1) (Tab (D+1) ℂ) × Tab (D+1) ℝ) : Prop where
  orthonormal : Orthonormal r.1
  eigen : ∀ g i, ∑ e, rd2 A g e * rd2 r.1 e i = ((rd r.2 i : ℝ) : ℂ) * rd2 r.1 g i

/-- `A = U diag(λ) Uᴴ` -/
theorem eigh_reconstruct {A : Tab (D+1) (Tab (D+1) ℂ)} {r : Tab (D+1) (Tab (D+1) ℂ) × Tab (D+1) ℝ}
    (h : EighOk A r) : vecM A = specM (vecM r.1) (rd r.2) := by
  have hAU : vecM A * vecM r.1 = vecM r.1 * diagonal (fun e => ((rd r.2 e : ℝ) : ℂ)) := by
    ext g i
    rw [mul_diagonal, mul_apply]
    simp only [vecM, of_apply]
    rw [h.eigen g i, mul_comm]
  unfold specM
  rw [← hAU, Matrix.mul_assoc, unitary_comm (vecM_unitary h.orthonormal), Matrix.mul_one]

/-- "the eigenvalue floors of `cacgEigvals` are not active" -/
def EigGuard (nrm : CovNorm) (floor tiny : ℝ) (ev : Fin (D+1) → ℝ) : Prop :=
  match nrm with
  | .eigenvalue => tiny ≤ vmax ev ∧ ∀ e, floor ≤ ev e / vmax ev
  | _ => ∀ e, max (vmax ev * floor) tiny ≤ ev e

theorem eigvals_eigenvalue (floor tiny : ℝ) (ev : Fin (D+1) → ℝ)
    (h : EigGuard .eigenvalue floor tiny ev) :
    rd (cacgEigvals .eigenvalue floor tiny ev) = fun e => (vmax ev)⁻¹ * ev e := by
  funext e
  simp only [cacgEigvals, rd_tab, max_eq_left h.1, max_eq_left (h.2 e)]
  rw [div_eq_mul_inv, mul_comm]

theorem eigvals_trace (floor tiny : ℝ) (ev : Fin (D+1) → ℝ) (h : EigGuard .trace floor tiny ev) :
    rd (cacgEigvals .trace floor tiny ev) = ev := by
  funext e
  simp only [cacgEigvals, rd_tab]
  exact max_eq_left (h e)

theorem eigvals_none (floor tiny : ℝ) (ev : Fin (D+1) → ℝ) (h : EigGuard .none floor tiny ev) :
    rd (cacgEigvals .none floor tiny ev) = ev := by
  funext e
  simp only [cacgEigvals, rd_tab]
  exact max_eq_left (h e)

/-- with all guards inactive the covariance of the new model is a positive multiple of the Tyler scatter -/
theorem covM_mstep (eigh : Tab (D+1) (Tab (D+1) ℂ) → Tab (D+1) (Tab (D+1) ℂ) × Tab (D+1) ℝ)
    (nrm : CovNorm) (floor tiny : ℝ) (c q : Fin N → ℝ) (z : Fin N → Fin (D+1) → ℂ)
    (ht : 0 < tiny) (hC : tiny ≤ ∑ n, c n) (hq : ∀ n, 10 * tiny ≤ q n)
    (heig : EighOk (cacgScatter nrm tiny N c q z) (eigh (cacgScatter nrm tiny N c q z)))
    (hfloor : EigGuard nrm floor tiny (rd (eigh (cacgScatter nrm tiny N c q z)).2))
    (htr : nrm = .trace → tiny ≤ ∑ d, (rd2 (cacgScatter .none tiny N c q z) d d).re) :
    ∃ κ : ℝ, 0 < κ ∧ covM (cacgMstep eigh nrm floor tiny N c q z) = (κ : ℂ) • scatterM c q z := by
  cases nrm with
  | eigenvalue =>
    refine ⟨(vmax (rd (eigh (cacgScatter .eigenvalue tiny N c q z)).2))⁻¹,
      inv_pos.mpr (lt_of_lt_of_le ht hfloor.1), ?_⟩
    simp only [covM, cacgMstep]
    rw [eigvals_eigenvalue floor tiny _ hfloor, specM_smul, ← eigh_reconstruct heig, scatter_eigenvalue,
      scatter_none tiny c q z hC hq]
  | trace =>
    have htr' := htr rfl
    refine ⟨(∑ d, (rd2 (cacgScatter .none tiny N c q z) d d).re)⁻¹,
      inv_pos.mpr (lt_of_lt_of_le ht htr'), ?_⟩
    simp only [covM, cacgMstep]
    rw [eigvals_trace floor tiny _ hfloor, ← eigh_reconstruct heig, scatter_trace tiny c q z hC hq htr']
  | none =>
    refine ⟨1, one_pos, ?_⟩
    simp only [covM, cacgMstep]
    rw [eigvals_none floor tiny _ hfloor, ← eigh_reconstruct heig, scatter_none tiny c q z hC hq]
    simp

/-- **One M-step of the cACG family does not decrease the component part of the EM auxiliary function**
(all three `covariance_norm` options).  Hypotheses: `tiny > 0`; weights `≥ 0`; old parameters valid
(orthonormal eigenvectors, positive eigenvalues); the contract of `eigh` on the scatter matrix; numerical
guards inactive (`Σ c ≥ tiny`, old quadratic forms `≥ 10·tiny`, eigenvalue floors, trace floor for
`.trace`, new quadratic forms `> tiny`); new eigenvalues positive. -/
theorem cacg_mstep_improves
    (eigh : Tab (D+1) (Tab (D+1) ℂ) → Tab (D+1) (Tab (D+1) ℂ) × Tab (D+1) ℝ)
    (nrm : CovNorm) (floor tiny : ℝ) (c : Fin N → ℝ) (z : Fin N → Fin (D+1) → ℂ) (θ : Cacg ℝ ℂ (D+1))
    (ht : 0 < tiny) (hc : ∀ n, 0 ≤ c n) (hC : tiny ≤ ∑ n, c n) (hθ : Valid θ)
    (hq : ∀ n, 10 * tiny ≤ cacgQuad tiny θ (z n))
    (heig : EighOk (cacgScatter nrm tiny N c (fun n => cacgQuad tiny θ (z n)) z)
      (eigh (cacgScatter nrm tiny N c (fun n => cacgQuad tiny θ (z n)) z)))
    (hfloor : EigGuard nrm floor tiny
      (rd (eigh (cacgScatter nrm tiny N c (fun n => cacgQuad tiny θ (z n)) z)).2))
    (htr : nrm = .trace →
      tiny ≤ ∑ d, (rd2 (cacgScatter .none tiny N c (fun n => cacgQuad tiny θ (z n)) z) d d).re)
    (hpos' : ∀ e, 0 < rd (cacgMstep eigh nrm floor tiny N c (fun n => cacgQuad tiny θ (z n)) z).vals e)
    (hq' : ∀ n, tiny <
      cacgQuad tiny (cacgMstep eigh nrm floor tiny N c (fun n => cacgQuad tiny θ (z n)) z) (z n)) :
    EmProof.compQ (cacgFamily D eigh nrm floor tiny) c z θ
      ≤ EmProof.compQ (cacgFamily D eigh nrm floor tiny) c z
          (cacgMstep eigh nrm floor tiny N c (fun n => cacgQuad tiny θ (z n)) z) := by
  set θ' := cacgMstep eigh nrm floor tiny N c (fun n => cacgQuad tiny θ (z n)) z with hθ'def
  have hθ' : Valid θ' := ⟨heig.orthonormal, hpos'⟩
  -- old quadratic forms: the floor is inactive
  have hq0 : ∀ n, cacgQuad tiny θ (z n) = qf (covM θ) (z n) := by
    intro n
    have h := hq n
    rw [cacgQuad_eq tiny hθ] at h ⊢
    rcases le_total (qf (covM θ) (z n)) tiny with h1 | h1
    · rw [max_eq_right h1] at h; linarith
    · exact max_eq_left h1
  have hq0' : ∀ n, 10 * tiny ≤ qf (covM θ) (z n) := fun n => hq0 n ▸ hq n
  have hq0pos : ∀ n, 0 < qf (covM θ) (z n) := fun n => by linarith [hq0' n]
  have hz : ∀ n, z n ≠ 0 := fun n => ne_zero_of_qf_pos (hq0pos n)
  -- new quadratic forms: the floor is inactive
  have hq1 : ∀ n, tiny ≤ qf (covM θ') (z n) := by
    intro n
    have h := hq' n
    rw [cacgQuad_eq tiny hθ'] at h
    rcases le_total (qf (covM θ') (z n)) tiny with h1 | h1
    · rw [max_eq_right h1] at h; exact absurd h (lt_irrefl _)
    · exact h1
  -- the new covariance is a positive multiple of the Tyler scatter
  obtain ⟨κ, hκ, hcov⟩ := covM_mstep eigh nrm floor tiny c (fun n => cacgQuad tiny θ (z n)) z ht hC hq
    heig hfloor htr
  rw [← hθ'def, (funext hq0 : (fun n => cacgQuad tiny θ (z n)) = fun n => qf (covM θ) (z n)),
    ← tylerS_eq] at hcov
  have hS : (tylerS (covM θ) c z).PosDef := by
    have h1 := posDef_smul (covM_posDef hθ') (inv_pos.mpr hκ)
    rw [hcov, smul_smul, ← Complex.ofReal_mul, inv_mul_cancel₀ hκ.ne', Complex.ofReal_one, one_smul] at h1
    exact h1
  have hmain := tyler_step_improves (covM θ) (covM_posDef hθ) c z hc (lt_of_lt_of_le ht hC) hq0pos hS
  have e0 : EmProof.compQ (cacgFamily D eigh nrm floor tiny) c z θ = ∑ n, c n * acgVal (covM θ) (z n) := by
    unfold EmProof.compQ
    refine Finset.sum_congr rfl fun n _ => ?_
    simp only [cacgFamily]
    rw [cacgLogPdf_eq tiny hθ (z n) (by linarith [hq0' n])]
  have e1 : EmProof.compQ (cacgFamily D eigh nrm floor tiny) c z θ'
      = ∑ n, c n * acgVal (tylerS (covM θ) c z) (z n) := by
    unfold EmProof.compQ
    refine Finset.sum_congr rfl fun n _ => ?_
    simp only [cacgFamily]
    rw [cacgLogPdf_eq tiny hθ' (z n) (hq1 n), hcov, acgVal_smul hS hκ (hz n)]
  rw [e0, e1]
  exact hmain

/-- the same statement phrased with the fields of the family, as `Em.mStep` / `Em.emStep` use them:
`fam.mstep N c (fam.aux θ ∘ z) z` -/
theorem cacg_family_mstep_improves
    (eigh : Tab (D+1) (Tab (D+1) ℂ) → Tab (D+1) (Tab (D+1) ℂ) × Tab (D+1) ℝ)
    (nrm : CovNorm) (floor tiny : ℝ) (c : Fin N → ℝ) (z : Fin N → Fin (D+1) → ℂ) (θ : Cacg ℝ ℂ (D+1))
    (ht : 0 < tiny) (hc : ∀ n, 0 ≤ c n) (hC : tiny ≤ ∑ n, c n) (hθ : Valid θ)
    (hq : ∀ n, 10 * tiny ≤ cacgQuad tiny θ (z n))
    (heig : EighOk (cacgScatter nrm tiny N c (fun n => cacgQuad tiny θ (z n)) z)
      (eigh (cacgScatter nrm tiny N c (fun n => cacgQuad tiny θ (z n)) z)))
    (hfloor : EigGuard nrm floor tiny
      (rd (eigh (cacgScatter nrm tiny N c (fun n => cacgQuad tiny θ (z n)) z)).2))
    (htr : nrm = .trace →
      tiny ≤ ∑ d, (rd2 (cacgScatter .none tiny N c (fun n => cacgQuad tiny θ (z n)) z) d d).re)
    (hpos' : ∀ e, 0 < rd (cacgMstep eigh nrm floor tiny N c (fun n => cacgQuad tiny θ (z n)) z).vals e)
    (hq' : ∀ n, tiny <
      cacgQuad tiny (cacgMstep eigh nrm floor tiny N c (fun n => cacgQuad tiny θ (z n)) z) (z n)) :
    EmProof.compQ (cacgFamily D eigh nrm floor tiny) c z θ
      ≤ EmProof.compQ (cacgFamily D eigh nrm floor tiny) c z
          ((cacgFamily D eigh nrm floor tiny).mstep N c
            (fun n => (cacgFamily D eigh nrm floor tiny).aux θ (z n)) z) :=
  cacg_mstep_improves eigh nrm floor tiny c z θ ht hc hC hθ hq heig hfloor htr hpos' hq'

end step

/-! ### non-vacuity -/
section nonvacuity

/-- matrix level, `d = 1`, one observation `z = 1` with weight 1, `B₀ = 1`: the hypotheses of
`tyler_step_improves` hold -/
example : ∃ (B₀ : Matrix (Fin 1) (Fin 1) ℂ) (c : Fin 1 → ℝ) (z : Fin 1 → Fin 1 → ℂ),
    B₀.PosDef ∧ (∀ n, 0 ≤ c n) ∧ 0 < ∑ n, c n ∧ (∀ n, 0 < qf B₀ (z n)) ∧ (tylerS B₀ c z).PosDef := by
  have hq : qf (1 : Matrix (Fin 1) (Fin 1) ℂ) (fun _ => (1 : ℂ)) = 1 := by
    simp [qf, dotProduct]
  have hS : tylerS (1 : Matrix (Fin 1) (Fin 1) ℂ) (fun _ : Fin 1 => (1 : ℝ)) (fun _ _ => 1) = 1 := by
    ext i j
    have hij : i = j := Subsingleton.elim _ _
    subst hij
    rw [tylerS_eq, scatterM_apply]
    simp [hq]
  refine ⟨1, fun _ => 1, fun _ _ => 1, PosDef.one, fun _ => zero_le_one, by simp, fun n => ?_, ?_⟩
  · rw [hq]; exact one_pos
  · rw [hS]; exact PosDef.one

/-- a concrete 1-dimensional instance of the model: eigenvector `[[1]]`, eigenvalue `[1]` -/
def θ1 : Cacg ℝ ℂ (0+1) := ⟨tab2 fun _ _ => 1, tab fun _ => 1⟩
/-- the (exact) 1×1 `eigh`: eigenvector 1, eigenvalue = the real part of the entry -/
def eigh1 (A : Tab (0+1) (Tab (0+1) ℂ)) : Tab (0+1) (Tab (0+1) ℂ) × Tab (0+1) ℝ :=
  (tab2 fun _ _ => 1, tab fun e => (rd2 A e e).re)

theorem q1 : cacgQuad (1/100 : ℝ) θ1 (fun _ => (1 : ℂ)) = 1 := by
  simp [cacgQuad, θ1, vsum_eq_sum, abs2]
  norm_num

theorem sc1 (nrm : CovNorm) (g e : Fin (0+1)) :
    rd2 (cacgScatter nrm (1/100 : ℝ) 1 (fun _ => 1) (fun _ => 1) (fun _ _ => (1 : ℂ))) g e = 1 := by
  cases nrm <;> simp [cacgScatter, outerSum, vsum_eq_sum] <;> norm_num

theorem vmax1 (ev : Fin (0+1) → ℝ) : vmax ev = ev 0 := by
  simp [vmax, Fin.foldl_zero]

theorem mstep1 (nrm : CovNorm) :
    cacgMstep eigh1 nrm (1/1000 : ℝ) (1/100) 1 (fun _ => 1) (fun _ => 1) (fun _ _ => (1 : ℂ)) = θ1 := by
  unfold cacgMstep eigh1 θ1
  cases nrm <;> simp only [cacgEigvals, vmax1, rd_tab, sc1] <;>
    refine congrArg (Cacg.mk _) (congrArg tab (funext fun e => ?_)) <;> norm_num

theorem valid1 : Valid θ1 := by
  refine ⟨fun i j => ?_, fun e => ?_⟩
  · have hij : i = j := Fin.ext (by omega)
    subst hij
    simp [θ1]
  · simp [θ1]

/-- model level, `D + 1 = 1`, one observation `z = 1` with weight 1, `θ = ([[1]], [1])`, exact 1×1 `eigh`,
`tiny = 1/100`, `floor = 1/1000`: all hypotheses of `cacg_mstep_improves` hold, for every `covariance_norm` -/
example (nrm : CovNorm) :
    EmProof.compQ (cacgFamily 0 eigh1 nrm (1/1000 : ℝ) (1/100)) (fun _ : Fin 1 => (1 : ℝ)) (fun _ _ => (1 : ℂ)) θ1
      ≤ EmProof.compQ (cacgFamily 0 eigh1 nrm (1/1000 : ℝ) (1/100)) (fun _ : Fin 1 => (1 : ℝ)) (fun _ _ => (1 : ℂ))
          (cacgMstep eigh1 nrm (1/1000 : ℝ) (1/100) 1 (fun _ => 1)
            (fun n => cacgQuad (1/100 : ℝ) θ1 ((fun _ _ => (1 : ℂ) : Fin 1 → Fin (0+1) → ℂ) n)) (fun _ _ => (1 : ℂ))) := by
  have hfun : (fun n => cacgQuad (1/100 : ℝ) θ1 ((fun _ _ => (1 : ℂ) : Fin 1 → Fin (0+1) → ℂ) n))
      = fun _ => (1 : ℝ) := funext fun _ => q1
  apply cacg_mstep_improves eigh1 nrm (1/1000) (1/100) (fun _ => 1) (fun _ _ => 1) θ1
  · norm_num
  · exact fun _ => zero_le_one
  · simp; norm_num
  · exact valid1
  · intro n; rw [q1]; norm_num
  · rw [hfun]
    refine ⟨valid1.orthonormal, fun g i => ?_⟩
    simp only [eigh1, rd2_tab2, rd_tab, sc1]
    simp
  · rw [hfun]
    cases nrm <;> simp only [EigGuard, eigh1, vmax1, rd_tab, sc1] <;> norm_num
  · intro _
    rw [hfun]
    simp only [sc1]
    simp; norm_num
  · intro e
    rw [hfun, mstep1]
    exact valid1.pos e
  · intro n
    rw [hfun, mstep1, q1]
    norm_num

end nonvacuity

end PbBss.EmCacg

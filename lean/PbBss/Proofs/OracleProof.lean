import PbBss.Proofs.AlignProof
import PbBss.Proofs.GreedyDom
import Mathlib.Algebra.Order.BigOperators.Group.Finset
import Mathlib.Algebra.BigOperators.Fin
import Mathlib.Data.List.FinRange
import Mathlib.Tactic
/-! Optimality of the `'optimal'` assignment in `Finset.sum` form, row dominance, oracle inversion. -/
namespace PbBss.Align
open Function

section permScore
variable {α : Type} [AddCommMonoid α]

theorem foldl_zipIdx_sum (s : Nat → Nat → α) : ∀ (p : List Nat) (n : Nat) (a : α),
    (p.zipIdx n).foldl (fun acc jc => acc + s jc.2 jc.1) a
      = a + ((p.zipIdx n).map fun jc => s jc.2 jc.1).sum
  | [], _, a => by simp
  | x :: p, n, a => by
    simp only [List.zipIdx_cons, List.foldl_cons, List.map_cons, List.sum_cons]
    rw [foldl_zipIdx_sum s p (n+1) (a + s n x), add_assoc]

theorem zipIdx_ofFn_sum (s : Nat → Nat → α) : ∀ (K : Nat) (g : Fin K → Nat) (n : Nat),
    (((List.ofFn g).zipIdx n).map fun jc => s jc.2 jc.1).sum = ∑ k : Fin K, s (n + k.val) (g k)
  | 0, _, _ => by simp
  | K+1, g, n => by
    rw [List.ofFn_succ, List.zipIdx_cons, List.map_cons, List.sum_cons,
      zipIdx_ofFn_sum s K (fun i => g i.succ) (n+1), Fin.sum_univ_succ]
    simp only [Fin.val_zero, Nat.add_zero, Fin.val_succ]
    congr 1
    apply Finset.sum_congr rfl
    intro k _
    congr 1; omega

theorem permScore_ofFn (s : Nat → Nat → α) {K : Nat} (g : Fin K → Nat) :
    permScore s (List.ofFn g) = ∑ k : Fin K, s k.val (g k) := by
  unfold permScore
  rw [foldl_zipIdx_sum, zipIdx_ofFn_sum]
  simp

theorem list_eq_ofFn_getD {K : Nat} (p : List Nat) (h : p.length = K) :
    p = List.ofFn (fun k : Fin K => p.getD k.val 0) := by
  apply List.ext_getElem
  · simp [h]
  · intro i h1 h2
    simp [List.getD_eq_getElem?_getD, h1]

theorem ofFn_val_perm_range {K : Nat} (σ : Fin K → Fin K) (hσ : Bijective σ) :
    (List.ofFn fun k => (σ k).val).Perm (List.range K) := by
  have h := Equiv.Perm.ofFn_comp_perm (Equiv.ofBijective σ hσ) (fun k : Fin K => k.val)
  have h2 : List.ofFn (fun k : Fin K => k.val) = List.range K := by
    rw [List.ofFn_eq_map]; exact List.map_coe_finRange_eq_range
  rw [h2] at h
  simpa [Function.comp_def] using h
end permScore

section optimal
variable {α : Type} [AddCommMonoid α] [LinearOrder α]

/-- extension of a `Fin K × Fin K` score table to `Nat × Nat` (what `assign .optimal` feeds to `optimal`) -/
def ext {K : Nat} (s : Fin K → Fin K → α) : Nat → Nat → α :=
  fun i j => if h : i < K ∧ j < K then s ⟨i, h.1⟩ ⟨j, h.2⟩ else 0

theorem permScore_ext_ofFn {K : Nat} (s : Fin K → Fin K → α) (g : Fin K → Fin K) :
    permScore (ext s) (List.ofFn fun k => (g k).val) = ∑ k, s k (g k) := by
  rw [permScore_ofFn]
  apply Finset.sum_congr rfl
  intro k _
  simp [ext, k.isLt, (g k).isLt]

/-- the `'optimal'` assignment, as a function, together with its defining list -/
theorem assign_optimal_spec {K : Nat} (hK : 0 < K) (s : Fin K → Fin K → α) :
    ∃ r, optimal K (ext s) = some r ∧ r.1.Perm (List.range K) ∧
      (∀ k : Fin K, (assign .optimal s k).val = r.1.getD k.val 0) ∧
      r.2 = ∑ k, s k (assign .optimal s k) ∧
      ∀ p : List Nat, p.Perm (List.range K) → permScore (ext s) p ≤ r.2 := by
  obtain ⟨r, hr, hperm, hsc, hmax⟩ := optimal_is_max K (ext s)
  have hval : ∀ k : Fin K, (assign .optimal s k).val = r.1.getD k.val 0 := by
    intro k
    have hlt := perm_range_getD_lt hperm k.val k.isLt
    unfold assign
    simp only [hK, dite_true]
    have : optimal K (fun i j => if h : i < K ∧ j < K then s ⟨i, h.1⟩ ⟨j, h.2⟩ else 0) = some r := hr
    simp only [this, hlt, dite_true]
  refine ⟨r, hr, hperm, hval, ?_, hmax⟩
  have hlen : r.1.length = K := by simpa using hperm.length_eq
  rw [hsc]
  conv_lhs => rw [list_eq_ofFn_getD r.1 hlen]
  have : (fun k : Fin K => r.1.getD k.val 0) = fun k => (assign .optimal s k).val := by
    funext k; exact (hval k).symm
  rw [this, permScore_ext_ofFn]

/-- **C15**: the total score of the `'optimal'` assignment is at least that of every permutation -/
theorem optimal_ge_perm {K : Nat} (s : Fin K → Fin K → α) (σ : Fin K → Fin K) (hσ : Bijective σ) :
    ∑ k, s k (σ k) ≤ ∑ k, s k (assign .optimal s k) := by
  by_cases hK : 0 < K
  · obtain ⟨r, -, -, -, hsum, hmax⟩ := assign_optimal_spec hK s
    rw [← hsum, ← permScore_ext_ofFn s σ]
    exact hmax _ (ofFn_val_perm_range σ hσ)
  · have : K = 0 := by omega
    subst this; simp

/-- a strict unique maximiser of the total score is what the `'optimal'` search returns -/
theorem optimal_eq_of_strict_max {K : Nat} (s : Fin K → Fin K → α) (σ : Fin K → Fin K) (hσ : Bijective σ)
    (h : ∀ τ : Fin K → Fin K, Bijective τ → τ ≠ σ → ∑ k, s k (τ k) < ∑ k, s k (σ k)) :
    assign .optimal s = σ := by
  by_contra hne
  have h1 := h _ (assign_bijective .optimal s) hne
  have h2 := optimal_ge_perm s σ hσ
  exact absurd h1 (not_lt.mpr h2)
end optimal

section dominance
variable {α : Type} [AddCommMonoid α] [LinearOrder α] [IsOrderedCancelAddMonoid α]

/-- row dominance ⇒ both assignment algorithms return exactly σ -/
theorem assign_row_dominant {K : Nat} (algo : Algo) (s : Fin K → Fin K → α) (σ : Fin K → Fin K)
    (hσ : Bijective σ) (hdom : ∀ i j, j ≠ σ i → s i j < s i (σ i)) : assign algo s = σ := by
  cases algo with
  | greedy =>
    by_cases hK : 0 < K
    · unfold assign; simp only [hK, dite_true]
      exact row_dominant_greedy hK s σ hσ.1 hdom
    · have : K = 0 := by omega
      subst this; funext k; exact k.elim0
  | optimal =>
    apply optimal_eq_of_strict_max s σ hσ
    intro τ _ hne
    obtain ⟨k0, hk0⟩ : ∃ k, τ k ≠ σ k := by
      by_contra hall
      push_neg at hall
      exact hne (funext hall)
    apply Finset.sum_lt_sum
    · intro k _
      by_cases hk : τ k = σ k
      · rw [hk]
      · exact (hdom k (τ k) hk).le
    · exact ⟨k0, Finset.mem_univ _, hdom k0 (τ k0) hk0⟩
end dominance

/-! ### similarity of two rows; oracle inversion -/
section sim
variable {α : Type} [Add α] [Sub α] [Mul α] [Div α] [Neg α] [OfNat α 0] [Max α] [Transc α]

/-- similarity of a reference row `r` and a mask row `m` under each metric -/
def sim {T : Nat} (tiny : α) : Metric → (Fin T → α) → (Fin T → α) → α
  | .multiply => fun r m => vsum fun t => m t * r t
  | .cos => fun r m => vsum fun t => vecNormalize tiny m t * vecNormalize tiny r t
  | .euclidean => fun r m => - Transc.sqrt (vsum fun t => (m t - r t) * (m t - r t))

theorem score_eq_sim {K T : Nat} (tiny : α) (metric : Metric) (mask ref : Fin K → Fin T → α) (k k' : Fin K) :
    score tiny metric mask ref k k' = sim tiny metric (ref k) (mask k') := by
  cases metric <;> rfl
end sim

section invert
variable {α : Type} [Field α] [LinearOrder α] [IsStrictOrderedRing α] [Transc α] {K F T : Nat}

/-- mask = per-frequency permutation of the reference: `mask[k, f] = ref[π_f k, f]` -/
def permuted (ref : Tab3 K F T α) (π : Fin F → Equiv.Perm (Fin K)) : Tab3 K F T α :=
  tab3 fun k f t => at3 ref (π f k) f t

/-- **oracle inversion, abstract form**: if in every bin each reference row is strictly more similar to
itself than to any other reference row, the oracle aligner undoes every per-frequency permutation -/
theorem oracle_inverts_of_dominant (tiny : α) (metric : Metric) (algo : Algo) (ref : Tab3 K F T α)
    (π : Fin F → Equiv.Perm (Fin K))
    (hdom : ∀ (f : Fin F) (k k' : Fin K), k' ≠ k →
      sim tiny metric (fun t => at3 ref k f t) (fun t => at3 ref k' f t)
        < sim tiny metric (fun t => at3 ref k f t) (fun t => at3 ref k f t)) :
    ∀ k f t, applyMapping (at3 (permuted ref π)) (oracleAligner tiny metric algo (permuted ref π) ref) k f t
      = at3 ref k f t := by
  intro k f t
  have hassign : assign algo (score tiny metric (fun k => at3 (permuted ref π) k f) (fun k => at3 ref k f))
      = (π f).symm := by
    apply assign_row_dominant algo _ _ (π f).symm.bijective
    intro i j hj
    rw [score_eq_sim, score_eq_sim]
    have hrow : ∀ j', (fun t => at3 (permuted ref π) j' f t) = fun t => at3 ref (π f j') f t := by
      intro j'; funext t; simp [permuted]
    show sim tiny metric (fun t => at3 ref i f t) (fun t => at3 (permuted ref π) j f t)
      < sim tiny metric (fun t => at3 ref i f t) (fun t => at3 (permuted ref π) ((π f).symm i) f t)
    rw [hrow, hrow, Equiv.apply_symm_apply]
    apply hdom
    intro h
    apply hj
    rw [← h, Equiv.symm_apply_apply]
  simp only [applyMapping, oracleAligner]
  rw [hassign]
  simp [permuted]
end invert

end PbBss.Align

import PbBss.Proofs.EmMono
import Mathlib.Analysis.Convex.Deriv
/-! # The complex Watson M-step does not decrease the component part of `Q` (C02)

`ComplexWatsonTrainer._fit` as transcribed in `PbBss.Em.watsonMstep`: mode = principal eigenvector of the weighted
scatter (`get_pca`, external), concentration = inverse hypergeometric ratio of the top eigenvalue (the spline
`hypergeometric_ratio_inverse`, external), log-normaliser `log_norm_1f1` (external).

Contracts assumed of the externals (stated on exactly the scatter the M-step builds):
* `PcaContract`: the returned vector has unit norm, its Rayleigh quotient is the returned eigenvalue, and no unit
  vector has a larger Rayleigh quotient;
* `TangentAt lnorm κ' λ`: `lnorm κ ≥ lnorm κ' + λ·(κ − κ')` for all `κ` — i.e. `κ'` is the *exact* solution of
  `lnorm'(κ') = λ` for a convex log-normaliser (`tangent_of_convex`: this is implied by `ConvexOn` + `HasDerivAt`).
  The code's spline only approximates the exact inverse; the correspondence run measures that error. -/
open PbBss PbBss.Em Finset

namespace PbBss.EmProof

/-- a convex function lies above its tangent: the exact M-step condition for the concentration -/
def TangentAt (f : ℝ → ℝ) (x0 slope : ℝ) : Prop := ∀ x, f x0 + slope * (x - x0) ≤ f x

theorem tangent_of_convex (f : ℝ → ℝ) (x0 f' : ℝ) (hc : ConvexOn ℝ Set.univ f) (hd : HasDerivAt f f' x0) :
    TangentAt f x0 f' := by
  intro x
  rcases lt_trichotomy x x0 with h | h | h
  · have := hc.slope_le_of_hasDerivAt (Set.mem_univ x) (Set.mem_univ x0) h hd
    rw [slope_def_field, div_le_iff₀ (by linarith)] at this
    nlinarith
  · subst h; simp
  · have := hc.le_slope_of_hasDerivAt (Set.mem_univ x0) (Set.mem_univ x) h hd
    rw [slope_def_field, le_div_iff₀ (by linarith)] at this
    nlinarith

section watson
variable {D N : Nat}

theorem abs2_eq_normSq (z : ℂ) : abs2 (α := ℝ) z = Complex.normSq z := by
  simp [abs2, Complex.normSq_apply]

/-- Rayleigh form `re (mᴴ S m)` -/
noncomputable def rq (S : Fin D → Fin D → ℂ) (m : Fin D → ℂ) : ℝ :=
  (∑ d, ∑ e, (starRingEnd ℂ) (m d) * S d e * m e).re

/-- contract of `get_pca` on the matrix `S` -/
structure PcaContract (S : Fin D → Fin D → ℂ) (p : Tab D ℂ × ℝ) : Prop where
  unit : ∑ d, Complex.normSq (rd p.1 d) = 1
  rayleigh : rq S (rd p.1) = p.2
  top : ∀ m : Fin D → ℂ, ∑ d, Complex.normSq (m d) = 1 → rq S m ≤ p.2

/-- `Σ_n c_n |mᴴ z_n|² = (Σ c) · re (mᴴ S m)` with `S` the normalised weighted scatter -/
theorem wsum_normSq_eq (c : Fin N → ℝ) (z : Fin N → Fin D → ℂ) (m : Fin D → ℂ) (hC : (∑ n, c n) ≠ 0) :
    ∑ n, c n * Complex.normSq (cdot (α := ℝ) (z n) m) = (∑ n, c n) * rq (rd2 (watsonScatter c z)) m := by
  have hCc : ((∑ n, c n : ℝ) : ℂ) ≠ 0 := by exact_mod_cast hC
  have hR : ((∑ n, c n : ℝ) : ℂ) * ∑ d, ∑ e, (starRingEnd ℂ) (m d) * rd2 (watsonScatter c z) d e * m e
      = ∑ d, ∑ e, ∑ n, (starRingEnd ℂ) (m d) * ((c n : ℂ) * (z n d * (starRingEnd ℂ) (z n e))) * m e := by
    simp only [watsonScatter, outerSum, rd2_tab2, vsum_eq_sum, cx_ofReal, cx_conj]
    rw [Finset.mul_sum]
    refine Finset.sum_congr rfl fun d _ => ?_
    rw [Finset.mul_sum]
    refine Finset.sum_congr rfl fun e _ => ?_
    have h3 : ∀ a T b : ℂ, ((∑ n, c n : ℝ) : ℂ) * (a * (T / ((∑ n, c n : ℝ) : ℂ)) * b) = a * T * b := by
      intro a T b; field_simp
    rw [h3, Finset.mul_sum, Finset.sum_mul]
  have hL : ((∑ n, c n * Complex.normSq (cdot (α := ℝ) (z n) m) : ℝ) : ℂ)
      = ∑ n, ∑ d, ∑ e, (starRingEnd ℂ) (m d) * ((c n : ℂ) * (z n d * (starRingEnd ℂ) (z n e))) * m e := by
    push_cast
    refine Finset.sum_congr rfl fun n _ => ?_
    rw [← Complex.mul_conj]
    simp only [cdot, vsum_eq_sum, cx_conj, map_sum, map_mul, Complex.conj_conj]
    rw [Finset.sum_mul_sum, Finset.mul_sum]
    refine Finset.sum_congr rfl fun d _ => ?_
    rw [Finset.mul_sum]
    refine Finset.sum_congr rfl fun e _ => ?_
    ring
  have key : ((∑ n, c n * Complex.normSq (cdot (α := ℝ) (z n) m) : ℝ) : ℂ)
      = ((∑ n, c n : ℝ) : ℂ) * ∑ d, ∑ e, (starRingEnd ℂ) (m d) * rd2 (watsonScatter c z) d e * m e := by
    rw [hR, hL, Finset.sum_comm]
    refine Finset.sum_congr rfl fun d _ => ?_
    rw [Finset.sum_comm]
  have := congrArg Complex.re key
  simp only [Complex.ofReal_re, Complex.re_ofReal_mul] at this
  rw [this]; rfl

theorem watson_compQ_eq (pca : Tab D (Tab D ℂ) → Tab D ℂ × ℝ) (kinv lnorm : ℝ → ℝ) (c : Fin N → ℝ)
    (z : Fin N → Fin D → ℂ) (θ : Watson ℝ ℂ D) (hC : (∑ n, c n) ≠ 0) :
    compQ (watsonFamily D pca kinv lnorm) c z θ
      = (∑ n, c n) * (θ.kappa * rq (rd2 (watsonScatter c z)) (rd θ.mode) - θ.logNorm) := by
  unfold compQ watsonFamily watsonLogPdf
  simp only [abs2_eq_normSq]
  have : ∀ n, c n * (θ.kappa * Complex.normSq (cdot (α := ℝ) (z n) (rd θ.mode)) - θ.logNorm)
      = θ.kappa * (c n * Complex.normSq (cdot (α := ℝ) (z n) (rd θ.mode))) - c n * θ.logNorm := fun n => by ring
  simp only [this]
  rw [Finset.sum_sub_distrib, ← Finset.mul_sum, ← Finset.sum_mul, wsum_normSq_eq c z _ hC]
  ring

/-- **Watson M-step**: principal eigenvector + exact inverse of the hypergeometric ratio maximise
`Σ c_n log p(z_n)` over all unit modes and non-negative concentrations.  `θ` is any Watson component with unit
mode, concentration `≥ 0` and `logNorm = lnorm kappa` (every M-step output is of this form). -/
theorem watson_mstep_improves (pca : Tab D (Tab D ℂ) → Tab D ℂ × ℝ) (kinv lnorm : ℝ → ℝ) (c aux : Fin N → ℝ)
    (z : Fin N → Fin D → ℂ) (θ : Watson ℝ ℂ D) (hC : 0 < ∑ n, c n)
    (hunit : ∑ d, Complex.normSq (rd θ.mode d) = 1) (hk : 0 ≤ θ.kappa) (hln : θ.logNorm = lnorm θ.kappa)
    (hpca : PcaContract (rd2 (watsonScatter c z)) (pca (watsonScatter c z)))
    (htan : TangentAt lnorm (kinv (pca (watsonScatter c z)).2) (pca (watsonScatter c z)).2) :
    compQ (watsonFamily D pca kinv lnorm) c z θ
      ≤ compQ (watsonFamily D pca kinv lnorm) c z ((watsonFamily D pca kinv lnorm).mstep N c aux z) := by
  show _ ≤ compQ (watsonFamily D pca kinv lnorm) c z (watsonMstep pca kinv lnorm N c aux z)
  rw [watson_compQ_eq pca kinv lnorm c z θ hC.ne', watson_compQ_eq pca kinv lnorm c z _ hC.ne']
  refine mul_le_mul_of_nonneg_left ?_ hC.le
  simp only [watsonMstep]
  rw [hpca.rayleigh, hln]
  set lam := (pca (watsonScatter c z)).2
  have h1 : θ.kappa * rq (rd2 (watsonScatter c z)) (rd θ.mode) ≤ θ.kappa * lam :=
    mul_le_mul_of_nonneg_left (hpca.top _ hunit) hk
  have h2 := htan θ.kappa
  nlinarith

/-- what the M-step returns satisfies the hypotheses `watson_mstep_improves` puts on the *old* component -/
theorem watsonMstep_valid (pca : Tab D (Tab D ℂ) → Tab D ℂ × ℝ) (kinv lnorm : ℝ → ℝ) (c aux : Fin N → ℝ)
    (z : Fin N → Fin D → ℂ) (hpca : PcaContract (rd2 (watsonScatter c z)) (pca (watsonScatter c z))) :
    (∑ d, Complex.normSq (rd (watsonMstep pca kinv lnorm N c aux z).mode d) = 1) ∧
    (watsonMstep pca kinv lnorm N c aux z).logNorm = lnorm (watsonMstep pca kinv lnorm N c aux z).kappa :=
  ⟨hpca.unit, rfl⟩

end watson

end PbBss.EmProof

import PbBss.Proofs.EmMono
import PbBss.Proofs.EmGcacg
/-! # C06 on the executable EM model: slices of the leading axis do not interfere

`Em.fit` with the `sliced` family: an observation is a pair (slice, value); every class has one component per slice.
`sliced_fit_noninterference`: change the values, saliencies and start affiliations of the *other* slices in any way —
the components of slice `f₀`, the mixture weights on slice `f₀` and the posteriors on slice `f₀` after any number of
EM iterations do not change, provided no tie group of the weight option mixes slice `f₀` with another slice (or the
weights are fixed, `weight_constant_axis = -2`) and the one-component fit of the family does not read observations of
weight 0 (`MstepLocal`, proved below for every family of `Em.lean`).  All three weight rules, including the `eps`
fallbacks, are covered: the weight update of a tie group is a function of the group's own affiliations and saliencies.

`sliced_fit_alone` / `sliced_fit_eq_single`: the stacked fit restricted to `f₀` equals the fit in which every other
observation is a dummy of saliency 0, and equals the fit of the plain (un-sliced) family `fam` on the values with the
saliency of the other observations set to 0. -/
open PbBss PbBss.Em Finset

namespace PbBss.EmProof

/-! ### The per-family fact: a one-component fit does not read observations of weight 0 -/

/-- the weighted one-component fit `Trainer._fit(y, saliency = w, aux)` ignores the value and the auxiliary quantity
of every observation whose weight is 0 -/
def MstepLocal {Θ Y : Type} (fam : Family Θ Y ℝ) : Prop :=
  ∀ (N : Nat) (w w' a a' : Fin N → ℝ) (x x' : Fin N → Y),
    (∀ n, w n ≠ 0 → x n = x' n ∧ a n = a' n) → (∀ n, w n = w' n) → fam.mstep N w a x = fam.mstep N w' a' x'

section families
variable {D N : Nat}

theorem wmul_congr (w : Fin N → ℝ) (x x' : Fin N → Fin D → ℝ) (hx : ∀ n, w n ≠ 0 → x n = x' n) (n : Fin N)
    (g : (Fin D → ℝ) → ℝ) : w n * g (x n) = w n * g (x' n) := by
  by_cases h : w n = 0
  · rw [h, zero_mul, zero_mul]
  · rw [hx n h]

theorem gaussMean_local (tiny : ℝ) (w : Fin N → ℝ) (x x' : Fin N → Fin D → ℝ) (hx : ∀ n, w n ≠ 0 → x n = x' n) :
    gaussMean tiny w x = gaussMean tiny w x' := by
  have h1 : ∀ d n, w n * x n d = w n * x' n d := fun d n => wmul_congr w x x' hx n (fun v => v d)
  unfold gaussMean
  simp only [h1]

theorem sphFamily_local (D : Nat) (tiny log2pi : ℝ) : MstepLocal (sphFamily D tiny log2pi) := by
  intro N w w' a a' x x' hx hw
  obtain rfl : w = w' := funext hw
  have hx' : ∀ n, w n ≠ 0 → x n = x' n := fun n h => (hx n h).1
  show sphMstep tiny N w a x = sphMstep tiny N w a' x'
  have h2 : ∀ (μ : Fin D → ℝ) n d, w n * ((x n d - μ d) * (x n d - μ d)) = w n * ((x' n d - μ d) * (x' n d - μ d)) :=
    fun μ n d => wmul_congr w x x' hx' n (fun v => (v d - μ d) * (v d - μ d))
  unfold sphMstep
  simp only [gaussMean_local tiny w x x' hx', h2 (rd (gaussMean tiny w x'))]

theorem diagFamily_local (D : Nat) (tiny log2pi : ℝ) : MstepLocal (diagFamily D tiny log2pi) := by
  intro N w w' a a' x x' hx hw
  obtain rfl : w = w' := funext hw
  have hx' : ∀ n, w n ≠ 0 → x n = x' n := fun n h => (hx n h).1
  show diagMstep tiny N w a x = diagMstep tiny N w a' x'
  have h2 : ∀ (μ : Fin D → ℝ) d n, w n * ((x n d - μ d) * (x n d - μ d)) = w n * ((x' n d - μ d) * (x' n d - μ d)) :=
    fun μ d n => wmul_congr w x x' hx' n (fun v => (v d - μ d) * (v d - μ d))
  unfold diagMstep
  simp only [gaussMean_local tiny w x x' hx', h2 (rd (gaussMean tiny w x'))]

theorem fullFamily_local (D : Nat) (pchol : Tab D (Tab D ℝ) → Tab D (Tab D ℝ) × ℝ) (tiny log2pi : ℝ) :
    MstepLocal (fullFamily D pchol tiny log2pi) := by
  intro N w w' a a' x x' hx hw
  obtain rfl : w = w' := funext hw
  have hx' : ∀ n, w n ≠ 0 → x n = x' n := fun n h => (hx n h).1
  show fullMstep tiny N w a x = fullMstep tiny N w a' x'
  have h2 : ∀ (μ : Fin D → ℝ) d e n, w n * ((x n d - μ d) * (x n e - μ e)) = w n * ((x' n d - μ d) * (x' n e - μ e)) :=
    fun μ d e n => wmul_congr w x x' hx' n (fun v => (v d - μ d) * (v e - μ e))
  unfold fullMstep
  simp only [gaussMean_local tiny w x x' hx', h2 (rd (gaussMean tiny w x'))]

theorem vmfFamily_local (D : Nat) (lnorm : ℝ → ℝ) (lo hi tiny : ℝ) : MstepLocal (vmfFamily D lnorm lo hi tiny) := by
  intro N w w' a a' x x' hx hw
  obtain rfl : w = w' := funext hw
  have hx' : ∀ n, w n ≠ 0 → x n = x' n := fun n h => (hx n h).1
  show vmfMstep lnorm lo hi tiny N w a x = vmfMstep lnorm lo hi tiny N w a' x'
  have h1 : ∀ d n, w n * x n d = w n * x' n d := fun d n => wmul_congr w x x' hx' n (fun v => v d)
  unfold vmfMstep
  simp only [h1]

theorem wmulC_congr (c : Fin N → ℝ) (z z' : Fin N → Fin D → ℂ) (hz : ∀ n, c n ≠ 0 → z n = z' n) (n : Fin N)
    (g : (Fin D → ℂ) → ℂ) : (c n : ℂ) * g (z n) = (c n : ℂ) * g (z' n) := by
  by_cases h : c n = 0
  · rw [h, Complex.ofReal_zero, zero_mul, zero_mul]
  · rw [hz n h]

theorem outerSum_local (c : Fin N → ℝ) (z z' : Fin N → Fin D → ℂ) (hz : ∀ n, c n ≠ 0 → z n = z' n) :
    outerSum c z = outerSum c z' := by
  have h : ∀ d e n, (c n : ℂ) * (z n d * (starRingEnd ℂ) (z n e)) = (c n : ℂ) * (z' n d * (starRingEnd ℂ) (z' n e)) :=
    fun d e n => wmulC_congr c z z' hz n (fun v => v d * (starRingEnd ℂ) (v e))
  unfold outerSum
  simp only [cx_ofReal, cx_conj, h]

theorem watsonFamily_local (D : Nat) (pca : Tab D (Tab D ℂ) → Tab D ℂ × ℝ) (kinv lnorm : ℝ → ℝ) :
    MstepLocal (watsonFamily D pca kinv lnorm) := by
  intro N w w' a a' x x' hx hw
  obtain rfl : w = w' := funext hw
  have hx' : ∀ n, w n ≠ 0 → x n = x' n := fun n h => (hx n h).1
  show watsonMstep pca kinv lnorm N w a x = watsonMstep pca kinv lnorm N w a' x'
  unfold watsonMstep watsonScatter
  rw [outerSum_local w x x' hx']

/-- the cACG step reads neither the observation nor the quadratic form of an observation of weight 0
(`cacgMstep_congr` is the quadratic-form half) -/
theorem cacgFamily_local (D : Nat) (eigh : Tab (D+1) (Tab (D+1) ℂ) → Tab (D+1) (Tab (D+1) ℂ) × Tab (D+1) ℝ)
    (nrm : CovNorm) (floor tiny : ℝ) : MstepLocal (cacgFamily D eigh nrm floor tiny) := by
  intro N w w' q q' z z' hx hw
  obtain rfl : w = w' := funext hw
  show cacgMstep eigh nrm floor tiny N w q z = cacgMstep eigh nrm floor tiny N w q' z'
  rw [cacgMstep_congr eigh nrm floor tiny w q q' z fun n h => (hx n h).2]
  have hz : ∀ n, w n / max (q' n) (((10 : Nat) : ℝ) * tiny) ≠ 0 → z n = z' n := by
    intro n h
    refine (hx n ?_).1
    intro h0
    exact h (by rw [h0, zero_div])
  unfold cacgMstep cacgScatter
  rw [outerSum_local _ z z' hz]

end families

section combinators
variable {Θ Y : Type}

/-- per-slice components of a local family are local -/
theorem sliced_local {F : Nat} (fam : Family Θ Y ℝ) (h : MstepLocal fam) : MstepLocal (sliced (F := F) fam) := by
  intro N w w' a a' x x' hx hw
  show (tab fun f => fam.mstep N (fun n => if (x n).1 = f then w n else 0) a (fun n => (x n).2))
     = tab fun f => fam.mstep N (fun n => if (x' n).1 = f then w' n else 0) a' (fun n => (x' n).2)
  congr 1
  funext f
  refine h N _ _ _ _ _ _ (fun n hn => ?_) (fun n => ?_)
  · have hf : (x n).1 = f := by
      by_contra hne
      exact hn (if_neg hne)
    have hwn : w n ≠ 0 := by
      intro h0
      exact hn (by rw [if_pos hf, h0])
    exact ⟨by rw [(hx n hwn).1], (hx n hwn).2⟩
  · by_cases hwn : w n = 0
    · have hwn' : w' n = 0 := by rw [← hw n, hwn]
      simp [hwn, hwn']
    · rw [← (hx n hwn).1, hw n]

/-- two streams (`GCACGMM`) of local families are local -/
theorem prodFamily_local {Θ₂ Y₂ : Type} (fam₁ : Family Θ Y ℝ) (fam₂ : Family Θ₂ Y₂ ℝ) (h₁ : MstepLocal fam₁)
    (h₂ : MstepLocal fam₂) : MstepLocal (prodFamily fam₁ fam₂) := by
  intro N w w' a a' x x' hx hw
  show (fam₁.mstep N w a (fun n => (x n).1), fam₂.mstep N w (fun _ => 1) (fun n => (x n).2))
     = (fam₁.mstep N w' a' (fun n => (x' n).1), fam₂.mstep N w' (fun _ => 1) (fun n => (x' n).2))
  rw [h₁ N w w' a a' _ _ (fun n hn => ⟨by rw [(hx n hn).1], (hx n hn).2⟩) hw,
    h₂ N w w' (fun _ => 1) (fun _ => 1) _ _ (fun n hn => ⟨by rw [(hx n hn).1], rfl⟩) hw]

end combinators

/-! ### The weight update of a tie group reads the group only -/
section weights
variable {K N G : Nat}

theorem groupSum_congr (grp : Fin N → Fin G) (g : Fin G) (c c' : Fin N → ℝ) (h : ∀ m, grp m = g → c m = c' m) :
    groupSum grp g c = groupSum grp g c' := by
  unfold groupSum
  congr 1
  funext m
  by_cases hm : grp m = g
  · rw [if_pos hm, if_pos hm, h m hm]
  · rw [if_neg hm, if_neg hm]

/-- `estimate_mixture_weight` for tie group `g` (every rule, `eps` fallbacks included) is a function of the
affiliations and saliencies of the observations of group `g` -/
theorem groupWeight_congr (rule : WeightRule) (grp : Fin N → Fin G) (eps : ℝ) (γ γ' : Fin K → Fin N → ℝ)
    (s s' : Fin N → ℝ) (g : Fin G) (hγ : ∀ k m, grp m = g → γ k m = γ' k m) (hs : ∀ m, grp m = g → s m = s' m) :
    groupWeight rule grp eps γ s g = groupWeight rule grp eps γ' s' g := by
  have h1 : ∀ k, groupSum grp g (γ k) = groupSum grp g (γ' k) := fun k => groupSum_congr grp g _ _ (hγ k)
  have h2 : ∀ k, groupSum grp g (fun m => γ k m * s m) = groupSum grp g (fun m => γ' k m * s' m) :=
    fun k => groupSum_congr grp g _ _ fun m hm => by rw [hγ k m hm, hs m hm]
  cases rule <;> simp only [groupWeight, h1, h2]

end weights

/-! ### Non-interference -/
section slices
variable {Θ Y : Type} {K N F : Nat}

theorem sliced_mstep_rd (fam : Family Θ Y ℝ) (w a : Fin N → ℝ) (y : Fin N → Fin F × Y) (f : Fin F) :
    rd ((sliced fam).mstep N w a y) f
      = fam.mstep N (fun n => if (y n).1 = f then w n else 0) a (fun n => (y n).2) := by
  show rd (tab fun f => fam.mstep N (fun n => if (y n).1 = f then w n else 0) a (fun n => (y n).2)) f = _
  rw [rd_tab]

/-- no tie group of the weight option mixes slice `f₀` with another slice (or the weights are fixed) -/
def TieRespects (tie : Tying N) (y : Fin N → Fin F × Y) (f₀ : Fin F) : Prop :=
  tie.uniform = true ∨ ∀ n m, (y n).1 = f₀ → (y m).1 ≠ f₀ → rd tie.grp n ≠ rd tie.grp m

/-- `weight_constant_axis = (-1,)` on a stacked tensor: tie group = leading index -/
theorem tieRespects_of_grp_eq_bin (tie : Tying N) (y : Fin N → Fin F × Y) (f₀ : Fin F) (φ : Fin tie.G → Fin F)
    (h : ∀ n, φ (rd tie.grp n) = (y n).1) : TieRespects tie y f₀ := by
  refine Or.inr fun n m hn hm hg => hm ?_
  rw [← h m, ← hg, h n, hn]

/-- the two data sets have the same slice layout and the same contents on slice `f₀` -/
structure SliceAgree (f₀ : Fin F) (y y' : Fin N → Fin F × Y) (s s' : Fin N → ℝ) : Prop where
  bin : ∀ n, (y n).1 = (y' n).1
  val : ∀ n, (y n).1 = f₀ → (y n).2 = (y' n).2
  sal : ∀ n, (y n).1 = f₀ → s n = s' n

/-- the two mixtures agree on slice `f₀`: components of slice `f₀` and weights at the observations of slice `f₀` -/
structure ModelAgree (f₀ : Fin F) (y : Fin N → Fin F × Y) (θ θ' : Mixture (Tab F Θ) ℝ (K+1) N) : Prop where
  comp : ∀ k, rd (θ.c k) f₀ = rd (θ'.c k) f₀
  weight : ∀ k m, (y m).1 = f₀ → θ.w k m = θ'.w k m

/-- **M-step**: affiliations, auxiliary quantities, saliencies and values that agree on slice `f₀` give models that
agree on slice `f₀` -/
theorem mStep_sliced_agree (fam : Family Θ Y ℝ) (hloc : MstepLocal fam) (rule : WeightRule) (tie : Tying N) (eps : ℝ)
    (f₀ : Fin F) (y y' : Fin N → Fin F × Y) (s s' : Fin N → ℝ) (γ γ' a a' : Fin (K+1) → Fin N → ℝ)
    (hd : SliceAgree f₀ y y' s s') (htie : TieRespects tie y f₀)
    (hγ : ∀ k n, (y n).1 = f₀ → γ k n = γ' k n) (ha : ∀ k n, (y n).1 = f₀ → a k n = a' k n) :
    ModelAgree f₀ y (mStep (sliced fam) rule tie eps s y γ a) (mStep (sliced fam) rule tie eps s' y' γ' a') := by
  refine ⟨fun k => ?_, fun k m hm => ?_⟩
  · rw [mStep_c, mStep_c, sliced_mstep_rd, sliced_mstep_rd]
    refine hloc N _ _ _ _ _ _ (fun n hn => ?_) (fun n => ?_)
    · have hf : (y n).1 = f₀ := by
        by_contra hne
        exact hn (if_neg hne)
      exact ⟨hd.val n hf, ha k n hf⟩
    · rw [← hd.bin n]
      by_cases hf : (y n).1 = f₀
      · rw [if_pos hf, if_pos hf, hγ k n hf, hd.sal n hf]
      · rw [if_neg hf, if_neg hf]
  · cases hu : tie.uniform with
    | true => rw [mStep_w_uniform _ _ _ _ _ _ _ _ hu, mStep_w_uniform _ _ _ _ _ _ _ _ hu]
    | false =>
      rw [mStep_w_grouped _ _ _ _ _ _ _ _ hu, mStep_w_grouped _ _ _ _ _ _ _ _ hu]
      have hgrp : ∀ m', rd tie.grp m' = rd tie.grp m → (y m').1 = f₀ := by
        intro m' hg
        rcases htie with h | h
        · rw [hu] at h; exact absurd h (by decide)
        · by_contra hne
          exact h m m' hm hne hg.symm
      rw [groupWeight_congr rule (rd tie.grp) eps γ γ' s s' (rd tie.grp m)
        (fun j m' hg => hγ j m' (hgrp m' hg)) (fun m' hg => hd.sal m' (hgrp m' hg))]

/-- **E-step**: models that agree on slice `f₀` give the same posteriors on slice `f₀` -/
theorem eStep_sliced_agree (tiny : ℝ) (fam : Family Θ Y ℝ) (f₀ : Fin F) (y y' : Fin N → Fin F × Y) (s s' : Fin N → ℝ)
    (θ θ' : Mixture (Tab F Θ) ℝ (K+1) N) (hd : SliceAgree f₀ y y' s s') (hm : ModelAgree f₀ y θ θ')
    (k : Fin (K+1)) (m : Fin N) (hf : (y m).1 = f₀) :
    eStep tiny (sliced fam) θ y k m = eStep tiny (sliced fam) θ' y' k m := by
  unfold eStep
  have e1 : (fun j => θ.w j m) = fun j => θ'.w j m := funext fun j => hm.weight j m hf
  have e2 : (fun j => (sliced fam).logPdf (θ.c j) (y m)) = fun j => (sliced fam).logPdf (θ'.c j) (y' m) := by
    funext j
    show fam.logPdf (rd (θ.c j) (y m).1) (y m).2 = fam.logPdf (rd (θ'.c j) (y' m).1) (y' m).2
    rw [← hd.bin m, ← hd.val m hf, hf, hm.comp j]
  rw [e1, e2]

/-- the auxiliary quantity (cACG quadratic form) handed to the next M-step agrees on slice `f₀` -/
theorem eAux_sliced_agree (fam : Family Θ Y ℝ) (f₀ : Fin F) (y y' : Fin N → Fin F × Y) (s s' : Fin N → ℝ)
    (θ θ' : Mixture (Tab F Θ) ℝ (K+1) N) (hd : SliceAgree f₀ y y' s s') (hm : ModelAgree f₀ y θ θ')
    (k : Fin (K+1)) (m : Fin N) (hf : (y m).1 = f₀) :
    eAux (sliced fam) θ y k m = eAux (sliced fam) θ' y' k m := by
  show fam.aux (rd (θ.c k) (y m).1) (y m).2 = fam.aux (rd (θ'.c k) (y' m).1) (y' m).2
  rw [← hd.bin m, ← hd.val m hf, hf, hm.comp k]

/-- one EM iteration preserves agreement on slice `f₀` -/
theorem emStep_sliced_agree (tiny : ℝ) (fam : Family Θ Y ℝ) (hloc : MstepLocal fam) (rule : WeightRule) (tie : Tying N)
    (eps : ℝ) (f₀ : Fin F) (y y' : Fin N → Fin F × Y) (s s' : Fin N → ℝ) (θ θ' : Mixture (Tab F Θ) ℝ (K+1) N)
    (hd : SliceAgree f₀ y y' s s') (htie : TieRespects tie y f₀) (hm : ModelAgree f₀ y θ θ') :
    ModelAgree f₀ y (emStep tiny (sliced fam) rule tie eps s y θ) (emStep tiny (sliced fam) rule tie eps s' y' θ') := by
  unfold emStep
  refine mStep_sliced_agree fam hloc rule tie eps f₀ y y' s s' _ _ _ _ hd htie (fun k n hf => ?_) (fun k n hf => ?_)
  · rw [rd2_tab2, rd2_tab2]
    exact eStep_sliced_agree tiny fam f₀ y y' s s' θ θ' hd hm k n hf
  · rw [rd2_tab2, rd2_tab2]
    exact eAux_sliced_agree fam f₀ y y' s s' θ θ' hd hm k n hf

/-- the loop invariant: after any number of iterations the two fits agree on slice `f₀` -/
theorem fit_sliced_agree (tiny : ℝ) (fam : Family Θ Y ℝ) (hloc : MstepLocal fam) (rule : WeightRule) (tie : Tying N)
    (eps : ℝ) (f₀ : Fin F) (y y' : Fin N → Fin F × Y) (s s' : Fin N → ℝ) (γ₀ γ₀' : Fin (K+1) → Fin N → ℝ)
    (hd : SliceAgree f₀ y y' s s') (htie : TieRespects tie y f₀)
    (hγ : ∀ k n, (y n).1 = f₀ → γ₀ k n = γ₀' k n) (n : Nat) :
    ModelAgree f₀ y (fit tiny (sliced fam) rule tie eps s y n γ₀) (fit tiny (sliced fam) rule tie eps s' y' n γ₀') := by
  have base : ModelAgree f₀ y (fit tiny (sliced fam) rule tie eps s y 1 γ₀)
      (fit tiny (sliced fam) rule tie eps s' y' 1 γ₀') :=
    mStep_sliced_agree fam hloc rule tie eps f₀ y y' s s' γ₀ γ₀' _ _ hd htie hγ (fun _ _ _ => rfl)
  rcases Nat.eq_zero_or_pos n with rfl | hn
  · exact base
  · induction n, hn using Nat.le_induction with
    | base => exact base
    | succ i hi ih =>
      rw [fit_succ tiny _ rule tie eps s y γ₀ i hi, fit_succ tiny _ rule tie eps s' y' γ₀' i hi]
      exact emStep_sliced_agree tiny fam hloc rule tie eps f₀ y y' s s' _ _ hd htie ih

/-- **C06, non-interference on `Em.fit`**: two stacked problems with the same slice layout that coincide on slice `f₀`
(values, saliencies, start affiliations) — and differ arbitrarily on every other slice — give, after any number `n` of
EM iterations, the same slice-`f₀` component for every class, the same mixture weights at the observations of slice
`f₀`, and the same posteriors there.  Any weight rule (`eps` fallbacks included), any tying that does not tie slice
`f₀` to another slice, any family whose one-component fit ignores observations of weight 0. -/
theorem sliced_fit_noninterference (tiny : ℝ) (fam : Family Θ Y ℝ) (hloc : MstepLocal fam) (rule : WeightRule)
    (tie : Tying N) (eps : ℝ) (f₀ : Fin F) (y y' : Fin N → Fin F × Y) (s s' : Fin N → ℝ)
    (γ₀ γ₀' : Fin (K+1) → Fin N → ℝ)
    (hbin : ∀ n, (y n).1 = (y' n).1) (hval : ∀ n, (y n).1 = f₀ → (y n).2 = (y' n).2)
    (hsal : ∀ n, (y n).1 = f₀ → s n = s' n) (hγ : ∀ k n, (y n).1 = f₀ → γ₀ k n = γ₀' k n)
    (htie : tie.uniform = true ∨ ∀ n m, (y n).1 = f₀ → (y m).1 ≠ f₀ → rd tie.grp n ≠ rd tie.grp m) (n : Nat) :
    (∀ k, rd ((fit tiny (sliced fam) rule tie eps s y n γ₀).c k) f₀
        = rd ((fit tiny (sliced fam) rule tie eps s' y' n γ₀').c k) f₀)
    ∧ (∀ k m, (y m).1 = f₀ → (fit tiny (sliced fam) rule tie eps s y n γ₀).w k m
        = (fit tiny (sliced fam) rule tie eps s' y' n γ₀').w k m)
    ∧ (∀ k m, (y m).1 = f₀ → eStep tiny (sliced fam) (fit tiny (sliced fam) rule tie eps s y n γ₀) y k m
        = eStep tiny (sliced fam) (fit tiny (sliced fam) rule tie eps s' y' n γ₀') y' k m) := by
  have hd : SliceAgree f₀ y y' s s' := ⟨hbin, hval, hsal⟩
  have h := fit_sliced_agree tiny fam hloc rule tie eps f₀ y y' s s' γ₀ γ₀' hd htie hγ n
  exact ⟨h.comp, h.weight, fun k m hf => eStep_sliced_agree tiny fam f₀ y y' s s' _ _ hd h k m hf⟩

/-! ### Slice `f₀` alone -/

/-- the stacked data with every observation outside slice `f₀` replaced by the dummy value `d` -/
def aloneData (f₀ : Fin F) (d : Y) (y : Fin N → Fin F × Y) : Fin N → Fin F × Y :=
  fun n => ((y n).1, if (y n).1 = f₀ then (y n).2 else d)

/-- saliency 0 outside slice `f₀` -/
def aloneSal (f₀ : Fin F) (y : Fin N → Fin F × Y) (s : Fin N → ℝ) : Fin N → ℝ :=
  fun n => if (y n).1 = f₀ then s n else 0

/-- start affiliation `c` outside slice `f₀` -/
def aloneInit (f₀ : Fin F) (y : Fin N → Fin F × Y) (c : ℝ) (γ₀ : Fin (K+1) → Fin N → ℝ) : Fin (K+1) → Fin N → ℝ :=
  fun k n => if (y n).1 = f₀ then γ₀ k n else c

/-- **slice `f₀` gets the result it would get alone**: the stacked fit restricted to slice `f₀` equals the fit of the
problem in which every observation of another slice is a fixed dummy `d` of saliency 0 with start affiliation `c` -/
theorem sliced_fit_alone (tiny : ℝ) (fam : Family Θ Y ℝ) (hloc : MstepLocal fam) (rule : WeightRule)
    (tie : Tying N) (eps : ℝ) (f₀ : Fin F) (y : Fin N → Fin F × Y) (s : Fin N → ℝ) (γ₀ : Fin (K+1) → Fin N → ℝ)
    (d : Y) (c : ℝ)
    (htie : tie.uniform = true ∨ ∀ n m, (y n).1 = f₀ → (y m).1 ≠ f₀ → rd tie.grp n ≠ rd tie.grp m) (n : Nat) :
    (∀ k, rd ((fit tiny (sliced fam) rule tie eps s y n γ₀).c k) f₀
        = rd ((fit tiny (sliced fam) rule tie eps (aloneSal f₀ y s) (aloneData f₀ d y) n (aloneInit f₀ y c γ₀)).c k) f₀)
    ∧ (∀ k m, (y m).1 = f₀ → (fit tiny (sliced fam) rule tie eps s y n γ₀).w k m
        = (fit tiny (sliced fam) rule tie eps (aloneSal f₀ y s) (aloneData f₀ d y) n (aloneInit f₀ y c γ₀)).w k m)
    ∧ (∀ k m, (y m).1 = f₀ → eStep tiny (sliced fam) (fit tiny (sliced fam) rule tie eps s y n γ₀) y k m
        = eStep tiny (sliced fam)
            (fit tiny (sliced fam) rule tie eps (aloneSal f₀ y s) (aloneData f₀ d y) n (aloneInit f₀ y c γ₀))
            (aloneData f₀ d y) k m) := by
  refine sliced_fit_noninterference tiny fam hloc rule tie eps f₀ y (aloneData f₀ d y) s (aloneSal f₀ y s) γ₀
    (aloneInit f₀ y c γ₀) (fun n => rfl) (fun n hf => ?_) (fun n hf => ?_) (fun k n hf => ?_) htie n
  · show (y n).2 = if (y n).1 = f₀ then (y n).2 else d
    rw [if_pos hf]
  · show s n = if (y n).1 = f₀ then s n else 0
    rw [if_pos hf]
  · show γ₀ k n = if (y n).1 = f₀ then γ₀ k n else c
    rw [if_pos hf]

/-! ### Slice `f₀` of the stacked fit = the fit of the plain family on slice `f₀` -/

/-- a stacked model and a model of the plain family agree on slice `f₀` -/
structure SingleAgree (f₀ : Fin F) (y : Fin N → Fin F × Y) (θ : Mixture (Tab F Θ) ℝ (K+1) N)
    (ϑ : Mixture Θ ℝ (K+1) N) : Prop where
  comp : ∀ k, rd (θ.c k) f₀ = ϑ.c k
  weight : ∀ k m, (y m).1 = f₀ → θ.w k m = ϑ.w k m

theorem mStep_single_agree (fam : Family Θ Y ℝ) (hloc : MstepLocal fam) (rule : WeightRule) (tie : Tying N) (eps : ℝ)
    (f₀ : Fin F) (y : Fin N → Fin F × Y) (s : Fin N → ℝ) (γ γ' a a' : Fin (K+1) → Fin N → ℝ)
    (htie : TieRespects tie y f₀)
    (hγ : ∀ k n, (y n).1 = f₀ → γ k n = γ' k n) (ha : ∀ k n, (y n).1 = f₀ → a k n = a' k n) :
    SingleAgree f₀ y (mStep (sliced fam) rule tie eps s y γ a)
      (mStep fam rule tie eps (aloneSal f₀ y s) (fun n => (y n).2) γ' a') := by
  refine ⟨fun k => ?_, fun k m hm => ?_⟩
  · rw [mStep_c, mStep_c, sliced_mstep_rd]
    refine hloc N _ _ _ _ _ _ (fun n hn => ?_) (fun n => ?_)
    · have hf : (y n).1 = f₀ := by
        by_contra hne
        exact hn (if_neg hne)
      exact ⟨rfl, ha k n hf⟩
    · show (if (y n).1 = f₀ then γ k n * s n else 0) = γ' k n * (if (y n).1 = f₀ then s n else 0)
      by_cases hf : (y n).1 = f₀
      · rw [if_pos hf, if_pos hf, hγ k n hf]
      · rw [if_neg hf, if_neg hf, mul_zero]
  · cases hu : tie.uniform with
    | true => rw [mStep_w_uniform _ _ _ _ _ _ _ _ hu, mStep_w_uniform _ _ _ _ _ _ _ _ hu]
    | false =>
      rw [mStep_w_grouped _ _ _ _ _ _ _ _ hu, mStep_w_grouped _ _ _ _ _ _ _ _ hu]
      have hgrp : ∀ m', rd tie.grp m' = rd tie.grp m → (y m').1 = f₀ := by
        intro m' hg
        rcases htie with h | h
        · rw [hu] at h; exact absurd h (by decide)
        · by_contra hne
          exact h m m' hm hne hg.symm
      rw [groupWeight_congr rule (rd tie.grp) eps γ γ' s (aloneSal f₀ y s) (rd tie.grp m)
        (fun j m' hg => hγ j m' (hgrp m' hg))
        (fun m' hg => by show s m' = if (y m').1 = f₀ then s m' else 0; rw [if_pos (hgrp m' hg)])]

theorem eStep_single_agree (tiny : ℝ) (fam : Family Θ Y ℝ) (f₀ : Fin F) (y : Fin N → Fin F × Y)
    (θ : Mixture (Tab F Θ) ℝ (K+1) N) (ϑ : Mixture Θ ℝ (K+1) N) (hm : SingleAgree f₀ y θ ϑ)
    (k : Fin (K+1)) (m : Fin N) (hf : (y m).1 = f₀) :
    eStep tiny (sliced fam) θ y k m = eStep tiny fam ϑ (fun n => (y n).2) k m := by
  unfold eStep
  have e1 : (fun j => θ.w j m) = fun j => ϑ.w j m := funext fun j => hm.weight j m hf
  have e2 : (fun j => (sliced fam).logPdf (θ.c j) (y m)) = fun j => fam.logPdf (ϑ.c j) (y m).2 := by
    funext j
    show fam.logPdf (rd (θ.c j) (y m).1) (y m).2 = fam.logPdf (ϑ.c j) (y m).2
    rw [hf, hm.comp j]
  rw [e1, e2]

theorem fit_single_agree (tiny : ℝ) (fam : Family Θ Y ℝ) (hloc : MstepLocal fam) (rule : WeightRule) (tie : Tying N)
    (eps : ℝ) (f₀ : Fin F) (y : Fin N → Fin F × Y) (s : Fin N → ℝ) (γ₀ γ₀' : Fin (K+1) → Fin N → ℝ)
    (htie : TieRespects tie y f₀) (hγ : ∀ k n, (y n).1 = f₀ → γ₀ k n = γ₀' k n) (n : Nat) :
    SingleAgree f₀ y (fit tiny (sliced fam) rule tie eps s y n γ₀)
      (fit tiny fam rule tie eps (aloneSal f₀ y s) (fun n => (y n).2) n γ₀') := by
  have base : SingleAgree f₀ y (fit tiny (sliced fam) rule tie eps s y 1 γ₀)
      (fit tiny fam rule tie eps (aloneSal f₀ y s) (fun n => (y n).2) 1 γ₀') :=
    mStep_single_agree fam hloc rule tie eps f₀ y s γ₀ γ₀' _ _ htie hγ (fun _ _ _ => rfl)
  rcases Nat.eq_zero_or_pos n with rfl | hn
  · exact base
  · induction n, hn using Nat.le_induction with
    | base => exact base
    | succ i hi ih =>
      rw [fit_succ tiny _ rule tie eps s y γ₀ i hi, fit_succ tiny fam rule tie eps _ _ γ₀' i hi]
      unfold emStep
      refine mStep_single_agree fam hloc rule tie eps f₀ y s _ _ _ _ htie (fun k n hf => ?_) (fun k n hf => ?_)
      · rw [rd2_tab2, rd2_tab2]
        exact eStep_single_agree tiny fam f₀ y _ _ ih k n hf
      · rw [rd2_tab2, rd2_tab2]
        show fam.aux (rd ((fit tiny (sliced fam) rule tie eps s y i γ₀).c k) (y n).1) (y n).2 = fam.aux _ (y n).2
        rw [hf, ih.comp k]

/-- **C06 against the un-stacked trainer**: slice `f₀` of the stacked fit (per-slice components, `sliced fam`) equals
the fit of the plain family `fam` — no leading axis, one component per class — on the values, with the saliency of
every observation outside slice `f₀` set to 0 (start affiliations equal on slice `f₀`, arbitrary elsewhere):
same component, same weights on the slice, same posteriors on the slice, after any number of iterations. -/
theorem sliced_fit_eq_single (tiny : ℝ) (fam : Family Θ Y ℝ) (hloc : MstepLocal fam) (rule : WeightRule)
    (tie : Tying N) (eps : ℝ) (f₀ : Fin F) (y : Fin N → Fin F × Y) (s : Fin N → ℝ) (γ₀ γ₀' : Fin (K+1) → Fin N → ℝ)
    (hγ : ∀ k n, (y n).1 = f₀ → γ₀ k n = γ₀' k n)
    (htie : tie.uniform = true ∨ ∀ n m, (y n).1 = f₀ → (y m).1 ≠ f₀ → rd tie.grp n ≠ rd tie.grp m) (n : Nat) :
    (∀ k, rd ((fit tiny (sliced fam) rule tie eps s y n γ₀).c k) f₀
        = (fit tiny fam rule tie eps (aloneSal f₀ y s) (fun n => (y n).2) n γ₀').c k)
    ∧ (∀ k m, (y m).1 = f₀ → (fit tiny (sliced fam) rule tie eps s y n γ₀).w k m
        = (fit tiny fam rule tie eps (aloneSal f₀ y s) (fun n => (y n).2) n γ₀').w k m)
    ∧ (∀ k m, (y m).1 = f₀ → eStep tiny (sliced fam) (fit tiny (sliced fam) rule tie eps s y n γ₀) y k m
        = eStep tiny fam (fit tiny fam rule tie eps (aloneSal f₀ y s) (fun n => (y n).2) n γ₀')
            (fun n => (y n).2) k m) := by
  have h := fit_single_agree tiny fam hloc rule tie eps f₀ y s γ₀ γ₀' htie hγ n
  exact ⟨h.comp, h.weight, fun k m hf => eStep_single_agree tiny fam f₀ y _ _ h k m hf⟩

end slices

/-! ### Non-vacuity: F = 2 slices, K = 2 classes, N = 4 observations, spherical Gaussians, per-slice weights -/
section nonvacuous

/-- observations 0,1 lie in slice 0, observations 2,3 in slice 1 -/
def exBin : Fin 4 → Fin 2 := ![0, 0, 1, 1]
noncomputable def exY : Fin 4 → Fin 2 × (Fin 1 → ℝ) := fun n => (exBin n, fun _ => (![1, 2, 3, 4] : Fin 4 → ℝ) n)
/-- other values on slice 1 -/
noncomputable def exY' : Fin 4 → Fin 2 × (Fin 1 → ℝ) := fun n => (exBin n, fun _ => (![1, 2, 7, -5] : Fin 4 → ℝ) n)
/-- `weight_constant_axis = (-1,)`: one weight vector per slice -/
def exTie : Tying 4 := ⟨false, 2, tab exBin⟩
noncomputable def exS' : Fin 4 → ℝ := ![1, 1, 2, 3]
noncomputable def exG : Fin 2 → Fin 4 → ℝ := ![![3/4, 1/4, 1/2, 1/2], ![1/4, 3/4, 1/2, 1/2]]
noncomputable def exG' : Fin 2 → Fin 4 → ℝ := ![![3/4, 1/4, 1/10, 1], ![1/4, 3/4, 9/10, 0]]

/-- the two data sets really differ (on slice 1) -/
example : exY 2 ≠ exY' 2 := by
  intro h
  have := congrFun (congrArg Prod.snd h) 0
  simp [exY, exY'] at this

/-- the hypotheses of `sliced_fit_noninterference` are satisfiable with different data on the other slice: slice 0 of
the two fits (saliency rule `_unit_norm`, per-slice weights) coincides after any number of iterations -/
example (n : Nat) :
    let fam := sphFamily (α := ℝ) 1 (1/10^10) (Real.log (2 * Real.pi))
    (∀ k, rd ((fit (K := 1) (1/10^10) (sliced fam) .unitNorm exTie (1/10^10) (fun _ => 1) exY n exG).c k) 0
        = rd ((fit (K := 1) (1/10^10) (sliced fam) .unitNorm exTie (1/10^10) exS' exY' n exG').c k) 0)
    ∧ (∀ k m, (exY m).1 = 0 → (fit (K := 1) (1/10^10) (sliced fam) .unitNorm exTie (1/10^10) (fun _ => 1) exY n exG).w k m
        = (fit (K := 1) (1/10^10) (sliced fam) .unitNorm exTie (1/10^10) exS' exY' n exG').w k m)
    ∧ (∀ k m, (exY m).1 = 0 →
        eStep (1/10^10) (sliced fam) (fit (K := 1) (1/10^10) (sliced fam) .unitNorm exTie (1/10^10) (fun _ => 1) exY n exG) exY k m
        = eStep (1/10^10) (sliced fam) (fit (K := 1) (1/10^10) (sliced fam) .unitNorm exTie (1/10^10) exS' exY' n exG') exY' k m) := by
  intro fam
  refine sliced_fit_noninterference (1/10^10) fam (sphFamily_local 1 _ _) .unitNorm exTie (1/10^10) 0 exY exY'
    (fun _ => 1) exS' exG exG' (fun _ => rfl) ?_ ?_ ?_ ?_ n
  · intro m hm
    fin_cases m <;> simp [exY, exY', exBin] at hm ⊢
  · intro m hm
    fin_cases m <;> simp [exY, exS', exBin] at hm ⊢
  · intro k m hm
    fin_cases m <;> fin_cases k <;> simp [exY, exG, exG', exBin] at hm ⊢
  · exact tieRespects_of_grp_eq_bin exTie exY 0 id fun m => by simp [exTie, exY]

end nonvacuous

end PbBss.EmProof

import PbBss.Model.Em
import PbBss.Model.Dist
import PbBss.Model.Posterior
import PbBss.Proofs.RealInst
import PbBss.Proofs.MasksProof
import Mathlib.Tactic
import Mathlib.Analysis.SpecialFunctions.Log.Basic
import Mathlib.Analysis.SpecialFunctions.Sqrt
import Mathlib.Analysis.Complex.Basic
import Mathlib.LinearAlgebra.Matrix.NonsingularInverse
/-! E-step ranking mechanisms behind C03 (one-observation statements about the log-pdfs of `PbBss.Em`,
`PbBss.Dist` and the posterior of `PbBss.Em.eStep`), over `α := ℝ`, `β := ℂ`. -/
open PbBss PbBss.Em Finset

namespace PbBss.FixedPoint

local notation "conj" => starRingEnd ℂ

/-! ### the scene -/

/-- the prototypes `a k` are orthonormal vectors of `ℂ^D`: `⟨a j, a k⟩ = δ_jk` -/
def OrthoProto {K D : Nat} (a : Fin K → Fin D → ℂ) : Prop :=
  ∀ j k, ∑ d, a j d * conj (a k d) = if j = k then 1 else 0

/-- real prototypes (vMF / Gaussian stream) -/
def OrthoProtoR {K D : Nat} (a : Fin K → Fin D → ℝ) : Prop :=
  ∀ j k, ∑ d, a j d * a k d = if j = k then 1 else 0

theorem abs2_eq (z : ℂ) : abs2 (α := ℝ) z = Complex.normSq z := by
  simp [abs2, Complex.normSq_apply]

theorem cdot_eq {D : Nat} (y w : Fin D → ℂ) : cdot (α := ℝ) y w = ∑ d, y d * conj (w d) := by
  simp [cdot, vsum_eq_sum]

/-- `⟨u•a_c, p•a_j⟩ = u·conj p·δ_cj` -/
theorem inner_scene {K D : Nat} {a : Fin K → Fin D → ℂ} (ha : OrthoProto a) (c j : Fin K) (u p : ℂ) :
    ∑ d, (u * a c d) * conj (p * a j d) = if c = j then u * conj p else 0 := by
  have : ∀ d, (u * a c d) * conj (p * a j d) = (u * conj p) * (a c d * conj (a j d)) := by
    intro d; rw [map_mul]; ring
  simp only [this, ← Finset.mul_sum, ha c j]
  split <;> simp

/-! ### Watson -/

theorem watsonLogPdf_eq {D : Nat} (θ : Watson ℝ ℂ D) (z : Fin D → ℂ) :
    watsonLogPdf θ z = θ.kappa * Complex.normSq (∑ d, z d * conj (rd θ.mode d)) - θ.logNorm := by
  simp [watsonLogPdf, abs2_eq, cdot_eq]

/-- value of the Watson log-pdf in the noise-free orthonormal scene -/
theorem watsonLogPdf_scene {K D : Nat} {a : Fin K → Fin D → ℂ} (ha : OrthoProto a) (θ : Watson ℝ ℂ D)
    (j c : Fin K) (p u : ℂ) (hp : Complex.normSq p = 1) (hu : Complex.normSq u = 1)
    (hmode : ∀ d, rd θ.mode d = p * a j d) (z : Fin D → ℂ) (hz : ∀ d, z d = u * a c d) :
    watsonLogPdf θ z = θ.kappa * (if c = j then 1 else 0) - θ.logNorm := by
  rw [watsonLogPdf_eq]
  simp only [hmode, hz, inner_scene ha]
  split
  · simp [Complex.normSq_mul, hp, hu, Complex.normSq_conj]
  · simp

/-! ### cACG -/

/-- the columns of the eigenvector table are orthonormal -/
def ColUnitary {D : Nat} (θ : Cacg ℝ ℂ D) : Prop :=
  ∀ e e', ∑ g, conj (rd2 θ.vecs g e) * rd2 θ.vecs g e' = if e = e' then 1 else 0

/-- covariance `U diag(1, φ, …, φ) Uᴴ` whose eigenvalue-1 eigenvector is the line of `v` -/
def Spiked {D : Nat} (θ : Cacg ℝ ℂ D) (v : Fin D → ℂ) (φ : ℝ) : Prop :=
  ColUnitary θ ∧ ∃ (t : Fin D) (p : ℂ), Complex.normSq p = 1 ∧ (∀ g, rd2 θ.vecs g t = p * v g) ∧
    rd θ.vals t = 1 ∧ ∀ e, e ≠ t → rd θ.vals e = φ

/-- the quadratic form before flooring -/
noncomputable def quadRaw {D : Nat} (θ : Cacg ℝ ℂ D) (z : Fin D → ℂ) : ℝ :=
  ∑ e, Complex.normSq (∑ g, conj (rd2 θ.vecs g e) * z g) / rd θ.vals e

theorem cacgQuad_eq {D : Nat} (tiny : ℝ) (θ : Cacg ℝ ℂ D) (z : Fin D → ℂ) :
    cacgQuad tiny θ z = max (quadRaw θ z) tiny := by
  simp [cacgQuad, quadRaw, abs2_eq, vsum_eq_sum]

theorem cacgLogPdf_eq {D : Nat} (tiny : ℝ) (θ : Cacg ℝ ℂ D) (z : Fin D → ℂ) :
    cacgLogPdf tiny θ z = -((D : ℝ) * Real.log (max (quadRaw θ z) tiny)) - ∑ e, Real.log (rd θ.vals e) := by
  simp [cacgLogPdf, cacgQuad_eq, vsum_eq_sum]

/-- Parseval for a square table with orthonormal columns -/
theorem parseval {D : Nat} (θ : Cacg ℝ ℂ D) (hU : ColUnitary θ) (z : Fin D → ℂ) :
    ∑ e, Complex.normSq (∑ g, conj (rd2 θ.vecs g e) * z g) = ∑ g, Complex.normSq (z g) := by
  let M : Matrix (Fin D) (Fin D) ℂ := Matrix.of fun g e => rd2 θ.vecs g e
  have h1 : M.conjTranspose * M = 1 := by
    ext e e'
    simp only [Matrix.mul_apply, Matrix.conjTranspose_apply, Matrix.one_apply, M, Matrix.of_apply]
    simpa using hU e e'
  have h2 : M * M.conjTranspose = 1 := (Matrix.mul_eq_one_comm_of_card_eq (Fin D) (Fin D) ℂ rfl).mp h1
  have key : star (M.conjTranspose.mulVec z) ⬝ᵥ M.conjTranspose.mulVec z = star z ⬝ᵥ z := by
    rw [Matrix.star_mulVec, Matrix.conjTranspose_conjTranspose, Matrix.dotProduct_mulVec, Matrix.vecMul_vecMul, h2,
      Matrix.vecMul_one]
  have e1 : ∀ e, M.conjTranspose.mulVec z e = ∑ g, conj (rd2 θ.vecs g e) * z g := by
    intro e; simp [Matrix.mulVec, dotProduct, M]
  have l : (star (M.conjTranspose.mulVec z) ⬝ᵥ M.conjTranspose.mulVec z)
      = ((∑ e, Complex.normSq (∑ g, conj (rd2 θ.vecs g e) * z g) : ℝ) : ℂ) := by
    simp only [dotProduct, Pi.star_apply, e1, Complex.ofReal_sum]
    refine Finset.sum_congr rfl fun e _ => ?_
    rw [Complex.normSq_eq_conj_mul_self]; rfl
  have r : (star z ⬝ᵥ z) = ((∑ g, Complex.normSq (z g) : ℝ) : ℂ) := by
    simp only [dotProduct, Pi.star_apply, Complex.ofReal_sum]
    refine Finset.sum_congr rfl fun e _ => ?_
    rw [Complex.normSq_eq_conj_mul_self]; rfl
  rw [l, r] at key
  exact_mod_cast key

/-- spiked covariance: `zᴴB⁻¹z = x + (‖z‖² − x)/φ` with `x = |⟨v, z⟩|²` -/
theorem quadRaw_spiked {D : Nat} (θ : Cacg ℝ ℂ D) (v : Fin D → ℂ) (φ : ℝ) (h : Spiked θ v φ) (z : Fin D → ℂ) :
    quadRaw θ z = Complex.normSq (∑ g, conj (v g) * z g)
      + ((∑ g, Complex.normSq (z g)) - Complex.normSq (∑ g, conj (v g) * z g)) / φ := by
  obtain ⟨hU, t, p, hp, hcol, h1, hφ⟩ := h
  have hx : Complex.normSq (∑ g, conj (rd2 θ.vecs g t) * z g) = Complex.normSq (∑ g, conj (v g) * z g) := by
    have : ∀ g, conj (rd2 θ.vecs g t) * z g = conj p * (conj (v g) * z g) := by
      intro g; rw [hcol, map_mul]; ring
    simp only [this, ← Finset.mul_sum, Complex.normSq_mul, Complex.normSq_conj, hp, one_mul]
  have hP := parseval θ hU z
  unfold quadRaw
  rw [← Finset.add_sum_erase _ _ (Finset.mem_univ t), h1, div_one, hx]
  congr 1
  rw [← hP, ← Finset.add_sum_erase _ (fun e => Complex.normSq (∑ g, conj (rd2 θ.vecs g e) * z g)) (Finset.mem_univ t),
    hx, add_sub_cancel_left, Finset.sum_div]
  refine Finset.sum_congr rfl fun e he => ?_
  rw [hφ e (Finset.ne_of_mem_erase he)]

/-- `Σ_e log λ_e = (D − 1)·log φ` for a spiked covariance -/
theorem sumLog_spiked {D : Nat} (θ : Cacg ℝ ℂ D) (v : Fin D → ℂ) (φ : ℝ) (h : Spiked θ v φ) :
    ∑ e, Real.log (rd θ.vals e) = ((D : ℝ) - 1) * Real.log φ := by
  obtain ⟨-, t, p, -, -, h1, hφ⟩ := h
  rw [← Finset.add_sum_erase _ _ (Finset.mem_univ t), h1, Real.log_one, zero_add]
  rw [Finset.sum_congr rfl fun e he => by rw [hφ e (Finset.ne_of_mem_erase he)]]
  simp [Finset.card_erase_of_mem, Nat.cast_pred (Fin.pos t)]

/-- the variant of the cACG log-pdf with the eigenvalues NOT inverted in the quadratic form
(`zᴴ B z` instead of `zᴴ B⁻¹ z`): what `cacg_rank` is about -/
noncomputable def cacgLogPdfInverted {D : Nat} (tiny : ℝ) (θ : Cacg ℝ ℂ D) (z : Fin D → ℂ) : ℝ :=
  -((D : ℝ) * Real.log (max (∑ e, Complex.normSq (∑ g, conj (rd2 θ.vecs g e) * z g) * rd θ.vals e) tiny))
    - ∑ e, Real.log (rd θ.vals e)

theorem quadInverted_spiked {D : Nat} (θ : Cacg ℝ ℂ D) (v : Fin D → ℂ) (φ : ℝ) (h : Spiked θ v φ) (z : Fin D → ℂ) :
    ∑ e, Complex.normSq (∑ g, conj (rd2 θ.vecs g e) * z g) * rd θ.vals e
      = Complex.normSq (∑ g, conj (v g) * z g)
      + ((∑ g, Complex.normSq (z g)) - Complex.normSq (∑ g, conj (v g) * z g)) * φ := by
  obtain ⟨hU, t, p, hp, hcol, h1, hφ⟩ := h
  have hx : Complex.normSq (∑ g, conj (rd2 θ.vecs g t) * z g) = Complex.normSq (∑ g, conj (v g) * z g) := by
    have : ∀ g, conj (rd2 θ.vecs g t) * z g = conj p * (conj (v g) * z g) := by
      intro g; rw [hcol, map_mul]; ring
    simp only [this, ← Finset.mul_sum, Complex.normSq_mul, Complex.normSq_conj, hp, one_mul]
  have hP := parseval θ hU z
  rw [← Finset.add_sum_erase _ _ (Finset.mem_univ t), h1, mul_one, hx]
  congr 1
  rw [← hP, ← Finset.add_sum_erase _ (fun e => Complex.normSq (∑ g, conj (rd2 θ.vecs g e) * z g)) (Finset.mem_univ t),
    hx, add_sub_cancel_left, Finset.sum_mul]
  refine Finset.sum_congr rfl fun e he => ?_
  rw [hφ e (Finset.ne_of_mem_erase he)]

/-- the two scene quantities: `|⟨p•a_j, u•a_c⟩|² = δ_jc`, `‖u•a_c‖² = 1` -/
theorem scene_inner_sq {K D : Nat} {a : Fin K → Fin D → ℂ} (ha : OrthoProto a) (j c : Fin K) (u : ℂ)
    (hu : Complex.normSq u = 1) (z : Fin D → ℂ) (hz : ∀ d, z d = u * a c d) :
    Complex.normSq (∑ g, conj (a j g) * z g) = if c = j then 1 else 0 := by
  have : ∀ g, conj (a j g) * z g = (u * a c g) * conj (1 * a j g) := by
    intro g; rw [hz, one_mul]; ring
  simp only [this, inner_scene ha]
  split <;> simp [hu]

theorem scene_norm_sq {K D : Nat} {a : Fin K → Fin D → ℂ} (ha : OrthoProto a) (c : Fin K) (u : ℂ)
    (hu : Complex.normSq u = 1) (z : Fin D → ℂ) (hz : ∀ d, z d = u * a c d) :
    ∑ g, Complex.normSq (z g) = 1 := by
  have h := ha c c
  simp only [if_true] at h
  have h' : ((∑ g, Complex.normSq (a c g) : ℝ) : ℂ) = 1 := by
    rw [← h, Complex.ofReal_sum]
    exact Finset.sum_congr rfl fun g _ => (Complex.mul_conj _).symm
  have h'' : ∑ g, Complex.normSq (a c g) = 1 := by exact_mod_cast h'
  simp only [hz, Complex.normSq_mul, hu, one_mul, h'']

/-! ### Gaussians -/

theorem sphLogPdf_eq {D : Nat} (log2pi : ℝ) (θ : SphG ℝ D) (y : Fin D → ℝ) (hv : 0 < θ.var) :
    sphLogPdf log2pi θ y = -(half * (D : ℝ) * log2pi) + (D : ℝ) * Real.log (1 / Real.sqrt θ.var)
      - half * ((∑ d, (y d - rd θ.mean d) ^ 2) / θ.var) := by
  have hs : 0 < Real.sqrt θ.var := Real.sqrt_pos.mpr hv
  have e : ∀ d, (1 / Real.sqrt θ.var * (y d - rd θ.mean d)) * (1 / Real.sqrt θ.var * (y d - rd θ.mean d))
      = (y d - rd θ.mean d) ^ 2 / θ.var := by
    intro d
    have : Real.sqrt θ.var * Real.sqrt θ.var = θ.var := Real.mul_self_sqrt hv.le
    calc _ = (y d - rd θ.mean d) ^ 2 / (Real.sqrt θ.var * Real.sqrt θ.var) := by
          have := hs.ne'; field_simp
      _ = _ := by rw [this]
  simp only [sphLogPdf, transc_sqrt_real, transc_log_real, vsum_eq_sum, e, Finset.sum_div]

theorem diagLogPdf_eq {D : Nat} (log2pi : ℝ) (θ : DiagG ℝ D) (y : Fin D → ℝ) (hv : ∀ d, 0 < rd θ.var d) :
    diagLogPdf log2pi θ y = -(half * (D : ℝ) * log2pi) + (∑ d, Real.log (1 / Real.sqrt (rd θ.var d)))
      - half * ∑ d, (y d - rd θ.mean d) ^ 2 / rd θ.var d := by
  have e : ∀ d, (1 / Real.sqrt (rd θ.var d) * (y d - rd θ.mean d)) * (1 / Real.sqrt (rd θ.var d) * (y d - rd θ.mean d))
      = (y d - rd θ.mean d) ^ 2 / rd θ.var d := by
    intro d
    have hs : 0 < Real.sqrt (rd θ.var d) := Real.sqrt_pos.mpr (hv d)
    have : Real.sqrt (rd θ.var d) * Real.sqrt (rd θ.var d) = rd θ.var d := Real.mul_self_sqrt (hv d).le
    calc _ = (y d - rd θ.mean d) ^ 2 / (Real.sqrt (rd θ.var d) * Real.sqrt (rd θ.var d)) := by
          have := hs.ne'; field_simp
      _ = _ := by rw [this]
  simp only [diagLogPdf, transc_sqrt_real, transc_log_real, vsum_eq_sum, e]

theorem half_pos : 0 < (half : ℝ) := by unfold half; norm_num

/-- squared Mahalanobis distance w.r.t. a precision matrix `Λ` -/
noncomputable def mahal {D : Nat} (Λ : Fin D → Fin D → ℝ) (v : Fin D → ℝ) : ℝ := ∑ d, ∑ e, v d * Λ d e * v e

/-- `‖Pᵀ v‖² = vᵀ (P Pᵀ) v` -/
theorem white_sq {D : Nat} (P Λ : Fin D → Fin D → ℝ) (hP : ∀ d e, Λ d e = ∑ k, P d k * P e k) (v : Fin D → ℝ) :
    ∑ k, (∑ d, P d k * v d) * (∑ d, P d k * v d) = mahal Λ v := by
  unfold mahal
  simp only [hP, Finset.mul_sum, Finset.sum_mul]
  rw [Finset.sum_comm]
  refine Finset.sum_congr rfl fun d _ => ?_
  rw [Finset.sum_comm]
  refine Finset.sum_congr rfl fun e _ => ?_
  refine Finset.sum_congr rfl fun k _ => ?_
  ring

theorem gaussLogPdf_eq {D : Nat} (pi ell : ℝ) (P Λ : Fin D → Fin D → ℝ) (hP : ∀ d e, Λ d e = ∑ k, P d k * P e k)
    (μ y : Fin D → ℝ) :
    Dist.gaussLogPdf pi μ P ell y
      = (-(1 : ℝ)) / 2 * (D : ℝ) * Real.log (2 * pi) + ell - 1 / 2 * mahal Λ (fun d => y d - μ d) := by
  simp only [Dist.gaussLogPdf, Dist.gaussTail, vsum_eq_sum, transc_log_real]
  rw [white_sq P Λ hP]

/-! ### vMF -/

theorem vmfLogPdf_eq {D : Nat} (pi tiny : ℝ) (μ : Fin D → ℝ) (κ ive : ℝ) (y : Fin D → ℝ) :
    Dist.vmfLogPdf pi tiny μ κ ive y
      = (∑ d, y d * μ d) / max (Real.sqrt (∑ d, y d * y d)) tiny * κ - Dist.vmfLogNorm D pi κ ive := by
  simp only [Dist.vmfLogPdf, vsum_eq_sum, transc_sqrt_real]
  congr 2
  rw [Finset.sum_div]
  refine Finset.sum_congr rfl fun d _ => ?_
  ring

/-! ### posterior -/

/-- the model E-step orders the classes as `π_k·exp(lp_k)` does (any positive `tiny`: the ordering does not
depend on whether the denominator clamp is active) -/
theorem eStep_lt_iff {Θ Y : Type} {K N : Nat} (tiny : ℝ) (htiny : 0 < tiny) (fam : Family Θ Y ℝ)
    (θ : Mixture Θ ℝ (K+1) N) (y : Fin N → Y) (j c : Fin (K+1)) (n : Fin N) :
    eStep tiny fam θ y j n < eStep tiny fam θ y c n
      ↔ θ.w j n * Real.exp (fam.logPdf (θ.c j) (y n)) < θ.w c n * Real.exp (fam.logPdf (θ.c c) (y n)) := by
  unfold eStep affiliation
  simp only [transc_exp_real]
  set m := vmax fun j => fam.logPdf (θ.c j) (y n)
  set den := max (vsum fun k => Real.exp (fam.logPdf (θ.c k) (y n) - m) * θ.w k n) tiny
  have hden : 0 < den := lt_of_lt_of_le htiny (le_max_right _ _)
  rw [div_lt_div_iff_of_pos_right hden]
  have hm : 0 < Real.exp m := Real.exp_pos m
  have e : ∀ k, Real.exp (fam.logPdf (θ.c k) (y n) - m) * θ.w k n
      = (θ.w k n * Real.exp (fam.logPdf (θ.c k) (y n))) / Real.exp m := by
    intro k; rw [Real.exp_sub]; ring
  rw [e, e, div_lt_div_iff_of_pos_right hm]

end PbBss.FixedPoint

import PbBss.Model.Metrics
import PbBss.Proofs.RealInst
import PbBss.Proofs.OptimalProof
import Mathlib.Analysis.SpecialFunctions.Log.Base
import Mathlib.Tactic
/-! Lemmas about `PbBss/Model/Metrics.lean` at `α := ℝ` (used by `Props/C19.lean`). -/
open PbBss PbBss.Metrics
namespace PbBss.MetricsProof

/-! ### scalar bridge -/
@[simp] theorem ten_real : (ten : ℝ) = 10 := by simp [ten]
@[simp] theorem twenty_real : (twenty : ℝ) = 20 := by simp [twenty]

theorem log10_real (x : ℝ) : log10 x = Real.logb 10 x := by simp [log10, Real.logb]
theorem dB_real (x : ℝ) : dB x = 10 * Real.logb 10 x := by simp [dB, log10_real]

theorem log_ten_pos : 0 < Real.log 10 := Real.log_pos (by norm_num)
theorem log_ten_ne : Real.log 10 ≠ 0 := log_ten_pos.ne'

theorem pow10_pos (x : ℝ) : 0 < pow10 x := by simp [pow10, Real.exp_pos]

theorem log10_pow10 (x : ℝ) : log10 (pow10 x) = x := by
  simp only [log10, pow10, ten_real, transc_exp_real, transc_log_real, Real.log_exp]
  exact mul_div_cancel_right₀ _ log_ten_ne

theorem pow10_log10 {x : ℝ} (hx : 0 < x) : pow10 (log10 x) = x := by
  simp only [log10, pow10, ten_real, transc_exp_real, transc_log_real]
  rw [div_mul_cancel₀ _ log_ten_ne, Real.exp_log hx]

/-- `10 ** (-(10 log10 x) / 10) = 1 / x` -/
theorem pow10_neg_dB {x : ℝ} (hx : 0 < x) : pow10 (-(dB x) / 10) = 1 / x := by
  have h : -(dB x) / 10 = log10 (1 / x) := by
    simp only [dB, log10, ten_real, transc_log_real, one_div, Real.log_inv]
    field_simp
  rw [h, pow10_log10 (by positivity)]

theorem dB_mul {x y : ℝ} (hx : 0 < x) (hy : 0 < y) : dB (x * y) = dB x + dB y := by
  simp only [dB, log10, ten_real, transc_log_real, Real.log_mul hx.ne' hy.ne']
  ring

theorem dB_div {x y : ℝ} (hx : 0 < x) (hy : 0 < y) : dB (x / y) = dB x - dB y := by
  simp only [dB, log10, ten_real, transc_log_real, Real.log_div hx.ne' hy.ne']
  ring

/-- `10 log10 (c²) = 20 log10 |c|` -/
theorem dB_sq (c : ℝ) : dB (c ^ 2) = 20 * log10 |c| := by
  simp only [dB, log10, ten_real, transc_log_real, Real.log_pow, Real.log_abs]
  push_cast
  ring

theorem dB_mono {x y : ℝ} (hx : 0 < x) (hxy : x ≤ y) : dB x ≤ dB y := by
  simp only [dB, log10, ten_real, transc_log_real]
  have := Real.log_le_log hx hxy
  have h10 := log_ten_pos
  gcongr

/-! ### sums -/
theorem energy_eq {T : Nat} (x : Fin T → ℝ) : energy x = ∑ t, x t ^ 2 := by
  simp [energy, vsum_eq_sum, sq]

theorem dot_eq {T : Nat} (a b : Fin T → ℝ) : dot a b = ∑ t, a t * b t := by
  simp [dot, vsum_eq_sum]

theorem mean_eq {n : Nat} (f : Fin n → ℝ) : mean f = (∑ i, f i) / n := by
  simp [mean, vsum_eq_sum]

theorem meanPower_eq {T : Nat} (x : Fin T → ℝ) : meanPower x = (∑ t, x t ^ 2) / T := by
  simp [meanPower, mean_eq, sq]

theorem meanPower_nonneg {T : Nat} (x : Fin T → ℝ) : 0 ≤ meanPower x := by
  rw [meanPower_eq]; positivity

theorem meanPower_smul {T : Nat} (c : ℝ) (x : Fin T → ℝ) :
    meanPower (fun t => c * x t) = c ^ 2 * meanPower x := by
  simp only [meanPower_eq, mul_pow, ← Finset.mul_sum]
  ring

theorem meanPower_smul_right {T : Nat} (c : ℝ) (x : Fin T → ℝ) :
    meanPower (fun t => x t * c) = c ^ 2 * meanPower x := by
  simp only [mul_comm _ c]; exact meanPower_smul c x

/-! ### SI-SDR -/

/-- residual energy as a quadratic in the scaling -/
theorem residual_quadratic {T : Nat} (s e : Fin T → ℝ) (c : ℝ) :
    ∑ t, (e t - c * s t) ^ 2 = ∑ t, e t ^ 2 - 2 * c * ∑ t, s t * e t + c ^ 2 * ∑ t, s t ^ 2 := by
  simp only [Finset.mul_sum, ← Finset.sum_sub_distrib, ← Finset.sum_add_distrib]
  apply Finset.sum_congr rfl
  intros; ring

/-- `optimal_scaling` minimises the residual `‖ŝ − c s‖²` over all scalings `c` -/
theorem optimalScaling_minimises {T : Nat} (s e : Fin T → ℝ) (c : ℝ) :
    ∑ t, (e t - optimalScaling s e * s t) ^ 2 ≤ ∑ t, (e t - c * s t) ^ 2 := by
  rw [residual_quadratic, residual_quadratic]
  simp only [optimalScaling, energy_eq, dot_eq]
  set E := ∑ t, s t ^ 2 with hE
  set D := ∑ t, s t * e t with hD
  have hE0 : 0 ≤ E := by rw [hE]; positivity
  by_cases h : E = 0
  · simp [h]
    -- all samples of the reference vanish, so the cross term vanishes as well
    have hs : ∀ t, s t = 0 := by
      intro t
      have := (Finset.sum_eq_zero_iff_of_nonneg (fun i _ => sq_nonneg (s i))).mp (hE ▸ h) t (Finset.mem_univ t)
      exact pow_eq_zero_iff (two_ne_zero) |>.mp this
    have : D = 0 := by rw [hD]; simp [hs]
    simp [this]
  · have hpos : 0 < E := lt_of_le_of_ne hE0 (Ne.symm h)
    have key : (∑ t, e t ^ 2 - 2 * c * D + c ^ 2 * E) - (∑ t, e t ^ 2 - 2 * (D / E) * D + (D / E) ^ 2 * E)
        = (c - D / E) ^ 2 * E := by
      field_simp
      ring
    have : 0 ≤ (c - D / E) ^ 2 * E := by positivity
    linarith

/-- unfolding of `si_sdr` over ℝ -/
theorem siSdr_eq {T : Nat} (s e : Fin T → ℝ) :
    siSdr s e = 10 * Real.logb 10
      ((∑ t, (optimalScaling s e * s t) ^ 2) / (∑ t, (e t - optimalScaling s e * s t) ^ 2)) := by
  simp only [siSdr, dB_real, energy_eq]

theorem optimalScaling_smul {T : Nat} (s e : Fin T → ℝ) (a b : ℝ) (ha : a ≠ 0) :
    optimalScaling (fun t => a * s t) (fun t => b * e t) = b / a * optimalScaling s e := by
  simp only [optimalScaling, energy_eq, dot_eq]
  have h1 : ∑ t, a * s t * (b * e t) = a * b * ∑ t, s t * e t := by
    rw [Finset.mul_sum]; apply Finset.sum_congr rfl; intros; ring
  have h2 : ∑ t, (a * s t) ^ 2 = a ^ 2 * ∑ t, s t ^ 2 := by
    rw [Finset.mul_sum]; apply Finset.sum_congr rfl; intros; ring
  rw [h1, h2]
  by_cases hE : ∑ t, s t ^ 2 = 0
  · simp [hE]
  · field_simp

theorem siSdr_scale {T : Nat} (s e : Fin T → ℝ) (a b : ℝ) (ha : a ≠ 0) (hb : b ≠ 0) :
    siSdr (fun t => a * s t) (fun t => b * e t) = siSdr s e := by
  rw [siSdr_eq, siSdr_eq, optimalScaling_smul s e a b ha]
  congr 2
  set α := optimalScaling s e
  have h1 : ∑ t, (b / a * α * (a * s t)) ^ 2 = b ^ 2 * ∑ t, (α * s t) ^ 2 := by
    rw [Finset.mul_sum]; apply Finset.sum_congr rfl; intros; field_simp
  have h2 : ∑ t, (b * e t - b / a * α * (a * s t)) ^ 2 = b ^ 2 * ∑ t, (e t - α * s t) ^ 2 := by
    rw [Finset.mul_sum]; apply Finset.sum_congr rfl; intros; field_simp
  rw [h1, h2, mul_div_mul_left _ _ (pow_ne_zero 2 hb)]

/-! ### the three ratios -/

theorem sxr_decomposition {S I N : ℝ} (hS : 0 < S) (hI : 0 < I) (hN : 0 < N) :
    pow10 (-(sxrTriple S I N).1 / 10) = pow10 (-(sxrTriple S I N).2.1 / 10) + pow10 (-(sxrTriple S I N).2.2 / 10) := by
  simp only [sxrTriple]
  rw [pow10_neg_dB (by positivity), pow10_neg_dB (by positivity), pow10_neg_dB (by positivity)]
  field_simp

theorem sxr_sdr_le {S I N : ℝ} (hS : 0 < S) (hI : 0 < I) (hN : 0 < N) :
    (sxrTriple S I N).1 ≤ (sxrTriple S I N).2.1 ∧ (sxrTriple S I N).1 ≤ (sxrTriple S I N).2.2 := by
  simp only [sxrTriple]
  constructor
  · apply dB_mono (by positivity)
    exact div_le_div_of_nonneg_left hS.le hI (by linarith)
  · apply dB_mono (by positivity)
    exact div_le_div_of_nonneg_left hS.le hN (by linarith)

/-- a single source has no interference: the code's `I = 0`, and SDR = SNR -/
theorem sxr_no_interference (S N : ℝ) : (sxrTriple S 0 N).1 = (sxrTriple S 0 N).2.2 := by
  simp [sxrTriple]

theorem sxrTriple_common_scale {S I N c : ℝ} (hc : c ≠ 0) :
    sxrTriple (c * S) (c * I) (c * N) = sxrTriple S I N := by
  simp only [sxrTriple, ← mul_add, mul_div_mul_left _ _ hc]

theorem sxrTriple_image_scale {S I N c : ℝ} (hc : 0 < c) (hS : 0 < S) (hN : 0 < N) :
    (sxrTriple (c * S) (c * I) N).2.1 = (sxrTriple S I N).2.1 ∧
    (sxrTriple (c * S) (c * I) N).2.2 = (sxrTriple S I N).2.2 + dB c := by
  simp only [sxrTriple, mul_div_mul_left _ _ hc.ne', true_and]
  rw [mul_div_assoc, dB_mul hc (by positivity)]
  ring

/-! ### interference and channel means under scaling -/
theorem interference_eq {K D : Nat} (S : Fin K → Fin D → ℝ) (k : Fin K) (d : Fin D) :
    interference S k d = ∑ n, if n = k then 0 else S n d := by
  simp [interference, vsum_eq_sum]

theorem interference_scale {K D : Nat} (S : Fin K → Fin D → ℝ) (c : ℝ) (k : Fin K) (d : Fin D) :
    interference (fun k d => c * S k d) k d = c * interference S k d := by
  simp only [interference_eq, Finset.mul_sum]
  apply Finset.sum_congr rfl
  intro n _; split <;> simp

theorem interference_nonneg {K D : Nat} (S : Fin K → Fin D → ℝ) (hS : ∀ k d, 0 ≤ S k d) (k : Fin K) (d : Fin D) :
    0 ≤ interference S k d := by
  rw [interference_eq]
  apply Finset.sum_nonneg
  intro n _; split <;> simp [hS]

theorem interference_pos {K D : Nat} (S : Fin K → Fin D → ℝ) (hS : ∀ k d, 0 < S k d) (k j : Fin K) (hjk : j ≠ k)
    (d : Fin D) : 0 < interference S k d := by
  rw [interference_eq]
  apply Finset.sum_pos'
  · intro n _; split <;> simp [(hS _ _).le]
  · exact ⟨j, Finset.mem_univ _, by simp [hjk, hS]⟩

theorem mean_scale {n : Nat} (f : Fin n → ℝ) (c : ℝ) : mean (fun i => c * f i) = c * mean f := by
  simp only [mean_eq, ← Finset.mul_sum]; ring

theorem mean_add_const {n : Nat} (hn : 0 < n) (f : Fin n → ℝ) (c : ℝ) : mean (fun i => f i + c) = mean f + c := by
  simp only [mean_eq, Finset.sum_add_distrib, Finset.sum_const, Finset.card_univ, Fintype.card_fin, nsmul_eq_mul]
  have : (n : ℝ) ≠ 0 := by positivity
  field_simp

theorem mean_le_mean {n : Nat} (f g : Fin n → ℝ) (h : ∀ i, f i ≤ g i) : mean f ≤ mean g := by
  simp only [mean_eq]
  apply div_le_div_of_nonneg_right (Finset.sum_le_sum fun i _ => h i) (by positivity)

/-! ### SNR -/
theorem snrFactor_pos (snr cur : ℝ) : 0 < snrFactor snr cur := pow10_pos _

theorem dB_snrFactor_sq (snr cur : ℝ) : dB (snrFactor snr cur ^ 2) = cur - snr := by
  rw [dB_sq, abs_of_pos (snrFactor_pos _ _), snrFactor, log10_pow10]
  simp
  ring

theorem getSnr_setSnr {T : Nat} (X N : Fin T → ℝ) (snr : ℝ) (hX : 0 < meanPower X) (hN : 0 < meanPower N) :
    getSnr X (setSnr X N snr) = snr := by
  simp only [getSnr, setSnr, snrOfPowers]
  rw [show ∀ f : ℝ, scaleNoise f N = fun t => N t * f from fun _ => rfl, meanPower_smul_right]
  set f := snrFactor snr (dB (meanPower X / meanPower N)) with hf
  have hfpos : 0 < f ^ 2 := by have := snrFactor_pos snr (dB (meanPower X / meanPower N)); positivity
  rw [dB_div hX (by positivity), dB_mul hfpos hN, hf, dB_snrFactor_sq, dB_div hX hN]
  ring

/-! ### enumeration of injective selections -/

/-- everything `lexPermsAux n l` lists has length `n` and is a sub-permutation of `l` -/
theorem lexPermsAux_sound' {β} : ∀ (n : Nat) (l p : List β), p ∈ lexPermsAux n l → p.length = n ∧ p.Subperm l
  | 0, l, p, hp => by
    simp [lexPermsAux] at hp; subst hp
    exact ⟨rfl, List.nil_subperm⟩
  | n+1, l, p, hp => by
    simp only [lexPermsAux, List.mem_flatMap, List.mem_map] at hp
    obtain ⟨⟨x, r⟩, hr, p', hp', rfl⟩ := hp
    have hlr := picks_perm l x r hr
    obtain ⟨h1, h2⟩ := lexPermsAux_sound' n r p' hp'
    refine ⟨by simp [h1], ?_⟩
    exact ((List.subperm_cons x).mpr h2).trans hlr.symm.subperm

/-- every arrangement of `n` distinct positions of `l` is listed -/
theorem lexPermsAux_complete' {β} : ∀ (n : Nat) (l p : List β), p.length = n → p.Subperm l → p ∈ lexPermsAux n l
  | 0, l, p, hl, _ => by
    have : p = [] := List.length_eq_zero_iff.mp hl
    simp [lexPermsAux, this]
  | n+1, l, p, hl, hp => by
    cases p with
    | nil => simp at hl
    | cons x p' =>
      have hx : x ∈ l := hp.subset (by simp)
      obtain ⟨r, hr⟩ := picks_mem l x hx
      have hlr := picks_perm l x r hr
      have hp' : p'.Subperm r := (List.subperm_cons x).mp (hp.trans hlr.subperm)
      simp only [lexPermsAux, List.mem_flatMap, List.mem_map]
      exact ⟨(x, r), hr, p', lexPermsAux_complete' n r p' (by simpa using hl) hp', rfl⟩

/-- `p` is an injective selection of `Ks` outputs out of `Kt` -/
def IsSelection (Ks Kt : Nat) (p : List Nat) : Prop := p.length = Ks ∧ p.Nodup ∧ ∀ j ∈ p, j < Kt

theorem mem_selections {Ks Kt : Nat} {p : List Nat} : p ∈ selections Ks Kt ↔ IsSelection Ks Kt p := by
  unfold selections IsSelection
  constructor
  · intro h
    obtain ⟨h1, h2⟩ := lexPermsAux_sound' Ks _ p h
    refine ⟨h1, ?_, ?_⟩
    · obtain ⟨l', hperm, hsub⟩ := h2
      exact hperm.nodup_iff.mp (List.nodup_range.sublist hsub)
    · intro j hj; exact List.mem_range.mp (h2.subset hj)
  · rintro ⟨h1, h2, h3⟩
    exact lexPermsAux_complete' Ks _ p h1 (h2.subperm fun j hj => List.mem_range.mpr (h3 j hj))

theorem selections_ne_nil {Ks Kt : Nat} (h : Ks ≤ Kt) : selections Ks Kt ≠ [] := by
  have : (List.range Ks) ∈ selections Ks Kt := by
    rw [mem_selections]
    exact ⟨by simp, List.nodup_range, fun j hj => lt_of_lt_of_le (List.mem_range.mp hj) h⟩
  intro h0; rw [h0] at this; simp at this

/-! ### the output selection -/
section selection
variable {α : Type} [AddCommMonoid α] [LinearOrder α]

/-- the exhaustive search returns an injective selection whose summed score is maximal among ALL injective
selections of `Ks` out of `Kt` outputs -/
theorem selectOutputs_max (Ks Kt : Nat) (h : Ks ≤ Kt) (S : Nat → Nat → α) :
    ∃ r, optimalLoop S (selections Ks Kt) none = some r ∧ IsSelection Ks Kt r.1 ∧ r.2 = permScore S r.1 ∧
      ∀ p, IsSelection Ks Kt p → permScore S p ≤ r.2 := by
  obtain ⟨r, h1, h2, h3, h4, -⟩ := optimalLoop_max S (selections Ks Kt) none (by simp) (Or.inl (selections_ne_nil h))
  refine ⟨r, h1, ?_, h2, fun p hp => h4 p (mem_selections.mpr hp)⟩
  rcases h3 with h3 | h3
  · exact mem_selections.mp h3
  · cases h3

/-- `np.argmax` returns the FIRST maximum: every candidate listed before the returned one scores strictly less -/
theorem optimalLoop_first (S : Nat → Nat → α) :
    ∀ (ps : List (List Nat)) (best : Option (List Nat × α)), (ps ≠ [] ∨ best.isSome) →
      ∃ r, optimalLoop S ps best = some r ∧
        (some r = best ∨ ∃ l1 l2, ps = l1 ++ r.1 :: l2 ∧ r.2 = permScore S r.1 ∧ (∀ p ∈ l1, permScore S p < r.2) ∧
          ∀ b ∈ best, b.2 < r.2)
  | [], best, hne => by
    rcases hne with h | h
    · exact absurd rfl h
    · obtain ⟨b, rfl⟩ := Option.isSome_iff_exists.mp h
      exact ⟨b, rfl, Or.inl rfl⟩
  | p :: ps, none, _ => by
    obtain ⟨r, h1, h2⟩ := optimalLoop_first S ps (some (p, permScore S p)) (Or.inr rfl)
    refine ⟨r, by simpa [optimalLoop] using h1, Or.inr ?_⟩
    rcases h2 with h2 | ⟨l1, l2, e, hv, hl, hb⟩
    · cases h2
      exact ⟨[], ps, rfl, rfl, by simp, by simp⟩
    · refine ⟨p :: l1, l2, by simp [e], hv, ?_, by simp⟩
      intro q hq
      rcases List.mem_cons.mp hq with rfl | hq
      · exact hb _ rfl
      · exact hl q hq
  | p :: ps, some (bp, bs), _ => by
    simp only [optimalLoop]
    by_cases hlt : bs < permScore S p
    · simp only [hlt, if_true]
      obtain ⟨r, h1, h2⟩ := optimalLoop_first S ps (some (p, permScore S p)) (Or.inr rfl)
      refine ⟨r, h1, Or.inr ?_⟩
      rcases h2 with h2 | ⟨l1, l2, e, hv, hl, hb⟩
      · cases h2
        exact ⟨[], ps, rfl, rfl, by simp, by intro b hb'; cases hb'; exact hlt⟩
      · refine ⟨p :: l1, l2, by simp [e], hv, ?_, ?_⟩
        · intro q hq
          rcases List.mem_cons.mp hq with rfl | hq
          · exact hb _ rfl
          · exact hl q hq
        · intro b hb'; cases hb'; exact lt_trans hlt (hb _ rfl)
    · simp only [hlt, if_false]
      obtain ⟨r, h1, h2⟩ := optimalLoop_first S ps (some (bp, bs)) (Or.inr rfl)
      refine ⟨r, h1, ?_⟩
      rcases h2 with h2 | ⟨l1, l2, e, hv, hl, hb⟩
      · exact Or.inl h2
      · refine Or.inr ⟨p :: l1, l2, by simp [e], hv, ?_, hb⟩
        intro q hq
        rcases List.mem_cons.mp hq with rfl | hq
        · exact lt_of_le_of_lt (not_lt.mp hlt) (hb _ rfl)
        · exact hl q hq

omit [LinearOrder α] in
/-- the summed score of a selection is `Σ_k S[k, p[k]]` -/
theorem permScore_eq_sum (S : Nat → Nat → α) (p : List Nat) :
    permScore S p = ∑ k : Fin p.length, S k.val p[k] := by
  have gen : ∀ (p : List Nat) (n : Nat) (acc : α),
      (p.zipIdx n).foldl (fun acc jc => acc + S jc.2 jc.1) acc = acc + ∑ k : Fin p.length, S (n + k.val) p[k] := by
    intro p
    induction p with
    | nil => intro n acc; simp
    | cons x xs ih =>
      intro n acc
      simp only [List.zipIdx_cons, List.foldl_cons, ih, List.length_cons]
      rw [Fin.sum_univ_succ]
      simp only [Fin.val_zero, add_zero, Fin.val_succ, add_assoc]
      congr 2
      apply Finset.sum_congr rfl
      intro k _; congr 1; omega
  have := gen p 0 0
  simpa [permScore] using this

omit [LinearOrder α] in
theorem permScore_map (S : Nat → Nat → α) (σ : Nat → Nat) (p : List Nat) :
    permScore (fun i j => S i (σ j)) p = permScore S (p.map σ) := by
  simp only [permScore, List.zipIdx_map, List.foldl_map, Prod.map, id]

theorem IsSelection.map {Ks Kt : Nat} {p : List Nat} (hp : IsSelection Ks Kt p) (σ τ : Nat → Nat)
    (hσ : ∀ j < Kt, σ j < Kt) (hτσ : ∀ j < Kt, τ (σ j) = j) : IsSelection Ks Kt (p.map σ) := by
  obtain ⟨h1, h2, h3⟩ := hp
  refine ⟨by simp [h1], ?_, ?_⟩
  · apply List.Nodup.map_on _ h2
    intro x hx y hy hxy
    have := congrArg τ hxy
    rwa [hτσ x (h3 x hx), hτσ y (h3 y hy)] at this
  · intro j hj
    obtain ⟨i, hi, rfl⟩ := List.mem_map.mp hj
    exact hσ i (h3 i hi)

/-- **order of the outputs**: if the outputs are permuted by `σ` (inverse `τ`) and the best selection is unique
(tie-free), the search on the permuted scores finds the correspondingly permuted selection with the same score -/
theorem selectOutputs_perm_invariant {Ks Kt : Nat} (h : Ks ≤ Kt) (S : Nat → Nat → α) (σ τ : Nat → Nat)
    (hσ : ∀ j < Kt, σ j < Kt) (hτ : ∀ j < Kt, τ j < Kt) (hστ : ∀ j < Kt, σ (τ j) = j) (hτσ : ∀ j < Kt, τ (σ j) = j)
    (r : List Nat × α) (hr : optimalLoop S (selections Ks Kt) none = some r)
    (huniq : ∀ p, IsSelection Ks Kt p → p ≠ r.1 → permScore S p < r.2) :
    ∃ r', optimalLoop (fun i j => S i (σ j)) (selections Ks Kt) none = some r' ∧ r'.1.map σ = r.1 ∧ r'.2 = r.2 := by
  obtain ⟨r0, h0, hsel0, hval0, -⟩ := selectOutputs_max Ks Kt h S
  rw [hr] at h0; cases h0
  obtain ⟨r', h', hsel', hval', hmax'⟩ := selectOutputs_max Ks Kt h (fun i j => S i (σ j))
  have hq : IsSelection Ks Kt (r'.1.map σ) := hsel'.map σ τ hσ hτσ
  have hp0 : IsSelection Ks Kt (r.1.map τ) := hsel0.map τ σ hτ hστ
  have hback : (r.1.map τ).map σ = r.1 := by
    rw [List.map_map]
    conv_rhs => rw [← List.map_id r.1]
    apply List.map_congr_left
    intro j hj; exact hστ j (hsel0.2.2 j hj)
  have hle : r.2 ≤ permScore S (r'.1.map σ) := by
    have := hmax' _ hp0
    rw [permScore_map, hback, ← hval0, hval', permScore_map] at this
    exact this
  have heq : r'.1.map σ = r.1 := by
    by_contra hne
    exact absurd (huniq _ hq hne) (not_lt.mpr hle)
  refine ⟨r', h', heq, ?_⟩
  rw [hval', permScore_map, heq, hval0]

end selection

/-! ### the selection under a positive rescaling of the powers -/
theorem permScore_scale (S : Nat → Nat → ℝ) (c : ℝ) (p : List Nat) :
    permScore (fun i j => c * S i j) p = c * permScore S p := by
  rw [permScore_eq_sum, permScore_eq_sum, Finset.mul_sum]

theorem optimalLoop_scale (S : Nat → Nat → ℝ) (c : ℝ) (hc : 0 < c) :
    ∀ (ps : List (List Nat)) (best : Option (List Nat × ℝ)),
      optimalLoop (fun i j => c * S i j) ps (best.map fun b => (b.1, c * b.2)) =
        (optimalLoop S ps best).map fun b => (b.1, c * b.2)
  | [], best => by simp [optimalLoop]
  | p :: ps, none => by
    simp only [optimalLoop, Option.map_none]
    have := optimalLoop_scale S c hc ps (some (p, permScore S p))
    simpa [permScore_scale] using this
  | p :: ps, some (bp, bs) => by
    simp only [optimalLoop, Option.map_some, permScore_scale, mul_lt_mul_iff_right₀ hc]
    split
    · have := optimalLoop_scale S c hc ps (some (p, permScore S p))
      simpa using this
    · have := optimalLoop_scale S c hc ps (some (bp, bs))
      simpa using this

theorem selectOutputs_scale (Ks Kt : Nat) (S : Nat → Nat → ℝ) (c : ℝ) (hc : 0 < c) :
    selectOutputs Ks Kt (fun i j => c * S i j) = selectOutputs Ks Kt S := by
  have := optimalLoop_scale S c hc (selections Ks Kt) none
  simp only [Option.map_none] at this
  simp only [selectOutputs, this, Option.map_map]
  rfl

theorem extend_scale {Ks Kt : Nat} (S : Fin Ks → Fin Kt → ℝ) (c : ℝ) :
    extend (fun k j => c * S k j) = fun i j => c * extend S i j := by
  funext i j
  simp only [extend]
  split <;> simp

/-! ### `output_sxr` values -/

/-- interference of source `k` in its selected output -/
theorem outInterference_eq {Ks Kt : Nat} (S : Fin Ks → Fin Kt → ℝ) (k : Fin Ks) (j : Fin Kt) :
    (vsum fun n : Fin Ks => if n = k then 0 else S n j) = ∑ n, if n = k then 0 else S n j := by
  simp [vsum_eq_sum]

theorem outInterference_scale {Ks Kt : Nat} (S : Fin Ks → Fin Kt → ℝ) (c : ℝ) (k : Fin Ks) (j : Fin Kt) :
    (vsum fun n : Fin Ks => if n = k then 0 else c * S n j) = c * vsum fun n : Fin Ks => if n = k then 0 else S n j := by
  rw [outInterference_eq S k j, vsum_eq_sum, Finset.mul_sum]
  apply Finset.sum_congr rfl
  intro n _; split <;> simp

theorem outInterference_pos {Ks Kt : Nat} (S : Fin Ks → Fin Kt → ℝ) (hS : ∀ k j, 0 < S k j) (k i : Fin Ks) (hik : i ≠ k)
    (j : Fin Kt) : 0 < vsum fun n : Fin Ks => if n = k then 0 else S n j := by
  rw [outInterference_eq]
  apply Finset.sum_pos'
  · intro n _; split <;> simp [(hS _ _).le]
  · exact ⟨i, Finset.mem_univ _, by simp [hik, hS]⟩

theorem outputSxrPer_common_scale {Ks Kt : Nat} (S : Fin Ks → Fin Kt → ℝ) (N : Fin Kt → ℝ) (c : ℝ) (hc : c ≠ 0)
    (sel : Fin Ks → Fin Kt) (k : Fin Ks) :
    outputSxrPer (fun k j => c * S k j) (fun j => c * N j) sel k = outputSxrPer S N sel k := by
  simp only [outputSxrPer, outInterference_scale, sxrTriple_common_scale hc]

theorem outputSxrPer_image_scale {Ks Kt : Nat} (S : Fin Ks → Fin Kt → ℝ) (N : Fin Kt → ℝ) (c : ℝ) (hc : 0 < c)
    (hS : ∀ k j, 0 < S k j) (hN : ∀ j, 0 < N j) (sel : Fin Ks → Fin Kt) (k : Fin Ks) :
    (outputSxrPer (fun k j => c * S k j) N sel k).2.1 = (outputSxrPer S N sel k).2.1 ∧
    (outputSxrPer (fun k j => c * S k j) N sel k).2.2 = (outputSxrPer S N sel k).2.2 + dB c := by
  simp only [outputSxrPer, outInterference_scale]
  exact sxrTriple_image_scale hc (hS _ _) (hN _)

/-- the summed score of a list of valid outputs, as a sum over the sources -/
theorem permScore_extend {Ks Kt : Nat} (hKt : 0 < Kt) (S : Fin Ks → Fin Kt → ℝ) (q : List Nat) (hlen : q.length = Ks)
    (hlt : ∀ j ∈ q, j < Kt) : permScore (extend S) q = ∑ k : Fin Ks, S k (selFn hKt q k) := by
  rw [permScore_eq_sum]
  subst hlen
  apply Finset.sum_congr rfl
  intro k _
  have hk : q[k] < Kt := hlt _ (List.getElem_mem _)
  have hget : q.getD k.val 0 = q[k] := by simp [List.getD_eq_getElem?_getD]
  simp only [extend, selFn, hget, hk, k.isLt, and_self, dite_true]

theorem selFn_ofFn {Ks Kt : Nat} (hKt : 0 < Kt) (f : Fin Ks → Fin Kt) (k : Fin Ks) :
    selFn hKt (List.ofFn fun k => (f k).val) k = f k := by
  have hget : (List.ofFn fun k => (f k).val).getD k.val 0 = (f k).val := by
    simp [List.getD_eq_getElem?_getD]
  apply Fin.ext
  simp only [selFn, hget, (f k).isLt, dite_true]

theorem isSelection_ofFn {Ks Kt : Nat} (f : Fin Ks → Fin Kt) (hf : Function.Injective f) :
    IsSelection Ks Kt (List.ofFn fun k => (f k).val) := by
  refine ⟨by simp, ?_, ?_⟩
  · rw [List.nodup_ofFn]
    intro a b hab; exact hf (Fin.ext hab)
  · intro j hj
    obtain ⟨k, rfl⟩ := (List.mem_ofFn' _ _).mp hj
    exact (f k).isLt

/-- a permutation of the outputs lifted to all naturals (identity outside `0..Kt-1`) -/
def liftPerm {Kt : Nat} (σ : Fin Kt → Fin Kt) (j : Nat) : Nat := if h : j < Kt then (σ ⟨j, h⟩).val else j

theorem liftPerm_lt {Kt : Nat} (σ : Fin Kt → Fin Kt) (j : Nat) (h : j < Kt) : liftPerm σ j < Kt := by
  simp [liftPerm, h]

theorem liftPerm_inv {Kt : Nat} (σ τ : Fin Kt → Fin Kt) (h : ∀ j, σ (τ j) = j) (j : Nat) (hj : j < Kt) :
    liftPerm σ (liftPerm τ j) = j := by
  simp [liftPerm, hj, h]

theorem extend_perm {Ks Kt : Nat} (S : Fin Ks → Fin Kt → ℝ) (σ : Fin Kt → Fin Kt) :
    extend (fun k j => S k (σ j)) = fun i j => extend S i (liftPerm σ j) := by
  funext i j
  by_cases hj : j < Kt
  · by_cases hi : i < Ks
    · simp [extend, liftPerm, hj, hi]
    · simp [extend, hi]
  · simp [extend, liftPerm, hj]

/-- **`output_sxr` does not depend on the order of the outputs** (tie-free constellations): permuting the outputs
by `σ` (inverse `τ`) in both the image and the noise contributions leaves every per-source value unchanged -/
theorem outputSxrF_perm_invariant {Ks Kt : Nat} (hKt : 0 < Kt) (h : Ks ≤ Kt) (S : Fin Ks → Fin Kt → ℝ) (N : Fin Kt → ℝ)
    (σ τ : Fin Kt → Fin Kt) (hστ : ∀ j, σ (τ j) = j) (hτσ : ∀ j, τ (σ j) = j)
    (tieFree : ∀ p q, IsSelection Ks Kt p → IsSelection Ks Kt q → p ≠ q →
      permScore (extend S) p ≠ permScore (extend S) q) :
    outputSxrF hKt (fun k j => S k (σ j)) (fun j => N (σ j)) = outputSxrF hKt S N := by
  obtain ⟨r, hr, hsel, hval, hmax⟩ := selectOutputs_max Ks Kt h (extend S)
  have huniq : ∀ p, IsSelection Ks Kt p → p ≠ r.1 → permScore (extend S) p < r.2 := by
    intro p hp hne
    exact lt_of_le_of_ne (hmax p hp) (by rw [hval]; exact tieFree p r.1 hp hsel hne)
  obtain ⟨r', hr', hmap, -⟩ := selectOutputs_perm_invariant h (extend S) (liftPerm σ) (liftPerm τ)
    (liftPerm_lt σ) (liftPerm_lt τ) (liftPerm_inv σ τ hστ) (liftPerm_inv τ σ hτσ) r hr huniq
  have hsel' : IsSelection Ks Kt r'.1 := by
    obtain ⟨r2, h2, hs2, -, -⟩ := selectOutputs_max Ks Kt h (fun i j => extend S i (liftPerm σ j))
    rw [hr'] at h2; cases h2; exact hs2
  simp only [outputSxrF, selectOutputs, extend_perm, hr, hr', Option.map_some]
  congr 1
  funext k
  have hk' : k.val < r'.1.length := by rw [hsel'.1]; exact k.isLt
  have hlt' : r'.1[k.val] < Kt := hsel'.2.2 _ (List.getElem_mem _)
  have hget' : r'.1.getD k.val 0 = r'.1[k.val] := by simp [List.getD_eq_getElem?_getD, hk']
  have hget : r.1.getD k.val 0 = liftPerm σ (r'.1[k.val]) := by
    rw [← hmap]; simp [List.getD_eq_getElem?_getD, hk']
  have hσsel : σ (selFn hKt r'.1 k) = selFn hKt r.1 k := by
    apply Fin.ext
    simp only [selFn, hget', hlt', dite_true, hget, liftPerm_lt σ _ hlt']
    simp [liftPerm, hlt']
  simp only [outputSxrPer, hσsel]

end PbBss.MetricsProof

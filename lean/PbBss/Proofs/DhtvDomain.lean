import PbBss.Proofs.DhtvMajority
/-! The analytic domain of C16 (non-negative patterns, pairwise cosine ≤ 0.1, jitter ≤ 10 %) satisfies the
pattern hypotheses of `dhtv_majority` with `a = 0.81/1.21`, `b = 1.21/0.81 · 0.1`. -/
namespace PbBss.Align
open Function

theorem ip_vecNormalize_eq_sim {T : Nat} (tiny : ℝ) (x y : Fin T → ℝ) :
    ip (vecNormalize tiny x) (vecNormalize tiny y) = sim tiny .cos y x := by
  simp [ip, sim, vsum_eq_sum]

theorem ip_unit_le_one {T : Nat} (u v : Fin T → ℝ) (hu : ∑ t, u t * u t = 1) (hv : ∑ t, v t * v t = 1) :
    ip u v ≤ 1 := by
  have h : 0 ≤ ∑ t, (u t - v t) * (u t - v t) := Finset.sum_nonneg fun t _ => mul_self_nonneg _
  have hexp : ∑ t, (u t - v t) * (u t - v t) = (∑ t, u t * u t) + (∑ t, v t * v t) - 2 * ∑ t, u t * v t := by
    rw [Finset.mul_sum, ← Finset.sum_add_distrib, ← Finset.sum_sub_distrib]
    apply Finset.sum_congr rfl; intro t _; ring
  rw [hexp, hu, hv] at h
  unfold ip; linarith

/-- the class patterns as DHTV sees them with the `cos` metric: normalised rows of the consistent mask -/
noncomputable def normRows {K F T : Nat} (tiny : ℝ) (base : Tab3 K F T ℝ) : Fin K → Fin F → Fin T → ℝ :=
  fun p f => vecNormalize tiny fun t => at3 base p f t

theorem patHyp_of_jitter {K F T : Nat} (tiny : ℝ) (ht : 0 < tiny) (pat : Fin K → Fin T → ℝ) (base : Tab3 K F T ℝ)
    (hpat : ∀ k t, 0 ≤ pat k t) (hn : ∀ k, 0 < nrm (pat k))
    (hcos : ∀ k k', k' ≠ k → (∑ t, pat k' t * pat k t) ≤ 0.1 * (nrm (pat k') * nrm (pat k)))
    (hj1 : ∀ k f t, 0.9 * pat k t ≤ at3 base k f t) (hj2 : ∀ k f t, at3 base k f t ≤ 1.1 * pat k t)
    (htn : ∀ k f, tiny ≤ nrm (fun t => at3 base k f t)) :
    PatHyp (normRows tiny base) (0.81 / 1.21) (1.21 / 0.81 * 0.1) := by
  have hb : ∀ p q f g, (0.81 / 1.21 * ((∑ t, pat p t * pat q t) / (nrm (pat p) * nrm (pat q)))
        ≤ ip (normRows tiny base p f) (normRows tiny base q g)) ∧
      ip (normRows tiny base p f) (normRows tiny base q g)
        ≤ 1.21 / 0.81 * ((∑ t, pat p t * pat q t) / (nrm (pat p) * nrm (pat q))) := by
    intro p q f g
    unfold normRows
    rw [ip_vecNormalize_eq_sim]
    exact cos_jitter_bounds tiny (fun t => at3 base q g t) (fun t => at3 base p f t) (pat q) (pat p)
      (hpat q) (hpat p) (fun t => hj1 q g t) (fun t => hj2 q g t) (fun t => hj1 p f t) (fun t => hj2 p f t)
      (hn q) (hn p) (htn q g) (htn p f)
  have hself : ∀ p, (∑ t, pat p t * pat p t) / (nrm (pat p) * nrm (pat p)) = 1 := by
    intro p; rw [nrm_sq]; exact div_self (by rw [← nrm_sq]; exact ne_of_gt (mul_pos (hn p) (hn p)))
  have hcn : ∀ p q, 0 ≤ (∑ t, pat p t * pat q t) / (nrm (pat p) * nrm (pat q)) := fun p q =>
    div_nonneg (Finset.sum_nonneg fun t _ => mul_nonneg (hpat p t) (hpat q t)) (le_of_lt (mul_pos (hn p) (hn q)))
  refine ⟨?_, ?_, ?_, ?_⟩
  · intro p f g
    have := (hb p p f g).1
    rw [hself] at this; linarith
  · intro p q f g hpq
    have h1 := (hb p q f g).2
    have h2 : (∑ t, pat p t * pat q t) / (nrm (pat p) * nrm (pat q)) ≤ 0.1 := by
      rw [div_le_iff₀ (mul_pos (hn p) (hn q))]; exact hcos q p hpq
    calc _ ≤ _ := h1
      _ ≤ 1.21 / 0.81 * 0.1 := by apply mul_le_mul_of_nonneg_left h2; norm_num
  · intro p q f g
    have := (hb p q f g).1
    have h2 := hcn p q
    have : 0 ≤ 0.81 / 1.21 * ((∑ t, pat p t * pat q t) / (nrm (pat p) * nrm (pat q))) := by positivity
    linarith [(hb p q f g).1]
  · intro p q f g
    apply ip_unit_le_one
    · exact vecNormalize_sq_sum tiny ht _ (by simpa [nrm] using htn p f)
    · exact vecNormalize_sq_sum tiny ht _ (by simpa [nrm] using htn q g)

/-- the start features of DHTV (`cos`) on a per-frequency permuted consistent mask -/
theorem globalState_start_cos {K F T : Nat} (tiny : ℝ) (base : Tab3 K F T ℝ) (π : Fin F → Equiv.Perm (Fin K)) :
    GlobalState (normRows tiny base) (dhtvStart tiny .cos (permuted base π)) π := by
  intro f k t
  simp only [dhtvStart, normRows, permuted, beq_self_eq_true, if_true, at3_tab3]
  congr 1
  funext t'
  simp

end PbBss.Align

import PbBss.Proofs.OracleReal
import PbBss.Proofs.GreedyStep
/-! `multiply` metric with the greedy assignment: not row dominant, but stepwise dominant for pairwise
distinct rows — the largest remaining entry is always a squared norm. -/
namespace PbBss.Align
open Function

theorem inner_lt_max_sq {T : Nat} (a b : Fin T → ℝ) (h : a ≠ b) :
    (∑ t, a t * b t) < (∑ t, a t * a t) ∨ (∑ t, a t * b t) < (∑ t, b t * b t) := by
  have hpos := sum_sq_pos_of_ne a b h
  have hexp : ∑ t, (a t - b t) * (a t - b t)
      = (∑ t, a t * a t) + (∑ t, b t * b t) - 2 * ∑ t, a t * b t := by
    rw [Finset.mul_sum, ← Finset.sum_add_distrib, ← Finset.sum_sub_distrib]
    apply Finset.sum_congr rfl; intro t _; ring
  rw [hexp] at hpos
  by_contra hcon
  push_neg at hcon
  linarith [hcon.1, hcon.2]

/-- multiply + greedy: the oracle aligner undoes every per-frequency permutation of a reference whose rows
are pairwise distinct in every bin -/
theorem oracle_inverts_multiply_greedy_aux {K F T : Nat} (tiny : ℝ) (ref : Tab3 K F T ℝ)
    (π : Fin F → Equiv.Perm (Fin K)) (hd : ∀ f, Injective fun k => fun t => at3 ref k f t) :
    ∀ k f t, applyMapping (at3 (permuted ref π)) (oracleAligner tiny .multiply .greedy (permuted ref π) ref) k f t
      = at3 ref k f t := by
  intro k f t
  have hassign : assign .greedy (score tiny .multiply (fun k => at3 (permuted ref π) k f) (fun k => at3 ref k f))
      = (π f).symm := by
    by_cases hK : 0 < K
    · unfold assign; simp only [hK, dite_true]
      have hs : ∀ k j, score tiny .multiply (fun k => at3 (permuted ref π) k f) (fun k => at3 ref k f) k j
          = ∑ t, at3 ref (π f j) f t * at3 ref k f t := by
        intro k j
        simp only [score, scoreMultiply, vsum_eq_sum, permuted, at3_tab3]
      apply stepwise_dominant_greedy hK _ _ (π f).symm.injective
      intro R i j hi hj hne
      simp only [hs, Equiv.apply_symm_apply]
      have hπj : π f j ∉ R := by
        intro hmem
        apply hj
        rw [Finset.mem_image]
        exact ⟨π f j, hmem, by simp⟩
      have hrows : (fun t => at3 ref (π f j) f t) ≠ fun t => at3 ref i f t := by
        intro h
        apply hne
        have := hd f h
        rw [← this, Equiv.symm_apply_apply]
      rcases inner_lt_max_sq _ _ hrows with h | h
      · exact ⟨π f j, hπj, h⟩
      · exact ⟨i, hi, h⟩
    · have : K = 0 := by omega
      subst this; funext k; exact k.elim0
  simp only [applyMapping, oracleAligner]
  rw [hassign]
  simp [permuted]

end PbBss.Align

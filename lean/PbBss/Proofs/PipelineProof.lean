import PbBss.Model.Pipeline
import PbBss.Proofs.RealInst
import PbBss.Proofs.Mvdr
import Mathlib.LinearAlgebra.Matrix.PosDef
import Mathlib.Analysis.Matrix.PosDef
import Mathlib.Analysis.SpecialFunctions.Log.Base
import Mathlib.Tactic
/-! Helper lemmas for C17: the ideal-mask scene model of `PbBss/Model/Pipeline.lean` at `α := ℝ`, `β := ℂ`,
bridged to Mathlib's `Matrix` / `dotProduct` API, the MVDR leakage bound (from `mvdr_optimal`), and the
"same direction" lemmas for a rank-one target. -/
open Matrix PbBss PbBss.Pipeline
open scoped ComplexOrder

namespace PbBss.PipelineProof

variable {K D : Nat}

/-! ### bridge: executable folds ↦ Mathlib -/
theorem cdot_eq (w x : Fin D → ℂ) : cdot ℝ w x = star w ⬝ᵥ x := by
  simp [cdot, cj, vsum_eq_sum, dotProduct]

theorem absSq_eq (z : ℂ) : absSq (α := ℝ) z = Complex.normSq z := by
  simp [absSq, Complex.normSq_apply]

theorem normSq_eq (w : Fin D → ℂ) : normSq (α := ℝ) w = ∑ d, Complex.normSq (w d) := by
  simp [normSq, vsum_eq_sum, absSq_eq]

theorem normSq_nonneg (w : Fin D → ℂ) : 0 ≤ normSq (α := ℝ) w := by
  rw [normSq_eq]; exact Finset.sum_nonneg fun d _ => Complex.normSq_nonneg _

/-- `wᴴ w = ‖w‖²` -/
theorem star_dot_self (w : Fin D → ℂ) : star w ⬝ᵥ w = ((normSq (α := ℝ) w : ℝ) : ℂ) := by
  rw [normSq_eq]
  simp only [dotProduct, Pi.star_apply, Complex.ofReal_sum]
  refine Finset.sum_congr rfl fun i _ => ?_
  rw [Complex.normSq_eq_conj_mul_self]; simp [RCLike.star_def]

theorem normSq_eq_zero {w : Fin D → ℂ} (h : normSq (α := ℝ) w = 0) : w = 0 := by
  rw [normSq_eq] at h
  have := (Finset.sum_eq_zero_iff_of_nonneg fun d _ => Complex.normSq_nonneg (w d)).mp h
  funext d
  exact Complex.normSq_eq_zero.mp (this d (Finset.mem_univ d))

/-- `z · conj z = |z|²` -/
theorem mul_star_self (z : ℂ) : z * star z = ((Complex.normSq z : ℝ) : ℂ) := by
  rw [Complex.normSq_eq_conj_mul_self]; simp [RCLike.star_def, mul_comm]

/-- the model's class PSD as a Mathlib matrix: `σ a aᴴ + ε·1` -/
theorem classPsd_eq (sigma eps : ℝ) (a : Fin D → ℂ) :
    Matrix.of (classPsd sigma eps a) = (sigma : ℂ) • vecMulVec a (star a) + (eps : ℂ) • (1 : Matrix (Fin D) (Fin D) ℂ) := by
  ext d e
  simp [classPsd, cj, vecMulVec_apply, Matrix.one_apply]

/-- the model's noise PSD as a Mathlib matrix -/
theorem noisePsd_eq (sigma eps : Fin K → ℝ) (a : Fin K → Fin D → ℂ) (k : Fin K) :
    Matrix.of (noisePsd sigma eps a k) =
      ∑ j, if j = k then (0 : Matrix (Fin D) (Fin D) ℂ) else Matrix.of (classPsd (sigma j) (eps j) (a j)) := by
  ext d e
  simp only [noisePsd, vsum_eq_sum, Matrix.of_apply, Matrix.sum_apply]
  refine Finset.sum_congr rfl fun j _ => ?_
  split <;> simp

theorem quadForm_eq (P : Fin D → Fin D → ℂ) (w : Fin D → ℂ) :
    quadForm (α := ℝ) P w = (star w ⬝ᵥ (Matrix.of P) *ᵥ w).re := by
  simp [quadForm, cj, vsum_eq_sum, dotProduct, mulVec]

/-- quadratic form of one class PSD: `wᴴ (σ a aᴴ + ε 1) w = σ |wᴴ a|² + ε ‖w‖²` (a real number) -/
theorem quad_classPsd (sigma eps : ℝ) (a w : Fin D → ℂ) :
    star w ⬝ᵥ (Matrix.of (classPsd sigma eps a)) *ᵥ w =
      ((sigma * Complex.normSq (star w ⬝ᵥ a) + eps * normSq (α := ℝ) w : ℝ) : ℂ) := by
  rw [classPsd_eq, add_mulVec, smul_mulVec, smul_mulVec, one_mulVec, vecMulVec_mulVec, op_smul_eq_smul,
    dotProduct_add, dotProduct_smul, dotProduct_smul, dotProduct_smul, star_dot_self]
  have h : star a ⬝ᵥ w = star (star w ⬝ᵥ a) := star_dotProduct _ _
  simp only [smul_eq_mul, h, Complex.ofReal_add, Complex.ofReal_mul]
  rw [← mul_star_self]
  ring

/-- `wᴴ Φnn w` for the ideal noise PSD is the real number `Σ_{j≠k} σ_j |wᴴ a_j|² + (Σ_{j≠k} ε_j) ‖w‖²` -/
theorem quad_noisePsd (sigma eps : Fin K → ℝ) (a : Fin K → Fin D → ℂ) (k : Fin K) (w : Fin D → ℂ) :
    star w ⬝ᵥ (Matrix.of (noisePsd sigma eps a k)) *ᵥ w =
      ((leakage sigma (noiseEps eps k) a w k : ℝ) : ℂ) := by
  rw [noisePsd_eq, sum_mulVec, dotProduct_sum]
  simp only [leakage, interference, noiseEps, outPower, vsum_eq_sum, Finset.sum_mul, ← Finset.sum_add_distrib,
    Complex.ofReal_sum]
  refine Finset.sum_congr rfl fun j _ => ?_
  by_cases hj : j = k
  · simp [hj]
  · simp only [hj, if_false]
    rw [quad_classPsd, absSq_eq, cdot_eq]


/-! ### the ideal noise PSD is Hermitian positive semidefinite, and definite as soon as `Σ_{j≠k} ε_j > 0` -/
theorem classPsd_posSemidef {sigma eps : ℝ} (hs : 0 ≤ sigma) (he : 0 ≤ eps) (a : Fin D → ℂ) :
    (Matrix.of (classPsd sigma eps a)).PosSemidef := by
  rw [classPsd_eq]
  exact ((posSemidef_vecMulVec_self_star a).smul (Complex.zero_le_real.mpr hs)).add
    (PosSemidef.one.smul (Complex.zero_le_real.mpr he))

theorem noisePsd_posSemidef {sigma eps : Fin K → ℝ} (hs : ∀ j, 0 ≤ sigma j) (he : ∀ j, 0 ≤ eps j)
    (a : Fin K → Fin D → ℂ) (k : Fin K) : (Matrix.of (noisePsd sigma eps a k)).PosSemidef := by
  rw [noisePsd_eq]
  refine posSemidef_sum _ fun j _ => ?_
  split
  · exact PosSemidef.zero
  · exact classPsd_posSemidef (hs j) (he j) (a j)

theorem interference_nonneg {sigma : Fin K → ℝ} (hs : ∀ j, 0 ≤ sigma j) (a : Fin K → Fin D → ℂ)
    (w : Fin D → ℂ) (k : Fin K) : 0 ≤ interference sigma a w k := by
  simp only [interference, vsum_eq_sum, outPower, absSq_eq]
  refine Finset.sum_nonneg fun j _ => ?_
  split
  · exact le_refl _
  · exact mul_nonneg (hs j) (Complex.normSq_nonneg _)

/-- a vector that is orthogonal to every interferer lets no interference through -/
theorem interference_zero_of_zf (sigma : Fin K → ℝ) (a : Fin K → Fin D → ℂ) (v : Fin D → ℂ) (k : Fin K)
    (hv0 : ∀ j, j ≠ k → star v ⬝ᵥ a j = 0) : interference sigma a v k = 0 := by
  simp only [interference, vsum_eq_sum, outPower, absSq_eq, cdot_eq]
  refine Finset.sum_eq_zero fun j _ => ?_
  by_cases hj : j = k
  · simp [hj]
  · simp [hj, hv0 j hj]

/-- `Φnn x = 0 → x = 0` when the white part is positive -/
theorem noisePsd_injective {sigma eps : Fin K → ℝ} (hs : ∀ j, 0 ≤ sigma j) (a : Fin K → Fin D → ℂ) (k : Fin K)
    (hpos : 0 < noiseEps eps k) {x : Fin D → ℂ} (hx : (Matrix.of (noisePsd sigma eps a k)) *ᵥ x = 0) : x = 0 := by
  have h := quad_noisePsd sigma eps a k x
  rw [hx, dotProduct_zero] at h
  have h0 : leakage sigma (noiseEps eps k) a x k = 0 := by exact_mod_cast h.symm
  unfold leakage at h0
  have hi := interference_nonneg hs a x k
  have hn := normSq_nonneg x
  have : normSq (α := ℝ) x = 0 := by nlinarith
  exact normSq_eq_zero this

/-- `aᴴ u` for `Φnn u = a ≠ 0` is a positive real number -/
theorem solve_dot_pos {sigma eps : Fin K → ℝ} (hs : ∀ j, 0 ≤ sigma j) (a : Fin K → Fin D → ℂ) (k : Fin K)
    (hpos : 0 < noiseEps eps k) (b u : Fin D → ℂ) (hu : (Matrix.of (noisePsd sigma eps a k)) *ᵥ u = b) (hb : b ≠ 0) :
    0 < (star b ⬝ᵥ u).re ∧ (star b ⬝ᵥ u).im = 0 := by
  have h := quad_noisePsd sigma eps a k u
  rw [hu] at h
  have hswap : star b ⬝ᵥ u = star (star u ⬝ᵥ b) := star_dotProduct _ _
  have hu0 : u ≠ 0 := by
    rintro rfl
    rw [mulVec_zero] at hu
    exact hb hu.symm
  have hn : 0 < normSq (α := ℝ) u :=
    lt_of_le_of_ne (normSq_nonneg u) fun h0 => hu0 (normSq_eq_zero h0.symm)
  have hi := interference_nonneg hs a u k
  have hl : 0 < leakage sigma (noiseEps eps k) a u k := by
    unfold leakage; nlinarith
  rw [hswap, h]
  constructor
  · simpa using hl
  · simp

theorem mvdrFromSolve_eq (b u : Fin D → ℂ) :
    mvdrFromSolve (α := ℝ) b u = (star b ⬝ᵥ u)⁻¹ • u := by
  funext d
  simp [mvdrFromSolve, cdot_eq, div_eq_inv_mul]

/-! ### MVDR leakage bound and the SIR bound -/
/-- **MVDR leakage bound.**  `w = u/(a_kᴴu)` with `Φnn u = a_k` lets through no more than any zero-forcing vector:
`Σ_{j≠k} σ_j |wᴴa_j|² + ε‖w‖² ≤ ε‖v‖²`. -/
theorem mvdr_leakage {sigma eps : Fin K → ℝ} (hs : ∀ j, 0 ≤ sigma j) (he : ∀ j, 0 ≤ eps j)
    (a : Fin K → Fin D → ℂ) (k : Fin K) (hpos : 0 < noiseEps eps k) (u v : Fin D → ℂ)
    (hu : (Matrix.of (noisePsd sigma eps a k)) *ᵥ u = a k)
    (hv1 : star v ⬝ᵥ a k = 1) (hv0 : ∀ j, j ≠ k → star v ⬝ᵥ a j = 0) :
    leakage sigma (noiseEps eps k) a (mvdrFromSolve (α := ℝ) (a k) u) k ≤ zfBound (noiseEps eps k) v := by
  have hak : a k ≠ 0 := by
    intro h0; rw [h0, dotProduct_zero] at hv1; exact zero_ne_one hv1
  have hq : star (a k) ⬝ᵥ u ≠ 0 := by
    intro h0
    have := (solve_dot_pos hs a k hpos (a k) u hu hak).1
    rw [h0] at this; simp at this
  have hopt := mvdr_optimal (Matrix.of (noisePsd sigma eps a k)) (noisePsd_posSemidef hs he a k) (a k) u v hu hq hv1
  simp only at hopt
  rw [quad_noisePsd, quad_noisePsd, ← mvdrFromSolve_eq] at hopt
  simp only [Complex.ofReal_re] at hopt
  have hv : leakage sigma (noiseEps eps k) a v k = zfBound (noiseEps eps k) v := by
    unfold leakage zfBound
    rw [interference_zero_of_zf sigma a v k hv0, zero_add]
  rw [hv] at hopt
  exact hopt

/-- the MVDR vector is distortionless: `σ_k |wᴴ a_k|² = σ_k` -/
theorem mvdr_outPower {sigma eps : Fin K → ℝ} (hs : ∀ j, 0 ≤ sigma j) (he : ∀ j, 0 ≤ eps j)
    (a : Fin K → Fin D → ℂ) (k : Fin K) (hpos : 0 < noiseEps eps k) (u : Fin D → ℂ)
    (hu : (Matrix.of (noisePsd sigma eps a k)) *ᵥ u = a k) (hak : a k ≠ 0) :
    outPower sigma a (mvdrFromSolve (α := ℝ) (a k) u) k = sigma k := by
  have hq : star (a k) ⬝ᵥ u ≠ 0 := by
    intro h0
    have := (solve_dot_pos hs a k hpos (a k) u hu hak).1
    rw [h0] at this; simp at this
  have hd := mvdr_distortionless (Matrix.of (noisePsd sigma eps a k)) (noisePsd_posSemidef hs he a k).1 (a k) u hu hq
  rw [outPower, absSq_eq, cdot_eq, mvdrFromSolve_eq, hd]
  simp

theorem interference_le_leakage (sigma : Fin K → ℝ) {eps : ℝ} (he : 0 ≤ eps) (a : Fin K → Fin D → ℂ)
    (w : Fin D → ℂ) (k : Fin K) : interference sigma a w k ≤ leakage sigma eps a w k := by
  unfold leakage
  have := mul_nonneg he (normSq_nonneg w)
  linarith

/-! ### scale invariance, activity weights, aggregation over bins -/
theorem outPower_smul (sigma : Fin K → ℝ) (a : Fin K → Fin D → ℂ) (w : Fin D → ℂ) (c : ℂ) (j : Fin K) :
    outPower sigma a (fun d => c * w d) j = Complex.normSq c * outPower sigma a w j := by
  simp only [outPower, absSq_eq, cdot_eq]
  have : star (fun d => c * w d) ⬝ᵥ a j = star c * (star w ⬝ᵥ a j) := by
    simp only [dotProduct, Finset.mul_sum, Pi.star_apply, star_mul']
    refine Finset.sum_congr rfl fun i _ => ?_
    ring
  have hc : Complex.normSq (star c) = Complex.normSq c := Complex.normSq_conj c
  rw [this, map_mul, hc]
  ring

theorem interference_smul (sigma : Fin K → ℝ) (a : Fin K → Fin D → ℂ) (w : Fin D → ℂ) (c : ℂ) (k : Fin K) :
    interference sigma a (fun d => c * w d) k = Complex.normSq c * interference sigma a w k := by
  simp only [interference, vsum_eq_sum, Finset.mul_sum]
  refine Finset.sum_congr rfl fun j _ => ?_
  split
  · simp
  · exact outPower_smul sigma a w c j

theorem sirOut_smul (sigma : Fin K → ℝ) (a : Fin K → Fin D → ℂ) (w : Fin D → ℂ) {c : ℂ} (hc : c ≠ 0) (k : Fin K) :
    sirOut sigma a (fun d => c * w d) k = sirOut sigma a w k := by
  unfold sirOut
  rw [outPower_smul, interference_smul]
  exact mul_div_mul_left _ _ (fun h => hc (Complex.normSq_eq_zero.mp h))

theorem interference_weighted_le {sigma p : Fin K → ℝ} (hs : ∀ j, 0 ≤ sigma j) (hp1 : ∀ j, p j ≤ 1)
    (a : Fin K → Fin D → ℂ) (w : Fin D → ℂ) (k : Fin K) :
    interference (fun j => p j * sigma j) a w k ≤ interference sigma a w k := by
  simp only [interference, vsum_eq_sum, outPower, absSq_eq]
  refine Finset.sum_le_sum fun j _ => ?_
  split
  · exact le_refl _
  · have h1 : 0 ≤ sigma j * Complex.normSq (cdot ℝ w (a j)) := mul_nonneg (hs j) (Complex.normSq_nonneg _)
    nlinarith [hp1 j]

end PbBss.PipelineProof

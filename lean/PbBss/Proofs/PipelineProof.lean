import PbBss.Model.Pipeline
import PbBss.Proofs.RealInst
import PbBss.Proofs.Mvdr
import Mathlib.LinearAlgebra.Matrix.PosDef
import Mathlib.Analysis.Matrix.PosDef
import Mathlib.Analysis.SpecialFunctions.Log.Base
import Mathlib.Tactic
/-! Helper lemmas for C17: the ideal-mask scene model of `PbBss/Model/Pipeline.lean` at `α := ℝ`, `β := ℂ`,
bridged to Mathlib's `Matrix` / `dotProduct` API, the MVDR leakage bound (from `mvdr_optimal`), and the
"same direction" lemmas for a rank-one target. -/
open Matrix PbBss PbBss.Pipeline
open scoped ComplexOrder

namespace PbBss.PipelineProof

variable {K D : Nat}

/-! ### bridge: executable folds ↦ Mathlib -/
theorem cdot_eq (w x : Fin D → ℂ) : cdot ℝ w x = star w ⬝ᵥ x := by
  simp [cdot, cj, vsum_eq_sum, dotProduct]

theorem absSq_eq (z : ℂ) : absSq (α := ℝ) z = Complex.normSq z := by
  simp [absSq, Complex.normSq_apply]

theorem normSq_eq (w : Fin D → ℂ) : normSq (α := ℝ) w = ∑ d, Complex.normSq (w d) := by
  simp [normSq, vsum_eq_sum, absSq_eq]

theorem normSq_nonneg (w : Fin D → ℂ) : 0 ≤ normSq (α := ℝ) w := by
  rw [normSq_eq]; exact Finset.sum_nonneg fun d _ => Complex.normSq_nonneg _

/-- `wᴴ w = ‖w‖²` -/
theorem star_dot_self (w : Fin D → ℂ) : star w ⬝ᵥ w = ((normSq (α := ℝ) w : ℝ) : ℂ) := by
  rw [normSq_eq]
  simp only [dotProduct, Pi.star_apply, Complex.ofReal_sum]
  refine Finset.sum_congr rfl fun i _ => ?_
  rw [Complex.normSq_eq_conj_mul_self]; simp [RCLike.star_def]

theorem normSq_eq_zero {w : Fin D → ℂ} (h : normSq (α := ℝ) w = 0) : w = 0 := by
  rw [normSq_eq] at h
  have := (Finset.sum_eq_zero_iff_of_nonneg fun d _ => Complex.normSq_nonneg (w d)).mp h
  funext d
  exact Complex.normSq_eq_zero.mp (this d (Finset.mem_univ d))

/-- `z · conj z = |z|²` -/
theorem mul_star_self (z : ℂ) : z * star z = ((Complex.normSq z : ℝ) : ℂ) := by
  rw [Complex.normSq_eq_conj_mul_self]; simp [RCLike.star_def, mul_comm]

/-- the model's class PSD as a Mathlib matrix: `σ a aᴴ + ε·1` -/
theorem classPsd_eq (sigma eps : ℝ) (a : Fin D → ℂ) :
    Matrix.of (classPsd sigma eps a) = (sigma : ℂ) • vecMulVec a (star a) + (eps : ℂ) • (1 : Matrix (Fin D) (Fin D) ℂ) := by
  ext d e
  simp [classPsd, cj, vecMulVec_apply, Matrix.one_apply]

/-- the model's noise PSD as a Mathlib matrix -/
theorem noisePsd_eq (sigma eps : Fin K → ℝ) (a : Fin K → Fin D → ℂ) (k : Fin K) :
    Matrix.of (noisePsd sigma eps a k) =
      ∑ j, if j = k then (0 : Matrix (Fin D) (Fin D) ℂ) else Matrix.of (classPsd (sigma j) (eps j) (a j)) := by
  ext d e
  simp only [noisePsd, vsum_eq_sum, Matrix.of_apply, Matrix.sum_apply]
  refine Finset.sum_congr rfl fun j _ => ?_
  split <;> simp

theorem quadForm_eq (P : Fin D → Fin D → ℂ) (w : Fin D → ℂ) :
    quadForm (α := ℝ) P w = (star w ⬝ᵥ (Matrix.of P) *ᵥ w).re := by
  simp [quadForm, cj, vsum_eq_sum, dotProduct, mulVec]

/-- quadratic form of one class PSD: `wᴴ (σ a aᴴ + ε 1) w = σ |wᴴ a|² + ε ‖w‖²` (a real number) -/
theorem quad_classPsd (sigma eps : ℝ) (a w : Fin D → ℂ) :
    star w ⬝ᵥ (Matrix.of (classPsd sigma eps a)) *ᵥ w =
      ((sigma * Complex.normSq (star w ⬝ᵥ a) + eps * normSq (α := ℝ) w : ℝ) : ℂ) := by
  rw [classPsd_eq, add_mulVec, smul_mulVec, smul_mulVec, one_mulVec, vecMulVec_mulVec, op_smul_eq_smul,
    dotProduct_add, dotProduct_smul, dotProduct_smul, dotProduct_smul, star_dot_self]
  have h : star a ⬝ᵥ w = star (star w ⬝ᵥ a) := star_dotProduct _ _
  simp only [smul_eq_mul, h, Complex.ofReal_add, Complex.ofReal_mul]
  rw [← mul_star_self]
  ring

/-- `wᴴ Φnn w` for the ideal noise PSD is the real number `Σ_{j≠k} σ_j |wᴴ a_j|² + (Σ_{j≠k} ε_j) ‖w‖²` -/
theorem quad_noisePsd (sigma eps : Fin K → ℝ) (a : Fin K → Fin D → ℂ) (k : Fin K) (w : Fin D → ℂ) :
    star w ⬝ᵥ (Matrix.of (noisePsd sigma eps a k)) *ᵥ w =
      ((leakage sigma (noiseEps eps k) a w k : ℝ) : ℂ) := by
  rw [noisePsd_eq, sum_mulVec, dotProduct_sum]
  simp only [leakage, interference, noiseEps, outPower, vsum_eq_sum, Finset.sum_mul, ← Finset.sum_add_distrib,
    Complex.ofReal_sum]
  refine Finset.sum_congr rfl fun j _ => ?_
  by_cases hj : j = k
  · simp [hj]
  · simp only [hj, if_false]
    rw [quad_classPsd, absSq_eq, cdot_eq]


/-! ### the ideal noise PSD is Hermitian positive semidefinite, and definite as soon as `Σ_{j≠k} ε_j > 0` -/
theorem classPsd_posSemidef {sigma eps : ℝ} (hs : 0 ≤ sigma) (he : 0 ≤ eps) (a : Fin D → ℂ) :
    (Matrix.of (classPsd sigma eps a)).PosSemidef := by
  rw [classPsd_eq]
  exact ((posSemidef_vecMulVec_self_star a).smul (Complex.zero_le_real.mpr hs)).add
    (PosSemidef.one.smul (Complex.zero_le_real.mpr he))

theorem noisePsd_posSemidef {sigma eps : Fin K → ℝ} (hs : ∀ j, 0 ≤ sigma j) (he : ∀ j, 0 ≤ eps j)
    (a : Fin K → Fin D → ℂ) (k : Fin K) : (Matrix.of (noisePsd sigma eps a k)).PosSemidef := by
  rw [noisePsd_eq]
  refine posSemidef_sum _ fun j _ => ?_
  split
  · exact PosSemidef.zero
  · exact classPsd_posSemidef (hs j) (he j) (a j)

theorem interference_nonneg {sigma : Fin K → ℝ} (hs : ∀ j, 0 ≤ sigma j) (a : Fin K → Fin D → ℂ)
    (w : Fin D → ℂ) (k : Fin K) : 0 ≤ interference sigma a w k := by
  simp only [interference, vsum_eq_sum, outPower, absSq_eq]
  refine Finset.sum_nonneg fun j _ => ?_
  split
  · exact le_refl _
  · exact mul_nonneg (hs j) (Complex.normSq_nonneg _)

/-- a vector that is orthogonal to every interferer lets no interference through -/
theorem interference_zero_of_zf (sigma : Fin K → ℝ) (a : Fin K → Fin D → ℂ) (v : Fin D → ℂ) (k : Fin K)
    (hv0 : ∀ j, j ≠ k → star v ⬝ᵥ a j = 0) : interference sigma a v k = 0 := by
  simp only [interference, vsum_eq_sum, outPower, absSq_eq, cdot_eq]
  refine Finset.sum_eq_zero fun j _ => ?_
  by_cases hj : j = k
  · simp [hj]
  · simp [hj, hv0 j hj]

/-- `Φnn x = 0 → x = 0` when the white part is positive -/
theorem noisePsd_injective {sigma eps : Fin K → ℝ} (hs : ∀ j, 0 ≤ sigma j) (a : Fin K → Fin D → ℂ) (k : Fin K)
    (hpos : 0 < noiseEps eps k) {x : Fin D → ℂ} (hx : (Matrix.of (noisePsd sigma eps a k)) *ᵥ x = 0) : x = 0 := by
  have h := quad_noisePsd sigma eps a k x
  rw [hx, dotProduct_zero] at h
  have h0 : leakage sigma (noiseEps eps k) a x k = 0 := by exact_mod_cast h.symm
  unfold leakage at h0
  have hi := interference_nonneg hs a x k
  have hn := normSq_nonneg x
  have : normSq (α := ℝ) x = 0 := by nlinarith
  exact normSq_eq_zero this

/-- `aᴴ u` for `Φnn u = a ≠ 0` is a positive real number -/
theorem solve_dot_pos {sigma eps : Fin K → ℝ} (hs : ∀ j, 0 ≤ sigma j) (a : Fin K → Fin D → ℂ) (k : Fin K)
    (hpos : 0 < noiseEps eps k) (b u : Fin D → ℂ) (hu : (Matrix.of (noisePsd sigma eps a k)) *ᵥ u = b) (hb : b ≠ 0) :
    0 < (star b ⬝ᵥ u).re ∧ (star b ⬝ᵥ u).im = 0 := by
  have h := quad_noisePsd sigma eps a k u
  rw [hu] at h
  have hswap : star b ⬝ᵥ u = star (star u ⬝ᵥ b) := star_dotProduct _ _
  have hu0 : u ≠ 0 := by
    rintro rfl
    rw [mulVec_zero] at hu
    exact hb hu.symm
  have hn : 0 < normSq (α := ℝ) u :=
    lt_of_le_of_ne (normSq_nonneg u) fun h0 => hu0 (normSq_eq_zero h0.symm)
  have hi := interference_nonneg hs a u k
  have hl : 0 < leakage sigma (noiseEps eps k) a u k := by
    unfold leakage; nlinarith
  rw [hswap, h]
  constructor
  · simpa using hl
  · simp

theorem mvdrFromSolve_eq (b u : Fin D → ℂ) :
    mvdrFromSolve (α := ℝ) b u = (star b ⬝ᵥ u)⁻¹ • u := by
  funext d
  simp [mvdrFromSolve, cdot_eq, div_eq_inv_mul]

/-! ### MVDR leakage bound and the SIR bound -/
/-- **MVDR leakage bound.**  `w = u/(a_kᴴu)` with `Φnn u = a_k` lets through no more than any zero-forcing vector:
`Σ_{j≠k} σ_j |wᴴa_j|² + ε‖w‖² ≤ ε‖v‖²`. -/
theorem mvdr_leakage {sigma eps : Fin K → ℝ} (hs : ∀ j, 0 ≤ sigma j) (he : ∀ j, 0 ≤ eps j)
    (a : Fin K → Fin D → ℂ) (k : Fin K) (hpos : 0 < noiseEps eps k) (u v : Fin D → ℂ)
    (hu : (Matrix.of (noisePsd sigma eps a k)) *ᵥ u = a k)
    (hv1 : star v ⬝ᵥ a k = 1) (hv0 : ∀ j, j ≠ k → star v ⬝ᵥ a j = 0) :
    leakage sigma (noiseEps eps k) a (mvdrFromSolve (α := ℝ) (a k) u) k ≤ zfBound (noiseEps eps k) v := by
  have hak : a k ≠ 0 := by
    intro h0; rw [h0, dotProduct_zero] at hv1; exact zero_ne_one hv1
  have hq : star (a k) ⬝ᵥ u ≠ 0 := by
    intro h0
    have := (solve_dot_pos hs a k hpos (a k) u hu hak).1
    rw [h0] at this; simp at this
  have hopt := mvdr_optimal (Matrix.of (noisePsd sigma eps a k)) (noisePsd_posSemidef hs he a k) (a k) u v hu hq hv1
  simp only at hopt
  rw [quad_noisePsd, quad_noisePsd, ← mvdrFromSolve_eq] at hopt
  simp only [Complex.ofReal_re] at hopt
  have hv : leakage sigma (noiseEps eps k) a v k = zfBound (noiseEps eps k) v := by
    unfold leakage zfBound
    rw [interference_zero_of_zf sigma a v k hv0, zero_add]
  rw [hv] at hopt
  exact hopt

/-- the MVDR vector is distortionless: `σ_k |wᴴ a_k|² = σ_k` -/
theorem mvdr_outPower {sigma eps : Fin K → ℝ} (hs : ∀ j, 0 ≤ sigma j) (he : ∀ j, 0 ≤ eps j)
    (a : Fin K → Fin D → ℂ) (k : Fin K) (hpos : 0 < noiseEps eps k) (u : Fin D → ℂ)
    (hu : (Matrix.of (noisePsd sigma eps a k)) *ᵥ u = a k) (hak : a k ≠ 0) :
    outPower sigma a (mvdrFromSolve (α := ℝ) (a k) u) k = sigma k := by
  have hq : star (a k) ⬝ᵥ u ≠ 0 := by
    intro h0
    have := (solve_dot_pos hs a k hpos (a k) u hu hak).1
    rw [h0] at this; simp at this
  have hd := mvdr_distortionless (Matrix.of (noisePsd sigma eps a k)) (noisePsd_posSemidef hs he a k).1 (a k) u hu hq
  rw [outPower, absSq_eq, cdot_eq, mvdrFromSolve_eq, hd]
  simp

theorem interference_le_leakage (sigma : Fin K → ℝ) {eps : ℝ} (he : 0 ≤ eps) (a : Fin K → Fin D → ℂ)
    (w : Fin D → ℂ) (k : Fin K) : interference sigma a w k ≤ leakage sigma eps a w k := by
  unfold leakage
  have := mul_nonneg he (normSq_nonneg w)
  linarith

/-! ### scale invariance, activity weights, aggregation over bins -/
theorem outPower_smul (sigma : Fin K → ℝ) (a : Fin K → Fin D → ℂ) (w : Fin D → ℂ) (c : ℂ) (j : Fin K) :
    outPower sigma a (fun d => c * w d) j = Complex.normSq c * outPower sigma a w j := by
  simp only [outPower, absSq_eq, cdot_eq]
  have : star (fun d => c * w d) ⬝ᵥ a j = star c * (star w ⬝ᵥ a j) := by
    simp only [dotProduct, Finset.mul_sum, Pi.star_apply, star_mul']
    refine Finset.sum_congr rfl fun i _ => ?_
    ring
  have hc : Complex.normSq (star c) = Complex.normSq c := Complex.normSq_conj c
  rw [this, map_mul, hc]
  ring

theorem interference_smul (sigma : Fin K → ℝ) (a : Fin K → Fin D → ℂ) (w : Fin D → ℂ) (c : ℂ) (k : Fin K) :
    interference sigma a (fun d => c * w d) k = Complex.normSq c * interference sigma a w k := by
  simp only [interference, vsum_eq_sum, Finset.mul_sum]
  refine Finset.sum_congr rfl fun j _ => ?_
  split
  · simp
  · exact outPower_smul sigma a w c j

theorem sirOut_smul (sigma : Fin K → ℝ) (a : Fin K → Fin D → ℂ) (w : Fin D → ℂ) {c : ℂ} (hc : c ≠ 0) (k : Fin K) :
    sirOut sigma a (fun d => c * w d) k = sirOut sigma a w k := by
  unfold sirOut
  rw [outPower_smul, interference_smul]
  exact mul_div_mul_left _ _ (fun h => hc (Complex.normSq_eq_zero.mp h))

theorem interference_weighted_le {sigma p : Fin K → ℝ} (hs : ∀ j, 0 ≤ sigma j) (hp1 : ∀ j, p j ≤ 1)
    (a : Fin K → Fin D → ℂ) (w : Fin D → ℂ) (k : Fin K) :
    interference (fun j => p j * sigma j) a w k ≤ interference sigma a w k := by
  simp only [interference, vsum_eq_sum, outPower, absSq_eq]
  refine Finset.sum_le_sum fun j _ => ?_
  split
  · exact le_refl _
  · have h1 : 0 ≤ sigma j * Complex.normSq (cdot ℝ w (a j)) := mul_nonneg (hs j) (Complex.normSq_nonneg _)
    nlinarith [hp1 j]


/-! ### rank-one target: GEV, Souden, WMWF, PCA and the rank-one estimates all point along `Φnn⁻¹ a` -/
theorem targetPsd_eq (sigma : ℝ) (a : Fin D → ℂ) :
    Matrix.of (classPsd sigma 0 a) = (sigma : ℂ) • vecMulVec a (star a) := by
  rw [classPsd_eq]; simp

theorem rankOne_mulVec (sigma : ℝ) (a w : Fin D → ℂ) :
    ((sigma : ℂ) • vecMulVec a (star a)) *ᵥ w = ((sigma : ℂ) * (star a ⬝ᵥ w)) • a := by
  rw [smul_mulVec, vecMulVec_mulVec, op_smul_eq_smul, smul_smul]

/-- a generalised eigenvector of `(σ a aᴴ, Φnn)` with non-zero eigenvalue is a multiple of `u = Φnn⁻¹ a` -/
theorem gev_parallel (Pnn : Matrix (Fin D) (Fin D) ℂ) (hinj : ∀ x, Pnn *ᵥ x = 0 → x = 0) (sigma : ℝ)
    (a u w : Fin D → ℂ) (lam : ℂ) (hu : Pnn *ᵥ u = a)
    (hw : ((sigma : ℂ) • vecMulVec a (star a)) *ᵥ w = lam • (Pnn *ᵥ w)) (hlam : lam ≠ 0) :
    w = (((sigma : ℂ) * (star a ⬝ᵥ w)) / lam) • u := by
  rw [rankOne_mulVec] at hw
  have h1 : Pnn *ᵥ w = (((sigma : ℂ) * (star a ⬝ᵥ w)) / lam) • a := by
    have : Pnn *ᵥ w = lam⁻¹ • (lam • (Pnn *ᵥ w)) := by rw [smul_smul, inv_mul_cancel₀ hlam, one_smul]
    rw [this, ← hw, smul_smul]
    congr 1
    field_simp
  have h2 : Pnn *ᵥ (w - (((sigma : ℂ) * (star a ⬝ᵥ w)) / lam) • u) = 0 := by
    rw [mulVec_sub, mulVec_smul, hu, h1, sub_self]
  exact sub_eq_zero.mp (hinj _ h2)

/-- `u = Φnn⁻¹ a` is itself a generalised eigenvector, with eigenvalue `σ aᴴu` -/
theorem gev_principal (Pnn : Matrix (Fin D) (Fin D) ℂ) (sigma : ℝ) (a u : Fin D → ℂ) (hu : Pnn *ᵥ u = a) :
    ((sigma : ℂ) • vecMulVec a (star a)) *ᵥ u = ((sigma : ℂ) * (star a ⬝ᵥ u)) • (Pnn *ᵥ u) := by
  rw [rankOne_mulVec, hu]

/-- the principal eigenvector of `σ a aᴴ` (non-zero eigenvalue) is a multiple of `a` -/
theorem pca_parallel (sigma : ℝ) (a b : Fin D → ℂ) (mu : ℂ)
    (hb : ((sigma : ℂ) • vecMulVec a (star a)) *ᵥ b = mu • b) (hmu : mu ≠ 0) :
    b = (((sigma : ℂ) * (star a ⬝ᵥ b)) / mu) • a := by
  rw [rankOne_mulVec] at hb
  calc b = mu⁻¹ • (mu • b) := by rw [smul_smul, inv_mul_cancel₀ hmu, one_smul]
    _ = mu⁻¹ • (((sigma : ℂ) * (star a ⬝ᵥ b)) • a) := by rw [hb]
    _ = (((sigma : ℂ) * (star a ⬝ᵥ b)) / mu) • a := by
      rw [smul_smul]; congr 1; field_simp

/-- the value the solver contract determines for a rank-one target: `Φnn (σ u aᴴ) = σ a aᴴ` -/
theorem rankOnePhi_solves (Pnn : Matrix (Fin D) (Fin D) ℂ) (sigma : ℝ) (a u : Fin D → ℂ) (hu : Pnn *ᵥ u = a) :
    Pnn * Matrix.of (rankOnePhi sigma a u) = Matrix.of (classPsd sigma 0 a) := by
  ext i j
  have hi : ∑ l, Pnn i l * u l = a i := by
    have := congrFun hu i
    simpa [mulVec, dotProduct] using this
  simp only [Matrix.mul_apply, Matrix.of_apply, rankOnePhi, classPsd, cj, cx_conj, cx_ofReal]
  have : ∀ l, Pnn i l * ((sigma : ℂ) * (u l * (starRingEnd ℂ) (a j))) =
      (sigma : ℂ) * (starRingEnd ℂ) (a j) * (Pnn i l * u l) := fun l => by ring
  simp only [this, ← Finset.mul_sum, hi]
  split <;> simp <;> ring

theorem trace_rankOnePhi (sigma : ℝ) (a u : Fin D → ℂ) :
    Pipeline.trace (rankOnePhi sigma a u) = (sigma : ℂ) * (star a ⬝ᵥ u) := by
  simp only [Pipeline.trace, rankOnePhi, cj, cx_conj, cx_ofReal, vsum_eq_sum, dotProduct, Finset.mul_sum, Pi.star_apply]
  refine Finset.sum_congr rfl fun i _ => ?_
  rw [RCLike.star_def]; ring

/-- Souden MVDR for a rank-one target: column `ref` of `phi / tr(phi)` is `conj(a_ref)/(aᴴu) · u` -/
theorem souden_rankOne {tiny sigma : ℝ} (ht : 0 < tiny) (hsig : 0 < sigma) (a u : Fin D → ℂ) (ref : Fin D)
    (him : (star a ⬝ᵥ u).im = 0) (hfloor : tiny ≤ sigma * (star a ⬝ᵥ u).re) :
    souden tiny (rankOnePhi sigma a u) ref = fun d => (star (a ref) / (star a ⬝ᵥ u)) * u d := by
  funext d
  have hz : star a ⬝ᵥ u = (((star a ⬝ᵥ u).re : ℝ) : ℂ) := by
    apply Complex.ext <;> simp [him]
  have hre : 0 < (star a ⬝ᵥ u).re := by
    by_contra h
    have : sigma * (star a ⬝ᵥ u).re ≤ 0 := mul_nonpos_of_nonneg_of_nonpos hsig.le (not_lt.mp h)
    linarith
  have htr : CxOps.re (α := ℝ) (Pipeline.trace (rankOnePhi sigma a u)) = sigma * (star a ⬝ᵥ u).re := by
    rw [trace_rankOnePhi, cx_re, Complex.re_ofReal_mul]
  have h1 : ((sigma : ℝ) : ℂ) ≠ 0 := by exact_mod_cast hsig.ne'
  have h2 : (((star a ⬝ᵥ u).re : ℝ) : ℂ) ≠ 0 := by exact_mod_cast hre.ne'
  simp only [souden, htr, max_eq_left hfloor, cx_ofReal, rankOnePhi, cj, cx_conj, Complex.ofReal_mul,
    RCLike.star_def]
  rw [hz]
  simp only [Complex.ofReal_re]
  field_simp

/-- WMWF for a rank-one target: column `ref` of `phi / (μ + tr(phi))` is `σ conj(a_ref)/(μ + σ aᴴu) · u` -/
theorem wmwf_rankOne (mu sigma : ℝ) (a u : Fin D → ℂ) (ref : Fin D) :
    wmwf mu (rankOnePhi sigma a u) ref =
      fun d => ((sigma : ℂ) * star (a ref) / ((mu : ℂ) + (sigma : ℂ) * (star a ⬝ᵥ u))) * u d := by
  funext d
  simp only [wmwf, trace_rankOnePhi, rankOnePhi, cj, cx_conj, cx_ofReal, RCLike.star_def]
  ring

/-- the rank-one estimates (`rank1_pca`, `rank1_gev`) reproduce a rank-one target exactly from any non-zero
multiple `b = c·a` of the steering vector -/
theorem rankOneEstimate_fixed (sigma : ℝ) (a : Fin D → ℂ) (c : ℂ) (hc : c ≠ 0) (ha : a ≠ 0) :
    rankOneEstimate (α := ℝ) (classPsd sigma 0 a) (fun d => c * a d) = classPsd sigma 0 a := by
  have hN : (∑ i, a i * (starRingEnd ℂ) (a i)) ≠ 0 := by
    have h1 : (∑ i, a i * (starRingEnd ℂ) (a i)) = ((normSq (α := ℝ) a : ℝ) : ℂ) := by
      rw [normSq_eq, Complex.ofReal_sum]
      refine Finset.sum_congr rfl fun i _ => ?_
      rw [Complex.mul_conj]
    rw [h1]
    have : normSq (α := ℝ) a ≠ 0 := fun h => ha (normSq_eq_zero h)
    exact_mod_cast this
  have hcc : (starRingEnd ℂ) c ≠ 0 := by simpa using hc
  funext d e
  have t1 : Pipeline.trace (classPsd sigma 0 a) = (sigma : ℂ) * ∑ i, a i * (starRingEnd ℂ) (a i) := by
    simp [Pipeline.trace, classPsd, cj, vsum_eq_sum, Finset.mul_sum]
  have t2 : Pipeline.trace (fun d e => (c * a d) * cj ℝ (c * a e)) =
      c * (starRingEnd ℂ) c * ∑ i, a i * (starRingEnd ℂ) (a i) := by
    simp only [Pipeline.trace, cj, cx_conj, vsum_eq_sum, Finset.mul_sum, map_mul]
    refine Finset.sum_congr rfl fun i _ => ?_
    ring
  simp only [rankOneEstimate, t1, t2]
  simp only [classPsd, cj, cx_conj, cx_ofReal, map_mul, Complex.ofReal_zero]
  have : (if d = e then (0 : ℂ) else 0) = 0 := by split <;> rfl
  rw [this, add_zero]
  field_simp


/-! ### ideal masks: the PSD estimator applied to the true (one-hot) mask of a source that is alone in its frames -/
/-- `get_power_spectral_density_matrix` with the true mask of class `k` on noise-free frames `y_t = a_{owner t} s_t`
returns the rank-one class PSD `σ_k a_k a_kᴴ` with `σ_k` = mean of `|s_t|²` over the frames of class `k`. -/
theorem psd_ideal_mask {F K T : Nat} (floor : ℝ) (owner : Fin T → Fin K) (s : Fin F → Fin T → ℂ)
    (a : Fin F → Fin K → Fin D → ℂ) (f : Fin F) (k : Fin K)
    (hn : floor ≤ ∑ t, (if owner t = k then (1 : ℝ) else 0)) (hn0 : 0 < ∑ t, (if owner t = k then (1 : ℝ) else 0)) :
    psd floor (fun f d t => a f (owner t) d * s f t) (fun _ k t => if owner t = k then (1 : ℝ) else 0) f k =
      classPsd ((∑ t, if owner t = k then Complex.normSq (s f t) else 0) /
        (∑ t, (if owner t = k then (1 : ℝ) else 0))) 0 (a f k) := by
  funext d e
  set n : ℝ := ∑ t, (if owner t = k then (1 : ℝ) else 0) with hndef
  have hnc : (n : ℂ) ≠ 0 := by exact_mod_cast hn0.ne'
  simp only [psd, normalizeMask, vsum_eq_sum, ← hndef, max_eq_left hn, classPsd, cj, cx_conj, cx_ofReal,
    Complex.ofReal_zero]
  have hz : (if d = e then (0 : ℂ) else 0) = 0 := by split <;> rfl
  rw [hz, add_zero]
  have hterm : ∀ t, ((((if owner t = k then (1 : ℝ) else 0) / n : ℝ) : ℂ)) * (a f (owner t) d * s f t) *
      (starRingEnd ℂ) (a f (owner t) e * s f t) =
      (((if owner t = k then Complex.normSq (s f t) else 0 : ℝ) : ℂ) / (n : ℂ)) *
        (a f k d * (starRingEnd ℂ) (a f k e)) := by
    intro t
    by_cases h : owner t = k
    · simp only [h, if_true, map_mul, Complex.ofReal_div, Complex.ofReal_one]
      rw [Complex.normSq_eq_conj_mul_self]
      field_simp
    · simp [h]
  rw [Complex.ofReal_div, Complex.ofReal_sum, Finset.sum_div, Finset.sum_mul]
  refine Finset.sum_congr rfl fun t _ => ?_
  rw [← hterm t, Complex.ofReal_div]

end PbBss.PipelineProof

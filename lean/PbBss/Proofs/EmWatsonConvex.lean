import PbBss.Proofs.EmWatson
import Mathlib.Probability.Moments.MGFAnalytic
import Mathlib.MeasureTheory.Integral.IntervalIntegral.Basic
import Mathlib.MeasureTheory.Measure.WithDensity
import Mathlib.Tactic
/-! # Convexity of the complex Watson log-normaliser `log ₁F₁(1; D; ·)` (C02, closes the gap recorded in DESIGN.md)

`EmWatson.watson_mstep_improves` assumes `TangentAt lnorm (kinv λ) λ`.  Here that hypothesis is *derived* for the
true log-normaliser of the complex Watson density on the unit sphere of `ℂ^D`,
`lnorm κ = C + log ₁F₁(1; D; κ)`, `₁F₁(1; D; κ) = (D−1) ∫₀¹ e^{κ t} (1−t)^{D−2} dt` (`watsonKernel`),
from the single remaining assumption that the returned concentration solves `watsonRatio D κ = λ` exactly.

Route: `watsonKernel D = mgf id (watsonMeasure D)` with `watsonMeasure D` the Beta(1, D−1) law on `(0,1]`;
`cgf` of a bounded variable is analytic with second derivative = variance under the tilted law `≥ 0` (Mathlib
`iteratedDeriv_two_cgf_eq_integral`), hence convex on all of `ℝ` (no bound on `κ`).

* general: `integrableExpSet_eq_univ_of_bounded`, `cgf_convexOn_univ`, `cgf_tangentAt`, `cgf_convex_of_bounded`;
* Watson: `watsonKernel_pos`, `watsonKernel_zero`, `watsonLogNorm_convex`, `watsonLogNorm_hasDerivAt`,
  `watsonRatio_pos`, `watsonRatio_lt_one`, `watsonRatio_zero`, `watsonRatio_monotone`, `watsonRatio_strictMono`;
* discharge: `watson_tangent_exact`, `watson_mstep_improves_exact`;
* identification with the series scipy evaluates: `watsonKernel_hasSum` / `watsonKernel_eq_tsum`
  (`₁F₁(1; D; κ) = Σₙ κⁿ / (D)ₙ`), `watsonKernel_two` (`(e^κ − 1)/κ`). -/

open MeasureTheory ProbabilityTheory Set

namespace PbBss.EmProof

section general
variable {Ω : Type*} {m : MeasurableSpace Ω} {X : Ω → ℝ} {μ : Measure Ω}

/-- a bounded random variable on a finite measure has an everywhere finite moment generating function -/
theorem integrableExpSet_eq_univ_of_bounded [IsFiniteMeasure μ] (hX : AEMeasurable X μ) (M : ℝ)
    (hb : ∀ᵐ ω ∂μ, |X ω| ≤ M) : integrableExpSet X μ = univ := by
  refine eq_univ_of_forall fun t => ?_
  show Integrable (fun ω => Real.exp (t * X ω)) μ
  refine Integrable.of_bound (Real.measurable_exp.comp_aemeasurable (hX.const_mul t)).aestronglyMeasurable
    (Real.exp (|t| * M)) ?_
  filter_upwards [hb] with ω hω
  rw [Real.norm_eq_abs, Real.abs_exp, Real.exp_le_exp]
  calc t * X ω ≤ |t * X ω| := le_abs_self _
    _ = |t| * |X ω| := abs_mul _ _
    _ ≤ |t| * M := mul_le_mul_of_nonneg_left hω (abs_nonneg _)

theorem cgf_differentiable (h : integrableExpSet X μ = univ) : Differentiable ℝ (cgf X μ) := fun v =>
  (analyticAt_cgf (by simp [h])).differentiableAt

theorem cgf_deriv_differentiable (h : integrableExpSet X μ = univ) : Differentiable ℝ (deriv (cgf X μ)) :=
  fun v => ((analyticAt_cgf (X := X) (μ := μ) (v := v) (by simp [h])).deriv).differentiableAt

theorem cgf_deriv2_nonneg (h : integrableExpSet X μ = univ) (v : ℝ) : 0 ≤ deriv^[2] (cgf X μ) v := by
  have h2 := iteratedDeriv_two_cgf_eq_integral (X := X) (μ := μ) (v := v) (by simp [h])
  rw [iteratedDeriv_eq_iterate] at h2
  rw [h2]
  exact div_nonneg (integral_nonneg fun ω => by positivity) mgf_nonneg

/-- **cgf is convex** wherever the mgf is finite everywhere -/
theorem cgf_convexOn_univ (h : integrableExpSet X μ = univ) : ConvexOn ℝ univ (cgf X μ) :=
  convexOn_univ_of_deriv2_nonneg (cgf_differentiable h) (cgf_deriv_differentiable h) (cgf_deriv2_nonneg h)

theorem cgf_tangentAt (h : integrableExpSet X μ = univ) (κ' : ℝ) :
    TangentAt (cgf X μ) κ' (deriv (cgf X μ) κ') :=
  tangent_of_convex _ _ _ (cgf_convexOn_univ h) (cgf_differentiable h κ').hasDerivAt

theorem cgf_deriv_monotone (h : integrableExpSet X μ = univ) : Monotone (deriv (cgf X μ)) :=
  monotone_of_deriv_nonneg (cgf_deriv_differentiable h) (cgf_deriv2_nonneg h)

/-- General lemma of the task: bounded variable on a finite measure. -/
theorem cgf_convex_of_bounded [IsFiniteMeasure μ] (hX : AEMeasurable X μ) (M : ℝ)
    (hb : ∀ᵐ ω ∂μ, |X ω| ≤ M) :
    ConvexOn ℝ univ (cgf X μ) ∧ Differentiable ℝ (cgf X μ) ∧
      ∀ κ', TangentAt (cgf X μ) κ' (deriv (cgf X μ) κ') :=
  have h := integrableExpSet_eq_univ_of_bounded hX M hb
  ⟨cgf_convexOn_univ h, cgf_differentiable h, cgf_tangentAt h⟩

end general

section watsonInstance

/-- the Beta(1, D−1) weight on `(0,1]` as a measure: the law of `|mᴴz|²` for `z` uniform on the unit sphere of `ℂ^D` -/
noncomputable def watsonMeasure (D : ℕ) : Measure ℝ :=
  (volume.restrict (Ioc (0:ℝ) 1)).withDensity (fun t => ENNReal.ofReal ((D - 1 : ℝ) * (1 - t) ^ (D - 2)))

noncomputable def watsonKernel (D : ℕ) (κ : ℝ) : ℝ :=
  ∫ t in (0:ℝ)..1, Real.exp (κ * t) * ((D - 1 : ℝ) * (1 - t) ^ (D - 2))

noncomputable def watsonLogNorm (D : ℕ) (C : ℝ) (κ : ℝ) : ℝ := C + Real.log (watsonKernel D κ)

/-- the hypergeometric ratio: the expected value of `|mᴴz|²` under the Watson density -/
noncomputable def watsonRatio (D : ℕ) (κ : ℝ) : ℝ :=
  (∫ t in (0:ℝ)..1, t * Real.exp (κ * t) * ((D - 1 : ℝ) * (1 - t) ^ (D - 2))) / watsonKernel D κ

theorem watson_weight_nonneg (D : ℕ) (hD : 2 ≤ D) {t : ℝ} (ht : t ∈ Ioc (0:ℝ) 1) :
    0 ≤ (D - 1 : ℝ) * (1 - t) ^ (D - 2) := by
  have h1 : (2:ℝ) ≤ D := by exact_mod_cast hD
  have h2 : 0 ≤ 1 - t := by linarith [ht.2]
  have := pow_nonneg h2 (D - 2)
  nlinarith

theorem integral_watsonMeasure (D : ℕ) (hD : 2 ≤ D) (g : ℝ → ℝ) :
    ∫ t, g t ∂(watsonMeasure D) = ∫ t in (0:ℝ)..1, g t * ((D - 1 : ℝ) * (1 - t) ^ (D - 2)) := by
  unfold watsonMeasure
  rw [integral_withDensity_eq_integral_toReal_smul (by fun_prop) (by simp),
    intervalIntegral.integral_of_le zero_le_one]
  refine setIntegral_congr_fun measurableSet_Ioc fun t ht => ?_
  simp only [smul_eq_mul]
  rw [ENNReal.toReal_ofReal (watson_weight_nonneg D hD ht), mul_comm]

instance watsonMeasure_finite (D : ℕ) : IsFiniteMeasure (watsonMeasure D) := by
  unfold watsonMeasure
  refine isFiniteMeasure_withDensity_ofReal (Integrable.hasFiniteIntegral ?_)
  exact (Continuous.integrableOn_Icc (by fun_prop)).mono_set Ioc_subset_Icc_self

theorem watsonMeasure_bounded (D : ℕ) : ∀ᵐ t ∂(watsonMeasure D), |id t| ≤ (1:ℝ) := by
  have : ∀ᵐ t ∂(volume.restrict (Ioc (0:ℝ) 1)), |id t| ≤ (1:ℝ) := by
    filter_upwards [ae_restrict_mem measurableSet_Ioc] with t ht
    simp only [id]; rw [abs_le]; constructor <;> linarith [ht.1, ht.2]
  exact (withDensity_absolutelyContinuous _ _).ae_le this

theorem watsonMeasure_expSet (D : ℕ) : integrableExpSet id (watsonMeasure D) = univ :=
  integrableExpSet_eq_univ_of_bounded aemeasurable_id 1 (watsonMeasure_bounded D)

theorem watsonKernel_eq_mgf (D : ℕ) (hD : 2 ≤ D) : watsonKernel D = mgf id (watsonMeasure D) := by
  funext κ
  simp only [mgf, watsonKernel, id]
  rw [integral_watsonMeasure D hD]

theorem watsonKernel_zero (D : ℕ) (hD : 2 ≤ D) : watsonKernel D 0 = 1 := by
  obtain ⟨n, rfl⟩ : ∃ n, D = n + 2 := ⟨D - 2, by omega⟩
  simp only [watsonKernel, zero_mul, Real.exp_zero, one_mul, Nat.add_sub_cancel]
  rw [intervalIntegral.integral_const_mul, intervalIntegral.integral_comp_sub_left (fun x => x ^ n) 1]
  simp only [sub_self, sub_zero, integral_pow, one_pow, zero_pow (Nat.succ_ne_zero n)]
  push_cast
  field_simp
  ring

theorem watsonMeasure_ne_zero (D : ℕ) (hD : 2 ≤ D) : watsonMeasure D ≠ 0 := by
  intro h
  have h1 := watsonKernel_zero D hD
  rw [watsonKernel_eq_mgf D hD, h] at h1
  simp at h1

theorem watsonKernel_pos (D : ℕ) (hD : 2 ≤ D) (κ : ℝ) : 0 < watsonKernel D κ := by
  rw [watsonKernel_eq_mgf D hD]
  exact mgf_pos' (watsonMeasure_ne_zero D hD) (by
    have : κ ∈ integrableExpSet id (watsonMeasure D) := by simp [watsonMeasure_expSet]
    exact this)

theorem watsonLogNorm_eq_cgf (D : ℕ) (hD : 2 ≤ D) (C : ℝ) :
    watsonLogNorm D C = fun κ => C + cgf id (watsonMeasure D) κ := by
  funext κ
  simp only [watsonLogNorm, cgf, watsonKernel_eq_mgf D hD]

theorem watsonRatio_eq_deriv_cgf (D : ℕ) (hD : 2 ≤ D) : watsonRatio D = deriv (cgf id (watsonMeasure D)) := by
  funext κ
  rw [deriv_cgf (by simp [watsonMeasure_expSet]), ← watsonKernel_eq_mgf D hD]
  simp only [watsonRatio, id]
  rw [integral_watsonMeasure D hD]

/-- **`log ₁F₁(1; D; ·)` is convex** on all of `ℝ` -/
theorem watsonLogNorm_convex (D : ℕ) (hD : 2 ≤ D) (C : ℝ) : ConvexOn ℝ univ (watsonLogNorm D C) := by
  rw [watsonLogNorm_eq_cgf D hD]
  exact (convexOn_const C convex_univ).add (cgf_convexOn_univ (watsonMeasure_expSet D))

/-- the derivative of the log-normaliser is the hypergeometric ratio -/
theorem watsonLogNorm_hasDerivAt (D : ℕ) (hD : 2 ≤ D) (C κ : ℝ) :
    HasDerivAt (watsonLogNorm D C) (watsonRatio D κ) κ := by
  rw [watsonLogNorm_eq_cgf D hD, watsonRatio_eq_deriv_cgf D hD]
  exact ((cgf_differentiable (watsonMeasure_expSet D)) κ).hasDerivAt.const_add C

theorem watsonRatio_monotone (D : ℕ) (hD : 2 ≤ D) : Monotone (watsonRatio D) := by
  rw [watsonRatio_eq_deriv_cgf D hD]
  exact cgf_deriv_monotone (watsonMeasure_expSet D)

theorem watson_weight_pos (D : ℕ) (hD : 2 ≤ D) {t : ℝ} (ht : t ∈ Ioo (0:ℝ) 1) :
    0 < (D - 1 : ℝ) * (1 - t) ^ (D - 2) := by
  have h1 : (2:ℝ) ≤ D := by exact_mod_cast hD
  have h2 : 0 < 1 - t := by linarith [ht.2]
  exact mul_pos (by linarith) (pow_pos h2 _)

theorem watsonRatio_pos (D : ℕ) (hD : 2 ≤ D) (κ : ℝ) : 0 < watsonRatio D κ := by
  refine div_pos ?_ (watsonKernel_pos D hD κ)
  refine intervalIntegral.intervalIntegral_pos_of_pos_on (Continuous.intervalIntegrable (by fun_prop) _ _)
    (fun t ht => ?_) zero_lt_one
  exact mul_pos (mul_pos ht.1 (Real.exp_pos _)) (watson_weight_pos D hD ht)

theorem watsonRatio_lt_one (D : ℕ) (hD : 2 ≤ D) (κ : ℝ) : watsonRatio D κ < 1 := by
  rw [watsonRatio, div_lt_one (watsonKernel_pos D hD κ), ← sub_pos, watsonKernel,
    ← intervalIntegral.integral_sub (Continuous.intervalIntegrable (by fun_prop) _ _)
      (Continuous.intervalIntegrable (by fun_prop) _ _)]
  refine intervalIntegral.intervalIntegral_pos_of_pos_on (Continuous.intervalIntegrable (by fun_prop) _ _)
    (fun t ht => ?_) zero_lt_one
  have h1 := watson_weight_pos D hD ht
  have h2 := Real.exp_pos (κ * t)
  have h3 : 0 < 1 - t := by linarith [ht.2]
  have : Real.exp (κ * t) * ((D - 1 : ℝ) * (1 - t) ^ (D - 2))
      - t * Real.exp (κ * t) * ((D - 1 : ℝ) * (1 - t) ^ (D - 2))
      = (1 - t) * (Real.exp (κ * t) * ((D - 1 : ℝ) * (1 - t) ^ (D - 2))) := by ring
  rw [this]
  positivity

/-- Beta(1, D−1) mean: at zero concentration the expected `|mᴴz|²` is `1/D` -/
theorem watsonRatio_zero (D : ℕ) (hD : 2 ≤ D) : watsonRatio D 0 = 1 / D := by
  rw [watsonRatio, watsonKernel_zero D hD, div_one]
  obtain ⟨n, rfl⟩ : ∃ n, D = n + 2 := ⟨D - 2, by omega⟩
  simp only [zero_mul, Real.exp_zero, mul_one, Nat.add_sub_cancel]
  have : ∀ t : ℝ, t * (((n + 2 : ℕ) : ℝ) - 1) * (1 - t) ^ n
      = (fun x : ℝ => ((n : ℝ) + 1) * (x ^ n - x ^ (n + 1))) (1 - t) := by
    intro t; push_cast; ring
  simp only [← mul_assoc, this]
  rw [intervalIntegral.integral_comp_sub_left (fun x : ℝ => ((n : ℝ) + 1) * (x ^ n - x ^ (n + 1))) 1,
    intervalIntegral.integral_const_mul,
    intervalIntegral.integral_sub (Continuous.intervalIntegrable (by fun_prop) _ _)
      (Continuous.intervalIntegrable (by fun_prop) _ _)]
  simp only [sub_self, sub_zero, integral_pow, one_pow, zero_pow (Nat.succ_ne_zero _)]
  push_cast
  field_simp
  ring

/-- the variance of the tilted Beta law is strictly positive, so the hypergeometric ratio is strictly increasing:
the exact inverse `kinv` is unique -/
theorem watsonRatio_strictMono (D : ℕ) (hD : 2 ≤ D) : StrictMono (watsonRatio D) := by
  rw [watsonRatio_eq_deriv_cgf D hD]
  refine strictMono_of_deriv_pos fun v => ?_
  have h2 := iteratedDeriv_two_cgf_eq_integral (X := id) (μ := watsonMeasure D) (v := v)
    (by simp [watsonMeasure_expSet])
  rw [iteratedDeriv_succ, iteratedDeriv_one] at h2
  rw [h2, ← watsonKernel_eq_mgf D hD]
  refine div_pos ?_ (watsonKernel_pos D hD v)
  simp only [id]
  rw [integral_watsonMeasure D hD]
  set c := deriv (cgf id (watsonMeasure D)) v
  refine intervalIntegral.integral_pos zero_lt_one (Continuous.continuousOn (by fun_prop)) (fun t ht => ?_) ?_
  · exact mul_nonneg (mul_nonneg (sq_nonneg _) (Real.exp_nonneg _)) (watson_weight_nonneg D hD ht)
  · by_cases hc : c = 1 / 2
    · refine ⟨1 / 4, ⟨by norm_num, by norm_num⟩, ?_⟩
      refine mul_pos (mul_pos ?_ (Real.exp_pos _)) (watson_weight_pos D hD ⟨by norm_num, by norm_num⟩)
      rw [hc]; norm_num
    · refine ⟨1 / 2, ⟨by norm_num, by norm_num⟩, ?_⟩
      refine mul_pos (mul_pos ?_ (Real.exp_pos _)) (watson_weight_pos D hD ⟨by norm_num, by norm_num⟩)
      exact lt_of_le_of_ne (sq_nonneg _) (Ne.symm (pow_ne_zero 2 (sub_ne_zero.mpr (Ne.symm hc))))

/-- non-vacuity / sanity: in dimension 2 the kernel is `(e^κ − 1)/κ = ₁F₁(1; 2; κ)` -/
theorem watsonKernel_two (κ : ℝ) (hκ : κ ≠ 0) : watsonKernel 2 κ = (Real.exp κ - 1) / κ := by
  simp only [watsonKernel, Nat.cast_ofNat, Nat.sub_self, pow_zero, mul_one]
  norm_num
  rw [intervalIntegral.integral_comp_mul_left (fun x => Real.exp x) hκ]
  simp [div_eq_inv_mul]

/-- **Discharge of the `TangentAt` hypothesis of `watson_mstep_improves`**: if the concentration returned by the
M-step solves `watsonRatio D κ = λ` exactly, the tangent inequality holds for the true Watson log-normaliser. -/
theorem watson_tangent_exact (D : ℕ) (hD : 2 ≤ D) (C : ℝ) (kinv : ℝ → ℝ) (lam : ℝ)
    (hinv : watsonRatio D (kinv lam) = lam) : TangentAt (watsonLogNorm D C) (kinv lam) lam := by
  refine tangent_of_convex _ _ _ (watsonLogNorm_convex D hD C) ?_
  have h := watsonLogNorm_hasDerivAt D hD C (kinv lam)
  rwa [hinv] at h

end watsonInstance

section series
open Finset

/-- Beta integral at natural arguments: `∫₀¹ tⁿ (1−t)ᵐ dt = n! m! / (n+m+1)!` -/
theorem integral_pow_mul_one_sub_pow (n m : ℕ) :
    ∫ t in (0:ℝ)..1, t ^ n * (1 - t) ^ m = (n.factorial * m.factorial : ℝ) / (n + m + 1).factorial := by
  induction m generalizing n with
  | zero =>
    simp only [pow_zero, mul_one, integral_pow, one_pow, zero_pow (Nat.succ_ne_zero n), sub_zero,
      Nat.factorial_zero, Nat.cast_one, add_zero, Nat.factorial_succ, Nat.cast_mul]
    have : (n.factorial : ℝ) ≠ 0 := by positivity
    push_cast
    field_simp
  | succ m ih =>
    have hd : ∀ x ∈ uIcc (0:ℝ) 1, HasDerivAt (fun t : ℝ => t ^ (n + 1) * (1 - t) ^ (m + 1))
        (((n : ℝ) + 1) * (x ^ n * (1 - x) ^ (m + 1)) - ((m : ℝ) + 1) * (x ^ (n + 1) * (1 - x) ^ m)) x := by
      intro x _
      have := (hasDerivAt_pow (n + 1) x).fun_mul (((hasDerivAt_id' x).const_sub 1).fun_pow (m + 1))
      refine this.congr_deriv ?_
      simp only [Nat.add_sub_cancel]; push_cast; ring
    have hi := intervalIntegral.integral_eq_sub_of_hasDerivAt hd (Continuous.intervalIntegrable (by fun_prop) _ _)
    rw [intervalIntegral.integral_sub (Continuous.intervalIntegrable (by fun_prop) _ _)
      (Continuous.intervalIntegrable (by fun_prop) _ _), intervalIntegral.integral_const_mul,
      intervalIntegral.integral_const_mul, ih (n + 1)] at hi
    simp only [one_pow, sub_self, zero_pow (Nat.succ_ne_zero _), mul_zero, zero_mul] at hi
    have h1 : ((n : ℝ) + 1) ≠ 0 := by positivity
    have h2 : (((n + 1 + m + 1).factorial : ℕ) : ℝ) ≠ 0 := by positivity
    have e : n + (m + 1) + 1 = n + 1 + m + 1 := by ring
    rw [e]
    have hi' : ((n : ℝ) + 1) * ∫ t in (0:ℝ)..1, t ^ n * (1 - t) ^ (m + 1)
        = ((m : ℝ) + 1) * (((n + 1).factorial * m.factorial : ℝ) / (n + 1 + m + 1).factorial) := by
      linarith
    rw [Nat.factorial_succ n, Nat.factorial_succ m] at *
    push_cast at hi' ⊢
    field_simp at hi' ⊢
    linarith

theorem factorial_mul_prod_range (k n : ℕ) :
    ((k + 1).factorial : ℝ) * ∏ j ∈ range n, (((k + 2 : ℕ) : ℝ) + j) = (n + k + 1).factorial := by
  induction n with
  | zero => simp
  | succ n ih =>
    rw [prod_range_succ, ← mul_assoc, ih]
    have : n + 1 + k + 1 = (n + k + 1) + 1 := by ring
    rw [this, Nat.factorial_succ (n + k + 1)]
    push_cast; ring

/-- moments of the Beta(1, D−1) weight -/
theorem watson_moment (D : ℕ) (hD : 2 ≤ D) (n : ℕ) :
    ∫ t in (0:ℝ)..1, t ^ n * ((D - 1 : ℝ) * (1 - t) ^ (D - 2))
      = (n.factorial : ℝ) / ∏ j ∈ range n, ((D : ℝ) + j) := by
  obtain ⟨k, rfl⟩ : ∃ k, D = k + 2 := ⟨D - 2, by omega⟩
  simp only [Nat.add_sub_cancel]
  have : ∀ t : ℝ, t ^ n * ((((k + 2 : ℕ) : ℝ) - 1) * (1 - t) ^ k) = ((k : ℝ) + 1) * (t ^ n * (1 - t) ^ k) := by
    intro t; push_cast; ring
  simp only [this]
  rw [intervalIntegral.integral_const_mul, integral_pow_mul_one_sub_pow, ← factorial_mul_prod_range k n,
    Nat.factorial_succ k]
  have h1 : (k.factorial : ℝ) ≠ 0 := by positivity
  have h2 : (∏ j ∈ range n, (((k + 2 : ℕ) : ℝ) + j)) ≠ 0 := by
    refine prod_ne_zero_iff.mpr fun j _ => ?_
    positivity
  push_cast at h2 ⊢
  field_simp

/-- **the kernel is the confluent hypergeometric series** `₁F₁(1; D; κ) = Σₙ κⁿ / (D)ₙ`
(`(D)ₙ = D (D+1) ⋯ (D+n−1)` the rising factorial; `(1)ₙ / n! = 1`) -/
theorem watsonKernel_hasSum (D : ℕ) (hD : 2 ≤ D) (κ : ℝ) :
    HasSum (fun n : ℕ => κ ^ n / ∏ j ∈ range n, ((D : ℝ) + j)) (watsonKernel D κ) := by
  have hD' : (2:ℝ) ≤ D := by exact_mod_cast hD
  have key := intervalIntegral.hasSum_integral_of_dominated_convergence (μ := volume) (a := (0:ℝ)) (b := 1)
    (F := fun (n : ℕ) (t : ℝ) => (κ * t) ^ n / n.factorial * ((D - 1 : ℝ) * (1 - t) ^ (D - 2)))
    (f := fun t => Real.exp (κ * t) * ((D - 1 : ℝ) * (1 - t) ^ (D - 2)))
    (fun n _ => |κ| ^ n / n.factorial * (D - 1 : ℝ))
    (fun n => (Continuous.aestronglyMeasurable (by fun_prop))) ?_ ?_ ?_ ?_
  · unfold watsonKernel
    have e : (fun n : ℕ => κ ^ n / ∏ j ∈ range n, ((D : ℝ) + j))
        = fun n : ℕ => ∫ t in (0:ℝ)..1, (κ * t) ^ n / n.factorial * ((D - 1 : ℝ) * (1 - t) ^ (D - 2)) := by
      funext n
      have : ∀ t : ℝ, (κ * t) ^ n / n.factorial * ((D - 1 : ℝ) * (1 - t) ^ (D - 2))
          = (κ ^ n / n.factorial) * (t ^ n * ((D - 1 : ℝ) * (1 - t) ^ (D - 2))) := by
        intro t; rw [mul_pow]; ring
      simp only [this]
      rw [intervalIntegral.integral_const_mul, watson_moment D hD]
      have h1 : (n.factorial : ℝ) ≠ 0 := by positivity
      field_simp
    rw [e]; exact key
  · intro n
    refine Filter.Eventually.of_forall fun t ht => ?_
    rw [uIoc_of_le zero_le_one] at ht
    have ht0 : 0 ≤ 1 - t := by linarith [ht.2]
    have ht1 : 1 - t ≤ 1 := by linarith [ht.1]
    rw [norm_mul, norm_div, norm_pow, Real.norm_eq_abs, Real.norm_eq_abs, Real.norm_eq_abs, abs_mul, abs_mul,
      abs_of_nonneg (by linarith : (0:ℝ) ≤ D - 1), abs_of_nonneg (pow_nonneg ht0 _),
      abs_of_nonneg (by positivity : (0:ℝ) ≤ (n.factorial : ℝ)), abs_of_pos ht.1]
    have h1 : (|κ| * t) ^ n ≤ |κ| ^ n :=
      pow_le_pow_left₀ (mul_nonneg (abs_nonneg _) ht.1.le) (by nlinarith [abs_nonneg κ, ht.1, ht.2]) n
    have h2 : (1 - t) ^ (D - 2) ≤ 1 := pow_le_one₀ ht0 ht1
    have h3 : (0:ℝ) ≤ D - 1 := by linarith
    gcongr
    nlinarith [pow_nonneg ht0 (D - 2)]
  · exact Filter.Eventually.of_forall fun t _ => (Real.summable_pow_div_factorial |κ|).mul_right _
  · exact intervalIntegrable_const
  · refine Filter.Eventually.of_forall fun t _ => ?_
    have := NormedSpace.expSeries_div_hasSum_exp (κ * t)
    rw [← Real.exp_eq_exp_ℝ] at this
    exact this.mul_right _

theorem watsonKernel_eq_tsum (D : ℕ) (hD : 2 ≤ D) (κ : ℝ) :
    watsonKernel D κ = ∑' n : ℕ, κ ^ n / ∏ j ∈ range n, ((D : ℝ) + j) :=
  (watsonKernel_hasSum D hD κ).tsum_eq.symm

end series

section mstep
open PbBss PbBss.Em
variable {D N : Nat}

/-- **Watson M-step with the exact log-normaliser** `lnorm = C + log ₁F₁(1; D; ·)`: the `TangentAt` contract of
`watson_mstep_improves` is replaced by "the concentration returned for the top eigenvalue `λ` solves
`watsonRatio D κ = λ` exactly" (`D` is the model dimension, `2 ≤ D`; `C = log(2 π^D / (D−1)!)` in the code, any
constant works). -/
theorem watson_mstep_improves_exact (hD : 2 ≤ D) (C : ℝ) (pca : Tab D (Tab D ℂ) → Tab D ℂ × ℝ)
    (kinv : ℝ → ℝ) (c aux : Fin N → ℝ) (z : Fin N → Fin D → ℂ) (θ : Watson ℝ ℂ D) (hC : 0 < ∑ n, c n)
    (hunit : ∑ d, Complex.normSq (rd θ.mode d) = 1) (hk : 0 ≤ θ.kappa)
    (hln : θ.logNorm = watsonLogNorm D C θ.kappa)
    (hpca : PcaContract (rd2 (watsonScatter c z)) (pca (watsonScatter c z)))
    (hinv : watsonRatio D (kinv (pca (watsonScatter c z)).2) = (pca (watsonScatter c z)).2) :
    compQ (watsonFamily D pca kinv (watsonLogNorm D C)) c z θ
      ≤ compQ (watsonFamily D pca kinv (watsonLogNorm D C)) c z
          ((watsonFamily D pca kinv (watsonLogNorm D C)).mstep N c aux z) :=
  watson_mstep_improves pca kinv (watsonLogNorm D C) c aux z θ hC hunit hk hln hpca
    (watson_tangent_exact D hD C kinv _ hinv)

end mstep

section examples

/-- non-vacuity: `hinv` is satisfiable — at `κ = 0` with `λ = 1/2` in dimension 2 -/
example : watsonRatio 2 ((fun _ : ℝ => (0:ℝ)) (1/2)) = 1/2 := by
  simpa using watsonRatio_zero 2 le_rfl

example : TangentAt (watsonLogNorm 2 0) 0 (1/2) :=
  watson_tangent_exact 2 le_rfl 0 (fun _ => 0) (1/2) (by simpa using watsonRatio_zero 2 le_rfl)

example : watsonKernel 2 0 = 1 := watsonKernel_zero 2 le_rfl

example : watsonKernel 2 1 = Real.exp 1 - 1 := by
  rw [watsonKernel_two 1 one_ne_zero, div_one]

/-- the exact inverse exists for every `λ` in the range of the ratio and is then unique -/
example (D : ℕ) (hD : 2 ≤ D) (κ₁ κ₂ : ℝ) (h : watsonRatio D κ₁ = watsonRatio D κ₂) : κ₁ = κ₂ :=
  (watsonRatio_strictMono D hD).injective h

end examples

end PbBss.EmProof

import PbBss.Model.Basic
import Mathlib.Analysis.SpecialFunctions.Log.Basic
import Mathlib.Analysis.SpecialFunctions.Sqrt
import Mathlib.Algebra.BigOperators.Fin
import Mathlib.Analysis.Complex.Basic
/-! The proof-side interpretation of the generic scalar layer: `α := ℝ`, `β := ℂ`, and the bridge from the
executable folds (`vsum`, `vmax`) to Mathlib's `Finset.sum` / order lemmas. -/
open PbBss

noncomputable instance : Transc ℝ := ⟨Real.exp, Real.log, Real.sqrt⟩
noncomputable instance : CxOps ℝ ℂ := ⟨Complex.re, Complex.im, starRingEnd ℂ, Complex.ofReal⟩

@[simp] theorem transc_exp_real (x : ℝ) : Transc.exp x = Real.exp x := rfl
@[simp] theorem transc_log_real (x : ℝ) : Transc.log x = Real.log x := rfl
@[simp] theorem transc_sqrt_real (x : ℝ) : Transc.sqrt x = Real.sqrt x := rfl
@[simp] theorem cx_re (z : ℂ) : CxOps.re (α := ℝ) z = z.re := rfl
@[simp] theorem cx_im (z : ℂ) : CxOps.im (α := ℝ) z = z.im := rfl
@[simp] theorem cx_conj (z : ℂ) : CxOps.conj (α := ℝ) z = starRingEnd ℂ z := rfl
@[simp] theorem cx_ofReal (x : ℝ) : (CxOps.ofReal x : ℂ) = (x : ℂ) := rfl

theorem vsum_eq_sum {M : Type} [AddCommMonoid M] {n : Nat} (f : Fin n → M) : vsum f = ∑ i, f i := by
  unfold vsum
  induction n with
  | zero => simp [Fin.foldl_zero]
  | succ n ih =>
    rw [Fin.foldl_succ_last, Fin.sum_univ_castSucc]
    simp only [ih]

theorem vmax_ge {L : Type} [LinearOrder L] {n : Nat} (f : Fin (n+1) → L) (k : Fin (n+1)) : f k ≤ vmax f := by
  unfold vmax
  induction n with
  | zero =>
    simp [Fin.foldl_zero]
    have : k = 0 := by omega
    simp [this]
  | succ n ih =>
    rw [Fin.foldl_succ_last]
    rcases Fin.eq_castSucc_or_eq_last k with ⟨j, rfl⟩ | rfl
    · have := ih (fun i => f i.castSucc) j
      simp only [Fin.succ_castSucc] at *
      exact le_trans (by simpa using this) (le_max_left _ _)
    · exact le_max_right _ _

theorem vmax_mem {L : Type} [LinearOrder L] {n : Nat} (f : Fin (n+1) → L) : ∃ k, vmax f = f k := by
  unfold vmax
  induction n with
  | zero => exact ⟨0, by simp [Fin.foldl_zero]⟩
  | succ n ih =>
    rw [Fin.foldl_succ_last]
    obtain ⟨j, hj⟩ := ih (fun i => f i.castSucc)
    have hj' : Fin.foldl n (fun acc i => max acc (f i.castSucc.succ)) (f 0) = f j.castSucc := hj
    rcases max_cases (Fin.foldl n (fun acc i => max acc (f i.castSucc.succ)) (f 0)) (f (Fin.last n).succ) with h | h
    · exact ⟨j.castSucc, by rw [h.1]; exact hj'⟩
    · exact ⟨(Fin.last n).succ, h.1⟩

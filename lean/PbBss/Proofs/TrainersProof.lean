import PbBss.Model.Trainers
import PbBss.Proofs.RealInst
import Mathlib.Tactic
import Mathlib.Algebra.BigOperators.Fin
import Mathlib.Algebra.Order.BigOperators.Group.Finset
import Mathlib.Data.Fintype.BigOperators
import Mathlib.LinearAlgebra.Matrix.PosDef
import Mathlib.LinearAlgebra.Matrix.NonsingularInverse
import Mathlib.Analysis.Complex.Order
import Mathlib.Analysis.SpecialFunctions.Log.Basic
/-! Lemmas about the trainer models over ℝ / ℂ (helper file of `Props/C08.lean`, `Props/C09.lean`). -/
namespace PbBss.Trainers
open PbBss PbBss.Align Finset

/-! ### unfolding lemmas: the folds are `Finset` sums -/
section unfold
variable {N D : Nat}

theorem wOf_some (s : Fin N → ℝ) (n : Fin N) : wOf (some s) n = s n := rfl
theorem wOf_none (n : Fin N) : wOf (α := ℝ) (none : Option (Fin N → ℝ)) n = 1 := rfl

theorem denFloor_some (tiny : ℝ) (s : Fin N → ℝ) (hs : tiny ≤ ∑ n, s n) :
    denFloor tiny (some s) = ∑ n, s n := by
  simp [denFloor, vsum_eq_sum, max_eq_left hs]

theorem denFloor_none (tiny : ℝ) : denFloor (N := N) tiny (none : Option (Fin N → ℝ)) = (N : ℝ) := rfl

theorem gaussMean_eq (tiny : ℝ) (sal : Option (Fin N → ℝ)) (y : Fin N → Fin D → ℝ) (d : Fin D) :
    gaussMean tiny sal y d = (∑ n, wOf sal n * y n d) / denFloor tiny sal := by
  simp [gaussMean, vsum_eq_sum]

theorem gaussCovFull_eq (tiny : ℝ) (sal : Option (Fin N → ℝ)) (y : Fin N → Fin D → ℝ) (d e : Fin D) :
    gaussCovFull tiny sal y d e =
      (∑ n, wOf sal n * (y n d - gaussMean tiny sal y d) * (y n e - gaussMean tiny sal y e)) / denFloor tiny sal := by
  simp [gaussCovFull, vsum_eq_sum]

theorem gaussCovDiag_eq (tiny : ℝ) (sal : Option (Fin N → ℝ)) (y : Fin N → Fin D → ℝ) (d : Fin D) :
    gaussCovDiag tiny sal y d = gaussCovFull tiny sal y d d := by
  simp [gaussCovDiag, gaussCovFull]

theorem gaussCovSph_eq (tiny : ℝ) (sal : Option (Fin N → ℝ)) (y : Fin N → Fin D → ℝ) :
    gaussCovSph tiny sal y = (∑ d, gaussCovFull tiny sal y d d) / (D : ℝ) := by
  simp only [gaussCovSph, gaussCovFull, vsum_eq_sum, at1_tab1]
  rw [Finset.sum_comm, ← Finset.sum_div, div_div]
end unfold

/-! ### the weighted mean minimises the weighted sum of squares -/
theorem wmean_min_1d {N : Nat} (s y : Fin N → ℝ) (hS : 0 < ∑ n, s n) (m : ℝ) :
    ∑ n, s n * (y n - (∑ n, s n * y n) / ∑ n, s n) ^ 2 ≤ ∑ n, s n * (y n - m) ^ 2 := by
  set S := ∑ n, s n with hSdef
  set μ := (∑ n, s n * y n) / S with hμ
  have hμS : μ * S = ∑ n, s n * y n := by rw [hμ]; field_simp
  have key : ∑ n, s n * (y n - m) ^ 2 = ∑ n, s n * (y n - μ) ^ 2 + S * (μ - m) ^ 2 := by
    have h1 : ∀ n, s n * (y n - m) ^ 2 =
        s n * (y n - μ) ^ 2 + (μ - m) ^ 2 * s n + 2 * (μ - m) * (s n * y n - μ * s n) := by
      intro n; ring
    simp_rw [h1, Finset.sum_add_distrib, ← Finset.mul_sum, Finset.sum_sub_distrib, ← Finset.mul_sum]
    rw [← hSdef, ← hμS]; ring
  rw [key]
  have : 0 ≤ S * (μ - m) ^ 2 := mul_nonneg hS.le (sq_nonneg _)
  linarith

/-! ### clip -/
theorem clip_mem (x lo hi : ℝ) (h : lo ≤ hi) : lo ≤ clip x lo hi ∧ clip x lo hi ≤ hi := by
  unfold clip
  exact ⟨le_min (le_max_right _ _) h, min_le_right _ _⟩

theorem clip_of_mem (x lo hi : ℝ) (h1 : lo ≤ x) (h2 : x ≤ hi) : clip x lo hi = x := by
  unfold clip
  rw [max_eq_left h1, min_eq_left h2]

/-! ### von Mises-Fisher -/
theorem vecNorm_eq {D : Nat} (r : Fin D → ℝ) : vecNorm r = Real.sqrt (∑ d, r d * r d) := by
  simp [vecNorm, vsum_eq_sum]

theorem vecNorm_sq {D : Nat} (r : Fin D → ℝ) : vecNorm r ^ 2 = ∑ d, r d ^ 2 := by
  rw [vecNorm_eq, Real.sq_sqrt (Finset.sum_nonneg fun d _ => mul_self_nonneg _)]
  simp [sq]

theorem vmfMean_unit {D : Nat} (tiny : ℝ) (ht : 0 < tiny) (r : Fin D → ℝ) (hr : tiny ≤ vecNorm r) :
    ∑ d, vmfMean tiny r d ^ 2 = 1 := by
  have hpos : 0 < vecNorm r := lt_of_lt_of_le ht hr
  simp only [vmfMean, max_eq_left hr, div_pow]
  rw [← Finset.sum_div, ← vecNorm_sq]
  exact div_self (pow_ne_zero _ hpos.ne')

/-! ### cACG eigenvalue post-processing -/
theorem cacgEigsEigenvalue_range {D : Nat} (tiny floor : ℝ) (lam : Fin (D+1) → ℝ)
    (hmax : tiny ≤ vmax lam) (ht : 0 < tiny) (hf1 : floor ≤ 1) :
    (∀ i, floor ≤ cacgEigsEigenvalue tiny floor lam i ∧ cacgEigsEigenvalue tiny floor lam i ≤ 1) ∧
    ∃ i, cacgEigsEigenvalue tiny floor lam i = 1 := by
  have hpos : 0 < vmax lam := lt_of_lt_of_le ht hmax
  constructor
  · intro i
    simp only [cacgEigsEigenvalue, max_eq_left hmax]
    refine ⟨le_max_right _ _, max_le ?_ hf1⟩
    rw [div_le_one hpos]
    exact vmax_ge lam i
  · obtain ⟨k, hk⟩ := vmax_mem lam
    refine ⟨k, ?_⟩
    simp only [cacgEigsEigenvalue, max_eq_left hmax]
    rw [← hk, div_self hpos.ne', max_eq_left hf1]

theorem cacgEigsRelative_ge {D : Nat} (tiny floor : ℝ) (lam : Fin (D+1) → ℝ) (i : Fin (D+1)) :
    lam i ≤ cacgEigsRelative tiny floor lam i ∧ vmax lam * floor ≤ cacgEigsRelative tiny floor lam i ∧
      tiny ≤ cacgEigsRelative tiny floor lam i := by
  simp only [cacgEigsRelative]
  exact ⟨le_max_left _ _, le_trans (le_max_left _ _) (le_max_right _ _), le_trans (le_max_right _ _) (le_max_right _ _)⟩

theorem cacgEigsRelative_le {D : Nat} (tiny floor : ℝ) (ht : 0 < tiny) (lam : Fin (D+1) → ℝ) (i : Fin (D+1)) :
    cacgEigsRelative tiny floor lam i ≤ max (lam i) 0 + max (vmax lam * floor) tiny := by
  simp only [cacgEigsRelative]
  have hfl : 0 < max (vmax lam * floor) tiny := lt_of_lt_of_le ht (le_max_right _ _)
  have h0 : lam i ≤ max (lam i) 0 := le_max_left _ _
  have h1 : 0 ≤ max (lam i) 0 := le_max_right _ _
  rcases le_total (lam i) (max (vmax lam * floor) tiny) with h | h
  · rw [max_eq_right h]; linarith
  · rw [max_eq_left h]; linarith

/-! ### L1 renormalisation of the tied sums -/
theorem l1Where_sum_one {K : Nat} (eps : ℝ) (S : Fin K → ℝ) (hS : ∀ k, 0 ≤ S k) (hpos : 0 < ∑ k, S k) :
    (∀ k, 0 ≤ l1Where eps S k) ∧ ∑ k, l1Where eps S k = 1 ∧ ∀ k, l1Where eps S k = S k / ∑ k, S k := by
  have habs : (vsum fun k => absR (S k)) = ∑ k, S k := by
    rw [vsum_eq_sum]
    apply Finset.sum_congr rfl
    intro k _
    simp [absR, not_lt.mpr (hS k)]
  have hform : ∀ k, l1Where eps S k = S k / ∑ k, S k := by
    intro k
    simp only [l1Where, habs, not_lt.mpr hpos.le, hpos, if_true, if_false]
  refine ⟨fun k => ?_, ?_, hform⟩
  · rw [hform]; exact div_nonneg (hS k) hpos.le
  · simp_rw [hform]; rw [← Finset.sum_div]; exact div_self hpos.ne'

theorem l1Plain_sum_one {K : Nat} (tiny : ℝ) (S : Fin K → ℝ) (hS : ∀ k, 0 ≤ S k) (ht : 0 < tiny)
    (hpos : tiny ≤ ∑ k, S k) :
    (∀ k, 0 ≤ l1Plain tiny S k) ∧ ∑ k, l1Plain tiny S k = 1 := by
  have hp : 0 < ∑ k, S k := lt_of_lt_of_le ht hpos
  have hform : ∀ k, l1Plain tiny S k = S k / ∑ k, S k := by
    intro k; simp only [l1Plain, vsum_eq_sum, max_eq_left hpos]
  refine ⟨fun k => ?_, ?_⟩
  · rw [hform]; exact div_nonneg (hS k) hp.le
  · simp_rw [hform]; rw [← Finset.sum_div]; exact div_self hp.ne'

theorem weightMeanT_simplex {K T : Nat} (aff : Fin K → Fin T → ℝ) (hT : 0 < T) (h0 : ∀ k t, 0 ≤ aff k t)
    (δ : ℝ) (h1 : ∀ t, |∑ k, aff k t - 1| ≤ δ) :
    (∀ k, 0 ≤ weightMeanT aff k) ∧ |∑ k, weightMeanT aff k - 1| ≤ δ := by
  have hTr : (0 : ℝ) < T := by exact_mod_cast hT
  constructor
  · intro k
    simp only [weightMeanT, vsum_eq_sum]
    exact div_nonneg (Finset.sum_nonneg fun t _ => h0 k t) hTr.le
  · simp only [weightMeanT, vsum_eq_sum]
    rw [← Finset.sum_div, Finset.sum_comm]
    have : (∑ t : Fin T, ∑ k, aff k t) / (T : ℝ) - 1 = (∑ t : Fin T, (∑ k, aff k t - 1)) / T := by
      rw [Finset.sum_sub_distrib]; simp; field_simp
    rw [this, abs_div, abs_of_pos hTr, div_le_iff₀ hTr]
    calc |∑ t : Fin T, (∑ k, aff k t - 1)| ≤ ∑ t : Fin T, |∑ k, aff k t - 1| := Finset.abs_sum_le_sum_abs _ _
      _ ≤ ∑ _t : Fin T, δ := Finset.sum_le_sum fun t _ => h1 t
      _ = δ * T := by simp [mul_comm]

/-! ### the iteration skeleton -/
theorem emLoop_some {Γ Θ : Type} (mStep : Γ → Θ) (eStep : Θ → Γ) (n : Nat) (g : Γ) (θ : Θ) :
    emLoop mStep eStep n g (some θ) = some ((mStep ∘ eStep)^[n] θ) := by
  induction n generalizing g θ with
  | zero => rfl
  | succ n ih =>
    simp only [emLoop, Function.iterate_succ, Function.comp_apply]
    rw [ih]

theorem emFit_succ {Γ Θ : Type} (mStep : Γ → Θ) (eStep : Θ → Γ) (n : Nat) (g0 : Γ) :
    emFit mStep eStep (n+1) g0 = some ((mStep ∘ eStep)^[n] (mStep g0)) := by
  simp only [emFit, emLoop]
  exact emLoop_some mStep eStep n g0 (mStep g0)



/-! ### integer saliency = repetition -/
theorem sum_rep {M : Type} [AddCommMonoid M] {N R : Nat} (s : Fin N → ℕ) (rep : Fin R → Fin N)
    (hrep : ∀ n, (univ.filter fun m => rep m = n).card = s n) (g : Fin N → M) :
    ∑ m, g (rep m) = ∑ n, s n • g n := by
  rw [← Finset.sum_fiberwise (s := univ) (g := rep) (f := fun m => g (rep m))]
  apply Finset.sum_congr rfl
  intro n _
  rw [← hrep n, ← Finset.sum_const]
  apply Finset.sum_congr rfl
  intro m hm
  simp only [Finset.mem_filter] at hm
  rw [hm.2]

theorem sum_rep_real {N R : Nat} (s : Fin N → ℕ) (rep : Fin R → Fin N)
    (hrep : ∀ n, (univ.filter fun m => rep m = n).card = s n) (g : Fin N → ℝ) :
    ∑ m, g (rep m) = ∑ n, (s n : ℝ) * g n := by
  rw [sum_rep s rep hrep]; simp [nsmul_eq_mul]

theorem sum_rep_complex {N R : Nat} (s : Fin N → ℕ) (rep : Fin R → Fin N)
    (hrep : ∀ n, (univ.filter fun m => rep m = n).card = s n) (g : Fin N → ℂ) :
    ∑ m, g (rep m) = ∑ n, ((s n : ℝ) : ℂ) * g n := by
  rw [sum_rep s rep hrep]; simp [nsmul_eq_mul]

theorem card_rep {N R : Nat} (s : Fin N → ℕ) (rep : Fin R → Fin N)
    (hrep : ∀ n, (univ.filter fun m => rep m = n).card = s n) : (R : ℝ) = ∑ n, (s n : ℝ) := by
  have := sum_rep_real s rep hrep (fun _ => 1)
  simpa using this

/-- the canonical repetition map of `np.repeat(y, s, axis=0)`: frame `n` occupies `s n` consecutive rows -/
noncomputable def repeatIndex {N : Nat} (s : Fin N → ℕ) : Fin (∑ n, s n) → Fin N :=
  fun m => (finSigmaFinEquiv.symm m).1

theorem repeatIndex_card {N : Nat} (s : Fin N → ℕ) (n : Fin N) :
    (univ.filter fun m => repeatIndex s m = n).card = s n := by
  unfold repeatIndex
  have : (univ.filter fun m : Fin (∑ n, s n) => (finSigmaFinEquiv.symm m).1 = n).card
      = (univ.filter fun x : (Σ i : Fin N, Fin (s i)) => x.1 = n).card := by
    apply Finset.card_bij (fun m _ => finSigmaFinEquiv.symm m)
    · intro m hm; simpa using hm
    · intro a _ b _ h; exact finSigmaFinEquiv.symm.injective h
    · intro x hx; exact ⟨finSigmaFinEquiv x, by simpa using hx, by simp⟩
  rw [this]
  have : (univ.filter fun x : (Σ i : Fin N, Fin (s i)) => x.1 = n) = (univ : Finset (Fin (s n))).map ⟨fun j => ⟨n, j⟩, fun a b h => by simpa using h⟩ := by
    ext ⟨i, j⟩
    simp only [mem_filter, mem_univ, true_and, mem_map]
    constructor
    · rintro rfl; exact ⟨j, rfl⟩
    · rintro ⟨j', h⟩; exact (Sigma.mk.inj_iff.mp h).1.symm
  rw [this, Finset.card_map]; simp


section
variable {N R D : Nat} (s : Fin N → ℕ) (rep : Fin R → Fin N)
  (hrep : ∀ n, (univ.filter fun m => rep m = n).card = s n)
include hrep

/-- Gaussian mean: integer saliency = repetition -/
theorem gaussMean_repeat (tiny : ℝ) (hs : tiny ≤ ∑ n, (s n : ℝ)) (y : Fin N → Fin D → ℝ) (d : Fin D) :
    gaussMean tiny (some fun n => (s n : ℝ)) y d = gaussMean tiny none (fun m => y (rep m)) d := by
  rw [gaussMean_eq, gaussMean_eq, denFloor_some _ _ hs, denFloor_none, card_rep s rep hrep]
  simp only [wOf_some, wOf_none, one_mul]
  rw [sum_rep_real s rep hrep (fun n => y n d)]

theorem gaussCovFull_repeat (tiny : ℝ) (hs : tiny ≤ ∑ n, (s n : ℝ)) (y : Fin N → Fin D → ℝ) (d e : Fin D) :
    gaussCovFull tiny (some fun n => (s n : ℝ)) y d e = gaussCovFull tiny none (fun m => y (rep m)) d e := by
  rw [gaussCovFull_eq, gaussCovFull_eq, denFloor_some _ _ hs, denFloor_none, card_rep s rep hrep]
  simp only [wOf_some, wOf_none, one_mul, ← gaussMean_repeat s rep hrep tiny hs y]
  rw [sum_rep_real s rep hrep (fun n => (y n d - gaussMean tiny (some fun n => (s n : ℝ)) y d) *
    (y n e - gaussMean tiny (some fun n => (s n : ℝ)) y e))]
  congr 1
  apply Finset.sum_congr rfl
  intro n _; ring

theorem vmfResultant_repeat (z : Fin N → Fin D → ℝ) (d : Fin D) :
    vmfResultant (some fun n => (s n : ℝ)) z d = vmfResultant none (fun m => z (rep m)) d := by
  simp only [vmfResultant, vsum_eq_sum, wOf_some, wOf_none, one_mul]
  rw [sum_rep_real s rep hrep (fun n => z n d)]

theorem vmfRbar_repeat (r : Fin D → ℝ) :
    vmfRbar (N := N) (some fun n => (s n : ℝ)) r = vmfRbar (N := R) none r := by
  simp only [vmfRbar, vsum_eq_sum, wOf_some, wOf_none]
  congr 2
  rw [← card_rep s rep hrep]; simp

theorem cgaussCov_repeat (tiny : ℝ) (hs : tiny ≤ ∑ n, (s n : ℝ)) (y : Fin N → Fin D → ℂ) (d e : Fin D) :
    cgaussCov tiny (some fun n => (s n : ℝ)) y d e = cgaussCov tiny none (fun m => y (rep m)) d e := by
  simp only [cgaussCov, vsum_eq_sum, wOf_some, wOf_none, cx_ofReal, cx_conj]
  rw [denFloor_some _ _ hs, denFloor_none, card_rep s rep hrep]
  simp only [Complex.ofReal_one, one_mul]
  rw [sum_rep_complex s rep hrep (fun n => y n d * (starRingEnd ℂ) (y n e))]
  congr 1
  apply Finset.sum_congr rfl
  intro n _; ring

theorem scatterPlain_repeat (z : Fin N → Fin D → ℂ) (d e : Fin D) :
    scatterPlain (some fun n => (s n : ℝ)) z d e = scatterPlain (α := ℝ) none (fun m => z (rep m)) d e := by
  simp only [scatterPlain, denPlain, vsum_eq_sum, wOf_some, wOf_none, cx_ofReal, cx_conj]
  rw [card_rep s rep hrep]
  simp only [Complex.ofReal_one, one_mul]
  rw [sum_rep_complex s rep hrep (fun n => z n d * (starRingEnd ℂ) (z n e))]
  congr 1
  apply Finset.sum_congr rfl
  intro n _; ring

theorem cacgCov_repeat (tiny qfloor : ℝ) (q : Fin N → ℝ) (z : Fin N → Fin D → ℂ) (d e : Fin D) :
    cacgCov tiny qfloor (some fun n => (s n : ℝ)) q z d e =
      cacgCov tiny qfloor none (fun m => q (rep m)) (fun m => z (rep m)) d e := by
  simp only [cacgCov, denPlain, vsum_eq_sum, wOf_some, wOf_none, cx_ofReal, cx_conj]
  rw [card_rep s rep hrep]
  rw [sum_rep_complex s rep hrep (fun n => z n d * (starRingEnd ℂ) (z n e) * ((1 / max (q n) qfloor : ℝ) : ℂ))]
  congr 2
  apply Finset.sum_congr rfl
  intro n _
  push_cast
  ring
end



/-- the recorded contract of `np.linalg.eigh` (DESIGN.md 2.1): `U` unitary, `A U = U diag(λ)`, `λ` ascending -/
structure EighContract {n : Nat} (A : Fin n → Fin n → ℂ) (E : Eig ℝ ℂ n) : Prop where
  orthonormal : ∀ i j, ∑ d, (starRingEnd ℂ) (E.vecs d i) * E.vecs d j = if i = j then 1 else 0
  complete : ∀ d e, ∑ i, E.vecs d i * (starRingEnd ℂ) (E.vecs e i) = if d = e then 1 else 0
  eigen : ∀ d i, ∑ e, A d e * E.vecs e i = (E.vals i : ℂ) * E.vecs d i
  ascending : ∀ i j, i ≤ j → E.vals i ≤ E.vals j

theorem eigCovariance_eq {n : Nat} (m : Eig ℝ ℂ n) (d e : Fin n) :
    eigCovariance m d e = ∑ i, m.vecs d i * (m.vals i : ℂ) * (starRingEnd ℂ) (m.vecs e i) := by
  simp [eigCovariance, vsum_eq_sum]

/-- `A = U diag(λ) Uᴴ` -/
theorem eig_reconstruct {n : Nat} {A : Fin n → Fin n → ℂ} {E : Eig ℝ ℂ n} (h : EighContract A E) (d e : Fin n) :
    eigCovariance E d e = A d e := by
  rw [eigCovariance_eq]
  have h1 : ∀ i, E.vecs d i * (E.vals i : ℂ) * (starRingEnd ℂ) (E.vecs e i) =
      ∑ f, A d f * (E.vecs f i * (starRingEnd ℂ) (E.vecs e i)) := by
    intro i
    rw [mul_comm (E.vecs d i), ← h.eigen d i, Finset.sum_mul]
    apply Finset.sum_congr rfl; intro f _; ring
  simp_rw [h1]
  rw [Finset.sum_comm]
  simp_rw [← Finset.mul_sum, h.complete]
  simp

/-- trace = sum of the eigenvalues -/
theorem eig_trace {n : Nat} {A : Fin n → Fin n → ℂ} {E : Eig ℝ ℂ n} (h : EighContract A E) :
    ∑ d, A d d = ((∑ i, E.vals i : ℝ) : ℂ) := by
  simp_rw [← eig_reconstruct h, eigCovariance_eq]
  rw [Finset.sum_comm]
  have : ∀ i, ∑ d, E.vecs d i * (E.vals i : ℂ) * (starRingEnd ℂ) (E.vecs d i) = (E.vals i : ℂ) := by
    intro i
    have := h.orthonormal i i
    simp only [if_true] at this
    calc ∑ d, E.vecs d i * (E.vals i : ℂ) * (starRingEnd ℂ) (E.vecs d i)
        = (E.vals i : ℂ) * ∑ d, (starRingEnd ℂ) (E.vecs d i) * E.vecs d i := by
          rw [Finset.mul_sum]; apply Finset.sum_congr rfl; intro d _; ring
      _ = (E.vals i : ℂ) := by rw [this, mul_one]
  simp_rw [this]
  push_cast; rfl

/-- eigenvalue normalisation without active floor: the stored covariance is the scatter divided by its largest
eigenvalue -/
theorem fromCovariance_eigenvalue_cov {D : Nat} (tiny floor : ℝ) (eigh : (Fin (D+1) → Fin (D+1) → ℂ) → Eig ℝ ℂ (D+1))
    (C : Fin (D+1) → Fin (D+1) → ℂ) (hc : EighContract C (eigh C))
    (hmax : tiny ≤ vmax (eigh C).vals) (ht : 0 < tiny)
    (hfloor : ∀ i, floor ≤ (eigh C).vals i / vmax (eigh C).vals) (d e : Fin (D+1)) :
    eigCovariance (fromCovariance .eigenvalue tiny floor eigh C) d e = C d e / ((vmax (eigh C).vals : ℝ) : ℂ) := by
  have hpos : 0 < vmax (eigh C).vals := lt_of_lt_of_le ht hmax
  rw [← eig_reconstruct hc, eigCovariance_eq, eigCovariance_eq, Finset.sum_div]
  apply Finset.sum_congr rfl
  intro i _
  simp only [fromCovariance, cacgEigsEigenvalue, max_eq_left hmax, max_eq_left (hfloor i)]
  push_cast
  field_simp

open Matrix in
open scoped ComplexOrder in
/-- `U diag(e) Uᴴ` is Hermitian positive definite when `U` has orthonormal columns and all `e i > 0` -/
theorem eigCovariance_posDef {n : Nat} (m : Eig ℝ ℂ n)
    (horth : ∀ i j, ∑ d, (starRingEnd ℂ) (m.vecs d i) * m.vecs d j = if i = j then 1 else 0)
    (hpos : ∀ i, 0 < m.vals i) : (Matrix.of (eigCovariance m)).PosDef := by
  let U : Matrix (Fin n) (Fin n) ℂ := Matrix.of m.vecs
  have hU : Uᴴ * U = 1 := by
    ext i j
    simp only [mul_apply, conjTranspose_apply, U, of_apply, one_apply]
    simpa using horth i j
  have hU' : U * Uᴴ = 1 := mul_eq_one_comm.mp hU
  have hunit : IsUnit U := ⟨⟨U, Uᴴ, hU', hU⟩, rfl⟩
  have hinj : Function.Injective U.vecMul := Matrix.vecMul_injective_of_isUnit hunit
  have hdiag : (diagonal fun i => ((m.vals i : ℝ) : ℂ)).PosDef :=
    PosDef.diagonal fun i => by exact_mod_cast hpos i
  have h := hdiag.mul_mul_conjTranspose_same hinj
  have heq : Matrix.of (eigCovariance m) = U * (diagonal fun i => ((m.vals i : ℝ) : ℂ)) * Uᴴ := by
    ext d e
    rw [Matrix.mul_apply]
    simp only [of_apply, eigCovariance_eq, Matrix.mul_diagonal, conjTranspose_apply, U]
    rfl
  rw [heq]; exact h

/-- `ComplexWatsonTrainer._fit`: the mode is a unit-norm eigenvector of the scatter for the largest returned
eigenvalue, which is what enters the concentration -/
theorem watsonFit_spec {N D : Nat} (yLo yHi maxc : ℝ) (spl : ℝ → ℝ)
    (eigh : (Fin (D+1) → Fin (D+1) → ℂ) → Eig ℝ ℂ (D+1)) (sal : Option (Fin N → ℝ)) (z : Fin N → Fin (D+1) → ℂ)
    (hc : EighContract (scatterPlain sal z) (eigh (scatterPlain sal z))) :
    let E := eigh (scatterPlain sal z)
    let r := watsonFit yLo yHi maxc spl eigh sal z
    (∀ d, ∑ e, scatterPlain sal z d e * r.1 e = (E.vals (Fin.last D) : ℂ) * r.1 d) ∧
    (∑ d, (starRingEnd ℂ) (r.1 d) * r.1 d = 1) ∧
    (∀ i, E.vals i ≤ E.vals (Fin.last D)) ∧
    r.2 = watsonConcentration yLo yHi maxc spl (E.vals (Fin.last D)) := by
  intro E r
  refine ⟨fun d => hc.eigen d (Fin.last D), ?_, fun i => hc.ascending i _ (Fin.le_last i), rfl⟩
  have := hc.orthonormal (Fin.last D) (Fin.last D)
  simpa [r, watsonFit] using this




/-! ### Gaussian covariance: quadratic form, PSD, PD criterion -/
section gausspsd
variable {N D : Nat}

theorem gaussCovFull_symm (tiny : ℝ) (sal : Option (Fin N → ℝ)) (y : Fin N → Fin D → ℝ) (d e : Fin D) :
    gaussCovFull tiny sal y d e = gaussCovFull tiny sal y e d := by
  rw [gaussCovFull_eq, gaussCovFull_eq]
  congr 1
  apply Finset.sum_congr rfl; intro n _; ring

/-- `vᵀ C v = Σ_n w_n (v · (y_n − μ))² / denominator` -/
theorem gaussCovFull_quadForm (tiny : ℝ) (sal : Option (Fin N → ℝ)) (y : Fin N → Fin D → ℝ) (v : Fin D → ℝ) :
    ∑ d, ∑ e, v d * gaussCovFull tiny sal y d e * v e =
      (∑ n, wOf sal n * (∑ d, v d * (y n d - gaussMean tiny sal y d)) ^ 2) / denFloor tiny sal := by
  simp_rw [gaussCovFull_eq]
  set μ := gaussMean tiny sal y
  set den := denFloor tiny sal
  have h1 : ∀ d e, v d * ((∑ n, wOf sal n * (y n d - μ d) * (y n e - μ e)) / den) * v e =
      (∑ n, wOf sal n * ((v d * (y n d - μ d)) * (v e * (y n e - μ e)))) / den := by
    intro d e
    rw [mul_div_assoc', div_mul_eq_mul_div, Finset.mul_sum, Finset.sum_mul]
    congr 1
    apply Finset.sum_congr rfl; intro n _; ring
  simp_rw [h1, ← Finset.sum_div]
  congr 1
  have h2 : ∀ n, wOf sal n * (∑ d, v d * (y n d - μ d)) ^ 2 =
      ∑ d, ∑ e, wOf sal n * ((v d * (y n d - μ d)) * (v e * (y n e - μ e))) := by
    intro n
    rw [sq, Finset.sum_mul_sum, Finset.mul_sum]
    apply Finset.sum_congr rfl; intro d _
    rw [Finset.mul_sum]
  simp_rw [h2]
  rw [Finset.sum_comm (s := univ) (t := univ) (f := fun n d => ∑ e, wOf sal n * ((v d * (y n d - μ d)) * (v e * (y n e - μ e))))]
  apply Finset.sum_congr rfl; intro d _
  rw [Finset.sum_comm]

theorem gaussCovFull_psd (tiny : ℝ) (sal : Option (Fin N → ℝ)) (y : Fin N → Fin D → ℝ)
    (hw : ∀ n, 0 ≤ wOf sal n) (hden : 0 < denFloor tiny sal) (v : Fin D → ℝ) :
    0 ≤ ∑ d, ∑ e, v d * gaussCovFull tiny sal y d e * v e := by
  rw [gaussCovFull_quadForm]
  exact div_nonneg (Finset.sum_nonneg fun n _ => mul_nonneg (hw n) (sq_nonneg _)) hden.le

/-- positive definite iff no non-zero direction is orthogonal to all positively weighted centred observations -/
theorem gaussCovFull_posDef_iff (tiny : ℝ) (sal : Option (Fin N → ℝ)) (y : Fin N → Fin D → ℝ)
    (hw : ∀ n, 0 ≤ wOf sal n) (hden : 0 < denFloor tiny sal) :
    (∀ v : Fin D → ℝ, v ≠ 0 → 0 < ∑ d, ∑ e, v d * gaussCovFull tiny sal y d e * v e) ↔
    (∀ v : Fin D → ℝ, v ≠ 0 → ∃ n, 0 < wOf sal n ∧ ∑ d, v d * (y n d - gaussMean tiny sal y d) ≠ 0) := by
  have key : ∀ v : Fin D → ℝ, (0 < ∑ d, ∑ e, v d * gaussCovFull tiny sal y d e * v e) ↔
      ∃ n, 0 < wOf sal n ∧ ∑ d, v d * (y n d - gaussMean tiny sal y d) ≠ 0 := by
    intro v
    rw [gaussCovFull_quadForm, div_pos_iff_of_pos_right hden]
    have hnn : ∀ n ∈ (univ : Finset (Fin N)), 0 ≤ wOf sal n * (∑ d, v d * (y n d - gaussMean tiny sal y d)) ^ 2 :=
      fun n _ => mul_nonneg (hw n) (sq_nonneg _)
    rw [Finset.sum_pos_iff_of_nonneg hnn]
    constructor
    · rintro ⟨n, -, hn⟩
      refine ⟨n, ?_, ?_⟩
      · rcases (hw n).lt_or_eq with h | h
        · exact h
        · rw [← h] at hn; simp at hn
      · intro h0; rw [h0] at hn; simp at hn
    · rintro ⟨n, h1, h2⟩
      exact ⟨n, mem_univ _, mul_pos h1 (by positivity)⟩
  constructor
  · intro h v hv; exact (key v).mp (h v hv)
  · intro h v hv; exact (key v).mpr (h v hv)
end gausspsd

/-! ### complex Bingham post-processing -/
section bingham
variable {D : Nat}

theorem binghamEst_last (x : Fin D → ℝ) : binghamEst x (Fin.last D) = 0 := by
  simp only [binghamEst, vsum_eq_sum]
  apply Finset.sum_eq_zero
  intro j _
  simp

theorem binghamEst_castSucc (x : Fin D → ℝ) (i : Fin D) :
    binghamEst x i.castSucc = x i + binghamEst x i.succ := by
  simp only [binghamEst, vsum_eq_sum, Fin.val_castSucc, Fin.val_succ]
  have : ∀ j : Fin D, (if i.val ≤ j.val then x j else 0) =
      (if j = i then x j else 0) + (if i.val + 1 ≤ j.val then x j else 0) := by
    intro j
    by_cases h1 : j = i
    · subst h1; simp
    · have hne : j.val ≠ i.val := fun h => h1 (Fin.ext h)
      by_cases h2 : i.val ≤ j.val
      · have : i.val + 1 ≤ j.val := by omega
        simp [h1, h2, this]
      · have : ¬ i.val + 1 ≤ j.val := by omega
        simp [h1, h2, this]
  simp_rw [this, Finset.sum_add_distrib]
  simp

theorem binghamEst_nonpos (x : Fin D → ℝ) (hx : ∀ j, x j ≤ 0) (i : Fin (D+1)) : binghamEst x i ≤ 0 := by
  simp only [binghamEst, vsum_eq_sum]
  apply Finset.sum_nonpos
  intro j _
  split_ifs
  · exact hx j
  · exact le_rfl

theorem binghamEst_mono (x : Fin D → ℝ) (hx : ∀ j, x j ≤ 0) (i j : Fin (D+1)) (hij : i ≤ j) :
    binghamEst x i ≤ binghamEst x j := by
  simp only [binghamEst, vsum_eq_sum]
  apply Finset.sum_le_sum
  intro k _
  by_cases h1 : j.val ≤ k.val
  · have : i.val ≤ k.val := le_trans hij h1
    simp [h1, this]
  · by_cases h2 : i.val ≤ k.val
    · simp [h1, h2, hx k]
    · simp [h1, h2]

theorem removeDup_zero (eps : ℝ) (lam : Fin (D+1) → ℝ) : removeDup eps lam 0 = lam 0 := by
  simp [removeDup, vsum_eq_sum]

/-- consecutive entries of the de-duplicated spectrum differ by `max(gap, eps)` -/
theorem removeDup_succ (eps : ℝ) (lam : Fin (D+1) → ℝ) (i : Fin D) :
    removeDup eps lam i.succ = removeDup eps lam i.castSucc + max (lam i.succ - lam i.castSucc) eps := by
  simp only [removeDup, vsum_eq_sum, Fin.val_succ, Fin.val_castSucc]
  have : ∀ j : Fin D, (if j.val < i.val + 1 then max (lam j.succ - lam j.castSucc) eps else 0) =
      (if j.val < i.val then max (lam j.succ - lam j.castSucc) eps else 0) +
      (if j = i then max (lam j.succ - lam j.castSucc) eps else 0) := by
    intro j
    by_cases h1 : j = i
    · subst h1; simp
    · have hne : j.val ≠ i.val := fun h => h1 (Fin.ext h)
      by_cases h2 : j.val < i.val
      · have : j.val < i.val + 1 := by omega
        simp [h1, h2, this]
      · have : ¬ j.val < i.val + 1 := by omega
        simp [h1, h2, this]
  simp_rw [this, Finset.sum_add_distrib]
  simp [add_assoc]

theorem removeDup_ge (eps : ℝ) (lam : Fin (D+1) → ℝ) (i : Fin (D+1)) : lam i ≤ removeDup eps lam i := by
  induction i using Fin.induction with
  | zero => rw [removeDup_zero]
  | succ i ih =>
    rw [removeDup_succ]
    have := le_max_left (lam i.succ - lam i.castSucc) eps
    linarith

theorem removeDup_first_le (eps : ℝ) (heps : 0 ≤ eps) (lam : Fin (D+1) → ℝ) (i : Fin (D+1)) :
    lam 0 ≤ removeDup eps lam i := by
  induction i using Fin.induction with
  | zero => rw [removeDup_zero]
  | succ i ih =>
    rw [removeDup_succ]
    have := le_max_right (lam i.succ - lam i.castSucc) eps
    linarith

theorem removeDup_id (eps : ℝ) (lam : Fin (D+1) → ℝ) (hgap : ∀ i : Fin D, eps ≤ lam i.succ - lam i.castSucc)
    (i : Fin (D+1)) : removeDup eps lam i = lam i := by
  induction i using Fin.induction with
  | zero => rw [removeDup_zero]
  | succ i ih =>
    rw [removeDup_succ, ih, max_eq_left (hgap i)]; ring
end bingham

/-! ### saliency-weighted mean affiliation -/
theorem weightSalT_eq {K T : Nat} (eps : ℝ) (aff : Fin K → Fin T → ℝ) (s : Fin T → ℝ)
    (h0 : ∀ k t, 0 ≤ aff k t) (h1 : ∀ t, ∑ k, aff k t = 1) (hs : ∀ t, 0 ≤ s t) (hpos : 0 < ∑ t, s t) (k : Fin K) :
    weightSalT eps aff s k = (∑ t, aff k t * s t) / ∑ t, s t := by
  have hS : ∀ k, 0 ≤ (vsum fun t => aff k t * s t) := by
    intro k; rw [vsum_eq_sum]; exact Finset.sum_nonneg fun t _ => mul_nonneg (h0 k t) (hs t)
  have htot : ∑ k, (vsum fun t => aff k t * s t) = ∑ t, s t := by
    simp_rw [vsum_eq_sum]
    rw [Finset.sum_comm]
    apply Finset.sum_congr rfl; intro t _
    rw [← Finset.sum_mul, h1 t, one_mul]
  have := (l1Where_sum_one eps (fun k => vsum fun t => aff k t * s t) hS (by rw [htot]; exact hpos)).2.2 k
  simp only [weightSalT]
  rw [this, htot, vsum_eq_sum]

theorem watsonConcentration_range (yLo yHi maxc : ℝ) (spl : ℝ → ℝ) (lam : ℝ) (hm : 0 ≤ maxc)
    (hs : 0 ≤ spl lam ∧ spl lam ≤ maxc) :
    0 ≤ watsonConcentration yLo yHi maxc spl lam ∧ watsonConcentration yLo yHi maxc spl lam ≤ maxc := by
  unfold watsonConcentration
  split_ifs
  · exact ⟨le_rfl, hm⟩
  · exact ⟨hm, le_rfl⟩
  · exact hs


section cacg
variable {N D : Nat}

/-- the Tyler-type scatter of `_fit`: `D Σ_n w_n z_n z_nᴴ / q_n / Σ_n w_n` -/
theorem cacgCov_eq (tiny qfloor : ℝ) (sal : Option (Fin N → ℝ)) (q : Fin N → ℝ) (z : Fin N → Fin D → ℂ)
    (hq : ∀ n, qfloor ≤ q n) (hden : tiny ≤ denPlain sal) (d e : Fin D) :
    cacgCov tiny qfloor sal q z d e =
      ((D : ℝ) : ℂ) * (∑ n, z n d * (starRingEnd ℂ) (z n e) * ((wOf sal n / q n : ℝ) : ℂ)) / ((denPlain sal : ℝ) : ℂ) := by
  simp only [cacgCov, vsum_eq_sum, cx_ofReal, cx_conj, max_eq_left hden]
  congr 2
  · apply Finset.sum_congr rfl; intro n _; rw [max_eq_left (hq n)]

theorem forceHermitian_eq (c : Fin D → Fin D → ℂ) (d e : Fin D) :
    forceHermitian (α := ℝ) c d e = (c d e + (starRingEnd ℂ) (c e d)) / 2 := by
  simp only [forceHermitian, cx_conj, cx_ofReal]
  norm_num

theorem forceHermitian_hermitian (c : Fin D → Fin D → ℂ) (d e : Fin D) :
    (starRingEnd ℂ) (forceHermitian (α := ℝ) c e d) = forceHermitian (α := ℝ) c d e := by
  rw [forceHermitian_eq, forceHermitian_eq]
  have h2 : (starRingEnd ℂ) (2 : ℂ) = 2 := map_ofNat _ 2
  simp [map_div₀, add_comm, h2]

theorem cacgStep_eq (hermitize : Bool) (norm : CovNorm) (tiny qfloor floor : ℝ)
    (eigh : (Fin (D+1) → Fin (D+1) → ℂ) → Eig ℝ ℂ (D+1)) (sal : Option (Fin N → ℝ)) (q : Fin N → ℝ)
    (z : Fin N → Fin (D+1) → ℂ) :
    cacgStep hermitize norm tiny qfloor floor eigh sal q z =
      fromCovariance norm tiny floor eigh
        (if hermitize then forceHermitian (α := ℝ) (cacgCov tiny qfloor sal q z) else cacgCov tiny qfloor sal q z) := by
  have hfun : at2 (tab2 (cacgCov tiny qfloor sal q z)) = cacgCov tiny qfloor sal q z := by
    funext i j; simp
  simp only [cacgStep, hfun]

theorem cxMax_real (t tiny : ℝ) (h : tiny < t) : cxMax (α := ℝ) (t : ℂ) (CxOps.ofReal tiny) = (t : ℂ) := by
  simp [cxMax, h]

/-- `covariance_norm='trace'`: the matrix handed to `eigh` has unit trace -/
theorem trace_normalised (tiny t : ℝ) (c : Fin (D+1) → Fin (D+1) → ℂ) (htr : ∑ d, c d d = (t : ℂ)) (ht : tiny < t)
    (h0 : 0 < tiny) :
    ∑ d, c d d / cxMax (α := ℝ) (vsum fun d => c d d) (CxOps.ofReal tiny) = 1 := by
  rw [vsum_eq_sum, htr, cxMax_real t tiny ht, ← Finset.sum_div, htr]
  have : (t : ℂ) ≠ 0 := by exact_mod_cast (lt_trans h0 ht).ne'
  exact div_self this

/-- unit trace up to flooring: with the spectrum `λ ≥ 0`, `Σ λ = 1` of the trace-normalised scatter the stored
eigenvalues satisfy `1 ≤ Σ e ≤ 1 + (D+1) · max(λ_max · floor, tiny)` -/
theorem cacgEigsRelative_trace (tiny floor : ℝ) (ht : 0 < tiny) (lam : Fin (D+1) → ℝ) (h0 : ∀ i, 0 ≤ lam i)
    (h1 : ∑ i, lam i = 1) :
    1 ≤ ∑ i, cacgEigsRelative tiny floor lam i ∧
    ∑ i, cacgEigsRelative tiny floor lam i ≤ 1 + (D + 1 : ℕ) * max (vmax lam * floor) tiny := by
  constructor
  · rw [← h1]; exact Finset.sum_le_sum fun i _ => (cacgEigsRelative_ge tiny floor lam i).1
  · calc ∑ i, cacgEigsRelative tiny floor lam i
        ≤ ∑ i, (max (lam i) 0 + max (vmax lam * floor) tiny) :=
          Finset.sum_le_sum fun i _ => cacgEigsRelative_le tiny floor ht lam i
      _ = 1 + (D + 1 : ℕ) * max (vmax lam * floor) tiny := by
          rw [Finset.sum_add_distrib]
          simp only [max_eq_left (h0 _), h1, Finset.sum_const, Finset.card_univ, Fintype.card_fin, nsmul_eq_mul]

/-- `U diag(1/e) Uᴴ` -/
noncomputable def eigInv {n : Nat} (m : Eig ℝ ℂ n) : Eig ℝ ℂ n := ⟨fun i => 1 / m.vals i, m.vecs⟩

/-- `B · (U diag(1/e) Uᴴ) = 1`: the matrix whose quadratic form `_log_pdf` evaluates is the inverse covariance -/
theorem eigCovariance_mul_inv {n : Nat} (m : Eig ℝ ℂ n)
    (horth : ∀ i j, ∑ d, (starRingEnd ℂ) (m.vecs d i) * m.vecs d j = if i = j then 1 else 0)
    (hcomp : ∀ d e, ∑ i, m.vecs d i * (starRingEnd ℂ) (m.vecs e i) = if d = e then 1 else 0)
    (hne : ∀ i, m.vals i ≠ 0) (d e : Fin n) :
    ∑ f, eigCovariance m d f * eigCovariance (eigInv m) f e = if d = e then 1 else 0 := by
  simp_rw [eigCovariance_eq, eigInv, Finset.sum_mul_sum]
  rw [Finset.sum_comm]
  have h1 : ∀ i, ∑ f, ∑ j, m.vecs d i * (m.vals i : ℂ) * (starRingEnd ℂ) (m.vecs f i) *
      (m.vecs f j * ((1 / m.vals j : ℝ) : ℂ) * (starRingEnd ℂ) (m.vecs e j)) =
      m.vecs d i * (starRingEnd ℂ) (m.vecs e i) := by
    intro i
    rw [Finset.sum_comm]
    have h2 : ∀ j, ∑ f, m.vecs d i * (m.vals i : ℂ) * (starRingEnd ℂ) (m.vecs f i) *
        (m.vecs f j * ((1 / m.vals j : ℝ) : ℂ) * (starRingEnd ℂ) (m.vecs e j)) =
        m.vecs d i * (m.vals i : ℂ) * ((1 / m.vals j : ℝ) : ℂ) * (starRingEnd ℂ) (m.vecs e j) *
          (if i = j then 1 else 0) := by
      intro j
      rw [← horth i j, Finset.mul_sum]
      apply Finset.sum_congr rfl; intro f _; ring
    simp_rw [h2]
    simp only [mul_ite, mul_one, mul_zero, Finset.sum_ite_eq, Finset.mem_univ, if_true]
    have : (m.vals i : ℂ) * ((1 / m.vals i : ℝ) : ℂ) = 1 := by
      rw [← Complex.ofReal_mul, mul_one_div, div_self (hne i), Complex.ofReal_one]
    calc m.vecs d i * (m.vals i : ℂ) * ((1 / m.vals i : ℝ) : ℂ) * (starRingEnd ℂ) (m.vecs e i)
        = m.vecs d i * ((m.vals i : ℂ) * ((1 / m.vals i : ℝ) : ℂ)) * (starRingEnd ℂ) (m.vecs e i) := by ring
      _ = _ := by rw [this, mul_one]
  simp_rw [h1]
  exact hcomp d e

theorem cacgQuad_inner {n : Nat} (m : Eig ℝ ℂ n) (z : Fin n → ℂ) :
    (∑ i, (∑ d, (starRingEnd ℂ) (z d) * m.vecs d i) * ((1 / m.vals i : ℝ) : ℂ) * (∑ g, (starRingEnd ℂ) (m.vecs g i) * z g)) =
      ∑ d, ∑ e, (starRingEnd ℂ) (z d) * eigCovariance (eigInv m) d e * z e := by
  simp_rw [eigCovariance_eq, eigInv, Finset.sum_mul, Finset.mul_sum, Finset.sum_mul]
  rw [Finset.sum_comm]
  apply Finset.sum_congr rfl; intro d _
  rw [Finset.sum_comm]
  apply Finset.sum_congr rfl; intro e _
  apply Finset.sum_congr rfl; intro i _
  ring

/-- the quadratic form of `_log_pdf` is `max(|zᴴ B⁻¹ z|, tiny)` with `B⁻¹ = U diag(1/e) Uᴴ` -/
theorem cacgQuad_eq {n : Nat} (tiny : ℝ) (m : Eig ℝ ℂ n) (z : Fin n → ℂ) :
    cacgQuad tiny m z =
      max (Real.sqrt (Complex.normSq (∑ d, ∑ e, (starRingEnd ℂ) (z d) * eigCovariance (eigInv m) d e * z e))) tiny := by
  simp only [cacgQuad, vsum_eq_sum, cx_conj, cx_ofReal, absSq, cx_re, cx_im, transc_sqrt_real]
  rw [cacgQuad_inner, Complex.normSq_apply]
end cacg



/-- Rayleigh bound from the `eigh` contract: `vᴴ A v ≤ λ_last ‖v‖²` (and the quadratic form is real) -/
theorem rayleigh_le_top {D : Nat} {A : Fin (D+1) → Fin (D+1) → ℂ} {E : Eig ℝ ℂ (D+1)} (h : EighContract A E)
    (v : Fin (D+1) → ℂ) :
    (∑ d, ∑ e, (starRingEnd ℂ) (v d) * A d e * v e) =
      ((∑ i, E.vals i * Complex.normSq (∑ e, (starRingEnd ℂ) (E.vecs e i) * v e) : ℝ) : ℂ) ∧
    (∑ i, E.vals i * Complex.normSq (∑ e, (starRingEnd ℂ) (E.vecs e i) * v e)) ≤
      E.vals (Fin.last D) * ∑ d, Complex.normSq (v d) := by
  set c : Fin (D+1) → ℂ := fun i => ∑ e, (starRingEnd ℂ) (E.vecs e i) * v e with hc
  have hconj : ∀ i, (starRingEnd ℂ) (c i) = ∑ d, (starRingEnd ℂ) (v d) * E.vecs d i := by
    intro i
    simp only [hc, map_sum, map_mul, Complex.conj_conj]
    apply Finset.sum_congr rfl; intro d _; ring
  have hci : ∀ i, c i = ∑ e, (starRingEnd ℂ) (E.vecs e i) * v e := fun i => rfl
  have hquad : (∑ d, ∑ e, (starRingEnd ℂ) (v d) * A d e * v e) = ∑ i, (E.vals i : ℂ) * ((starRingEnd ℂ) (c i) * c i) := by
    simp_rw [← eig_reconstruct h, eigCovariance_eq, hconj, hci, Finset.sum_mul_sum, Finset.mul_sum, Finset.sum_mul]
    have : ∀ d, ∑ e, ∑ i, (starRingEnd ℂ) (v d) * (E.vecs d i * (E.vals i : ℂ) * (starRingEnd ℂ) (E.vecs e i)) * v e =
        ∑ i, ∑ e, (starRingEnd ℂ) (v d) * (E.vecs d i * (E.vals i : ℂ) * (starRingEnd ℂ) (E.vecs e i)) * v e :=
      fun d => Finset.sum_comm
    simp_rw [this]
    rw [Finset.sum_comm]
    apply Finset.sum_congr rfl; intro i _
    apply Finset.sum_congr rfl; intro d _
    apply Finset.sum_congr rfl; intro e _
    ring
  have hns : ∀ w : ℂ, (starRingEnd ℂ) w * w = ((Complex.normSq w : ℝ) : ℂ) := by
    intro w; rw [mul_comm, Complex.mul_conj]
  have hpars : ∑ i, Complex.normSq (c i) = ∑ d, Complex.normSq (v d) := by
    have : (((∑ i, Complex.normSq (c i) : ℝ)) : ℂ) = ((∑ d, Complex.normSq (v d) : ℝ) : ℂ) := by
      push_cast
      simp_rw [← hns, hconj, hci, Finset.sum_mul_sum]
      rw [Finset.sum_comm]
      apply Finset.sum_congr rfl; intro d _
      rw [Finset.sum_comm]
      have : ∀ e, ∑ i, (starRingEnd ℂ) (v d) * E.vecs d i * ((starRingEnd ℂ) (E.vecs e i) * v e) =
          (starRingEnd ℂ) (v d) * v e * (if d = e then 1 else 0) := by
        intro e
        rw [← h.complete d e, Finset.mul_sum]
        apply Finset.sum_congr rfl; intro i _; ring
      simp_rw [this]
      simp
    exact_mod_cast this
  constructor
  · rw [hquad]; push_cast
    apply Finset.sum_congr rfl; intro i _
    rw [hns]
  · rw [← hpars, Finset.mul_sum]
    apply Finset.sum_le_sum
    intro i _
    exact mul_le_mul_of_nonneg_right (h.ascending i _ (Fin.le_last i)) (Complex.normSq_nonneg _)

/-- integer saliency = repetition for the mixture weights (normalised affiliations) -/
theorem weight_repeat {K T R : Nat} (eps : ℝ) (s : Fin T → ℕ) (rep : Fin R → Fin T)
    (hrep : ∀ t, (univ.filter fun m => rep m = t).card = s t) (aff : Fin K → Fin T → ℝ)
    (h0 : ∀ k t, 0 ≤ aff k t) (h1 : ∀ t, ∑ k, aff k t = 1) (hpos : 0 < ∑ t, (s t : ℝ)) (k : Fin K) :
    weightSalT eps aff (fun t => (s t : ℝ)) k = weightMeanT (fun k m => aff k (rep m)) k := by
  rw [weightSalT_eq eps aff _ h0 h1 (fun t => Nat.cast_nonneg _) hpos k]
  simp only [weightMeanT, vsum_eq_sum]
  rw [sum_rep_real s rep hrep (fun t => aff k t), card_rep s rep hrep]
  congr 1
  apply Finset.sum_congr rfl; intro t _; ring

/-- `ComplexAngularCentralGaussianTrainer.fit`: iteration `it+1` is one `_fit` on the quadratic forms of iteration
`it` (start: all ones), followed by `_log_pdf` of the new model -/
theorem cacgFit_succ {N D : Nat} (hermitize : Bool) (norm : CovNorm) (tiny qfloor floor : ℝ)
    (eigh : (Fin (D+1) → Fin (D+1) → ℂ) → Eig ℝ ℂ (D+1)) (y : Fin N → Fin (D+1) → ℂ) (it : Nat) :
    let prev := cacgFit hermitize norm tiny qfloor floor eigh y it
    let z := unitRowsWhere tiny y
    let m := cacgStep hermitize norm tiny qfloor floor eigh none (at1 prev.1) z
    let next := cacgFit hermitize norm tiny qfloor floor eigh y (it+1)
    (∀ i, at1 next.2.1 i = m.vals i) ∧ (∀ d i, at2 next.2.2 d i = m.vecs d i) ∧
    (∀ n, at1 next.1 n = cacgQuad tiny m (z n)) ∧
    (∀ n, at1 (cacgFit hermitize norm tiny qfloor floor eigh y 0).1 n = 1) := by
  intro prev z m next
  have hz : at2 (tab2 (unitRowsWhere tiny y)) = unitRowsWhere (α := ℝ) tiny y := by funext n d; simp
  refine ⟨fun i => ?_, fun d i => ?_, fun n => ?_, fun n => ?_⟩
  · simp [next, cacgFit, hz, m, z, prev]
  · simp [next, cacgFit, hz, m, z, prev]
  · simp only [next, cacgFit, hz, at1_tab1]
    have h1 : at1 (tab1 (cacgStep hermitize norm tiny qfloor floor eigh none (at1 prev.1) (unitRowsWhere tiny y)).vals) = m.vals := by
      funext i; simp [m, z]
    have h2 : at2 (tab2 (cacgStep hermitize norm tiny qfloor floor eigh none (at1 prev.1) (unitRowsWhere tiny y)).vecs) = m.vecs := by
      funext d i; simp [m, z]
    simp only [prev] at h1 h2
    rw [h1, h2]
  · simp [cacgFit]



theorem affiliation_bayes' {K : Nat} (tiny : ℝ) (w lp : Fin (K+1) → ℝ)
    (hden : tiny ≤ ∑ k, Real.exp (lp k - vmax lp) * w k) (k : Fin (K+1)) :
    affiliation tiny w lp k = w k * Real.exp (lp k) / ∑ j, w j * Real.exp (lp j) := by
  unfold affiliation
  simp only [transc_exp_real, vsum_eq_sum]
  rw [max_eq_left hden]
  have hm : 0 < Real.exp (vmax lp) := Real.exp_pos _
  have : ∀ j, Real.exp (lp j - vmax lp) * w j = w j * Real.exp (lp j) / Real.exp (vmax lp) := by
    intro j; rw [Real.exp_sub]; ring
  simp only [this]
  rw [← Finset.sum_div]
  field_simp

theorem clipAff_eq (eps x : ℝ) :
    clipAff eps x = if eps = 0 then x else min (max x eps) (1 - eps) := by
  unfold clipAff clip
  rcases lt_trichotomy eps 0 with h | h | h
  · simp [h, h.ne]
  · simp [h]
  · simp [h, h.ne', not_lt.mpr h.le]

/-- E-step of the cACG mixture: Bayes posterior under the current model, clipped to `[eps, 1-eps]`; the second
component are the quadratic forms `max(|zᴴ B_k⁻¹ z|, tiny)` handed to the next M-step -/
theorem cacgmmEStep_spec {K N D : Nat} (tiny eps : ℝ) (w : Fin (K+1) → Fin N → ℝ) (m : Fin (K+1) → Eig ℝ ℂ D)
    (z : Fin N → Fin D → ℂ) (n : Fin N)
    (lp : Fin (K+1) → ℝ) (hlp : ∀ k, lp k = -(D : ℝ) * Real.log (cacgQuad tiny (m k) (z n)) - ∑ i, Real.log ((m k).vals i))
    (hden : tiny ≤ ∑ k, Real.exp (lp k - vmax lp) * w k n) (k : Fin (K+1)) :
    (cacgmmEStep tiny eps w m z).2 k n = cacgQuad tiny (m k) (z n) ∧
    (cacgmmEStep tiny eps w m z).1 k n =
      clipAff eps (w k n * Real.exp (lp k) / ∑ j, w j n * Real.exp (lp j)) := by
  have hlp' : (fun j => cacgLogPdf (m j) (cacgQuad tiny (m j) (z n))) = lp := by
    funext j; rw [hlp j]; simp [cacgLogPdf, vsum_eq_sum]
  constructor
  · simp [cacgmmEStep]
  · simp only [cacgmmEStep, at2_tab2]
    rw [hlp', affiliation_bayes' tiny (fun j => w j n) lp hden k]

end PbBss.Trainers

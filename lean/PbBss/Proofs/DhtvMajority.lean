import PbBss.Proofs.DhtvPass
import PbBss.Proofs.JitterProof
/-! DHTV convergence from a majority (cos / multiply metric, real scalars).

Abstract setting: unit-like rows `G p f` (class pattern `p` as seen in bin `f`) with
`a ≤ ⟨G p f, G p g⟩`, `⟨G p f, G q g⟩ ≤ b` for `p ≠ q`, all inner products in `[0, 1]`.
If in a segment `S` at least a fraction `ρ` of the bins carry the order `σ₀` and `ρ (a - b + 1) > 1`,
one pass puts EVERY bin of `S` into the order `σ₀`. -/
namespace PbBss.Align
open Function

/-- inner product of two rows -/
def ip {T : Nat} (x y : Fin T → ℝ) : ℝ := ∑ t, x t * y t

theorem foldl_add_eq_sum {β : Type} (h : β → ℝ) : ∀ (l : List β) (a : ℝ),
    l.foldl (fun acc f => acc + h f) a = a + (l.map h).sum
  | [], a => by simp
  | x :: l, a => by simp [foldl_add_eq_sum h l, add_assoc]

/-- the bins of a segment as a finset -/
def segSet (F lo hi : Nat) : Finset (Fin F) := (segBins F lo hi).toFinset

theorem mem_segSet {F lo hi : Nat} (f : Fin F) : f ∈ segSet F lo hi ↔ lo ≤ f.val ∧ f.val < hi := by
  simp [segSet, mem_segBins]

theorem segBins_length_eq_card (F lo hi : Nat) : (segBins F lo hi).length = (segSet F lo hi).card := by
  rw [segSet, List.toFinset_card_of_nodup (segBins_nodup F lo hi)]

theorem centroid_eq {K F T : Nat} (x : Tab3 K F T ℝ) (lo hi : Nat) (k : Fin K) (t : Fin T) :
    centroid x lo hi k t = (∑ g ∈ segSet F lo hi, at3 x k g t) / ((segSet F lo hi).card : ℝ) := by
  unfold centroid
  rw [foldl_add_eq_sum, zero_add]
  have h1 : ((List.finRange F).filter fun f => decide (lo ≤ f.val ∧ f.val < hi)) = segBins F lo hi := rfl
  rw [h1, ← List.sum_toFinset _ (segBins_nodup F lo hi), segBins_length_eq_card]
  rfl

/-- the score of a bin against the pass centroid is a positive multiple of `Σ_g ⟨x k' f, x k g⟩` -/
theorem score_centroid {K F T : Nat} (isCos : Bool) (tiny : ℝ) (ht : 0 < tiny) (lo hi : Nat) (x : Tab3 K F T ℝ)
    (hne : 0 < (segSet F lo hi).card) (f : Fin F) (k : Fin K) :
    ∃ w : ℝ, 0 < w ∧ ∀ k' : Fin K,
      score tiny .multiply (fun k => at3 x k f) (at2 (passCentroid isCos tiny lo hi x)) k k'
        = w * ∑ g ∈ segSet F lo hi, ip (fun t => at3 x k' f t) (fun t => at3 x k g t) := by
  have hn : (0 : ℝ) < ((segSet F lo hi).card : ℝ) := by exact_mod_cast hne
  cases isCos with
  | false =>
    refine ⟨1 / ((segSet F lo hi).card : ℝ), by positivity, ?_⟩
    intro k'
    simp only [score, scoreMultiply, vsum_eq_sum, passCentroid, at2_tab2, Bool.false_eq_true, if_false,
      centroid_eq, ip]
    rw [Finset.sum_comm, Finset.mul_sum]
    apply Finset.sum_congr rfl; intro t _
    rw [← Finset.mul_sum]; field_simp
  | true =>
    set d : ℝ := max (Real.sqrt (∑ t, centroid x lo hi k t * centroid x lo hi k t)) tiny with hd
    have hdpos : 0 < d := lt_of_lt_of_le ht (le_max_right _ _)
    refine ⟨1 / (d * ((segSet F lo hi).card : ℝ)), by positivity, ?_⟩
    intro k'
    simp only [score, scoreMultiply, vsum_eq_sum, passCentroid, at2_tab2, if_true, vecNormalize,
      transc_sqrt_real, ip]
    rw [← hd]
    simp only [centroid_eq]
    rw [Finset.sum_comm, Finset.mul_sum]
    apply Finset.sum_congr rfl; intro t _
    rw [← Finset.mul_sum]; field_simp

/-- hypotheses on the class patterns as seen in the bins: same class `≥ a`, different classes `≤ b`,
everything in `[0, 1]` (normalised non-negative rows) -/
structure PatHyp {K F T : Nat} (G : Fin K → Fin F → Fin T → ℝ) (a b : ℝ) : Prop where
  same : ∀ p f g, a ≤ ip (G p f) (G p g)
  diff : ∀ p q f g, p ≠ q → ip (G p f) (G q g) ≤ b
  nonneg : ∀ p q f g, 0 ≤ ip (G p f) (G q g)
  le_one : ∀ p q f g, ip (G p f) (G q g) ≤ 1

/-- **majority inequality**: if the bins `A ⊆ S` carry the order `σ₀` and `|S| < |A| (a - b + 1)`, then against the
segment centroid of class `k` the pattern `σ₀ k` strictly beats every other pattern, in every bin `f` -/
theorem majority_sum_lt {K F T : Nat} (G : Fin K → Fin F → Fin T → ℝ) (a b : ℝ) (hG : PatHyp G a b)
    (S A : Finset (Fin F)) (hAS : A ⊆ S) (π : Fin F → Equiv.Perm (Fin K)) (σ0 : Equiv.Perm (Fin K))
    (hA : ∀ g ∈ A, π g = σ0) (hmaj : (S.card : ℝ) < A.card * (a - b + 1))
    (f : Fin F) (k : Fin K) (q : Fin K) (hq : q ≠ σ0 k) :
    ∑ g ∈ S, ip (G q f) (G (π g k) g) < ∑ g ∈ S, ip (G (σ0 k) f) (G (π g k) g) := by
  rw [← Finset.sum_sdiff hAS, ← Finset.sum_sdiff hAS]
  have h1 : ∑ g ∈ A, ip (G q f) (G (π g k) g) ≤ A.card * b := by
    rw [← nsmul_eq_mul]
    apply Finset.sum_le_card_nsmul
    intro g hg; rw [hA g hg]; exact hG.diff q (σ0 k) f g hq
  have h2 : ∑ g ∈ S \ A, ip (G q f) (G (π g k) g) ≤ (S \ A).card * 1 := by
    rw [← nsmul_eq_mul]
    apply Finset.sum_le_card_nsmul
    intro g _; exact hG.le_one _ _ _ _
  have h3 : A.card * a ≤ ∑ g ∈ A, ip (G (σ0 k) f) (G (π g k) g) := by
    rw [← nsmul_eq_mul]
    apply Finset.card_nsmul_le_sum
    intro g hg; rw [hA g hg]; exact hG.same (σ0 k) f g
  have h4 : 0 ≤ ∑ g ∈ S \ A, ip (G (σ0 k) f) (G (π g k) g) :=
    Finset.sum_nonneg fun g _ => hG.nonneg _ _ _ _
  have hcard : ((S \ A).card : ℝ) = S.card - A.card := by
    rw [Finset.card_sdiff_of_subset hAS, Nat.cast_sub (Finset.card_le_card hAS)]
  rw [hcard] at h2
  nlinarith [h1, h2, h3, h4, hmaj]

/-- the state of a segment: in every bin `f ∈ S` row `k` holds pattern `π f k` -/
def SegState {K F T : Nat} (G : Fin K → Fin F → Fin T → ℝ) (x : Tab3 K F T ℝ) (S : Finset (Fin F))
    (π : Fin F → Equiv.Perm (Fin K)) : Prop :=
  ∀ f ∈ S, ∀ k t, at3 x k f t = G (π f k) f t

/-- under the majority hypothesis the reassignment of bin `f` is exactly `π_f⁻¹ ∘ σ₀` -/
theorem passPerm_majority {K F T : Nat} (G : Fin K → Fin F → Fin T → ℝ) (a b : ℝ) (hG : PatHyp G a b)
    (isCos : Bool) (tiny : ℝ) (ht : 0 < tiny) (algo : Algo) (lo hi : Nat) (x : Tab3 K F T ℝ)
    (A : Finset (Fin F)) (hAS : A ⊆ segSet F lo hi) (π : Fin F → Equiv.Perm (Fin K)) (σ0 : Equiv.Perm (Fin K))
    (hx : SegState G x (segSet F lo hi) π) (hA : ∀ g ∈ A, π g = σ0)
    (hmaj : ((segSet F lo hi).card : ℝ) < A.card * (a - b + 1)) (f : Fin F) (hf : f ∈ segSet F lo hi) :
    passPerm .multiply tiny algo (passCentroid isCos tiny lo hi x) x f = fun k => (π f).symm (σ0 k) := by
  have hne : 0 < (segSet F lo hi).card := Finset.card_pos.mpr ⟨f, hf⟩
  unfold passPerm
  have hbij : Bijective fun k => (π f).symm (σ0 k) := (π f).symm.bijective.comp σ0.bijective
  apply assign_row_dominant algo _ _ hbij
  intro k k' hk'
  obtain ⟨w, hw, hsc⟩ := score_centroid isCos tiny ht lo hi x hne f k
  rw [hsc k', hsc ((π f).symm (σ0 k))]
  apply mul_lt_mul_of_pos_left _ hw
  have hrow : ∀ j : Fin K, (fun t => at3 x j f t) = G (π f j) f := by
    intro j; funext t; exact hx f hf j t
  have hrow2 : ∀ g ∈ segSet F lo hi, (fun t => at3 x k g t) = G (π g k) g := by
    intro g hg; funext t; exact hx g hg k t
  have hsum : ∀ j : Fin K, ∑ g ∈ segSet F lo hi, ip (fun t => at3 x j f t) (fun t => at3 x k g t)
      = ∑ g ∈ segSet F lo hi, ip (G (π f j) f) (G (π g k) g) := by
    intro j
    apply Finset.sum_congr rfl
    intro g hg
    rw [hrow j, hrow2 g hg]
  rw [hsum k', hsum ((π f).symm (σ0 k)), Equiv.apply_symm_apply]
  apply majority_sum_lt G a b hG _ A hAS π σ0 hA hmaj f k
  intro h
  apply hk'
  rw [← h, Equiv.symm_apply_apply]

/-- every bin of the whole mask holds the class patterns in the order `π f` -/
def GlobalState {K F T : Nat} (G : Fin K → Fin F → Fin T → ℝ) (x : Tab3 K F T ℝ)
    (π : Fin F → Equiv.Perm (Fin K)) : Prop :=
  ∀ f k t, at3 x k f t = G (π f k) f t

/-- **one segment of the plan** (any number `n ≥ 1` of passes): if the already aligned bins `Al` (order `σ₀`) make
up enough of the segment, afterwards ALL bins of the segment are in the order `σ₀`; other bins are untouched. -/
theorem segmentIter_majority {K F T : Nat} (G : Fin K → Fin F → Fin T → ℝ) (a b : ℝ) (hG : PatHyp G a b)
    (isCos : Bool) (tiny : ℝ) (ht : 0 < tiny) (algo : Algo) (lo hi n : Nat) (hn : 0 < n) (s : St K F T ℝ)
    (Al : Finset (Fin F)) (π : Fin F → Equiv.Perm (Fin K)) (σ0 : Equiv.Perm (Fin K))
    (hx : GlobalState G s.features π) (hAl : ∀ g ∈ Al, π g = σ0)
    (hmaj : ((segSet F lo hi).card : ℝ) < (Al ∩ segSet F lo hi).card * (a - b + 1)) :
    GlobalState G (segmentIter isCos .multiply tiny algo lo hi n s).features
      (fun f => if f ∈ segSet F lo hi then σ0 else π f) := by
  obtain ⟨n', rfl⟩ : ∃ n', n = n' + 1 := ⟨n - 1, by omega⟩
  set S := segSet F lo hi with hS
  -- first pass
  have hspec := (segmentPass_spec isCos .multiply tiny algo lo hi s).1
  have hperm : ∀ f ∈ S, passPerm .multiply tiny algo (passCentroid isCos tiny lo hi s.features) s.features f
      = fun k => (π f).symm (σ0 k) := fun f hf =>
    passPerm_majority G a b hG isCos tiny ht algo lo hi s.features (Al ∩ S) Finset.inter_subset_right π σ0
      (fun f _ k t => hx f k t) (fun g hg => hAl g (Finset.mem_inter.mp hg).1) hmaj f hf
  have hr1 : GlobalState G (segmentPass isCos .multiply tiny algo lo hi s).1.features
      (fun f => if f ∈ S then σ0 else π f) := by
    intro f k t
    rw [hspec k f t]
    by_cases hf : f ∈ S
    · have hf' := (mem_segSet f).mp hf
      simp only [hf', and_self, if_true, hf]
      rw [hperm f hf, hx f _ t, Equiv.apply_symm_apply]
    · have hf' : ¬ (lo ≤ f.val ∧ f.val < hi) := fun h => hf ((mem_segSet f).mpr h)
      simp only [hf', if_false, hf]
      exact hx f k t
  -- a further pass changes nothing: the whole segment is aligned now
  have hSpos : 0 < S.card := by
    by_contra h0
    have : S.card = 0 := by omega
    have h1 : (Al ∩ S).card = 0 := Nat.eq_zero_of_le_zero (this ▸ Finset.card_le_card Finset.inter_subset_right)
    rw [this, h1] at hmaj; simp at hmaj
  have hab : 1 < a - b + 1 := by
    have hle : ((Al ∩ S).card : ℝ) ≤ S.card := by exact_mod_cast Finset.card_le_card Finset.inter_subset_right
    have hSr : (0 : ℝ) < S.card := by exact_mod_cast hSpos
    by_contra hcon
    push_neg at hcon
    have : ((Al ∩ S).card : ℝ) * (a - b + 1) ≤ S.card := by
      have h0 : (0 : ℝ) ≤ (Al ∩ S).card := by positivity
      nlinarith
    linarith
  have hstable : segmentPass isCos .multiply tiny algo lo hi (segmentPass isCos .multiply tiny algo lo hi s).1
      = ((segmentPass isCos .multiply tiny algo lo hi s).1, false) := by
    apply segmentPass_id
    intro f h1 h2
    have hf : f ∈ S := (mem_segSet f).mpr ⟨h1, h2⟩
    have := passPerm_majority G a b hG isCos tiny ht algo lo hi
      (segmentPass isCos .multiply tiny algo lo hi s).1.features S (Finset.Subset.refl _)
      (fun f => if f ∈ S then σ0 else π f) σ0 (fun f _ k t => hr1 f k t) (fun g hg => by simp [hg])
      (by
        have hSr : (0 : ℝ) < S.card := by exact_mod_cast hSpos
        nlinarith) f hf
    unfold passPerm passCentroid at this
    rw [this]
    funext k
    simp [hf]
  show GlobalState G (segmentIter isCos .multiply tiny algo lo hi (n' + 1) s).features _
  unfold segmentIter
  dsimp only
  split
  · rw [segmentIter_id _ _ _ _ _ _ _ hstable]; exact hr1
  · exact hr1

/-- the plan as processed segment by segment: each segment has at least one pass and enough of it is already
aligned (for the first segment: the majority `Al₀`; afterwards: everything processed so far) -/
def PlanOk (F : Nat) (a b : ℝ) : List (Nat × Nat × Nat) → Finset (Fin F) → Prop
  | [], _ => True
  | seg :: rest, Al =>
    0 < seg.1 ∧ ((segSet F seg.2.1 seg.2.2).card : ℝ) < (Al ∩ segSet F seg.2.1 seg.2.2).card * (a - b + 1) ∧
      PlanOk F a b rest (Al ∪ segSet F seg.2.1 seg.2.2)

/-- bins aligned after the plan: the initial majority plus every processed segment -/
def alignedAfter (F : Nat) : List (Nat × Nat × Nat) → Finset (Fin F) → Finset (Fin F)
  | [], Al => Al
  | seg :: rest, Al => alignedAfter F rest (Al ∪ segSet F seg.2.1 seg.2.2)

theorem foldl_plan_majority {K F T : Nat} (G : Fin K → Fin F → Fin T → ℝ) (a b : ℝ) (hG : PatHyp G a b)
    (isCos : Bool) (tiny : ℝ) (ht : 0 < tiny) (algo : Algo) (σ0 : Equiv.Perm (Fin K)) :
    ∀ (plan : List (Nat × Nat × Nat)) (s : St K F T ℝ) (Al : Finset (Fin F)) (π : Fin F → Equiv.Perm (Fin K)),
      GlobalState G s.features π → (∀ g ∈ Al, π g = σ0) → PlanOk F a b plan Al →
      ∃ π', GlobalState G
          (plan.foldl (fun s seg => segmentIter isCos .multiply tiny algo seg.2.1 seg.2.2 seg.1 s) s).features π' ∧
        ∀ g ∈ alignedAfter F plan Al, π' g = σ0
  | [], s, Al, π, hx, hAl, _ => ⟨π, hx, hAl⟩
  | seg :: rest, s, Al, π, hx, hAl, hok => by
    obtain ⟨hn, hmaj, hrest⟩ := hok
    have h1 := segmentIter_majority G a b hG isCos tiny ht algo seg.2.1 seg.2.2 seg.1 hn s Al π σ0 hx hAl hmaj
    simp only [List.foldl_cons]
    apply foldl_plan_majority G a b hG isCos tiny ht algo σ0 rest _ (Al ∪ segSet F seg.2.1 seg.2.2) _ h1 _ hrest
    intro g hg
    by_cases hgS : g ∈ segSet F seg.2.1 seg.2.2
    · simp [hgS]
    · simp only [hgS, if_false]
      rcases Finset.mem_union.mp hg with h | h
      · exact hAl g h
      · exact absurd h hgS

/-- **DHTV from a majority** (metrics `cos` and `multiply`): start features = class patterns in the per-bin order
`π f`; the bins `Al₀` already share the order `σ₀`; the plan satisfies `PlanOk`.  Then in every bin that is in
`Al₀` or in any plan segment the converged features are the patterns in the ONE order `σ₀`. -/
theorem dhtv_majority {K F T : Nat} (G : Fin K → Fin F → Fin T → ℝ) (a b : ℝ) (hG : PatHyp G a b)
    (tiny : ℝ) (ht : 0 < tiny) (metric : Metric) (hm : metric = .cos ∨ metric = .multiply) (algo : Algo)
    (plan : List (Nat × Nat × Nat)) (mask : Tab3 K F T ℝ) (π : Fin F → Equiv.Perm (Fin K))
    (σ0 : Equiv.Perm (Fin K)) (Al0 : Finset (Fin F))
    (hstart : GlobalState G (dhtvStart tiny metric mask) π) (hAl : ∀ g ∈ Al0, π g = σ0)
    (hplan : PlanOk F a b plan Al0) :
    ∀ f ∈ alignedAfter F plan Al0, ∀ k t, at3 (dhtv tiny metric algo plan mask).features k f t = G (σ0 k) f t := by
  have key : ∀ isCos : Bool, ∃ π', GlobalState G
      (plan.foldl (fun s seg => segmentIter isCos .multiply tiny algo seg.2.1 seg.2.2 seg.1 s)
        (⟨dhtvStart tiny metric mask, tab2 fun k _ => k⟩ : St K F T ℝ)).features π' ∧
      ∀ g ∈ alignedAfter F plan Al0, π' g = σ0 := fun isCos =>
    foldl_plan_majority G a b hG isCos tiny ht algo σ0 plan _ Al0 π hstart hAl hplan
  intro f hf k t
  rcases hm with rfl | rfl
  · obtain ⟨π', h1, h2⟩ := key true
    have : dhtv tiny Metric.cos algo plan mask
        = plan.foldl (fun s seg => segmentIter true .multiply tiny algo seg.2.1 seg.2.2 seg.1 s)
          (⟨dhtvStart tiny .cos mask, tab2 fun k _ => k⟩ : St K F T ℝ) := rfl
    rw [this, h1 f k t, h2 f hf]
  · obtain ⟨π', h1, h2⟩ := key false
    have : dhtv tiny Metric.multiply algo plan mask
        = plan.foldl (fun s seg => segmentIter false .multiply tiny algo seg.2.1 seg.2.2 seg.1 s)
          (⟨dhtvStart tiny .multiply mask, tab2 fun k _ => k⟩ : St K F T ℝ) := rfl
    rw [this, h1 f k t, h2 f hf]

/-- a sufficient, purely combinatorial form of the per-segment hypothesis: at least two thirds of the segment
is already aligned, with the constants of the jitter domain `a = 0.81/1.21`, `b = 1.21/0.81 · 0.1` -/
theorem planOk_step_of_two_thirds (n m : Nat) (hn : 0 < n) (h : 2 * n ≤ 3 * m) :
    (n : ℝ) < m * ((0.81 / 1.21 : ℝ) - 1.21 / 0.81 * 0.1 + 1) := by
  have hn' : (0 : ℝ) < n := by exact_mod_cast hn
  have h' : (2 : ℝ) * n ≤ 3 * m := by exact_mod_cast h
  have hc : (1.52 : ℝ) < (0.81 / 1.21 : ℝ) - 1.21 / 0.81 * 0.1 + 1 := by norm_num
  have hm : (0 : ℝ) ≤ m := by positivity
  nlinarith

end PbBss.Align

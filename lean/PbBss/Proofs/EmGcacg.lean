import PbBss.Proofs.EmMono
import PbBss.Proofs.EmCacg
/-! # GCACGMM as an instance of the EM model: per-bin cACG components × one shared second stream (C02)

`GCACGMMTrainer._m_step`: every class has one cACG per frequency bin (`sliced (cacgFamily …)`) fitted on the posteriors of
that bin with the quadratic forms of the previous parameters of that bin, and one Gaussian over all bins
(`prodFamily`, unit stream weights).  The joint M-step does not decrease the component part of `Q` when the second
stream's M-step does not and every bin's cACG step meets the guards of `cacg_family_mstep_improves`. -/
open PbBss PbBss.Em PbBss.EmProof PbBss.EmCacg Finset

namespace PbBss.EmProof

section
variable {D N : Nat}

/-- the scatter reads the quadratic form only where the weight is non-zero -/
theorem cacgScatter_congr (nrm : CovNorm) (tiny : ℝ) (c q q' : Fin N → ℝ) (z : Fin N → Fin (D+1) → ℂ)
    (h : ∀ n, c n ≠ 0 → q n = q' n) :
    cacgScatter nrm tiny N c q z = cacgScatter nrm tiny N c q' z := by
  have hf : (fun n => c n / max (q n) (((10 : Nat) : ℝ) * tiny)) = fun n => c n / max (q' n) (((10 : Nat) : ℝ) * tiny) := by
    funext n
    by_cases hc : c n = 0
    · simp [hc]
    · rw [h n hc]
  unfold cacgScatter
  simp only [hf]

theorem cacgMstep_congr (eigh : Tab (D+1) (Tab (D+1) ℂ) → Tab (D+1) (Tab (D+1) ℂ) × Tab (D+1) ℝ)
    (nrm : CovNorm) (floor tiny : ℝ) (c q q' : Fin N → ℝ) (z : Fin N → Fin (D+1) → ℂ)
    (h : ∀ n, c n ≠ 0 → q n = q' n) :
    cacgMstep eigh nrm floor tiny N c q z = cacgMstep eigh nrm floor tiny N c q' z := by
  unfold cacgMstep
  rw [cacgScatter_congr nrm tiny c q q' z h]

/-- per-bin cACG components: the sliced M-step improves when every bin's Tyler step meets its guards -/
theorem sliced_cacg_mstep_improves {F : Nat}
    (eigh : Tab (D+1) (Tab (D+1) ℂ) → Tab (D+1) (Tab (D+1) ℂ) × Tab (D+1) ℝ)
    (nrm : CovNorm) (floor tiny : ℝ) (c : Fin N → ℝ) (y : Fin N → Fin F × (Fin (D+1) → ℂ)) (θ : Tab F (Cacg ℝ ℂ (D+1)))
    (hbin : ∀ f,
      compQ (cacgFamily D eigh nrm floor tiny) (fun n => if (y n).1 = f then c n else 0) (fun n => (y n).2) (rd θ f)
        ≤ compQ (cacgFamily D eigh nrm floor tiny) (fun n => if (y n).1 = f then c n else 0) (fun n => (y n).2)
            ((cacgFamily D eigh nrm floor tiny).mstep N (fun n => if (y n).1 = f then c n else 0)
              (fun n => (cacgFamily D eigh nrm floor tiny).aux (rd θ f) (y n).2) (fun n => (y n).2))) :
    compQ (sliced (cacgFamily D eigh nrm floor tiny)) c y θ
      ≤ compQ (sliced (cacgFamily D eigh nrm floor tiny)) c y
          ((sliced (cacgFamily D eigh nrm floor tiny)).mstep N c
            (fun n => (sliced (cacgFamily D eigh nrm floor tiny)).aux θ (y n)) y) := by
  refine sliced_mstep_improves _ c _ y θ fun f => ?_
  have hcongr : (cacgFamily D eigh nrm floor tiny).mstep N (fun n => if (y n).1 = f then c n else 0)
        (fun n => (sliced (cacgFamily D eigh nrm floor tiny)).aux θ (y n)) (fun n => (y n).2)
      = (cacgFamily D eigh nrm floor tiny).mstep N (fun n => if (y n).1 = f then c n else 0)
        (fun n => (cacgFamily D eigh nrm floor tiny).aux (rd θ f) (y n).2) (fun n => (y n).2) := by
    show cacgMstep eigh nrm floor tiny N _ _ _ = cacgMstep eigh nrm floor tiny N _ _ _
    refine cacgMstep_congr eigh nrm floor tiny _ _ _ _ fun n hn => ?_
    have hf : (y n).1 = f := by
      by_contra hne
      exact hn (if_neg hne)
    simp only [sliced, hf]
  rw [hcongr]
  exact hbin f

end
end PbBss.EmProof

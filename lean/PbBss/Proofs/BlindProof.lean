import PbBss.Proofs.OracleProof
/-! Blind (adjacent-bin) alignment: under row dominance of the adjacent-bin similarities of a consistent
base mask, the greedy aligner restores one class order for EVERY per-frequency permutation field; DHTV is
the identity on masks whose bins are row-dominant against every segment centroid. -/
namespace PbBss.Align
open Function

section greedyAligner
variable {α : Type} [Field α] [LinearOrder α] [IsStrictOrderedRing α] [Transc α] {K F T : Nat}

/-- permutation of bin `f` (identity outside the range) -/
def permAtBin (π : Fin F → Equiv.Perm (Fin K)) (f : Nat) : Equiv.Perm (Fin K) :=
  if h : f < F then π ⟨f, h⟩ else 1

/-- adjacent-bin dominance of the consistent base mask: row `k` of bin `f-1` is strictly more similar to
row `k` of bin `f` than to any other row of bin `f` -/
def AdjacentDominant (tiny : α) (metric : Metric) (base : Tab3 K F T α) : Prop :=
  ∀ (f : Nat) (h : 0 < f ∧ f < F) (k k' : Fin K), k' ≠ k →
    sim tiny metric (fun t => at3 base k ⟨f - 1, by omega⟩ t) (fun t => at3 base k' ⟨f, h.2⟩ t)
      < sim tiny metric (fun t => at3 base k ⟨f - 1, by omega⟩ t) (fun t => at3 base k ⟨f, h.2⟩ t)

theorem adjacentAssign_permuted (tiny : α) (metric : Metric) (base : Tab3 K F T α)
    (π : Fin F → Equiv.Perm (Fin K)) (hdom : AdjacentDominant tiny metric base) (f : Nat) (h : 0 < f ∧ f < F) :
    at1 (adjacentAssign tiny metric (permuted base π) f)
      = fun k => (permAtBin π f).symm (permAtBin π (f - 1) k) := by
  have hf1 : f - 1 < F := by omega
  unfold adjacentAssign
  simp only [h, and_self, dite_true]
  have hfun : ∀ x : Fin K → Fin K, at1 (tab1 x) = x := fun x => funext (at1_tab1 x)
  rw [hfun]
  have hσ : Bijective fun k => (permAtBin π f).symm (permAtBin π (f - 1) k) :=
    (permAtBin π f).symm.bijective.comp (permAtBin π (f - 1)).bijective
  apply assign_row_dominant .greedy _ _ hσ
  intro i j hj
  rw [score_eq_sim, score_eq_sim]
  have hrow : ∀ (j' : Fin K) (g : Fin F), (fun t => at3 (permuted base π) j' g t) = fun t => at3 base (π g j') g t := by
    intro j' g; funext t; simp [permuted]
  show sim tiny metric (fun t => at3 (permuted base π) i ⟨f - 1, hf1⟩ t) (fun t => at3 (permuted base π) j ⟨f, h.2⟩ t)
    < sim tiny metric (fun t => at3 (permuted base π) i ⟨f - 1, hf1⟩ t)
        (fun t => at3 (permuted base π) ((permAtBin π f).symm (permAtBin π (f - 1) i)) ⟨f, h.2⟩ t)
  rw [hrow, hrow, hrow]
  have e1 : permAtBin π f = π ⟨f, h.2⟩ := by simp [permAtBin, h.2]
  have e2 : permAtBin π (f - 1) = π ⟨f - 1, hf1⟩ := by simp [permAtBin, hf1]
  rw [e1, e2, Equiv.apply_symm_apply]
  apply hdom f h
  intro hc
  apply hj
  rw [e1, e2, ← hc, Equiv.symm_apply_apply]

theorem composeChain_permuted (tiny : α) (metric : Metric) (base : Tab3 K F T α)
    (π : Fin F → Equiv.Perm (Fin K)) (hdom : AdjacentDominant tiny metric base) :
    ∀ (f : Nat), f < F → ∀ k,
      composeChain (fun g => at1 (adjacentAssign tiny metric (permuted base π) g)) f k
        = (permAtBin π f).symm (permAtBin π 0 k)
  | 0, _, k => by simp [composeChain]
  | f+1, hf, k => by
    simp only [composeChain]
    rw [composeChain_permuted tiny metric base π hdom f (by omega) k,
      adjacentAssign_permuted tiny metric base π hdom (f+1) ⟨by omega, hf⟩]
    simp

/-- **C16, greedy aligner**: for every permutation field π the aligned mask is the base mask in the single
class order `π₀`, in every bin -/
theorem greedyAligner_restores_aux (tiny : α) (metric : Metric) (base : Tab3 K F T α)
    (π : Fin F → Equiv.Perm (Fin K)) (hdom : AdjacentDominant tiny metric base) (k : Fin K) (f : Fin F) (t : Fin T) :
    applyMapping (at3 (permuted base π)) (greedyAligner tiny metric (permuted base π)) k f t
      = at3 base (permAtBin π 0 k) f t := by
  simp only [applyMapping, greedyAligner]
  rw [composeChain_permuted tiny metric base π hdom f.val f.isLt k]
  have e1 : permAtBin π f.val = π f := by simp [permAtBin, f.isLt]
  simp [permuted, e1]

/-- an already consistent mask gets the identity mapping -/
theorem greedyAligner_identity (tiny : α) (metric : Metric) (base : Tab3 K F T α)
    (hdom : AdjacentDominant tiny metric base) (k : Fin K) (f : Fin F) :
    greedyAligner tiny metric base k f = k := by
  have hperm : permuted base (fun _ => (1 : Equiv.Perm (Fin K))) = base := by
    unfold permuted tab3
    ext i j l
    simp [at3]
  have := composeChain_permuted tiny metric base (fun _ => 1) hdom f.val f.isLt k
  rw [hperm] at this
  have h1 : (Equiv.symm (1 : Equiv.Perm (Fin K))) k = k := rfl
  simpa [greedyAligner, permAtBin, h1] using this
end greedyAligner

section dhtvIdentity
variable {α : Type} [Field α] [LinearOrder α] [IsStrictOrderedRing α] [Transc α] {K F T : Nat}

/-- one bin: if the assignment against the centroid is the identity the state is unchanged -/
theorem binStep_id (m : Metric) (tiny : α) (algo : Algo) (c : Tab2 K T α) (s : St K F T α) (f : Fin F)
    (h : assign algo (score tiny m (fun k => at3 s.features k f) (at2 c)) = id) :
    binStep m tiny algo c s f = (s, false) := by
  unfold binStep
  simp [h]

theorem foldl_binStep_id (m : Metric) (tiny : α) (algo : Algo) (c : Tab2 K T α) (s : St K F T α) :
    ∀ (l : List (Fin F)),
      (∀ f ∈ l, assign algo (score tiny m (fun k => at3 s.features k f) (at2 c)) = id) →
      l.foldl (fun (acc : St K F T α × Bool) f =>
        let r := binStep m tiny algo c acc.1 f
        (r.1, acc.2 || r.2)) (s, false) = (s, false)
  | [], _ => rfl
  | f :: l, h => by
    simp only [List.foldl_cons]
    rw [binStep_id m tiny algo c s f (h f (by simp))]
    simpa using foldl_binStep_id m tiny algo c s l (fun g hg => h g (by simp [hg]))

/-- a segment pass whose per-bin assignments are all the identity changes nothing -/
theorem segmentPass_id (isCos : Bool) (m : Metric) (tiny : α) (algo : Algo) (lo hi : Nat) (s : St K F T α)
    (h : ∀ f : Fin F, lo ≤ f.val → f.val < hi →
      assign algo (score tiny m (fun k => at3 s.features k f)
        (at2 (tab2 (if isCos then fun k => vecNormalize tiny (centroid s.features lo hi k)
          else centroid s.features lo hi)))) = id) :
    segmentPass isCos m tiny algo lo hi s = (s, false) := by
  unfold segmentPass
  apply foldl_binStep_id
  intro f hf
  simp only [List.mem_filter, decide_eq_true_eq] at hf
  exact h f hf.2.1 hf.2.2

theorem segmentIter_id (isCos : Bool) (m : Metric) (tiny : α) (algo : Algo) (lo hi : Nat) (s : St K F T α)
    (h : segmentPass isCos m tiny algo lo hi s = (s, false)) :
    ∀ n, segmentIter isCos m tiny algo lo hi n s = s
  | 0 => rfl
  | n+1 => by
    unfold segmentIter
    simp [h]
end dhtvIdentity

end PbBss.Align

import PbBss.Proofs.EmMono
import PbBss.Proofs.EmGauss
/-! A concrete trajectory meeting every hypothesis of `em_monotone_gmm_spherical` (non-vacuity of C02's theorems):
one class, two observations `0, 2` in dimension 1, unit saliency; every iterate is weight 1, mean 1, variance 1. -/
open PbBss PbBss.Em PbBss.EmProof Finset

namespace PbBss.EmProof.NV
def y : Fin 2 → Fin 1 → ℝ := fun n _ => if n = 0 then 0 else 2
def tie : Tying 2 := ⟨false, 1, tab fun _ => 0⟩
noncomputable def fam := sphFamily (α := ℝ) 1 (1e-10) 1
noncomputable def fitN (i : Nat) : Mixture (SphG ℝ 1) ℝ 1 2 := fit (K := 0) (1e-10) fam .unitNorm tie (1e-10) (fun _ => 1) y i (fun _ _ => 1)

/-- the single-class fixed point: weight 1, mean 1, variance 1 -/
noncomputable def θs : Mixture (SphG ℝ 1) ℝ 1 2 := ⟨tab2 fun _ _ => 1, tab fun _ => ⟨tab fun _ => 1, 1⟩⟩

theorem mstep_one (aux : Fin 1 → Fin 2 → ℝ) :
    mStep fam .unitNorm tie (1e-10) (fun _ => 1) y (fun _ _ => (1:ℝ)) aux = θs := by
  simp only [mStep, θs, mWeight, tie, fam, sphFamily, sphMstep, gaussMean]
  congr 1
  · simp [tab2, rd2, groupWeight, groupSum, vsum_eq_sum, absα]
  · simp [vsum_eq_sum, Fin.sum_univ_two, y]
    norm_num

theorem estep_one : eStep (K := 0) (1e-10) fam θs y = fun _ _ => 1 := by
  funext k n
  simp [eStep, affiliation, vmax, vsum_eq_sum, θs, Mixture.w, Mixture.c]
  norm_num

theorem emstep_fix : emStep (K := 0) (1e-10) fam .unitNorm tie (1e-10) (fun _ => 1) y θs = θs := by
  unfold emStep
  have : rd2 (tab2 (eStep (K := 0) (1e-10) fam θs y)) = fun _ _ => 1 := by
    funext k n; rw [rd2_tab2, estep_one]
  simp only [this]
  exact mstep_one _

theorem fitN_eq (i : Nat) (hi : 1 ≤ i) : fitN i = θs := by
  induction i, hi using Nat.le_induction with
  | base => exact mstep_one _
  | succ i hi ih =>
    unfold fitN at ih ⊢
    rw [fit_succ _ _ _ _ _ _ _ _ i hi, ih]
    exact emstep_fix

theorem w_pos (k : Fin 1) (n : Fin 2) : 0 < θs.w k n := by simp [θs, Mixture.w]

theorem clampFree : ClampFree (K := 0) (1e-10) fam θs y := by
  intro n
  simp [vmax, θs, Mixture.w]
  norm_num

theorem post_one (k : Fin 1) (n : Fin 2) : post fam θs y k n = 1 := by
  have h := post_sum_one fam θs y w_pos n
  have hk : k = 0 := Subsingleton.elim _ _
  subst hk
  simpa using h

theorem mass : (1e-10 : ℝ) ≤ ∑ n, post fam θs y 0 n * 1 := by
  simp [post_one]; norm_num

theorem var_pos (k : Fin 1) : 0 < (θs.c k).var := by simp [θs, Mixture.c]

end PbBss.EmProof.NV

import PbBss.Proofs.TensorProof
import PbBss.Model.TensorEm
/-! # Slice laws of the EM loops of `VMFMMTrainer`, `CWMMTrainer`, `CACGMMTrainer` (tensor layer)

Model: `PbBss/Model/TensorEm.lean`.  Part 1: vMF mixture.  Part 2: helpers for per-matrix externals with the class axis
kept in the core (`mapCore`), `selectLast`, `get_pca`.  Part 3: Watson mixture.  Part 4: cACG mixture.

Everything is structural (no property of the scalar type is used). -/
set_option linter.unusedSimpArgs false
set_option linter.unusedVariables false
namespace PbBss.Tensor

variable {α β γ : Type}

/-! ## Part 1: the von-Mises-Fisher mixture model -/

section vmfmm
variable [Add α] [Sub α] [Mul α] [Div α] [Neg α] [OfNat α 0] [OfNat α 1] [NatCast α] [Max α]
  [LT α] [DecidableLT α] [BEq α] [Transc α]
set_option linter.unusedSectionVars false

theorem unitNormReal_fixLead (tiny : α) (y : T α) (lead : List Nat) (hy : 2 ≤ y.rank) :
    fixLead (unitNormReal tiny y) 2 lead = unitNormReal tiny (fixLead y 2 lead) := by
  push_fixLead [unitNormReal]

theorem rank_unitNormReal (tiny : α) (y : T α) (hy : 1 ≤ y.rank) : (unitNormReal tiny y).rank = y.rank := by
  simp only [unitNormReal]; rank_tac

/-- `VonMisesFisherTrainer._fit` as the mixture calls it: observations `(..., 1, N, D)` (core rank 3), saliency
`(..., K, N)` (core rank 2) -/
theorem vmfFit_class (tiny minC maxC : α) (y s : T α) (lead : List Nat) (hy : 3 ≤ y.rank) (hs : 2 ≤ s.rank) :
    fixLead (vmfFit tiny minC maxC y (some s)).1 2 lead =
        (vmfFit tiny minC maxC (fixLead y 3 lead) (some (fixLead s 2 lead))).1 ∧
    fixLead (vmfFit tiny minC maxC y (some s)).2 1 lead =
        (vmfFit tiny minC maxC (fixLead y 3 lead) (some (fixLead s 2 lead))).2 := by
  constructor <;> push_fixLead [vmfFit]

/-- `VonMisesFisher.log_pdf` as the mixture calls it: parameters with a class axis, observations `(..., 1, N, D)` -/
theorem vmfLogPdf_class (tiny : α) (mean conc logNorm y : T α) (lead : List Nat)
    (hm : 2 ≤ mean.rank) (hc : 1 ≤ conc.rank) (hl : 1 ≤ logNorm.rank) (hy : 3 ≤ y.rank) :
    fixLead (vmfLogPdf tiny mean conc logNorm y) 2 lead =
      vmfLogPdf tiny (fixLead mean 2 lead) (fixLead conc 1 lead) (fixLead logNorm 1 lead) (fixLead y 3 lead) := by
  push_fixLead [vmfLogPdf]

theorem vmfmmMStep_fixLead (tiny eps minC maxC : α) (y aff sal : T α) (lead : List Nat)
    (hy : 2 ≤ y.rank) (ha : 2 ≤ aff.rank) (hs : 1 ≤ sal.rank) :
    (vmfmmMStep tiny eps minC maxC y aff sal).fix lead =
      vmfmmMStep tiny eps minC maxC (fixLead y 2 lead) (fixLead aff 2 lead) (fixLead sal 1 lead) := by
  have hy3 : 3 ≤ (expandDims 2 y).rank := by rank_tac
  have hs2 : 2 ≤ (zipWith (fun a b : α => a * b) aff (expandDims 1 sal)).rank := by rank_tac
  have hfit := vmfFit_class tiny minC maxC (expandDims 2 y) (zipWith (· * ·) aff (expandDims 1 sal)) lead hy3 hs2
  have hy' : fixLead (expandDims 2 y) 3 lead = expandDims 2 (fixLead y 2 lead) := by push_fixLead [Option.map]
  have hs' : fixLead (zipWith (fun a b : α => a * b) aff (expandDims 1 sal)) 2 lead =
      zipWith (· * ·) (fixLead aff 2 lead) (expandDims 1 (fixLead sal 1 lead)) := by push_fixLead [Option.map]
  have hw := estimateMixtureWeight_fixLead eps aff (some sal) lead ha
  rw [hy', hs'] at hfit
  simp only [Vmfmm.fix, vmfmmMStep, Vmfmm.mk.injEq]
  exact ⟨hw, hfit.1, hfit.2⟩

theorem vmfmmMStep_ranks (tiny eps minC maxC : α) (y aff sal : T α)
    (hy : 2 ≤ y.rank) (ha : 2 ≤ aff.rank) (hs : 1 ≤ sal.rank) :
    2 ≤ (vmfmmMStep tiny eps minC maxC y aff sal).weight.rank ∧
    2 ≤ (vmfmmMStep tiny eps minC maxC y aff sal).mean.rank ∧
    1 ≤ (vmfmmMStep tiny eps minC maxC y aff sal).conc.rank := by
  refine ⟨?_, ?_, ?_⟩
  · simp only [vmfmmMStep, estimateMixtureWeight]; rank_tac
  · simp only [vmfmmMStep, vmfFit]; rank_tac
  · simp only [vmfmmMStep, vmfFit]; rank_tac

theorem vmfmmPredict_fixLead (tiny : α) (lnorm : Nat → α → α) (m : Vmfmm α) (y : T α) (lead : List Nat)
    (hw : 2 ≤ m.weight.rank) (hm : 2 ≤ m.mean.rank) (hc : 1 ≤ m.conc.rank) (hy : 2 ≤ y.rank) :
    fixLead (vmfmmPredict tiny lnorm m y) 2 lead = vmfmmPredict tiny lnorm (m.fix lead) (fixLead y 2 lead) := by
  have hyn : 2 ≤ (unitNormReal tiny y).rank := by rw [rank_unitNormReal _ _ (by omega)]; exact hy
  have hy3 : 3 ≤ (expandDims 2 (unitNormReal tiny y)).rank := by rank_tac
  have hlp := vmfLogPdf_class tiny m.mean m.conc (map (lnorm (m.mean.rshape.getD 0 1)) m.conc)
    (expandDims 2 (unitNormReal tiny y)) lead hm hc (by rank_tac) hy3
  have hy' : fixLead (expandDims 2 (unitNormReal tiny y)) 3 lead = expandDims 2 (unitNormReal tiny (fixLead y 2 lead)) := by
    rw [← unitNormReal_fixLead tiny y lead hy]; push_fixLead [Option.map]
  have hr : 2 ≤ (vmfLogPdf tiny m.mean m.conc (map (lnorm (m.mean.rshape.getD 0 1)) m.conc)
      (expandDims 2 (unitNormReal tiny y))).rank := by
    simp only [vmfLogPdf]; rank_tac
  simp only [vmfmmPredict, Vmfmm.fix]
  rw [logPdfToAffiliation_fixLead tiny _ _ none none lead hw hr (by intro m h; cases h), hlp, hy', map_fixLead,
    getD_rshape_fixLead _ _ _ _ _ (by omega)]
  rfl

theorem vmfmmPredict_rank (tiny : α) (lnorm : Nat → α → α) (m : Vmfmm α) (y : T α) :
    2 ≤ (vmfmmPredict tiny lnorm m y).rank := by
  simp only [vmfmmPredict, logPdfToAffiliation]; rank_tac

theorem vmfmmFit_ranks (tiny eps minC maxC : α) (lnorm : Nat → α → α) (y init sal : T α)
    (hy : 2 ≤ y.rank) (hi : 2 ≤ init.rank) (hs : 1 ≤ sal.rank) (n : Nat) :
    2 ≤ (vmfmmFit tiny eps minC maxC lnorm y init sal n).weight.rank ∧
    2 ≤ (vmfmmFit tiny eps minC maxC lnorm y init sal n).mean.rank ∧
    1 ≤ (vmfmmFit tiny eps minC maxC lnorm y init sal n).conc.rank := by
  cases n with
  | zero => exact vmfmmMStep_ranks tiny eps minC maxC y init sal hy hi hs
  | succ m => exact vmfmmMStep_ranks tiny eps minC maxC y _ sal hy (vmfmmPredict_rank _ _ _ _) hs

/-- **The EM loop of the vMF mixture trainer acts slice by slice** — no hypothesis beyond "the inputs have their core
axes" -/
theorem vmfmmFit_fixLead (tiny eps minC maxC : α) (lnorm : Nat → α → α) (y init sal : T α) (lead : List Nat)
    (hy : 2 ≤ y.rank) (hi : 2 ≤ init.rank) (hs : 1 ≤ sal.rank) (n : Nat) :
    (vmfmmFit tiny eps minC maxC lnorm y init sal n).fix lead =
      vmfmmFit tiny eps minC maxC lnorm (fixLead y 2 lead) (fixLead init 2 lead) (fixLead sal 1 lead) n := by
  induction n with
  | zero => exact vmfmmMStep_fixLead tiny eps minC maxC y init sal lead hy hi hs
  | succ n ih =>
    obtain ⟨h1, h2, h3⟩ := vmfmmFit_ranks tiny eps minC maxC lnorm y init sal hy hi hs n
    have hp := vmfmmPredict_fixLead tiny lnorm (vmfmmFit tiny eps minC maxC lnorm y init sal n) y lead h1 h2 h3 hy
    rw [ih] at hp
    have := vmfmmMStep_fixLead tiny eps minC maxC y
      (vmfmmPredict tiny lnorm (vmfmmFit tiny eps minC maxC lnorm y init sal n) y) sal lead hy
      (vmfmmPredict_rank _ _ _ _) hs
    rw [hp] at this
    exact this

/-- `np.ones_like(initialization[..., 0, :])` of a slice is the slice of the stacked ones -/
theorem onesLike_fixLead (init : T α) (lead : List Nat) :
    fixLead (const (eraseAt 1 init.rshape 1) (1 : α)) 1 lead = const (eraseAt 1 (fixLead init 2 lead).rshape 1) 1 := by
  rw [const_fixLead, rshape_fixLead, eraseAt_take _ 1 1 (Nat.le_refl 1)]

/-- `VMFMMTrainer.fit` (normalisation, default saliency, `_fit`) acts slice by slice -/
theorem vmfmmTrainerFit_fixLead (tiny eps minC maxC : α) (lnorm : Nat → α → α) (y init : T α) (sal : Option (T α))
    (lead : List Nat) (hy : 2 ≤ y.rank) (hi : 2 ≤ init.rank) (hs : ∀ s, sal = some s → 1 ≤ s.rank) (n : Nat) :
    (vmfmmTrainerFit tiny eps minC maxC lnorm y init sal n).fix lead =
      vmfmmTrainerFit tiny eps minC maxC lnorm (fixLead y 2 lead) (fixLead init 2 lead) (sal.map (fixLead · 1 lead)) n := by
  have hyn : 2 ≤ (unitNormReal tiny y).rank := by rw [rank_unitNormReal _ _ (by omega)]; exact hy
  cases sal with
  | none =>
    simp only [vmfmmTrainerFit, Option.map]
    rw [vmfmmFit_fixLead _ _ _ _ _ _ _ _ lead hyn hi
      (by simp only [rank_const, length_eraseAt]; have : 2 ≤ init.rshape.length := hi; omega),
      unitNormReal_fixLead _ _ _ hy, onesLike_fixLead]
  | some s =>
    simp only [vmfmmTrainerFit, Option.map]
    rw [vmfmmFit_fixLead _ _ _ _ _ _ _ _ lead hyn hi (hs s rfl), unitNormReal_fixLead _ _ _ hy]

end vmfmm

/-! ## Part 2: per-matrix externals with the class axis kept in the core, `selectLast`, `get_pca` -/

/-- fixing the leading indices in two stages: first all but `e` of them, then the remaining `e` -/
theorem fixLead_split (t : T α) (c e : Nat) (X l : List Nat) (hr : c + e ≤ t.rank) :
    fixLead t c (padTake 0 e X ++ bidx (t.rshape.drop (c + e)) l) = fixLead (fixLead t (c + e) l) c X := by
  have hr' : c + e ≤ t.rshape.length := hr
  apply T.ext'
  · simp only [rshape_fixLead, List.take_take]
    congr 1; omega
  · intro x
    simp only [fixLead]
    congr 1
    apply ext_getD
    · simp; omega
    · intro i hi
      simp only [length_padTake, length_bidx, List.length_append, List.length_take, List.length_drop] at hi
      by_cases h1 : i < c
      · simp only [getD_append', getD_padTake, length_padTake, getD_bidx, getD_drop', getD_take', List.length_take,
          List.length_drop, List.length_append, length_bidx, h1]
        idx_cases
      · by_cases h2 : i < c + e
        · obtain ⟨m, rfl⟩ := Nat.exists_eq_add_of_le (Nat.le_of_not_lt h1)
          simp only [getD_append', getD_padTake, length_padTake, getD_bidx, getD_drop', getD_take', List.length_take,
            List.length_drop, List.length_append, length_bidx, Nat.add_sub_cancel_left]
          idx_cases
        · obtain ⟨j, rfl⟩ := Nat.exists_eq_add_of_le (Nat.le_of_not_lt h2)
          have e1 : c + e + j - c = e + j := by omega
          have e2 : e + j - e = j := by omega
          have e3 : c + (e + j) = c + e + j := by omega
          simp only [getD_append', getD_padTake, length_padTake, getD_bidx, getD_drop', getD_take', List.length_take,
            List.length_drop, List.length_append, length_bidx, Nat.add_sub_cancel_left, e1, e2, e3]
          idx_cases

/-- a per-matrix external applied to every core slice of a stack (`mapCore`, how `np.linalg.eigh` acts on stacked
matrices), with `e` leading axes of the stack kept in the core (the class axis of a mixture): the result at a
leading index is the external applied to the slices of the slice -/
theorem mapCore_fixLead_class (c c' e : Nat) (oshape : List Nat) (g : T α → T β) (t : T α) (l : List Nat)
    (ho : oshape.length = c') (hr : c + e ≤ t.rank) :
    fixLead (mapCore c c' oshape g t) (c' + e) l = mapCore c c' oshape g (fixLead t (c + e) l) := by
  have hr' : c + e ≤ t.rshape.length := hr
  apply T.ext'
  · simp only [mapCore, fixLead]
    rw [List.take_append, ho, List.take_of_length_le (by omega), take_drop_comm]
    congr 2; omega
  · intro core
    have hdrop : (oshape ++ t.rshape.drop c).drop (c' + e) = t.rshape.drop (c + e) := by
      rw [List.drop_append, ho, List.drop_eq_nil_of_le (by omega)]
      simp only [List.nil_append, Nat.add_sub_cancel_left, List.drop_drop]
    show (g (fixLead t c ((padTake 0 (c' + e) core ++ bidx ((oshape ++ t.rshape.drop c).drop (c' + e)) l).drop c'))).get
        (padTake 0 c' (padTake 0 (c' + e) core ++ bidx ((oshape ++ t.rshape.drop c).drop (c' + e)) l)) =
      (g (fixLead (fixLead t (c + e) l) c (core.drop c'))).get (padTake 0 c' core)
    rw [hdrop, padTake_split c' e, List.append_assoc, padTake_padTake_append, drop_padTake_append,
      fixLead_split t c e _ l hr]

/-- `t[..., -1]` lowers the core rank by one -/
theorem selectLast_fixLead (t : T α) (c : Nat) (l : List Nat) :
    fixLead (selectLast t) c l = selectLast (fixLead t (c + 1) l) := by
  apply T.ext'
  · simp only [selectLast, fixLead]
    apply ext_getD
    · simp [List.length_take, List.length_drop]; omega
    · intro i hi
      simp only [getD_take', getD_drop']
      idx_cases
  · intro core
    simp only [selectLast, fixLead, List.drop_drop, getD_take', Nat.zero_lt_succ, if_true]
    rw [padTake_cons, Nat.add_comm 1 c]
    rfl

@[simp] theorem rank_selectLast (t : T α) : (selectLast t).rank = t.rank - 1 := by
  simp [T.rank, selectLast]

/-- (`rank_unflattenLead` / `rank_mapCore` of `TensorProof.lean` carry the scalar-class instances of their section;
these copies are instance-free, so that they apply to complex-valued tensors too) -/
theorem rank_unflattenLead' (c : Nat) (lead : List Nat) (t : T α) :
    (unflattenLead c lead t).rank = min c t.rank + lead.length := by
  simp [T.rank, unflattenLead]

theorem rank_mapCore' (c c' : Nat) (oshape : List Nat) (g : T α → T β) (t : T α) :
    (mapCore c c' oshape g t).rank = oshape.length + (t.rank - c) := by
  simp [T.rank, mapCore]

@[simp] theorem rshape_selectLast (t : T α) : (selectLast t).rshape = t.rshape.drop 1 := rfl

section getPca
variable {κ : Type}

/-- `get_pca` (reshape to a flat stack, per-matrix `eigh`, last eigenpair, reshape back) on a stack of scatter
matrices `(..., K, D, D)` with the class axis kept in the core: both results at a valid leading index are what
`get_pca` returns for that slice `(K, D, D)` alone -/
theorem getPca_class (eigh : T κ → T κ × T α) (psd : T κ) (lead : List Nat) (hg : GoodLead 2 psd lead) :
    fixLead (getPca eigh psd).1 2 lead = (getPca eigh (fixLead psd 3 lead)).1 ∧
    fixLead (getPca eigh psd).2 1 lead = (getPca eigh (fixLead psd 3 lead)).2 := by
  obtain ⟨hr, hpos, hv⟩ := hg
  have hr' : 3 ≤ psd.rshape.length := hr
  have hd : (fixLead psd 3 lead).rshape.drop 2 = (psd.rshape.drop 2).take 1 := take_drop_comm _ 2 1
  have htt : (fixLead psd 3 lead).rshape.take 2 = psd.rshape.take 2 := by
    simp only [fixLead, List.take_take]; rfl
  have ht1 : (fixLead psd 3 lead).rshape.take 1 = psd.rshape.take 1 := by
    simp only [fixLead, List.take_take]; rfl
  have hdd : (psd.rshape.take 2).length = 2 := by simp only [List.length_take]; omega
  have hd1 : (psd.rshape.take 1).length = 1 := by simp only [List.length_take]; omega
  constructor
  · simp only [getPca, hd, htt]
    exact reshape_pair_gen (fun u => selectLast (mapCore 2 2 (psd.rshape.take 2) (fun m => (eigh m).1) u)) 2 1 1 psd lead
      (fun u l => by rw [selectLast_fixLead _ 1, mapCore_fixLead 2 2 _ _ u l hdd])
      (fun u => by
        simp only [selectLast, mapCore, List.drop_drop]
        rw [List.drop_append, hdd]; simp)
      (fun u h => by
        simp only [T.rank, selectLast, mapCore, List.length_drop, List.length_append, hdd] at h ⊢; omega) hr hpos hv
  · simp only [getPca, hd, ht1]
    exact reshape_pair_gen (fun u => selectLast (mapCore 2 1 (psd.rshape.take 1) (fun m => (eigh m).2) u)) 2 0 1 psd lead
      (fun u l => by rw [selectLast_fixLead _ 0, mapCore_fixLead 2 1 _ _ u l hd1])
      (fun u => by
        simp only [selectLast, mapCore, List.drop_drop]
        rw [List.drop_append, hd1]; simp)
      (fun u h => Nat.zero_le _) hr hpos hv

end getPca

/-! ## Part 3: the complex Watson mixture model -/

section cwmm
variable {κ : Type} [Add α] [Sub α] [Mul α] [Div α] [Neg α] [OfNat α 0] [OfNat α 1] [NatCast α] [Max α]
  [LT α] [DecidableLT α] [BEq α] [Transc α]
  [Add κ] [Sub κ] [Mul κ] [Div κ] [OfNat κ 0] [OfNat κ 1] [CxOps α κ]
set_option linter.unusedSectionVars false

theorem unitNormCx_fixLead (tiny : α) (y : T κ) (lead : List Nat) (hy : 2 ≤ y.rank) :
    fixLead (unitNormCx tiny y) 2 lead = unitNormCx tiny (fixLead y 2 lead) := by
  push_fixLead [unitNormCx]

theorem rank_unitNormCx (tiny : α) (y : T κ) (hy : 1 ≤ y.rank) : (unitNormCx tiny y).rank = y.rank := by
  simp only [unitNormCx]; rank_tac

theorem maskedAffiliation_fixLead (aff : T α) (sal : Option (T α)) (lead : List Nat) (ha : 2 ≤ aff.rank)
    (hs : ∀ s, sal = some s → 1 ≤ s.rank) :
    fixLead (maskedAffiliation aff sal) 2 lead = maskedAffiliation (fixLead aff 2 lead) (sal.map (fixLead · 1 lead)) := by
  cases sal with
  | none => rfl
  | some s =>
    have := hs s rfl
    push_fixLead [maskedAffiliation]

theorem rank_maskedAffiliation (aff : T α) (sal : Option (T α)) (ha : 2 ≤ aff.rank) :
    2 ≤ (maskedAffiliation aff sal).rank := by
  cases sal with
  | none => exact ha
  | some s => simp only [maskedAffiliation]; rank_tac

/-- the scatter matrix as the mixture calls it: observations `(..., 1, N, D)`, saliency `(..., K, N)` -/
theorem scatter_class (floorDen : Option α) (y : T κ) (s : T α) (lead : List Nat) (hy : 3 ≤ y.rank) (hs : 2 ≤ s.rank) :
    fixLead (scatter floorDen y (some s)) 3 lead = scatter floorDen (fixLead y 3 lead) (some (fixLead s 2 lead)) := by
  cases floorDen <;> push_fixLead [scatter]

theorem cwmmScatter_fixLead (y : T κ) (aff : T α) (sal : Option (T α)) (lead : List Nat)
    (hy : 2 ≤ y.rank) (ha : 2 ≤ aff.rank) (hs : ∀ s, sal = some s → 1 ≤ s.rank) :
    fixLead (cwmmScatter y aff sal) 3 lead =
      cwmmScatter (fixLead y 2 lead) (fixLead aff 2 lead) (sal.map (fixLead · 1 lead)) := by
  have hy3 : 3 ≤ (expandDims 2 y).rank := by rank_tac
  have hy' : fixLead (expandDims 2 y) 3 lead = expandDims 2 (fixLead y 2 lead) := by push_fixLead [Option.map]
  simp only [cwmmScatter]
  rw [scatter_class none _ _ lead hy3 (rank_maskedAffiliation aff sal ha), hy', maskedAffiliation_fixLead aff sal lead ha hs]

/-- `ComplexWatson.log_pdf` as the mixture calls it -/
theorem watsonLogPdf_class (mode : T κ) (conc logNorm : T α) (y : T κ) (lead : List Nat)
    (hm : 2 ≤ mode.rank) (hc : 1 ≤ conc.rank) (hl : 1 ≤ logNorm.rank) (hy : 3 ≤ y.rank) :
    fixLead (watsonLogPdf mode conc logNorm y) 2 lead =
      watsonLogPdf (fixLead mode 2 lead) (fixLead conc 1 lead) (fixLead logNorm 1 lead) (fixLead y 3 lead) := by
  push_fixLead [watsonLogPdf]

theorem cwmmMStep_fixLead (eps : α) (eigh : T κ → T κ × T α) (kinv : α → α) (y : T κ) (aff : T α)
    (sal : Option (T α)) (lead : List Nat)
    (hy : 2 ≤ y.rank) (ha : 2 ≤ aff.rank) (hs : ∀ s, sal = some s → 1 ≤ s.rank)
    (hg : GoodLead 2 (cwmmScatter y aff sal) lead) :
    (cwmmMStep eps eigh kinv y aff sal).fix lead =
      cwmmMStep eps eigh kinv (fixLead y 2 lead) (fixLead aff 2 lead) (sal.map (fixLead · 1 lead)) := by
  have hpca := getPca_class eigh _ lead hg
  rw [cwmmScatter_fixLead y aff sal lead hy ha hs] at hpca
  have hw := estimateMixtureWeight_fixLead eps aff sal lead ha
  simp only [Cwmm.fix, cwmmMStep, Cwmm.mk.injEq]
  refine ⟨hw, hpca.1, ?_⟩
  rw [map_fixLead, hpca.2]

theorem rank_getPca (eigh : T κ → T κ × T α) (psd : T κ) (h : 3 ≤ psd.rank) :
    2 ≤ (getPca eigh psd).1.rank ∧ 1 ≤ (getPca eigh psd).2.rank := by
  have h' : 3 ≤ psd.rshape.length := h
  constructor
  · simp only [getPca]
    simp only [rank_unflattenLead', rank_selectLast, rank_mapCore', rank_flattenLead, List.length_drop, List.length_take]
    simp only [T.rank]; omega
  · simp only [getPca]
    simp only [rank_unflattenLead', rank_selectLast, rank_mapCore', rank_flattenLead, List.length_drop, List.length_take]
    simp only [T.rank]; omega

theorem cwmmMStep_ranks (eps : α) (eigh : T κ → T κ × T α) (kinv : α → α) (y : T κ) (aff : T α)
    (sal : Option (T α)) (lead : List Nat) (ha : 2 ≤ aff.rank)
    (hg : GoodLead 2 (cwmmScatter y aff sal) lead) :
    2 ≤ (cwmmMStep eps eigh kinv y aff sal).weight.rank ∧ 2 ≤ (cwmmMStep eps eigh kinv y aff sal).mode.rank ∧
    1 ≤ (cwmmMStep eps eigh kinv y aff sal).conc.rank := by
  obtain ⟨hr, -, -⟩ := hg
  have hp := rank_getPca eigh _ hr
  refine ⟨?_, hp.1, ?_⟩
  · cases sal <;> (simp only [cwmmMStep, estimateMixtureWeight]; rank_tac)
  · simp only [cwmmMStep, rank_map]; exact hp.2

theorem cwmmPredict_fixLead (tiny : α) (lnorm : Nat → α → α) (m : Cwmm α κ) (y : T κ) (lead : List Nat)
    (hw : 2 ≤ m.weight.rank) (hm : 2 ≤ m.mode.rank) (hc : 1 ≤ m.conc.rank) (hy : 2 ≤ y.rank) :
    fixLead (cwmmPredict tiny lnorm m y) 2 lead = cwmmPredict tiny lnorm (m.fix lead) (fixLead y 2 lead) := by
  have hyn : 2 ≤ (unitNormCx tiny y).rank := by rw [rank_unitNormCx _ _ (by omega)]; exact hy
  have hy3 : 3 ≤ (expandDims 2 (unitNormCx tiny y)).rank := by rank_tac
  have hlp := watsonLogPdf_class m.mode m.conc (map (lnorm (m.mode.rshape.getD 0 1)) m.conc)
    (expandDims 2 (unitNormCx tiny y)) lead hm hc (by rank_tac) hy3
  have hy' : fixLead (expandDims 2 (unitNormCx tiny y)) 3 lead = expandDims 2 (unitNormCx tiny (fixLead y 2 lead)) := by
    rw [← unitNormCx_fixLead tiny y lead hy]; push_fixLead [Option.map]
  have hr : 2 ≤ (watsonLogPdf m.mode m.conc (map (lnorm (m.mode.rshape.getD 0 1)) m.conc)
      (expandDims 2 (unitNormCx tiny y))).rank := by
    simp only [watsonLogPdf]; rank_tac
  simp only [cwmmPredict, Cwmm.fix]
  rw [logPdfToAffiliation_fixLead tiny _ _ none none lead hw hr (by intro m h; cases h), hlp, hy', map_fixLead,
    getD_rshape_fixLead _ _ _ _ _ (by omega)]
  rfl

theorem cwmmPredict_rank (tiny : α) (lnorm : Nat → α → α) (m : Cwmm α κ) (y : T κ) :
    2 ≤ (cwmmPredict tiny lnorm m y).rank := by
  simp only [cwmmPredict, logPdfToAffiliation]; rank_tac

theorem cwmmAffiliation_rank (tiny eps : α) (eigh : T κ → T κ × T α) (kinv : α → α) (lnorm : Nat → α → α) (y : T κ)
    (init : T α) (sal : Option (T α)) (hi : 2 ≤ init.rank) (k : Nat) :
    2 ≤ (cwmmAffiliation tiny eps eigh kinv lnorm y init sal k).rank := by
  cases k with
  | zero => exact hi
  | succ k => exact cwmmPredict_rank _ _ _ _

theorem cwmmFit_eq (tiny eps : α) (eigh : T κ → T κ × T α) (kinv : α → α) (lnorm : Nat → α → α) (y : T κ)
    (init : T α) (sal : Option (T α)) (n : Nat) :
    cwmmFit tiny eps eigh kinv lnorm y init sal n =
      cwmmMStep eps eigh kinv y (cwmmAffiliation tiny eps eigh kinv lnorm y init sal n) sal := by
  cases n <;> rfl

/-- **The EM loop of the Watson mixture trainer acts slice by slice.**  `hg` is a statement about SHAPES only:
`lead` is in range for the scatter matrices `get_pca` flattens in every iteration and no flattened axis is empty. -/
theorem cwmmFit_fixLead (tiny eps : α) (eigh : T κ → T κ × T α) (kinv : α → α) (lnorm : Nat → α → α) (y : T κ)
    (init : T α) (sal : Option (T α)) (lead : List Nat)
    (hy : 2 ≤ y.rank) (hi : 2 ≤ init.rank) (hs : ∀ s, sal = some s → 1 ≤ s.rank) (n : Nat)
    (hg : ∀ k, k ≤ n → GoodLead 2 (cwmmScatter y (cwmmAffiliation tiny eps eigh kinv lnorm y init sal k) sal) lead) :
    (cwmmFit tiny eps eigh kinv lnorm y init sal n).fix lead =
      cwmmFit tiny eps eigh kinv lnorm (fixLead y 2 lead) (fixLead init 2 lead) (sal.map (fixLead · 1 lead)) n := by
  induction n with
  | zero => exact cwmmMStep_fixLead eps eigh kinv y init sal lead hy hi hs (hg 0 (Nat.le_refl 0))
  | succ n ih =>
    have ihn := ih (fun k hk => hg k (Nat.le_succ_of_le hk))
    have hgn := hg n (Nat.le_succ n)
    have hgs := hg (n + 1) (Nat.le_refl _)
    have hranks := cwmmMStep_ranks eps eigh kinv y _ sal lead
      (cwmmAffiliation_rank tiny eps eigh kinv lnorm y init sal hi n) hgn
    rw [← cwmmFit_eq] at hranks
    obtain ⟨h1, h2, h3⟩ := hranks
    have hp := cwmmPredict_fixLead tiny lnorm (cwmmFit tiny eps eigh kinv lnorm y init sal n) y lead h1 h2 h3 hy
    rw [ihn] at hp
    have := cwmmMStep_fixLead eps eigh kinv y
      (cwmmPredict tiny lnorm (cwmmFit tiny eps eigh kinv lnorm y init sal n) y) sal lead hy
      (cwmmPredict_rank _ _ _ _) hs hgs
    rw [hp] at this
    exact this

end cwmm

/-! ## Part 4: the complex angular central Gaussian mixture model -/

section cacgmm
variable {κ : Type} [Add α] [Sub α] [Mul α] [Div α] [Neg α] [OfNat α 0] [OfNat α 1] [NatCast α] [Max α]
  [LT α] [DecidableLT α] [BEq α] [Transc α]
  [Add κ] [Sub κ] [Mul κ] [Div κ] [OfNat κ 0] [OfNat κ 1] [CxOps α κ]
set_option linter.unusedSectionVars false

/-- `ComplexAngularCentralGaussianTrainer._fit` up to `eigh` as the mixture calls it: observations `(..., 1, D, N)`,
saliency and quadratic form `(..., K, N)` -/
theorem cacgFitCovariance_class (tiny : α) (herm : Bool) (y : T κ) (s q : T α) (lead : List Nat)
    (hy : 3 ≤ y.rank) (hs : 2 ≤ s.rank) (hq : 2 ≤ q.rank) :
    fixLead (cacgFitCovariance tiny herm y (some s) q) 3 lead =
      cacgFitCovariance tiny herm (fixLead y 3 lead) (some (fixLead s 2 lead)) (fixLead q 2 lead) := by
  cases herm <;> push_fixLead [cacgFitCovariance]

theorem rank_cacgFitCovariance (tiny : α) (herm : Bool) (y : T κ) (s q : T α) (hy : 3 ≤ y.rank) :
    3 ≤ (cacgFitCovariance tiny herm y (some s) q).rank := by
  cases herm <;> (simp only [cacgFitCovariance, Bool.false_eq_true, ↓reduceIte, if_true, if_false]; rank_tac)

theorem cacgEigenvalueNorm_class (tiny floor : α) (vals : T α) (lead : List Nat) (hl : 2 ≤ vals.rank) :
    fixLead (cacgEigenvalueNorm tiny floor vals) 2 lead = cacgEigenvalueNorm tiny floor (fixLead vals 2 lead) := by
  push_fixLead [cacgEigenvalueNorm]

/-- `ComplexAngularCentralGaussian._log_pdf` as the mixture calls it: parameters with a class axis,
observations `(..., 1, D, N)` -/
theorem cacgLogPdf_class (tiny : α) (vecs : T κ) (vals : T α) (y : T κ) (lead : List Nat)
    (hv : 3 ≤ vecs.rank) (hl : 2 ≤ vals.rank) (hy : 3 ≤ y.rank) :
    fixLead (cacgLogPdf tiny vecs vals y).1 2 lead =
        (cacgLogPdf tiny (fixLead vecs 3 lead) (fixLead vals 2 lead) (fixLead y 3 lead)).1 ∧
    fixLead (cacgLogPdf tiny vecs vals y).2 2 lead =
        (cacgLogPdf tiny (fixLead vecs 3 lead) (fixLead vals 2 lead) (fixLead y 3 lead)).2 := by
  constructor <;> push_fixLead [cacgLogPdf]

theorem cacgmmMStep_fixLead (tiny eps floor : α) (herm : Bool) (eigh : T κ → T κ × T α) (x : T κ) (q aff : T α)
    (sal : Option (T α)) (lead : List Nat)
    (hx : 2 ≤ x.rank) (hq : 2 ≤ q.rank) (ha : 2 ≤ aff.rank) (hs : ∀ s, sal = some s → 1 ≤ s.rank) :
    (cacgmmMStep tiny eps floor herm eigh x q aff sal).fix lead =
      cacgmmMStep tiny eps floor herm eigh (fixLead x 2 lead) (fixLead q 2 lead) (fixLead aff 2 lead)
        (sal.map (fixLead · 1 lead)) := by
  have hx3 : 3 ≤ (expandDims 2 x).rank := by rank_tac
  have hx' : fixLead (expandDims 2 x) 3 lead = expandDims 2 (fixLead x 2 lead) := by push_fixLead [Option.map]
  have hm := rank_maskedAffiliation aff sal ha
  have hcov := cacgFitCovariance_class tiny herm (expandDims 2 x) (maskedAffiliation aff sal) q lead hx3 hm hq
  rw [hx', maskedAffiliation_fixLead aff sal lead ha hs] at hcov
  have hr := rank_cacgFitCovariance tiny herm (expandDims 2 x) (maskedAffiliation aff sal) q hx3
  have hr' : 3 ≤ (cacgFitCovariance tiny herm (expandDims 2 x) (some (maskedAffiliation aff sal)) q).rshape.length := hr
  have hw := estimateMixtureWeight_fixLead eps aff sal lead ha
  have h2 : ((cacgFitCovariance tiny herm (expandDims 2 x) (some (maskedAffiliation aff sal)) q).rshape.take 2).length = 2 := by
    simp only [List.length_take]; omega
  have h1 : ((cacgFitCovariance tiny herm (expandDims 2 x) (some (maskedAffiliation aff sal)) q).rshape.take 1).length = 1 := by
    simp only [List.length_take]; omega
  have hvecs := mapCore_fixLead_class 2 2 1 _ (fun m => (eigh m).1) _ lead h2 hr
  have hvals := mapCore_fixLead_class 2 1 1 _ (fun m => (eigh m).2) _ lead h1 hr
  have ht2 : ∀ (u : T κ), (fixLead u 3 lead).rshape.take 2 = u.rshape.take 2 := by
    intro u; simp only [fixLead, List.take_take]; rfl
  have ht1 : ∀ (u : T κ), (fixLead u 3 lead).rshape.take 1 = u.rshape.take 1 := by
    intro u; simp only [fixLead, List.take_take]; rfl
  simp only [Cacgmm.fix, cacgmmMStep, Cacgmm.mk.injEq]
  refine ⟨hw, ?_, ?_⟩
  · rw [← hcov, ht2]; exact hvecs
  · rw [cacgEigenvalueNorm_class tiny floor _ lead (by rw [rank_mapCore']; omega), ← hcov, ht1]
    exact congrArg _ hvals

theorem cacgmmMStep_ranks (tiny eps floor : α) (herm : Bool) (eigh : T κ → T κ × T α) (x : T κ) (q aff : T α)
    (sal : Option (T α)) (hx : 2 ≤ x.rank) (ha : 2 ≤ aff.rank) :
    2 ≤ (cacgmmMStep tiny eps floor herm eigh x q aff sal).weight.rank ∧
    3 ≤ (cacgmmMStep tiny eps floor herm eigh x q aff sal).vecs.rank ∧
    2 ≤ (cacgmmMStep tiny eps floor herm eigh x q aff sal).vals.rank := by
  have hx3 : 3 ≤ (expandDims 2 x).rank := by rank_tac
  have hr := rank_cacgFitCovariance tiny herm (expandDims 2 x) (maskedAffiliation aff sal) q hx3
  have hr' : 3 ≤ (cacgFitCovariance tiny herm (expandDims 2 x) (some (maskedAffiliation aff sal)) q).rshape.length := hr
  refine ⟨?_, ?_, ?_⟩
  · cases sal <;> (simp only [cacgmmMStep, estimateMixtureWeight]; rank_tac)
  · simp only [cacgmmMStep, rank_mapCore', List.length_take]; omega
  · simp only [cacgmmMStep, cacgEigenvalueNorm, rank_map, rank_zipWith, rank_mapCore', List.length_take]; omega

theorem cacgmmPredict_fixLead (tiny : α) (clip : Option α) (m : Cacgmm α κ) (y : T κ) (lead : List Nat)
    (hw : 2 ≤ m.weight.rank) (hv : 3 ≤ m.vecs.rank) (hl : 2 ≤ m.vals.rank) (hy : 2 ≤ y.rank) :
    fixLead (cacgmmPredict tiny clip m y).1 2 lead = (cacgmmPredict tiny clip (m.fix lead) (fixLead y 2 lead)).1 ∧
    fixLead (cacgmmPredict tiny clip m y).2 2 lead = (cacgmmPredict tiny clip (m.fix lead) (fixLead y 2 lead)).2 := by
  have hy3 : 3 ≤ (expandDims 2 y).rank := by rank_tac
  have hlp := cacgLogPdf_class tiny m.vecs m.vals (expandDims 2 y) lead hv hl hy3
  have hy' : fixLead (expandDims 2 y) 3 lead = expandDims 2 (fixLead y 2 lead) := by push_fixLead [Option.map]
  rw [hy'] at hlp
  have hr : 2 ≤ (cacgLogPdf tiny m.vecs m.vals (expandDims 2 y)).1.rank := by
    simp only [cacgLogPdf]; rank_tac
  constructor
  · simp only [cacgmmPredict, Cacgmm.fix]
    rw [logPdfToAffiliation_fixLead tiny _ _ none clip lead hw hr (by intro m h; cases h), hlp.1]
    rfl
  · simp only [cacgmmPredict, Cacgmm.fix]
    exact hlp.2

theorem cacgmmPredict_ranks (tiny : α) (clip : Option α) (m : Cacgmm α κ) (y : T κ) (hy : 2 ≤ y.rank) :
    2 ≤ (cacgmmPredict tiny clip m y).1.rank ∧ 2 ≤ (cacgmmPredict tiny clip m y).2.rank := by
  constructor
  · cases clip <;> (simp only [cacgmmPredict, logPdfToAffiliation]; rank_tac)
  · simp only [cacgmmPredict, cacgLogPdf]; rank_tac

theorem cacgmmFit_ranks (tiny eps floor : α) (herm : Bool) (clip : Option α) (eigh : T κ → T κ × T α) (y : T κ)
    (aff : T α) (sal : Option (T α)) (hy : 2 ≤ y.rank) (ha : 2 ≤ aff.rank) (n : Nat) :
    2 ≤ (cacgmmFit tiny eps floor herm clip eigh y aff sal n).weight.rank ∧
    3 ≤ (cacgmmFit tiny eps floor herm clip eigh y aff sal n).vecs.rank ∧
    2 ≤ (cacgmmFit tiny eps floor herm clip eigh y aff sal n).vals.rank := by
  cases n with
  | zero => exact cacgmmMStep_ranks tiny eps floor herm eigh y _ aff sal hy ha
  | succ m => exact cacgmmMStep_ranks tiny eps floor herm eigh y _ _ sal hy (cacgmmPredict_ranks _ _ _ _ hy).1

/-- **The EM loop of the cACG mixture trainer acts slice by slice** (first M-step with `quadratic_form = ones`, any number
of iterations) — no hypothesis beyond "the inputs have their core axes" -/
theorem cacgmmFit_fixLead (tiny eps floor : α) (herm : Bool) (clip : Option α) (eigh : T κ → T κ × T α) (y : T κ)
    (aff : T α) (sal : Option (T α)) (lead : List Nat)
    (hy : 2 ≤ y.rank) (ha : 2 ≤ aff.rank) (hs : ∀ s, sal = some s → 1 ≤ s.rank) (n : Nat) :
    (cacgmmFit tiny eps floor herm clip eigh y aff sal n).fix lead =
      cacgmmFit tiny eps floor herm clip eigh (fixLead y 2 lead) (fixLead aff 2 lead) (sal.map (fixLead · 1 lead)) n := by
  induction n with
  | zero =>
    have := cacgmmMStep_fixLead tiny eps floor herm eigh y (const aff.rshape 1) aff sal lead hy
      (by simp only [rank_const]; exact ha) ha hs
    rw [const_fixLead] at this
    exact this
  | succ n ih =>
    obtain ⟨h1, h2, h3⟩ := cacgmmFit_ranks tiny eps floor herm clip eigh y aff sal hy ha n
    have hp := cacgmmPredict_fixLead tiny clip (cacgmmFit tiny eps floor herm clip eigh y aff sal n) y lead h1 h2 h3 hy
    rw [ih] at hp
    have hpr := cacgmmPredict_ranks tiny clip (cacgmmFit tiny eps floor herm clip eigh y aff sal n) y hy
    have := cacgmmMStep_fixLead tiny eps floor herm eigh y
      (cacgmmPredict tiny clip (cacgmmFit tiny eps floor herm clip eigh y aff sal n) y).2
      (cacgmmPredict tiny clip (cacgmmFit tiny eps floor herm clip eigh y aff sal n) y).1 sal lead hy hpr.2 hpr.1 hs
    rw [hp.1, hp.2] at this
    exact this

end cacgmm

/-! ## Part 5: shapes of the Watson-mixture iterates (discharges the shape hypothesis of `cwmmFit_fixLead`),
and the public `fit` methods (normalisation, default saliency, `broadcast_to` of the initial affiliation) -/

/-- (instance-free variant of `goodLead_of_shape` for full matrices, usable for complex-valued tensors) -/
theorem goodLead2_of_shape (cov : T β) (D K : Nat) (Ld lead : List Nat)
    (h : cov.rshape = D :: D :: K :: Ld) (hK : 0 < K) (hpos : ∀ d, d ∈ Ld → 0 < d) (hv : ValidLead Ld lead) :
    GoodLead 2 cov lead := by
  refine ⟨?_, ?_, ?_⟩
  · simp only [T.rank, h, List.length_cons]; omega
  · intro d hd
    simp only [h, List.drop_succ_cons, List.drop_zero, List.mem_cons] at hd
    rcases hd with rfl | hd
    · exact hK
    · exact hpos d hd
  · simp only [h, List.drop_succ_cons, List.drop_zero]; exact hv

section cwmmShapes
variable {κ : Type} [Add α] [Sub α] [Mul α] [Div α] [Neg α] [OfNat α 0] [OfNat α 1] [NatCast α] [Max α]
  [LT α] [DecidableLT α] [BEq α] [Transc α]
  [Add κ] [Sub κ] [Mul κ] [Div κ] [OfNat κ 0] [OfNat κ 1] [CxOps α κ]
set_option linter.unusedSectionVars false

theorem cwmmScatter_shape (y : T κ) (aff : T α) (sal : Option (T α)) (D N K : Nat) (Ld : List Nat)
    (hy : y.rshape = D :: N :: Ld) (ha : aff.rshape = N :: K :: Ld) (hs : ∀ s, sal = some s → s.rshape = N :: Ld) :
    (cwmmScatter y aff sal).rshape = D :: D :: K :: Ld := by
  cases sal with
  | none => shape_simp [cwmmScatter, maskedAffiliation, scatter, conjT, hy, ha]
  | some s =>
    have := hs s rfl
    shape_simp [cwmmScatter, maskedAffiliation, scatter, conjT, hy, ha, this]

theorem getPca_shapes (eigh : T κ → T κ × T α) (psd : T κ) (D K : Nat) (Ld : List Nat)
    (h : psd.rshape = D :: D :: K :: Ld) :
    (getPca eigh psd).1.rshape = D :: K :: Ld ∧ (getPca eigh psd).2.rshape = K :: Ld := by
  constructor <;> simp only [getPca] <;> shape_simp [rshape_selectLast, h]

theorem cwmmMStep_shapes (eps : α) (eigh : T κ → T κ × T α) (kinv : α → α) (y : T κ) (aff : T α) (sal : Option (T α))
    (D N K : Nat) (Ld : List Nat)
    (hy : y.rshape = D :: N :: Ld) (ha : aff.rshape = N :: K :: Ld) (hs : ∀ s, sal = some s → s.rshape = N :: Ld) :
    (cwmmMStep eps eigh kinv y aff sal).weight.rshape = 1 :: K :: Ld ∧
    (cwmmMStep eps eigh kinv y aff sal).mode.rshape = D :: K :: Ld ∧
    (cwmmMStep eps eigh kinv y aff sal).conc.rshape = K :: Ld := by
  have hp := getPca_shapes eigh _ D K Ld (cwmmScatter_shape y aff sal D N K Ld hy ha hs)
  refine ⟨?_, hp.1, ?_⟩
  · cases sal with
    | none => shape_simp [cwmmMStep, estimateMixtureWeight, ha]
    | some s =>
      have := hs s rfl
      shape_simp [cwmmMStep, estimateMixtureWeight, ha, this]
  · simp only [cwmmMStep, rshape_map]; exact hp.2

theorem unitNormCx_shape (tiny : α) (y : T κ) (D : Nat) (L : List Nat) (hy : y.rshape = D :: L) :
    (unitNormCx tiny y).rshape = D :: L := by
  shape_simp [unitNormCx, hy]

theorem cwmmPredict_shape (tiny : α) (lnorm : Nat → α → α) (m : Cwmm α κ) (y : T κ) (D N K : Nat) (Ld : List Nat)
    (hw : m.weight.rshape = 1 :: K :: Ld) (hm : m.mode.rshape = D :: K :: Ld) (hc : m.conc.rshape = K :: Ld)
    (hy : y.rshape = D :: N :: Ld) :
    (cwmmPredict tiny lnorm m y).rshape = N :: K :: Ld := by
  have hyn := unitNormCx_shape tiny y D (N :: Ld) hy
  shape_simp [cwmmPredict, logPdfToAffiliation, watsonLogPdf, conjT, hw, hm, hc, hyn]


theorem cwmmFit_shapes (tiny eps : α) (eigh : T κ → T κ × T α) (kinv : α → α) (lnorm : Nat → α → α) (y : T κ)
    (init : T α) (sal : Option (T α)) (D N K : Nat) (Ld : List Nat)
    (hy : y.rshape = D :: N :: Ld) (hi : init.rshape = N :: K :: Ld) (hs : ∀ s, sal = some s → s.rshape = N :: Ld)
    (n : Nat) :
    (cwmmFit tiny eps eigh kinv lnorm y init sal n).weight.rshape = 1 :: K :: Ld ∧
    (cwmmFit tiny eps eigh kinv lnorm y init sal n).mode.rshape = D :: K :: Ld ∧
    (cwmmFit tiny eps eigh kinv lnorm y init sal n).conc.rshape = K :: Ld := by
  induction n with
  | zero => exact cwmmMStep_shapes eps eigh kinv y init sal D N K Ld hy hi hs
  | succ n ih =>
    obtain ⟨h1, h2, h3⟩ := ih
    exact cwmmMStep_shapes eps eigh kinv y _ sal D N K Ld hy (cwmmPredict_shape tiny lnorm _ y D N K Ld h1 h2 h3 hy) hs

theorem cwmmAffiliation_shape (tiny eps : α) (eigh : T κ → T κ × T α) (kinv : α → α) (lnorm : Nat → α → α) (y : T κ)
    (init : T α) (sal : Option (T α)) (D N K : Nat) (Ld : List Nat)
    (hy : y.rshape = D :: N :: Ld) (hi : init.rshape = N :: K :: Ld) (hs : ∀ s, sal = some s → s.rshape = N :: Ld)
    (k : Nat) :
    (cwmmAffiliation tiny eps eigh kinv lnorm y init sal k).rshape = N :: K :: Ld := by
  cases k with
  | zero => exact hi
  | succ k =>
    obtain ⟨h1, h2, h3⟩ := cwmmFit_shapes tiny eps eigh kinv lnorm y init sal D N K Ld hy hi hs k
    exact cwmmPredict_shape tiny lnorm _ y D N K Ld h1 h2 h3 hy

/-- **`CWMMTrainer._fit` on well-shaped inputs**: observations `(*lead, N, D)`, initial affiliation `(*lead, K, N)`,
saliency `(*lead, N)` or `None`, `K > 0`, no empty leading axis: no hypothesis on the iterates is left -/
theorem cwmmFit_fixLead_shaped (tiny eps : α) (eigh : T κ → T κ × T α) (kinv : α → α) (lnorm : Nat → α → α) (y : T κ)
    (init : T α) (sal : Option (T α)) (D N K : Nat) (Ld lead : List Nat)
    (hy : y.rshape = D :: N :: Ld) (hi : init.rshape = N :: K :: Ld) (hs : ∀ s, sal = some s → s.rshape = N :: Ld)
    (hK : 0 < K) (hpos : ∀ d, d ∈ Ld → 0 < d) (hv : ValidLead Ld lead) (n : Nat) :
    (cwmmFit tiny eps eigh kinv lnorm y init sal n).fix lead =
      cwmmFit tiny eps eigh kinv lnorm (fixLead y 2 lead) (fixLead init 2 lead) (sal.map (fixLead · 1 lead)) n := by
  apply cwmmFit_fixLead
  · simp only [T.rank, hy, List.length_cons]; omega
  · simp only [T.rank, hi, List.length_cons]; omega
  · intro s h; simp only [T.rank, hs s h, List.length_cons]; omega
  · intro k _
    exact goodLead2_of_shape _ D K Ld lead
      (cwmmScatter_shape y _ sal D N K Ld hy (cwmmAffiliation_shape tiny eps eigh kinv lnorm y init sal D N K Ld hy hi hs k) hs)
      hK hpos hv

/-- `CWMMTrainer.fit` (`normalize_observation`, default saliency, `_fit`) on well-shaped inputs -/
theorem cwmmTrainerFit_fixLead_shaped (tiny eps : α) (eigh : T κ → T κ × T α) (kinv : α → α) (lnorm : Nat → α → α)
    (y : T κ) (init : T α) (sal : Option (T α)) (D N K : Nat) (Ld lead : List Nat)
    (hy : y.rshape = D :: N :: Ld) (hi : init.rshape = N :: K :: Ld) (hs : ∀ s, sal = some s → s.rshape = N :: Ld)
    (hK : 0 < K) (hpos : ∀ d, d ∈ Ld → 0 < d) (hv : ValidLead Ld lead) (n : Nat) :
    (cwmmTrainerFit tiny eps eigh kinv lnorm y init sal n).fix lead =
      cwmmTrainerFit tiny eps eigh kinv lnorm (fixLead y 2 lead) (fixLead init 2 lead) (sal.map (fixLead · 1 lead)) n := by
  have hyr : 2 ≤ y.rank := by simp only [T.rank, hy, List.length_cons]; omega
  have hyn := unitNormCx_shape tiny y D (N :: Ld) hy
  cases sal with
  | none =>
    simp only [cwmmTrainerFit, Option.map]
    rw [cwmmFit_fixLead_shaped tiny eps eigh kinv lnorm _ init _ D N K Ld lead hyn hi
      (by intro s h; cases h; shape_simp [hi]) hK hpos hv, unitNormCx_fixLead _ _ _ hyr]
    simp only [Option.map]
    rw [onesLike_fixLead]
  | some s =>
    simp only [cwmmTrainerFit, Option.map]
    rw [cwmmFit_fixLead_shaped tiny eps eigh kinv lnorm _ init _ D N K Ld lead hyn hi
      (by intro s' h; cases h; exact hs s rfl) hK hpos hv, unitNormCx_fixLead _ _ _ hyr]
    rfl

end cwmmShapes

section cacgmmTop
variable {κ : Type} [Add α] [Sub α] [Mul α] [Div α] [Neg α] [OfNat α 0] [OfNat α 1] [NatCast α] [Max α]
  [LT α] [DecidableLT α] [BEq α] [Transc α]
  [Add κ] [Sub κ] [Mul κ] [Div κ] [OfNat κ 0] [OfNat κ 1] [CxOps α κ]
set_option linter.unusedSectionVars false

/-- broadcasting a slice (which has no leading axes left) to no leading axes changes nothing -/
theorem broadcastLead_nil_fixLead (t : T β) (c : Nat) (l : List Nat) :
    broadcastLead c [] (fixLead t c l) = fixLead t c l := by
  apply T.ext'
  · simp only [broadcastLead, fixLead, List.take_take, Nat.min_self, List.append_nil]
  · intro idx
    simp only [broadcastLead, fixLead]
    have : bidx ((t.rshape.take c).drop c) (idx.drop c) = [] := by
      apply ext_getD <;> simp [List.length_take]
    rw [this, List.append_nil]
    have h2 := padTake_padTake_append c idx []
    rw [List.append_nil] at h2
    rw [h2]

theorem bshape_setAt_one (s : List Nat) (k : Nat) (hk : k < s.length) : bshape s (setAt 1 s k 1) = s := by
  apply ext_getD
  · simp; omega
  · intro i hi
    simp only [length_bshape, length_setAt] at hi
    have hi' : i < s.length := by omega
    rw [getD_default_irrel s i 0 1 hi']
    simp only [getD_bshape, length_setAt, setAt, getD_append', getD_cons', getD_drop', getD_padTake, length_padTake]
    idx_cases

/-- the leading sizes of `normalize_observation(y)` are those of `y` -/
theorem cacgNormalize_lead (tiny : α) (y : T κ) (hy : 2 ≤ y.rank) :
    (cacgNormalize tiny y).rshape.drop 2 = y.rshape.drop 2 := by
  have hy' : 2 ≤ y.rshape.length := hy
  simp only [cacgNormalize, swapaxes, zipWith, map, reduceKeep]
  rw [swapAt_drop _ 2 0 1 (by omega) (by omega), bshape_setAt_one _ 0 (by omega)]

theorem rank_cacgNormalize (tiny : α) (y : T κ) (hy : 2 ≤ y.rank) : 2 ≤ (cacgNormalize tiny y).rank := by
  simp only [cacgNormalize]; rank_tac

/-- **`CACGMMTrainer.fit`** (`normalize_observation`, `broadcast_to` of an initial affiliation whose leading axes may be
singletons, first M-step with `quadratic_form = ones`, any number of iterations) acts slice by slice: the slice of the
fit of the stack is the fit of the slice, started from the slice of the initial affiliation (singleton axes read
as if repeated) -/
theorem cacgmmTrainerFit_fixLead (tiny eps floor : α) (herm : Bool) (clip : Option α) (eigh : T κ → T κ × T α) (y : T κ)
    (init : T α) (sal : Option (T α)) (lead : List Nat)
    (hy : 2 ≤ y.rank) (hi : 2 ≤ init.rank) (hs : ∀ s, sal = some s → 1 ≤ s.rank)
    (hlen : (init.rshape.drop 2).length ≤ (y.rshape.drop 2).length)
    (hcompat : ∀ i, i < (init.rshape.drop 2).length → (init.rshape.drop 2).getD i 1 ≠ 1 → (y.rshape.drop 2).getD i 1 ≠ 1)
    (n : Nat) :
    (cacgmmTrainerFit tiny eps floor herm clip eigh y init sal n).fix lead =
      cacgmmTrainerFit tiny eps floor herm clip eigh (fixLead y 2 lead) (fixLead init 2 lead)
        (sal.map (fixLead · 1 lead)) n := by
  have hyn := rank_cacgNormalize tiny y hy
  have hl := cacgNormalize_lead tiny y hy
  have hb : 2 ≤ (broadcastLead 2 ((cacgNormalize tiny y).rshape.drop 2) init).rank := by
    simp only [T.rank, broadcastLead, List.length_append, List.length_take]
    have : 2 ≤ init.rshape.length := hi
    omega
  simp only [cacgmmTrainerFit]
  rw [cacgmmFit_fixLead tiny eps floor herm clip eigh _ _ sal lead hyn hb hs,
    broadcastLead_fixLead init 2 _ lead hi (by rw [hl]; exact hlen) (by rw [hl]; exact hcompat),
    cacgNormalize_fixLead tiny y lead hy]
  have : (cacgNormalize tiny (fixLead y 2 lead)).rshape.drop 2 = [] := by
    rw [← cacgNormalize_fixLead tiny y lead hy, rshape_fixLead]; exact drop_take_self _ _
  rw [this, broadcastLead_nil_fixLead]

end cacgmmTop

end PbBss.Tensor

import PbBss.Model.Basic
import Mathlib.Analysis.SpecialFunctions.Log.Basic
import Mathlib.Algebra.BigOperators.Fin
import Mathlib.Tactic

open PbBss

noncomputable instance : Transc ℝ := ⟨Real.exp, Real.log, Real.sqrt⟩

@[simp] theorem transc_exp_real (x : ℝ) : Transc.exp x = Real.exp x := rfl

theorem vsum_eq_sum {n : Nat} (f : Fin n → ℝ) : vsum f = ∑ i, f i := by
  unfold vsum
  induction n with
  | zero => simp [Fin.foldl_zero]
  | succ n ih =>
    rw [Fin.foldl_succ_last, Fin.sum_univ_castSucc]
    simp only [ih]

theorem vmax_ge {n : Nat} (f : Fin (n+1) → ℝ) (k : Fin (n+1)) : f k ≤ vmax f := by
  unfold vmax
  induction n with
  | zero =>
    simp [Fin.foldl_zero]
    have : k = 0 := by omega
    simp [this]
  | succ n ih =>
    rw [Fin.foldl_succ_last]
    rcases Fin.eq_castSucc_or_eq_last k with ⟨j, rfl⟩ | rfl
    · have := ih (fun i => f i.castSucc) j
      simp only [Fin.succ_castSucc] at *
      exact le_trans (by simpa using this) (le_max_left _ _)
    · exact le_max_right _ _

theorem affiliation_sum_one {K : Nat} (tiny : ℝ) (w lp : Fin (K+1) → ℝ)
    (hw : ∀ k, 0 ≤ w k)
    (hden : tiny ≤ ∑ k, Real.exp (lp k - vmax lp) * w k) (htiny : 0 < tiny) :
    ∑ k, affiliation tiny w lp k = 1 := by
  unfold affiliation
  simp only [transc_exp_real, vsum_eq_sum]
  rw [max_eq_left hden, ← Finset.sum_div]
  exact div_self (by linarith)

theorem affiliation_bayes {K : Nat} (tiny : ℝ) (w lp : Fin (K+1) → ℝ)
    (hden : tiny ≤ ∑ k, Real.exp (lp k - vmax lp) * w k) (htiny : 0 < tiny) (k) :
    affiliation tiny w lp k = w k * Real.exp (lp k) / ∑ j, w j * Real.exp (lp j) := by
  unfold affiliation
  simp only [transc_exp_real, vsum_eq_sum]
  rw [max_eq_left hden]
  have hm : 0 < Real.exp (vmax lp) := Real.exp_pos _
  have : ∀ j, Real.exp (lp j - vmax lp) * w j = w j * Real.exp (lp j) / Real.exp (vmax lp) := by
    intro j; rw [Real.exp_sub]; ring
  simp only [this]
  rw [← Finset.sum_div]
  field_simp


import PbBss.Proofs.RealInst
import Mathlib.Analysis.SpecialFunctions.Log.Basic
import Mathlib.Algebra.BigOperators.Fin
import Mathlib.Tactic

open PbBss

theorem affiliation_sum_one {K : Nat} (tiny : ℝ) (w lp : Fin (K+1) → ℝ)
    (hw : ∀ k, 0 ≤ w k)
    (hden : tiny ≤ ∑ k, Real.exp (lp k - vmax lp) * w k) (htiny : 0 < tiny) :
    ∑ k, affiliation tiny w lp k = 1 := by
  unfold affiliation
  simp only [transc_exp_real, vsum_eq_sum]
  rw [max_eq_left hden, ← Finset.sum_div]
  exact div_self (by linarith)

theorem affiliation_bayes {K : Nat} (tiny : ℝ) (w lp : Fin (K+1) → ℝ)
    (hden : tiny ≤ ∑ k, Real.exp (lp k - vmax lp) * w k) (htiny : 0 < tiny) (k) :
    affiliation tiny w lp k = w k * Real.exp (lp k) / ∑ j, w j * Real.exp (lp j) := by
  unfold affiliation
  simp only [transc_exp_real, vsum_eq_sum]
  rw [max_eq_left hden]
  have hm : 0 < Real.exp (vmax lp) := Real.exp_pos _
  have : ∀ j, Real.exp (lp j - vmax lp) * w j = w j * Real.exp (lp j) / Real.exp (vmax lp) := by
    intro j; rw [Real.exp_sub]; ring
  simp only [this]
  rw [← Finset.sum_div]
  field_simp

